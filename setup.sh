#!/bin/sh
# Build the whole framework from files on disk, offline: Lean project (models, theorems,
# drivers) and the Rust harness against /repo's working tree. A part that fails to build is
# reported by the check that needs it, so this script carries on and always exits 0 unless the
# tool-chains themselves are missing.
cd "$(dirname "$0")"
export CARGO_NET_OFFLINE=true
command -v lake >/dev/null || { echo "lake not found"; exit 1; }
command -v cargo >/dev/null || { echo "cargo not found"; exit 1; }
python3 translate/run_all.py
DRV=$(python3 checks/list.py drivers)
(cd lean && lake build GluonModel $DRV) || echo "setup: some Lean targets failed (reported per check)"
BINS=""
for b in $(python3 checks/list.py harness); do BINS="$BINS --bin $b"; done
(cd harness && cargo build --offline $BINS) || echo "setup: harness build failed (reported per check)"
exit 0
