#!/bin/sh
# Build the whole framework from files on disk, offline: Lean project (models, theorems,
# drivers) and the Rust harness against /repo's working tree.
set -e
cd "$(dirname "$0")"
export CARGO_NET_OFFLINE=true
python3 translate/run_all.py
DRV=$(python3 checks/list.py drivers)
(cd lean && lake build GluonModel $DRV)
(cd harness && cargo build --offline --bins)
