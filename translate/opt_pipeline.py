#!/usr/bin/env python3
"""Extract the ACTIVE optimisation pipeline of gluon into lean/GluonModel/Generated/OptPipeline.lean.

Sources read:
  vm/src/core/optimize.rs   `pub fn optimize`: the value of `const INLINE: bool`, the passes called before the
                            `if INLINE` split (in order), and which identifiers are used only inside the INLINE arm;
  vm/src/core/dead_code.rs  the guard of the `Expr::Call` arm of the dependency graph (the rule that decides which
                            calls keep their binding alive), whitespace-normalised;
  src/compiler_pipeline.rs / src/query.rs   that `optimize` is reached exactly under `settings.optimize`.

Theorem `pipeline_is_modelled` (Props/C04.lean) states that these generated constants equal the pipeline the Lean
model implements; enabling the inliner, adding/removing/reordering a pass or changing the call rule breaks a proof
obligation.  The translator fails when the source no longer has the shape it reads.
"""
import os, re


def strip_comments(src):
    out, i, n = [], 0, len(src)
    while i < n:
        if src.startswith("//", i):
            while i < n and src[i] != "\n":
                i += 1
            continue
        if src.startswith("/*", i):
            j = src.find("*/", i + 2)
            i = n if j < 0 else j + 2
            continue
        if src[i] == '"':
            j = i + 1
            while j < n and src[j] != '"':
                j += 2 if src[j] == "\\" else 1
            out.append(src[i:j + 1])
            i = j + 1
            continue
        out.append(src[i])
        i += 1
    return "".join(out)


def block_after(src, start):
    """src[start] == '{' -> text of the balanced block (without braces), index after it."""
    assert src[start] == "{"
    depth, i = 0, start
    while i < len(src):
        c = src[i]
        if c == '"':
            i += 1
            while src[i] != '"':
                i += 2 if src[i] == "\\" else 1
        elif c == "'" and i + 2 < len(src) and src[i + 2] == "'":
            i += 2
        elif c == "{":
            depth += 1
        elif c == "}":
            depth -= 1
            if depth == 0:
                return src[start + 1:i], i + 1
        i += 1
    raise ValueError("unbalanced block")


PASSES = ["optimize_unnecessary_allocation", "purity", "used_bindings", "cycles", "dead_code_elimination",
          "analyze_costs", "compile_expr"]


def lean_str(s):
    return '"' + s.replace("\\", "\\\\").replace('"', '\\"') + '"'


def run(repo, lean):
    opt = strip_comments(open(os.path.join(repo, "vm/src/core/optimize.rs")).read())
    m = re.search(r"pub fn optimize<'a>\s*\(", opt)
    if not m:
        raise ValueError("optimize.rs: `pub fn optimize` not found")
    body, _ = block_after(opt, opt.index("{", opt.index("Global<CoreExpr>", m.end())))
    mi = re.search(r"const\s+INLINE\s*:\s*bool\s*=\s*(true|false)\s*;", body)
    if not mi:
        raise ValueError("optimize.rs: `const INLINE: bool = …;` not found in optimize")
    inline = mi.group(1) == "true"
    mif = re.search(r"if\s+INLINE\s*\{", body)
    if not mif:
        raise ValueError("optimize.rs: `if INLINE {` not found")
    before = body[:mif.start()]
    inl_block, after_inl = block_after(body, mif.end() - 1)
    mel = re.match(r"\s*else\s*\{", body[after_inl:])
    if not mel:
        raise ValueError("optimize.rs: else arm of `if INLINE` not found")
    else_block, _ = block_after(body, after_inl + mel.end() - 1)

    def calls(text):
        found = []
        for mm in re.finditer(r"\b([a-z_]+)\s*(?:::<[^>]*>)?\s*\(", text):
            if mm.group(1) in PASSES:
                found.append(mm.group(1))
        return found

    active = calls(before) + calls(inl_block if inline else else_block)
    # results that are computed but only consumed by the inliner arm
    only_inliner = []
    for v in ["pure_symbols", "costs", "cyclic_bindings"]:
        uses_before = len(re.findall(r"\b%s\b" % v, before))
        uses_else = len(re.findall(r"\b%s\b" % v, else_block))
        # one occurrence before the split is the `let`; `cyclic_bindings` is also passed to analyze_costs
        if uses_else == 0:
            only_inliner.append(v)

    dc = strip_comments(open(os.path.join(repo, "vm/src/core/dead_code.rs")).read())
    mc = re.search(r"Expr::Call\(\s*f\s*,\s*\.\.\s*\)\s*if\s*(match\s+f\s*\{.*?\})\s*=>", dc, re.S)
    if mc:
        guard = re.sub(r"\s+", " ", mc.group(1)).strip()
    else:
        mc2 = re.search(r"(Expr::Call\([^=]*?)=>\s*\{\s*for window in", dc, re.S)
        if not mc2:
            raise ValueError("dead_code.rs: the Call arm of DepGraph::visit_expr was not found")
        guard = re.sub(r"\s+", " ", mc2.group(1)).strip()
    # where the optimiser is switched
    switched = []
    for f in ["src/compiler_pipeline.rs", "src/query.rs"]:
        s = strip_comments(open(os.path.join(repo, f)).read())
        n = len(re.findall(r"if\s+settings\.optimize\s*\{\s*core::optimize::optimize\(", s))
        n_all = len(re.findall(r"optimize::optimize\(", s))
        switched.append((f, n, n_all))
    guarded = all(n == n_all and n >= 1 for (_, n, n_all) in switched)

    out = []
    out.append("/- GENERATED by translate/opt_pipeline.py from vm/src/core/optimize.rs, vm/src/core/dead_code.rs,")
    out.append("   src/compiler_pipeline.rs, src/query.rs — do not edit. -/")
    out.append("namespace GluonModel.Generated.OptPipeline")
    out.append("")
    out.append("/-- `const INLINE: bool` of `optimize` (optimize.rs). -/")
    out.append("def inlineEnabled : Bool := %s" % ("true" if inline else "false"))
    out.append("")
    out.append("/-- Passes called by `optimize`, in source order, on the path selected by INLINE. -/")
    out.append("def activePasses : List String := [%s]" % ", ".join(lean_str(p) for p in active))
    out.append("")
    out.append("/-- Results computed before the split that only the inliner arm reads. -/")
    out.append("def onlyReadByInliner : List String := [%s]" % ", ".join(lean_str(p) for p in only_inliner))
    out.append("")
    out.append("/-- Guard of the `Expr::Call` arm of DepGraph::visit_expr (dead_code.rs), whitespace-normalised. -/")
    out.append("def callRuleGuard : String := %s" % lean_str(guard))
    out.append("")
    out.append("/-- Every call of `core::optimize::optimize` in the pipeline sits under `if settings.optimize`. -/")
    out.append("def optimizeGuardedBySetting : Bool := %s" % ("true" if guarded else "false"))
    out.append("")
    out.append("end GluonModel.Generated.OptPipeline")
    path = os.path.join(lean, "GluonModel", "Generated", "OptPipeline.lean")
    text = "\n".join(out) + "\n"
    old = open(path).read() if os.path.exists(path) else None
    if old != text:
        open(path, "w").write(text)
    return {"inline": inline, "active": active, "only_inliner": only_inliner, "guard": guard, "switched": switched}


if __name__ == "__main__":
    print(run("/repo", os.path.join(os.path.dirname(os.path.dirname(os.path.abspath(__file__))), "lean")))
