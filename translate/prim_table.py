#!/usr/bin/env python3
"""Extract every `name => primitive!(arity, path, …)` entry of the std primitive tables of gluon into

  lean/GluonModel/Generated/PrimTable.lean     (theorems of C06 quantify over `primTable`)
  harness/src/bin/c06/prim_table.json          (the same table, `include_str!`-ed by the C06 harness)

Sources read: src/lib.rs (module name -> load function), vm/src/primitives.rs, vm/src/lazy.rs, vm/src/channel.rs, src/std_lib/{io,regex,random}.rs.
Entries written `primitive!(n, async fn f)` get kind "async" (they complete through Context::return_future).
The translator fails (=> the check reports a translation problem) when the source no longer has the shape
it reads: a registered loader of one of those files that yields no entry, or a `primitive!` it cannot parse.
"""
import json, os, re

FILES = {
    "crate::vm::primitives": "vm/src/primitives.rs",
    "crate::std_lib::io": "src/std_lib/io.rs",
    "crate::std_lib::regex": "src/std_lib/regex.rs",
    "crate::std_lib::random": "src/std_lib/random.rs",
    "crate::vm::lazy": "vm/src/lazy.rs",
    "crate::vm::channel": "vm/src/channel.rs",
}


def strip_comments(src):
    out, i, n = [], 0, len(src)
    while i < n:
        c = src[i]
        if src.startswith("//", i):
            while i < n and src[i] != "\n":
                i += 1
            continue
        if src.startswith("/*", i):
            j = src.find("*/", i + 2)
            i = n if j < 0 else j + 2
            continue
        if c == '"':
            j = i + 1
            while j < n and src[j] != '"':
                j += 2 if src[j] == "\\" else 1
            out.append(src[i:j + 1])
            i = j + 1
            continue
        if c == "r" and src.startswith('r#"', i):
            j = src.find('"#', i + 3)
            out.append('""')
            i = j + 2
            continue
        out.append(c)
        i += 1
    return "".join(out)


def balanced(src, i, open_c, close_c):
    """src[i] == open_c; returns index just after the matching close (strings skipped)."""
    assert src[i] == open_c
    depth, n = 0, len(src)
    while i < n:
        c = src[i]
        if c == '"':
            i += 1
            while i < n and src[i] != '"':
                i += 2 if src[i] == "\\" else 1
        elif c == "'" and i + 2 < n and (src[i + 2] == "'" or (src[i + 1] == "\\" and src[i + 3] == "'")):
            i += 3 if src[i + 2] == "'" else 4
            continue
        elif c in "([{":
            depth += 1
        elif c in ")]}":
            depth -= 1
            if depth == 0:
                return i + 1
        i += 1
    raise ValueError("unbalanced")


def split_top(s):
    parts, depth, cur, i, n = [], 0, [], 0, len(s)
    while i < n:
        c = s[i]
        if c == '"':
            j = i + 1
            while j < n and s[j] != '"':
                j += 2 if s[j] == "\\" else 1
            cur.append(s[i:j + 1])
            i = j + 1
            continue
        if c in "([{":
            depth += 1
        elif c in ")]}":
            depth -= 1
        elif c == "<" and i > 0 and s[i - 1] == ":":   # turbofish
            depth += 1
        elif c == ">" and depth > 0 and i > 0 and s[i - 1] != "-" and s[i - 1] != "=" and "::<" in "".join(cur):
            depth -= 1
        if c == "," and depth == 0:
            parts.append("".join(cur).strip())
            cur = []
        else:
            cur.append(c)
        i += 1
    if "".join(cur).strip():
        parts.append("".join(cur).strip())
    return parts


def fn_body(src, name):
    m = re.search(r"\bfn\s+%s\s*(<[^>]*>)?\s*\(" % re.escape(name), src)
    if not m:
        return None
    i = src.index("{", balanced(src, src.index("(", m.start()), "(", ")") - 1)
    return src[i:balanced(src, i, "{", "}")]


# `name => …` or `(rust_ident "gluon name") => …`
ENTRY = re.compile(r"(?:\(\s*\w+\s+\"(?P<q>\w+)\"\s*\)|(r#)?(?P<n>[A-Za-z_]\w*))\s*=>\s*(?P<w>record!\s*\{|primitive!\s*\(|primitive::<|TypedBytecode::<)")


def entries_of(body):
    """[(field path, arity, rust path, kind)] of one loader body."""
    out = []

    def walk(text, prefix):
        i = 0
        while True:
            m = ENTRY.search(text, i)
            if not m:
                return
            name, what = (m.group('q') or m.group('n')), m.group('w')
            if what.startswith("record!"):
                b = m.end() - 1
                e = balanced(text, b, "{", "}")
                walk(text[b + 1:e - 1], prefix + [name])
                i = e
            elif what.startswith("primitive!"):
                b = m.end() - 1
                e = balanced(text, b, "(", ")")
                args = split_top(text[b + 1:e - 1])
                arity = int(args[0])
                rest = args[1:]
                is_async = False
                if rest and rest[0].startswith("async fn "):
                    rest[0] = rest[0][len("async fn "):].strip()
                    is_async = True
                if rest[0].startswith('"'):
                    path = rest[0].strip('"')
                    func = rest[1] if len(rest) > 1 else path
                    if func.startswith("async fn "):
                        func = func[len("async fn "):].strip()
                        is_async = True
                else:
                    path, func = rest[0], rest[0]
                func = re.sub(r"\s+", " ", func)
                out.append((".".join(prefix + [name]), arity, re.sub(r"\s+", "", path), func,
                            "async" if is_async else "primitive"))
                i = e
            elif what.startswith("primitive::<"):
                # primitive::<fn(A, B) -> R>("name", path)
                b = text.index("fn", m.end())
                pb = text.index("(", b)
                pe = balanced(text, pb, "(", ")")
                arity = len(split_top(text[pb + 1:pe - 1]))
                cb = text.index("(", text.index(">", pe))
                ce = balanced(text, cb, "(", ")")
                args = split_top(text[cb + 1:ce - 1])
                out.append((".".join(prefix + [name]), arity, args[0].strip('"'), re.sub(r"\s+", " ", args[1]), "raw"))
                i = ce
            else:  # TypedBytecode: not an extern "C" primitive; recorded for completeness
                cb = text.index("(", m.end())
                ce = balanced(text, cb, "(", ")")
                args = split_top(text[cb + 1:ce - 1])
                out.append((".".join(prefix + [name]), int(args[1]), args[0].strip('"'), args[2], "bytecode"))
                i = ce

    walk(body, [])
    return out


def lean_str(s):
    return '"' + s.replace("\\", "\\\\").replace('"', '\\"') + '"'


def run(repo="/repo", lean=None):
    lean = lean or os.path.join(os.path.dirname(os.path.dirname(os.path.abspath(__file__))), "lean")
    lib = strip_comments(open(os.path.join(repo, "src/lib.rs"), encoding="utf-8").read())
    mods, skipped = [], []
    for m in re.finditer(r'"(std\.[\w.]+)"\s*,\s*(crate::[\w:]+)', lib):
        name, loader = m.group(1), m.group(2)
        base, fn = loader.rsplit("::", 1)
        if (name, base, fn) in mods:
            continue
        if base in FILES:
            mods.append((name, base, fn))
        else:
            skipped.append(name)
    if not mods:
        raise ValueError("no extern module registrations found in src/lib.rs")
    srcs = {}
    table = []
    for name, base, fn in mods:
        if base not in srcs:
            srcs[base] = strip_comments(open(os.path.join(repo, FILES[base]), encoding="utf-8").read())
        body = fn_body(srcs[base], fn)
        if body is None:
            raise ValueError(f"loader {base}::{fn} of module {name} not found")
        es = entries_of(body)
        if not es:
            raise ValueError(f"loader {base}::{fn} of module {name} has no primitive entries")
        n_prim = len(re.findall(r"primitive!\s*\(", body))
        if n_prim != len([e for e in es if e[4] in ("primitive", "async")]):
            raise ValueError(f"loader {fn}: {n_prim} primitive! uses, {len(es)} parsed")
        for field, arity, path, func, kind in es:
            table.append({"module": name, "field": field, "name": name + "." + field, "arity": arity,
                          "path": path, "func": func, "kind": kind, "file": FILES[base]})
    names = [t["name"] for t in table]
    if len(set(names)) != len(names):
        raise ValueError("duplicate primitive names")
    out = ["/-! GENERATED by translate/prim_table.py from /repo (vm/src/primitives.rs, src/std_lib/{io,regex,random}.rs,",
           "    src/lib.rs) — do not edit. One entry per `field => primitive!(arity, path…)` of a registered extern module. -/",
           "namespace GluonModel.Generated", "",
           "structure PrimEntry where",
           "  module : String", "  field : String", "  name : String", "  arity : Nat", "  path : String", "  kind : String",
           "  deriving Repr, DecidableEq", "",
           "def primTable : List PrimEntry := ["]
    rows = []
    for t in table:
        rows.append("  ⟨%s, %s, %s, %d, %s, %s⟩" % (lean_str(t["module"]), lean_str(t["field"]), lean_str(t["name"]),
                                                      t["arity"], lean_str(t["path"]), lean_str(t["kind"])))
    out.append(",\n".join(rows))
    out.append("]")
    out.append("")
    out.append("/-- Extern modules registered in src/lib.rs whose loaders live in files this translator does not read. -/")
    out.append("def notExtracted : List String := [" + ", ".join(lean_str(s) for s in sorted(set(skipped))) + "]")
    out.append("")
    out.append("end GluonModel.Generated")
    text = "\n".join(out) + "\n"
    gen = os.path.join(lean, "GluonModel", "Generated")
    os.makedirs(gen, exist_ok=True)
    p = os.path.join(gen, "PrimTable.lean")
    if not os.path.exists(p) or open(p, encoding="utf-8").read() != text:
        open(p, "w", encoding="utf-8").write(text)
    hj = os.path.join(os.path.dirname(lean), "harness", "src", "bin", "c06", "prim_table.json")
    os.makedirs(os.path.dirname(hj), exist_ok=True)
    jt = json.dumps(table, indent=0, sort_keys=True)
    if not os.path.exists(hj) or open(hj).read() != jt:
        open(hj, "w").write(jt)
    return {"entries": len(table), "modules": len(mods), "not_extracted": sorted(set(skipped))}


if __name__ == "__main__":
    print(run())
