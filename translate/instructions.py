#!/usr/bin/env python3
"""Regenerate lean/GluonModel/Generated/Instr.lean from vm/src/types.rs:

  * `Instr`     – `enum Instruction` as a Lean inductive: every variant with its operand fields; an operand of an
                  unsigned Rust type is a `Nat`, of a signed one an `Int`, an `f64` the number's lexeme,
  * `variants`  – the table `GluonModel.InstrJson` (serde's externally tagged JSON form) is driven by: variant
                  name, shape (unit / newtype / struct), field names and operand types with their widths
                  (type aliases such as `VmIndex` and serde-transparent newtype structs such as `EqFloat` are
                  resolved from the same file),
  * `Instr.toRaw` / `Instr.ofRaw` – forget / restore the typing, `Instr.inRange` – every operand fits its width,
  * `Instr.kind` / `Instr.intOps` – the link to `Generated.InstrTable` (C01b's `InstrName`, `adjustGen`).

The serde attributes are checked too: the enum must derive both `Serialize` and `Deserialize` and carry no
`#[serde(...)]` attribute on the enum, a variant or a field (`tag`, `untagged`, `rename`, `skip`, … would change the
JSON form) — otherwise the translator fails, which fails the check.

Theorems over these definitions: `GluonModel.Props.C12.instr_de_ser`, `instr_encode_injective`,
`instr_list_de_ser`, `instr_table_wellformed`.
"""
import os, re

from instr_table import strip_comments, balanced, split_top, lname

PRIMS = {"u8": ("u8", False), "u16": None, "u32": ("u32", False), "u64": None, "i64": ("i64", True), "f64": ("f64", None)}
LEAN_KEYWORDS = {"return", "do", "if", "then", "else", "match", "with", "let", "fun", "end", "open", "in", "at",
                 "from", "have", "show", "by", "where", "instance", "structure", "class", "def", "theorem", "type",
                 "Type", "Prop", "Sort", "for", "mut", "import", "namespace", "section", "variable", "universe"}


def field_name(n):
    return n + "_" if n in LEAN_KEYWORDS else n


def resolve(src, ty, depth=0):
    """Rust operand type -> one of u8/u32/i64/f64, through `pub type A = B;` and serde newtype structs."""
    ty = ty.strip()
    if ty in PRIMS:
        if PRIMS[ty] is None:
            raise ValueError("operand type %s is not supported by the JSON model" % ty)
        return ty
    if depth > 8:
        raise ValueError("alias cycle at " + ty)
    m = re.search(r"pub type %s\s*=\s*([\w:]+)\s*;" % re.escape(ty), src)
    if m:
        return resolve(src, m.group(1), depth + 1)
    m = re.search(r"((?:#\[[^\]]*\]\s*)*)pub struct %s\s*\(\s*(?:pub\s+)?([\w:]+)\s*\)\s*;" % re.escape(ty), src)
    if m:
        attrs = m.group(1)
        if "Serialize" not in attrs or "Deserialize" not in attrs:
            raise ValueError("newtype %s does not derive Serialize/Deserialize" % ty)
        if "serde(" in attrs.replace('feature = "serde_derive"', ""):
            raise ValueError("newtype %s has serde attributes" % ty)
        return resolve(src, m.group(2), depth + 1)
    raise ValueError("cannot resolve operand type " + ty)


def parse_enum(src):
    m = re.search(r"((?:#\[[^\]]*\]\s*)*)pub enum Instruction\s*\{", src)
    if not m:
        raise ValueError("enum Instruction not found")
    attrs = m.group(1)
    if "Serialize" not in attrs or "Deserialize" not in attrs:
        raise ValueError("Instruction does not derive both Serialize and Deserialize")
    brace = src.index("{", m.end() - 1)
    body = src[brace + 1:balanced(src, brace) - 1]
    if re.search(r"#\[\s*serde", attrs) or re.search(r"#\[\s*serde", body) or re.search(r"#\[\s*cfg_attr\([^\]]*serde\(", attrs + body):
        raise ValueError("Instruction carries serde attributes: the JSON form is no longer the plain externally tagged one")
    variants = []
    for item in split_top(body):
        item = re.sub(r"#\[[^\]]*\]", "", item).strip()
        mm = re.match(r"^(\w+)\s*(?:\((.*)\)|\{(.*)\})?$", item, flags=re.S)
        if not mm:
            raise ValueError("cannot parse variant: " + item)
        name, tup, rec = mm.group(1), mm.group(2), mm.group(3)
        if tup is not None:
            tys = split_top(tup)
            if len(tys) != 1:
                raise ValueError("tuple variant %s with %d fields: serde writes it as an array, not modelled" % (name, len(tys)))
            variants.append((name, "newtype", [("a0", resolve(src, tys[0]))]))
        elif rec is not None:
            fields = []
            for f in split_top(rec):
                fn, ft = f.split(":", 1)
                fields.append((fn.strip(), resolve(src, ft)))
            variants.append((name, "struct", fields))
        else:
            variants.append((name, "unit", []))
    return variants


def lean_ty(t):
    return {"u8": "Nat", "u32": "Nat", "i64": "Int", "f64": "List Char"}[t]


BOUND = {"u8": "256", "u32": "4294967296"}


def run(repo="/repo", lean="/verif/lean"):
    src = strip_comments(open(os.path.join(repo, "vm/src/types.rs")).read())
    variants = parse_enum(src)
    L = []
    L.append("import GluonModel.InstrJson")
    L.append("import GluonModel.Generated.InstrTable")
    L.append("/-! GENERATED by translate/instructions.py from /repo/vm/src/types.rs (`enum Instruction`, the type")
    L.append("    aliases and newtypes its operands use) — do not edit. -/")
    L.append("namespace GluonModel.Generated.InstrEnum")
    L.append("open GluonModel.InstrJson GluonModel.Generated")
    L.append("")
    L.append("/-- `enum Instruction`: unsigned operands are `Nat` (width in `variants`), `i64` is `Int`, `f64` the lexeme. -/")
    L.append("inductive Instr where")
    for n, shape, fs in variants:
        L.append("  | %s%s" % (lname(n), "".join(" (%s : %s)" % (field_name(f), lean_ty(t)) for f, t in fs)))
    L.append("  deriving DecidableEq, Repr, Inhabited")
    L.append("")
    L.append("/-- variant name, shape, field names and operand types, in declaration order -/")
    L.append("def variants : Table := [")
    rows = []
    for n, shape, fs in variants:
        if shape == "unit":
            sh = ".unit"
        elif shape == "newtype":
            sh = ".newtype .%s" % fs[0][1]
        else:
            sh = ".struct [%s]" % ", ".join('("%s", .%s)' % (f, t) for f, t in fs)
        rows.append('  ⟨"%s", %s⟩' % (n, sh))
    L.append(",\n".join(rows))
    L.append("]")
    L.append("")

    def raw_op(f, t):
        f = field_name(f)
        if t == "f64":
            return ".flt %s" % f
        if t == "i64":
            return ".int %s" % f
        return ".int (%s : Int)" % ("(%s : Nat)" % f)

    L.append("def Instr.toRaw : Instr → Raw")
    for n, shape, fs in variants:
        L.append('  | .%s%s => ⟨"%s", [%s]⟩' % (lname(n), "".join(" " + field_name(f) for f, _ in fs), n,
                                                ", ".join(raw_op(f, t) for f, t in fs)))
    L.append("")
    L.append("/-- (an if-chain rather than a 46-way match on string literals: cheap to unfold in proofs) -/")
    L.append("def Instr.ofRaw (r : Raw) : Option Instr :=")
    for n, shape, fs in variants:
        pats = ", ".join((".flt %s" if t == "f64" else ".int %s") % field_name(f) for f, t in fs)
        args = "".join(" " + (field_name(f) if t in ("f64", "i64") else "%s.toNat" % field_name(f)) for f, t in fs)
        L.append('  if r.tag == "%s" then (match r.ops with | [%s] => some (.%s%s) | _ => none) else' % (n, pats, lname(n), args))
    L.append("  none")
    L.append("")
    L.append("/-- every operand fits the width of its Rust type -/")
    L.append("def Instr.inRange : Instr → Bool")
    for n, shape, fs in variants:
        conds = []
        for f, t in fs:
            f = field_name(f)
            if t in BOUND:
                conds.append("decide (%s < %s)" % (f, BOUND[t]))
            elif t == "i64":
                conds.append("decide (-9223372036854775808 ≤ %s) && decide (%s < 9223372036854775808)" % (f, f))
        L.append("  | .%s%s => %s" % (lname(n), "".join(" " + (field_name(f) if t != "f64" else "_") for f, t in fs),
                                     " && ".join(conds) if conds else "true"))
    L.append("")
    L.append("/-- the variant, as C01b's generated name (for `adjustGen`) -/")
    L.append("def Instr.kind : Instr → InstrName")
    for n, shape, fs in variants:
        L.append("  | .%s%s => .%s" % (lname(n), " _" * len(fs), lname(n)))
    L.append("")
    L.append("/-- the operands as integers, in declaration order (a float counts as 0: `adjust` never reads it) -/")
    L.append("def Instr.intOps : Instr → List Int")
    for n, shape, fs in variants:
        ops = ", ".join("0" if t == "f64" else (field_name(f) if t == "i64" else "(%s : Int)" % field_name(f)) for f, t in fs)
        L.append("  | .%s%s => [%s]" % (lname(n), "".join(" " + (field_name(f) if t != "f64" else "_") for f, t in fs), ops))
    L.append("")
    L.append("def Instr.all : List String := [%s]" % ", ".join('"%s"' % n for n, _, _ in variants))
    L.append("")
    L.append("/-- serde's JSON form of an instruction / what the derived `Deserialize` reads (`InstrJson`, by the table) -/")
    L.append("def encode (i : Instr) : J := encodeRaw variants i.toRaw")
    L.append("def decode (j : J) : Option Instr := (decodeRaw variants j).bind Instr.ofRaw")
    L.append("/-- `Vec<Instruction>` -/")
    L.append("def encodeList (is : List Instr) : J := .arr (is.map encode)")
    L.append("def decodeList : J → Option (List Instr)")
    L.append("  | .arr xs => decodeAll decode xs")
    L.append("  | _ => none")
    L.append("")
    L.append("end GluonModel.Generated.InstrEnum")
    out = os.path.join(lean, "GluonModel/Generated/Instr.lean")
    os.makedirs(os.path.dirname(out), exist_ok=True)
    text = "\n".join(L) + "\n"
    old = open(out).read() if os.path.exists(out) else None
    if old != text:
        open(out, "w").write(text)
    return {"variants": len(variants), "unit": sum(1 for v in variants if v[1] == "unit"),
            "newtype": sum(1 for v in variants if v[1] == "newtype"),
            "struct": sum(1 for v in variants if v[1] == "struct"), "file": out}


if __name__ == "__main__":
    print(run())
