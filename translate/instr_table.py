#!/usr/bin/env python3
"""Regenerate lean/GluonModel/Generated/InstrTable.lean from vm/src/types.rs:

  * `InstrName`  – one constructor per variant of `enum Instruction`, in declaration order,
  * `instrTable` – (variant name, operand names in declaration order),
  * `adjustGen`  – `Instruction::adjust` (the `match *self { … }` of `impl Instruction`), as a function of the
                   variant and its operand list.

`GluonModel.Props.C01b.instr_table_agrees` / `instr_adjust_agrees` prove that the hand-written
`GluonModel.Bytecode.Instr` has exactly these variants / operand counts and that `Instr.adjust` equals `adjustGen`,
so a change of the Rust enum or of `adjust` breaks the build of the property. The translator fails when the
source no longer has the shape it reads.
"""
import os, re


def strip_comments(src):
    src = re.sub(r"/\*.*?\*/", "", src, flags=re.S)
    return re.sub(r"//[^\n]*", "", src)


def balanced(src, i):
    assert src[i] == "{"
    depth = 0
    for j in range(i, len(src)):
        if src[j] == "{":
            depth += 1
        elif src[j] == "}":
            depth -= 1
            if depth == 0:
                return j + 1
    raise ValueError("unbalanced braces")


def split_top(s, sep=","):
    parts, depth, cur = [], 0, []
    for c in s:
        if c in "([{":
            depth += 1
        elif c in ")]}":
            depth -= 1
        if c == sep and depth == 0:
            parts.append("".join(cur))
            cur = []
        else:
            cur.append(c)
    if "".join(cur).strip():
        parts.append("".join(cur))
    return [p.strip() for p in parts if p.strip()]


def parse_enum(src):
    m = re.search(r"pub enum Instruction\s*\{", src)
    if not m:
        raise ValueError("enum Instruction not found")
    body = src[m.end():balanced(src, m.end() - 1) - 1]
    variants = []
    for item in split_top(body):
        item = re.sub(r"#\[[^\]]*\]", "", item).strip()
        m = re.match(r"^(\w+)\s*(?:\((.*)\)|\{(.*)\})?$", item, flags=re.S)
        if not m:
            raise ValueError("cannot parse variant: " + item)
        name, tup, rec = m.group(1), m.group(2), m.group(3)
        if tup is not None:
            ops = ["_%d" % i for i, _ in enumerate(split_top(tup))]
        elif rec is not None:
            ops = [f.split(":")[0].strip() for f in split_top(rec)]
        else:
            ops = []
        variants.append((name, ops))
    return variants


def parse_adjust(src, variants):
    m = re.search(r"pub fn adjust\(&self\)\s*->\s*i32\s*\{\s*match \*self\s*\{", src)
    if not m:
        raise ValueError("Instruction::adjust not found")
    body = src[m.end():balanced(src, m.end() - 1) - 1]
    vmap = dict(variants)
    arms = {}
    # arms are `pat | pat => expr,`
    for arm in split_top(body):
        if "=>" not in arm:
            raise ValueError("cannot parse arm: " + arm)
        pats, expr = arm.split("=>", 1)
        expr = expr.strip()
        for pat in split_top(pats, "|"):
            m = re.match(r"^(\w+)\s*(?:\((.*)\)|\{(.*)\})?$", pat.strip(), flags=re.S)
            if not m or m.group(1) not in vmap:
                raise ValueError("cannot parse pattern: " + pat)
            name, tup, rec = m.group(1), m.group(2), m.group(3)
            binds = {}
            if tup is not None:
                for i, b in enumerate(split_top(tup)):
                    if b != "_":
                        binds[b] = i
            elif rec is not None:
                for b in split_top(rec):
                    if b == "..":
                        continue
                    binds[b] = vmap[name].index(b)
            if name in arms:
                raise ValueError("duplicate arm for " + name)
            arms[name] = (binds, expr)
    missing = [n for n, _ in variants if n not in arms]
    if missing:
        raise ValueError("adjust has no arm for " + ", ".join(missing))
    return arms


def lean_expr(expr, binds):
    """the arithmetic that occurs in `adjust`: integer literals, `-`, `x as i32`, parentheses"""
    e = re.sub(r"(\w+)\s+as\s+i32", r"\1", expr)
    toks = re.findall(r"\d+|\w+|[-+()]", e)
    if "".join(toks) != re.sub(r"\s+", "", e):
        raise ValueError("unsupported expression in adjust: " + expr)
    out = []
    for t in toks:
        if t.isdigit() or t in "-+()":
            out.append(t)
        elif t in binds:
            out.append("(ops.getD %d 0)" % binds[t])
        else:
            raise ValueError("unbound name %r in adjust expression %r" % (t, expr))
    return "(" + " ".join(out) + " : Int)"


LEAN_KEYWORDS = {"return", "do", "if", "then", "else", "match", "with", "let", "fun", "end", "open", "in"}


def lname(n):
    n = n[0].lower() + n[1:]
    return n + "_" if n in LEAN_KEYWORDS else n


def run(repo="/repo", lean="/verif/lean"):
    src = strip_comments(open(os.path.join(repo, "vm/src/types.rs")).read())
    variants = parse_enum(src)
    arms = parse_adjust(src, variants)
    L = []
    L.append("/-! GENERATED by translate/instr_table.py from /repo/vm/src/types.rs (`enum Instruction`,")
    L.append("    `Instruction::adjust`) — do not edit. -/")
    L.append("namespace GluonModel.Generated")
    L.append("")
    L.append("inductive InstrName where")
    for n, _ in variants:
        L.append("  | %s" % lname(n))
    L.append("  deriving DecidableEq, Repr")
    L.append("")
    L.append("/-- variant name and operand names, in declaration order -/")
    L.append("def instrTable : List (String × List String) := [")
    L.append(",\n".join('  ("%s", [%s])' % (n, ", ".join('"%s"' % o for o in ops)) for n, ops in variants))
    L.append("]")
    L.append("")
    L.append("def InstrName.all : List InstrName := [")
    L.append("  " + ", ".join("." + lname(n) for n, _ in variants))
    L.append("]")
    L.append("")
    L.append("def InstrName.arity : InstrName → Nat")
    for n, ops in variants:
        L.append("  | .%s => %d" % (lname(n), len(ops)))
    L.append("")
    L.append("/-- `Instruction::adjust`, vm/src/types.rs -/")
    L.append("def adjustGen (n : InstrName) (ops : List Int) : Int :=")
    L.append("  match n with")
    for n, _ in variants:
        binds, expr = arms[n]
        L.append("  | .%s => %s" % (lname(n), lean_expr(expr, binds)))
    L.append("")
    L.append("end GluonModel.Generated")
    out = os.path.join(lean, "GluonModel/Generated/InstrTable.lean")
    os.makedirs(os.path.dirname(out), exist_ok=True)
    text = "\n".join(L) + "\n"
    old = open(out).read() if os.path.exists(out) else None
    if old != text:
        open(out, "w").write(text)
    return {"variants": len(variants), "file": out}


if __name__ == "__main__":
    print(run())
