#!/usr/bin/env python3
"""Run every translator (used by setup.sh; ./check runs the ones its property needs)."""
import os, sys
HERE = os.path.dirname(os.path.abspath(__file__))
ROOT = os.path.dirname(HERE)
sys.path.insert(0, HERE)
sys.path.insert(0, os.path.join(ROOT, "checks"))
import props
done = []
for pid, cfg in sorted(props.PROPS.load_all().items()):
    for t in cfg.get("translators", []):
        if t in done: continue
        done.append(t)
        try:
            print(t, __import__(t).run(repo="/repo", lean=os.path.join(ROOT, "lean")))
        except Exception as e:
            print("translator", t, "failed:", repr(e))
