import GluonModel.Sexp
import GluonModel.Infix
