import GluonModel.Sexp
import GluonModel.GcAccount
import GluonModel.StackVerify
import GluonModel.CallStack
import GluonModel.TailPos
open GluonModel

namespace C07

/-! gc -/
section Gc
open GluonModel.GcAccount
def parseMarks : List Sexp → List Bool
  | [] => []
  | .atom "1" :: r => true :: parseMarks r
  | _ :: r => false :: parseMarks r

def parseOp : Sexp → Option Op
  | .list [.atom "a", n] => n.toNat?.map Op.alloc
  | .list [.atom "i", n] => n.toNat?.map Op.allocIgnore
  | .list [.atom "ac", .list ms, n] => n.toNat?.map (Op.allocCollect (parseMarks ms))
  | .list [.atom "c", .list ms] => some (Op.collect (parseMarks ms))
  | .list [.atom "l", n] => n.toNat?.map Op.setLimit
  | _ => none

def renderRes : Res → String
  | .ok => "ok"
  | .oom l n => s!"(oom {l} {n})"

def runGc (g : Gc) : List Sexp → List String → Option (Gc × List String)
  | [], acc => some (g, acc.reverse)
  | x :: xs, acc =>
    match parseOp x with
    | none => none
    | some op =>
      let (g', r) := step g op
      runGc g' xs (s!"({renderRes r} {g'.allocated})" :: acc)

end Gc
/-! verify -/
section Verify
open GluonModel.StackVerify
def parseInstrs : List Sexp → List Nat → Option (List Instr)
  | [], _ => some []
  | x :: xs, splits =>
    let one (i : Instr) := (parseInstrs xs splits).map (i :: ·)
    match x with
    | .list [.atom "pushc"] => one .pushc
    | .list [.atom "push", n] => n.toNat?.bind fun n => one (.push n)
    | .list [.atom "call", n] => n.toNat?.bind fun n => one (.call n)
    | .list [.atom "tailcall", n] => n.toNat?.bind fun n => one (.tailcall n)
    | .list [.atom "construct", n] => n.toNat?.bind fun n => one (.construct n)
    | .list [.atom "new"] => one .new
    | .list [.atom "get"] => one .get
    | .list [.atom "split"] =>
      match splits with
      | k :: ks => (parseInstrs xs ks).map (Instr.split k :: ·)
      | [] => none
    | .list [.atom "test"] => one .test
    | .list [.atom "jump", n] => n.toNat?.bind fun n => one (.jump n)
    | .list [.atom "cjump", n] => n.toNat?.bind fun n => one (.cjump n)
    | .list [.atom "pop", n] => n.toNat?.bind fun n => one (.pop n)
    | .list [.atom "slide", n] => n.toNat?.bind fun n => one (.slide n)
    | .list [.atom "makeclosure", n] => n.toNat?.bind fun n => one (.makeclosure n)
    | .list [.atom "closeclosure", n] => n.toNat?.bind fun n => one (.closeclosure n)
    | .list [.atom "binop"] => one .binop
    | .list [.atom "ret"] => one .ret
    | .list [.atom "closedata", _] => one .closedata
    | _ => none

def natList (xs : List Sexp) : Option (List Nat) := xs.mapM Sexp.toNat?

def parseFn : Sexp → Option Fn
  | .list [.atom "fn", a, m, .list ins, .list sp] => do
    let a ← a.toNat?
    let m ← m.toNat?
    let sp ← natList sp
    let code ← parseInstrs ins sp
    pure ⟨a, m, code⟩
  | _ => none

/-- Heights (per certificate) before every call / tail call / return instruction, in pc order. -/
def exitHeights (f : Fn) (hs : List (Option Nat)) : List String :=
  (List.range f.code.length).filterMap fun pc =>
    match f.code[pc]?, hs[pc]? with
    | some (.call _), some (some h) => some s!"({pc} {h})"
    | some (.tailcall _), some (some h) => some s!"({pc} {h})"
    | some .ret, some (some h) => some s!"({pc} {h})"
    | _, _ => none

def handleVerify (f : Fn) : String :=
  match infer f with
  | none => "(rejected infer)"
  | some hs =>
    -- the declared bound is compared by the harness side; here: is the function safe under the
    -- *tightest* bound, and what is that bound
    let peak := peakOf f hs
    let tight : Fn := { f with max := peak }
    if check tight hs then
      let declared := if check f hs then "within" else "exceeds"
      s!"(ok {peak} {declared} {if forward f then "fwd" else "back"} ({" ".intercalate (exitHeights f hs)}))"
    else "(rejected check)"

end Verify
/-! call stack -/
section Calls
open GluonModel.CallStack
def parseTbl : List Sexp → Option Tbl
  | [] => some []
  | .list [a, m] :: r => do
    let a ← a.toNat?
    let m ← m.toNat?
    let t ← parseTbl r
    pure (⟨a, m⟩ :: t)
  | _ => none

inductive Script where
  | ev (e : Ev)
  | rep (n : Nat) (body : List Script)

partial def parseScript : Sexp → Option Script
  | .list [.atom "p", k] => k.toNat?.map fun k => .ev (.push k)
  | .list [.atom "q", k] => k.toNat?.map fun k => .ev (.pop k)
  | .list [.atom "c", f, h, n] => do
    let f ← f.toNat?; let h ← h.toNat?; let n ← n.toNat?
    pure (.ev (.call ⟨f, h⟩ n))
  | .list [.atom "t", f, h, n] => do
    let f ← f.toNat?; let h ← h.toNat?; let n ← n.toNat?
    pure (.ev (.tailcall ⟨f, h⟩ n))
  | .list [.atom "r"] => some (.ev (.ret none))
  | .list [.atom "r", f, h] => do
    let f ← f.toNat?; let h ← h.toNat?
    pure (.ev (.ret (some ⟨f, h⟩)))
  | .list (.atom "rep" :: n :: body) => do
    let n ← n.toNat?
    let b ← body.mapM parseScript
    pure (.rep n b)
  | _ => none

structure Acc where
  st : St
  peakValues : Nat
  peakDepth : Nat
  steps : Nat

mutual
partial def runScript (tbl : Tbl) (limit : Nat) (a : Acc) : List Script → Except Err Acc
  | [] => .ok a
  | .ev e :: rest =>
    match step tbl limit a.st e with
    | .ok s => runScript tbl limit
        ⟨s, max a.peakValues s.values, max a.peakDepth s.frames.length, a.steps + 1⟩ rest
    | .error e => .error e
  | .rep n body :: rest =>
    match runRep tbl limit a n body with
    | .ok a => runScript tbl limit a rest
    | .error e => .error e
partial def runRep (tbl : Tbl) (limit : Nat) (a : Acc) : Nat → List Script → Except Err Acc
  | 0, _ => .ok a
  | n + 1, body =>
    match runScript tbl limit a body with
    | .ok a => runRep tbl limit a n body
    | .error e => .error e
end

def renderErr : Err → String
  | .stackOverflow => "overflow"
  | .stuck => "stuck"
  | .bound => "bound"

end Calls
/-! tail positions -/
section Tail
open GluonModel.TailPos

mutual
partial def parseE : Sexp → Option E
  | .atom "a" => some .atom
  | .list [.atom "let", b, body] => do pure (.letE (← parseE b) (← parseE body))
  | .list [.atom "rec", .list vs, body] => do pure (.letRec (← parseEs vs) (← parseE body))
  | .list [.atom "call", f, .list args] => do pure (.call (← parseE f) (← parseEs args))
  | .list [.atom "ctor", .list args] => do pure (.ctor (← parseEs args))
  | .list [.atom "and", l, r] => do pure (.andE (← parseE l) (← parseE r))
  | .list [.atom "or", l, r] => do pure (.orE (← parseE l) (← parseE r))
  | .list [.atom "bin", l, r] => do pure (.binE (← parseE l) (← parseE r))
  | .list [.atom "prim", l, r] => do pure (.primOther (← parseE l) (← parseE r))
  | .list [.atom "match", s, .list alts] => do pure (.matchE (← parseE s) (← parseAlts alts))
  | .list [.atom "data", .list xs] => do pure (.data (← parseEs xs))
  | .list [.atom "cast", e] => do pure (.cast (← parseE e))
  | _ => none
partial def parseEs : List Sexp → Option Es
  | [] => some .nil
  | x :: xs => do pure (.cons (← parseE x) (← parseEs xs))
partial def parseAlts : List Sexp → Option Alts
  | [] => some .nil
  | .list [.atom k, e] :: xs => do pure (.cons (k == "1") (← parseE e) (← parseAlts xs))
  | _ => none
end

def renderFlags (fs : List Bool) : String :=
  "(" ++ " ".intercalate (fs.map fun b => if b then "T" else "N") ++ ")"

end Tail

end C07

open C07 in
def handle : List Sexp → String
  | [.atom "gc", hdr, limit, .list ops] =>
    match hdr.toNat?, limit.toNat? with
    | some hdr, some limit =>
      match runGc (GluonModel.GcAccount.Gc.new hdr limit) ops [] with
      | some (g, rs) => s!"(({" ".intercalate rs}) {g.allocated} {g.collectLimit} {g.objs.length})"
      | none => "bad-request"
    | _, _ => "bad-request"
  | [.atom "firstoom", l, .list ns] =>
    match l.toNat?, natList ns with
    | some l, some ns =>
      match GluonModel.GcAccount.firstOom l ns with
      | some n => s!"(oom {l} {n})"
      | none => "ok"
    | _, _ => "bad-request"
  | [.atom "verify", f] =>
    match parseFn f with
    | some f => handleVerify f
    | none => "bad-request"
  | [.atom "stack", limit, .list tbl, .list evs] =>
    match limit.toNat?, parseTbl tbl, evs.mapM parseScript with
    | some limit, some tbl, some sc =>
      match runScript tbl limit ⟨GluonModel.CallStack.St.base, 0, 1, 0⟩ sc with
      | .ok a => s!"(ok {a.st.values} {a.st.frames.length} {a.peakDepth})"
      | .error e => renderErr e
    | _, _, _ => "bad-request"
  | [.atom "tailpos", e] =>
    match parseE e with
    | some e => renderFlags (GluonModel.TailPos.bodyFlags e)
    | none => "bad-request"
  | [.atom "intr", k, segs] =>
    match k.toNat?, segs.toNat? with
    | some k, some segs =>
      let r := GluonModel.CallStack.execute (fun i => decide (k ≤ i)) 0 segs
      s!"({r.1} {if r.2 == .interrupted then "interrupted" else "finished"})"
    | _, _ => "bad-request"
  | _ => "bad-request"

def main : IO Unit := driverLoop handle
