import GluonModel.Sexp
import GluonModel.Marshal
open GluonModel GluonModel.Marshal

def parseIntTy : String → Option IntTy
  | "i16" => some .i16 | "i32" => some .i32 | "i64" => some .i64 | "isize" => some .isize
  | "u16" => some .u16 | "u32" => some .u32 | "u64" => some .u64 | "usize" => some .usize
  | _ => none

def intTyName : IntTy → String
  | .i16 => "i16" | .i32 => "i32" | .i64 => "i64" | .isize => "isize"
  | .u16 => "u16" | .u32 => "u32" | .u64 => "u64" | .usize => "usize"

mutual
partial def parseT : Sexp → Option TCode
  | .atom "unit" => some .unit
  | .atom "u8" => some .u8
  | .atom "f32" => some .f32
  | .atom "f64" => some .f64
  | .atom "bool" => some .bool
  | .atom "char" => some .char
  | .atom "string" => some .string
  | .atom "ordering" => some .ordering
  | .atom "ustruct" => some .ustruct
  | .atom a => (parseIntTy a).map .int
  | .list [.atom "option", t] => (parseT t).map .option
  | .list [.atom "result", t, e] => do
    let t ← parseT t
    let e ← parseT e
    pure (.result t e)
  | .list [.atom "vec", t] => (parseT t).map .vec
  | .list (.atom "tuple" :: ts) => (ts.mapM parseT).map .tuple
  | .list [.atom "map", t] => (parseT t).map .map
  | .list (.atom "struct" :: fs) => (fs.mapM parseField).map .struct
  | .list [.atom "newtype", t] => (parseT t).map .newtype
  | .list (.atom "tstruct" :: ts) => (ts.mapM parseT).map .tstruct
  | .list (.atom "enum" :: .str n :: vs) => (vs.mapM parseVariant).map (.enum n)
  | _ => none
partial def parseField : Sexp → Option (String × TCode)
  | .list [.str n, t] => (parseT t).map (fun t => (n, t))
  | _ => none
partial def parseVariant : Sexp → Option TCode
  | .list [.atom "u"] => some .vunit
  | .list (.atom "t" :: ts) => (ts.mapM parseT).map .vtuple
  | .list (.atom "s" :: fs) => (fs.mapM parseField).map .vstruct
  | _ => none
end

mutual
partial def parseV : Sexp → Option Val
  | .atom "unit" => some .unit
  | .atom "none" => some .none
  | .atom "ustruct" => some .ustruct
  | .list [.atom "u8", n] => n.toNat?.map .u8
  | .list [.atom "int", .atom t, n] => do
    let t ← parseIntTy t
    let n ← n.toInt?
    pure (.int t n)
  | .list [.atom "f32", n] => n.toNat?.map .f32
  | .list [.atom "f64", n] => n.toNat?.map .f64
  | .list [.atom "bool", n] => n.toNat?.map (fun n => .bool (n == 1))
  | .list [.atom "char", n] => n.toNat?.map .char
  | .list [.atom "str", .str s] => some (.str s)
  | .list [.atom "ord", n] => n.toNat?.map .ord
  | .list [.atom "some", v] => (parseV v).map .some
  | .list [.atom "ok", v] => (parseV v).map .ok
  | .list [.atom "err", v] => (parseV v).map .err
  | .list (.atom "vec" :: vs) => (vs.mapM parseV).map .vec
  | .list (.atom "tuple" :: vs) => (vs.mapM parseV).map .tuple
  | .list (.atom "map" :: kvs) => (kvs.mapM parseKV).map .map
  | .list (.atom "struct" :: fs) => (fs.mapM parseKV).map .struct
  | .list [.atom "newtype", v] => (parseV v).map .newtype
  | .list (.atom "tstruct" :: vs) => (vs.mapM parseV).map .tstruct
  | .list [.atom "var", i, p] => do
    let i ← i.toNat?
    let p ← parseP p
    pure (.var i p)
  | _ => none
partial def parseKV : Sexp → Option (String × Val)
  | .list [.str n, v] => (parseV v).map (fun v => (n, v))
  | _ => none
partial def parseP : Sexp → Option Val
  | .list [.atom "u"] => some .vunit
  | .list (.atom "t" :: vs) => (vs.mapM parseV).map .vtuple
  | .list (.atom "s" :: fs) => (fs.mapM parseKV).map .vstruct
  | _ => none
end

def reprName : ARepr → String
  | .byte => "Byte" | .int => "Int" | .float => "Float" | .string => "String"
  | .array => "Array" | .unknown => "Unknown"

/-- insertion sort of (name, rendering) pairs by name (the harness sorts the field names) -/
def insertByName (p : String × String) : List (String × String) → List (String × String)
  | [] => [p]
  | q :: qs => if p.1 < q.1 then p :: q :: qs else q :: insertByName p qs

def sortByName (l : List (String × String)) : List (String × String) :=
  l.foldr insertByName []

partial def renderG : GV → String
  | .byte n => "(b " ++ toString n ++ ")"
  | .int n => "(i " ++ toString n ++ ")"
  | .float b => "(f " ++ toString b ++ ")"
  | .str s => "(s " ++ Sexp.quote s ++ ")"
  | .tag t => "(tag " ++ toString t ++ ")"
  | .data t fs => "(data " ++ " ".intercalate (toString t :: fs.map renderG) ++ ")"
  | .record names fs =>
    -- a record without field names is indistinguishable from a plain data value for the walker
    if names.isEmpty then "(data " ++ " ".intercalate ("0" :: fs.map renderG) ++ ")"
    else
      let rs := fs.map renderG
      -- the field map: a later duplicate name would overwrite; names are distinct in the family
      let named := sortByName (names.zip rs)
      "(rec (" ++ " ".intercalate rs ++ ") (" ++
        " ".intercalate (named.map (fun p => "(" ++ Sexp.quote p.1 ++ " " ++ p.2 ++ ")")) ++ "))"
  | .array r xs => "(arr " ++ " ".intercalate (reprName r :: xs.map renderG) ++ ")"

mutual
partial def renderV : Val → String
  | .unit => "unit"
  | .u8 n => "(u8 " ++ toString n ++ ")"
  | .int t n => "(int " ++ intTyName t ++ " " ++ toString n ++ ")"
  | .f32 b => "(f32 " ++ toString b ++ ")"
  | .f64 b => "(f64 " ++ toString b ++ ")"
  | .bool b => "(bool " ++ (if b then "1" else "0") ++ ")"
  | .char c => "(char " ++ toString c ++ ")"
  | .str s => "(str " ++ Sexp.quote s ++ ")"
  | .ord o => "(ord " ++ toString o ++ ")"
  | .none => "none"
  | .some v => "(some " ++ renderV v ++ ")"
  | .ok v => "(ok " ++ renderV v ++ ")"
  | .err v => "(err " ++ renderV v ++ ")"
  | .vec vs => "(" ++ " ".intercalate ("vec" :: vs.map renderV) ++ ")"
  | .tuple vs => "(" ++ " ".intercalate ("tuple" :: vs.map renderV) ++ ")"
  | .map kvs => "(" ++ " ".intercalate ("map" :: kvs.map renderKV) ++ ")"
  | .struct fs => "(" ++ " ".intercalate ("struct" :: fs.map renderKV) ++ ")"
  | .newtype v => "(newtype " ++ renderV v ++ ")"
  | .tstruct vs => "(" ++ " ".intercalate ("tstruct" :: vs.map renderV) ++ ")"
  | .ustruct => "ustruct"
  | .var i p => "(var " ++ toString i ++ " " ++ renderV p ++ ")"
  | .vunit => "(u)"
  | .vtuple vs => "(" ++ " ".intercalate ("t" :: vs.map renderV) ++ ")"
  | .vstruct fs => "(" ++ " ".intercalate ("s" :: fs.map renderKV) ++ ")"
partial def renderKV : String × Val → String
  | (k, v) => "(" ++ Sexp.quote k ++ " " ++ renderV v ++ ")"
end

def parseRepr : String → Option ARepr
  | "Byte" => some .byte | "Int" => some .int | "Float" => some .float | "String" => some .string
  | "Array" => some .array | "Unknown" => some .unknown
  | _ => none

/-- the walker prints a record as `(rec (v₀ v₁ …) ((name v) … sorted by name))`: give position `i`
    an unused name whose value is the same (ties are interchangeable: equal values) -/
def assignNames (rs : List String) (named : List (String × String)) : List String :=
  let step := fun (acc : List String × List (String × String)) (r : String) =>
    match acc.2.find? (fun p => p.2 == r) with
    | some p => (acc.1 ++ [p.1], acc.2.erase p)
    | none => (acc.1 ++ ["?"], acc.2)
  (rs.foldl step ([], named)).1

mutual
partial def parseG : Sexp → Option GV
  | .list [.atom "b", n] => n.toNat?.map .byte
  | .list [.atom "i", n] => n.toInt?.map .int
  | .list [.atom "f", n] => n.toNat?.map .float
  | .list [.atom "s", .str s] => some (.str s)
  | .list [.atom "tag", n] => n.toNat?.map .tag
  | .list (.atom "data" :: n :: fs) => do
    let n ← n.toNat?
    let fs ← fs.mapM parseG
    pure (.data n fs)
  | .list [.atom "rec", .list vals, .list named] => do
    let fs ← vals.mapM parseG
    let named ← named.mapM (fun p => match p with
      | .list [.str n, v] => some (n, v.render)
      | _ => none)
    pure (.record (assignNames (vals.map Sexp.render) named) fs)
  | .list (.atom "arr" :: .atom r :: xs) => do
    let r ← parseRepr r
    let xs ← xs.mapM parseG
    pure (.array r xs)
  | _ => none
end

def renderOV : Option Val → String
  | some v => renderV v
  | none => "panic"

def handle : List Sexp → String
  | [.atom "rt", t, v] =>
    match parseT t, parseV v with
    | some t, some v =>
      let g := push v
      "(" ++ renderG g ++ " " ++ renderOV (get t g) ++ ")"
    | _, _ => "bad-request"
  | [.atom "ser", v] =>
    match parseV v with
    | some v => renderG (ser v)
    | none => "bad-request"
  | [.atom "conv", v, t] =>
    match parseV v, parseT t with
    | some v, some t => renderOV (get t (push v))
    | _, _ => "bad-request"
  | [.atom "getg", t, g] =>
    match parseT t, parseG g with
    | some t, some g => renderOV (get t g)
    | _, _ => "bad-request"
  | [.atom "de", t, v] =>
    match parseT t, parseV v with
    | some t, some v =>
      match de t t (push v) with
      | .ok w => if renderV w == renderV v then "ok" else "(differs " ++ renderV w ++ ")"
      | .err => "error"
      | .crash => "crash"
      | .unmodelled => "unmodelled"
    | _, _ => "bad-request"
  | [.atom "gg", actual, requested] =>
    match parseT actual, parseT requested with
    | some a, some r => match getGlobal r a with
      | .ok => "ok"
      | .wrongType => "wrong-type"
    | _, _ => "bad-request"
  | _ => "bad-request"

def main : IO Unit := driverLoop handle
