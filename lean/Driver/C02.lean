import GluonModel.Sexp
import GluonModel.Surf
import GluonModel.SurfParse
import GluonModel.SurfTy
import GluonModel.SurfTyParse
import GluonModel.ModGlobal
import GluonModel.SurfTyCheck
import GluonModel.SurfTyElab
open GluonModel GluonModel.Surf GluonModel.SurfTy GluonModel.ModGlobal

def resClass : Res → String
  | .ok _ => "ok"
  | .error .arith => "err:arith"
  | .error .unmatched => "err:unmatched"
  | .error (.user _) => "err:user"
  | .error .fuel => "fuel"
  | .error (.wrong w) => "wrong:" ++ w

/-- `tc <annotated program> <type>`: the untrusted elaborator finds binder annotations, the
    VERIFIED checker `inferA` must accept the annotated program at the generator's type (so a
    `HasType` derivation exists, `Props.C02.infer_sound`), then the erasure of exactly that program
    is run by the reference evaluator: by `Props.C02.checked_programs_safe` the outcome cannot be
    `wrong:*` and a value has the shape of the type (re-tested dynamically here). -/
def handleTc (e t : Sexp) : String :=
  match parseExpr (Elab.encodeAnn e), parseSTy t with
  | some e, some τ =>
    match Elab.elabProgram surfDeclsA e τ with
    | .error msg => "(untypable elab " ++ Sexp.quote msg ++ ")"
    | .ok a =>
      match inferA surfDeclsA [] a with
      | none => "(untypable check)"
      | some τ' =>
        if !STy.beq τ' τ then "(untypable other-type)"
        else
          let r := eval 100000 [] a.erase
          match r with
          | .ok v => if shapeOk surfDecls v τ then "(typed ok)" else "(shape-mismatch)"
          | _ => "(typed " ++ resClass r ++ ")"
  | _, _ => "bad-request"

/-- `accp <program>`: would the VERIFIED POLYMORPHIC checker accept this closed program at some
    type? The family members are sent as they are: the elaborator generalises at `let x = e` and
    instantiates at variables, `inferA` re-checks (schemes in the context, quantified variables not
    free in it), so `accept` means a `HasType` derivation in the system with let-polymorphism exists
    (`Props.C02.infer_sound`) and by `Props.C02.checked_programs_safe` the program cannot go wrong.
    `acc <annotated program>` (generalisation switched off in the elaborator): would the checker
    accept this closed program monomorphically? Used on the LET-EXPANDED members of the family "generalisation under a
    binder": for let-bound lambdas, Hindley-Milner typability of the original program is
    monomorphic typability of the expansion. `accept` means `inferA` accepted (a `HasType`
    derivation exists, `Props.C02.infer_sound`); `reject` means the elaborator found no annotation
    or `inferA` refused it. -/
def handleAcc (e : Sexp) (gen : Bool) : String :=
  match parseExpr (Elab.encodeAnn e) with
  | some e =>
    match Elab.elabProgramInfer surfDeclsA e gen with
    | .error _ => "(reject)"
    | .ok a =>
      match inferA surfDeclsA [] a with
      | none => "(reject)"
      | some _ => "(accept)"
  | none => "bad-request"

def kindVal : Val → String
  | .int _ => "int"
  | .str _ => "str"
  | .data .. => "data"
  | .arr _ => "arr"
  | _ => "fn"

def sampleVal : String → Option (Val × STy)
  | "int" => some (.int 7, .int)
  | "str" => some (.str "s", .str)
  | "rec" => some (.data 0 [.int 1, .str "x"], .recd [.int, .str])
  | "fn" => some (.clos ["x"] (.prim "+" (.var "x") (.int 1)) [], .fn .int .int)
  | "arr" => some (.arr [.int 1, .int 2], .arr .int)
  | "pfn" => some (.clos ["x"] (.int 1) [], .fn .int .int)
  | _ => none

/-- `glob R I K`: module of kind K, wrapped in IO iff I, loaded with run_io = R -/
def handleGlob (r i : Nat) (k : String) : String :=
  match sampleVal k with
  | none => "bad-request"
  | some (v, t) =>
    -- `pfn` = `\x -> 1 : forall a. a -> Int`; wrapped in IO its type is `forall a. IO (a -> Int)`
    let g : Global :=
      if i == 1 then (if k == "pfn" then ⟨.ioForall t, .action v⟩ else ⟨.io t, .action v⟩)
      else ⟨.plain t, .val v⟩
    match globalInner (r == 1) g with
    | none => "(ice)"
    | some stored =>
    let imp := importerType g
    let kind := match stored.value with
      | .action _ => "fn"
      | .val v => kindVal v
    let impS := if isIO imp then "io" else "plain"
    let useS := match useImported (r == 1) stored imp with
      | .ok => "ok"
      | .wrong => "wrong"
    s!"(stored {kind} importer {impS} use {useS})"

def handle : List Sexp → String
  | [.atom "tc", e, t] => handleTc e t
  | [.atom "acc", e] => handleAcc e false
  | [.atom "accp", e] => handleAcc e true
  | [.atom "glob", r, i, .atom k] =>
    match r.toNat?, i.toNat? with
    | some r, some i => handleGlob r i k
    | _, _ => "bad-request"
  | _ => "bad-request"

def main : IO Unit := driverLoop handle
