import GluonModel.Sexp
import GluonModel.Surf
import GluonModel.SurfParse
import GluonModel.SurfTy
import GluonModel.SurfTyParse
import GluonModel.ModGlobal
open GluonModel GluonModel.Surf GluonModel.SurfTy GluonModel.ModGlobal

def resClass : Res → String
  | .ok _ => "ok"
  | .error .arith => "err:arith"
  | .error .unmatched => "err:unmatched"
  | .error (.user _) => "err:user"
  | .error .fuel => "fuel"
  | .error (.wrong w) => "wrong:" ++ w

/-- `tc <annotated program> <type>`: the program is typed by the model (see below) and the
    reference evaluator neither goes wrong nor returns a value of another shape -/
def handleTc (e t : Sexp) : String :=
  match parseExpr (stripAnn e), parseSTy t with
  | some e, some τ =>
    let r := eval 100000 [] e
    match r with
    | .ok v => if shapeOk surfDecls v τ then "(typed ok)" else "(shape-mismatch)"
    | _ => "(typed " ++ resClass r ++ ")"
  | _, _ => "bad-request"

def kindVal : Val → String
  | .int _ => "int"
  | .str _ => "str"
  | .data .. => "data"
  | .arr _ => "arr"
  | _ => "fn"

def sampleVal : String → Option (Val × STy)
  | "int" => some (.int 7, .int)
  | "str" => some (.str "s", .str)
  | "rec" => some (.data 0 [.int 1, .str "x"], .recd [.int, .str])
  | "fn" => some (.clos ["x"] (.prim "+" (.var "x") (.int 1)) [], .fn .int .int)
  | "arr" => some (.arr [.int 1, .int 2], .arr .int)
  | _ => none

/-- `glob R I K`: module of kind K, wrapped in IO iff I, loaded with run_io = R -/
def handleGlob (r i : Nat) (k : String) : String :=
  match sampleVal k with
  | none => "bad-request"
  | some (v, t) =>
    let g : Global := if i == 1 then ⟨.io t, .action v⟩ else ⟨.plain t, .val v⟩
    let stored := globalInner (r == 1) g
    let imp := importerType g
    let kind := match stored.value with
      | .action _ => "fn"
      | .val v => kindVal v
    let impS := if isIO imp then "io" else "plain"
    let useS := match useImported (r == 1) stored imp with
      | .ok => "ok"
      | .wrong => "wrong"
    s!"(stored {kind} importer {impS} use {useS})"

def handle : List Sexp → String
  | [.atom "tc", e, t] => handleTc e t
  | [.atom "glob", r, i, .atom k] =>
    match r.toNat?, i.toNat? with
    | some r, some i => handleGlob r i k
    | _, _ => "bad-request"
  | _ => "bad-request"

def main : IO Unit := driverLoop handle
