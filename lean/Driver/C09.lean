import GluonModel.Sexp
import GluonModel.LayoutAlgo
open GluonModel GluonModel.LayoutAlgo

def kindOfName : String → Option Kind
  | "shebang" => some .shebang | "doc" => some .doc | "attrOpen" => some .attrOpen
  | "rec" => some .rec_ | "else" => some .else_ | "if" => some .if_ | "in" => some .in_
  | "let" => some .let_ | "do" => some .do_ | "seq" => some .seq_ | "match" => some .match_
  | "then" => some .then_ | "type" => some .type_ | "with" => some .with_
  | "comma" => some .comma | "equals" => some .equals | "lambda" => some .lambda
  | "pipe" => some .pipe | "rarrow" => some .rarrow
  | "lbrace" => some .lbrace | "lbracket" => some .lbracket | "lparen" => some .lparen
  | "rbrace" => some .rbrace | "rbracket" => some .rbracket | "rparen" => some .rparen
  | "openBlock" => some .openBlock | "closeBlock" => some .closeBlock | "semi" => some .semi
  | "eof" => some .eof | "other" => some .other | "lexErr" => some .lexErr
  | _ => none

def kindName : Kind → String
  | .shebang => "shebang" | .doc => "doc" | .attrOpen => "attrOpen"
  | .rec_ => "rec" | .else_ => "else" | .if_ => "if" | .in_ => "in"
  | .let_ => "let" | .do_ => "do" | .seq_ => "seq" | .match_ => "match"
  | .then_ => "then" | .type_ => "type" | .with_ => "with"
  | .comma => "comma" | .equals => "equals" | .lambda => "lambda"
  | .pipe => "pipe" | .rarrow => "rarrow"
  | .lbrace => "lbrace" | .lbracket => "lbracket" | .lparen => "lparen"
  | .rbrace => "rbrace" | .rbracket => "rbracket" | .rparen => "rparen"
  | .openBlock => "openBlock" | .closeBlock => "closeBlock" | .semi => "semi"
  | .eof => "eof" | .other => "other" | .lexErr => "lexErr"

def parseTok : Sexp → Option Tok
  | .list [.atom k, l, c, s, e] => do
    let k ← kindOfName k
    let l ← l.toNat?
    let c ← c.toNat?
    let s ← s.toNat?
    let e ← e.toNat?
    pure ⟨k, ⟨l, c, s⟩, e⟩
  | _ => none

def parseToks : List Sexp → Option (List Tok)
  | [] => some []
  | x :: xs => do
    let t ← parseTok x
    let ts ← parseToks xs
    pure (t :: ts)

def renderOut (ts : List Tok) : String :=
  String.join (ts.map fun t => " (" ++ kindName t.kind ++ " " ++ toString t.loc.abs ++ " " ++ toString t.stop ++ ")")

def handle : List Sexp → String
  | .atom "layout" :: fuel :: toks =>
    match fuel.toNat?, parseToks toks with
    | some fuel, some ts =>
      match ts.reverse with
      | eof :: revInput =>
        let (out, how) := layout revInput.reverse eof fuel
        let h := match how with
          | .ok => "ok"
          | .err (.unindented a) => "(err unindented " ++ toString a ++ ")"
          | .err (.lex s e) => "(err lex " ++ toString s ++ " " ++ toString e ++ ")"
          | .panic => "panic"
          | .hang => "hang"
          | .fuel => "fuel"
        "(" ++ h ++ renderOut out ++ ")"
      | [] => "bad-request"
    | _, _ => "bad-request"
  | _ => "bad-request"

def main : IO Unit := driverLoop handle
