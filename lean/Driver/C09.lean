import GluonModel.Sexp
import GluonModel.LayoutAlgo
import GluonModel.Tokenizer
open GluonModel GluonModel.LayoutAlgo

/-! ### Tokenizer requests: `(lex x<hex bytes>)` -/
namespace LexDrv
open GluonModel.Tokenizer

def hexDigit (c : Char) : Option Nat :=
  if '0' ≤ c ∧ c ≤ '9' then some (c.toNat - 48)
  else if 'a' ≤ c ∧ c ≤ 'f' then some (c.toNat - 87)
  else none

def unhex : List Char → Array Nat → Option (Array Nat)
  | [], acc => some acc
  | a :: b :: r, acc =>
    match hexDigit a, hexDigit b with
    | some x, some y => unhex r (acc.push (x * 16 + y))
    | _, _ => none
  | _, _ => none

def loc (l : GluonModel.Tokenizer.Loc) : String := s!"{l.line} {l.col} {l.abs}"

def errName : ErrK → String
  | .emptyCharLiteral => "emptyCharLiteral"
  | .unexpectedChar c => s!"unexpectedChar:{c}"
  | .unexpectedEof => "unexpectedEof"
  | .unexpectedEscapeCode c => s!"unexpectedEscapeCode:{c}"
  | .unterminatedCharLiteral => "unterminatedCharLiteral"
  | .unterminatedStringLiteral => "unterminatedStringLiteral"
  | .invalidRawStringDelimiter => "invalidRawStringDelimiter"
  | .nonParseableInt => "nonParseableInt"
  | .hexLiteralOverflow => "hexLiteralOverflow"
  | .hexLiteralUnderflow => "hexLiteralUnderflow"
  | .hexLiteralWrongPrefix => "hexLiteralWrongPrefix"
  | .hexLiteralIncomplete => "hexLiteralIncomplete"

def b01 (b : Bool) : String := if b then "1" else "0"

def tokText : GluonModel.Tokenizer.Tok → String
  | .shebang s e => s!"shebang {s} {e}"
  | .ident s e => s!"ident {s} {e}"
  | .op s e => s!"op {s} {e}"
  | .str raw s e => s!"str {b01 raw} {s} {e}"
  | .chr c => s!"chr {c}"
  | .int v => s!"int {v}"
  | .byte v => s!"byte {v}"
  | .float _ _ => "float"
  | .doc block s e => s!"doc {b01 block} {s} {e}"
  | .kw k => "kw-" ++ k
  | .punct p => p
  | .eof => "eof"

def item : Item → String
  | .tok t => s!" ({loc t.s} {loc t.e} {tokText t.tok})"
  | .err e => s!" (err {errName e.kind} {loc e.s} {loc e.e})"

def render (st : Stream) : String :=
  match st.fin with
  | .panic _ => "panic"
  | .hang => "hang"
  | .fuel => "(fuel (items" ++ String.join (st.items.map item) ++ ") (errs" ++
      String.join (st.errs.map fun e => s!" ({errName e.kind} {loc e.s} {loc e.e})") ++ "))"
  | .eof l => s!"((eof {loc l}) (items" ++ String.join (st.items.map item) ++ ") (errs" ++
      String.join (st.errs.map fun e => s!" ({errName e.kind} {loc e.s} {loc e.e})") ++ "))"

def handle (h : String) : String :=
  match unhex (h.toList.drop 1) #[] with
  | some inp => render (tokenize inp)
  | none => "bad-request"

end LexDrv

def kindOfName : String → Option Kind
  | "shebang" => some .shebang | "doc" => some .doc | "attrOpen" => some .attrOpen
  | "rec" => some .rec_ | "else" => some .else_ | "if" => some .if_ | "in" => some .in_
  | "let" => some .let_ | "do" => some .do_ | "seq" => some .seq_ | "match" => some .match_
  | "then" => some .then_ | "type" => some .type_ | "with" => some .with_
  | "comma" => some .comma | "equals" => some .equals | "lambda" => some .lambda
  | "pipe" => some .pipe | "rarrow" => some .rarrow
  | "lbrace" => some .lbrace | "lbracket" => some .lbracket | "lparen" => some .lparen
  | "rbrace" => some .rbrace | "rbracket" => some .rbracket | "rparen" => some .rparen
  | "openBlock" => some .openBlock | "closeBlock" => some .closeBlock | "semi" => some .semi
  | "eof" => some .eof | "other" => some .other | "lexErr" => some .lexErr
  | _ => none

def kindName : Kind → String
  | .shebang => "shebang" | .doc => "doc" | .attrOpen => "attrOpen"
  | .rec_ => "rec" | .else_ => "else" | .if_ => "if" | .in_ => "in"
  | .let_ => "let" | .do_ => "do" | .seq_ => "seq" | .match_ => "match"
  | .then_ => "then" | .type_ => "type" | .with_ => "with"
  | .comma => "comma" | .equals => "equals" | .lambda => "lambda"
  | .pipe => "pipe" | .rarrow => "rarrow"
  | .lbrace => "lbrace" | .lbracket => "lbracket" | .lparen => "lparen"
  | .rbrace => "rbrace" | .rbracket => "rbracket" | .rparen => "rparen"
  | .openBlock => "openBlock" | .closeBlock => "closeBlock" | .semi => "semi"
  | .eof => "eof" | .other => "other" | .lexErr => "lexErr"

def parseTok : Sexp → Option Tok
  | .list [.atom k, l, c, s, e] => do
    let k ← kindOfName k
    let l ← l.toNat?
    let c ← c.toNat?
    let s ← s.toNat?
    let e ← e.toNat?
    pure ⟨k, ⟨l, c, s⟩, e⟩
  | _ => none

def parseToks : List Sexp → Option (List Tok)
  | [] => some []
  | x :: xs => do
    let t ← parseTok x
    let ts ← parseToks xs
    pure (t :: ts)

def renderOut (ts : List Tok) : String :=
  String.join (ts.map fun t => " (" ++ kindName t.kind ++ " " ++ toString t.loc.abs ++ " " ++ toString t.stop ++ ")")

def handle : List Sexp → String
  | [.atom "lex", .atom h] => LexDrv.handle h
  | .atom "layout" :: fuel :: toks =>
    match fuel.toNat?, parseToks toks with
    | some fuel, some ts =>
      match ts.reverse with
      | eof :: revInput =>
        let (out, how) := layout revInput.reverse eof fuel
        let h := match how with
          | .ok => "ok"
          | .err (.unindented a) => "(err unindented " ++ toString a ++ ")"
          | .err (.lex s e) => "(err lex " ++ toString s ++ " " ++ toString e ++ ")"
          | .panic => "panic"
          | .hang => "hang"
          | .fuel => "fuel"
        "(" ++ h ++ renderOut out ++ ")"
      | [] => "bad-request"
    | _, _ => "bad-request"
  | _ => "bad-request"

def main : IO Unit := driverLoop handle
