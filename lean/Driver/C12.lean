import GluonModel.Sexp
import GluonModel.Share
import GluonModel.Loader
open GluonModel GluonModel.Share

/-- sorts of the protocol: `d` GcPtr<DataStruct>, `a` GcPtr<ValueArray>, `f` Arc<[InternedStr]> -/
def sortOfAtom : String → Nat
  | "d" => 0
  | "a" => 1
  | "f" => 2
  | _ => 3

def sortName : Nat → String
  | 0 => "d"
  | 1 => "a"
  | 2 => "f"
  | _ => "?"

partial def parseT : Sexp → Option T
  | .atom "a" => some (.atom 0)
  | .list (.atom "n" :: addr :: uniq :: .atom s :: kids) => do
    let addr ← addr.toNat?
    let uniq ← uniq.toNat?
    let ks ← kids.mapM parseT
    pure (.node addr (uniq != 0) (sortOfAtom s) ks)
  | _ => none

partial def parseD : Sexp → Option D
  | .list (.atom "M" :: .atom s :: id :: kids) => do
    let id ← id.toNat?
    let ks ← kids.mapM parseD
    pure (.marked (sortOfAtom s) id ks)
  | .list (.atom "P" :: .atom s :: kids) => do
    let ks ← kids.mapM parseD
    pure (.plain (sortOfAtom s) ks)
  | .list [.atom "R", .atom s, id] => do
    let id ← id.toNat?
    pure (.ref (sortOfAtom s) id)
  | _ => none

/-- The Marked/Plain/Reference skeleton (atoms are not part of the protocol). -/
partial def renderD : D → List String
  | .atom _ => []
  | .marked s id ks =>
    ["(" ++ " ".intercalate (["M", sortName s, toString id] ++ (ks.map renderD).flatten) ++ ")"]
  | .plain s ks => ["(" ++ " ".intercalate (["P", sortName s] ++ (ks.map renderD).flatten) ++ ")"]
  | .ref s id => ["(R " ++ sortName s ++ " " ++ toString id ++ ")"]

def okPattern (d : D) : String := "(" ++ " ".intercalate ("ok" :: renderD d) ++ ")"

def answerDe (toks : List Tok) : String :=
  match de toks with
  | .ok t => okPattern (serD [] t).1
  | .error (.missing id) => "(missing " ++ toString id ++ ")"
  | .error .eof => "eof"

def topD : List Sexp → Option D
  | [] => some (.atom 0)
  | [x] => parseD x
  | _ => none

def handle : List Sexp → String
  | [.atom "ser", t] =>
    match parseT t with
    | some t => okPattern (serD [] t).1
    | none => "bad-request"
  | .atom "de" :: ds =>
    match topD ds with
    | some d => answerDe (flat d)
    | none => "bad-request"
  | .atom "detrunc" :: k :: ds =>
    match k.toNat?, topD ds with
    | some k, some d =>
      -- the harness cuts the text right before the k-th Marked/Plain/Reference token
      let toks := (flat d).filter (fun t => match t with | .atom _ => false | _ => true)
      answerDe (toks.take k)
    | _, _ => "bad-request"
  | [.atom "globals", .list defined, .list wanted] =>
    match defined.mapM Sexp.str?, wanted.mapM Sexp.str? with
    | some ds, some ws =>
      match Loader.resolveGlobals (ds.map (fun d => (d, 0))) ws with
      | .ok _ => "ok"
      | .error => "error"
      | .panic => "panic"
    | _, _ => "bad-request"
  | _ => "bad-request"

def main : IO Unit := driverLoop handle
