import GluonModel.Sexp
import GluonModel.Share
import GluonModel.Loader
import GluonModel.LoadVerify
import GluonModel.ModuleRec
import GluonModel.JsonStr
import GluonModel.JsonText
import GluonModel.InstrVerify
open GluonModel GluonModel.Share

/-- sorts of the protocol: `d` GcPtr<DataStruct>, `a` GcPtr<ValueArray>, `f` Arc<[InternedStr]> -/
def sortOfAtom : String → Nat
  | "d" => 0
  | "a" => 1
  | "f" => 2
  | "c" => 4
  | _ => 3

def sortName : Nat → String
  | 0 => "d"
  | 1 => "a"
  | 2 => "f"
  | 4 => "c"
  | _ => "?"

partial def parseT : Sexp → Option T
  | .atom "a" => some (.atom 0)
  | .list (.atom "n" :: addr :: uniq :: .atom s :: kids) => do
    let addr ← addr.toNat?
    let uniq ← uniq.toNat?
    let ks ← kids.mapM parseT
    pure (.node addr (uniq != 0) (sortOfAtom s) ks)
  -- a closure; the function part (read before the allocation) is elided on both sides
  | .list (.atom "c" :: addr :: .atom s :: kids) => do
    let addr ← addr.toNat?
    let ks ← kids.mapM parseT
    pure (.clo addr (sortOfAtom s) [] ks)
  | .list [.atom "p", addr, .atom s] => do
    let addr ← addr.toNat?
    pure (.ptr addr (sortOfAtom s))
  | _ => none

partial def parseD : Sexp → Option D
  | .list (.atom "M" :: .atom s :: id :: kids) => do
    let id ← id.toNat?
    let ks ← kids.mapM parseD
    pure (.marked (sortOfAtom s) id ks)
  | .list (.atom "P" :: .atom s :: kids) => do
    let ks ← kids.mapM parseD
    pure (.plain (sortOfAtom s) ks)
  | .list [.atom "R", .atom s, id] => do
    let id ← id.toNat?
    pure (.ref (sortOfAtom s) id)
  | .list (.atom "C" :: .atom s :: id :: kids) => do
    let id ← id.toNat?
    let ks ← kids.mapM parseD
    pure (.cmarked (sortOfAtom s) id 0 ks)
  | _ => none

/-- The Marked/Plain/Reference skeleton (atoms are not part of the protocol). -/
partial def renderD : D → List String
  | .atom _ => []
  | .marked s id ks =>
    ["(" ++ " ".intercalate (["M", sortName s, toString id] ++ (ks.map renderD).flatten) ++ ")"]
  | .plain s ks => ["(" ++ " ".intercalate (["P", sortName s] ++ (ks.map renderD).flatten) ++ ")"]
  | .ref s id => ["(R " ++ sortName s ++ " " ++ toString id ++ ")"]
  | .cmarked s id _ ks =>
    ["(" ++ " ".intercalate (["C", sortName s, toString id] ++ (ks.map renderD).flatten) ++ ")"]

def okPattern (d : D) : String := "(" ++ " ".intercalate ("ok" :: renderD d) ++ ")"

def answerDe (toks : List Tok) : String :=
  match de toks with
  | .ok t => okPattern (serD [] t).1
  | .error (.missing id) => "(missing " ++ toString id ++ ")"
  | .error .eof => "eof"
  | .error .invalid => "invalid"

def topD : List Sexp → Option D
  | [] => some (.atom 0)
  | [x] => parseD x
  | _ => none

open GluonModel.LoadVerify in
def parseVInstr : Sexp → Option VInstr
  | .atom "x" => some ⟨.pushc, .none⟩
  | .atom "ret" => some ⟨.ret, .none⟩
  | .atom "tc" => some ⟨.tailcall 0, .none⟩
  | .list [.atom "j", t] => do pure ⟨.jump (← t.toNat?), .none⟩
  | .list [.atom "cj", t] => do pure ⟨.cjump (← t.toNat?), .none⟩
  | .list [.atom "s", i] => do pure ⟨.pushc, .string (← i.toNat?)⟩
  | .list [.atom "r", i, a] => do pure ⟨.pushc, .record (← i.toNat?) (← a.toNat?)⟩
  | .list [.atom "u", i] => do pure ⟨.pushc, .upvar (← i.toNat?)⟩
  | .list [.atom "c", j, u] => do pure ⟨.pushc, .closure (← j.toNat?) (← u.toNat?)⟩
  | _ => none

open GluonModel.LoadVerify in
partial def parseVFn : Sexp → Option VFn
  | .list [.atom "fn", mx, up, ns, .list recs, .list code, .list inner] => do
    let mx ← mx.toNat?
    let up ← up.toNat?
    let ns ← ns.toNat?
    let recs ← recs.mapM Sexp.toNat?
    let code ← code.mapM parseVInstr
    let inner ← inner.mapM parseVFn
    pure (.mk 0 mx code ns recs up inner)
  | _ => none

section Instructions
open GluonModel.InstrJson GluonModel.Generated.InstrEnum GluonModel.InstrVerify

/-- decode the text of an `instructions` array; the flag says whether encoding the decoded
    instructions reproduces the text character by character -/
def decodeText (text : String) : Except String (List Instr × Bool) :=
  match JsonText.parse text.toList with
  | none => .error "bad-json"
  | some j =>
    match decodeList j with
    | none => .error "decode-fails"
    | some is => .ok (is, JsonText.print (encodeList is) == text.toList)

/-- `(fn args max upvars nstrings (record sizes) "<instructions json>" nosplits|(k…) (inner…))`
    ↦ the function, "every text reproduced", "every operand in range" -/
partial def parseMFn : Sexp → Except String (MFn × Bool × Bool)
  | .list [.atom "fn", args, mx, up, ns, .list recs, .str text, splits, .list inner] =>
    match args.toNat?, mx.toNat?, up.toNat?, ns.toNat?, recs.mapM Sexp.toNat? with
    | some args, some mx, some up, some ns, some recs =>
      let sp : Option (Option (List Nat)) :=
        match splits with
        | .atom "nosplits" => some none
        | .list ks => (ks.mapM Sexp.toNat?).map some
        | _ => none
      match sp, decodeText text, inner.mapM parseMFn with
      | none, _, _ => .error "bad-request"
      | _, .error e, _ => .error e
      | _, _, .error e => .error e
      | some sp, .ok (is, same), .ok gs =>
        .ok (.mk args mx is sp ns recs up (gs.map (·.1)),
             same && gs.all (·.2.1), is.all Instr.inRange && gs.all (·.2.2))
    | _, _, _, _, _ => .error "bad-request"
  | _ => .error "bad-request"

def answerMod (s : Sexp) : String :=
  match parseMFn s with
  | .error e => e
  | .ok (m, same, inr) =>
    "(n " ++ toString m.count ++ " adj " ++ toString m.adjust ++ " rt " ++
      (if same then "same" else "differs") ++ " range " ++ (if inr then "ok" else "out") ++ " " ++
      verdict m ++ ")"

def answerInstrs (text : String) : String :=
  match JsonText.parse text.toList with
  | none => "bad-json"
  | some j =>
    match decodeList j with
    | none => "err"
    | some is => "(ok " ++ Sexp.quote (String.ofList (JsonText.print (encodeList is))) ++ ")"

end Instructions

def handle : List Sexp → String
  | [.atom "mod", f] => answerMod f
  | [.atom "instrs", .str text] => answerInstrs text
  | [.atom "ser", t] =>
    match parseT t with
    | some t => okPattern (serD [] t).1
    | none => "bad-request"
  | .atom "de" :: ds =>
    match topD ds with
    | some d => answerDe (flat d)
    | none => "bad-request"
  | .atom "detrunc" :: k :: ds =>
    match k.toNat?, topD ds with
    | some k, some d =>
      -- the harness cuts the text right before the k-th Marked/Plain/Reference token
      let toks := (flat d).filter (fun t => match t with | .atom _ => false | _ => true)
      answerDe (toks.take k)
    | _, _ => "bad-request"
  | [.atom "esc", .str t] => Sexp.quote (String.ofList (JsonStr.escape t.toList))
  | [.atom "unesc", .str t] =>
    match JsonStr.unescape t.toList with
    | some r => "(ok " ++ Sexp.quote (String.ofList r) ++ ")"
    | none => "err"
  | [.atom "operands", f] =>
    match parseVFn f with
    | some f => if LoadVerify.operandsOkDeep f then "accept" else "reject"
    | none => "bad-request"
  | [.atom "fields", .str name] =>
    match ModuleRec.fieldsOf Generated.ModuleFields.structs name with
    | some fis =>
      "(" ++ " ".intercalate ((fis.filter (fun f => !f.skipSer)).map (fun f => Sexp.quote f.name)) ++ ")"
    | none => "unknown-struct"
  | [.atom "globals", .list defined, .list wanted] =>
    match defined.mapM Sexp.str?, wanted.mapM Sexp.str? with
    | some ds, some ws =>
      match Loader.resolveGlobals (ds.map (fun d => (d, 0))) ws with
      | .ok _ => "ok"
      | .error => "error"
      | .panic => "panic"
    | _, _ => "bad-request"
  | _ => "bad-request"

def main : IO Unit := driverLoop handle
