import GluonModel.Sexp
import GluonModel.StdMap
import GluonModel.StdList
import GluonModel.StdString
import GluonModel.StdDerive
import GluonModel.StdJson
import GluonModel.StdJsonText
open GluonModel

namespace C19Driver
open StdList (Res)

def ints (xs : List Sexp) : Option (List Int) := xs.mapM Sexp.toInt?

def renderInts (xs : List Int) : String := "(" ++ " ".intercalate (xs.map toString) ++ ")"
def okInts (xs : List Int) : String := "(ok" ++ String.join (xs.map (fun i => " " ++ toString i)) ++ ")"

/-- must match `gv::quote_bytes` of the Rust side exactly -/
def quoteBytes (b : List Nat) : String :=
  let h := "0123456789abcdef".toList
  let esc (c : Nat) : String :=
    if c == 34 then "\\\"" else if c == 92 then "\\\\" else if c == 10 then "\\n"
    else if c == 9 then "\\t" else if c == 13 then "\\r"
    else if c < 32 || c ≥ 127 then
      "\\x" ++ String.ofList [h.getD (c / 16) '0', h.getD (c % 16) '0']
    else String.singleton (Char.ofNat c)
  "\"" ++ String.join (b.map esc) ++ "\""

def bytesOf (s : String) : List Nat := s.toList.map Char.toNat

def ordInt : Ordering → Int
  | .lt => -1
  | .eq => 0
  | .gt => 1
def boolInt (b : Bool) : Int := if b then 1 else 0

def foldF (acc x : Int) : Int := Int.tmod (acc * 31 + x) 1000003
def keyCmp (a b : Int) : Ordering := StdMap.icmp (Int.tdiv a 100) (Int.tdiv b 100)

/-! map: the op interpreter of `map_go` in harness/src/bin/c19/driver.glu -/
def mapGo : List Int → StdMap.Map Int Int → List Int → StdMap.Map Int Int × List Int
  | op :: k :: v :: rest, m, acc =>
    if op == 0 then mapGo rest (StdMap.insert StdMap.icmp k v m) acc
    else if op == 1 then
      match StdMap.find StdMap.icmp k m with
      | some x => mapGo rest m (acc ++ [1, x])
      | none => mapGo rest m (acc ++ [0])
    else if op == 2 then
      let l := StdMap.toList m
      mapGo rest m (acc ++ [(l.length : Int)] ++ l.flatMap (fun kv => [kv.1, kv.2]))
    else if op == 3 then
      let ks := StdMap.keys m
      mapGo rest m (acc ++ [(ks.length : Int)] ++ ks ++ StdMap.values m)
    else if op == 4 then mapGo rest (StdMap.append StdMap.icmp m (StdMap.singleton k v)) acc
    else mapGo rest (StdMap.append StdMap.icmp (StdMap.singleton k v) m) acc
  | _, m, acc => (m, acc)

def handleMap (ops : List Int) : String :=
  let (m, acc) := mapGo ops StdMap.empty []
  let sh := StdMap.showMap (fun (i : Int) => toString i) (fun (i : Int) => toString i) m
  let m2 := StdMap.map (fun x => x * 2 + 1) m
  let folds : List Int := [
    StdMap.foldl foldF 7 m,
    StdMap.foldr (fun x acc => foldF acc x) 7 m,
    StdMap.foldl foldF 7 m2,
    boolInt (StdMap.eqMap (· == ·) (· == ·) m m)]
  "(" ++ renderInts acc ++ " " ++ Sexp.quote sh ++ " " ++ renderInts folds ++ ")"

def handleList (op : Int) (xs ys : List Int) (p q : Int) : String :=
  let l := StdList.ofArray xs
  let r := StdList.ofArray ys
  if op == 0 then okInts (StdList.sort StdMap.icmp l)
  else if op == 1 then okInts (StdList.sort keyCmp l)
  else if op == 2 then okInts (StdList.filter (fun x => x < p) l)
  else if op == 3 then okInts (StdList.filter (fun x => Int.tmod x p == q) l)
  else if op == 4 then okInts [StdList.foldl foldF p l]
  else if op == 5 then okInts [StdList.foldr (fun x acc => foldF acc x) p l]
  else if op == 6 then okInts (StdList.foldl (fun acc x => x :: acc) [] l)
  else if op == 7 then okInts (StdList.append l r)
  else if op == 8 then okInts (StdList.map (fun x => x * 2 + 1) l)
  else if op == 9 then okInts (StdList.flatMap (fun x => [x, x + p]) l)
  else if op == 10 then
    okInts [ordInt (StdList.listCmp StdMap.icmp l r), boolInt (StdList.listEq (· == ·) l r)]
  else okInts (StdList.foldr (fun x acc => x :: acc) [] l)

def handleArr (op : Int) (xs ys : List Int) (p q : Int) : String :=
  if op == 0 then
    match StdList.arrIndex xs p with
    | .ok x => okInts [x]
    | .err => "err"
  else if op == 1 then
    match StdList.arrSlice xs p q with
    | .ok r => okInts r
    | .err => "err"
  else if op == 2 then okInts (StdList.arrAppend xs ys)
  else if op == 3 then okInts [(xs.length : Int), boolInt (xs.length == 0)]
  else if op == 4 then okInts [StdList.arrFoldl foldF p xs]
  else if op == 5 then okInts [StdList.arrFoldr (fun x acc => foldF acc x) p xs]
  else if op == 6 then
    okInts [ordInt (StdList.arrCmp StdMap.icmp xs ys), boolInt (StdList.arrEq (· == ·) xs ys)]
  else if op == 7 then okInts (StdList.arrMap (fun x => x * 2 + 1) xs)
  else okInts (StdList.arrAppend xs ys)

def optInt : Option Nat → Int
  | some i => i
  | none => -1

def handleSInt (op : Int) (s t : List Nat) (i : Int) : String :=
  let ok (n : Int) := "(ok " ++ toString n ++ ")"
  if op == 0 then ok (StdString.len s)
  else if op == 1 then
    match StdString.charAt s i with
    | .ok c => ok c
    | .err => "err"
    | .abort => "abort"
  else if op == 2 then ok (optInt (StdString.find s t))
  else if op == 3 then ok (optInt (StdString.rfind s t))
  else if op == 4 then ok (ordInt (StdString.cmp s t))
  else if op == 5 then ok (boolInt (StdString.isCharBoundary s i))
  else if op == 6 then ok (boolInt (StdString.startsWith s t))
  else if op == 7 then ok (boolInt (StdString.endsWith s t))
  else if op == 8 then ok (boolInt (StdString.contains s t))
  else if op == 9 then ok (boolInt (s == t))
  else ok (boolInt (StdString.isEmpty s))

def handleSStr (op : Int) (s t : List Nat) (i j : Int) : String :=
  let ok (b : List Nat) := "(ok " ++ quoteBytes b ++ ")"
  if op == 0 then
    match StdString.slice s i j with
    | .ok r => ok r
    | .err => "err"
    | .abort => "abort"
  else if op == 2 || op == 3 then
    match StdString.splitAt s i with
    | .ok (l, r) => ok (if op == 2 then l else r)
    | .err => "err"
    | .abort => "abort"
  else if op == 4 then ok (StdString.showStr s)
  else ok (StdString.append s t)

open StdDerive in
partial def parseVal : Sexp → Option Val
  | .list [.atom "i", n] => n.toInt?.map Val.int
  | .list [.atom "s", .str s] => some (.str s)
  | .list [.atom "b", .atom "T"] => some (.bool true)
  | .list [.atom "b", .atom "F"] => some (.bool false)
  | .list (.atom "c" :: .str n :: args) => (args.mapM parseVal).map (Val.ctor n)
  | .list (.atom "a" :: xs) => (xs.mapM parseVal).map Val.arr
  | .list (.atom "r" :: fs) =>
    (fs.mapM (fun (f : Sexp) => match f with
      | Sexp.list [Sexp.str n, v] => (parseVal v).map (fun v => (n, v))
      | _ => none)).map Val.record
  | _ => none

/-! JSON text layer (`GluonModel.StdJsonText`).
    value encoding: `n` `t` `f` `(i N)` `(d BITS)` `(s "…")` `(a V…)` `(o M)` with the std.map tree
    `M ::= _ | (b "key" V M M)`, or `(oi ("key" V)…)` = `std.map.insert` of the pairs, in order, into
    `empty`. -/
open StdJsonText in
mutual
partial def parseJ : Sexp → Option JVal
  | .atom "n" => some .null
  | .atom "t" => some (.bool true)
  | .atom "f" => some (.bool false)
  | .list [.atom "i", n] => n.toInt?.map .int
  | .list [.atom "d", n] => n.toNat?.map .float
  | .list [.atom "s", .str s] => some (.str s.toList)
  | .list (.atom "a" :: xs) => (xs.mapM parseJ).map .arr
  | .list [.atom "o", m] => (parseJM m).map .obj
  | .list (.atom "oi" :: kvs) =>
    (kvs.mapM (fun kv => match kv with
      | Sexp.list [Sexp.str k, v] => (parseJ v).map (fun v => (k.toList, v))
      | _ => none)).map (fun (es : List (Str × JVal)) =>
        JVal.obj (es.foldl (fun (m : StdMap.Map Str JVal) (e : Str × JVal) =>
          StdMap.insert scmp e.1 e.2 m) StdMap.Map.tip))
  | _ => none
partial def parseJM : Sexp → Option (StdMap.Map Str JVal)
  | .atom "_" => some .tip
  | .list [.atom "b", .str k, v, l, r] =>
    match parseJ v, parseJM l, parseJM r with
    | some v, some l, some r => some (.bin k.toList v l r)
    | _, _, _ => none
  | _ => none
end

open StdJsonText in
mutual
partial def renderJ : JVal → String
  | .null => "n"
  | .bool true => "t"
  | .bool false => "f"
  | .int i => "(i " ++ toString i ++ ")"
  | .float b => "(d " ++ toString b ++ ")"
  | .str s => "(s " ++ Sexp.quote (String.ofList s) ++ ")"
  | .arr xs => "(a" ++ String.join (xs.map (fun x => " " ++ renderJ x)) ++ ")"
  | .obj m => "(o " ++ renderJM m ++ ")"
partial def renderJM : StdMap.Map StdJsonText.Str JVal → String
  | .tip => "_"
  | .bin k v l r =>
    "(b " ++ Sexp.quote (String.ofList k) ++ " " ++ renderJ v ++ " " ++ renderJM l ++ " " ++ renderJM r ++ ")"
end

def handleJser (v : Sexp) : String :=
  match parseJ v with
  | some v => Sexp.quote (String.ofList (StdJsonText.ser v))
  | none => "bad-request"

def handleJde (s : String) : String :=
  match StdJsonText.de s.toList with
  | .ok v => "(ok " ++ renderJ v ++ ")"
  | .error e => "(err " ++ Sexp.quote e.msg ++ ")"

def handle : List Sexp → String
  | .atom "map" :: ops =>
    match ints ops with
    | some ops => handleMap ops
    | none => "bad-request"
  | [.atom "list", op, .list xs, .list ys, p, q] =>
    match op.toInt?, ints xs, ints ys, p.toInt?, q.toInt? with
    | some op, some xs, some ys, some p, some q => handleList op xs ys p q
    | _, _, _, _, _ => "bad-request"
  | .atom "lshow" :: xs =>
    match ints xs with
    | some xs => Sexp.quote (StdList.showList (fun (i : Int) => toString i) (StdList.ofArray xs))
    | none => "bad-request"
  | [.atom "arr", op, .list xs, .list ys, p, q] =>
    match op.toInt?, ints xs, ints ys, p.toInt?, q.toInt? with
    | some op, some xs, some ys, some p, some q => handleArr op xs ys p q
    | _, _, _, _, _ => "bad-request"
  | .atom "ashow" :: xs =>
    match ints xs with
    | some xs => Sexp.quote (StdList.arrShow (fun (i : Int) => toString i) xs)
    | none => "bad-request"
  | [.atom "sint", op, .str s, .str t, i] =>
    match op.toInt?, i.toInt? with
    | some op, some i => handleSInt op (bytesOf s) (bytesOf t) i
    | _, _ => "bad-request"
  | [.atom "sstr", op, .str s, .str t, i, j] =>
    match op.toInt?, i.toInt?, j.toInt? with
    | some op, some i, some j => handleSStr op (bytesOf s) (bytesOf t) i j
    | _, _, _ => "bad-request"
  | [.atom "derive", x, y] =>
    match parseVal x, parseVal y with
    | some x, some y =>
      "(" ++ Sexp.quote (StdDerive.showVal x) ++ " " ++ Sexp.quote (StdDerive.showVal y) ++ " "
        ++ (if StdDerive.eqVal x y then "T" else "F") ++ ")"
    | _, _ => "bad-request"
  | .atom "json" :: rest => StdJson.handleJson rest
  | [.atom "jser", v] => handleJser v
  | [.atom "jde", .str s] => handleJde s
  | _ => "bad-request"

end C19Driver

def main : IO Unit := driverLoop C19Driver.handle
