import GluonModel.Sexp
import GluonModel.Memo
import GluonModel.MemoPath
open GluonModel GluonModel.Memo

/-
Requests:  (hist <step>*)   with <step> =
   (set  m int|str c (d u)*)     add_module only
   (get  m)                      run_expr "import! m"
   (load m int|str c (d u)*)     load_script = add_module + import
Answer: one item per step:  -   |  (ok int v (ran*)) | (ok str c (ran*)) | (err cls (ran*) (path*))
        for load: (ok (ran*)) | (err cls (ran*) (path*))
where ran* are the modules whose body was run by this step, in order, and path* the distinct printed
cycle paths `(x … x)` of the error message, sorted.
-/

def parseDeps : List Sexp → Option (List (Mod × Bool))
  | [] => some []
  | .list [d, u] :: rest => do
    let d ← d.toNat?
    let u ← u.toNat?
    let r ← parseDeps rest
    pure ((d, u != 0) :: r)
  | _ => none

def parseSrc : List Sexp → Option (Mod × Src)
  | m :: .atom k :: c :: deps => do
    let m ← m.toNat?
    let c ← c.toNat?
    let k ← (if k == "int" then some Ty.int else if k == "str" then some Ty.str else none)
    let ds ← parseDeps deps
    pure (m, ⟨k, c, ds⟩)
  | _ => none

def showCls : Cls → String
  | .type => "type" | .missing => "missing" | .cycle => "cycle"

def showLog (l : List Mod) : String := "(" ++ " ".intercalate (l.map toString) ++ ")"

def pathLt : List Nat → List Nat → Bool
  | [], [] => false
  | [], _ :: _ => true
  | _ :: _, [] => false
  | a :: as, b :: bs => a < b || (a == b && pathLt as bs)

def insertPath (p : Path) : List Path → List Path
  | [] => [p]
  | q :: qs => if pathLt p q then p :: q :: qs else q :: insertPath p qs

def sortPaths (ps : List Path) : List Path := ps.foldl (fun acc p => insertPath p acc) []

def showPaths (ps : List Path) : String :=
  "(" ++ " ".intercalate ((sortPaths ps).map showLog) ++ ")"

def showRes (full : Bool) (r : Res) (ran : List Mod) (ps : List Path) : String :=
  match r with
  | .ok .int v => if full then s!"(ok int {v} {showLog ran})" else s!"(ok {showLog ran})"
  | .ok .str v => if full then s!"(ok str {v} {showLog ran})" else s!"(ok {showLog ran})"
  | .err c => s!"(err {showCls c} {showLog ran} {showPaths ps})"

def doGet (full : Bool) (st : St) (pc : PCache) (m : Mod) : String × St × PCache :=
  let before := st.cache.log.length
  let r := getM st m
  let p := getP st.srcs m pc
  (showRes full r.1 (r.2.cache.log.drop before) p.1, r.2, p.2)

def runSteps : List Sexp → St → PCache → List String → Option (List String)
  | [], _, _, acc => some acc.reverse
  | .list (.atom "set" :: rest) :: more, st, pc, acc => do
    let (m, s) ← parseSrc rest
    let st' := setSrc false st m s
    runSteps more st' (setP st st' pc) ("-" :: acc)
  | .list [.atom "get", m] :: more, st, pc, acc => do
    let m ← m.toNat?
    let (a, st', pc') := doGet true st pc m
    runSteps more st' pc' (a :: acc)
  | .list (.atom "load" :: rest) :: more, st, pc, acc => do
    let (m, s) ← parseSrc rest
    let st1 := setSrc false st m s
    let (a, st', pc') := doGet false st1 (setP st st1 pc) m
    runSteps more st' pc' (a :: acc)
  | _, _, _, _ => none

def handle : List Sexp → String
  | .atom "hist" :: steps =>
    match runSteps steps St.init PCache.init [] with
    | some xs => "(" ++ " ".intercalate xs ++ ")"
    | none => "bad-request"
  | _ => "bad-request"

def main : IO Unit := driverLoop handle
