import GluonModel.Sexp
import GluonModel.Memo
open GluonModel GluonModel.Memo

/-
Requests:  (hist <step>*)   with <step> =
   (set  m int|str c (d u)*)     add_module only
   (get  m)                      run_expr "import! m"
   (load m int|str c (d u)*)     load_script = add_module + import
Answer: one item per step:  -   |  (ok int v (ran*)) | (ok str c (ran*)) | (err cls (ran*))
        for load: (ok (ran*)) | (err cls (ran*))
where ran* are the modules whose body was run by this step, in order.
-/

def parseDeps : List Sexp → Option (List (Mod × Bool))
  | [] => some []
  | .list [d, u] :: rest => do
    let d ← d.toNat?
    let u ← u.toNat?
    let r ← parseDeps rest
    pure ((d, u != 0) :: r)
  | _ => none

def parseSrc : List Sexp → Option (Mod × Src)
  | m :: .atom k :: c :: deps => do
    let m ← m.toNat?
    let c ← c.toNat?
    let k ← (if k == "int" then some Ty.int else if k == "str" then some Ty.str else none)
    let ds ← parseDeps deps
    pure (m, ⟨k, c, ds⟩)
  | _ => none

def showCls : Cls → String
  | .type => "type" | .missing => "missing" | .cycle => "cycle"

def showLog (l : List Mod) : String := "(" ++ " ".intercalate (l.map toString) ++ ")"

def showRes (full : Bool) (r : Res) (ran : List Mod) : String :=
  match r with
  | .ok .int v => if full then s!"(ok int {v} {showLog ran})" else s!"(ok {showLog ran})"
  | .ok .str v => if full then s!"(ok str {v} {showLog ran})" else s!"(ok {showLog ran})"
  | .err c => s!"(err {showCls c} {showLog ran})"

def doGet (full : Bool) (st : St) (m : Mod) : String × St :=
  let before := st.cache.log.length
  let r := getM st m
  (showRes full r.1 (r.2.cache.log.drop before), r.2)

def runSteps : List Sexp → St → List String → Option (List String)
  | [], _, acc => some acc.reverse
  | .list (.atom "set" :: rest) :: more, st, acc => do
    let (m, s) ← parseSrc rest
    runSteps more (setSrc false st m s) ("-" :: acc)
  | .list [.atom "get", m] :: more, st, acc => do
    let m ← m.toNat?
    let (a, st') := doGet true st m
    runSteps more st' (a :: acc)
  | .list (.atom "load" :: rest) :: more, st, acc => do
    let (m, s) ← parseSrc rest
    let (a, st') := doGet false (setSrc false st m s) m
    runSteps more st' (a :: acc)
  | _, _, _ => none

def handle : List Sexp → String
  | .atom "hist" :: steps =>
    match runSteps steps St.init [] with
    | some xs => "(" ++ " ".intercalate xs ++ ")"
    | none => "bad-request"
  | _ => "bad-request"

def main : IO Unit := driverLoop handle
