import GluonModel.Sexp
import GluonModel.OptCore
import GluonModel.Dce
open GluonModel GluonModel.OptCore GluonModel.Dce

/-! Reader of the core-IR S-expressions written by harness/src/bin/c04/coreser.rs. -/

def parseLit : Sexp → Option Lit
  | .list [.atom "i", n] => n.toInt?.map .int
  | .list [.atom "b", n] => n.toNat?.map .byte
  | .list [.atom "f", n] => n.toNat?.map .float
  | .list [.atom "s", .str s] => some (.str s)
  | .list [.atom "ch", n] => n.toNat?.map .char
  | _ => none

def parseNames (xs : List Sexp) : Option (List String) := xs.mapM Sexp.str?

def parseField : Sexp → Option (String × String)
  | .list [.str f, .str b] => some (f, b)
  | _ => none

def parsePat : Sexp → Option Pat
  | .list [.atom "pc", .str c, .list args] => (parseNames args).map (.ctor c)
  | .list [.atom "pr", .list fs] => (fs.mapM parseField).map .record
  | .list [.atom "pi", .str x] => some (.ident x)
  | .list [.atom "pl", l] => (parseLit l).map .lit
  | _ => none

mutual
partial def parseExpr : Sexp → Option Expr
  | .list [.atom "c", l] => (parseLit l).map .const
  | .list [.atom "v", .str x] => some (.ident x)
  | .list (.atom "call" :: f :: args) => do
    let f ← parseExpr f
    let args ← args.mapM parseExpr
    pure (.call f (Exprs.ofList args))
  | .list (.atom "data" :: .str c :: .list rows :: args) => do
    let rows ← parseNames rows
    let args ← args.mapM parseExpr
    pure (.data c rows (Exprs.ofList args))
  | .list [.atom "let", .str x, e, body] => do
    let e ← parseExpr e
    let body ← parseExpr body
    pure (.letE x e body)
  | .list [.atom "rec", .list cs, body] => do
    let cs ← cs.mapM parseClosure
    let body ← parseExpr body
    pure (.letRec (Closures.ofList cs) body)
  | .list (.atom "match" :: s :: alts) => do
    let s ← parseExpr s
    let alts ← alts.mapM parseAlt
    pure (.matchE s (Alts.ofList alts))
  | .list [.atom "cast", e] => (parseExpr e).map .cast
  | _ => none
partial def parseAlt : Sexp → Option (Pat × Expr)
  | .list [p, e] => do
    let p ← parsePat p
    let e ← parseExpr e
    pure (p, e)
  | _ => none
partial def parseClosure : Sexp → Option (String × List String × Expr)
  | .list [.str n, .list args, b] => do
    let args ← parseNames args
    let b ← parseExpr b
    pure (n, args, b)
  | _ => none
end

/-! Printer: the same walk as coreser.rs `expr`; `dummy%…` names are renumbered by first
    occurrence in the printed expression. -/

def showName (x : String) (tbl : List String) : String × List String :=
  if x.startsWith "dummy%" then
    match tbl.idxOf? x with
    | some i => (Sexp.quote ("dummy%" ++ toString i), tbl)
    | none => (Sexp.quote ("dummy%" ++ toString tbl.length), tbl ++ [x])
  else (Sexp.quote x, tbl)

def showNames (xs : List String) (tbl : List String) : List String × List String :=
  xs.foldl (fun (acc : List String × List String) x =>
    let (s, t) := showName x acc.2
    (acc.1 ++ [s], t)) ([], tbl)

def showLit : Lit → String
  | .int i => "(i " ++ toString i ++ ")"
  | .byte n => "(b " ++ toString n ++ ")"
  | .float n => "(f " ++ toString n ++ ")"
  | .str s => "(s " ++ Sexp.quote s ++ ")"
  | .char n => "(ch " ++ toString n ++ ")"

def showPat (p : Pat) (tbl : List String) : String × List String :=
  match p with
  | .ctor c args =>
    let (ss, tbl) := showNames args tbl
    ("(pc " ++ Sexp.quote c ++ " (" ++ " ".intercalate ss ++ "))", tbl)
  | .record fs =>
    let (ss, tbl) := fs.foldl (fun (acc : List String × List String) f =>
      let (s, t) := showName f.2 acc.2
      (acc.1 ++ ["(" ++ Sexp.quote f.1 ++ " " ++ s ++ ")"], t)) ([], tbl)
    ("(pr (" ++ " ".intercalate ss ++ "))", tbl)
  | .ident x =>
    let (s, tbl) := showName x tbl
    ("(pi " ++ s ++ ")", tbl)
  | .lit l => ("(pl " ++ showLit l ++ ")", tbl)

mutual
partial def showExpr (e : Expr) (tbl : List String) : String × List String :=
  match e with
  | .const l => ("(c " ++ showLit l ++ ")", tbl)
  | .ident x =>
    let (s, tbl) := showName x tbl
    ("(v " ++ s ++ ")", tbl)
  | .call f args =>
    let (sf, tbl) := showExpr f tbl
    let (sa, tbl) := showList args tbl
    ("(call " ++ sf ++ sa ++ ")", tbl)
  | .data c rows args =>
    let (sa, tbl) := showList args tbl
    ("(data " ++ Sexp.quote c ++ " (" ++ " ".intercalate (rows.map Sexp.quote) ++ ")" ++ sa ++ ")", tbl)
  | .letE x e1 body =>
    let (sx, tbl) := showName x tbl
    let (s1, tbl) := showExpr e1 tbl
    let (s2, tbl) := showExpr body tbl
    ("(let " ++ sx ++ " " ++ s1 ++ " " ++ s2 ++ ")", tbl)
  | .letRec cs body =>
    let (names, tbl) := showNames (closureNames cs) tbl
    let (sc, tbl) := showClosures cs names tbl
    let (sb, tbl) := showExpr body tbl
    ("(rec (" ++ " ".intercalate sc ++ ") " ++ sb ++ ")", tbl)
  | .matchE s alts =>
    let (ss, tbl) := showExpr s tbl
    let (sa, tbl) := showAlts alts tbl
    ("(match " ++ ss ++ sa ++ ")", tbl)
  | .cast e1 =>
    let (s1, tbl) := showExpr e1 tbl
    ("(cast " ++ s1 ++ ")", tbl)
partial def showList (es : Exprs) (tbl : List String) : String × List String :=
  match es with
  | .nil => ("", tbl)
  | .cons e rest =>
    let (s, tbl) := showExpr e tbl
    let (r, tbl) := showList rest tbl
    (" " ++ s ++ r, tbl)
partial def showAlts (as : Alts) (tbl : List String) : String × List String :=
  match as with
  | .nil => ("", tbl)
  | .cons p e rest =>
    let (sp, tbl) := showPat p tbl
    let (se, tbl) := showExpr e tbl
    let (r, tbl) := showAlts rest tbl
    (" (" ++ sp ++ " " ++ se ++ ")" ++ r, tbl)
partial def showClosures (cs : Closures) (names : List String) (tbl : List String) :
    List String × List String :=
  match cs, names with
  | .cons _ args b rest, n :: ns =>
    let (sa, tbl) := showNames args tbl
    let (sb, tbl) := showExpr b tbl
    let (r, tbl) := showClosures rest ns tbl
    (("(" ++ n ++ " (" ++ " ".intercalate sa ++ ") " ++ sb ++ ")") :: r, tbl)
  | _, _ => ([], tbl)
end

def render (e : Expr) : String := (showExpr e []).1

def showUsed (l : List String) : String :=
  let names := (l.filter fun x => !(x.startsWith "#") && x != topName).eraseDups
  let qs := (names.map Sexp.quote).mergeSort (fun a b => decide (a ≤ b))
  "(used" ++ String.join (qs.map (" " ++ ·)) ++ ")"

def showBool (b : Bool) : String := if b then "true" else "false"

def closedOf (e : Expr) : Bool :=
  -- the bounded fixpoint loop reached its fixpoint (the fallback of `Dce.reachable` is unused)
  let st := graphOf ruleNow e
  closedUnder st.edges (reachRaw st) && (reachRaw st).getD 0 true

/-- The hypotheses of `usedBindings_kept` (reported together with its conclusion in the `kept`
    field of the answer). -/
def hyps (e : Expr) : Bool := shapeOK e && bindersCoherent e

def handle : List Sexp → String
  | [.atom "opt", e] =>
    match parseExpr e with
    | none => "bad-expr"
    | some e =>
      let u := usedBindings e
      let d := dce (inList u) e
      let e1 := unnecessaryAlloc e
      let u1 := usedBindings e1
      let o := dce (inList u1) e1
      showUsed u ++ " (dce " ++ render d ++ ") (opt " ++ render o ++ ") (kept "
        ++ showBool (hyps e && uaOK e && kept (inList u) e) ++ " " ++ showBool (hyps e1 && kept (inList u1) e1)
        ++ ") (closed "
        ++ showBool (closedOf e) ++ " " ++ showBool (closedOf e1) ++ ")"
  | _ => "bad-request"

def main : IO Unit := driverLoop handle
