import GluonModel.Sexp
import GluonModel.Determinism
open GluonModel GluonModel.Determinism

/-! Driver of C16: `rename <type>`, `match <pattern>…`, `implicit (<len>…) <rel>`. -/

mutual
partial def parseTy : Sexp → Option Ty
  | .atom "int" => some .int
  | .list [.atom "v", n] => n.toNat?.map Ty.var
  | .list [.atom "fn", a, b] => do
    let a ← parseTy a
    let b ← parseTy b
    pure (.fn a b)
  | .list (.atom "rec" :: fs) => parseRow fs
  | _ => none
partial def parseRow : List Sexp → Option Ty
  | [] => some .rnil
  | .list [.str n, t] :: rest => do
    let t ← parseTy t
    let r ← parseRow rest
    pure (.rcons n t r)
  | _ => none
end

mutual
partial def renderTy : Ty → String
  | .var k => "(g " ++ Sexp.quote (nameStr k) ++ ")"
  | .int => "int"
  | .fn a b => "(fn " ++ renderTy a ++ " " ++ renderTy b ++ ")"
  | .rnil => "(rec)"
  | .rcons n t r => "(rec" ++ renderRow (.rcons n t r) ++ ")"
partial def renderRow : Ty → String
  | .rcons n t r => " (" ++ Sexp.quote n ++ " " ++ renderTy t ++ ")" ++ renderRow r
  | _ => ""
end

def codesToString (cs : List Nat) : String := String.ofList (cs.map Char.ofNat)

def handleRename (t : Ty) : String :=
  let r := generalizeTop t
  if r.1.isEmpty then renderTy r.2
  else "(forall (" ++ " ".intercalate (r.1.map (fun c => Sexp.quote (codesToString c))) ++ ") "
    ++ renderTy r.2 ++ ")"

partial def parsePat : Sexp → Option Pat
  | .atom "v" => some .var
  | .list [.atom "l", n] => n.toInt?.map Pat.lit
  | .list (.atom "c" :: .str n :: args) => do
    let args ← args.mapM parsePat
    pure (.ctor n args)
  | _ => none

def renderKey : Key → String
  | .ctor n a => "(c " ++ Sexp.quote n ++ " " ++ toString a ++ ")"
  | .lit n => "(l " ++ toString n ++ ")"
  | .any => "any"

partial def renderTree : Tree → String
  | .leaf r => "(r " ++ toString r ++ ")"
  | .fail => "fail"
  | .sw alts => "(sw" ++ String.join (alts.map (fun a => " (" ++ renderKey a.1 ++ " " ++ renderTree a.2 ++ ")")) ++ ")"

/-- A deliberately odd bucket order (the theorem says it cannot matter): new string keys go to
    a position derived from their length, new integer keys to the front. -/
def posS (k : String) (n : Nat) : Nat := (k.length * 7 + 3) % (n + 1)
def posI (_k : Int) (_n : Nat) : Nat := 0

def handle : List Sexp → String
  | [.atom "rename", t] =>
    match parseTy t with
    | some t => handleRename t
    | none => "bad-request"
  | .atom "match" :: arms =>
    match arms.mapM parsePat with
    | some arms => renderTree (compileMatch 4 posS posI arms)
    | none => "bad-request"
  | [.atom "implicit", .list lens, rel] =>
    match lens.mapM Sexp.toNat?, rel.toNat? with
    | some lens, some rel => Sexp.quote (implicitName lens rel)
    | _, _ => "bad-request"
  | _ => "bad-request"

def main : IO Unit := driverLoop handle
