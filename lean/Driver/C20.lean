import GluonModel.Sexp
import GluonModel.FindPos
open GluonModel GluonModel.FindPos

/-
Request:  (find <len> (names "x" …) <expr>)
  expr := (L lo hi) | (Z lo hi) | (O lo hi expr…) | (I lo hi expr oplo ophi expr) | (P lo hi expr)
        | (A lo hi expr) | (F lo hi (arg…) expr) | (B lo hi rec (bind…) expr) | (M lo hi expr (alt…))
        | (R lo hi (field…) [expr]) | (E lo hi)
  arg  := (lo hi id)      bind := (pat (arg…) expr)     alt := (pat expr)
  field := (lo hi) | (lo hi expr)
  pat  := (pl lo hi [id]) | (pt lo hi pat…) | (pc lo hi idlen pat…) | (pa lo hi id pat)
        | (pr lo hi field…)   field := (fs lo hi id) | (fv lo hi pat)   -- lo hi = span of the field NAME
Answer: one result per byte offset 0 … len+2:
  (<found> (<enclosing, in push order>) (<near, in push order>) <sugg>) | panic | fuel
-/

def nat? (s : Sexp) : Option Nat := s.toNat?

def parseArg : Sexp → Option Arg
  | .list [a, b, c] => do pure ⟨⟨← nat? a, ← nat? b⟩, ← nat? c⟩
  | _ => none

mutual
partial def parsePat : Sexp → Option Pat
  | .list [.atom "pl", a, b] => do pure (.leaf ⟨← nat? a, ← nat? b⟩ none)
  | .list [.atom "pl", a, b, c] => do pure (.leaf ⟨← nat? a, ← nat? b⟩ (some (← nat? c)))
  | .list (.atom "pt" :: a :: b :: ps) => do pure (.tuple ⟨← nat? a, ← nat? b⟩ (← parsePats ps))
  | .list (.atom "pc" :: a :: b :: n :: ps) => do
    pure (.ctor ⟨← nat? a, ← nat? b⟩ (← nat? n) (← parsePats ps))
  | .list [.atom "pa", a, b, c, p] => do pure (.as_ ⟨← nat? a, ← nat? b⟩ (← nat? c) (← parsePat p))
  | .list (.atom "pr" :: a :: b :: fs) => do pure (.record ⟨← nat? a, ← nat? b⟩ (← parsePats fs))
  | .list [.atom "fs", a, b, c] => do pure (.fieldShort ⟨← nat? a, ← nat? b⟩ (← nat? c))
  | .list [.atom "fv", a, b, p] => do pure (.fieldVal ⟨← nat? a, ← nat? b⟩ (← parsePat p))
  | _ => none
partial def parsePats : List Sexp → Option (List Pat)
  | [] => some []
  | p :: ps => do pure ((← parsePat p) :: (← parsePats ps))
end

mutual
partial def parseExpr : Sexp → Option Expr
  | .list [.atom "L", a, b] => do pure (.leaf ⟨← nat? a, ← nat? b⟩)
  | .list [.atom "Z", a, b] => do pure (.emptyNode ⟨← nat? a, ← nat? b⟩)
  | .list [.atom "E", a, b] => do pure (.error ⟨← nat? a, ← nat? b⟩)
  | .list (.atom "O" :: a :: b :: cs) => do pure (.one ⟨← nat? a, ← nat? b⟩ (← parseExprs cs))
  | .list [.atom "I", a, b, l, c, d, r] => do
    pure (.infix ⟨← nat? a, ← nat? b⟩ (← parseExpr l) ⟨← nat? c, ← nat? d⟩ (← parseExpr r))
  | .list [.atom "P", a, b, e] => do pure (.proj ⟨← nat? a, ← nat? b⟩ (← parseExpr e))
  | .list [.atom "A", a, b, e] => do pure (.annotated ⟨← nat? a, ← nat? b⟩ (← parseExpr e))
  | .list [.atom "F", a, b, .list args, e] => do
    pure (.lambda ⟨← nat? a, ← nat? b⟩ (← args.mapM parseArg) (← parseExpr e))
  | .list [.atom "B", a, b, r, .list binds, e] => do
    pure (.letb ⟨← nat? a, ← nat? b⟩ ((← nat? r) != 0) (← parseBinds binds) (← parseExpr e))
  | .list [.atom "M", a, b, e, .list alts] => do
    pure (.matchE ⟨← nat? a, ← nat? b⟩ (← parseExpr e) (← parseAlts alts))
  | .list [.atom "R", a, b, .list fs] => do
    pure (.record ⟨← nat? a, ← nat? b⟩ (← parseFields fs) none)
  | .list [.atom "R", a, b, .list fs, e] => do
    pure (.record ⟨← nat? a, ← nat? b⟩ (← parseFields fs) (some (← parseExpr e)))
  | _ => none
partial def parseExprs : List Sexp → Option (List Expr)
  | [] => some []
  | p :: ps => do pure ((← parseExpr p) :: (← parseExprs ps))
partial def parseBinds : List Sexp → Option (List LBind)
  | [] => some []
  | .list [p, .list args, e] :: bs => do
    pure (LBind.mk (← parsePat p) (← args.mapM parseArg) (← parseExpr e) :: (← parseBinds bs))
  | _ => none
partial def parseAlts : List Sexp → Option (List Alt)
  | [] => some []
  | .list [p, e] :: bs => do pure (Alt.mk (← parsePat p) (← parseExpr e) :: (← parseAlts bs))
  | _ => none
partial def parseFields : List Sexp → Option (List Field)
  | [] => some []
  | .list [a, b] :: fs => do pure (Field.mk ⟨← nat? a, ← nat? b⟩ none :: (← parseFields fs))
  | .list [a, b, e] :: fs => do
    pure (Field.mk ⟨← nat? a, ← nat? b⟩ (some (← parseExpr e)) :: (← parseFields fs))
  | _ => none
end

def renderM (m : M) : String :=
  let k := match m.kind, m.tag with
    | .expr, .plain => "e" | .expr, .proj => "ep" | .expr, .record => "er"
    | .pattern, .recpat => "pr" | .pattern, _ => "p" | .ident, _ => "i"
    | .expr, .recpat => "e"
  s!"({k} {m.span.lo} {m.span.hi})"

def insertSorted (x : String) : List String → List String
  | [] => [x]
  | y :: ys => if x < y then x :: y :: ys else y :: insertSorted x ys

def sortStrings (xs : List String) : List String := xs.foldl (fun acc x => insertSorted x acc) []

def renderOut (names : Array String) : Out → String
  | .panic => "panic"
  | .fuel => "fuel"
  | .ok st =>
    let f := match st.found with
      | .notFound => "N" | .empty => "E" | .found m => "(F " ++ renderM m ++ ")"
    let ms (l : List M) := "(" ++ " ".intercalate (l.reverse.map renderM) ++ ")"
    let s := match suggest st with
      | .skip => "skip"
      | .names ids =>
        "(S" ++ String.join ((sortStrings (ids.map (fun i => names.getD i "?"))).map
          (fun n => " " ++ Sexp.quote n)) ++ ")"
    -- `complete_at` drops the match lists when nothing was found (lib.rs:816)
    if st.found = .notFound then s!"(N {s})" else
    s!"({f} {ms st.enclosing} {ms st.near} {s})"

def handle : List Sexp → String
  | [.atom "find", len, .list (.atom "names" :: ns), tree] =>
    match nat? len, parseExpr tree, ns.mapM Sexp.str? with
    | some len, some e, some ns =>
      let names := ns.toArray
      let outs := (List.range (len + 3)).map (fun pos => renderOut names (findAt pos e))
      "(" ++ " ".intercalate outs ++ ")"
    | _, _, _ => "bad-request"
  | _ => "bad-request"

def main : IO Unit := driverLoop handle
