import GluonModel.Sexp
import GluonModel.Comments
import GluonModel.PrettyDoc
import GluonModel.KindSyntax
open GluonModel GluonModel.Comments
open GluonModel.PrettyDoc (Doc)

def q (l : List Char) : String := Sexp.quote (String.ofList l)

def renderRun : Run → String
  | .panic => "panic"
  | .fuel => "fuel"
  | .done its _ => "(items" ++ String.join (its.map (fun i => " " ++ q i)) ++ ")"

def renderMixed (r : List (Option (List Char)) × Bool) : String :=
  "(calls" ++ String.join (r.1.map (fun o => match o with | none => " none" | some i => " " ++ q i))
    ++ (if r.2 then " panic" else "") ++ ")"

/-- `n` nil, `f` fail, `l` hard newline, `(t "s")`, `(a x y)`, `(g x)`, `(ne k x)`, `(fa b f)`,
    `(u l r)`. -/
partial def parseDoc : Sexp → Option Doc
  | .atom "n" => some .nil
  | .atom "f" => some .fail
  | .atom "l" => some .line
  | .list [.atom "t", .str s] => some (.text s.toList)
  | .list [.atom "a", x, y] => do pure (.append (← parseDoc x) (← parseDoc y))
  | .list [.atom "g", x] => do pure (.group (← parseDoc x))
  | .list [.atom "ne", k, x] => do pure (.nest (← k.toNat?) (← parseDoc x))
  | .list [.atom "fa", x, y] => do pure (.flatAlt (← parseDoc x) (← parseDoc y))
  | .list [.atom "u", x, y] => do pure (.union (← parseDoc x) (← parseDoc y))
  | _ => none

def renderAt (d : Doc) (w : Sexp) : String :=
  match w.toNat? with
  | none => "bad-width"
  | some w =>
    match GluonModel.PrettyDoc.render w d with
    | some out => q out
    | none => "fail"

/-- `T` Type, `R` Row, `H` Hole, `(fn K K)`. -/
partial def parseKindSexp : Sexp → Option KindSyntax.Kind
  | .atom "T" => some .type
  | .atom "R" => some .row
  | .atom "H" => some .hole
  | .list [.atom "fn", a, r] => do pure (.fn (← parseKindSexp a) (← parseKindSexp r))
  | _ => none

def renderKindFmt (k : KindSyntax.Kind) : String :=
  "(k " ++ q (KindSyntax.paramText k) ++ " " ++
    (if KindSyntax.parseParam (KindSyntax.paramToks k) = some (k, []) then "same" else "changed")
    ++ ")"

def handle : List Sexp → String
  | .atom "render" :: d :: ws =>
    match parseDoc d with
    | some d => "(r" ++ String.join (ws.map (fun w => " " ++ renderAt d w)) ++ ")"
    | none => "bad-doc"
  | [.atom "fwd", .str s] => renderRun (forward s.toList)
  | [.atom "rev", .str s] => renderRun (backward s.toList)
  | [.atom "mix", .str s, .str pat] =>
    renderMixed (mixed (pat.toList.map (· == 'f')) s.toList)
  | [.atom "kindfmt", k] =>
    match parseKindSexp k with
    | some k => renderKindFmt k
    | none => "bad-kind"
  | _ => "bad-request"

def main : IO Unit := driverLoop handle
