import GluonModel.Sexp
import GluonModel.Comments
open GluonModel GluonModel.Comments

def q (l : List Char) : String := Sexp.quote (String.ofList l)

def renderRun : Run → String
  | .panic => "panic"
  | .fuel => "fuel"
  | .done its _ => "(items" ++ String.join (its.map (fun i => " " ++ q i)) ++ ")"

def renderMixed (r : List (Option (List Char)) × Bool) : String :=
  "(calls" ++ String.join (r.1.map (fun o => match o with | none => " none" | some i => " " ++ q i))
    ++ (if r.2 then " panic" else "") ++ ")"

def handle : List Sexp → String
  | [.atom "fwd", .str s] => renderRun (forward s.toList)
  | [.atom "rev", .str s] => renderRun (backward s.toList)
  | [.atom "mix", .str s, .str pat] =>
    renderMixed (mixed (pat.toList.map (· == 'f')) s.toList)
  | _ => "bad-request"

def main : IO Unit := driverLoop handle
