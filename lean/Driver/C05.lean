import GluonModel.Sexp
import GluonModel.GcHeap
import GluonModel.GcHandles
open GluonModel GluonModel.GcHeap

def parsePath : Sexp → Option (List Nat)
  | .list xs => xs.mapM Sexp.toNat?
  | _ => none

def parseKind : Sexp → Option Kind
  | .atom "p" => some .plain
  | .atom "t" => some .thread
  | .atom "c" => some .cell
  | .atom "s" => some .shallow
  | .atom "u" => some .udata
  | .atom "f" => some .code
  | .atom "a" => some .aarr
  | .atom "U" => some .uarr
  | _ => none

def parseObj : Sexp → Option Obj
  | .list [ow, hm, k, es] => do
    let ow ← parsePath ow
    let hm ← parsePath hm
    let k ← parseKind k
    let es ← parsePath es
    pure ⟨ow, hm, k, es⟩
  | _ => none

def parseObjs : Sexp → Option (List Obj)
  | .list (.atom "objs" :: os) => os.mapM parseObj
  | _ => none

def natList (xs : List Nat) : String := String.join (xs.map fun x => " " ++ toString x)

def parseMarked : Sexp → Option (List Nat)
  | .list (.atom "marked" :: ms) => ms.mapM Sexp.toNat?
  | _ => none

/-! host-handle histories: `(handles (threads ((0) 0) …) (ops (mk (0) 2) (clone 0) (drop 1)
(field 0 1) (reroot 0 (0 0)) (collect (0)) (read 2) …))` → one observation per op: the host-root
multiset of every thread after a handle operation, the live objects of the swept heaps after a
collection, the object a handle denotes (and whether it is live) for a read. -/

def parseThread : Sexp → Option (List Nat × Nat)
  | .list [p, i] => do
    let p ← parsePath p
    let i ← i.toNat?
    pure (p, i)
  | _ => none

def rootsObs (s : State) (paths : List (List Nat)) : String :=
  "(roots" ++ String.join (paths.map fun t => " (" ++ (natList (hostRoots s t)).trimAsciiStart.toString ++ ")") ++ ")"

def handleOp (paths : List (List Nat)) (hs : HState) : Sexp → Option (HState × String)
  | .list [.atom "mk", t, sh] => do
    let t ← parsePath t
    let sh ← sh.toNat?
    let hs' := hstep hs (.mk t sh)
    pure (hs', rootsObs hs'.s paths)
  | .list [.atom "clone", h] => do
    let h ← h.toNat?
    let hs' := hstep hs (.clone h)
    pure (hs', rootsObs hs'.s paths)
  | .list [.atom "drop", h] => do
    let h ← h.toNat?
    let hs' := hstep hs (.drop h)
    pure (hs', rootsObs hs'.s paths)
  | .list [.atom "field", h, k] => do
    let h ← h.toNat?
    let k ← k.toNat?
    let hs' := hstep hs (.field h k)
    pure (hs', rootsObs hs'.s paths)
  | .list [.atom "reroot", h, t] => do
    let h ← h.toNat?
    let t ← parsePath t
    let hs' := hstep hs (.reroot h t)
    pure (hs', rootsObs hs'.s paths)
  | .list [.atom "collect", t] => do
    let t ← parsePath t
    let hs' := hstep hs (.collect t)
    pure (hs', "(alive" ++ natList (aliveIn hs'.s t) ++ ")")
  | .list [.atom "read", h] => do
    let h ← h.toNat?
    match hs.handle h with
    | some (_, r) =>
      pure (hs, if (hs.s.obj r).isSome then "(r " ++ toString r ++ " same)" else "(r " ++ toString r ++ " dangling)")
    | none => pure (hs, "(r none)")
  | _ => none

def handleOps (paths : List (List Nat)) : HState → List Sexp → Option String
  | _, [] => some ""
  | hs, op :: ops =>
    match handleOp paths hs op with
    | none => none
    | some (hs', o) =>
      match handleOps paths hs' ops with
      | none => none
      | some r => some (" " ++ o ++ r)

def handle : List Sexp → String
  | [.atom "collect", t, objs, marked] =>
    match parsePath t, parseObjs objs, parseMarked marked with
    | some t, some os, some ms =>
      let s := State.ofArray os.toArray
      match freedByM s t ms with
      | some f => "(freed" ++ natList f ++ ")"
      | none => "out-of-fuel"
    | _, _, _ => "bad-request"
  | [.atom "collect", t, objs] =>
    match parsePath t, parseObjs objs with
    | some t, some os =>
      let s := State.ofArray os.toArray
      match freedBy s t with
      | some f => "(freed" ++ natList f ++ ")"
      | none => "out-of-fuel"
    | _, _ => "bad-request"
  | [.atom "handles", .list (.atom "threads" :: ths), .list (.atom "ops" :: ops)] =>
    match ths.mapM parseThread with
    | some ths =>
      let paths := [0] :: ths.map fun (p, i) => p ++ [i]
      match handleOps paths (hinit ths) ops with
      | some r => "(h" ++ r ++ ")"
      | none => "bad-request"
    | none => "bad-request"
  | _ => "bad-request"

def main : IO Unit := driverLoop handle
