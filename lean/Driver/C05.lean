import GluonModel.Sexp
import GluonModel.GcHeap
open GluonModel GluonModel.GcHeap

def parsePath : Sexp → Option (List Nat)
  | .list xs => xs.mapM Sexp.toNat?
  | _ => none

def parseKind : Sexp → Option Kind
  | .atom "p" => some .plain
  | .atom "t" => some .thread
  | .atom "c" => some .cell
  | .atom "s" => some .shallow
  | .atom "u" => some .udata
  | .atom "f" => some .code
  | .atom "a" => some .aarr
  | .atom "U" => some .uarr
  | _ => none

def parseObj : Sexp → Option Obj
  | .list [ow, hm, k, es] => do
    let ow ← parsePath ow
    let hm ← parsePath hm
    let k ← parseKind k
    let es ← parsePath es
    pure ⟨ow, hm, k, es⟩
  | _ => none

def parseObjs : Sexp → Option (List Obj)
  | .list (.atom "objs" :: os) => os.mapM parseObj
  | _ => none

def natList (xs : List Nat) : String := String.join (xs.map fun x => " " ++ toString x)

def parseMarked : Sexp → Option (List Nat)
  | .list (.atom "marked" :: ms) => ms.mapM Sexp.toNat?
  | _ => none

def handle : List Sexp → String
  | [.atom "collect", t, objs, marked] =>
    match parsePath t, parseObjs objs, parseMarked marked with
    | some t, some os, some ms =>
      let s := State.ofArray os.toArray
      match freedByM s t ms with
      | some f => "(freed" ++ natList f ++ ")"
      | none => "out-of-fuel"
    | _, _, _ => "bad-request"
  | [.atom "collect", t, objs] =>
    match parsePath t, parseObjs objs with
    | some t, some os =>
      let s := State.ofArray os.toArray
      match freedBy s t with
      | some f => "(freed" ++ natList f ++ ")"
      | none => "out-of-fuel"
    | _, _ => "bad-request"
  | _ => "bad-request"

def main : IO Unit := driverLoop handle
