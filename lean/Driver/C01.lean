import GluonModel.Sexp
import GluonModel.Surf
import GluonModel.SurfParse
open GluonModel GluonModel.Surf

def handle : List Sexp → String
  | [.atom "evalsurf", e] =>
    match parseExpr e with
    | some e => renderRes (eval 100000 [] e)
    | none => "bad-request"
  | _ => "bad-request"

def main : IO Unit := driverLoop handle
