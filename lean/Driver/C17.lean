import GluonModel.Sexp
import GluonModel.Chan
open GluonModel GluonModel.Chan

/-
Requests:
  (prog (lazies T…) (cells v…) (b1 OP…) (b2 OP…) (main OP…))   a whole program; answer
        (<status> (tid kind a b)…)      status ∈ ok | hang | (err 1|2) | panic | nofuel
  (trace (lazies T…) (cells v…) (tid OP)…)                      a raw primitive trace; answer the results
  T  ::= (val v) | boom | (add k n)
  OP ::= (send c v) | (recv c) | (load r) | (store r v) | (force k) | (forceu k) | (resume t) | yield
-/

def parseT : Sexp → Option TExpr
  | .atom "boom" => some .boom
  | .list [.atom "val", v] => v.toInt?.map .val
  | .list [.atom "add", k, n] => do
    let k ← k.toNat?
    let n ← n.toInt?
    pure (.add k n)
  | _ => none

def parseOp : Sexp → Option Op
  | .atom "yield" => some .yield
  | .list [.atom "send", c, v] => do pure (.prim (.send (← c.toNat?) (← v.toInt?)))
  | .list [.atom "recv", c] => do pure (.prim (.recv (← c.toNat?)))
  | .list [.atom "load", c] => do pure (.prim (.load (← c.toNat?)))
  | .list [.atom "store", c, v] => do pure (.prim (.store (← c.toNat?) (← v.toInt?)))
  | .list [.atom "force", k] => do pure (.prim (.force (← k.toNat?)))
  | .list [.atom "forceu", k] => do pure (.forceU (← k.toNat?))
  | .list [.atom "resume", t] => do pure (.resume (← t.toNat?))
  | _ => none

def tagged (tag : String) : Sexp → Option (List Sexp)
  | .list (.atom t :: xs) => if t == tag then some xs else none
  | _ => none

def renderEv (e : Ev) : String :=
  "(" ++ toString e.tid ++ " " ++ toString e.kind ++ " " ++ toString e.a ++ " " ++ toString e.b ++ ")"

def renderRes : PRes → String
  | .sent => "sent"
  | .got v => "(got " ++ toString v ++ ")"
  | .empty => "empty"
  | .loaded v => "(loaded " ++ toString v ++ ")"
  | .stored => "stored"
  | .forced (.ok v) => "(ok " ++ toString v ++ ")"
  | .forced (.err e) => "(err " ++ toString e.code ++ ")"
  | .forced .pending => "pending"
  | .forced .nofuel => "nofuel"

def mkDecls (ts : List TExpr) : Decls := fun k => ts.getD k (.val 0)
def mkCells (vs : List Int) : Nat → Int := fun k => vs.getD k 0

def handle : List Sexp → String
  | [.atom "prog", lz, cells, b1, b2, mn] =>
    match tagged "lazies" lz, tagged "cells" cells, tagged "b1" b1, tagged "b2" b2, tagged "main" mn with
    | some lz, some cells, some b1, some b2, some mn =>
      match lz.mapM parseT, cells.mapM Sexp.toInt?, b1.mapM parseOp, b2.mapM parseOp, mn.mapM parseOp with
      | some lz, some cells, some b1, some b2, some mn =>
        let th : Nat → TSt := fun t => if t = 1 then .ready b1 else if t = 2 then .ready b2 else .done
        let s0 : St := { p := PState.init (mkCells cells), th := th, log := [] }
        let (s, o) := runOps (mkDecls lz) 4096 0 mn s0
        let status := match o with
          | .fin => "ok"
          | .blocked => "hang"
          | .failed e _ => "(err " ++ toString e.code ++ ")"
          | .panic => "panic"
          | .yielded _ => "yielded"
          | .nofuel => "nofuel"
        "(" ++ status ++ String.join (s.log.reverse.map (fun e => " " ++ renderEv e)) ++ ")"
      | _, _, _, _, _ => "bad-request"
    | _, _, _, _, _ => "bad-request"
  | .atom "trace" :: lz :: cells :: steps =>
    match tagged "lazies" lz, tagged "cells" cells with
    | some lz, some cells =>
      let step? : Sexp → Option (Nat × POp) := fun s =>
        match s with
        | .list [t, o] =>
          match t.toNat?, parseOp o with
          | some t, some (.prim p) => some (t, p)
          | _, _ => none
        | _ => none
      match lz.mapM parseT, cells.mapM Sexp.toInt?, steps.mapM step? with
      | some lz, some cells, some steps =>
        let (_, rs) := runTrace (mkDecls lz) steps (PState.init (mkCells cells))
        "(" ++ " ".intercalate (rs.map renderRes) ++ ")"
      | _, _, _ => "bad-request"
    | _, _ => "bad-request"
  | _ => "bad-request"

def main : IO Unit := driverLoop handle
