import GluonModel.Sexp
import GluonModel.Infix
import GluonModel.InfixTable
open GluonModel GluonModel.Infix

def parseOp : Sexp → Option Op
  | .list [.atom "op", .str n, .atom "none"] => some ⟨n, none⟩
  | .list [.atom "op", .str n, .atom "builtin"] => some ⟨n, builtinMeta n⟩
  | .list [.atom "op", .str n, p, .atom f] =>
    match p.toInt?, f with
    | some p, "L" => some ⟨n, some ⟨p, .left⟩⟩
    | some p, "R" => some ⟨n, some ⟨p, .right⟩⟩
    | _, _ => none
  | _ => none

def parseRest : List Sexp → Option (List (Op × Nat))
  | [] => some []
  | o :: a :: rest => do
    let o ← parseOp o
    let a ← a.toNat?
    let r ← parseRest rest
    pure ((o, a) :: r)
  | _ => none

def renderTree : Tree → String
  | .leaf a => toString a
  | .node l o r => "(" ++ renderTree l ++ " " ++ Sexp.quote o.name ++ " " ++ renderTree r ++ ")"

def handle : List Sexp → String
  | .atom "infix" :: first :: rest =>
    match first.toNat?, parseRest rest with
    | some f, some r =>
      match reparse f r with
      | .ok t => "(ok " ++ renderTree t ++ ")"
      | .error (.conflict s n) => "(conflict " ++ Sexp.quote s.name ++ " " ++ Sexp.quote n.name ++ ")"
      | .error (.undefined o) => "(undefined " ++ Sexp.quote o.name ++ ")"
      | .error .internal => "internal"
    | _, _ => "bad-request"
  | _ => "bad-request"

def main : IO Unit := driverLoop handle
