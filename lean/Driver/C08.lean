import GluonModel.Sexp
import GluonModel.Infix
import GluonModel.InfixTable
import GluonModel.ExprGrammar
import GluonModel.LayoutAlgo
open GluonModel GluonModel.Infix

/-! ### print → layout → parse of the expression core (`pp <style> <tree>`) -/
namespace PP
open GluonModel.ExprGrammar

def d : Span := dummy

def args? (xs : List Sexp) : Option (List Arg) :=
  xs.mapM fun x => x.atom?.map fun a => (a, d)

/-- request tree → concrete tree with dummy spans -/
partial def tree : Sexp → Option C
  | .list [.atom "id", .atom x] => some (.ident x d)
  | .list [.atom "int", n] => n.toNat?.map fun n => .int n d
  | .list [.atom "str", .str s] => some (.str s d)
  | .list [.atom "unit"] => some (.unit d d)
  | .list [.atom "paren", e] => (tree e).map fun b => .paren d b d
  | .list (.atom "tuple" :: e :: es) => do
    let xs ← (e :: es).mapM tree
    match xs.reverse with
    | last :: init => some (.paren d (init.foldl (fun acc x => C.comma x d acc) last) d)
    | [] => none
  | .list (.atom "app" :: f :: as) => do
    let f ← tree f
    let as ← as.mapM tree
    some (as.foldl C.app f)
  | .list [.atom "infix", l, .str o, r] => do
    let l ← tree l
    let r ← tree r
    some (.binop l o d r)
  | .list [.atom "lam", .list xs, b] => do
    let xs ← args? xs
    let b ← tree b
    some (.lam d xs d b)
  | .list [.atom "if", c, a, b] => do
    let c ← tree c
    let a ← tree a
    let b ← tree b
    some (.ite d c d a d b)
  | .list [.atom "let", .atom x, .list xs, rhs, body] => do
    let xs ← args? xs
    let rhs ← tree rhs
    let body ← tree body
    some (.letIn d (x, d) xs d rhs d body)
  | _ => none

def tokText : T → String
  | .ident n => n | .int n => toString n | .str s => "\"" ++ s ++ "\"" | .op n => n
  | .kLet => "let" | .kIn => "in" | .kIf => "if" | .kThen => "then" | .kElse => "else"
  | .lam => "\\" | .arrow => "->" | .eq => "=" | .lp => "(" | .rp => ")" | .comma => ","
  | .ob => "" | .cb => ""

/-- the trivia between token `i-1` and token `i` (`i ≥ 1`) in style `k`: token-free text -/
def gap (k i : Nat) : String :=
  if k = 0 then " "
  else match (k + 3 * i) % 5 with
    | 0 => "  "
    | 1 => " /* c */ "
    | 2 => "   "
    | _ => " "

/-- Width of the span the tokenizer gives a token of byte width `w`.  The code as it is
    (parser/src/token.rs:502-523 `operator`): for a type-prefixed operator (`#Int+`) the span end
    is taken after the first `take_while(is_operator_byte)`, i.e. after the `#` alone, although
    the token is the whole `#Int+` — finding `span:operator:type-prefixed`. -/
def spanWidth (t : T) (w : Nat) : Nat :=
  match t with
  | .op n =>
    match n.toList with
    | '#' :: c :: _ => if c.isAlpha || c == '_' then 1 else w
    | _ => w
  | _ => w

/-- lay the real tokens out on one line from byte position 1 (positions are 1-based, as
    `BytePos` in the real parser) -/
def place (k : Nat) : List T → Nat → Nat → String → List Tok → String × List Tok
  | [], _, _, text, acc => (text, acc.reverse)
  | t :: r, i, pos, text, acc =>
    let g := if i = 0 then "" else gap k i
    let s := pos + g.utf8ByteSize
    let w := (tokText t).utf8ByteSize
    place k r (i + 1) (s + w) (text ++ g ++ tokText t) (⟨t, ⟨s, s + spanWidth t w⟩⟩ :: acc)

/-- C09's layout model on the placed tokens; the result in this model's token type -/
def runLayout (ts : List ExprGrammar.Tok) (endPos : Nat) : Option (List ExprGrammar.Tok) :=
  let inp : List LayoutAlgo.Tok := toLayout ts
  let eof : LayoutAlgo.Tok := ⟨.eof, ⟨1, endPos, endPos⟩, endPos⟩
  match LayoutAlgo.layout inp eof (4 * ts.length + 16) with
  | (out, .ok) =>
    out.mapM fun o =>
      match o.kind with
      | .openBlock => some ⟨.ob, dummy⟩
      | .closeBlock => some ⟨.cb, dummy⟩
      | .semi => none
      | _ => ts.find? fun t => t.sp.s = o.loc.abs ∧ t.sp.e = o.stop
  | _ => none

def sp (s : Span) : String := s!"{s.s} {s.e}"

def arg (a : Arg) : String := s!"({a.1} {sp a.2})"

def appParts : C → C × List C
  | .app f a => ((appParts f).1, (appParts f).2 ++ [a])
  | c => (c, [])

def commaParts : C → List C
  | .comma a _ b => a :: commaParts b
  | c => [c]

partial def render (c : C) : String :=
  match c with
  | .ident n s => s!"(id {n} {sp s})"
  | .int n s => s!"(int {n} {sp s})"
  | .str x s => s!"(str {Sexp.quote x} {sp s})"
  | .unit .. => s!"(tuple {sp (span c)})"
  | .paren _ b _ => s!"(tuple {sp (span c)}" ++ String.join ((commaParts b).map fun x => " " ++ render x) ++ ")"
  | .comma .. => "(stray-comma)"
  | .app .. =>
    let (f, as) := appParts c
    s!"(app {sp (span c)} {render f}" ++ String.join (as.map fun x => " " ++ render x) ++ ")"
  | .binop l o os r => s!"(infix {sp (span c)} {render l} {Sexp.quote o} {sp os} {render r})"
  | .lam _ xs _ b => s!"(lam {sp (span c)} (" ++ " ".intercalate (xs.map arg) ++ s!") {render b})"
  | .ite _ x _ a _ b => s!"(if {sp (span c)} {render x} {render a} {render b})"
  | .letIn _ x xs _ rhs _ body =>
    s!"(let {sp (span c)} {arg x} (" ++ " ".intercalate (xs.map arg) ++ s!") {render rhs} {render body})"

def handle (k : Nat) (t : Sexp) : String :=
  match tree t with
  | none => "bad-request"
  | some c0 =>
    let kinds := (realToks c0).map (·.t)
    let (text, placed) := place k kinds 0 1 "" []
    let head := s!"(text {Sexp.quote text}) "
    match runLayout placed (text.utf8ByteSize + 1) with
    | none => head ++ "layout-fail"
    | some lts =>
      let blocks := if lts.map (·.t) = (toksTop c0).map (·.t) then "blocks-as-predicted" else "blocks-differ"
      match parseTop (20 * lts.length + 6) lts with
      | none => head ++ blocks ++ " parse-fail"
      | some c =>
        let legal := if Legal c0 then "legal" else "illegal"
        let same := if erase c = erase c0 then "same-tree" else "other-tree"
        head ++ s!"{blocks} {legal} {same} {render c}"

end PP

def parseOp : Sexp → Option Op
  | .list [.atom "op", .str n, .atom "none"] => some ⟨n, none⟩
  | .list [.atom "op", .str n, .atom "builtin"] => some ⟨n, builtinMeta n⟩
  | .list [.atom "op", .str n, p, .atom f] =>
    match p.toInt?, f with
    | some p, "L" => some ⟨n, some ⟨p, .left⟩⟩
    | some p, "R" => some ⟨n, some ⟨p, .right⟩⟩
    | _, _ => none
  | _ => none

def parseRest : List Sexp → Option (List (Op × Nat))
  | [] => some []
  | o :: a :: rest => do
    let o ← parseOp o
    let a ← a.toNat?
    let r ← parseRest rest
    pure ((o, a) :: r)
  | _ => none

def renderTree : Tree → String
  | .leaf a => toString a
  | .node l o r => "(" ++ renderTree l ++ " " ++ Sexp.quote o.name ++ " " ++ renderTree r ++ ")"

def handle : List Sexp → String
  | .atom "infix" :: first :: rest =>
    match first.toNat?, parseRest rest with
    | some f, some r =>
      match reparse f r with
      | .ok t => "(ok " ++ renderTree t ++ ")"
      | .error (.conflict s n) => "(conflict " ++ Sexp.quote s.name ++ " " ++ Sexp.quote n.name ++ ")"
      | .error (.undefined o) => "(undefined " ++ Sexp.quote o.name ++ ")"
      | .error .internal => "internal"
    | _, _ => "bad-request"
  | [.atom "pp", k, t] =>
    match k.toNat? with
    | some k => PP.handle k t
    | none => "bad-request"
  | _ => "bad-request"

def main : IO Unit := driverLoop handle
