import GluonModel.Sexp
import GluonModel.GcHeap
open GluonModel GluonModel.GcHeap

def parsePath : Sexp → Option (List Nat)
  | .list xs => xs.mapM Sexp.toNat?
  | _ => none

def parseKind : Sexp → Option Kind
  | .atom "p" => some .plain
  | .atom "t" => some .thread
  | .atom "c" => some .cell
  | .atom "s" => some .shallow
  | .atom "u" => some .udata
  | .atom "f" => some .code
  | .atom "a" => some .aarr
  | .atom "U" => some .uarr
  | _ => none

def parseObj : Sexp → Option Obj
  | .list [ow, hm, k, es] => do
    let ow ← parsePath ow
    let hm ← parsePath hm
    let k ← parseKind k
    let es ← parsePath es
    pure ⟨ow, hm, k, es⟩
  | _ => none

def parseObjs : Sexp → Option (List Obj)
  | .list (.atom "objs" :: os) => os.mapM parseObj
  | _ => none

def natList (xs : List Nat) : String := " ".intercalate (xs.map toString)

def indexOf (xs : List Nat) (x : Nat) : Option Nat :=
  let rec go : List Nat → Nat → Option Nat
    | [], _ => none
    | y :: ys, i => if y = x then some i else go ys (i + 1)
  go xs 0

/-- `((owner) (edges))…` of the graph below `r` in discovery numbering. -/
def renderBelow (s : State) (r : Nat) : String :=
  let b := below s r
  String.join (b.map fun x =>
    match s.obj x with
    | none => " ?"
    | some o =>
      let es := if o.kind = .thread then [] else o.edges.filterMap (indexOf b)
      " ((" ++ natList o.owner ++ ") (" ++ natList es ++ "))")

def handle : List Sexp → String
  | [.atom "clone", sameVm, src, dst, objs] =>
    match sameVm.toNat?, parsePath src, parsePath dst, parseObjs objs with
    | some sv, some src, some dst, some os =>
      let s := State.ofArray os.toArray
      -- the value is object 0; the cloner's thread is the destination thread
      match deepClone s dst dst (rgenFor (sv == 1) src dst) false 0 with
      | some (s', r) => "(ok" ++ renderBelow s' r ++ ")"
      | none => "refused"
    | _, _, _, _ => "bad-request"
  | _ => "bad-request"

def main : IO Unit := driverLoop handle
