import GluonModel.Sexp
import GluonModel.Core
import GluonModel.CoreParse
import GluonModel.Bytecode
import GluonModel.BytecodeParse
import GluonModel.Compile
open GluonModel GluonModel.Core GluonModel.Bytecode

def globalsFor (gs : List Sym) (env : Env) : Option (List Val) :=
  gs.mapM (lookup env)

def handle : List Sexp → String
  | [.atom "evalcore", g, e] =>
    match parseGlobals g, parseExpr e with
    | some g, some e => renderRes (evalCore 100000 g e)
    | _, _ => "bad-request"
  | [.atom "runbc", g, m] =>
    match parseGlobals g, parseModule m with
    | some g, some (gs, f) =>
      match globalsFor gs g with
      | some vals => renderRun (runModule 10000000 f vals)
      | none => "bad-globals"
    | _, _ => "bad-request"
  | [.atom "compile", se, e] =>
    match se.toNat?, parseExpr e with
    | some se, some e =>
      match Compile.compileModule se e with
      | (gs, f, none) => renderModule gs f
      | (_, _, some why) => "unsupported:" ++ why
    | _, _ => "bad-request"
  | _ => "unimplemented"

def main : IO Unit := driverLoop handle
