import GluonModel.Sexp
import GluonModel.Core
import GluonModel.CoreParse
import GluonModel.Bytecode
import GluonModel.BytecodeParse
import GluonModel.Compile
import GluonModel.Proofs.Compile
open GluonModel GluonModel.Core GluonModel.Bytecode

/-- every function body of a program: the closures' bodies, at any depth -/
partial def bodies : Expr → List Expr
  | .const _ => [] | .ident _ => []
  | .call f args => bodies f ++ (args.map bodies).flatten
  | .data _ args => (args.map bodies).flatten
  | .letE _ e b => bodies e ++ bodies b
  | .letRec cs b => (cs.map fun c => c.2.2 :: bodies c.2.2).flatten ++ bodies b
  | .match_ s alts => bodies s ++ (alts.map fun a => bodies a.2).flatten
  | .cast e => bodies e

def globalsFor (gs : List Sym) (env : Env) : Option (List Val) :=
  gs.mapM (lookup env)

def handle : List Sexp → String
  | [.atom "evalcore", g, e] =>
    match parseGlobals g, parseExpr e with
    | some g, some e => renderRes (evalCore 100000 g e)
    | _, _ => "bad-request"
  | [.atom "runbc", g, m] =>
    match parseGlobals g, parseModule m with
    | some g, some (gs, f) =>
      match globalsFor gs g with
      | some vals => renderRun (runModule 10000000 f vals)
      | none => "bad-globals"
    | _, _ => "bad-request"
  | [.atom "compile", se, e] =>
    match se.toNat?, parseExpr e with
    | some se, some e =>
      match Compile.compileModule se e with
      | (gs, f, none) => renderModule gs f
      | (_, _, some why) => "unsupported:" ++ why
    | _, _ => "bad-request"
  | [.atom "fragcount", e] =>
    match parseExpr e with
    | some e =>
      let bs := e :: bodies e
      s!"({bs.length} {(bs.filter Proofs.Compile.inF).length})"
    | none => "bad-request"
  | _ => "unimplemented"

def main : IO Unit := driverLoop handle
