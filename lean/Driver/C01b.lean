import GluonModel.Sexp
import GluonModel.Core
import GluonModel.CoreParse
import GluonModel.Bytecode
import GluonModel.BytecodeParse
import GluonModel.Compile
import GluonModel.Proofs.Compile
import GluonModel.Proofs.CompileLambda
open GluonModel GluonModel.Core GluonModel.Bytecode

/-- every function body of a program (the closures' bodies, at any depth), with the function
    variables in scope: the names the enclosing `Named::Recursive` groups bind to closures with
    at least one parameter, and their arity -/
def patBinders' : Pat → List Sym
  | .ctor _ args => args
  | .ident x => [x]
  | .lit _ => []
  | .record _ _ fields byType => fields.map (·.binder) ++ byType.filterMap id

/-- also the variables in scope at the body (`dom`: the parameters, the group's names, and
    everything bound around the closure) -/
partial def bodies (Φ : List (Sym × Nat)) (dom : List Sym) :
    Expr → List (List (Sym × Nat) × List Sym × Expr)
  | .const _ => [] | .ident _ => []
  | .call f args => bodies Φ dom f ++ (args.map (bodies Φ dom)).flatten
  | .data _ args => (args.map (bodies Φ dom)).flatten
  | .letE x e b => bodies Φ dom e ++ bodies Φ (x :: dom) b
  | .letRec cs b =>
    let Φ' := (cs.filterMap fun c => if c.2.1.length > 0 then some (c.1, c.2.1.length) else none).reverse ++ Φ
    let dom' := cs.map (·.1) ++ dom
    (cs.map fun c => (Φ', c.2.1 ++ dom', c.2.2) :: bodies Φ' (c.2.1 ++ dom') c.2.2).flatten ++
      bodies Φ' dom' b
  | .match_ s alts =>
    bodies Φ dom s ++ (alts.map fun a => bodies Φ (patBinders' a.1 ++ dom) a.2).flatten
  | .cast e => bodies Φ dom e

def globalsFor (gs : List Sym) (env : Env) : Option (List Val) :=
  gs.mapM (lookup env)

def handle : List Sexp → String
  | [.atom "evalcore", g, e] =>
    match parseGlobals g, parseExpr e with
    | some g, some e => renderRes (evalCore 100000 g e)
    | _, _ => "bad-request"
  | [.atom "runbc", g, m] =>
    match parseGlobals g, parseModule m with
    | some g, some (gs, f) =>
      match globalsFor gs g with
      | some vals => renderRun (runModule 10000000 f vals)
      | none => "bad-globals"
    | _, _ => "bad-request"
  | [.atom "compile", se, e] =>
    match se.toNat?, parseExpr e with
    | some se, some e =>
      match Compile.compileModule se e with
      | (gs, f, none) => renderModule gs f
      | (_, _, some why) => "unsupported:" ++ why
    | _, _ => "bad-request"
  | [.atom "fragcount", e] =>
    match parseExpr e with
    | some e =>
      -- the module's free variables are the globals (bound by the VM before it runs)
      let globals := (Compile.compileModule 0 e).1
      let bs := ([], globals, e) :: bodies [] globals e
      let f1 := (bs.filter fun p => Proofs.Compile.inF [] p.2.2).length
      let f2 := (bs.filter fun p => Proofs.Compile.inF p.1 p.2.2).length
      let f3 := (bs.filter fun p => Proofs.Compile.inF3 0 p.2.2 p.1 p.2.1).length
      s!"({bs.length} {f1} {f2} {f3})"
    | none => "bad-request"
  | _ => "unimplemented"

def main : IO Unit := driverLoop handle
