import GluonModel.Sexp
import GluonModel.Core
import GluonModel.CoreParse
open GluonModel GluonModel.Core

def handle : List Sexp → String
  | [.atom "evalcore", g, e] =>
    match parseGlobals g, parseExpr e with
    | some g, some e => renderRes (evalCore 100000 g e)
    | _, _ => "bad-request"
  | _ => "unimplemented"

def main : IO Unit := driverLoop handle
