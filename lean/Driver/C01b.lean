import GluonModel.Sexp
open GluonModel

def handle : List Sexp → String
  | _ => "unimplemented"

def main : IO Unit := driverLoop handle
