import GluonModel.Sexp
import GluonModel.HM
open GluonModel GluonModel.HM

partial def parseExpr : Sexp → Option Expr
  | .list [.atom "v", .str x] => some (.var x)
  | .list [.atom "int", n] => n.toInt?.map .int
  | .list [.atom "str", .str s] => some (.str s)
  | .list [.atom "con", .atom "A"] => some .conA
  | .list [.atom "con", .atom "B"] => some .conB
  | .list [.atom "lam", .str x, b] => (parseExpr b).map (.lam x)
  | .list [.atom "app", f, a] => do pure (.app (← parseExpr f) (← parseExpr a))
  | .list [.atom "lt", f, a] => do pure (.lt (← parseExpr f) (← parseExpr a))
  | .list [.atom "let", .str x, e, b] => do pure (.letE x (← parseExpr e) (← parseExpr b))
  | .list [.atom "if", c, t, e] => do pure (.ifE (← parseExpr c) (← parseExpr t) (← parseExpr e))
  | .list [.atom "proj", e, .str l] => (parseExpr e).map (.proj · l)
  | .list (.atom "rcd" :: fs) => do
    let rec go : List Sexp → Option Expr
      | [] => some .fnil
      | .list [.str l, e] :: rest => do pure (.fcons l (← parseExpr e) (← go rest))
      | _ => none
    pure (.rcd (← go fs))
  | .list (.atom "arr" :: es) => do
    let xs ← es.mapM parseExpr
    pure (xs.foldl (fun acc e => .asnoc acc e) .anil)
  | _ => none

def showTy : Ty → String
  | .var n => "(tv " ++ toString n ++ ")"
  | .con c => c
  | .app f a => "(ap " ++ showTy f ++ " " ++ showTy a ++ ")"
  | .ext l t r => "(ext " ++ l ++ " " ++ showTy t ++ " " ++ showTy r ++ ")"
  | .empty => "nil"

def handle : List Sexp → String
  | [.atom "infer", e] =>
    match parseExpr e with
    | none => "bad-request"
    | some e =>
      match infer true [] e Subst.id 0 with
      | .ok (τ, S, _) => "(ok " ++ showTy (canon (τ.subst S)) ++ ")"
      | .error .fuel => "fuel"
      | .error _ => "err"
  | _ => "bad-request"

def main : IO Unit := driverLoop handle
