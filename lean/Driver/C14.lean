import GluonModel.Sexp
import GluonModel.ParOnce
import GluonModel.ParLocks
import GluonModel.ParIntern
open GluonModel GluonModel.ParOnce GluonModel.ParLocks

/-! Driver for C14: runs the `Once` cells on the event schedule of a `par` case and the exhaustive
    interleaving search of the `Locks` model on a `locks` case. -/

def natList (xs : List Sexp) : Option (List Nat) := xs.mapM Sexp.toNat?

def parseMod : Sexp → Option (Int × List Nat)
  | .list (c :: deps) => do
    let c ← c.toInt?
    let d ← natList deps
    pure (c, d)
  | _ => none

def parseRole : Sexp → Option Role
  | .list [.atom "plain"] => some .plain
  | .list [.atom "prod", c, k] => do pure (.prod (← c.toNat?) (← k.toInt?))
  | .list [.atom "cons", c, k] => do pure (.cons (← c.toNat?) (← k.toInt?))
  | _ => none

def parseProg : Sexp → Option Prog
  | .list [.list (.atom "imports" :: is), a, r, role] => do
    pure ⟨← natList is, ← a.toInt?, ← r.toInt?, ← parseRole role⟩
  | _ => none

def parseEv : Sexp → Option MEv
  | .list [.atom "r", m, t] => do pure (.request (← m.toNat?) (← t.toNat?))
  | .list [.atom "f", m] => do pure (.finish (← m.toNat?))
  | .list [.atom "w", m, t] => do pure (.wake (← m.toNat?) (← t.toNat?))
  | _ => none

def renderResult : Option Int → String
  | some v => "(ok " ++ toString v ++ ")"
  | none => "(stuck)"

def zipIdx {α : Type} (xs : List α) : List (Nat × α) := (List.range xs.length).zip xs

/-- `failed`: the threads whose run failed (empty for a clean run, the usual case): their results
    are not compared, and the count of a module only they requested is undetermined.
    `lost`: the process of the run hung or died, so that no body count was observed at all. -/
def handlePar (mods : List Sexp) (progs : List Sexp) (failed : List Nat) (lost : Bool)
    (sched : List Sexp) : String :=
  match mods.mapM parseMod, progs.mapM parseProg, sched.mapM parseEv with
  | some mods, some progs, some evs =>
    let cells := mrun mods evs
    let counts := (zipIdx cells).map (fun (m, s) =>
      if lost || undetermined mods progs failed m then "?" else toString s.evals)
    let results := (zipIdx progs).map (fun (t, p) =>
      if failed.contains t then "(failed)" else renderResult (progValue cells t p))
    "(counts " ++ " ".intercalate counts ++ ") (results " ++ " ".intercalate results ++ ")"
  | _, _, _ => "bad-request"

def parseScen : Sexp → Option Scen
  | .list [.atom "reroot", d, s] => do pure (.reroot (← d.toNat?) (← s.toNat?))
  | .list [.atom "collect", t] => do pure (.collect (← t.toNat?))
  | .list [.atom "push", c, o] => do pure (.push (← c.toNat?) (← o.toNat?))
  | .list [.atom "newthread", p] => do pure (.newthread (← p.toNat?))
  | _ => none

def handle : List Sexp → String
  | [.atom "par", .list (.atom "mods" :: mods), .list (.atom "progs" :: progs),
      .list (.atom "sched" :: sched)] => handlePar mods progs [] false sched
  | [.atom "par", .list (.atom "mods" :: mods), .list (.atom "progs" :: progs),
      .list (.atom "failed" :: failed), .list (.atom "sched" :: sched)] =>
    match natList failed with
    | some failed => handlePar mods progs failed false sched
    | none => "bad-request"
  | [.atom "par", .list (.atom "mods" :: mods), .list (.atom "progs" :: progs),
      .list [.atom "lost"], .list (.atom "sched" :: sched)] =>
    handlePar mods progs (List.range progs.length) true sched
  | .atom "locks" :: n :: ops =>
    match n.toNat?, ops.mapM parseScen with
    | some n, some ops =>
      if canDeadlock (scenSys n ops) then "(deadlock true)" else "(deadlock false)"
    | _, _ => "bad-request"
  | [.atom "fresh", n, r, f, k, b] =>
    match n.toNat?, r.toNat?, f.toNat?, k.toNat?, b.toNat? with
    | some n, some r, some f, some k, some b =>
      let o := GluonModel.ParIntern.runFresh n r f k b
      "(fresh (ok " ++ toString o.ok ++ ") (maxreps " ++ toString o.maxreps ++ ") (checksum " ++
        toString o.checksum ++ "))"
    | _, _, _, _, _ => "bad-request"
  | _ => "bad-request"

def main : IO Unit := driverLoop handle
