import GluonModel.Sexp
import GluonModel.TypePrint
open GluonModel GluonModel.TypePrint

/-! Requests
  (print <width> <type>)      → (toks "tok" …)          model `print .top`
  (reparse ann|top <type>)    → (ok <type>) | fail        model `parseAnn/parseTop (print .top t)`
Types travel in list form (records/variants/effects with field lists); the model uses row chains. -/

def strList : Sexp → Option (List String)
  | .list xs => xs.mapM Sexp.str?
  | _ => none

mutual
partial def tyOf : Sexp → Option Ty
  | .list [.atom "hole"] => some .hole
  | .list [.atom "arrow"] => some .arrow
  | .list [.atom "con", .str n] => some (.con n)
  | .list [.atom "var", .str n] => some (.var n)
  | .list (.atom "proj" :: ids) => do
    let ids ← ids.mapM Sexp.str?
    pure (.proj ids)
  | .list [.atom "fun", .atom k, a, r] => do
    let a ← tyOf a
    let r ← tyOf r
    pure (.fn (k == "I") a r)
  | .list [.atom "forall", vs, b] => do
    let vs ← strList vs
    let b ← tyOf b
    pure (.all vs b)
  | .list [.atom "app", f, a] => do
    let f ← tyOf f
    let a ← tyOf a
    pure (.app f a)
  | .list [.atom "record", .list tfs, .list fs, rest, cut] => do
    let cut ← cut.toNat?
    let tfs ← tfs.mapM tfOf
    let fs ← fs.mapM fieldOf
    let rest ← restOf rest
    pure (.record cut (mkRow tfs fs rest))
  | .list [.atom "variant", .list cs, rest] => do
    let cs ← cs.mapM ctorOf
    let rest ← restOf rest
    pure (.variant (mkRow [] cs rest))
  | .list [.atom "effect", .list fs, rest] => do
    let fs ← fs.mapM fieldOf
    let rest ← restOf rest
    pure (.effect (mkRow [] fs rest))
  | _ => none
partial def restOf : Sexp → Option Ty
  | .list [.atom "none"] => some .rnil
  | .list [.atom "some", t] => tyOf t
  | _ => none
partial def fieldOf : Sexp → Option (String × Ty)
  | .list [.atom "f", .str n, t] => do
    let t ← tyOf t
    pure (n, t)
  | _ => none
partial def tfOf : Sexp → Option (String × List String × Ty)
  | .list [.atom "tf", .str n, ps, t] => do
    let ps ← strList ps
    let t ← tyOf t
    pure (n, ps, t)
  | _ => none
partial def ctorOf : Sexp → Option (String × Ty)
  | .list [.atom "simple", .str n, .list args] => do
    let args ← args.mapM tyOf
    pure (n, mkCtor args)
  | .list [.atom "gadt", .str n, t] => do
    let t ← tyOf t
    pure (n, t)
  | _ => none
end

def q (s : String) : String := Sexp.quote s
def qs (xs : List String) : String := " ".intercalate (xs.map q)

mutual
partial def render : Ty → String
  | .hole => "(hole)"
  | .opaque => "(opaque)"
  | .arrow => "(arrow)"
  | .con n => "(con " ++ q n ++ ")"
  | .var n => "(var " ++ q n ++ ")"
  | .proj ids => "(proj " ++ qs ids ++ ")"
  | .fn i a r => "(fun " ++ (if i then "I" else "E") ++ " " ++ render a ++ " " ++ render r ++ ")"
  | .all vs b => "(forall (" ++ qs vs ++ ") " ++ render b ++ ")"
  | .app f a => "(app " ++ render f ++ " " ++ render a ++ ")"
  | .rnil => "(rnil)"
  | .rfield .. => "(row)"
  | .rtype .. => "(row)"
  | .record cut row =>
    "(record (" ++ " ".intercalate (rowTypes row) ++ ") (" ++ " ".intercalate (rowFields row) ++ ") "
      ++ rowRest row ++ " " ++ toString cut ++ ")"
  | .variant row => "(variant (" ++ " ".intercalate (rowCtors row) ++ ") " ++ rowRest row ++ ")"
  | .effect row => "(effect (" ++ " ".intercalate (rowFields row) ++ ") " ++ rowRest row ++ ")"
partial def rowTypes : Ty → List String
  | .rtype n ps t rest => ("(tf " ++ q n ++ " (" ++ qs ps ++ ") " ++ render t ++ ")") :: rowTypes rest
  | .rfield _ _ rest => rowTypes rest
  | _ => []
partial def rowFields : Ty → List String
  | .rfield n t rest => ("(f " ++ q n ++ " " ++ render t ++ ")") :: rowFields rest
  | .rtype _ _ _ rest => rowFields rest
  | _ => []
partial def rowCtors : Ty → List String
  | .rfield n t rest =>
    (if isSimple t then "(simple " ++ q n ++ " (" ++ " ".intercalate (ctorArgList t) ++ "))"
     else "(gadt " ++ q n ++ " " ++ render t ++ ")") :: rowCtors rest
  | .rtype _ _ _ rest => rowCtors rest
  | _ => []
partial def ctorArgList : Ty → List String
  | .fn _ a r => render a :: ctorArgList r
  | _ => []
partial def rowRest : Ty → String
  | .rfield _ _ rest => rowRest rest
  | .rtype _ _ _ rest => rowRest rest
  | .rnil => "(none)"
  | t => "(some " ++ render t ++ ")"
end

def handle : List Sexp → String
  | [.atom "print", _w, t] =>
    match tyOf t with
    | some t => "(toks " ++ " ".intercalate ((print .top t).map (fun k => q k.text)) ++ ")"
    | none => "bad-request"
  | [.atom "reparse", .atom ctx, t] =>
    match tyOf t with
    | some t =>
      let toks := print .top t
      match (if ctx == "top" then parseTop toks else parseAnn toks) with
      | some t' => "(ok " ++ render t' ++ ")"
      | none => "fail"
    | none => "bad-request"
  | _ => "bad-request"

def main : IO Unit := driverLoop handle
