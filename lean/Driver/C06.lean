import GluonModel.Sexp
import GluonModel.Prims
import GluonModel.Frames
import GluonModel.Generated.PrimTable
open GluonModel GluonModel.Prims GluonModel.RustStd

def strBytes (s : String) : Bytes := s.toUTF8.toList.map (·.toNat)

def bytesStr (b : Bytes) : String :=
  match String.fromUTF8? (ByteArray.mk (b.map (fun n => UInt8.ofNat n)).toArray) with
  | some s => s
  | none => "<invalid utf8>"

def ints (xs : List Sexp) : Option (List Int) := xs.mapM Sexp.toInt?

def parseArg : Sexp → Option Val
  | .list [.atom "i", n] => n.toInt?.map .int
  | .list [.atom "b", n] => n.toInt?.map .byte
  | .list [.atom "f", n] => n.toNat?.map .float
  | .list [.atom "s", .str s] => some (.str (strBytes s))
  | .list [.atom "c", n] => n.toInt?.map .char
  | .list [.atom "u"] => some .unit
  | .list (.atom "ai" :: xs) => (ints xs).map .arrI
  | .list (.atom "ab" :: xs) => (ints xs).map .arrB
  | .list [.atom "x", .atom t] =>
    if t.startsWith "sb:" then some (.sbuf (strBytes (t.drop 3).toString)) else some (.opaque t)
  | _ => none

partial def renderRes : Res → String
  | .i n => s!"(i {n})"
  | .b n => s!"(b {n})"
  | .s bs => "(s " ++ Sexp.quote (bytesStr bs) ++ ")"
  | .d t fs => "(d " ++ toString t ++ String.join (fs.map fun f => " " ++ renderRes f) ++ ")"
  | .a es => "(a" ++ String.join (es.map fun f => " " ++ renderRes f) ++ ")"
  | .opaque => "opaque"

def handlePrim (name : String) (mode : String) (args : List Sexp) : String :=
  match args.mapM parseArg with
  | none => "bad-args"
  | some vs =>
    match outcome name vs with
    | .ok r => if mode == "v" then "(ok " ++ renderRes r ++ ")" else "ok"
    | .err => "err"
    | .abort => "abort"
    | .illTyped => "ill-typed"
    | .unmodelled => "unmodelled"

open GluonModel.Frames in
def parseStep : Sexp → Option Step
  | .list [.atom "ok", d, v] => do pure (.ok (← d.toNat?) (← v.toNat?))
  | .list [.atom "fail", d, v] => do pure (.fail (← d.toNat?) (← v.toNat?))
  | .list [.atom "hostfail", d, v] => do pure (.hostFail (← d.toNat?) (← v.toNat?))
  | .list [.atom "okio"] => some .okIO
  | .list [.atom "afail", d, v] => do pure (.asyncFail (← d.toNat?) (← v.toNat?))
  | _ => none

/-- Table coverage (what `decide` would take minutes to evaluate in the kernel): entries of the modelled
    modules without a model, offending names that are not table entries, names in more than one table. -/
def coverage : String :=
  let tab := GluonModel.Generated.primTable
  let unm := (tab.filter fun e => modelledModules.contains e.module && e.kind != "bytecode" && !isModelled e.name).map (·.name)
  let ghost := offending.filter fun n => !(tab.any (·.name == n))
  let all := offendingSems.map (·.1) ++ guardedSems.map (·.1) ++ totalSems.map (·.1)
  let dup := all.filter fun n => (all.filter (· == n)).length > 1
  let stray := all.filter fun n => !(tab.any (·.name == n))
  let rawTab := (tab.filter fun e => e.kind == "raw").map (·.name)
  let rawDiff := (rawTab.filter fun n => !rawExternNames.contains n) ++ (rawExternNames.filter fun n => !rawTab.contains n)
  let asyncTab := (tab.filter fun e => e.kind == "async").map (·.name)
  let asyncDiff := (asyncTab.filter fun n => !GluonModel.Frames.asyncStepped.contains n)
    ++ (GluonModel.Frames.asyncStepped.filter fun n => !asyncTab.contains n)
  let shw (l : List String) := String.join (l.map fun n => " " ++ Sexp.quote n)
  "(coverage (unmodelled" ++ shw unm ++ ") (ghost" ++ shw ghost ++ ") (dup" ++ shw dup ++ ") (stray" ++ shw stray ++ ") (raw-route" ++ shw rawDiff ++ ") (async-steps" ++ shw asyncDiff ++ "))"

open GluonModel.Frames in
def handle : List Sexp → String
  | [.atom "coverage"] => coverage
  | .atom "prim" :: .str name :: .atom mode :: args => handlePrim name mode args
  | [.atom "hist", .atom which, .list steps] =>
    match steps.mapM parseStep with
    | none => "bad-steps"
    | some ss =>
      -- "real" = the code as it is (values popped on the error path); "old" = reset_stack alone (before the D5 fix)
      let reset := if which == "old" then resetStack else resetFixed
      let st := runHistory reset ss Stack.base
      s!"(frames {st.frames.length} values {st.values})"
  | _ => "bad-request"

def main : IO Unit := driverLoop handle
