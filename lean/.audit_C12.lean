import GluonModel.Props.C12
#print axioms GluonModel.Props.C12.de_ser
#print axioms GluonModel.Props.C12.de_ser_sharing
#print axioms GluonModel.Props.C12.de_ser_value
#print axioms GluonModel.Props.C12.de_prefix_fails
#print axioms GluonModel.Props.C12.parse_flat
#print axioms GluonModel.Props.C12.de_total
#print axioms GluonModel.Props.C12.load_missing_global_fails
#print axioms GluonModel.Props.C12.load_defined_partial
#print axioms GluonModel.Props.C12.load_fixed
