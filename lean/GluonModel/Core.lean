/-
`Core`: mirror of the core IR of vm/src/core/mod.rs (`Expr` :160, `Named` :89, `Closure` :57,
`Alternative` :152, `Pattern` :141, `Literal` :132) and its strict big-step semantics `evalCore`.

What the real compiler reads from the *types* attached to the IR (the tag of a constructor, the
field list of a record type, whether a record row is open, the index of a field) travels here as
plain data: the harness resolves it with the same library calls compiler.rs uses
(`remove_aliases_cow`, `row_iter`, `find_resolved_tag` :560, `find_field` :537).

Values are shared with the model VM (`GluonModel.Bytecode`): the type-erased run-time values of
vm/src/value.rs `ValueRepr`. `data t [] _` is `ValueRepr::Tag(t)`.
-/
namespace GluonModel.Core

/-- A symbol. Identity in the real compiler is pointer identity (base/src/symbol.rs:232); the
    harness numbers distinct pointers. Globals (`@…`) are identified by name (id 0). -/
structure Sym where
  name : String
  id : Nat
  deriving DecidableEq, Repr, Inhabited

/-- core/mod.rs:132 `Literal` (floats as bit patterns) -/
inductive Lit where
  | int (n : Int)
  | byte (n : Nat)
  | float (bits : Nat)
  | str (s : String)
  | char (c : Nat)
  deriving DecidableEq, Repr, Inhabited

/-- what compiler.rs:921 (`Expr::Data` arm) finds out from the type of a `Data` node -/
inductive DataKind where
  | record (fields : List Sym)
  | array
  /-- `none`: polymorphic variant or tag not found (outside the modelled fragment) -/
  | variant (tag : Option Nat)
  deriving DecidableEq, Repr, Inhabited

/-- one field of a record pattern: field name, its index in the scrutinee's record type
    (`find_field`), the variable it binds -/
structure PatField where
  field : String
  index : Option Nat
  binder : Sym
  deriving DecidableEq, Repr, Inhabited

/-- core/mod.rs:141 `Pattern` -/
inductive Pat where
  | ctor (tag : Option Nat) (args : List Sym)
  /-- `nfields`/`poly`: size of the scrutinee's record type and whether its row is open;
      `byType`: for every field of the type, in type order, the variable the pattern binds it
      to (what the `Split` path of compile_let_pattern registers) -/
  | record (nfields : Nat) (poly : Bool) (fields : List PatField) (byType : List (Option Sym))
  | ident (x : Sym)
  | lit (l : Lit)
  deriving Repr, Inhabited

/-- core/mod.rs:160 `Expr`; `letE` is `Let` of a `Named::Expr`, `letRec` of a
    `Named::Recursive` (closures: name, parameters, body). -/
inductive Expr where
  | const (l : Lit)
  | ident (x : Sym)
  | call (f : Expr) (args : List Expr)
  | data (k : DataKind) (args : List Expr)
  | letE (x : Sym) (e : Expr) (body : Expr)
  | letRec (cs : List (Sym × List Sym × Expr)) (body : Expr)
  | match_ (s : Expr) (alts : List (Pat × Expr))
  | cast (e : Expr)
  deriving Repr, Inhabited

abbrev Closures := List (Sym × List Sym × Expr)

inductive Val where
  | int (n : Int)
  | byte (n : Nat)
  | float (bits : Nat)
  | str (s : String)
  /-- `names` are the field names of a record (empty for variants and tuples-as-variants) -/
  | data (tag : Nat) (fields : List Val) (names : List String)
  | arr (xs : List Val)
  /-- evalCore: member `idx` of the recursive group `cs` closed over `env` -/
  | clos (cs : Closures) (idx : Nat) (env : List (Sym × Val))
  /-- model VM: reference to a closure / data object allocated by `NewClosure` / `NewRecord` /
      `NewVariant` (filled in later by `CloseClosure` / `CloseData`) -/
  | cref (id : Nat)
  | dref (id : Nat)
  | pap (f : Val) (args : List Val)
  /-- extern function (only `std.prim.error` and `std.prim.string_eq` are interpreted) -/
  | ext (name : String) (arity : Nat)
  deriving Inhabited

abbrev Env := List (Sym × Val)

inductive Err where
  | arith
  /-- `std.prim.error msg` (also what an unmatched pattern is in the core IR:
      core/mod.rs:1972 `error_expr("Unmatched pattern")`) -/
  | user (msg : String)
  | fuel
  | wrong (what : String)
  deriving DecidableEq, Repr, Inhabited

abbrev Res := Except Err Val

def minInt : Int := -9223372036854775808
def maxInt : Int := 9223372036854775807

def checked (n : Int) : Res :=
  if minInt ≤ n ∧ n ≤ maxInt then .ok (.int n) else .error .arith

def checkedByte (n : Int) : Res :=
  if 0 ≤ n ∧ n ≤ 255 then .ok (.byte n.toNat) else .error .arith

def tagVal (t : Nat) : Val := .data t [] []
def boolVal (b : Bool) : Val := tagVal (if b then 1 else 0)

/-- The primitive instructions of vm/src/types.rs:162-181 (names as in compiler.rs:1004). -/
inductive PrimOp where
  | addInt | subInt | mulInt | divInt | intLT | intEQ
  | addByte | subByte | mulByte | divByte | byteLT | byteEQ
  | addFloat | subFloat | mulFloat | divFloat | floatLT | floatEQ
  deriving DecidableEq, Repr, Inhabited

/-- thread.rs:2500-2519 with `binop_int`/`binop_byte`/`binop_bool` :2797-2875
    (`checked_*`; floats are not interpreted by the model). -/
def primApply (op : PrimOp) (l r : Val) : Res :=
  match op, l, r with
  | .addInt, .int a, .int b => checked (a + b)
  | .subInt, .int a, .int b => checked (a - b)
  | .mulInt, .int a, .int b => checked (a * b)
  | .divInt, .int a, .int b => if b = 0 then .error .arith else checked (Int.tdiv a b)
  | .intLT, .int a, .int b => .ok (boolVal (a < b))
  | .intEQ, .int a, .int b => .ok (boolVal (a = b))
  | .addByte, .byte a, .byte b => checkedByte (a + b)
  | .subByte, .byte a, .byte b => checkedByte ((a : Int) - b)
  | .mulByte, .byte a, .byte b => checkedByte (a * b)
  | .divByte, .byte a, .byte b => if b = 0 then .error .arith else checkedByte (a / b)
  | .byteLT, .byte a, .byte b => .ok (boolVal (a < b))
  | .byteEQ, .byte a, .byte b => .ok (boolVal (a = b))
  | _, _, _ => .error (.wrong "prim")

/-- compiler.rs:1004: the operator names that compile to a single instruction -/
def primOfName (s : String) : Option PrimOp :=
  if s = "#Int+" then some .addInt else if s = "#Int-" then some .subInt
  else if s = "#Int*" then some .mulInt else if s = "#Int/" then some .divInt
  else if s = "#Int<" ∨ s = "#Char<" then some .intLT
  else if s = "#Int==" ∨ s = "#Char==" then some .intEQ
  else if s = "#Byte+" then some .addByte else if s = "#Byte-" then some .subByte
  else if s = "#Byte*" then some .mulByte else if s = "#Byte/" then some .divByte
  else if s = "#Byte<" then some .byteLT else if s = "#Byte==" then some .byteEQ
  else if s = "#Float+" then some .addFloat else if s = "#Float-" then some .subFloat
  else if s = "#Float*" then some .mulFloat else if s = "#Float/" then some .divFloat
  else if s = "#Float<" then some .floatLT else if s = "#Float==" then some .floatEQ
  else none

/-- How compiler.rs:772 treats the head of a `Call` (core/mod.rs:2362 `is_primitive`). -/
inductive Head where
  | and_ | or_
  | prim (op : PrimOp)
  /-- a `#…` name that is not an instruction: loaded as an identifier and called (not modelled) -/
  | otherPrim
  | none
  deriving DecidableEq, Repr

def headOf (f : Expr) (nargs : Nat) : Head :=
  match f with
  | .ident x =>
    if x.name = "&&" then (if nargs = 2 then .and_ else .otherPrim)
    else if x.name = "||" then (if nargs = 2 then .or_ else .otherPrim)
    else if x.name.toList.head? = some '#' then
      (match primOfName x.name with
       | some op => if nargs = 2 then .prim op else .otherPrim
       | none => .otherPrim)
    else .none
  | _ => .none

def lookup (env : Env) (x : Sym) : Option Val :=
  match env with
  | [] => none
  | (y, v) :: rest => if x = y then some v else lookup rest x

def litVal : Lit → Val
  | .int n => .int n
  | .byte n => .byte n
  | .float b => .float b
  | .str s => .str s
  | .char c => .int c

/-- literal patterns compare with `IntEQ` / `ByteEQ` / `FloatEQ` / `string_eq`
    (compiler.rs:836-877) -/
def litMatches (l : Lit) (v : Val) : Option Bool :=
  match l, v with
  | .int n, .int m => some (n = m)
  | .char n, .int m => some ((n : Int) = m)
  | .byte n, .byte m => some (n = m)
  | .str s, .str t => some (s = t)
  | _, _ => none

def bindAll : List Sym → List Val → Env → Env
  | x :: xs, v :: vs, env => bindAll xs vs ((x, v) :: env)
  | _, _, env => env

def indexOf? (names : List String) (n : String) : Option Nat :=
  match names with
  | [] => none
  | m :: rest => if m = n then some 0 else (indexOf? rest n).map (· + 1)

/-- value of one field of a record pattern: by index for closed rows (`GetOffset`/`Split`), by
    name for open rows (`GetField`, thread.rs:2356) -/
def fieldOf (poly : Bool) (f : PatField) (fields : List Val) (names : List String) : Option Val :=
  if poly then (indexOf? names f.field).bind (fields[·]?)
  else f.index.bind (fields[·]?)

def bindFields (poly : Bool) : List PatField → List Val → List String → Env → Option Env
  | [], _, _, env => some env
  | f :: fs, fields, names, env =>
    match fieldOf poly f fields names with
    | some v => bindFields poly fs fields names ((f.binder, v) :: env)
    | none => none

/-- Does alternative pattern `p` select value `v`, and with which bindings?
    `none` = the value has the wrong shape (ill-typed), `some none` = not selected. -/
def matchPat (p : Pat) (v : Val) (env : Env) : Option (Option Env) :=
  match p, v with
  | .ctor (some t) args, .data t' fs _ =>
    if t = t' then (if args.length = fs.length then some (some (bindAll args fs env)) else none)
    else some none
  | .ctor _ _, _ => none
  | .record nfields poly fields _, .data _ fs names =>
    -- a value of a closed record type has exactly the fields of the type
    if poly = false ∧ fs.length ≠ nfields then none
    else (bindFields poly fields fs names env).map some
  | .record _ _ _ _, _ => none
  | .ident x, v => some (some ((x, v) :: env))
  | .lit l, v => (litMatches l v).map fun b => if b then some env else none

def recEnv (cs : Closures) (env : Env) : Env :=
  (cs.zipIdx.map fun (c, i) => (c.1, Val.clos cs i env)).reverse ++ env

def isFalse : Val → Bool
  | .data 0 [] _ => true
  | _ => false

mutual
/-- Strict, call-by-value, left-to-right big-step semantics of the core IR. -/
def evalCore : Nat → Env → Expr → Res
  | 0, _, _ => .error .fuel
  | fuel + 1, env, e =>
    match e with
    | .const l => .ok (litVal l)
    | .ident x => match lookup env x with
      | some v => .ok v
      | none => .error (.wrong "unbound")
    | .cast e => evalCore fuel env e
    | .letE x e₁ body =>
      match evalCore fuel env e₁ with
      | .error e => .error e
      | .ok v => evalCore fuel ((x, v) :: env) body
    | .letRec cs body => evalCore fuel (recEnv cs env) body
    | .data k args =>
      match evalList fuel env args with
      | .error e => .error e
      | .ok vs =>
        match k with
        | .record names => .ok (.data 0 vs (if vs.isEmpty then [] else names.map (·.name)))
        | .array => .ok (.arr vs)
        | .variant (some t) => .ok (.data t vs [])
        | .variant none => .error (.wrong "polyvariant")
    | .match_ s alts =>
      match evalCore fuel env s with
      | .error e => .error e
      | .ok v => evalAlts fuel env v alts
    | .call f args =>
      match headOf f args.length, args with
      | .and_, [a, b] =>
        match evalCore fuel env a with
        | .error e => .error e
        | .ok v => if isFalse v then .ok (tagVal 0) else evalCore fuel env b
      | .or_, [a, b] =>
        match evalCore fuel env a with
        | .error e => .error e
        | .ok v => if isFalse v then evalCore fuel env b else .ok (tagVal 1)
      | .prim op, [a, b] =>
        match evalCore fuel env a with
        | .error e => .error e
        | .ok x => match evalCore fuel env b with
          | .error e => .error e
          | .ok y => primApply op x y
      | .none, _ =>
        match evalCore fuel env f with
        | .error e => .error e
        | .ok fv => match evalList fuel env args with
          | .error e => .error e
          | .ok vs => apply fuel fv vs
      | _, _ => .error (.wrong "primitive")
def evalList : Nat → Env → List Expr → Except Err (List Val)
  | 0, _, _ => .error .fuel
  | _ + 1, _, [] => .ok []
  | fuel + 1, env, e :: es =>
    match evalCore fuel env e with
    | .error e => .error e
    | .ok v => match evalList fuel env es with
      | .error e => .error e
      | .ok vs => .ok (v :: vs)
def evalAlts : Nat → Env → Val → List (Pat × Expr) → Res
  | 0, _, _, _ => .error .fuel
  | _ + 1, _, _, [] => .error (.wrong "match-fallthrough")
  | fuel + 1, env, v, (p, e) :: alts =>
    match matchPat p v env with
    | none => .error (.wrong "match-shape")
    | some (some env') => evalCore fuel env' e
    | some none => evalAlts fuel env v alts
/-- thread.rs:2752 `do_call` / :2699 `call_function_with_upvars`: exact, partial and
    over-application. -/
def apply : Nat → Val → List Val → Res
  | 0, _, _ => .error .fuel
  | fuel + 1, f, args =>
    match f with
    | .clos cs idx env =>
      match cs[idx]? with
      | none => .error (.wrong "clos")
      | some (_, params, body) =>
        let n := params.length
        if n = 0 then .error (.wrong "rec-value")
        else if args.length < n then .ok (.pap f args)
        else
          match evalCore fuel (bindAll params (args.take n) (recEnv cs env)) body with
          | .error e => .error e
          | .ok r => if args.length = n then .ok r else apply fuel r (args.drop n)
    | .pap g args₀ => apply fuel g (args₀ ++ args)
    | .ext name arity =>
      if args.length < arity then .ok (.pap f args)
      else if name = "std.prim.error" then
        match args with
        | .str m :: _ => .error (.user m)
        | _ => .error (.wrong "error-arg")
      else if name = "std.prim.string_eq" then
        match args with
        | [.str a, .str b] => .ok (boolVal (a = b))
        | _ => .error (.wrong "string_eq-args")
      else .error (.wrong ("extern " ++ name))
    | _ => .error (.wrong "call")
end

end GluonModel.Core
