import GluonModel.StdMap
/-
Model of the JSON TEXT layer of gluon: `std.json.prim.serialize` / `std.json.prim.deserialize`
(/repo/vm/src/api/json.rs) as `std/json/ser.glu:48 to_string` and `std/json/de.glu:236 deserialize_with`
reach them.

What is Gluon code and what is Rust:
* `std.json.Value` (std/json.glu:8-15) is a Gluon type; its `Object` carries a `std.map` tree
  (`Map String Value`, an unbalanced search tree, std/map.glu:14-16) – `JVal` below.
* `prim.serialize` (json.rs:24-40): the Gluon value is read into the Rust enum `Value` (json.rs:150-163,
  derived `Getable`); an `Object` is read by `from_gluon_map` (vm/src/api/mod.rs:1324-1346: node, then
  left subtree, then right subtree, each entry `extend`ed into a `BTreeMap<JsonString, _>`, whose order
  is the byte order of the keys = code-point order) – `toT`. The `BTreeMap` is then printed by serde_json's
  compact formatter – `pr`.
* `prim.deserialize` (json.rs:17-22): serde_json's `Deserializer::from_str` + `deserialize_any`
  (serde_json 1.0.150 src/de.rs:1393-1470, read.rs) drives the visitor of json.rs:258-366, which collects
  objects into a `BTreeMap` (`visit_map`, later duplicate wins) and pushes it with `to_gluon_map`
  (api/mod.rs:1298-1322: `std.map.insert_string` entry by entry in key order, i.e. a right spine) –
  `parse` then `fromT`. NOTE json.rs:20 never calls `Deserializer::end`: characters after the first
  value are not looked at (`parse` returns the rest, `de` drops it).

Strings are lists of `Char` (Unicode scalar values), which is what a Gluon `String` / Rust `str` holds.
-/
namespace GluonModel.StdJsonText
open GluonModel.StdMap

abbrev Str := List Char

/-- What a JSON text denotes for serde_json: objects are entry lists (a `BTreeMap` on the way out,
    the entries in text order on the way in). -/
inductive T where
  | null
  | bool (b : Bool)
  | int (i : Int)
  | float (bits : Nat)
  | str (s : Str)
  | arr (xs : List T)
  | obj (es : List (Str × T))
  deriving Repr, Inhabited

/-- `std.json.Value` (std/json.glu:8-15). -/
inductive JVal where
  | null
  | bool (b : Bool)
  | int (i : Int)
  | float (bits : Nat)
  | str (s : Str)
  | arr (xs : List JVal)
  | obj (m : Map Str JVal)
  deriving Repr, Inhabited

/-- `Ord String` of gluon = Rust `str::cmp` (bytes of UTF-8) = lexicographic by code point. -/
def scmp : Str → Str → Ordering
  | [], [] => .eq
  | [], _ :: _ => .lt
  | _ :: _, [] => .gt
  | a :: as, b :: bs =>
    if a.toNat < b.toNat then .lt else if a = b then scmp as bs else .gt

/-- `BTreeMap::extend` of a list of entries (insert; an equal key has its value replaced). -/
def insAll {V : Type} (es : List (Str × V)) (acc : List (Str × V)) : List (Str × V) :=
  es.foldl (fun a e => insertSorted scmp e.1 e.2 a) acc

/-- node, left, right (the order `from_gluon_map` visits the tree in). -/
def preorder {K V : Type} : Map K V → List (K × V)
  | .tip => []
  | .bin k v l r => (k, v) :: (preorder l ++ preorder r)

/-! ### value → what is printed -/
mutual
/-- json.rs:150-163 + api/mod.rs:1284-1346: the Rust `Value` read from the Gluon value. -/
def toT : JVal → T
  | .null => .null
  | .bool b => .bool b
  | .int i => .int i
  | .float f => .float f
  | .str s => .str s
  | .arr xs => .arr (toTL xs)
  | .obj m => .obj (toTM m [])
def toTL : List JVal → List T
  | [] => []
  | x :: xs => toT x :: toTL xs
/-- `from_gluon_map(&mut map, vm, value)`: `acc` is the BTreeMap being extended. -/
def toTM : Map Str JVal → List (Str × T) → List (Str × T)
  | .tip, acc => acc
  | .bin k v l r, acc => toTM r (toTM l (insertSorted scmp k (toT v) acc))
end

/-! ### printing (serde_json `CompactFormatter`, ser.rs) -/

def digitChar (d : Nat) : Char := Char.ofNat (48 + d)

/-- itoa: decimal digits, no leading zero. -/
def natDigits (n : Nat) : List Char :=
  if n < 10 then [digitChar n] else natDigits (n / 10) ++ [digitChar (n % 10)]
termination_by n
decreasing_by omega

def prInt (i : Int) : List Char :=
  if i < 0 then '-' :: natDigits i.natAbs else natDigits i.natAbs

def hexDigit (d : Nat) : Char := if d < 10 then Char.ofNat (48 + d) else Char.ofNat (87 + d)

/-- serde_json ser.rs `ESCAPE` table + `format_escaped_str_contents`: `"` `\` and the control
    characters below 0x20 are escaped (`\b \t \n \f \r`, the others `\u00xx` with lower-case hex);
    everything else (0x7f, non-ASCII) is written as it is. -/
def escChar (c : Char) : List Char :=
  if c = '"' then ['\\', '"']
  else if c = '\\' then ['\\', '\\']
  else if c = Char.ofNat 8 then ['\\', 'b']
  else if c = Char.ofNat 9 then ['\\', 't']
  else if c = Char.ofNat 10 then ['\\', 'n']
  else if c = Char.ofNat 12 then ['\\', 'f']
  else if c = Char.ofNat 13 then ['\\', 'r']
  else if c.toNat < 32 then ['\\', 'u', '0', '0', hexDigit (c.toNat / 16), hexDigit (c.toNat % 16)]
  else [c]

def escape : Str → List Char
  | [] => []
  | c :: cs => escChar c ++ escape cs

def prStr (s : Str) : List Char := '"' :: (escape s ++ ['"'])

/-! #### floats: bit patterns ⇄ decimal (correctly rounded, as serde_json `float_roundtrip` / ryu) -/

def ndig (n : Nat) : Nat := (natDigits n).length

/-- The double nearest to `num / den` (ties to even), as a bit pattern without sign; `none` = overflow
    to infinity. `num > 0`, `den > 0`. -/
def ratToBits (num den : Nat) : Option Nat :=
  let lb : Int := Nat.log2 num
  let ld : Int := Nat.log2 den
  -- m = floor (num / (den * 2^k))
  let quot (k : Int) : Nat × Nat × Nat :=   -- (m, remainder numerator, denominator)
    if k ≥ 0 then
      let d := den * 2 ^ k.toNat
      (num / d, num % d, d)
    else
      let n := num * 2 ^ (-k).toNat
      (n / den, n % den, den)
  let k0 : Int := lb - ld - 52
  let k1 : Int := if (quot k0).1 < 2 ^ 52 then k0 - 1 else k0
  let k2 : Int := if (quot k1).1 ≥ 2 ^ 53 then k1 + 1 else k1
  let k : Int := if k2 < -1074 then -1074 else k2
  let (m, r, d) := quot k
  let m' := if 2 * r > d || (2 * r == d && m % 2 == 1) then m + 1 else m
  let (m'', k') : Nat × Int := if m' ≥ 2 ^ 53 then (m' / 2, k + 1) else (m', k)
  if m'' < 2 ^ 52 then some m''          -- subnormal (k' = -1074) or zero
  else
    let biased := k' + 1075
    if biased ≥ 2047 then none else some (biased.toNat * 2 ^ 52 + (m'' - 2 ^ 52))

/-- bits of the double nearest to `D * 10^e` (unsigned); `none` = infinite. -/
def decToBits (D : Nat) (e : Int) : Option Nat :=
  if D = 0 then some 0
  else
    let mag : Int := e + ndig D
    if mag > 400 then none
    else if mag < -400 then some 0
    else if e ≥ 0 then ratToBits (D * 10 ^ e.toNat) 1
    else ratToBits D (10 ^ (-e).toNat)

def signBit : Nat := 2 ^ 63

/-- exact value of a finite positive double as `m * 2^e`. -/
def bitsMant (b : Nat) : Nat × Int :=
  let ex : Nat := b / 2 ^ 52
  let fr : Nat := b % 2 ^ 52
  if ex = 0 then (fr, -1074) else (fr + 2 ^ 52, (ex : Int) - 1075)

/-- The `n`-significant-digit decimals just below / above `m * 2^e`: `(digits, exponent)`. -/
def candidates (m : Nat) (e : Int) (n : Nat) : List (Nat × Int) :=
  -- v = num/den
  let num := if e ≥ 0 then m * 2 ^ e.toNat else m
  let den := if e ≥ 0 then 1 else 2 ^ (-e).toNat
  -- decimal magnitude estimate: v ≈ 10^p, scale so that v / 10^q has n digits
  let estimate : Int := ((Nat.log2 num : Int) - (Nat.log2 den : Int)) * 30103 / 100000
  let tryq (q : Int) : Nat × Nat :=     -- floor (v / 10^q) and whether exact
    if q ≥ 0 then
      let d := den * 10 ^ q.toNat
      (num / d, if num % d = 0 then 1 else 0)
    else
      let nn := num * 10 ^ (-q).toNat
      (nn / den, if nn % den = 0 then 1 else 0)
  let qs : List Int := [estimate - (n : Int) - 1, estimate - (n : Int), estimate - (n : Int) + 1,
    estimate - (n : Int) + 2, estimate - (n : Int) + 3]
  match qs.find? (fun q => let f := (tryq q).1; 10 ^ (n - 1) ≤ f ∧ f < 10 ^ n) with
  | none => []
  | some q =>
    let (f, exact) := tryq q
    if exact = 1 then [(f, q)] else [(f, q), (f + 1, q)]

/-- |m*2^e - D*10^q| compared: returns the scaled distance (common denominator). -/
def distScaled (m : Nat) (e : Int) (D : Nat) (q : Int) : Nat :=
  -- common scale: multiply both by 2^max(0,-e) * 10^max(0,-q)
  let a := m * 2 ^ e.toNat * 10 ^ (-q).toNat
  let b := D * 10 ^ q.toNat * 2 ^ (-e).toNat
  if a ≥ b then a - b else b - a

/-- ryu `d2d`: the shortest decimal that reads back as the same double, closest to it. -/
def shortest (b : Nat) : Nat × Int :=
  let (m, e) := bitsMant b
  let rec go (fuel n : Nat) : Nat × Int :=
    match fuel with
    | 0 => (m, e)
    | fuel + 1 =>
      let cs := (candidates m e n).filter (fun c => decToBits c.1 c.2 == some b)
      match cs with
      | [] => go fuel (n + 1)
      | [c] => c
      | c1 :: c2 :: _ =>
        let d1 := distScaled m e c1.1 c1.2
        let d2 := distScaled m e c2.1 c2.2
        if d1 < d2 then c1 else if d2 < d1 then c2 else if c1.1 % 2 = 0 then c1 else c2
  go 17 1

def stripZeros (D : Nat) (q : Int) : Nat × Int :=
  let rec go (fuel D : Nat) (q : Int) : Nat × Int :=
    match fuel with
    | 0 => (D, q)
    | fuel + 1 => if D ≠ 0 ∧ D % 10 = 0 then go fuel (D / 10) (q + 1) else (D, q)
  go 20 D q

/-- serde_json 1.0.150 `write_f64` (shortest round-trip digits, ryu's `pretty` layout, but a positive
    exponent is written with `+`: `1e+21`) on a finite magnitude. -/
def prFiniteMag (b : Nat) : List Char :=
  if b = 0 then "0.0".toList
  else
    let (D0, k0) := shortest b
    let (D, k) := stripZeros D0 k0
    let ds := natDigits D
    let len : Int := ds.length
    let kk : Int := len + k
    if 0 ≤ k ∧ kk ≤ 16 then ds ++ List.replicate k.toNat '0' ++ ".0".toList
    else if 0 < kk ∧ kk ≤ 16 then ds.take kk.toNat ++ '.' :: ds.drop kk.toNat
    else if -5 < kk ∧ kk ≤ 0 then "0.".toList ++ List.replicate (-kk).toNat '0' ++ ds
    else
      let ex := kk - 1
      let exs := (if ex < 0 then ['-'] else ['+']) ++ natDigits ex.natAbs
      if ds.length = 1 then ds ++ 'e' :: exs
      else ds.take 1 ++ '.' :: ds.drop 1 ++ 'e' :: exs

/-- serde_json `serialize_f64`: non-finite ↦ `null`, finite ↦ ryu. -/
def prFloat (bits : Nat) : List Char :=
  let mag := bits % signBit
  if mag / 2 ^ 52 = 2047 then "null".toList
  else (if bits ≥ signBit then ['-'] else []) ++ prFiniteMag mag

mutual
def pr : T → List Char
  | .null => ['n', 'u', 'l', 'l']
  | .bool true => ['t', 'r', 'u', 'e']
  | .bool false => ['f', 'a', 'l', 's', 'e']
  | .int i => prInt i
  | .float b => prFloat b
  | .str s => prStr s
  | .arr xs => '[' :: prElems true xs
  | .obj es => '{' :: prMembers true es
def prElems : Bool → List T → List Char
  | _, [] => [']']
  | first, x :: xs => (if first then [] else [',']) ++ (pr x ++ prElems false xs)
def prMembers : Bool → List (Str × T) → List Char
  | _, [] => ['}']
  | first, (k, x) :: es => (if first then [] else [',']) ++ (prStr k ++ ':' :: (pr x ++ prMembers false es))
end

/-- `std.json.ser.to_string` on a `Value` (`serialize_value = Ok`, then `prim.serialize`). -/
def ser (v : JVal) : List Char := pr (toT v)

/-! ### parsing (serde_json de.rs / read.rs) -/

/-- serde_json error.rs `ErrorCode` (the ones `deserialize_any` on a `str` can produce). -/
inductive Err where
  | eofList | eofObject | eofString | eofValue
  | expectedColon | expectedListCommaOrEnd | expectedObjectCommaOrEnd
  | expectedIdent | expectedValue
  | invalidEscape | invalidNumber | numberOutOfRange
  | controlChar | keyMustBeString | loneSurrogate
  | trailingComma | trailingChars | unexpectedEndOfHex | recursionLimit
  | fuel   -- never produced by `parse` (the model's recursion budget)
  deriving DecidableEq, Repr, Inhabited

/-- error.rs:350-386 `Display for ErrorCode`. -/
def Err.msg : Err → String
  | .eofList => "EOF while parsing a list"
  | .eofObject => "EOF while parsing an object"
  | .eofString => "EOF while parsing a string"
  | .eofValue => "EOF while parsing a value"
  | .expectedColon => "expected `:`"
  | .expectedListCommaOrEnd => "expected `,` or `]`"
  | .expectedObjectCommaOrEnd => "expected `,` or `}`"
  | .expectedIdent => "expected ident"
  | .expectedValue => "expected value"
  | .invalidEscape => "invalid escape"
  | .invalidNumber => "invalid number"
  | .numberOutOfRange => "number out of range"
  | .controlChar => "control character (\\u0000-\\u001F) found while parsing a string"
  | .keyMustBeString => "key must be a string"
  | .loneSurrogate => "lone leading surrogate in hex escape"
  | .trailingComma => "trailing comma"
  | .trailingChars => "trailing characters"
  | .unexpectedEndOfHex => "unexpected end of hex escape"
  | .recursionLimit => "recursion limit exceeded"
  | .fuel => "MODEL-FUEL"

abbrev R (α : Type) := Except Err (α × List Char)

/-- de.rs:255-266 `parse_whitespace`. -/
def isWs (c : Char) : Bool := c = ' ' || c = '\n' || c = '\t' || c = '\r'
def skipWs : List Char → List Char
  | [] => []
  | c :: cs => if isWs c then skipWs cs else c :: cs

/-- de.rs:445-460 `parse_ident`. -/
def parseIdent : List Char → List Char → Except Err (List Char)
  | [], cs => .ok cs
  | _ :: _, [] => .error .eofValue
  | e :: es, c :: cs => if c = e then parseIdent es cs else .error .expectedIdent

def isDigit (c : Char) : Bool := 48 ≤ c.toNat && c.toNat ≤ 57

/-- the digit loops of de.rs:478-503 / 539-550 / 605-615: value and count of the leading digits. -/
def scanDigits : Nat → Nat → List Char → Nat × Nat × List Char
  | acc, n, [] => (acc, n, [])
  | acc, n, c :: cs =>
    if isDigit c then scanDigits (acc * 10 + (c.toNat - 48)) (n + 1) cs else (acc, n, c :: cs)

def u64Max : Nat := 2 ^ 64 - 1
def i32Max : Nat := 2 ^ 31 - 1

/-- de.rs:634-648 / 881-907 `f64_from_parts` / `f64_long_from_parts` (feature `float_roundtrip`:
    lexical, correctly rounded); infinite ⇒ `NumberOutOfRange`. -/
def mkFloat (positive : Bool) (D : Nat) (e : Int) (rest : List Char) : R T :=
  match decToBits D e with
  | none => .error .numberOutOfRange
  | some b => .ok (.float (if positive then b else b + signBit), rest)

/-- de.rs:568-623 `parse_exponent` / 773-820 `parse_long_exponent` (after the `e`). -/
def parseExp (positive : Bool) (D : Nat) (e0 : Int) (cs : List Char) : R T :=
  let (posExp, cs1) : Bool × List Char :=
    match cs with
    | c :: r => if c = '+' then (true, r) else if c = '-' then (false, r) else (true, cs)
    | [] => (true, cs)
  match cs1 with
  | [] => .error .eofValue
  | c :: _ =>
    if !isDigit c then .error .invalidNumber
    else
      let (E, _, rest) := scanDigits 0 0 cs1
      if E > i32Max then
        -- de.rs:862-879 `parse_exponent_overflow`
        if D ≠ 0 ∧ posExp then .error .numberOutOfRange
        else .ok (.float (if positive then 0 else signBit), rest)
      else mkFloat positive D (if posExp then e0 + E else e0 - E) rest

/-- de.rs:530-566 `parse_decimal` / 742-770 `parse_long_decimal` (after the `.`). -/
def parseFrac (positive : Bool) (N : Nat) (cs : List Char) : R T :=
  let (F, cnt, rest) := scanDigits N 0 cs
  if cnt = 0 then
    match rest with
    | [] => .error .eofValue
    | _ :: _ => .error .invalidNumber
  else
    match rest with
    | c :: r => if c = 'e' || c = 'E' then parseExp positive F (-(cnt : Int)) r
                else mkFloat positive F (-(cnt : Int)) rest
    | [] => mkFloat positive F (-(cnt : Int)) rest

/-- de.rs:509-527 `parse_number` (and the `_ =>` arm of `parse_long_integer`, 690-727) followed by
    the visitor (json.rs:296-313): `visit_u64` is `value as i64` (wraps above `i64::MAX`). -/
def afterInt (positive : Bool) (N : Nat) (cs : List Char) : R T :=
  let intResult : R T :=
    if N ≤ u64Max then
      if positive then .ok (.int (if N < 2 ^ 63 then (N : Int) else (N : Int) - 2 ^ 64), cs)
      else if N = 0 then .ok (.float signBit, cs)
      else if N ≤ 2 ^ 63 then .ok (.int (-(N : Int)), cs)
      else mkFloat false N 0 cs
    else mkFloat positive N 0 cs
  match cs with
  | c :: r =>
    if c = '.' then parseFrac positive N r
    else if c = 'e' || c = 'E' then parseExp positive N 0 r
    else intResult
  | [] => intResult

/-- de.rs:462-507 `parse_integer` (the sign already eaten). -/
def parseNumber (positive : Bool) (cs : List Char) : R T :=
  match cs with
  | [] => .error .eofValue
  | c :: rest =>
    if !isDigit c then .error .invalidNumber
    else if c = '0' && (match rest with | d :: _ => isDigit d | [] => false) then .error .invalidNumber
    else
      let (N, _, r) := scanDigits 0 0 cs
      afterInt positive N r

def hexVal (c : Char) : Option Nat :=
  let n := c.toNat
  if 48 ≤ n ∧ n ≤ 57 then some (n - 48)
  else if 97 ≤ n ∧ n ≤ 102 then some (n - 87)
  else if 65 ≤ n ∧ n ≤ 70 then some (n - 55)
  else none

def byteLen (cs : List Char) : Nat := (cs.map Char.utf8Size).sum

/-- read.rs:621-635 `SliceRead::decode_hex_escape`: needs four BYTES, all hex digits. -/
def decodeHex : List Char → R Nat
  | a :: b :: c :: d :: rest =>
    match hexVal a, hexVal b, hexVal c, hexVal d with
    | some x, some y, some z, some w => .ok (((x * 16 + y) * 16 + z) * 16 + w, rest)
    | _, _, _, _ => .error .invalidEscape
  | cs => if byteLen cs ≥ 4 then .error .invalidEscape else .error .eofString

/-- read.rs:900-973 `parse_unicode_escape` (`validate = true`). -/
def parseUnicode (cs : List Char) : R Char :=
  match decodeHex cs with
  | .error e => .error e
  | .ok (n, r) =>
    if 0xDC00 ≤ n ∧ n ≤ 0xDFFF then .error .loneSurrogate
    else if n < 0xD800 ∨ n > 0xDBFF then .ok (Char.ofNat n, r)
    else
      match r with
      | [] => .error .eofString
      | c1 :: r1 =>
        if c1 ≠ '\\' then .error .unexpectedEndOfHex
        else match r1 with
          | [] => .error .eofString
          | c2 :: r2 =>
            if c2 ≠ 'u' then .error .unexpectedEndOfHex
            else match decodeHex r2 with
              | .error e => .error e
              | .ok (n2, r3) =>
                if n2 < 0xDC00 ∨ n2 > 0xDFFF then .error .loneSurrogate
                else .ok (Char.ofNat ((n - 0xD800) * 1024 + (n2 - 0xDC00) + 0x10000), r3)

/-- read.rs:874-895 `parse_escape` (after the backslash). -/
def parseEscape : List Char → R Char
  | [] => .error .eofString
  | c :: rest =>
    if c = '"' then .ok ('"', rest)
    else if c = '\\' then .ok ('\\', rest)
    else if c = '/' then .ok ('/', rest)
    else if c = 'b' then .ok (Char.ofNat 8, rest)
    else if c = 'f' then .ok (Char.ofNat 12, rest)
    else if c = 'n' then .ok (Char.ofNat 10, rest)
    else if c = 'r' then .ok (Char.ofNat 13, rest)
    else if c = 't' then .ok (Char.ofNat 9, rest)
    else if c = 'u' then parseUnicode rest
    else .error .invalidEscape

/-- read.rs:494-560 `parse_str_bytes` (after the opening quote); `acc` reversed. -/
def parseStrF : Nat → Str → List Char → R Str
  | 0, _, _ => .error .fuel
  | _ + 1, _, [] => .error .eofString
  | f + 1, acc, c :: rest =>
    if c = '"' then .ok (acc.reverse, rest)
    else if c = '\\' then
      match parseEscape rest with
      | .error e => .error e
      | .ok (ch, rest') => parseStrF f (ch :: acc) rest'
    else if c.toNat < 32 then .error .controlChar
    else parseStrF f (c :: acc) rest

def parseStr (cs : List Char) : R Str := parseStrF (cs.length + 1) [] cs

mutual
/-- de.rs:1393-1470 `deserialize_any`. `d` = `remaining_depth` (starts at 128, de.rs:1372-1387). -/
def parseV : Nat → Nat → List Char → R T
  | 0, _, _ => .error .fuel
  | f + 1, d, cs =>
    match skipWs cs with
    | [] => .error .eofValue
    | c :: rest =>
      if c = '-' then parseNumber false rest
      else if isDigit c then parseNumber true (c :: rest)
      else if c = 'n' then
        match parseIdent ['u', 'l', 'l'] rest with
        | .error e => .error e
        | .ok r => .ok (.null, r)
      else if c = 't' then
        match parseIdent ['r', 'u', 'e'] rest with
        | .error e => .error e
        | .ok r => .ok (.bool true, r)
      else if c = 'f' then
        match parseIdent ['a', 'l', 's', 'e'] rest with
        | .error e => .error e
        | .ok r => .ok (.bool false, r)
      else if c = '"' then
        match parseStr rest with
        | .error e => .error e
        | .ok (s, r) => .ok (.str s, r)
      else if c = '[' then
        if d ≤ 1 then .error .recursionLimit
        else match parseElems f (d - 1) true rest with
          | .error e => .error e
          | .ok (xs, r) => .ok (.arr xs, r)
      else if c = '{' then
        if d ≤ 1 then .error .recursionLimit
        else match parseMembers f (d - 1) true rest with
          | .error e => .error e
          | .ok (es, r) => .ok (.obj es, r)
      else .error .expectedValue
/-- de.rs:1930-1970 `SeqAccess::next_element_seed` in the loop of json.rs:334-345, then `end_seq`. -/
def parseElems : Nat → Nat → Bool → List Char → R (List T)
  | 0, _, _, _ => .error .fuel
  | f + 1, d, first, cs =>
    match skipWs cs with
    | [] => .error .eofList
    | c :: rest =>
      if c = ']' then .ok ([], rest)
      else
        let next : Except Err (List Char) :=
          if first then .ok (c :: rest)
          else if c = ',' then
            match skipWs rest with
            | [] => .error .eofValue
            | c2 :: r2 => if c2 = ']' then .error .trailingComma else .ok (c2 :: r2)
          else .error .expectedListCommaOrEnd
        match next with
        | .error e => .error e
        | .ok cs' =>
          match parseV f d cs' with
          | .error e => .error e
          | .ok (x, r) =>
            match parseElems f d false r with
            | .error e => .error e
            | .ok (xs, r') => .ok (x :: xs, r')
/-- de.rs:1983-2035 `MapAccess::next_key_seed` / `next_value_seed` in the loop of json.rs:347-359,
    then `end_map`. -/
def parseMembers : Nat → Nat → Bool → List Char → R (List (Str × T))
  | 0, _, _, _ => .error .fuel
  | f + 1, d, first, cs =>
    match skipWs cs with
    | [] => .error .eofObject
    | c :: rest =>
      if c = '}' then .ok ([], rest)
      else
        let next : Except Err (List Char) :=     -- the input after the opening quote of the key
          if first then (if c = '"' then .ok rest else .error .keyMustBeString)
          else if c = ',' then
            match skipWs rest with
            | [] => .error .eofValue
            | c2 :: r2 =>
              if c2 = '"' then .ok r2
              else if c2 = '}' then .error .trailingComma
              else .error .keyMustBeString
          else .error .expectedObjectCommaOrEnd
        match next with
        | .error e => .error e
        | .ok cs' =>
          match parseStr cs' with
          | .error e => .error e
          | .ok (k, r0) =>
            match skipWs r0 with
            | [] => .error .eofObject
            | c3 :: r1 =>
              if c3 ≠ ':' then .error .expectedColon
              else
                match parseV f d r1 with
                | .error e => .error e
                | .ok (x, r) =>
                  match parseMembers f d false r with
                  | .error e => .error e
                  | .ok (es, r') => .ok ((k, x) :: es, r')
end

/-- `serde_json::Deserializer::from_str(input)` + `deserialize_any`, `remaining_depth = 128`. Every
    call of `parseV`/`parseElems`/`parseMembers` that does not fail consumes a character, so the
    budget `2 * length + 2` is never exhausted. -/
def parse (cs : List Char) : R T := parseV (2 * cs.length + 2) 128 cs

/-! ### what was parsed → Gluon value -/

/-- `to_gluon_map` (api/mod.rs:1298-1322) of the `BTreeMap` that `visit_map` (json.rs:347-359) filled
    entry by entry in text order. -/
def buildMap {V : Type} (es : List (Str × V)) : Map Str V :=
  (insAll es []).foldl (fun m e => insert scmp e.1 e.2 m) .tip

mutual
def fromT : T → JVal
  | .null => .null
  | .bool b => .bool b
  | .int i => .int i
  | .float f => .float f
  | .str s => .str s
  | .arr xs => .arr (fromTL xs)
  | .obj es => .obj (buildMap (fromTE es))
def fromTL : List T → List JVal
  | [] => []
  | x :: xs => fromT x :: fromTL xs
def fromTE : List (Str × T) → List (Str × JVal)
  | [] => []
  | (k, x) :: es => (k, fromT x) :: fromTE es
end

/-- `std.json.de.deserialize_with value` (de.glu:236-239 with `value`, :226): the text after the first
    value is ignored. -/
def de (cs : List Char) : Except Err JVal :=
  match parse cs with
  | .error e => .error e
  | .ok (t, _) => .ok (fromT t)

end GluonModel.StdJsonText
