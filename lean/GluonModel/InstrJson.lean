/-
The JSON form of an `Instruction` (vm/src/types.rs:57-186), as `#[derive(Serialize, Deserialize)]`
on an enum produces it through serde_json — serde's *externally tagged* representation:

  * a unit variant                       `Split`                       ⇒ `"Split"`
  * a newtype variant                    `Push(3)`                     ⇒ `{"Push":3}`
  * a struct variant                     `NewRecord{record:0,args:2}`  ⇒ `{"NewRecord":{"record":0,"args":2}}`

and what the derived `Deserialize` accepts (serde_derive `deserialize_externally_tagged_enum`,
serde_json `Deserializer::deserialize_enum`, de.rs):

  * a string: only for a unit variant (`UnitVariantAccess`: any other shape is `invalid type: unit variant`);
  * an object with EXACTLY one member `name : payload` (`VariantAccess`; 0 or ≥2 members are errors):
      unit variant    – payload must be `null` (`deserialize_unit`);
      newtype variant – payload is the operand;
      struct variant  – payload is an object (members in ANY order, unknown members ignored, a
                        repeated known member is `duplicate field`, an absent one `missing field`)
                        or an array with exactly the fields in declaration order (`visit_seq`);
  * operands: `u8`/`u32`/`i64` take an integer literal in range (a literal with fraction/exponent is
    `invalid type: floating point`), `f64` takes any number.

The enum itself is not written here: `Generated.Instr` (translate/instructions.py) lists the
variants with their operand types (`variants : Table`) and the typed inductive `Instr` with
`toRaw`/`ofRaw`; the functions below are generic in the table, so the round-trip theorem holds for
whatever the Rust enum is today.

Floats: the text ⇄ f64 conversion (ryu / serde_json `float_roundtrip`) is NOT modelled — an `f64`
operand is carried as the number's lexeme. (This is where the fixed finding `result-differs:float`
lived; the harness oracle keeps watching it on the real code.) An integer literal in an `f64`
position becomes `<n>.0`, which is what ryu prints for |n| < 10^15; larger ones are outside the model.
-/
namespace GluonModel.InstrJson

/-- JSON values; numbers split into integer literals and literals with a fraction or exponent
    (kept as text). -/
inductive J where
  | null
  | bool (b : Bool)
  | int (v : Int)
  | flt (lex : List Char)
  | str (s : String)
  | arr (xs : List J)
  | obj (kvs : List (String × J))
  deriving Repr, Inhabited

/-- Operand types occurring in `Instruction` (`VmIndex = VmTag = u32`, `VmInt = i64`,
    `EqFloat` = newtype over `f64`, serialised transparently). -/
inductive OpTy where
  | u8 | u32 | i64 | f64
  deriving Repr, DecidableEq, Inhabited

inductive Operand where
  | int (v : Int)
  | flt (lex : List Char)
  deriving Repr, DecidableEq, Inhabited

inductive Shape where
  | unit
  | newtype (t : OpTy)
  | struct (fields : List (String × OpTy))
  deriving Repr, Inhabited

structure Variant where
  name : String
  shape : Shape
  deriving Repr, Inhabited

abbrev Table := List Variant

/-- An instruction with its types forgotten: variant name and operands in declaration order. -/
structure Raw where
  tag : String
  ops : List Operand
  deriving Repr, DecidableEq, Inhabited

def find (tb : Table) (n : String) : Option Variant := tb.find? (fun v => v.name == n)

/-- The operand fits its Rust type. -/
def OpTy.inRange : OpTy → Operand → Bool
  | .u8, .int v => decide (0 ≤ v) && decide (v < 256)
  | .u32, .int v => decide (0 ≤ v) && decide (v < 4294967296)
  | .i64, .int v => decide (-9223372036854775808 ≤ v) && decide (v < 9223372036854775808)
  | .f64, .flt _ => true
  | _, _ => false

def opsOk : List (String × OpTy) → List Operand → Bool
  | [], [] => true
  | (_, t) :: fs, o :: os => t.inRange o && opsOk fs os
  | _, _ => false

def Shape.okOps : Shape → List Operand → Bool
  | .unit, [] => true
  | .newtype t, [o] => t.inRange o
  | .struct fs, ops => opsOk fs ops
  | _, _ => false

/-- The raw instruction names a variant of the table and carries operands of its types, in range. -/
def Raw.ok (tb : Table) (r : Raw) : Bool :=
  match find tb r.tag with
  | some v => v.shape.okOps r.ops
  | none => false

def keysNodup : List String → Bool
  | [] => true
  | k :: ks => !ks.contains k && keysNodup ks

/-- Field names of every struct variant are pairwise different (Rust guarantees it). -/
def Table.ok (tb : Table) : Bool :=
  tb.all (fun v => match v.shape with
    | .struct fs => keysNodup (fs.map (·.1))
    | _ => true)

/-! ### Serialize -/

def encodeOp : Operand → J
  | .int v => .int v
  | .flt l => .flt l

def encodeFields : List (String × OpTy) → List Operand → List (String × J)
  | (k, _) :: fs, o :: os => (k, encodeOp o) :: encodeFields fs os
  | _, _ => []

def encodePayload : Shape → List Operand → J
  | .newtype _, [o] => encodeOp o
  | .struct fs, ops => .obj (encodeFields fs ops)
  | _, _ => .null

def encodeRaw (tb : Table) (r : Raw) : J :=
  match find tb r.tag with
  | some v =>
    match v.shape with
    | .unit => .str r.tag
    | sh => .obj [(r.tag, encodePayload sh r.ops)]
  | none => .null

/-! ### Deserialize -/

/-- what ryu prints for an integral f64 of small magnitude -/
def intLex (v : Int) : List Char := (toString v).toList ++ ['.', '0']

def decodeOp (t : OpTy) : J → Option Operand
  | .int v =>
    match t with
    | .f64 => if -1000000000000000 < v ∧ v < 1000000000000000 then some (.flt (intLex v)) else none
    | t => if t.inRange (.int v) then some (.int v) else none
  | .flt l => if t = .f64 then some (.flt l) else none
  | _ => none

/-- The value of member `k`: `none` when absent or repeated. -/
def fieldVal : List (String × J) → String → Option J
  | [], _ => none
  | (k', j) :: rest, k =>
    if k' == k then (if (rest.map (·.1)).contains k then none else some j) else fieldVal rest k

def decodeFieldsMap (kvs : List (String × J)) : List (String × OpTy) → Option (List Operand)
  | [] => some []
  | (k, t) :: fs =>
    match fieldVal kvs k with
    | some j =>
      match decodeOp t j, decodeFieldsMap kvs fs with
      | some o, some os => some (o :: os)
      | _, _ => none
    | none => none

def decodeFieldsSeq : List (String × OpTy) → List J → Option (List Operand)
  | [], [] => some []
  | (_, t) :: fs, j :: js =>
    match decodeOp t j, decodeFieldsSeq fs js with
    | some o, some os => some (o :: os)
    | _, _ => none
  | _, _ => none

def decodePayload : Shape → J → Option (List Operand)
  | .unit, .null => some []
  | .unit, _ => none
  | .newtype t, j => (decodeOp t j).map (fun o => [o])
  | .struct fs, .obj kvs => decodeFieldsMap kvs fs
  | .struct fs, .arr xs => decodeFieldsSeq fs xs
  | .struct _, _ => none

def decodeRaw (tb : Table) : J → Option Raw
  | .str s =>
    match find tb s with
    | some v => (match v.shape with | .unit => some ⟨s, []⟩ | _ => none)
    | none => none
  | .obj [(k, p)] =>
    match find tb k with
    | some v => (decodePayload v.shape p).map (fun ops => ⟨k, ops⟩)
    | none => none
  | _ => none

/-! ### Instruction vectors (`Vec<Instruction>`: a JSON array) -/

def decodeAll (dec : J → Option α) : List J → Option (List α)
  | [] => some []
  | j :: js =>
    match dec j, decodeAll dec js with
    | some a, some as => some (a :: as)
    | _, _ => none

end GluonModel.InstrJson
