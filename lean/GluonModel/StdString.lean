/-
Model of the string primitives (vm/src/primitives.rs:247-364 `mod string`, the `str` methods bound at
primitives.rs:671-700, std/string.glu) over UTF-8 *byte lists* (`List Nat`, every element < 256), and
the UTF-8 encoding of Unicode scalar values those functions are specified against.
-/
namespace GluonModel.StdString

abbrev Bytes := List Nat

/-! ### UTF-8 -/

/-- A Unicode scalar value. -/
def IsScalar (c : Nat) : Prop := c < 0xD800 ∨ (0xE000 ≤ c ∧ c < 0x110000)
instance (c : Nat) : Decidable (IsScalar c) := by unfold IsScalar; infer_instance

/-- UTF-8 encoding of one scalar value (RFC 3629 / Rust `char::encode_utf8`). -/
def encodeScalar (c : Nat) : Bytes :=
  if c < 0x80 then [c]
  else if c < 0x800 then [0xC0 + c / 64, 0x80 + c % 64]
  else if c < 0x10000 then [0xE0 + c / 4096, 0x80 + c / 64 % 64, 0x80 + c % 64]
  else [0xF0 + c / 262144, 0x80 + c / 4096 % 64, 0x80 + c / 64 % 64, 0x80 + c % 64]

def encode (cs : List Nat) : Bytes := cs.flatMap encodeScalar

/-- A continuation byte `10xxxxxx`. -/
def isCont (b : Nat) : Bool := 128 ≤ b && b < 192

/-- Decode the scalar value that starts at the head of `s` (input is valid UTF-8 in all uses;
    on malformed input the result is unspecified but total). Rust: `s[index..].chars().next()`. -/
def decodeHead : Bytes → Option Nat
  | [] => none
  | b0 :: rest =>
    if b0 < 0x80 then some b0
    else if b0 < 0xE0 then
      match rest with
      | b1 :: _ => some ((b0 - 0xC0) * 64 + (b1 - 0x80))
      | _ => none
    else if b0 < 0xF0 then
      match rest with
      | b1 :: b2 :: _ => some ((b0 - 0xE0) * 4096 + (b1 - 0x80) * 64 + (b2 - 0x80))
      | _ => none
    else
      match rest with
      | b1 :: b2 :: b3 :: _ =>
        some ((b0 - 0xF0) * 262144 + (b1 - 0x80) * 4096 + (b2 - 0x80) * 64 + (b3 - 0x80))
      | _ => none

/-! ### The primitives -/

/-- Outcome of a primitive: value, catchable gluon error (`RuntimeResult::Panic`), or a Rust panic
    inside the `extern "C"` primitive, which aborts the host process (that last outcome is the
    subject of property C06, finding D3; C19's generator stays off it). -/
inductive Res (α : Type) where
  | ok (x : α)
  | err
  | abort
  deriving Repr, BEq, DecidableEq

/-- Rust `str::is_char_boundary` (library/core/src/str/mod.rs): `index == 0`, or `index == len`, or the
    byte at `index` is not a continuation byte. gluon passes the `Int` cast to `usize`
    (vm/src/api/mod.rs:854-882), so a negative index is out of range. -/
def isCharBoundary (s : Bytes) (i : Int) : Bool :=
  if i < 0 then false
  else if i = 0 then true
  else
    match s[i.toNat]? with
    | none => i.toNat == s.length
    | some b => !isCont b

/-- primitives.rs:327-342 `slice`. Both ends on a boundary but `start > end` makes `&s[start..end]`
    panic inside the primitive. -/
def slice (s : Bytes) (a b : Int) : Res Bytes :=
  if isCharBoundary s a && isCharBoundary s b then
    if a ≤ b then .ok ((s.drop a.toNat).take (b.toNat - a.toNat)) else .abort
  else .err

/-- primitives.rs:311-325 `split_at`. -/
def splitAt (s : Bytes) (i : Int) : Res (Bytes × Bytes) :=
  if isCharBoundary s i then .ok (s.take i.toNat, s.drop i.toNat) else .err

/-- primitives.rs:350-363 `char_at`: the scalar value starting at a boundary; `index == len` is an
    error (no character there). -/
def charAt (s : Bytes) (i : Int) : Res Nat :=
  if isCharBoundary s i then
    match decodeHead (s.drop i.toNat) with
    | some c => .ok c
    | none => .err
  else .err

/-- `str::len` (bytes), `str::is_empty`, primitives.rs:251-292 `append`. -/
def len (s : Bytes) : Nat := s.length
def isEmpty (s : Bytes) : Bool := s.isEmpty
def append (s t : Bytes) : Bytes := s ++ t

def startsWith : Bytes → Bytes → Bool
  | _, [] => true
  | [], _ :: _ => false
  | a :: s, b :: t => a == b && startsWith s t

/-- `str::find` with a `&str` pattern: byte index of the first occurrence. `fuel` = bytes left. -/
def findFrom (t : Bytes) : Bytes → Nat → Option Nat
  | [], i => if t.isEmpty then some i else none
  | a :: s, i => if startsWith (a :: s) t then some i else findFrom t s (i + 1)
def find (s t : Bytes) : Option Nat := findFrom t s 0

/-- `str::rfind`: byte index of the last occurrence. -/
def rfindFrom (t : Bytes) : Bytes → Nat → Option Nat → Option Nat
  | [], i, best => if t.isEmpty then some i else best
  | a :: s, i, best => rfindFrom t s (i + 1) (if startsWith (a :: s) t then some i else best)
def rfind (s t : Bytes) : Option Nat := rfindFrom t s 0 none

def contains (s t : Bytes) : Bool := (find s t).isSome
def endsWith (s t : Bytes) : Bool := s.length ≥ t.length && s.drop (s.length - t.length) == t

/-- `str::cmp` = lexicographic on bytes (which is code-point order for valid UTF-8). -/
def cmp : Bytes → Bytes → Ordering
  | [], [] => .eq
  | [], _ :: _ => .lt
  | _ :: _, [] => .gt
  | a :: s, b :: t => if a < b then .lt else if a > b then .gt else cmp s t

/-- std/string.glu:27 `show = \s -> "\"" ++ s ++ "\""` (no escaping). -/
def showStr (s : Bytes) : Bytes := [34] ++ s ++ [34]

end GluonModel.StdString
