/-
The heap as a state machine (C05 / C13): every operation of `GluonModel.GcHeap` as a guarded
step, so that "every reachable state" is a well-defined notion. A step whose guard fails leaves
the state unchanged (the real operation is impossible or refused there). No imports but the model.

Guards say what the running system guarantees at the call site:
* a thread only handles values it can reach — the value is live and owned by the thread's heap
  or an ancestor (`holds`);
* `alloc` in heap `t` builds an object from values thread `t` holds (stack.rs / `Gc::alloc`
  through `Context`, thread.rs:1745); a mutable cell records `thread = t` (reference.rs:73,
  lazy.rs:204); bytecode (`code`) is allocated in the global heap only (vm.rs:619);
* `store` (`<-`, `force`) is executed by a thread that holds both the cell and the value;
* `collect` is only ever run on a thread heap (`t ≠ []`: the global gc is never collected).
-/
import GluonModel.GcHeap

namespace GluonModel.GcHeap

inductive Op where
  | alloc (t : HeapId) (kind : Kind) (fields : List Nat)
  | root (t : HeapId) (r : Nat)
  | unroot (t : HeapId) (r : Nat)
  | spawn (parent : HeapId) (i : Nat)
  /-- the thread has finished and the host dropped its handles: stack and rooted values are
      gone; the `Thread` object stays in its parent's child list (thread.rs:382: nothing ever
      removes it) and keeps its own child list -/
  | dropThread (t : HeapId)
  | store (t : HeapId) (cell v : Nat)
  | transfer (sameVm : Bool) (src dst : HeapId) (v : Nat)
  | collect (t : HeapId)
  /-- src/query.rs:757: a module value is promoted into the global heap (defect D1 for cells) -/
  | promote (thr : HeapId) (v : Nat)
  deriving Repr

/-- `x` is live and owned by heap `t` or an ancestor: thread `t` may hold it. -/
def holds (s : State) (t : HeapId) (x : Nat) : Bool :=
  match s.obj x with
  | some o => o.owner.isPrefixOf t
  | none => false

def isThreadObj (s : State) (x : Nat) : Bool :=
  match s.obj x with
  | some o => o.kind == .thread
  | none => false

def isCell (s : State) (x : Nat) : Bool :=
  match s.obj x with
  | some o => o.kind == .cell
  | none => false

def kindAllowed (fixed : Bool) (t : HeapId) : Kind → Bool
  | .plain => true
  | .cell => true
  | .udata => true
  | .shallow => fixed      -- the code as it is copies string arrays shallowly (known defect)
  | .code => t == []
  | .aarr => true
  | .uarr => true
  | .thread => false       -- only `spawn` creates threads

def mapRootsObj (s : State) (t : HeapId) (f : List Nat → List Nat) (i : Nat) : Option Obj :=
  match s.obj i with
  | some o => if o.kind = .thread ∧ o.home = t then some { o with edges := f o.edges } else some o
  | none => none

/-- Rewrite the root list of thread `t`. -/
def mapRoots (s : State) (t : HeapId) (f : List Nat → List Nat) : State :=
  { s with obj := mapRootsObj s t f }

def step (fixed : Bool) (s : State) : Op → State
  | .alloc t kind fields =>
    if fields.all (holds s t) && kindAllowed fixed t kind then (alloc s t kind fields).1 else s
  | .root t r => if holds s t r then addRoot s t r else s
  -- a host handle / stack slot goes away; the entries of `child_threads` are not removable
  -- (thread.rs:382: "Remove any threads that aren't marked" has no code)
  | .unroot t r => if isThreadObj s r then s else mapRoots s t (fun l => l.erase r)
  | .spawn parent i => (spawn s parent i).1
  | .dropThread t => mapRoots s t (fun l => l.filter (isThreadObj s))
  | .store t cell v =>
    if holds s t cell && holds s t v && isCell s cell then
      (storeCell s cell v fixed).getD s
    else s
  | .transfer sameVm src dst v =>
    if holds s src v then
      match transfer s sameVm src dst fixed v with
      | some (s', _) => s'
      | none => s
    else s
  | .collect t => if t ≠ [] then (collect s t).getD s else s
  | .promote thr v =>
    if holds s thr v then
      match promoteGlobal s thr fixed v with
      | some (s', _) => s'
      | none => s
    else s

def run (fixed : Bool) (s : State) (ops : List Op) : State := ops.foldl (step fixed) s

def Op.isPromote : Op → Bool
  | .promote _ _ => true
  | _ => false

/-- A VM right after creation: the root thread object (in the global heap), nothing else. -/
def init : State := State.ofList [⟨[], [0], .thread, []⟩]

end GluonModel.GcHeap
