/-
Model of the expression core of gluon's grammar (parser/src/grammar.lalrpop) at TOKEN level, as
the LALRPOP parser sees it, i.e. AFTER the layout pass (parser/src/layout.rs) has inserted its
`block open` / `block close` tokens:

  AtomicExpr :747   identifier | literal | "(" CommaSlice<SpExpr> ")"          (Tuple; 1 elem = parens)
  AppExpr    :812   AtomicExpr | SpAtomicExpr Many1<SpAtomicExpr>              (application binds tightest)
  InfixExpr  :830   AppExpr | "\\" Many1<arg> "->" SpExpr
                    | Sp<AppExpr> Sp<Operator> Sp<InfixExpr>                   (RIGHT-nested raw chain;
                                                                               infix.rs re-balances it)
  Expr       :851   InfixExpr | "if" SpExpr "then" SpExpr "else" SpExpr
                    | ValueBinding InExpr  ("let" name args* "=" SpExpr "in" SpExpr)
                    | BlockExpr ("block open" SpExpr "block close", flattened when it is a singleton
                      by `shrink_hidden_spans`, lib.rs:70)

`C` is the *concrete* tree: the AST plus the span of every token occurrence.  `toks` prints it as
the token stream the layout pass delivers for the explicit one-line style (every `let … = e in b`
with its `in`, blocks opened after `=`, `in`, `then`, `else` (not before an `if` on the same
line, layout.rs:574), `->`); `parse` is a recursive-descent parser with explicit fuel over those
tokens with one function per grammar level.  `span` is the span the real parser gives a node:
`Sp<…>` (start of first token … end of last token) followed by `shrink_hidden_spans`, which
makes the end of `if`/`let`/lambda/infix the end of their last sub-expression (so the hidden
`block close` never shows).

No imports besides model files.
-/
import GluonModel.Infix
import GluonModel.LayoutAlgo
namespace GluonModel.ExprGrammar

structure Span where
  s : Nat
  e : Nat
  deriving DecidableEq, Repr, Inhabited

inductive T where
  | ident (n : String) | int (n : Nat) | str (s : String) | op (n : String)
  | kLet | kIn | kIf | kThen | kElse | lam | arrow | eq | lp | rp | comma
  | ob | cb          -- "block open" / "block close" inserted by the layout pass
  deriving DecidableEq, Repr, Inhabited

structure Tok where
  t : T
  sp : Span
  deriving DecidableEq, Repr, Inhabited

abbrev Arg := String × Span

/-- Concrete syntax tree.  `app` is the curried encoding of `Expr::App { func, args }` (the real
    `func` is atomic, so `app (app f a) b` ↔ `App f [a, b]` is a bijection); `paren l b r` is
    `Expr::Tuple` with one element, or with `b = comma …` (right-nested) the n-tuple. -/
inductive C where
  | ident (n : String) (sp : Span)
  | int (n : Nat) (sp : Span)
  | str (s : String) (sp : Span)
  | unit (l r : Span)
  | paren (l : Span) (body : C) (r : Span)
  | comma (a : C) (c : Span) (b : C)
  | app (f a : C)
  | binop (l : C) (o : String) (os : Span) (r : C)
  | lam (bs : Span) (args : List Arg) (ar : Span) (body : C)
  | ite (i : Span) (c : C) (t : Span) (a : C) (e : Span) (b : C)
  | letIn (l : Span) (x : Arg) (args : List Arg) (q : Span) (rhs : C) (n : Span) (body : C)
  deriving DecidableEq, Repr, Inhabited

def isIte : C → Bool
  | .ite .. => true
  | _ => false

def argToks : List Arg → List Tok
  | [] => []
  | (x, sp) :: r => ⟨.ident x, sp⟩ :: argToks r

def dummy : Span := ⟨0, 0⟩

/-- The token stream the LALRPOP parser receives for the explicit one-line style (block tokens
    carry a dummy span: the grammar never looks at it once singleton blocks are flattened). -/
def toks : C → List Tok
  | .ident n sp => [⟨.ident n, sp⟩]
  | .int n sp => [⟨.int n, sp⟩]
  | .str s sp => [⟨.str s, sp⟩]
  | .unit l r => [⟨.lp, l⟩, ⟨.rp, r⟩]
  | .paren l b r => ⟨.lp, l⟩ :: (toks b ++ [⟨.rp, r⟩])
  | .comma a c b => toks a ++ ⟨.comma, c⟩ :: toks b
  | .app f a => toks f ++ toks a
  | .binop l o os r => toks l ++ ⟨.op o, os⟩ :: toks r
  | .lam bs args ar body =>
    ⟨.lam, bs⟩ :: (argToks args ++ ⟨.arrow, ar⟩ :: ⟨.ob, dummy⟩ :: (toks body ++ [⟨.cb, dummy⟩]))
  | .ite i c t a e b =>
    ⟨.kIf, i⟩ :: (toks c ++ ⟨.kThen, t⟩ :: ⟨.ob, dummy⟩ :: (toks a ++ ⟨.cb, dummy⟩ :: ⟨.kElse, e⟩ ::
      (if isIte b then toks b else ⟨.ob, dummy⟩ :: (toks b ++ [⟨.cb, dummy⟩]))))
  | .letIn l x args q rhs n body =>
    ⟨.kLet, l⟩ :: ⟨.ident x.1, x.2⟩ :: (argToks args ++ ⟨.eq, q⟩ :: ⟨.ob, dummy⟩ ::
      (toks rhs ++ ⟨.cb, dummy⟩ :: ⟨.kIn, n⟩ :: ⟨.ob, dummy⟩ :: (toks body ++ [⟨.cb, dummy⟩])))

/-- `TopExpr`: the layout pass wraps the whole input in one block. -/
def toksTop (c : C) : List Tok := ⟨.ob, dummy⟩ :: (toks c ++ [⟨.cb, dummy⟩])

/-- Span of a node as the real parser reports it (`Sp<…>` + `shrink_hidden_spans`). -/
def span : C → Span
  | .ident _ sp => sp
  | .int _ sp => sp
  | .str _ sp => sp
  | .unit l r => ⟨l.s, r.e⟩
  | .paren l _ r => ⟨l.s, r.e⟩
  | .comma a _ b => ⟨(span a).s, (span b).e⟩        -- (no node of its own in the real tree)
  | .app f a => ⟨(span f).s, (span a).e⟩
  | .binop l _ _ r => ⟨(span l).s, (span r).e⟩
  | .lam bs _ _ body => ⟨bs.s, (span body).e⟩
  | .ite i _ _ _ _ b => ⟨i.s, (span b).e⟩
  | .letIn l _ _ _ _ _ body => ⟨l.s, (span body).e⟩

/-! ### The parser -/

/-- `Many<ValueArgument>` / `Many1<LambdaArgument>`: the identifiers in front. -/
def takeArgs : List Tok → List Arg × List Tok
  | ⟨.ident x, sp⟩ :: r => ((x, sp) :: (takeArgs r).1, (takeArgs r).2)
  | ts => ([], ts)

/-- Can an `AtomicExpr` start with this token? -/
def startsAtomic : List Tok → Bool
  | ⟨.ident _, _⟩ :: _ => true
  | ⟨.int _, _⟩ :: _ => true
  | ⟨.str _, _⟩ :: _ => true
  | ⟨.lp, _⟩ :: _ => true
  | _ => false

mutual
/-- `AtomicExpr` -/
def pAtomic : Nat → List Tok → Option (C × List Tok)
  | 0, _ => none
  | _ + 1, ⟨.ident n, sp⟩ :: r => some (.ident n sp, r)
  | _ + 1, ⟨.int n, sp⟩ :: r => some (.int n sp, r)
  | _ + 1, ⟨.str s, sp⟩ :: r => some (.str s sp, r)
  | _ + 1, ⟨.lp, l⟩ :: ⟨.rp, rr⟩ :: r => some (.unit l rr, r)
  | f + 1, ⟨.lp, l⟩ :: r =>
    match pBody f r with
    | some (b, ⟨.rp, rr⟩ :: r') => some (.paren l b rr, r')
    | _ => none
  | _ + 1, _ => none
/-- `CommaSlice<SpExpr>` (non-empty) -/
def pBody : Nat → List Tok → Option (C × List Tok)
  | 0, _ => none
  | f + 1, ts =>
    match pExpr f ts with
    | some (a, ⟨.comma, c⟩ :: r) =>
      match pBody f r with
      | some (b, r') => some (.comma a c b, r')
      | none => none
    | res => res
/-- `Many1<SpAtomicExpr>` after the function, folded into the curried encoding -/
def pArgs : Nat → C → List Tok → Option (C × List Tok)
  | 0, _, _ => none
  | f + 1, acc, ts =>
    if startsAtomic ts then
      match pAtomic f ts with
      | some (a, r) => pArgs f (.app acc a) r
      | none => none
    else some (acc, ts)
/-- `AppExpr` -/
def pApp : Nat → List Tok → Option (C × List Tok)
  | 0, _ => none
  | f + 1, ts =>
    match pAtomic f ts with
    | some (a, r) => pArgs f a r
    | none => none
/-- `InfixExpr` -/
def pInfix : Nat → List Tok → Option (C × List Tok)
  | 0, _ => none
  | f + 1, ⟨.lam, bs⟩ :: r =>
    match takeArgs r with
    | (a :: as, ⟨.arrow, ar⟩ :: r2) =>
      match pExpr f r2 with
      | some (b, r3) => some (.lam bs (a :: as) ar b, r3)
      | none => none
    | _ => none
  | f + 1, ts =>
    match pApp f ts with
    | some (l, ⟨.op o, os⟩ :: r) =>
      match pInfix f r with
      | some (rhs, r') => some (.binop l o os rhs, r')
      | none => none
    | res => res
/-- `Expr` (with `SpExpr`'s flattening of singleton blocks) -/
def pExpr : Nat → List Tok → Option (C × List Tok)
  | 0, _ => none
  | f + 1, ⟨.kIf, i⟩ :: r =>
    match pExpr f r with
    | some (c, ⟨.kThen, t⟩ :: r1) =>
      match pExpr f r1 with
      | some (a, ⟨.kElse, e⟩ :: r2) =>
        match pExpr f r2 with
        | some (b, r3) => some (.ite i c t a e b, r3)
        | none => none
      | _ => none
    | _ => none
  | f + 1, ⟨.kLet, l⟩ :: ⟨.ident x, xs⟩ :: r =>
    match takeArgs r with
    | (args, ⟨.eq, q⟩ :: r2) =>
      match pExpr f r2 with
      | some (rhs, ⟨.kIn, n⟩ :: r3) =>
        match pExpr f r3 with
        | some (body, r4) => some (.letIn l (x, xs) args q rhs n body, r4)
        | none => none
      | _ => none
    | _ => none
  | f + 1, ⟨.ob, _⟩ :: r =>
    match pExpr f r with
    | some (e, ⟨.cb, _⟩ :: r') => some (e, r')
    | _ => none
  | f + 1, ts => pInfix f ts
end

/-- `TopExpr`: one expression, then end of input. -/
def parseTop (fuel : Nat) (ts : List Tok) : Option C :=
  match pExpr fuel ts with
  | some (c, []) => some c
  | _ => none

/-! ### Which trees the explicit one-line style can print -/

/-- Grammar level of the root: 0 atomic, 1 application, 2 infix/lambda, 3 if/let, 4 comma list. -/
def lvl : C → Nat
  | .ident .. | .int .. | .str .. | .unit .. | .paren .. => 0
  | .app .. => 1
  | .binop .. | .lam .. => 2
  | .ite .. | .letIn .. => 3
  | .comma .. => 4

/-- The printed form ends with a real token (no hidden block is still open at its end): needed
    where the following token (`then`) does not close blocks. -/
def closedEnd : C → Bool
  | .ident .. | .int .. | .str .. | .unit .. | .paren .. | .app .. => true
  | .binop _ _ _ r => closedEnd r
  | _ => false

/-- Legal trees: every sub-expression sits at a position the grammar allows for its level —
    anything else needs (and may always get: `paren` is level 0) parentheses. -/
def Legal : C → Prop
  | .ident .. | .int .. | .str .. | .unit .. => True
  | .paren _ b _ => Legal b
  | .comma a _ b => Legal a ∧ Legal b ∧ lvl a ≤ 3
  | .app f a => Legal f ∧ Legal a ∧ lvl f ≤ 1 ∧ lvl a = 0
  | .binop l _ _ r => Legal l ∧ Legal r ∧ lvl l ≤ 1 ∧ lvl r ≤ 2
  | .lam _ args _ body => Legal body ∧ args ≠ [] ∧ lvl body ≤ 3
  | .ite _ c _ a _ b =>
    Legal c ∧ Legal a ∧ Legal b ∧ lvl c ≤ 3 ∧ lvl a ≤ 3 ∧ lvl b ≤ 3 ∧ closedEnd c = true
  | .letIn _ _ _ _ rhs _ body => Legal rhs ∧ Legal body ∧ lvl rhs ≤ 3 ∧ lvl body ≤ 3

instance decLegal : (c : C) → Decidable (Legal c)
  | .ident .. | .int .. | .str .. | .unit .. => by unfold Legal; infer_instance
  | .paren _ b _ => by unfold Legal; exact decLegal b
  | .comma a _ b => by
    unfold Legal; have := decLegal a; have := decLegal b; infer_instance
  | .app f a => by
    unfold Legal; have := decLegal f; have := decLegal a; infer_instance
  | .binop l _ _ r => by
    unfold Legal; have := decLegal l; have := decLegal r; infer_instance
  | .lam _ _ _ body => by
    unfold Legal; have := decLegal body; infer_instance
  | .ite _ c _ a _ b => by
    unfold Legal; have := decLegal c; have := decLegal a; have := decLegal b; infer_instance
  | .letIn _ _ _ _ rhs _ body => by
    unfold Legal; have := decLegal rhs; have := decLegal body; infer_instance

/-- Number of nodes: the fuel `parse` needs is linear in it. -/
def size : C → Nat
  | .ident .. | .int .. | .str .. | .unit .. => 1
  | .paren _ b _ => size b + 1
  | .comma a _ b => size a + size b + 1
  | .app f a => size f + size a + 1
  | .binop l _ _ r => size l + size r + 1
  | .lam _ _ _ body => size body + 1
  | .ite _ c _ a _ b => size c + size a + size b + 1
  | .letIn _ _ _ _ rhs _ body => size rhs + size body + 1

/-- Fuel that always suffices for a printed tree (theorem `parse_print`). -/
def fuelFor (c : C) : Nat := 10 * size c + 6

/-! ### The abstract tree and redundant parentheses -/

/-- Abstract syntax: no spans, no parentheses (a `paren` around a comma list is a real tuple and
    stays). -/
inductive E where
  | ident (n : String)
  | int (n : Nat)
  | str (s : String)
  | unit
  | tuple (body : E)            -- body = right-nested `comma`
  | comma (a b : E)
  | app (f a : E)
  | binop (l : E) (o : String) (r : E)
  | lam (args : List String) (body : E)
  | ite (c a b : E)
  | letIn (x : String) (args : List String) (rhs body : E)
  deriving DecidableEq, Repr, Inhabited

def isComma : C → Bool
  | .comma .. => true
  | _ => false

/-- Forget spans and redundant parentheses. -/
def erase : C → E
  | .ident n _ => .ident n
  | .int n _ => .int n
  | .str s _ => .str s
  | .unit _ _ => .unit
  | .paren _ b _ => if isComma b then .tuple (erase b) else erase b
  | .comma a _ b => .comma (erase a) (erase b)
  | .app f a => .app (erase f) (erase a)
  | .binop l o _ r => .binop (erase l) o (erase r)
  | .lam _ args _ body => .lam (args.map (·.1)) (erase body)
  | .ite _ c _ a _ b => .ite (erase c) (erase a) (erase b)
  | .letIn _ x args _ rhs _ body => .letIn x.1 (args.map (·.1)) (erase rhs) (erase body)

/-! ### Real tokens and their extent (for `spans_delimit`) -/

def isReal (t : Tok) : Bool :=
  match t.t with
  | .ob | .cb => false
  | _ => true

def realToks (c : C) : List Tok := (toks c).filter isReal

def firstReal : List Tok → Option Tok
  | [] => none
  | t :: r => if isReal t then some t else firstReal r

def lastReal : List Tok → Option Tok
  | [] => none
  | t :: r =>
    match lastReal r with
    | some x => some x
    | none => if isReal t then some t else none

/-- Extent of a token list: start of its first real token, end of its last real token. -/
def extent (ts : List Tok) : Option Span :=
  match firstReal ts, lastReal ts with
  | some a, some b => some ⟨a.sp.s, b.sp.e⟩
  | _, _ => none

/-! ### The tie to C09's layout model (`LayoutAlgo`, read-only import) -/

def kindOf : T → LayoutAlgo.Kind
  | .kLet => .let_ | .kIn => .in_ | .kIf => .if_ | .kThen => .then_ | .kElse => .else_
  | .lam => .lambda | .arrow => .rarrow | .eq => .equals | .lp => .lparen | .rp => .rparen
  | .comma => .comma | .ob => .openBlock | .cb => .closeBlock
  | _ => .other

/-- real tokens on ONE line: column = absolute position = span start -/
def toLayout (ts : List Tok) : List LayoutAlgo.Tok :=
  ts.map fun t => ⟨kindOf t.t, ⟨1, t.sp.s, t.sp.s⟩, t.sp.e⟩

/-- The layout pass (C09's model) on the real tokens of `c` laid out on one line ending at
    `endPos`: the kinds it hands to the grammar and how it ended. -/
def layoutKinds (c : C) (endPos : Nat) : List LayoutAlgo.Kind × LayoutAlgo.Outcome :=
  let r := LayoutAlgo.layout (toLayout (realToks c)) ⟨.eof, ⟨1, endPos, endPos⟩, endPos⟩
    (4 * (realToks c).length + 16)
  (r.1.map (·.kind), r.2)

/-! ### Operator chains: the tie to `Infix.reparse`

An abstract operator tree `t` (grouped as the fixities dictate) over operands `arg i` is printed
without parentheses, i.e. as its in-order chain; the grammar delivers the chain right-nested
(`ofChain`), and `infix.rs` re-balances `flatten t` (model: `Infix.reparse`). -/
open GluonModel.Infix in
def ofChain (arg : Nat → C) (first : Nat) : List (Op × Nat) → C
  | [] => arg first
  | (o, a) :: rest => .binop (arg first) o.name dummy (ofChain arg a rest)

open GluonModel.Infix in
def ofTree (arg : Nat → C) : Tree → C
  | .leaf a => arg a
  | .node l o r => .binop (ofTree arg l) o.name dummy (ofTree arg r)

end GluonModel.ExprGrammar
