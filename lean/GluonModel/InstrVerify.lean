/-
From the real instruction set (`Generated.InstrEnum.Instr`, regenerated from vm/src/types.rs) to
what the load-time verifier specification `LoadVerify` looks at: the frame/control effect of C07's
`StackVerify` (transcribed from the interpreter loop vm/src/thread.rs `execute_`, 2157-2525) and the
table operand. With this, `LoadVerify.verified` runs on the instruction arrays of real compiled
modules (driver op `mod`).

`Split` pushes as many values as the split object has fields — a number the instruction does not
carry; the caller supplies it (the harness takes it from the compiler's core IR, as C07 does).
-/
import GluonModel.LoadVerify
import GluonModel.Generated.Instr
import GluonModel.Generated.InstrTable

namespace GluonModel.InstrVerify
open GluonModel.LoadVerify GluonModel.Generated GluonModel.Generated.InstrEnum

/-- One instruction; `k` = arity of the split object if the instruction is `Split`. -/
def toV (k : Nat) : InstrEnum.Instr → VInstr
  | .pushInt _ => ⟨.pushc, .none⟩
  | .pushByte _ => ⟨.pushc, .none⟩
  | .pushFloat _ => ⟨.pushc, .none⟩
  | .pushString i => ⟨.pushc, .string i⟩
  | .pushUpVar i => ⟨.pushc, .upvar i⟩
  | .push i => ⟨.push i, .none⟩
  | .call n => ⟨.call n, .none⟩
  | .tailCall n => ⟨.tailcall n, .none⟩
  | .constructVariant _ a => ⟨.construct a, .none⟩
  | .constructPolyVariant t a => ⟨.construct a, .string t⟩
  | .newVariant _ _ => ⟨.new, .none⟩
  | .newRecord r a => ⟨.new, .record r a⟩
  | .closeData _ => ⟨.closedata, .none⟩
  | .constructRecord r a => ⟨.construct a, .record r a⟩
  | .constructArray a => ⟨.construct a, .none⟩
  | .getOffset _ => ⟨.get, .none⟩
  | .getField i => ⟨.get, .string i⟩
  | .split => ⟨.split k, .none⟩
  | .testTag _ => ⟨.test, .none⟩
  | .testPolyTag i => ⟨.test, .string i⟩
  | .jump t => ⟨.jump t, .none⟩
  | .cJump t => ⟨.cjump t, .none⟩
  | .pop n => ⟨.pop n, .none⟩
  | .slide n => ⟨.slide n, .none⟩
  | .makeClosure j u => ⟨.makeclosure u, .closure j u⟩
  | .newClosure j u => ⟨.new, .closure j u⟩
  | .closeClosure n => ⟨.closeclosure n, .none⟩
  | .return_ => ⟨.ret, .none⟩
  -- the 18 arithmetic / comparison instructions, listed so that a new variant breaks the build
  | .addInt
  | .subtractInt
  | .multiplyInt
  | .divideInt
  | .intLT
  | .intEQ
  | .addByte
  | .subtractByte
  | .multiplyByte
  | .divideByte
  | .byteLT
  | .byteEQ
  | .addFloat
  | .subtractFloat
  | .multiplyFloat
  | .divideFloat
  | .floatLT
  | .floatEQ => ⟨.binop, .none⟩

/-- An instruction array; the `Split`s take their arities from `ks` in pc order. -/
def toVs : List InstrEnum.Instr → List Nat → List VInstr
  | [], _ => []
  | .split :: is, k :: ks => toV k .split :: toVs is ks
  | i :: is, ks => toV 0 i :: toVs is ks

def isSplit : InstrEnum.Instr → Bool
  | .split => true
  | _ => false

def isCloseData : InstrEnum.Instr → Bool
  | .closeData _ => true
  | _ => false

/-- A compiled function as it is found in the serialised module: header counts, the decoded
    instruction array, the split arities if known. -/
inductive MFn where
  | mk (args max : Nat) (code : List InstrEnum.Instr) (splits : Option (List Nat)) (strings : Nat)
      (records : List Nat) (upvars : Nat) (inner : List MFn)
  deriving Inhabited

mutual
def MFn.toVFn : MFn → VFn
  | .mk a m c sp s r u inner => .mk a m (toVs c (sp.getD [])) s r u (toVFns inner)
def toVFns : List MFn → List VFn
  | [] => []
  | g :: gs => g.toVFn :: toVFns gs
end

mutual
/-- The frame part can be judged: split arities are known for every `Split`, and there is no
    `CloseData` (its effect depends on a run-time value; `StackVerify` rejects it outright). -/
def MFn.frameSupported : MFn → Bool
  | .mk _ _ c sp _ _ _ inner =>
    (match sp with
      | some ks => ks.length == (c.filter isSplit).length
      | none => !c.any isSplit) &&
    !c.any isCloseData && frameSupportedL inner
def frameSupportedL : List MFn → Bool
  | [] => true
  | g :: gs => g.frameSupported && frameSupportedL gs
end

mutual
def MFn.count : MFn → Nat
  | .mk _ _ c _ _ _ _ inner => c.length + countL inner
def countL : List MFn → Nat
  | [] => 0
  | g :: gs => g.count + countL gs
end

/-- Instructions whose frame effect the compiler does NOT take from `Instruction::adjust` but patches
    by hand while emitting (vm/src/compiler.rs: `Split` adds the number of bound fields, `MakeClosure` /
    `CloseClosure(n)` account for the `n` upvars pushed before): for these `adjust` and the interpreter
    disagree by design. -/
def handPatched : InstrEnum.Instr → Bool
  | .split => true
  | .makeClosure _ _ => true
  | .closeClosure _ => true
  | _ => false

/-- `Instruction::adjust` of one instruction (C01b's generated table). -/
def adjustOf (i : InstrEnum.Instr) : Int := adjustGen i.kind i.intOps

/-- `Instruction::adjust` (the generated table of C01b) summed over an instruction array. -/
def adjustSum (is : List InstrEnum.Instr) : Int :=
  is.foldl (fun acc i => acc + adjustGen i.kind i.intOps) 0

mutual
def MFn.adjust : MFn → Int
  | .mk _ _ c _ _ _ _ inner => adjustSum c + adjustL inner
def adjustL : List MFn → Int
  | [] => 0
  | g :: gs => g.adjust + adjustL gs
end

/-- The verdict of the specification on a module as emitted / as loaded. -/
def verdict (m : MFn) : String :=
  if m.frameSupported then (if verified m.toVFn then "accept" else "reject")
  else (if operandsOkDeep m.toVFn then "operands-accept" else "operands-reject")

end GluonModel.InstrVerify
