/-
Reading core IR / values from the line protocol and printing outcomes canonically (driver-side
glue for C01b; not part of any theorem).
-/
import GluonModel.Sexp
import GluonModel.Core
namespace GluonModel.Core
open GluonModel

/-- `"name~k"` → symbol -/
def parseSymStr (s : String) : Sym :=
  let cs := s.toList
  let rev := cs.reverse
  let digits := rev.takeWhile Char.isDigit
  match rev.drop digits.length with
  | '~' :: restRev =>
    { name := String.ofList restRev.reverse, id := (String.ofList digits.reverse).toNat?.getD 0 }
  | _ => { name := s, id := 0 }

def renderSym (s : Sym) : String := Sexp.quote (s.name ++ "~" ++ toString s.id)

def parseSym : Sexp → Option Sym
  | .str s => some (parseSymStr s)
  | _ => none

def parseLit : Sexp → Option Lit
  | .list [.atom "ci", n] => n.toInt?.map .int
  | .list [.atom "cb", n] => n.toNat?.map .byte
  | .list [.atom "cf", n] => n.toNat?.map .float
  | .list [.atom "cs", .str s] => some (.str s)
  | .list [.atom "cc", n] => n.toNat?.map .char
  | _ => none

def parseTag : Sexp → Option (Option Nat)
  | .list [.atom "tag", n] => n.toNat?.map some
  | .list [.atom "poly", _] => some none
  | .atom "none" => some none
  | _ => none

def parseKind : Sexp → Option DataKind
  | .list (.atom "rec" :: fs) => (fs.mapM parseSym).map .record
  | .atom "arr" => some .array
  | .list [.atom "var", t] => (parseTag t).map .variant
  | _ => none

def parseOptSym : Sexp → Option (Option Sym)
  | .atom "none" => some none
  | s => (parseSym s).map some

def parsePat : Sexp → Option Pat
  | .list [.atom "pc", t, .list args] => do
    let t ← parseTag t
    let args ← args.mapM parseSym
    pure (.ctor t args)
  | .list [.atom "pr", n, poly, .list fs, .list byType] => do
    let n ← n.toNat?
    let poly ← poly.toNat?
    let fs ← fs.mapM fun
      | .list [.str f, i, b] => do
        let b ← parseSym b
        let i ← match i with
          | .atom "none" => some none
          | i => i.toNat?.map some
        pure ({ field := f, index := i, binder := b } : PatField)
      | _ => none
    let byType ← byType.mapM parseOptSym
    pure (.record n (poly != 0) fs byType)
  | .list [.atom "pi", x] => (parseSym x).map .ident
  | .list [.atom "pl", l] => (parseLit l).map .lit
  | _ => none

partial def parseExpr : Sexp → Option Expr
  | .list [.atom "id", x] => (parseSym x).map .ident
  | .list (.atom "call" :: f :: args) => do
    let f ← parseExpr f
    let args ← args.mapM parseExpr
    pure (.call f args)
  | .list (.atom "data" :: k :: args) => do
    let k ← parseKind k
    let args ← args.mapM parseExpr
    pure (.data k args)
  | .list [.atom "let", x, e, b] => do
    let x ← parseSym x
    let e ← parseExpr e
    let b ← parseExpr b
    pure (.letE x e b)
  | .list [.atom "letrec", .list cs, b] => do
    let cs ← cs.mapM fun
      | .list [f, .list xs, e] => do
        let f ← parseSym f
        let xs ← xs.mapM parseSym
        let e ← parseExpr e
        pure (f, xs, e)
      | _ => none
    let b ← parseExpr b
    pure (.letRec cs b)
  | .list (.atom "match" :: s :: alts) => do
    let s ← parseExpr s
    let alts ← alts.mapM fun
      | .list [p, e] => do
        let p ← parsePat p
        let e ← parseExpr e
        pure (p, e)
      | _ => none
    pure (.match_ s alts)
  | .list [.atom "cast", e] => (parseExpr e).map .cast
  | l => (parseLit l).map .const

/-- model value of a global, as sent by the harness -/
partial def parseVal : Sexp → Option Val
  | .list [.atom "int", n] => n.toInt?.map .int
  | .list [.atom "byte", n] => n.toNat?.map .byte
  | .list [.atom "float", n] => n.toNat?.map .float
  | .list [.atom "str", .str s] => some (.str s)
  | .list (.atom "rec" :: .list names :: vs) => do
    let names ← names.mapM Sexp.str?
    let vs ← vs.mapM parseVal
    pure (.data 0 vs (if vs.isEmpty then [] else names))
  | .list (.atom "data" :: t :: vs) => do
    let t ← t.toNat?
    let vs ← vs.mapM parseVal
    pure (.data t vs [])
  | .list [.atom "ext", .str n, a] => a.toNat?.map (.ext n)
  | .list [.atom "unknown"] => some (.ext "unknown" 0)
  | _ => none

def parseGlobals : Sexp → Option Env
  | .list gs => gs.mapM fun
    | .list [x, v] => do
      let x ← parseSym x
      let v ← parseVal v
      pure (x, v)
    | _ => none
  | _ => none

partial def renderVal : Val → String
  | .int n => s!"(int {n})"
  | .byte n => s!"(byte {n})"
  | .float n => s!"(float {n})"
  | .str s => "(str " ++ Sexp.quote s ++ ")"
  | .data t vs _ => "(data " ++ toString t ++ String.join (vs.map fun v => " " ++ renderVal v) ++ ")"
  | .arr vs => "(arr" ++ String.join (vs.map fun v => " " ++ renderVal v) ++ ")"
  | _ => "(fn)"

/-- harness/src/surf.rs `classify_error`: the message decides the class -/
def renderErr : Err → String
  | .arith => "err:arith"
  | .user m =>
    let first := (m.splitOn "\n").headD ""
    if (m.splitOn "Arithmetic overflow").length > 1 then "err:arith"
    else if (m.splitOn "Unmatched pattern").length > 1 then "err:unmatched"
    else "err:user " ++ Sexp.quote first
  | .fuel => "fuel"
  | .wrong w => "wrong:" ++ w

def renderRes : Res → String
  | .ok v => "(ok " ++ renderVal v ++ ")"
  | .error e => renderErr e

end GluonModel.Core
