/-
Reading / printing bytecode on the line protocol (driver-side glue for C01b; not part of any
theorem). The printer produces exactly the text of harness/src/bin/c01b.rs `module_sexp`.
-/
import GluonModel.Sexp
import GluonModel.Core
import GluonModel.CoreParse
import GluonModel.Bytecode
namespace GluonModel.Bytecode
open GluonModel GluonModel.Core

def renderInstr (i : Instr) : String :=
  "(" ++ i.name ++ String.join (i.operands.map fun n => " " ++ toString n) ++ ")"

def nullary : List (String × Instr) :=
  [.split, .addInt, .subtractInt, .multiplyInt, .divideInt, .intLT, .intEQ, .addByte,
   .subtractByte, .multiplyByte, .divideByte, .byteLT, .byteEQ, .addFloat, .subtractFloat,
   .multiplyFloat, .divideFloat, .floatLT, .floatEQ, .ret].map fun i => (i.name, i)

def parseInstr : Sexp → Option Instr
  | .list [.atom n] => nullary.lookup n
  | .list [.atom "PushInt", a] => a.toInt?.map .pushInt
  | .list [.atom n, a] => do
    let a ← a.toNat?
    match n with
    | "PushByte" => some (.pushByte a) | "PushFloat" => some (.pushFloat a)
    | "PushString" => some (.pushString a) | "PushUpVar" => some (.pushUpVar a)
    | "Push" => some (.push a) | "Call" => some (.call a) | "TailCall" => some (.tailCall a)
    | "CloseData" => some (.closeData a) | "ConstructArray" => some (.constructArray a)
    | "GetOffset" => some (.getOffset a) | "GetField" => some (.getField a)
    | "TestTag" => some (.testTag a) | "TestPolyTag" => some (.testPolyTag a)
    | "Jump" => some (.jump a) | "CJump" => some (.cJump a) | "Pop" => some (.pop a)
    | "Slide" => some (.slide a) | "CloseClosure" => some (.closeClosure a)
    | _ => none
  | .list [.atom n, a, b] => do
    let a ← a.toNat?
    let b ← b.toNat?
    match n with
    | "ConstructVariant" => some (.constructVariant a b)
    | "ConstructPolyVariant" => some (.constructPolyVariant a b)
    | "NewVariant" => some (.newVariant a b) | "NewRecord" => some (.newRecord a b)
    | "ConstructRecord" => some (.constructRecord a b)
    | "MakeClosure" => some (.makeClosure a b) | "NewClosure" => some (.newClosure a b)
    | _ => none
  | _ => none

partial def parseFn : Sexp → Option Fn
  | .list [.atom "fn", args, .list instrs, .list strings, .list records, .list inner] => do
    let args ← args.toNat?
    let instrs ← instrs.mapM parseInstr
    let strings ← strings.mapM Sexp.str?
    let records ← records.mapM fun
      | .list fs => fs.mapM parseSym
      | _ => none
    let inner ← inner.mapM parseFn
    pure { args, instrs, strings, records, inner }
  | _ => none

def parseModule : Sexp → Option (List Sym × Fn)
  | .list [.atom "module", .list gs, f] => do
    let gs ← gs.mapM parseSym
    let f ← parseFn f
    pure (gs, f)
  | _ => none

partial def renderFn (f : Fn) : String :=
  "(fn " ++ toString f.args ++ " (" ++ " ".intercalate (f.instrs.map renderInstr) ++ ") ("
    ++ " ".intercalate (f.strings.map Sexp.quote) ++ ") ("
    ++ String.join (f.records.map fun r => "(" ++ " ".intercalate (r.map renderSym) ++ ")")
    ++ ") (" ++ String.join (f.inner.map renderFn) ++ "))"

def renderModule (gs : List Sym) (f : Fn) : String :=
  "(module (" ++ " ".intercalate (gs.map renderSym) ++ ") " ++ renderFn f ++ ")"

/-- render a result of the machine: data behind a heap reference is followed (bounded) -/
partial def renderValH (h : Heap) (depth : Nat) : Val → String
  | .dref id =>
    if depth = 0 then "(deep)" else
    match h.data[id]? with
    | some (t, fs, _) =>
      "(data " ++ toString t ++ String.join (fs.map fun v => " " ++ renderValH h (depth - 1) v) ++ ")"
    | none => "(dangling)"
  | .data t vs _ =>
    "(data " ++ toString t ++ String.join (vs.map fun v => " " ++ renderValH h depth v) ++ ")"
  | .arr vs => "(arr" ++ String.join (vs.map fun v => " " ++ renderValH h depth v) ++ ")"
  | v => renderVal v

def renderRun : Except Err (Val × Heap) → String
  | .ok (v, h) => "(ok " ++ renderValH h 200 v ++ ")"
  | .error e => renderErr e

end GluonModel.Bytecode
