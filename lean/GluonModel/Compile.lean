/-
`Compile`: mirror of the bytecode compiler vm/src/compiler.rs (`compile` :631, `compile_` :652,
`compile_primitive` :967, `compile_let_pattern` :1035, `compile_lambda` :1116, `FunctionEnv`
:188 with `emit` :287).

The real compiler pushes instructions onto a vector and patches jump targets afterwards; here
every function returns the list of instructions it emits, given the index `b` the first of them
will have, so targets are computed directly (they are the same absolute indices). The rest of
`FunctionEnv` (`stack` scoped map, `stack_size`, `free_vars`, `strings`, `records`,
`inner_functions`) is threaded as `FState`. The harness compares the result with the real
instruction lists, function by function.

Not modelled (the harness does not send such programs to `compile`): recursive *values*
(`NewRecord`/`CloseData` patching :710-749), polymorphic variants, `#…` operators that are not
instructions. The model yields `unsupported` for them.
-/
import GluonModel.Core
import GluonModel.Bytecode
namespace GluonModel.Compile
open GluonModel.Core GluonModel.Bytecode

/-- compiler.rs:188 `FunctionEnv` (without the instruction vector and debug info).
    `scopes`: innermost scope first, inside a scope the most recent variable first
    (base/src/scoped_map.rs). -/
structure FState where
  scopes : List (List (Sym × Nat))
  stackSize : Nat
  freeVars : List Sym
  strings : List String
  records : List (List Sym)
  inner : List Fn
  unsupported : Option String := none
  deriving Inhabited

def FState.empty : FState :=
  { scopes := [], stackSize := 0, freeVars := [], strings := [], records := [], inner := [] }

/-- `compiler.empty_symbol` :455 (never looked up) -/
def dummySym : Sym := { name := "", id := 0 }

/-- the stack-size bookkeeping of `emit` :287 (`Slide(0)` is not emitted at all) -/
def adjustSize (i : Instr) (n : Nat) : Nat :=
  if i.adjust > 0 then n + i.adjust.toNat else n - (-i.adjust).toNat

def FState.emit (st : FState) (i : Instr) : FState :=
  { st with stackSize := adjustSize i st.stackSize }

def FState.emits (st : FState) (is : List Instr) : FState := is.foldl FState.emit st

def slideCode (n : Nat) : List Instr := if n = 0 then [] else [.slide n]

def FState.enterScope (st : FState) : FState := { st with scopes := [] :: st.scopes }

/-- `exit_scope` :399: the number of variables of the innermost scope -/
def FState.exitScope (st : FState) : Nat × FState :=
  match st.scopes with
  | [] => (0, st)
  | s :: rest => (s.length, { st with scopes := rest })

/-- `new_stack_var` :385: the variable lives in the topmost slot -/
def FState.newStackVar (st : FState) (x : Sym) : FState :=
  match st.scopes with
  | [] => { st with scopes := [[(x, st.stackSize - 1)]] }
  | s :: rest => { st with scopes := ((x, st.stackSize - 1) :: s) :: rest }

/-- `push_stack_var` :380 -/
def FState.pushStackVar (st : FState) (x : Sym) : FState :=
  ({ st with stackSize := st.stackSize + 1 }).newStackVar x

def lookupScope (s : List (Sym × Nat)) (x : Sym) : Option Nat :=
  match s with
  | [] => none
  | (y, i) :: rest => if x = y then some i else lookupScope rest x

def lookupScopes (ss : List (List (Sym × Nat))) (x : Sym) : Option Nat :=
  match ss with
  | [] => none
  | s :: rest => match lookupScope s x with
    | some i => some i
    | none => lookupScopes rest x

def indexOfSym (l : List Sym) (x : Sym) : Option Nat :=
  match l with
  | [] => none
  | y :: rest => if x = y then some 0 else (indexOfSym rest x).map (· + 1)

/-- `upvar` :366 -/
def FState.upvar (st : FState) (x : Sym) : Nat × FState :=
  match indexOfSym st.freeVars x with
  | some i => (i, st)
  | none => (st.freeVars.length, { st with freeVars := st.freeVars ++ [x] })

/-- `load_identifier` :603 with `find` :509. After core translation an identifier is never a
    constructor (core/mod.rs:974), so whatever is not on this function's stack is an upvalue
    (a variable of an enclosing function or a global). -/
def loadIdent (x : Sym) (st : FState) : List Instr × FState :=
  match lookupScopes st.scopes x with
  | some i => ([.push i], st.emit (.push i))
  | none =>
    let (k, st₁) := st.upvar x
    ([.pushUpVar k], st₁.emit (.pushUpVar k))

def indexOfStr (l : List String) (x : String) : Option Nat :=
  match l with
  | [] => none
  | y :: rest => if x = y then some 0 else (indexOfStr rest x).map (· + 1)

/-- `add_string_constant` :351 -/
def FState.addString (st : FState) (s : String) : Nat × FState :=
  match indexOfStr st.strings s with
  | some i => (i, st)
  | none => (st.strings.length, { st with strings := st.strings ++ [s] })

def indexOfRec (l : List (List Sym)) (x : List Sym) : Option Nat :=
  match l with
  | [] => none
  | y :: rest => if x = y then some 0 else (indexOfRec rest x).map (· + 1)

/-- `add_record_map` :341 -/
def FState.addRecord (st : FState) (r : List Sym) : Nat × FState :=
  match indexOfRec st.records r with
  | some i => (i, st)
  | none => (st.records.length, { st with records := st.records ++ [r] })

def compileLit (l : Lit) (st : FState) : List Instr × FState :=
  match l with
  | .int n => ([.pushInt n], st.emit (.pushInt n))
  | .byte n => ([.pushByte n], st.emit (.pushByte n))
  | .float b => ([.pushFloat b], st.emit (.pushFloat b))
  | .char c => ([.pushInt c], st.emit (.pushInt c))
  | .str s =>
    let (k, st₁) := st.addString s
    ([.pushString k], st₁.emit (.pushString k))

/-- leave the scope entered by `compile` :639 and emit the `Slide` :647-648 -/
def finishScope (r : List Instr × FState) : List Instr × FState :=
  let (count, st) := r.2.exitScope
  (r.1 ++ slideCode count, if count = 0 then st else st.emit (.slide count))

/-- what the first loop of the `Match` arm (:804-879) emits for one alternative; the jump that
    ends it gets its target later. `seIdx`: index of `string_eq` in the type of `std.prim`. -/
def testCode (seIdx : Nat) (p : Pat) (st : FState) : List Instr × FState :=
  match p with
  | .ctor (some t) _ => ([.testTag t, .cJump 0], (st.emit (.testTag t)).emit (.cJump 0))
  | .ctor none _ => ([], { st with unsupported := some "poly-variant" })
  | .record _ _ _ _ => ([], st)
  | .ident _ => ([.jump 0], st)
  | .lit l =>
    let lhs := st.stackSize - 1
    match l with
    | .byte b => ([.push lhs, .pushByte b, .byteEQ, .cJump 0], st)
    | .int n => ([.push lhs, .pushInt n, .intEQ, .cJump 0], st)
    | .char c => ([.push lhs, .pushInt c, .intEQ, .cJump 0], st)
    | .float f => ([.push lhs, .pushFloat f, .floatEQ, .cJump 0], st)
    | .str s =>
      -- :859-873: `std.prim.string_eq scrutinee "literal"`
      let (k, st₁) := st.upvar { name := "@std.prim", id := 0 }
      let (j, st₂) := st₁.addString s
      ([.pushUpVar k, .getOffset seIdx, .push lhs, .pushString j, .call 2, .cJump 0], st₂)

def patchLast (code : List Instr) (target : Nat) : List Instr :=
  match code.getLast? with
  | some (.cJump _) => code.dropLast ++ [.cJump target]
  | some (.jump _) => code.dropLast ++ [.jump target]
  | _ => code

def pushVars (xs : List Sym) (st : FState) : FState := xs.foldl FState.pushStackVar st

/-- the `GetOffset` path of `compile_let_pattern` :1076-1090 -/
def fieldLoads (poly : Bool) (recIdx : Nat) : List PatField → FState → List Instr × FState
  | [], st => ([], st)
  | f :: fs, st =>
    let st₁ := st.emit (.push recIdx)
    let (acc, st₂) : Instr × FState :=
      if poly then
        let (k, s) := st₁.addString f.field
        (.getField k, s)
      else (.getOffset (f.index.getD 0), st₁)
    let st₃ := (st₂.emit acc).newStackVar f.binder
    let (rest, st₄) := fieldLoads poly recIdx fs st₃
    (.push recIdx :: acc :: rest, st₄)

/-- what the second loop of the `Match` arm (:885-909) does before the alternative's body -/
def prologue (p : Pat) (st : FState) : List Instr × FState :=
  match p with
  | .ctor _ args => ([.split], pushVars args (st.emit .split))
  | .record nfields poly fields byType =>
    -- compile_let_pattern :1057
    if fields.length = 0 ∨ (nfields > 4 ∧ nfields / fields.length ≥ 4) ∨ poly then
      let st₁ := st.newStackVar dummySym
      fieldLoads poly (st₁.stackSize - 1) fields st₁
    else
      ([.split], pushVars (byType.map fun o => o.getD dummySym) (st.emit .split))
  | .ident x => ([], st.newStackVar x)
  | .lit _ => ([], st.newStackVar dummySym)

/-- after `compile_lambda` :1138-1153: load every free variable of the inner function in the
    enclosing one -/
def loadFree : List Sym → FState → List Instr × FState
  | [], st => ([], st)
  | x :: xs, st =>
    let (c, st₁) := loadIdent x st
    let (cs, st₂) := loadFree xs st₁
    (c ++ cs, st₂)

def mkFn (nargs : Nat) (code : List Instr) (st : FState) : Fn :=
  { args := nargs, instrs := code ++ [.ret], strings := st.strings, records := st.records,
    inner := st.inner }

def innerStart (params : List Sym) : FState :=
  pushVars params { FState.empty with scopes := [[]] }

/-- the tests of all alternatives, in order (state threaded as the real loop does) -/
def testsOf (seIdx : Nat) : List (Pat × Expr) → FState → List (List Instr) × FState
  | [], st => ([], st)
  | (p, _) :: alts, st =>
    let (t, s) := testCode seIdx p st
    let (ts, s') := testsOf seIdx alts s
    (t :: ts, s')

/-- index of the first instruction of every alternative's code: the code of alternative `i`
    is followed by its `Jump` to the end -/
def startsOf (b : Nat) : List (List Instr) → List Nat
  | [] => []
  | c :: cs => b :: startsOf (b + c.length + 1) cs

/-- index just after the last alternative (the target of every alternative's final `Jump`,
    patched at compiler.rs:916) -/
def endOf (b : Nat) : List (List Instr) → Nat
  | [] => b
  | c :: cs => endOf (b + c.length + 1) cs

/-- the tests with their jump targets filled in (compiler.rs:887, :899, :904) -/
def patchTests : List (List Instr) → List Nat → List Instr
  | t :: ts, s :: ss => patchLast t s ++ patchTests ts ss
  | _, _ => []

def joinBodies (endPc : Nat) : List (List Instr) → List Instr
  | [] => []
  | c :: cs => c ++ [.jump endPc] ++ joinBodies endPc cs

def testsLen : List (List Instr) → Nat
  | [] => 0
  | t :: ts => t.length + testsLen ts

mutual
/-- `compile_` :652, looping as `compile` :643 does on `Let` bodies and `Cast`.
    `tail`: tail position; `b`: index of the first instruction emitted. The *caller* enters and
    leaves the scope (`finishScope (compileBody e … st.enterScope)` is `compile`). -/
def compileBody (seIdx : Nat) : Expr → Bool → Nat → FState → List Instr × FState
  | .const l, _, _, st => compileLit l st
  | .ident x, _, _, st => loadIdent x st
  | .cast e, tail, b, st => compileBody seIdx e tail b st
  | .letE x e₁ body, tail, b, st =>
    let (c₁, st₁) := finishScope (compileBody seIdx e₁ false b st.enterScope)
    let (c₂, st₂) := compileBody seIdx body tail (b + c₁.length) (st₁.newStackVar x)
    (c₁ ++ c₂, st₂)
  | .letRec cs body, tail, b, st =>
    -- :680-768
    let stackStart := st.stackSize
    let st₁ := cs.foldl (fun s c => (s.emit (.newClosure 0 0)).newStackVar c.1) st
    let (hdrs, c₂, st₂) := compileClosures seIdx cs stackStart 0 (b + cs.length) st₁
    let (c₃, st₃) := compileBody seIdx body tail (b + cs.length + c₂.length) st₂
    (hdrs ++ c₂ ++ c₃, st₃)
  | .data k args, _, b, st =>
    let (c, st₁) := compileArgs seIdx args b st
    match k with
    | .record names =>
      let (idx, st₂) := st₁.addRecord names
      (c ++ [.constructRecord idx args.length], st₂.emit (.constructRecord idx args.length))
    | .array => (c ++ [.constructArray args.length], st₁.emit (.constructArray args.length))
    | .variant (some t) =>
      (c ++ [.constructVariant t args.length], st₁.emit (.constructVariant t args.length))
    | .variant none => (c, { st₁ with unsupported := some "poly-variant" })
  | .match_ s alts, tail, b, st =>
    let (c₀, st₀) := finishScope (compileBody seIdx s false b st.enterScope)
    -- first loop :804: tests
    let (tests, st₁) := testsOf seIdx alts st₀
    let b₁ := b + c₀.length + testsLen tests
    -- second loop :883: alternatives
    let (bodies, st₂) := compileAlts seIdx alts tail b₁ st₁
    let endPc := endOf b₁ bodies
    (c₀ ++ patchTests tests (startsOf b₁ bodies) ++ joinBodies endPc bodies, st₂)
  | .call f args, tail, b, st =>
    match headOf f args.length with
    | .and_ =>
      match args with
      | [lhs, rhs] =>
        -- compile_primitive :977
        let (c₁, st₁) := finishScope (compileBody seIdx lhs false b st.enterScope)
        let lhsEnd := b + c₁.length
        let st₂ := ((st₁.emit (.cJump 0)).emit (.constructVariant 0 0)).emit (.jump 0)
        let st₃ := { st₂ with stackSize := st₂.stackSize - 1 }
        let (c₂, st₄) := finishScope (compileBody seIdx rhs tail (lhsEnd + 3) st₃.enterScope)
        (c₁ ++ [.cJump (lhsEnd + 3), .constructVariant 0 0, .jump (lhsEnd + 3 + c₂.length)] ++ c₂,
         st₄)
      | _ => ([], { st with unsupported := some "primitive" })
    | .or_ =>
      match args with
      | [lhs, rhs] =>
        -- compile_primitive :990
        let (c₁, st₁) := finishScope (compileBody seIdx lhs false b st.enterScope)
        let lhsEnd := b + c₁.length
        let st₂ := st₁.emit (.cJump 0)
        let (c₂, st₃) := finishScope (compileBody seIdx rhs tail (lhsEnd + 1) st₂.enterScope)
        let t := lhsEnd + 1 + c₂.length + 1
        let st₄ := (st₃.emit (.jump 0)).emit (.constructVariant 1 0)
        (c₁ ++ [.cJump t] ++ c₂ ++ [.jump (t + 1), .constructVariant 1 0],
         { st₄ with stackSize := st₄.stackSize - 1 })
      | _ => ([], { st with unsupported := some "primitive" })
    | .prim op =>
      match args with
      | [lhs, rhs] =>
        let (c₁, st₁) := finishScope (compileBody seIdx lhs false b st.enterScope)
        let (c₂, st₂) := finishScope (compileBody seIdx rhs false (b + c₁.length) st₁.enterScope)
        (c₁ ++ c₂ ++ [PrimOp.instr op], st₂.emit (PrimOp.instr op))
      | _ => ([], { st with unsupported := some "primitive" })
    | .none =>
      -- :790-794
      let (c₁, st₁) := finishScope (compileBody seIdx f false b st.enterScope)
      let (c₂, st₂) := compileArgs seIdx args (b + c₁.length) st₁
      let i := if tail then Instr.tailCall args.length else Instr.call args.length
      (c₁ ++ c₂ ++ [i], st₂.emit i)
    | .otherPrim => ([], { st with unsupported := some "primitive" })

def compileArgs (seIdx : Nat) : List Expr → Nat → FState → List Instr × FState
  | [], _, st => ([], st)
  | e :: es, b, st =>
    let (c₁, st₁) := finishScope (compileBody seIdx e false b st.enterScope)
    let (c₂, st₂) := compileArgs seIdx es (b + c₁.length) st₁
    (c₁ ++ c₂, st₂)

/-- the code of every alternative, without its final `Jump` -/
def compileAlts (seIdx : Nat) : List (Pat × Expr) → Bool → Nat → FState →
    List (List Instr) × FState
  | [], _, _, st => ([], st)
  | (p, e) :: alts, tail, b, st =>
    let (c₁, st₁) := prologue p st.enterScope
    let (c₂, st₂) := finishScope (compileBody seIdx e tail (b + c₁.length) st₁.enterScope)
    -- :911-912: leave the pattern's scope
    let (c₃, st₃) := finishScope (([] : List Instr), st₂)
    let code := c₁ ++ c₂ ++ c₃
    let (rest, st₄) := compileAlts seIdx alts tail (b + code.length + 1) st₃
    (code :: rest, st₄)

/-- second loop of the `Recursive` arm :699-767. Returns the `NewClosure` headers (the
    instructions at `first_index + i`, patched :757), the code, the state. -/
def compileClosures (seIdx : Nat) : List (Sym × List Sym × Expr) → Nat → Nat → Nat → FState →
    List Instr × List Instr × FState
  | [], _, _, _, st => ([], [], st)
  | (_, params, body) :: cs, stackStart, i, b, st =>
    if params.isEmpty then ([], [], { st with unsupported := some "rec-value" }) else
    let st₁ := st.emit (.push (stackStart + i))
    -- compile_lambda :1116
    let (cb, sti) := finishScope (compileBody seIdx body true 0 (innerStart params).enterScope)
    let fn := mkFn params.length cb sti
    let (loads, st₂) := loadFree sti.freeVars st₁
    let fi := st₂.inner.length
    let nfree := sti.freeVars.length
    let st₃ := st₂.emit (.closeClosure nfree)
    let st₄ := { st₃ with stackSize := st₃.stackSize - nfree, inner := st₃.inner ++ [fn],
                          unsupported := st₃.unsupported <|> sti.unsupported }
    let code := .push (stackStart + i) :: loads ++ [.closeClosure nfree]
    let (hdrs, rest, st₅) := compileClosures seIdx cs stackStart (i + 1) (b + code.length) st₄
    (.newClosure fi nfree :: hdrs, code ++ rest, st₅)
end

/-- `compile` :631 -/
def compileE (seIdx : Nat) (e : Expr) (tail : Bool) (b : Nat) (st : FState) : List Instr × FState :=
  finishScope (compileBody seIdx e tail b st.enterScope)

/-- `compile_expr` :583: the module's function and the globals it refers to -/
def compileModule (seIdx : Nat) (e : Expr) : List Sym × Fn × Option String :=
  let (c, st) := compileE seIdx e true 0 FState.empty
  (st.freeVars, mkFn 0 c st, st.unsupported)

end GluonModel.Compile
