/-
Model of /repo/std/list.glu and of the list-like part of /repo/std/array.glu.
gluon's `List a = | Nil | Cons a (List a)` (std/list.glu:26-28) is Lean's `List`.
Arrays (`std.array.prim`, vm/src/primitives.rs:31-165) are modelled as Lean lists with an index.
-/
namespace GluonModel.StdList

variable {α β : Type}

/-- std/list.glu:41-49 `of`: walks the array from `len` down to 0, consing `index xs (i-1)`. -/
def ofGo (xs : List α) : Nat → List α → List α
  | 0, ys => ys
  | i + 1, ys =>
    match xs[i]? with
    | some x => ofGo xs i (x :: ys)
    | none => ys            -- `array.index` out of range: cannot happen for i < len
def ofArray (xs : List α) : List α := ofGo xs xs.length []

/-- std/list.glu:51-57 `semigroup.append`. -/
def append : List α → List α → List α
  | x :: zs, ys => x :: append zs ys
  | [], ys => ys

/-- std/list.glu:76-81 `functor.map`. -/
def map (f : α → β) : List α → List β
  | y :: ys => f y :: map f ys
  | [] => []

/-- std/list.glu:117-123 `monad.flat_map`. -/
def flatMap (f : α → List β) : List α → List β
  | x :: ys => append (f x) (flatMap f ys)
  | [] => []

/-- std/list.glu:141-151 `foldable.foldr` / `foldl`. -/
def foldr (f : α → β → β) (x : β) : List α → β
  | y :: ys => f y (foldr f x ys)
  | [] => x
def foldl (f : β → α → β) (x : β) : List α → β
  | y :: ys => foldl f (f x y) ys
  | [] => x

/-- std/list.glu:174-181 `filter`. -/
def filter (p : α → Bool) : List α → List α
  | [] => []
  | y :: ys =>
    let rest := filter p ys
    if p y then y :: rest else rest

/-- std/list.glu:183-197 `scan`: three-way partition, each part accumulated in REVERSE order. -/
def scan (c : α → Ordering) : List α → List α → List α → List α → List α × List α × List α
  | [], less, equal, greater => (less, equal, greater)
  | y :: ys, less, equal, greater =>
    match c y with
    | .lt => scan c ys (y :: less) equal greater
    | .eq => scan c ys less (y :: equal) greater
    | .gt => scan c ys less equal (y :: greater)

/-- std/list.glu:206-211 `sort`: a three-way quicksort on the head as pivot (NOT a merge sort, and not
    stable: the parts come back reversed from `scan`). The recursion is on the partitions, so the
    model carries fuel; `sort` supplies `length`, which always suffices (`sortFuel_fuel`). -/
def sortFuel (cmp : α → α → Ordering) : Nat → List α → List α
  | _, [] => []
  | 0, xs => xs
  | n + 1, pivot :: ys =>
    match scan (fun a => cmp a pivot) ys [] [pivot] [] with
    | (less, equal, greater) => append (sortFuel cmp n less) (append equal (sortFuel cmp n greater))
def sort (cmp : α → α → Ordering) (xs : List α) : List α := sortFuel cmp xs.length xs

/-- std/list.glu:59-69 `ord.compare` (`list_cmp`). -/
def listCmp (cmp : α → α → Ordering) : List α → List α → Ordering
  | [], [] => .eq
  | x :: xs, y :: ys =>
    match cmp x y with
    | .eq => listCmp cmp xs ys
    | o => o
  | _ :: _, [] => .gt
  | [], _ :: _ => .lt

/-- derived `Eq (List a)` (std/list.glu:25, vm/src/derive/eq.rs). -/
def listEq (eq : α → α → Bool) : List α → List α → Bool
  | [], [] => true
  | x :: xs, y :: ys => eq x y && listEq eq xs ys
  | _, _ => false

/-- std/list.glu:125-139 `show`. -/
def showElems (sh : α → String) : List α → String
  | y :: ys2 =>
    match ys2 with
    | _ :: _ => sh y ++ ", " ++ showElems sh ys2
    | [] => sh y
  | [] => ""
def showList (sh : α → String) (xs : List α) : String := "[" ++ showElems sh xs ++ "]"

/-! ### Arrays (vm/src/primitives.rs `array` + std/array.glu) -/

inductive Res (α : Type) where
  | ok (x : α)
  | err          -- `RuntimeResult::Panic`: a catchable gluon error
  deriving Repr, BEq, DecidableEq

/-- primitives.rs:39-47 `index`: `array.get(index as usize)`; a negative index wraps to a huge one. -/
def arrIndex (xs : List α) (i : Int) : Res α :=
  if i < 0 then .err else
  match xs[i.toNat]? with
  | some x => .ok x
  | none => .err

/-- primitives.rs:49-112 `slice`: error when `start > end` or `end > len` (as `usize`, so a negative
    argument is a huge one); otherwise `iter().skip(start).take(end - start)`. -/
def arrSlice (xs : List α) (s e : Int) : Res (List α) :=
  -- usize view of the two arguments: a negative one is larger than any length, so whichever of the
  -- two is negative, one of the two guards fires
  if s < 0 ∨ e < 0 then .err
  else if s > e then .err
  else if e.toNat > xs.length then .err
  else .ok ((xs.drop s.toNat).take (e.toNat - s.toNat))

/-- primitives.rs:114-164 `append`. -/
def arrAppend (xs ys : List α) : List α := xs ++ ys

/-- std/array.glu:85-93 `foldable.foldr`: index loop from `len` down. -/
def arrFoldrGo (f : α → β → β) (xs : List α) : Nat → β → β
  | 0, y => y
  | i + 1, y =>
    match xs[i]? with
    | some x => arrFoldrGo f xs i (f x y)
    | none => y
def arrFoldr (f : α → β → β) (y : β) (xs : List α) : β := arrFoldrGo f xs xs.length y

/-- std/array.glu:95-104 `foldable.foldl`: index loop `i < len`; `n` is the number of steps left. -/
def arrFoldlGo (f : β → α → β) (xs : List α) : Nat → Nat → β → β
  | 0, _, y => y
  | n + 1, i, y =>
    match xs[i]? with
    | some x => arrFoldlGo f xs n (i + 1) (f y x)
    | none => y
def arrFoldl (f : β → α → β) (y : β) (xs : List α) : β := arrFoldlGo f xs xs.length 0 y

/-- std/array.glu:64-72 `functor.map` (`cons (f y) (map_ (i+1))`). -/
def arrMapGo (f : α → β) (xs : List α) : Nat → Nat → List β
  | 0, _ => []
  | n + 1, i =>
    match xs[i]? with
    | some y => f y :: arrMapGo f xs n (i + 1)
    | none => []
def arrMap (f : α → β) (xs : List α) : List β := arrMapGo f xs xs.length 0

/-- std/array.glu:20-32 `eq`. -/
def arrEqGo (eq : α → α → Bool) (l r : List α) : Nat → Nat → Bool
  | 0, _ => true
  | n + 1, i =>
    match l[i]?, r[i]? with
    | some x, some y => eq x y && arrEqGo eq l r n (i + 1)
    | _, _ => true
def arrEq (eq : α → α → Bool) (l r : List α) : Bool :=
  if l.length ≠ r.length then false else arrEqGo eq l r l.length 0

/-- std/array.glu:34-47 `ord.compare`. -/
def arrCmpGo (cmp : α → α → Ordering) (lenCmp : Ordering) (l r : List α) : Nat → Nat → Ordering
  | 0, _ => lenCmp
  | n + 1, i =>
    match l[i]?, r[i]? with
    | some x, some y =>
      match cmp x y with
      | .eq => arrCmpGo cmp lenCmp l r n (i + 1)
      | o => o
    | _, _ => lenCmp
def arrCmp (cmp : α → α → Ordering) (l r : List α) : Ordering :=
  let lenCmp : Ordering := if l.length < r.length then .lt else if l.length = r.length then .eq else .gt
  arrCmpGo cmp lenCmp l r (min l.length r.length) 0

/-- std/array.glu:49-62 `show`. -/
def arrShowElems (sh : α → String) (xs : List α) : Nat → Nat → String
  | 0, _ => ""
  | n + 1, i =>
    match xs[i]? with
    | some x => ", " ++ sh x ++ arrShowElems sh xs n (i + 1)
    | none => ""
def arrShow (sh : α → String) (xs : List α) : String :=
  match xs with
  | [] => "[]"
  | x :: _ => "[" ++ sh x ++ arrShowElems sh xs (xs.length - 1) 1 ++ "]"

end GluonModel.StdList
