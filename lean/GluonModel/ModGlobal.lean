/-
`ModGlobal`: how the value of a source module becomes a global that importers see.

Mirrors /repo/src/query.rs:707 `global_inner` and /repo/src/compiler_pipeline.rs:1134 `run_io`:

  * the module is typechecked (`typechecked_source_module`) giving `typ`, compiled and its body is run
    (`call_thunk_top`) giving `value`                                          query.rs:721-747
  * `if db.compiler_settings().run_io { run_io(vm, v) } else { v }`            query.rs:749-760
  * `run_io`: `if check_signature(env, v.typ, IO a)` then the action is EXECUTED
    (`execute_io_top`) and the stored pair becomes (result, `a`); otherwise unchanged
                                                                              compiler_pipeline.rs:1146-1175
  * importers do not look at the stored `typ`: `import! m` is typed with `module_type(m)`, the type
    the checker gave the module's source (query.rs:676-703 `module_type`), i.e. still `IO a`.
-/
import GluonModel.SurfTy
namespace GluonModel.ModGlobal
open GluonModel.Surf GluonModel.SurfTy

/-- the type of a module as far as this layer cares: `IO a` or anything else -/
inductive MTy where
  | plain (t : STy)
  | io (a : STy)
  /-- `forall v. IO a` — an `IO` type under a quantifier (e.g. `wrap (\x -> 1) : forall a. IO (a -> Int)`) -/
  | ioForall (a : STy)
  deriving Repr, Inhabited

/-- the value a module body evaluates to: an ordinary value, or an `IO` action (which yields
    `result` when executed) -/
inductive MVal where
  | val (v : Val)
  | action (result : Val)
  deriving Inhabited

structure Global where
  typ : MTy
  value : MVal

def isIO : MTy → Bool
  | .io _ => true
  | .ioForall _ => true
  | .plain _ => false

/-- compiler_pipeline.rs:1134 `run_io`. `none` = the `ice!` of line 1163: `check_signature`
    (:1146) instantiates the quantifier and succeeds, the action is executed, and then
    `match **remove_aliases_cow(typ) { Type::App(_, arg) => arg[0], _ => ice!(…) }` (:1160-1164)
    meets the `Forall` node (defect D18). -/
def runIo (g : Global) : Option Global :=
  match g.typ, g.value with
  | .io a, .action r => some ⟨.plain a, .val r⟩
  | .ioForall _, _ => none
  | .io a, .val v => some ⟨.io a, .val v⟩   -- (not reachable for well-shaped globals)
  | .plain t, v => some ⟨.plain t, v⟩        -- `check_signature` fails: unchanged

/-- query.rs:707 `global_inner`: what is stored for the module -/
def globalInner (runIoSetting : Bool) (g : Global) : Option Global :=
  if runIoSetting then runIo g else some g

/-- query.rs `module_type`: what `import! m` is typed with — the checker's type of the source -/
def importerType (g : Global) : MTy := g.typ

/-- a module value has the shape of a module type -/
def ShapeM (D : Decls) : MVal → MTy → Prop
  | .val v, .plain t => HasShape D v t
  | .action r, .io a => HasShape D r a
  | .action r, .ioForall a => HasShape D r a
  | _, _ => False

/-- what the importer observes when it *uses* the global at the importer's type under the
    setting `runIoSetting` (a top-level expression of type `IO a` is executed by `run_expr` when
    `run_io` is on, compiler_pipeline.rs `Executable::run_expr` → `run_io`): executing something
    that is not an action is the VM's `Cannot call` -/
inductive Use where
  | ok
  | wrong
  deriving Repr, DecidableEq

def useImported (runIoSetting : Bool) (stored : Global) (importer : MTy) : Use :=
  match runIoSetting, importer, stored.value with
  | true, .io _, .val (.int _) => .wrong
  | true, .io _, .val (.str _) => .wrong
  | true, .io _, .val (.data _ _) => .wrong
  | true, .io _, .val (.arr _) => .wrong
  | true, .ioForall _, .val (.int _) => .wrong
  | true, .ioForall _, .val (.str _) => .wrong
  | true, .ioForall _, .val (.data _ _) => .wrong
  | true, .ioForall _, .val (.arr _) => .wrong
  | _, _, _ => .ok

end GluonModel.ModGlobal
