import GluonModel.Memo
/-
C15 model, part 2: the TEXT of the reported cycle ("Module 'X' occurs in a cyclic dependency:
`X -> … -> X`"), as the code computes it.

What is mirrored (gluon @ /repo, gluon-salsa 0.15.2):

* The sentence is built exactly once per detection, by `recover_cycle*` (src/query.rs:465-511) when
  `import(X)` finds its own slot `InProgress`: salsa's participant list (`get_cycle_path`,
  runtime.rs:841-894: the detected key, then the query stacks of the runtimes between the one that
  holds `import(X)` and the detector, then the key again) is filtered for `import(..)` frames and
  printed (src/import.rs:51-57).
* Every `import!` runs on a forked runtime whose stack is `[import(k), global_inner(k),
  typechecked_source_module(k)]` — BUT when `import(k)` still has a memo of an earlier revision, salsa
  first *validates* that memo (slot.rs:258-283, 1063-1125: `maybe_changed_since(global_inner(k))`,
  which re-executes `global_inner(k)` because of the untracked read) while `import(k)` is
  `InProgress` and NOT on the query stack. So a module `k ≠ X` of the cycle is printed iff
  `import(k)` has never completed before on this VM (`PCache.done`). This is why the path
  degenerates to `X -> X` after a reload (known finding).
* The error of an importer contains the text of the errors of all its failing imports
  (src/import.rs:552,596), so the sentences of a module = union of the sentences of its imports
  (memoised with the module for the rest of the revision).
-/
namespace GluonModel.Memo

abbrev Path := List Mod

structure PCache where
  /-- cycle sentences in the memoised answer (current revision) -/
  memo : List (Mod × List Path)
  /-- modules whose `import(k)` query has completed at least once on this VM (any revision) -/
  done : List Mod
  deriving Repr

def PCache.init : PCache := ⟨[], []⟩

/-- The printed path when `import(m)` is found in progress below the stack `stack` (outermost
    first; `m` occurs in it). -/
def cyclePath (done : List Mod) (stack : List Mod) (m : Mod) : Path :=
  m :: (((stack.dropWhile (· != m)).drop 1).filter (fun k => !done.contains k)) ++ [m]

def addPath (ps : List Path) (p : Path) : List Path := if ps.contains p then ps else ps ++ [p]

def unionPaths (a b : List Path) : List Path := b.foldl addPath a

def addDone (done : List Mod) (m : Mod) : List Mod := if done.contains m then done else m :: done

def evalDepsP (ev : Mod → PCache → List Path × PCache) :
    List (Mod × Bool) → PCache → List Path × PCache
  | [], c => ([], c)
  | d :: ds, c =>
    let r := ev d.1 c
    let rs := evalDepsP ev ds r.2
    (unionPaths r.1 rs.1, rs.2)

/-- Same control flow as `evalM` (memo hit / missing / in progress / compute), computing the cycle
    sentences instead of the outcome. -/
def evalP (srcs : Srcs) : Nat → List Mod → Mod → PCache → List Path × PCache
  | 0, _, _, c => ([], c)
  | f+1, stack, m, c =>
    match c.memo.lookup m with
    | some ps => (ps, c)
    | none =>
      match srcs.lookup m with
      | none => ([], { memo := (m, []) :: c.memo, done := addDone c.done m })
      | some s =>
        if stack.contains m then ([cyclePath c.done stack m], c)
        else
          let rs := evalDepsP (evalP srcs f (stack ++ [m])) s.deps c
          (rs.1, { memo := (m, rs.1) :: rs.2.memo, done := addDone rs.2.done m })

/-- The sentences in the answer of a top-level `import! m`. -/
def getP (srcs : Srcs) (m : Mod) (c : PCache) : List Path × PCache :=
  evalP srcs (srcs.length + 1) [] m c

/-- `add_module`: the memo tables are dropped exactly when the engine starts a new revision. -/
def setP (st st' : St) (c : PCache) : PCache :=
  if st'.rev = st.rev then c else { c with memo := [] }

/-- One step of a history on the unchanged engine, with the path bookkeeping alongside. -/
def stepP (p : St × PCache) : Op → St × PCache
  | .set m t => (setSrc false p.1 m t, setP p.1 (setSrc false p.1 m t) p.2)
  | .get m => ((getM p.1 m).2, (getP p.1.srcs m p.2).2)

def replayP (ops : List Op) (p : St × PCache) : St × PCache := ops.foldl stepP p

end GluonModel.Memo
