import GluonModel.Sexp
/-
Model of the typed JSON codec at the level of `std.json.Value` (std/json.glu:8-15):
`Serialize` instances of std/json/ser.glu:74-105 and `Deserialize` instances of std/json/de.glu:88-199,
for the types built from Int, Bool, String, Float, Option and Array. The text layer
(vm/src/api/json.rs → serde_json) is abstracted as `textRoundTrip rd`, where `rd` says which float
(bit pattern) the reader returns for the text the printer produced for a given float.
-/
namespace GluonModel.StdJson

inductive Json where
  | null
  | bool (b : Bool)
  | int (i : Int)
  | float (bits : Nat)
  | str (s : String)
  | arr (xs : List Json)
  deriving Repr, Inhabited

inductive Ty where
  | int | bool | str | float
  | opt (t : Ty)
  | arr (t : Ty)
  deriving Repr, DecidableEq

/-- gluon values of type `t`. -/
def Ty.den : Ty → Type
  | .int => Int
  | .bool => Bool
  | .str => String
  | .float => Nat
  | .opt t => Option t.den
  | .arr t => List t.den

/-- ser.glu:74-99. `Option`: `Some x -> serialize x`, `None -> Null`. -/
def ser : (t : Ty) → t.den → Json
  | .int, i => .int i
  | .bool, b => .bool b
  | .str, s => .str s
  | .float, f => .float f
  | .opt t, o => match o with
    | some x => ser t x
    | none => .null
  | .arr t, xs => .arr (xs.map (ser t))

def mapM' {α β : Type} (f : α → Option β) : List α → Option (List β)
  | [] => some []
  | x :: xs => match f x with
    | none => none
    | some y => match mapM' f xs with
      | none => none
      | some ys => some (y :: ys)

/-- de.glu:88-199, applied to the Value that `prim.deserialize` (vm/src/api/json.rs:17) builds from the
    text `prim.serialize` printed. `rd` is the float codec of that text layer: the float (bit pattern)
    read back for the text printed for a float; everything else survives the text layer unchanged
    (checked by the oracle against serde_json). `float` also accepts an `Int` (de.glu:106), which is
    outside the image of `ser`. `option`: `Null -> None`, anything else through the inner one. -/
def de (rd : Nat → Nat) : (t : Ty) → Json → Option t.den
  | .int, j => match j with
    | .int i => some i
    | _ => none
  | .bool, j => match j with
    | .bool b => some b
    | _ => none
  | .str, j => match j with
    | .str s => some s
    | _ => none
  | .float, j => match j with
    | .float f => some (rd f)
    | _ => none
  | .opt t, j => match j with
    | .null => some none
    | j => (de rd t j).map some
  | .arr t, j => match j with
    | .arr xs => mapM' (de rd t) xs
    | _ => none

/-- Types whose values JSON can represent faithfully: no `Option (Option _)`. -/
def Representable : Ty → Prop
  | .opt (.opt _) => False
  | .opt t => Representable t
  | .arr t => Representable t
  | _ => True

def handleJson (_ : List Sexp) : String := "unimplemented"

end GluonModel.StdJson
