import GluonModel.Sexp
namespace GluonModel.StdJson
def handleJson (_ : List Sexp) : String := "unimplemented"
end GluonModel.StdJson
