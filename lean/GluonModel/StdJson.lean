import GluonModel.Sexp
/-
Model of the typed JSON codec at the level of `std.json.Value` (std/json.glu:8-15):
`Serialize` instances of std/json/ser.glu:74-105 and `Deserialize` instances of std/json/de.glu:88-199,
for the types built from Int, Bool, String, Float, Option and Array. The text layer
(vm/src/api/json.rs → serde_json) is abstracted by the parameter `rd` of `de`: which float (bit pattern)
the reader returns for the text the printer produced for a given float; `textCodec` is the one of the
code as it is.
-/
namespace GluonModel.StdJson

inductive Json where
  | null
  | bool (b : Bool)
  | int (i : Int)
  | float (bits : Nat)
  | str (s : String)
  | arr (xs : List Json)
  deriving Repr, Inhabited

inductive Ty where
  | int | bool | str | float
  | opt (t : Ty)
  | arr (t : Ty)
  deriving Repr, DecidableEq

/-- gluon values of type `t`. -/
def Ty.den : Ty → Type
  | .int => Int
  | .bool => Bool
  | .str => String
  | .float => Nat
  | .opt t => Option t.den
  | .arr t => List t.den

/-- ser.glu:74-99. `Option`: `Some x -> serialize x`, `None -> Null`. -/
def ser : (t : Ty) → t.den → Json
  | .int, i => .int i
  | .bool, b => .bool b
  | .str, s => .str s
  | .float, f => .float f
  | .opt t, o => match o with
    | some x => ser t x
    | none => .null
  | .arr t, xs => .arr (xs.map (ser t))

def mapM' {α β : Type} (f : α → Option β) : List α → Option (List β)
  | [] => some []
  | x :: xs => match f x with
    | none => none
    | some y => match mapM' f xs with
      | none => none
      | some ys => some (y :: ys)

/-- de.glu:88-199, applied to the Value that `prim.deserialize` (vm/src/api/json.rs:17) builds from the
    text `prim.serialize` printed. `rd` is the float codec of that text layer: the float (bit pattern)
    read back for the text printed for a float; everything else survives the text layer unchanged
    (checked by the oracle against serde_json). `float` also accepts an `Int` (de.glu:106), which is
    outside the image of `ser`. `option`: `Null -> None`, anything else through the inner one. -/
def de (rd : Nat → Nat) : (t : Ty) → Json → Option t.den
  | .int, j => match j with
    | .int i => some i
    | _ => none
  | .bool, j => match j with
    | .bool b => some b
    | _ => none
  | .str, j => match j with
    | .str s => some s
    | _ => none
  | .float, j => match j with
    | .float f => some (rd f)
    | _ => none
  | .opt t, j => match j with
    | .null => some none
    | j => (de rd t j).map some
  | .arr t, j => match j with
    | .arr xs => mapM' (de rd t) xs
    | _ => none

/-- Types whose values JSON can represent faithfully: no `Option (Option _)`. -/
def Representable : Ty → Prop
  | .opt (.opt _) => False
  | .opt t => Representable t
  | .arr t => Representable t
  | _ => True

/-- The float codec of the text layer AS THE CODE IS NOW: /repo/vm/Cargo.toml:41 builds serde_json with
    `float_roundtrip` (fix dbce32d), i.e. correctly rounded parsing of the shortest-round-trip text
    that `prim.serialize` prints, so every finite float is read back as itself. serde_json is not
    modelled; this definition is tied to the code by the `(json float <bits>)` correspondence cases
    (the real ser → de on generated floats, bit patterns compared) and by the oracle. -/
def textCodec (bits : Nat) : Nat := bits

/-- The OLD text layer (before dbce32d, serde_json's default inexact float parser), at the bit pattern
    observed on the real code then: -2.6718800418338653e135 was read back 1 ulp lower. -/
def oldTextCodec (bits : Nat) : Nat :=
  if bits = 0xdc0d6881c1e92ae4 then 0xdc0d6881c1e92ae3 else bits

/-- driver request `(json float <bits>)`: the bit pattern `de (ser f)` yields for the float `bits`. -/
def handleJson : List Sexp → String
  | [.atom "float", b] =>
    match b.toNat? with
    | some bits =>
      let res : Option Nat := de textCodec .float (ser .float bits)
      match res with
      | some r => "(ok " ++ toString r ++ ")"
      | none => "none"
    | none => "bad-request"
  | _ => "bad-request"

end GluonModel.StdJson
