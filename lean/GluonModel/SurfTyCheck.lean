/-
`SurfTyCheck`: an executable checker for `SurfTy.HasType` on programs whose binders carry type
annotations (`AExpr`), proved sound in `Proofs/SurfTyCheck.lean` (`inferA_sound`). The driver finds
the annotations with the untrusted unification-based elaborator in `SurfTyElab.lean` and then runs
this checker, so that "the model accepts the program" always means "a `HasType` derivation exists".

It plays the role of check/src/typecheck.rs `typecheck_` (:671): synthesis only, equality of types
where the real checker unifies (`unify_type.rs:313 zip_match`). It is POLYMORPHIC: contexts hold
syntactic schemes `forall vs . τ` (`Scheme`), `letp x vs e₁ e₂` generalises `x` over `vs` (checked
not free in the context), a variable carries the instantiation of its scheme. `den`/`denCtx` give
the schemes their meaning as the semantic schemes of `SurfTy.HasType`.
-/
import GluonModel.SurfTy
namespace GluonModel.SurfTy
open GluonModel.Surf

mutual
inductive AExpr where
  | int (n : Int)
  | str (s : String)
  /-- a variable with the types its scheme's quantified variables are instantiated with -/
  | var (x : String) (insts : List STy)
  | lam (xs : List (String × STy)) (body : AExpr)
  | app (f : AExpr) (args : AList)
  | let_ (p : Pat) (e₁ e₂ : AExpr)
  /-- `let x = e₁ in e₂` with `x` generalised over the type variables `vs` -/
  | letp (x : String) (vs : List Nat) (e₁ e₂ : AExpr)
  | letrec (binds : ABinds) (body : AExpr)
  | ite (c a b : AExpr)
  | prim (op : String) (a b : AExpr)
  | and_ (a b : AExpr)
  | or_ (a b : AExpr)
  | ctor (d tag arity : Nat)
  | bool (b : Bool)
  | match_ (s : AExpr) (alts : AAlts) (t : STy)
  | record (fields : AList) (base : Option AExpr) (layout : List Src)
  | proj (e : AExpr) (i : Nat)
  | array (t : STy) (es : AList)
  | error (msg : String) (t : STy)
inductive AList where
  | nil
  | cons (e : AExpr) (es : AList)
inductive AAlts where
  | nil
  | cons (p : Pat) (e : AExpr) (rest : AAlts)
inductive ABinds where
  | nil
  | cons (f : String) (params : List (String × STy)) (ret : STy) (body : AExpr) (rest : ABinds)
end

instance : Inhabited AExpr := ⟨.int 0⟩

mutual
def AExpr.erase : AExpr → Expr
  | .int n => .int n
  | .str s => .str s
  | .var x _ => .var x
  | .lam xs body => .lam (xs.map Prod.fst) body.erase
  | .app f args => .app f.erase args.erase
  | .let_ p e₁ e₂ => .let_ p e₁.erase e₂.erase
  | .letp x _ e₁ e₂ => .let_ (.var x) e₁.erase e₂.erase
  | .letrec binds body => .letrec binds.erase body.erase
  | .ite c a b => .ite c.erase a.erase b.erase
  | .prim op a b => .prim op a.erase b.erase
  | .and_ a b => .and_ a.erase b.erase
  | .or_ a b => .or_ a.erase b.erase
  | .ctor _ tag arity => .ctor tag arity
  | .bool b => .ctor (if b then 1 else 0) 0
  | .match_ s alts _ => .match_ s.erase alts.erase
  | .record fields none layout => .record fields.erase none layout
  | .record fields (some b) layout => .record fields.erase (some b.erase) layout
  | .proj e i => .proj e.erase i
  | .array _ es => .array es.erase
  | .error msg _ => .error msg
def AList.erase : AList → List Expr
  | .nil => []
  | .cons e es => e.erase :: es.erase
def AAlts.erase : AAlts → List (Pat × Expr)
  | .nil => []
  | .cons p e rest => (p, e.erase) :: rest.erase
def ABinds.erase : ABinds → List (String × List String × Expr)
  | .nil => []
  | .cons f params _ body rest => (f, params.map Prod.fst, body.erase) :: rest.erase
end

def ABinds.tys : ABinds → List STy
  | .nil => []
  | .cons _ params ret _ rest => funTy (params.map Prod.snd) ret :: rest.tys

/-! equality of types -/
mutual
def STy.beq : STy → STy → Bool
  | .int, .int => true
  | .str, .str => true
  | .bool, .bool => true
  | .fn a b, .fn c d => STy.beq a c && STy.beq b d
  | .recd as, .recd bs => beqList as bs
  | .named a, .named b => a == b
  | .arr a, .arr b => STy.beq a b
  | .tvar a, .tvar b => a == b
  | _, _ => false
def beqList : List STy → List STy → Bool
  | [], [] => true
  | a :: as, b :: bs => STy.beq a b && beqList as bs
  | _, _ => false
end

/-! substitution of type variables, occurrence, syntactic schemes -/
mutual
def STy.subst (R : Nat → STy) : STy → STy
  | .int => .int
  | .str => .str
  | .bool => .bool
  | .fn a b => .fn (a.subst R) (b.subst R)
  | .recd fs => .recd (substList R fs)
  | .named d => .named d
  | .arr t => .arr (t.subst R)
  | .tvar n => R n
def substList (R : Nat → STy) : List STy → List STy
  | [] => []
  | t :: ts => t.subst R :: substList R ts
end

mutual
def STy.occurs (v : Nat) : STy → Bool
  | .fn a b => a.occurs v || b.occurs v
  | .recd fs => occursList v fs
  | .arr t => t.occurs v
  | .tvar n => n == v
  | _ => false
def occursList (v : Nat) : List STy → Bool
  | [] => false
  | t :: ts => t.occurs v || occursList v ts
end

/-- a syntactic type scheme `forall vs . τ` (check: `Type::Forall`, base/src/types/mod.rs) -/
abbrev Scheme := List Nat × STy

/-- the checker's contexts: names with syntactic schemes -/
abbrev PCtx := List (String × Scheme)

/-- `[vs := ts]`, the identity elsewhere -/
def instSub : List Nat → List STy → Nat → STy
  | v :: vs, t :: ts, n => if n = v then t else instSub vs ts n
  | _, _, n => .tvar n

/-- is `v` free in some scheme of the context? -/
def freeInCtx (v : Nat) : PCtx → Bool
  | [] => false
  | (_, (ws, t)) :: Γ => (t.occurs v && !ws.contains v) || freeInCtx v Γ

def bindP : List String → List STy → PCtx → PCtx
  | x :: xs, t :: ts, Γ => bindP xs ts ((x, ([], t)) :: Γ)
  | _, _, Γ => Γ

def recP (group : List (String × List String × Expr)) (τs : List STy) (Γ : PCtx) : PCtx :=
  ((group.zip τs).map fun (b, t) => (b.1, (([] : List Nat), t))).reverse ++ Γ

def liftP (Δ : MCtx) : PCtx := Δ.map fun b => (b.1, (([] : List Nat), b.2))

/-- The meaning of a syntactic scheme under a valuation `R` of the type variables that are free
    in it: all instances — the quantified variables range over all types. -/
def den (R : Nat → STy) (s : Scheme) : Sch :=
  fun t => ∃ R' : Nat → STy, (∀ n, n ∉ s.1 → R' n = R n) ∧ t = s.2.subst R'

def denCtx (R : Nat → STy) (Γ : PCtx) : Ctx := Γ.map fun b => (b.1, den R b.2)

/-- `peel φ σs = some τ` iff `φ = funTy σs τ` (argument types compared with `beq`) -/
def peel : STy → List STy → Option STy
  | τ, [] => some τ
  | .fn a b, s :: ss => if STy.beq a s then peel b ss else none
  | _, _ :: _ => none

def allBeq (t : STy) : List STy → Bool
  | [] => true
  | s :: ss => STy.beq s t && allBeq t ss

def checkLayout : List Src → List STy → List STy → Option (List STy)
  | [], _, _ => some []
  | .field i :: l, σs, βs =>
    match σs[i]? with
    | some τ => match checkLayout l σs βs with
      | some τs => some (τ :: τs)
      | none => none
    | none => none
  | .base j :: l, σs, βs =>
    match βs[j]? with
    | some τ => match checkLayout l σs βs with
      | some τs => some (τ :: τs)
      | none => none
    | none => none

def isIntOp (op : String) : Bool := op == "+" || op == "-" || op == "*" || op == "/"
def isCmpOp (op : String) : Bool := op == "==" || op == "<"

section
variable (D : Decls)

mutual
def patCheck : Pat → STy → Option MCtx
  | .wild, _ => some []
  | .var x, τ => some [(x, τ)]
  | .int _, .int => some []
  | .int _, _ => none
  | .str _, .str => some []
  | .str _, _ => none
  | .ctor tag ps, .named d =>
    match D d tag with
    | some τs => patsCheck ps τs
    | none => none
  | .ctor _ _, _ => none
  | .record fs, .recd τs => fieldsCheck fs τs
  | .record _, _ => none
  | .as x p, τ =>
    match patCheck p τ with
    | some Δ => some ((x, τ) :: Δ)
    | none => none
def patsCheck : List Pat → List STy → Option MCtx
  | [], [] => some []
  | p :: ps, τ :: τs =>
    match patCheck p τ with
    | some Δ₁ => match patsCheck ps τs with
      | some Δ₂ => some (Δ₂ ++ Δ₁)
      | none => none
    | none => none
  | [], _ :: _ => none
  | _ :: _, [] => none
def fieldsCheck : List (Nat × Pat) → List STy → Option MCtx
  | [], _ => some []
  | (i, p) :: fs, τs =>
    match τs[i]? with
    | some τ => match patCheck p τ with
      | some Δ₁ => match fieldsCheck fs τs with
        | some Δ₂ => some (Δ₂ ++ Δ₁)
        | none => none
      | none => none
    | none => none
end

mutual
def inferA : PCtx → AExpr → Option STy
  | _, .int _ => some .int
  | _, .str _ => some .str
  | Γ, .var x insts =>
    -- INSTANTIATION (typecheck.rs:1004 `Expr::Ident` → `instantiate`)
    match lookupCtx Γ x with
    | some (vs, τ) => if insts.length == vs.length then some (τ.subst (instSub vs insts)) else none
    | none => none
  | Γ, .lam xs body =>
    if xs.isEmpty then none
    else match inferA (bindP (xs.map Prod.fst) (xs.map Prod.snd) Γ) body with
      | some ρ => some (funTy (xs.map Prod.snd) ρ)
      | none => none
  | Γ, .app f args =>
    match inferA Γ f with
    | some φ => match inferList Γ args with
      | some σs => peel φ σs
      | none => none
    | none => none
  | Γ, .let_ p e₁ e₂ =>
    match inferA Γ e₁ with
    | some σ => match patCheck D p σ with
      | some Δ => inferA (liftP Δ ++ Γ) e₂
      | none => none
    | none => none
  | Γ, .letp x vs e₁ e₂ =>
    -- GENERALISATION (typecheck.rs:2363 `generalize_and_clear_subs`): the quantified variables
    -- must not be free in the context
    match inferA Γ e₁ with
    | some τ₁ => if vs.all (fun v => !freeInCtx v Γ) then inferA ((x, (vs, τ₁)) :: Γ) e₂ else none
    | none => none
  | Γ, .letrec binds body =>
    if checkBinds (recP binds.erase binds.tys Γ) binds
    then inferA (recP binds.erase binds.tys Γ) body
    else none
  | Γ, .ite c a b =>
    match inferA Γ c, inferA Γ a, inferA Γ b with
    | some .bool, some τ, some τ' => if STy.beq τ' τ then some τ else none
    | _, _, _ => none
  | Γ, .prim op a b =>
    match inferA Γ a, inferA Γ b with
    | some .int, some .int =>
      if isIntOp op then some .int else if isCmpOp op then some .bool else none
    | _, _ => none
  | Γ, .and_ a b =>
    match inferA Γ a, inferA Γ b with
    | some .bool, some .bool => some .bool
    | _, _ => none
  | Γ, .or_ a b =>
    match inferA Γ a, inferA Γ b with
    | some .bool, some .bool => some .bool
    | _, _ => none
  | _, .ctor d tag arity =>
    match D d tag with
    | some τs => if arity == τs.length then some (funTy τs (.named d)) else none
    | none => none
  | _, .bool _ => some .bool
  | Γ, .match_ s alts t =>
    match inferA Γ s with
    | some σ => if checkAlts Γ σ alts t then some t else none
    | none => none
  | Γ, .record fields none layout =>
    match inferList Γ fields with
    | some σs => match checkLayout layout σs [] with
      | some τs => some (.recd τs)
      | none => none
    | none => none
  | Γ, .record fields (some be) layout =>
    match inferList Γ fields, inferA Γ be with
    | some σs, some (.recd βs) => match checkLayout layout σs βs with
      | some τs => some (.recd τs)
      | none => none
    | _, _ => none
  | Γ, .proj e i =>
    match inferA Γ e with
    | some (.recd τs) => τs[i]?
    | _ => none
  | Γ, .array t es =>
    match inferList Γ es with
    | some τs => if allBeq t τs then some (.arr t) else none
    | none => none
  | _, .error _ t => some t
def inferList : PCtx → AList → Option (List STy)
  | _, .nil => some []
  | Γ, .cons e es =>
    match inferA Γ e, inferList Γ es with
    | some τ, some τs => some (τ :: τs)
    | _, _ => none
def checkAlts : PCtx → STy → AAlts → STy → Bool
  | _, _, .nil, _ => true
  | Γ, σ, .cons p e rest, t =>
    match patCheck D p σ with
    | some Δ => match inferA (liftP Δ ++ Γ) e with
      | some τ => STy.beq τ t && checkAlts Γ σ rest t
      | none => false
    | none => false
def checkBinds : PCtx → ABinds → Bool
  | _, .nil => true
  | Γ', .cons _ params ret body rest =>
    !params.isEmpty &&
    (match inferA (bindP (params.map Prod.fst) (params.map Prod.snd) Γ') body with
     | some ρ => STy.beq ρ ret
     | none => false) &&
    checkBinds Γ' rest
end

end

/-- the declared constructor argument types mention no type variables (true of the generator's
    header: no parameterised data types in the modelled fragment) -/
def DClosed (D : Decls) : Prop := ∀ d tag τs, D d tag = some τs → ∀ R, substList R τs = τs

/-- the declaration table of the shared generator's header as a checker input (same table as
    `surfDecls` in SurfTyParse.lean; repeated here so that theorems can mention it) -/
def surfDeclsA : Decls := fun d tag =>
  match d, tag with
  | 0, 0 => some [.int]
  | 0, 1 => some [.int, .int]
  | 0, 2 => some []
  | 0, 3 => some [.str, .int]
  | 1, 0 => some []
  | 1, 1 => some [.int, .named 1]
  | 2, 0 => some []
  | 2, 1 => some [.named 2, .int, .named 2]
  | 2, 2 => some [.named 0]
  | _, _ => none

end GluonModel.SurfTy
