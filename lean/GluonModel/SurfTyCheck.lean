/-
`SurfTyCheck`: an executable checker for `SurfTy.HasType` on programs whose binders carry type
annotations (`AExpr`), proved sound in `Proofs/SurfTyCheck.lean` (`inferA_sound`). The driver finds
the annotations with the untrusted unification-based elaborator in `SurfTyElab.lean` and then runs
this checker, so that "the model accepts the program" always means "a `HasType` derivation exists".

It plays the role of check/src/typecheck.rs `typecheck_` (:671) restricted to monomorphic types:
synthesis only, equality of types where the real checker unifies (`unify_type.rs:313 zip_match`).
-/
import GluonModel.SurfTy
namespace GluonModel.SurfTy
open GluonModel.Surf

mutual
inductive AExpr where
  | int (n : Int)
  | str (s : String)
  | var (x : String)
  | lam (xs : List (String × STy)) (body : AExpr)
  | app (f : AExpr) (args : AList)
  | let_ (p : Pat) (e₁ e₂ : AExpr)
  | letrec (binds : ABinds) (body : AExpr)
  | ite (c a b : AExpr)
  | prim (op : String) (a b : AExpr)
  | and_ (a b : AExpr)
  | or_ (a b : AExpr)
  | ctor (d tag arity : Nat)
  | bool (b : Bool)
  | match_ (s : AExpr) (alts : AAlts) (t : STy)
  | record (fields : AList) (base : Option AExpr) (layout : List Src)
  | proj (e : AExpr) (i : Nat)
  | array (t : STy) (es : AList)
  | error (msg : String) (t : STy)
inductive AList where
  | nil
  | cons (e : AExpr) (es : AList)
inductive AAlts where
  | nil
  | cons (p : Pat) (e : AExpr) (rest : AAlts)
inductive ABinds where
  | nil
  | cons (f : String) (params : List (String × STy)) (ret : STy) (body : AExpr) (rest : ABinds)
end

instance : Inhabited AExpr := ⟨.int 0⟩

mutual
def AExpr.erase : AExpr → Expr
  | .int n => .int n
  | .str s => .str s
  | .var x => .var x
  | .lam xs body => .lam (xs.map Prod.fst) body.erase
  | .app f args => .app f.erase args.erase
  | .let_ p e₁ e₂ => .let_ p e₁.erase e₂.erase
  | .letrec binds body => .letrec binds.erase body.erase
  | .ite c a b => .ite c.erase a.erase b.erase
  | .prim op a b => .prim op a.erase b.erase
  | .and_ a b => .and_ a.erase b.erase
  | .or_ a b => .or_ a.erase b.erase
  | .ctor _ tag arity => .ctor tag arity
  | .bool b => .ctor (if b then 1 else 0) 0
  | .match_ s alts _ => .match_ s.erase alts.erase
  | .record fields none layout => .record fields.erase none layout
  | .record fields (some b) layout => .record fields.erase (some b.erase) layout
  | .proj e i => .proj e.erase i
  | .array _ es => .array es.erase
  | .error msg _ => .error msg
def AList.erase : AList → List Expr
  | .nil => []
  | .cons e es => e.erase :: es.erase
def AAlts.erase : AAlts → List (Pat × Expr)
  | .nil => []
  | .cons p e rest => (p, e.erase) :: rest.erase
def ABinds.erase : ABinds → List (String × List String × Expr)
  | .nil => []
  | .cons f params _ body rest => (f, params.map Prod.fst, body.erase) :: rest.erase
end

def ABinds.tys : ABinds → List STy
  | .nil => []
  | .cons _ params ret _ rest => funTy (params.map Prod.snd) ret :: rest.tys

/-! equality of types -/
mutual
def STy.beq : STy → STy → Bool
  | .int, .int => true
  | .str, .str => true
  | .bool, .bool => true
  | .fn a b, .fn c d => STy.beq a c && STy.beq b d
  | .recd as, .recd bs => beqList as bs
  | .named a, .named b => a == b
  | .arr a, .arr b => STy.beq a b
  | _, _ => false
def beqList : List STy → List STy → Bool
  | [], [] => true
  | a :: as, b :: bs => STy.beq a b && beqList as bs
  | _, _ => false
end

/-- `peel φ σs = some τ` iff `φ = funTy σs τ` (argument types compared with `beq`) -/
def peel : STy → List STy → Option STy
  | τ, [] => some τ
  | .fn a b, s :: ss => if STy.beq a s then peel b ss else none
  | _, _ :: _ => none

def allBeq (t : STy) : List STy → Bool
  | [] => true
  | s :: ss => STy.beq s t && allBeq t ss

def checkLayout : List Src → List STy → List STy → Option (List STy)
  | [], _, _ => some []
  | .field i :: l, σs, βs =>
    match σs[i]? with
    | some τ => match checkLayout l σs βs with
      | some τs => some (τ :: τs)
      | none => none
    | none => none
  | .base j :: l, σs, βs =>
    match βs[j]? with
    | some τ => match checkLayout l σs βs with
      | some τs => some (τ :: τs)
      | none => none
    | none => none

def isIntOp (op : String) : Bool := op == "+" || op == "-" || op == "*" || op == "/"
def isCmpOp (op : String) : Bool := op == "==" || op == "<"

section
variable (D : Decls)

mutual
def patCheck : Pat → STy → Option Ctx
  | .wild, _ => some []
  | .var x, τ => some [(x, τ)]
  | .int _, .int => some []
  | .int _, _ => none
  | .str _, .str => some []
  | .str _, _ => none
  | .ctor tag ps, .named d =>
    match D d tag with
    | some τs => patsCheck ps τs
    | none => none
  | .ctor _ _, _ => none
  | .record fs, .recd τs => fieldsCheck fs τs
  | .record _, _ => none
  | .as x p, τ =>
    match patCheck p τ with
    | some Δ => some ((x, τ) :: Δ)
    | none => none
def patsCheck : List Pat → List STy → Option Ctx
  | [], [] => some []
  | p :: ps, τ :: τs =>
    match patCheck p τ with
    | some Δ₁ => match patsCheck ps τs with
      | some Δ₂ => some (Δ₂ ++ Δ₁)
      | none => none
    | none => none
  | [], _ :: _ => none
  | _ :: _, [] => none
def fieldsCheck : List (Nat × Pat) → List STy → Option Ctx
  | [], _ => some []
  | (i, p) :: fs, τs =>
    match τs[i]? with
    | some τ => match patCheck p τ with
      | some Δ₁ => match fieldsCheck fs τs with
        | some Δ₂ => some (Δ₂ ++ Δ₁)
        | none => none
      | none => none
    | none => none
end

mutual
def inferA : Ctx → AExpr → Option STy
  | _, .int _ => some .int
  | _, .str _ => some .str
  | Γ, .var x => lookupCtx Γ x
  | Γ, .lam xs body =>
    if xs.isEmpty then none
    else match inferA (bindCtx (xs.map Prod.fst) (xs.map Prod.snd) Γ) body with
      | some ρ => some (funTy (xs.map Prod.snd) ρ)
      | none => none
  | Γ, .app f args =>
    match inferA Γ f with
    | some φ => match inferList Γ args with
      | some σs => peel φ σs
      | none => none
    | none => none
  | Γ, .let_ p e₁ e₂ =>
    match inferA Γ e₁ with
    | some σ => match patCheck D p σ with
      | some Δ => inferA (Δ ++ Γ) e₂
      | none => none
    | none => none
  | Γ, .letrec binds body =>
    if checkBinds (recCtx binds.erase binds.tys Γ) binds
    then inferA (recCtx binds.erase binds.tys Γ) body
    else none
  | Γ, .ite c a b =>
    match inferA Γ c, inferA Γ a, inferA Γ b with
    | some .bool, some τ, some τ' => if STy.beq τ' τ then some τ else none
    | _, _, _ => none
  | Γ, .prim op a b =>
    match inferA Γ a, inferA Γ b with
    | some .int, some .int =>
      if isIntOp op then some .int else if isCmpOp op then some .bool else none
    | _, _ => none
  | Γ, .and_ a b =>
    match inferA Γ a, inferA Γ b with
    | some .bool, some .bool => some .bool
    | _, _ => none
  | Γ, .or_ a b =>
    match inferA Γ a, inferA Γ b with
    | some .bool, some .bool => some .bool
    | _, _ => none
  | _, .ctor d tag arity =>
    match D d tag with
    | some τs => if arity == τs.length then some (funTy τs (.named d)) else none
    | none => none
  | _, .bool _ => some .bool
  | Γ, .match_ s alts t =>
    match inferA Γ s with
    | some σ => if checkAlts Γ σ alts t then some t else none
    | none => none
  | Γ, .record fields none layout =>
    match inferList Γ fields with
    | some σs => match checkLayout layout σs [] with
      | some τs => some (.recd τs)
      | none => none
    | none => none
  | Γ, .record fields (some be) layout =>
    match inferList Γ fields, inferA Γ be with
    | some σs, some (.recd βs) => match checkLayout layout σs βs with
      | some τs => some (.recd τs)
      | none => none
    | _, _ => none
  | Γ, .proj e i =>
    match inferA Γ e with
    | some (.recd τs) => τs[i]?
    | _ => none
  | Γ, .array t es =>
    match inferList Γ es with
    | some τs => if allBeq t τs then some (.arr t) else none
    | none => none
  | _, .error _ t => some t
def inferList : Ctx → AList → Option (List STy)
  | _, .nil => some []
  | Γ, .cons e es =>
    match inferA Γ e, inferList Γ es with
    | some τ, some τs => some (τ :: τs)
    | _, _ => none
def checkAlts : Ctx → STy → AAlts → STy → Bool
  | _, _, .nil, _ => true
  | Γ, σ, .cons p e rest, t =>
    match patCheck D p σ with
    | some Δ => match inferA (Δ ++ Γ) e with
      | some τ => STy.beq τ t && checkAlts Γ σ rest t
      | none => false
    | none => false
def checkBinds : Ctx → ABinds → Bool
  | _, .nil => true
  | Γ', .cons _ params ret body rest =>
    !params.isEmpty &&
    (match inferA (bindCtx (params.map Prod.fst) (params.map Prod.snd) Γ') body with
     | some ρ => STy.beq ρ ret
     | none => false) &&
    checkBinds Γ' rest
end

end

/-- the declaration table of the shared generator's header as a checker input (same table as
    `surfDecls` in SurfTyParse.lean; repeated here so that theorems can mention it) -/
def surfDeclsA : Decls := fun d tag =>
  match d, tag with
  | 0, 0 => some [.int]
  | 0, 1 => some [.int, .int]
  | 0, 2 => some []
  | 0, 3 => some [.str, .int]
  | 1, 0 => some []
  | 1, 1 => some [.int, .named 1]
  | 2, 0 => some []
  | 2, 1 => some [.named 2, .int, .named 2]
  | 2, 2 => some [.named 0]
  | _, _ => none

end GluonModel.SurfTy
