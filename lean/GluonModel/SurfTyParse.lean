/-
Driver-side glue for C02 (not part of any theorem): reading the annotated program form
(`(ctor D TAG ARITY)`, `(pc D TAG …)`) and types from the line protocol; the declaration table of
the shared generator's header (harness/src/surf.rs `DECLS`); a dynamic shape test.
-/
import GluonModel.Sexp
import GluonModel.Surf
import GluonModel.SurfParse
import GluonModel.SurfTy
namespace GluonModel.SurfTy
open GluonModel GluonModel.Surf

/-- harness/src/surf.rs `DECLS`: `type Sh = | Circle Int | Rect Int Int | Dot | Label String Int`,
    `type L = | Nil | Cons Int L`, `type Tr = | Leaf | Node Tr Int Tr | Tip Sh` -/
def surfDecls : Decls := fun d tag =>
  match d, tag with
  | 0, 0 => some [.int]
  | 0, 1 => some [.int, .int]
  | 0, 2 => some []
  | 0, 3 => some [.str, .int]
  | 1, 0 => some []
  | 1, 1 => some [.int, .named 1]
  | 2, 0 => some []
  | 2, 1 => some [.named 2, .int, .named 2]
  | 2, 2 => some [.named 0]
  | _, _ => none

partial def parseSTy : Sexp → Option STy
  | .atom "int" => some .int
  | .atom "str" => some .str
  | .atom "bool" => some .bool
  | .list [.atom "fn", a, b] => do
    let a ← parseSTy a
    let b ← parseSTy b
    pure (.fn a b)
  | .list (.atom "rec" :: ts) => do
    let ts ← ts.mapM parseSTy
    pure (.recd ts)
  | .list [.atom "named", d] => d.toNat?.map .named
  | .list [.atom "arr", t] => (parseSTy t).map .arr
  | _ => none

/-- strip the declaration indices of the annotated form, giving the plain `Surf` protocol form -/
partial def stripAnn : Sexp → Sexp
  | .list [.atom "ctor", _, t, n] => .list [.atom "ctor", t, n]
  | .list (.atom "pc" :: _ :: rest) => .list (.atom "pc" :: rest.map stripAnn)
  | .list xs => .list (xs.map stripAnn)
  | s => s

/-- dynamic test that a (model) value has the shape of a type; function values are opaque -/
partial def shapeOk (D : Decls) : Val → STy → Bool
  | .int _, .int => true
  | .str _, .str => true
  | .data t [], .bool => t == 0 || t == 1
  | .data 0 vs, .recd ts => vs.length == ts.length && (vs.zip ts).all fun (v, t) => shapeOk D v t
  | .data tag vs, .named d =>
    match D d tag with
    | some ts => vs.length == ts.length && (vs.zip ts).all fun (v, t) => shapeOk D v t
    | none => false
  | .arr vs, .arr t => vs.all fun v => shapeOk D v t
  | .clos .., .fn _ _ => true
  | .recclos .., .fn _ _ => true
  | .ctorfn .., .fn _ _ => true
  | .pap .., .fn _ _ => true
  | _, _ => false

end GluonModel.SurfTy
