/-
Reading `Surf` programs from the line protocol and printing outcomes canonically
(driver-side glue shared by C01/C02/C04…; not part of any theorem).
-/
import GluonModel.Sexp
import GluonModel.Surf
namespace GluonModel.Surf
open GluonModel

partial def parsePat : Sexp → Option Pat
  | .list [.atom "pw"] => some .wild
  | .list [.atom "pv", .str x] => some (.var x)
  | .list [.atom "pi", n] => n.toInt?.map .int
  | .list [.atom "ps", .str s] => some (.str s)
  | .list (.atom "pc" :: tag :: args) => do
    let t ← tag.toNat?
    let ps ← args.mapM parsePat
    pure (.ctor t ps)
  | .list (.atom "pr" :: fs) => do
    let fs ← fs.mapM fun
      | .list [i, p] => do
        let i ← i.toNat?
        let p ← parsePat p
        pure (i, p)
      | _ => none
    pure (.record fs)
  | .list [.atom "pas", .str x, p] => (parsePat p).map (.as x)
  | _ => none

def parseNames : Sexp → Option (List String)
  | .list xs => xs.mapM Sexp.str?
  | _ => none

def parseSrc : Sexp → Option Src
  | .list [.atom "f", i] => i.toNat?.map .field
  | .list [.atom "b", j] => j.toNat?.map .base
  | _ => none

partial def parseExpr : Sexp → Option Expr
  | .list [.atom "int", n] => n.toInt?.map .int
  | .list [.atom "str", .str s] => some (.str s)
  | .list [.atom "var", .str x] => some (.var x)
  | .list [.atom "rec"] => some (.record [] none [])
  | .list [.atom "lam", xs, b] => do
    let xs ← parseNames xs
    let b ← parseExpr b
    pure (.lam xs b)
  | .list (.atom "app" :: f :: args) => do
    let f ← parseExpr f
    let args ← args.mapM parseExpr
    pure (.app f args)
  | .list [.atom "let", p, a, b] => do
    let p ← parsePat p
    let a ← parseExpr a
    let b ← parseExpr b
    pure (.let_ p a b)
  | .list [.atom "letrec", .list bs, body] => do
    let bs ← bs.mapM fun
      | .list [.str f, xs, e] => do
        let xs ← parseNames xs
        let e ← parseExpr e
        pure (f, xs, e)
      | _ => none
    let body ← parseExpr body
    pure (.letrec bs body)
  | .list [.atom "if", c, a, b] => do
    let c ← parseExpr c
    let a ← parseExpr a
    let b ← parseExpr b
    pure (.ite c a b)
  | .list [.atom "prim", .str op, a, b] => do
    let a ← parseExpr a
    let b ← parseExpr b
    pure (.prim op a b)
  | .list [.atom "and", a, b] => do
    let a ← parseExpr a
    let b ← parseExpr b
    pure (.and_ a b)
  | .list [.atom "or", a, b] => do
    let a ← parseExpr a
    let b ← parseExpr b
    pure (.or_ a b)
  | .list [.atom "ctor", t, n] => do
    let t ← t.toNat?
    let n ← n.toNat?
    pure (.ctor t n)
  | .list (.atom "match" :: s :: alts) => do
    let s ← parseExpr s
    let alts ← alts.mapM fun
      | .list [p, e] => do
        let p ← parsePat p
        let e ← parseExpr e
        pure (p, e)
      | _ => none
    pure (.match_ s alts)
  | .list [.atom "record", .list fs, base, .list layout] => do
    let fs ← fs.mapM parseExpr
    let base ← match base with
      | .atom "none" => some none
      | b => (parseExpr b).map some
    let layout ← layout.mapM parseSrc
    pure (.record fs base layout)
  | .list [.atom "proj", e, i] => do
    let e ← parseExpr e
    let i ← i.toNat?
    pure (.proj e i)
  | .list (.atom "array" :: es) => do
    let es ← es.mapM parseExpr
    pure (.array es)
  | .list [.atom "error", .str m] => some (.error m)
  | _ => none

partial def renderVal : Val → String
  | .int n => s!"(int {n})"
  | .str s => "(str " ++ Sexp.quote s ++ ")"
  | .data t vs => "(data " ++ toString t ++ String.join (vs.map fun v => " " ++ renderVal v) ++ ")"
  | .arr vs => "(arr" ++ String.join (vs.map fun v => " " ++ renderVal v) ++ ")"
  | _ => "(fn)"

def renderErr : Err → String
  | .arith => "err:arith"
  | .unmatched => "err:unmatched"
  | .user m => "err:user " ++ Sexp.quote m
  | .fuel => "fuel"
  | .wrong w => "wrong:" ++ w

def renderRes : Res → String
  | .ok v => "(ok " ++ renderVal v ++ ")"
  | .error e => renderErr e

end GluonModel.Surf
