/-
`SurfTy`: a declarative type system for the surface mini-Gluon `GluonModel.Surf` (the fragment
the shared generator harness/src/surf.rs emits) and the typing of run-time values.

What it mirrors in /repo (the rules are the monomorphic core of the bidirectional checker):
  * literals, identifiers          check/src/typecheck.rs:1004 (`Expr::Ident`), :1016 (`Literal`)
  * application (n-ary, curried)   check/src/typecheck.rs:1040 `Expr::App` → `typecheck_application` (:1837)
  * lambda                         check/src/typecheck.rs:1283 `Expr::Lambda` → `typecheck_lambda`
  * if / match / let / rec         check/src/typecheck.rs:1066 (IfElse), :1147 (Match), :2183 `typecheck_bindings`
  * records, projection, update    check/src/typecheck.rs:1300 (Record), :1190 (Projection)
  * patterns                       check/src/typecheck.rs:1945 `typecheck_pattern`
  * arrays, tuples                 check/src/typecheck.rs:1234 (Array), :1123 (Tuple)
  * built-in integer operators     check/src/typecheck.rs:1093 (`#Int+` … via `Infix`)
The run-time side (what may NOT happen for a typed program) is `Surf.Err.wrong`, the model
counterpart of vm/src/thread.rs:2749 `Cannot call`, :2312 `GetOffset on`, :2333 `TestTag … non data`
and of `ice!` in the compiler.

Types are `STy`; contexts map names to (semantic) type schemes `Sch` — sets of types — so the
system has let-polymorphism of its own: generalisation at `let x = e` (rule `letGen`, no value
restriction, like gluon), instantiation at variables (rule `var`); lambda-, pattern- and
`rec`-bound names are monomorphic (`Sch.mono`). Records are positional (field `i` of the record's type, the way
the compiler resolves field names to offsets, vm/src/core/mod.rs `Projection`); a declaration
table `D decl tag = some argTypes` stands for the `type T = | C a b | …` declarations in scope.
-/
import GluonModel.Surf
namespace GluonModel.SurfTy
open GluonModel.Surf

inductive STy where
  | int
  | str
  | bool
  | fn (a b : STy)
  /-- records, tuples and unit: the types of the fields in layout order -/
  | recd (fs : List STy)
  /-- a declared variant type (index into the declaration table) -/
  | named (d : Nat)
  | arr (t : STy)
  /-- a type variable: only the verified checker's annotations and the schemes it builds mention
      them; no run-time value has the shape of a type variable -/
  | tvar (n : Nat)
  deriving Repr, Inhabited

/-- monomorphic contexts: what a pattern binds -/
abbrev MCtx := List (String × STy)

/-- A (semantic) TYPE SCHEME: the set of monomorphic types a let-bound name may be used at. The
    scheme `forall a b . τ` of check/src/typecheck.rs (`generalize_and_clear_subs`, :2363;
    typecheck/generalize.rs) stands for the set of all instances of `τ` (`SurfTyCheck.den`). -/
abbrev Sch := STy → Prop

/-- the scheme of a lambda-bound or pattern-bound name: exactly one type -/
def Sch.mono (τ : STy) : Sch := fun t => t = τ

/-- contexts map names to schemes (`Environment` + `stack_var` of check/src/typecheck.rs:330) -/
abbrev Ctx := List (String × Sch)

def liftCtx (Δ : MCtx) : Ctx := Δ.map fun b => (b.1, Sch.mono b.2)

/-- `D decl tag` = argument types of constructor number `tag` of declared type `decl`. -/
abbrev Decls := Nat → Nat → Option (List STy)

/-- `a₁ → a₂ → … → r` -/
def funTy : List STy → STy → STy
  | [], r => r
  | a :: as, r => .fn a (funTy as r)

def lookupCtx {α : Type} : List (String × α) → String → Option α
  | [], _ => none
  | (y, t) :: rest, x => if x = y then some t else lookupCtx rest x

/-- mirror of `Surf.bindParams` on contexts -/
def bindCtx : List String → List STy → Ctx → Ctx
  | x :: xs, t :: ts, Γ => bindCtx xs ts ((x, Sch.mono t) :: Γ)
  | _, _, Γ => Γ

/-- mirror of `Surf.recEnv` on contexts -/
def recCtx (group : List (String × List String × Expr)) (τs : List STy) (Γ : Ctx) : Ctx :=
  ((group.zip τs).map fun (b, t) => (b.1, Sch.mono t)).reverse ++ Γ

section
variable (D : Decls)

/-! ### Patterns: `PatType p τ Δ` — pattern `p` matches values of type `τ` and binds `Δ`
(in the order `Surf.matchPat` produces the bindings). -/
mutual
inductive PatType : Pat → STy → MCtx → Prop
  | wild {τ} : PatType .wild τ []
  | var {x τ} : PatType (.var x) τ [(x, τ)]
  | int {n} : PatType (.int n) .int []
  | str {s} : PatType (.str s) .str []
  | ctor {d tag τs ps Δ} : D d tag = some τs → PatsType ps τs Δ → PatType (.ctor tag ps) (.named d) Δ
  | record {fs τs Δ} : FieldsType fs τs Δ → PatType (.record fs) (.recd τs) Δ
  | as {x p τ Δ} : PatType p τ Δ → PatType (.as x p) τ ((x, τ) :: Δ)
inductive PatsType : List Pat → List STy → MCtx → Prop
  | nil : PatsType [] [] []
  | cons {p ps τ τs Δ₁ Δ₂} : PatType p τ Δ₁ → PatsType ps τs Δ₂ → PatsType (p :: ps) (τ :: τs) (Δ₂ ++ Δ₁)
inductive FieldsType : List (Nat × Pat) → List STy → MCtx → Prop
  | nil {τs} : FieldsType [] τs []
  | cons {i p fs τ τs Δ₁ Δ₂} : τs[i]? = some τ → PatType p τ Δ₁ → FieldsType fs τs Δ₂ →
      FieldsType ((i, p) :: fs) τs (Δ₂ ++ Δ₁)
end

/-- where each field of a record expression's result comes from, with its type -/
inductive LayoutOk : List Src → List STy → List STy → List STy → Prop
  | nil {σs βs} : LayoutOk [] σs βs []
  | field {i l σs βs τ τs} : σs[i]? = some τ → LayoutOk l σs βs τs → LayoutOk (.field i :: l) σs βs (τ :: τs)
  | base {j l σs βs τ τs} : βs[j]? = some τ → LayoutOk l σs βs τs → LayoutOk (.base j :: l) σs βs (τ :: τs)

def intOp (op : String) : Prop := op = "+" ∨ op = "-" ∨ op = "*" ∨ op = "/"
def cmpOp (op : String) : Prop := op = "==" ∨ op = "<"

/-! ### Expressions -/
mutual
inductive HasType : Ctx → Expr → STy → Prop
  | int {Γ n} : HasType Γ (.int n) .int
  | str {Γ s} : HasType Γ (.str s) .str
  /-- INSTANTIATION: a name may be used at every type of its scheme (typecheck.rs:1004
      `Expr::Ident` → `instantiate`) -/
  | var {Γ x S τ} : lookupCtx Γ x = some S → S τ → HasType Γ (.var x) τ
  | lam {Γ xs body τs ρ τ} : xs ≠ [] → τs.length = xs.length → HasType (bindCtx xs τs Γ) body ρ →
      τ = funTy τs ρ → HasType Γ (.lam xs body) τ
  | app {Γ f args φ σs τ} : HasType Γ f φ → φ = funTy σs τ → HasTypes Γ args σs →
      HasType Γ (.app f args) τ
  | let_ {Γ p e₁ e₂ σ Δ τ} : HasType Γ e₁ σ → PatType D p σ Δ → HasType (liftCtx Δ ++ Γ) e₂ τ →
      HasType Γ (.let_ p e₁ e₂) τ
  /-- GENERALISATION at `let x = e₁` (typecheck.rs:2183 `typecheck_bindings` →
      :2363 `generalize_and_clear_subs`): `x` gets a scheme `S`, any non-empty set of types ALL of
      which `e₁` has in `Γ` (for the syntactic scheme `forall ᾱ . τ₁` with `ᾱ` not free in `Γ`
      these are the instances of `τ₁`, see `Proofs.inferA_sound`). There is NO value restriction,
      as in gluon (`let p = [] in (p, p)` is accepted at `forall a b . (Array a, Array b)`): the
      language is pure and values are type-erased, so one evaluation of `e₁` serves all instances. -/
  | letGen {Γ x e₁ e₂ S σ τ} : S σ → (∀ τ', S τ' → HasType Γ e₁ τ') → HasType ((x, S) :: Γ) e₂ τ →
      HasType Γ (.let_ (.var x) e₁ e₂) τ
  | letrec {Γ binds body τs τ} : HasGroup (recCtx binds τs Γ) binds τs →
      HasType (recCtx binds τs Γ) body τ → HasType Γ (.letrec binds body) τ
  | ite {Γ c a b τ} : HasType Γ c .bool → HasType Γ a τ → HasType Γ b τ → HasType Γ (.ite c a b) τ
  | primInt {Γ op a b} : intOp op → HasType Γ a .int → HasType Γ b .int → HasType Γ (.prim op a b) .int
  | primCmp {Γ op a b} : cmpOp op → HasType Γ a .int → HasType Γ b .int → HasType Γ (.prim op a b) .bool
  | and_ {Γ a b} : HasType Γ a .bool → HasType Γ b .bool → HasType Γ (.and_ a b) .bool
  | or_ {Γ a b} : HasType Γ a .bool → HasType Γ b .bool → HasType Γ (.or_ a b) .bool
  | ctor {Γ d tag arity τs τ} : D d tag = some τs → arity = τs.length → τ = funTy τs (.named d) →
      HasType Γ (.ctor tag arity) τ
  | false_ {Γ} : HasType Γ (.ctor 0 0) .bool
  | true_ {Γ} : HasType Γ (.ctor 1 0) .bool
  | match_ {Γ s alts σ τ} : HasType Γ s σ → HasAlts Γ σ alts τ → HasType Γ (.match_ s alts) τ
  | record {Γ fields layout σs τs} : HasTypes Γ fields σs → LayoutOk layout σs [] τs →
      HasType Γ (.record fields none layout) (.recd τs)
  | update {Γ fields be layout σs βs τs} : HasTypes Γ fields σs → HasType Γ be (.recd βs) →
      LayoutOk layout σs βs τs → HasType Γ (.record fields (some be) layout) (.recd τs)
  | proj {Γ e i τs τ} : HasType Γ e (.recd τs) → τs[i]? = some τ → HasType Γ (.proj e i) τ
  | array {Γ es τs τ} : HasTypes Γ es τs → τs = List.replicate es.length τ → HasType Γ (.array es) (.arr τ)
  | error {Γ msg τ} : HasType Γ (.error msg) τ
inductive HasTypes : Ctx → List Expr → List STy → Prop
  | nil {Γ} : HasTypes Γ [] []
  | cons {Γ e es τ τs} : HasType Γ e τ → HasTypes Γ es τs → HasTypes Γ (e :: es) (τ :: τs)
inductive HasAlts : Ctx → STy → List (Pat × Expr) → STy → Prop
  | nil {Γ σ τ} : HasAlts Γ σ [] τ
  | cons {Γ σ p e alts Δ τ} : PatType D p σ Δ → HasType (liftCtx Δ ++ Γ) e τ → HasAlts Γ σ alts τ →
      HasAlts Γ σ ((p, e) :: alts) τ
/-- the bindings of a `rec` group, all checked in the context `Γ'` that already holds the group;
    every binding is a function (at least one parameter) -/
inductive HasGroup : Ctx → List (String × List String × Expr) → List STy → Prop
  | nil {Γ'} : HasGroup Γ' [] []
  | cons {Γ' f params body rest σs ρ τs} : σs.length = params.length → params ≠ [] →
      HasType (bindCtx params σs Γ') body ρ → HasGroup Γ' rest τs →
      HasGroup Γ' ((f, params, body) :: rest) (funTy σs ρ :: τs)
end

/-! ### Values: `HasShape v τ` — the run-time value `v` has the shape of type `τ`
(what the harness's type-directed walk of `ValueRef` against `ArcType` checks on the real VM). -/
mutual
inductive HasShape : Val → STy → Prop
  | int {n} : HasShape (.int n) .int
  | str {s} : HasShape (.str s) .str
  | false_ : HasShape (.data 0 []) .bool
  | true_ : HasShape (.data 1 []) .bool
  | recd {vs τs} : HasShapes vs τs → HasShape (.data 0 vs) (.recd τs)
  | variant {d tag vs τs} : D d tag = some τs → HasShapes vs τs → HasShape (.data tag vs) (.named d)
  | arr {vs τ} : HasShapeAll vs τ → HasShape (.arr vs) (.arr τ)
  | clos {params body env Γ τs ρ a b} : EnvOk env Γ → τs.length = params.length →
      HasType D (bindCtx params τs Γ) body ρ → STy.fn a b = funTy τs ρ →
      HasShape (.clos params body env) (.fn a b)
  | recclos {group idx env Γ τs a b} : EnvOk env Γ → HasGroup D (recCtx group τs Γ) group τs →
      τs[idx]? = some (.fn a b) → HasShape (.recclos group idx env) (.fn a b)
  | ctorfn {d tag arity τs a b} : D d tag = some τs → arity = τs.length →
      STy.fn a b = funTy τs (.named d) → HasShape (.ctorfn tag arity) (.fn a b)
  /-- a partial application still waits for at least one argument -/
  | pap {f args φ σs a b} : HasShape f φ → φ = funTy σs (.fn a b) → HasShapes args σs →
      HasShape (.pap f args) (.fn a b)
inductive HasShapes : List Val → List STy → Prop
  | nil : HasShapes [] []
  | cons {v vs τ τs} : HasShape v τ → HasShapes vs τs → HasShapes (v :: vs) (τ :: τs)
inductive HasShapeAll : List Val → STy → Prop
  | nil {τ} : HasShapeAll [] τ
  | cons {v vs τ} : HasShape v τ → HasShapeAll vs τ → HasShapeAll (v :: vs) τ
/-- environment `ρ` provides, binding by binding, values of the shapes the context `Γ` promises:
    a value bound to a name with scheme `S` has the shape of EVERY type in `S` -/
inductive EnvOk : Env → Ctx → Prop
  | nil : EnvOk [] []
  | cons {x v S env Γ} : (∀ τ, S τ → HasShape v τ) → EnvOk env Γ → EnvOk ((x, v) :: env) ((x, S) :: Γ)
end

/-- What the REAL checker accepts for a record literal that is checked against an expected record
    type (check/src/typecheck.rs:1016-1043, as of /repo commit ebc4408). The literal's field names
    are compared with the expected type's as a set (`expected_fields_matches`) AND in sequence
    (`expected_order_matches`); only when both agree is the subsumption against the expected type
    skipped (`expected_type.take()`) and the literal given the expected type. In the positional
    model: the expected type must list the literal's own field types in the literal's own order.
    (With any other order the subsumption runs and the order-sensitive comparison of closed rows,
    check/src/unify_type.rs:500-513, rejects.) -/
inductive AcceptsReal : Ctx → Expr → STy → Prop
  | sound {Γ e τ} : HasType D Γ e τ → AcceptsReal Γ e τ
  | literalExpectedOrder {Γ fields layout σs τs τs'} : HasTypes D Γ fields σs →
      LayoutOk layout σs [] τs → τs' = τs → AcceptsReal Γ (.record fields none layout) (.recd τs')

/-- The rule BEFORE commit ebc4408 (defect D17): the names were compared as a set only
    (`FnvSet`), so the literal was given the expected type for ANY permutation of its fields while
    the compiler lays it out in source order. Kept for the regression theorems. -/
inductive AcceptsRealOld : Ctx → Expr → STy → Prop
  | sound {Γ e τ} : HasType D Γ e τ → AcceptsRealOld Γ e τ
  | literalAnyOrder {Γ fields layout σs τs τs'} : HasTypes D Γ fields σs → LayoutOk layout σs [] τs →
      List.Perm τs τs' → AcceptsRealOld Γ (.record fields none layout) (.recd τs')

/-- "did not go wrong, and a value has the promised shape" -/
def Safe (r : Res) (τ : STy) : Prop :=
  match r with
  | .ok v => HasShape D v τ
  | .error (.wrong _) => False
  | .error _ => True

def SafeL (r : Except Err (List Val)) (τs : List STy) : Prop :=
  match r with
  | .ok vs => HasShapes D vs τs
  | .error (.wrong _) => False
  | .error _ => True

def SafeAll (r : Except Err (List Val)) (τ : STy) : Prop :=
  match r with
  | .ok vs => HasShapeAll D vs τ
  | .error (.wrong _) => False
  | .error _ => True

end

end GluonModel.SurfTy
