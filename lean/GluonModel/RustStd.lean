/-
Documented behaviour of the `core`/`std` functions that gluon's primitive tables call *directly*
(vm/src/primitives.rs `load_int`, `load_byte`, `load_char`, `load_string`, …), as far as C06 needs it:
value (two's complement, 64-bit `VmInt = i64`, `u8`, `u32`, `usize = u64`) and **panic condition**.
The harness builds gluon in a debug profile (overflow checks on), so "attempt to … with overflow" panics
are part of the behaviour (`#[rustc_inherit_overflow_checks]` functions `pow`, `abs`, `<<`, `>>`).

Integers are modelled as `Int` restricted to the type's range; `R α` is "returned a value or panicked".
Trusted (not proved, exercised by the correspondence on boundary values): that these definitions are what
Rust 1.95's libcore does.  x86-64 little endian is assumed for `to_be`/`from_be`.
-/
namespace GluonModel.RustStd

/-- Result of running Rust code that may panic (unwinding). -/
inductive R (α : Type) where
  | ret (a : α)
  | panic
  deriving Repr, DecidableEq

def R.map {α β} (f : α → β) : R α → R β
  | .ret a => .ret (f a)
  | .panic => .panic

def i64Min : Int := -9223372036854775808
def i64Max : Int := 9223372036854775807
def two64 : Int := 18446744073709551616
def two63 : Int := 9223372036854775808

def InI64 (x : Int) : Prop := i64Min ≤ x ∧ x ≤ i64Max
instance (x : Int) : Decidable (InI64 x) := by unfold InI64; infer_instance

/-- `x as i64` for a mathematical integer (wrap to two's complement). -/
def wrap64 (x : Int) : Int := (x + two63) % two64 - two63
/-- `x as u64` / `as usize`. -/
def toU64 (x : Int) : Int := x % two64
/-- `x as u32`. -/
def toU32 (x : Int) : Int := x % 4294967296
/-- `x as i32`. -/
def toI32 (x : Int) : Int := (x + 2147483648) % 4294967296 - 2147483648
/-- `x as u8`. -/
def toU8 (x : Int) : Int := x % 256
/-- bit pattern of an i64 as a natural number -/
def bits64 (x : Int) : Nat := (toU64 x).toNat
/-- i64 from a 64-bit pattern -/
def ofBits64 (n : Nat) : Int := wrap64 (Int.ofNat n)

/-! ### i64 -/

def i64_wrapping_add (a b : Int) : Int := wrap64 (a + b)
def i64_wrapping_sub (a b : Int) : Int := wrap64 (a - b)
def i64_wrapping_mul (a b : Int) : Int := wrap64 (a * b)
def i64_wrapping_neg (a : Int) : Int := wrap64 (-a)
def i64_wrapping_abs (a : Int) : Int := wrap64 (if a < 0 then -a else a)
def sat64 (x : Int) : Int := if x < i64Min then i64Min else if x > i64Max then i64Max else x
def i64_saturating_add (a b : Int) : Int := sat64 (a + b)
def i64_saturating_sub (a b : Int) : Int := sat64 (a - b)
def i64_saturating_mul (a b : Int) : Int := sat64 (a * b)
def ovf64 (x : Int) : Int × Bool := (wrap64 x, decide (¬ InI64 x))
def i64_overflowing_add (a b : Int) := ovf64 (a + b)
def i64_overflowing_sub (a b : Int) := ovf64 (a - b)
def i64_overflowing_mul (a b : Int) := ovf64 (a * b)
def i64_overflowing_neg (a : Int) := ovf64 (-a)
def i64_overflowing_abs (a : Int) := ovf64 (if a < 0 then -a else a)
def i64_signum (a : Int) : Int := if a > 0 then 1 else if a < 0 then -1 else 0

/-- `i64::abs`: "attempt to negate with overflow" on `MIN` (debug). -/
def i64_abs (a : Int) : R Int := if a = i64Min then .panic else .ret (if a < 0 then -a else a)

/-- `a << n` through `ops::Shl::shl` (vm/src/primitives.rs:405 `bit_const!`): panics unless 0 ≤ n < 64. -/
def i64_shl (a n : Int) : R Int :=
  if 0 ≤ n ∧ n < 64 then .ret (wrap64 (a * 2 ^ n.toNat)) else .panic
/-- arithmetic `a >> n`: panics unless 0 ≤ n < 64. -/
def i64_shr (a n : Int) : R Int :=
  if 0 ≤ n ∧ n < 64 then .ret (a / 2 ^ n.toNat) else .panic
/-- `u64 >> u64` (`logical_shr`, arguments arrive `as u64`): panics unless n < 64. -/
def u64_shr (a n : Int) : R Int :=
  if n < 64 then .ret (a / 2 ^ n.toNat) else .panic

/-- `i64::pow(self, exp: u32)`: panics (debug) iff the mathematical result does not fit.
    (The square-and-multiply loop of libcore only multiplies factors of the result.)  The cases are
    split so that the model never computes an astronomically large power. -/
def i64_pow (x e : Int) : R Int :=
  if e = 0 then .ret 1
  else if x = 0 then .ret 0
  else if x = 1 then .ret 1
  else if x = -1 then .ret (if e % 2 = 0 then 1 else -1)
  else if e ≥ 64 then .panic
  else if InI64 (x ^ e.toNat) then .ret (x ^ e.toNat) else .panic

/-- `a % b`: panics on `b = 0` and on `MIN % -1` (both unconditional in Rust). -/
def i64_rem (a b : Int) : R Int :=
  if b = 0 then .panic else if a = i64Min ∧ b = -1 then .panic else .ret (Int.tmod a b)
def i64_rem_euclid (a b : Int) : R Int :=
  if b = 0 then .panic else if a = i64Min ∧ b = -1 then .panic else .ret (Int.emod a b)
def i64_wrapping_div (a b : Int) : R Int :=
  if b = 0 then .panic else .ret (wrap64 (Int.tdiv a b))
def i64_overflowing_div (a b : Int) : R (Int × Bool) :=
  if b = 0 then .panic else .ret (ovf64 (Int.tdiv a b))
def i64_wrapping_rem (a b : Int) : R Int :=
  if b = 0 then .panic else .ret (if b = -1 then 0 else Int.tmod a b)
def i64_wrapping_rem_euclid (a b : Int) : R Int :=
  if b = 0 then .panic else .ret (if b = -1 then 0 else Int.emod a b)
def i64_overflowing_rem (a b : Int) : R (Int × Bool) :=
  if b = 0 then .panic else .ret (if b = -1 then (0, decide (a = i64Min)) else (Int.tmod a b, false))
def i64_overflowing_rem_euclid (a b : Int) : R (Int × Bool) :=
  if b = 0 then .panic else .ret (if b = -1 then (0, decide (a = i64Min)) else (Int.emod a b, false))
/-- `checked_rem`: libcore tests `rhs == 0 || (self == MIN && rhs == -1)` and otherwise computes `%`. -/
def i64_checked_rem (a b : Int) : R (Option Int) :=
  if b = 0 ∨ (a = i64Min ∧ b = -1) then .ret none else (i64_rem a b).map some
def i64_checked_rem_euclid (a b : Int) : R (Option Int) :=
  if b = 0 ∨ (a = i64Min ∧ b = -1) then .ret none else (i64_rem_euclid a b).map some

def popcount : Nat → Nat → Nat
  | 0, _ => 0
  | fuel + 1, n => (n % 2) + popcount fuel (n / 2)
def trailingZeros (width : Nat) : Nat → Nat → Nat
  | 0, _ => width
  | fuel + 1, n => if n = 0 then width else if n % 2 = 1 then width - (fuel + 1) else trailingZeros width fuel (n / 2)
def bitLen : Nat → Nat → Nat
  | 0, _ => 0
  | fuel + 1, n => if n = 0 then 0 else 1 + bitLen fuel (n / 2)

def i64_count_ones (a : Int) : Int := popcount 64 (bits64 a)
def i64_count_zeros (a : Int) : Int := 64 - popcount 64 (bits64 a)
def i64_leading_zeros (a : Int) : Int := 64 - bitLen 64 (bits64 a)
def i64_trailing_zeros (a : Int) : Int := trailingZeros 64 64 (bits64 a)
def rotl (width n k : Nat) : Nat :=
  let k := k % width
  ((n <<< k) % 2 ^ width) ||| (n >>> (width - k))
def i64_rotate_left (a n : Int) : Int := ofBits64 (rotl 64 (bits64 a) (toU32 n).toNat)
def i64_rotate_right (a n : Int) : Int := ofBits64 (rotl 64 (bits64 a) (64 - (toU32 n).toNat % 64))
def swapBytes : Nat → Nat → Nat
  | 0, _ => 0
  | k + 1, n => (n % 256) * 256 ^ k + swapBytes k (n / 256)
def i64_swap_bytes (a : Int) : Int := ofBits64 (swapBytes 8 (bits64 a))
def i64_bitand (a b : Int) : Int := ofBits64 (bits64 a &&& bits64 b)
def i64_bitor (a b : Int) : Int := ofBits64 (bits64 a ||| bits64 b)
def i64_bitxor (a b : Int) : Int := ofBits64 (bits64 a ^^^ bits64 b)

/-! ### u8 (values 0..255 as `Int`) -/

def InU8 (x : Int) : Prop := 0 ≤ x ∧ x ≤ 255
instance (x : Int) : Decidable (InU8 x) := by unfold InU8; infer_instance
def sat8 (x : Int) : Int := if x < 0 then 0 else if x > 255 then 255 else x
def ovf8 (x : Int) : Int × Bool := (toU8 x, decide (¬ InU8 x))
def u8_shl (a n : Int) : R Int := if n < 8 then .ret (toU8 (a * 2 ^ n.toNat)) else .panic
def u8_shr (a n : Int) : R Int := if n < 8 then .ret (a / 2 ^ n.toNat) else .panic
def u8_pow (x e : Int) : R Int :=
  if e = 0 then .ret 1
  else if x = 0 then .ret 0
  else if x = 1 then .ret 1
  else if e ≥ 8 then .panic
  else if InU8 (x ^ e.toNat) then .ret (x ^ e.toNat) else .panic
def u8_wrapping_div (a b : Int) : R Int := if b = 0 then .panic else .ret (a / b)
def u8_overflowing_div (a b : Int) : R (Int × Bool) := if b = 0 then .panic else .ret (a / b, false)
def u8_rotate_left (a n : Int) : Int := Int.ofNat (rotl 8 a.toNat (toU32 n).toNat)
def u8_rotate_right (a n : Int) : Int := Int.ofNat (rotl 8 a.toNat (8 - (toU32 n).toNat % 8))

/-! ### char -/

def isScalar (n : Int) : Bool := (0 ≤ n ∧ n < 55296) ∨ (57344 ≤ n ∧ n ≤ 1114111)
/-- `char::from_u32` -/
def char_from_u32 (n : Int) : Option Int := if isScalar n then some n else none
def digitVal (c : Int) : Option Int :=
  if 48 ≤ c ∧ c ≤ 57 then some (c - 48)
  else if 97 ≤ c ∧ c ≤ 122 then some (c - 97 + 10)
  else if 65 ≤ c ∧ c ≤ 90 then some (c - 65 + 10)
  else none
/-- `char::to_digit(self, radix: u32)`: panics unless 2 ≤ radix ≤ 36. -/
def char_to_digit (c radix : Int) : R (Option Int) :=
  if 2 ≤ radix ∧ radix ≤ 36 then
    .ret (match digitVal c with
      | some d => if d < radix then some d else none
      | none => none)
  else .panic
def char_is_digit (c radix : Int) : R Bool := (char_to_digit c radix).map Option.isSome
def char_len_utf8 (c : Int) : Int := if c < 128 then 1 else if c < 2048 then 2 else if c < 65536 then 3 else 4
def char_len_utf16 (c : Int) : Int := if c < 65536 then 1 else 2

/-! ### str (a `&str` is its UTF-8 byte list) -/

abbrev Bytes := List Nat

def isCont (b : Nat) : Bool := 128 ≤ b ∧ b < 192

/-- `str::is_char_boundary` -/
def isCharBoundary (s : Bytes) (i : Nat) : Bool :=
  if i = 0 then true
  else if i = s.length then true
  else if i > s.length then false
  else !isCont (s.getD i 0)

/-- `&s[a..b]`: panics unless a ≤ b ≤ len and both on char boundaries. -/
def str_index (s : Bytes) (a b : Nat) : R Bytes :=
  if a ≤ b ∧ b ≤ s.length ∧ isCharBoundary s a ∧ isCharBoundary s b then .ret ((s.drop a).take (b - a)) else .panic
/-- `&s[a..]` -/
def str_from (s : Bytes) (a : Nat) : R Bytes :=
  if a ≤ s.length ∧ isCharBoundary s a then .ret (s.drop a) else .panic
/-- `str::split_at`: panics unless `mid` is on a char boundary (which includes mid ≤ len). -/
def str_split_at (s : Bytes) (mid : Nat) : R (Bytes × Bytes) :=
  if isCharBoundary s mid then .ret (s.take mid, s.drop mid) else .panic

def encodeUtf8 (c : Nat) : Bytes :=
  if c < 128 then [c]
  else if c < 2048 then [192 + c / 64, 128 + c % 64]
  else if c < 65536 then [224 + c / 4096, 128 + (c / 64) % 64, 128 + c % 64]
  else [240 + c / 262144, 128 + (c / 4096) % 64, 128 + (c / 64) % 64, 128 + c % 64]

/-- first scalar value of a valid UTF-8 byte list (`chars().next()`) -/
def firstChar : Bytes → Option Nat
  | [] => none
  | b0 :: rest =>
    if b0 < 128 then some b0
    else if b0 < 224 then some ((b0 - 192) * 64 + (rest.getD 0 128 - 128))
    else if b0 < 240 then some ((b0 - 224) * 4096 + (rest.getD 0 128 - 128) * 64 + (rest.getD 1 128 - 128))
    else some ((b0 - 240) * 262144 + (rest.getD 0 128 - 128) * 4096 + (rest.getD 1 128 - 128) * 64
                + (rest.getD 2 128 - 128))

/-- last scalar value (for `String::pop`) and the remaining prefix -/
def popChar (s : Bytes) : Option (Nat × Bytes) :=
  if s.isEmpty then none else
  let r := s.reverse
  let n := (r.takeWhile isCont).length + 1
  let pre := s.take (s.length - n)
  match firstChar (s.drop (s.length - n)) with
  | some c => some (c, pre)
  | none => none

/-- UTF-8 validity as checked by `str::from_utf8` (Unicode Table 3-7). -/
def validUtf8 : Nat → Bytes → Bool
  | 0, _ => false
  | _ + 1, [] => true
  | fuel + 1, b0 :: rest =>
    if b0 < 128 then validUtf8 fuel rest
    else if 194 ≤ b0 ∧ b0 ≤ 223 then
      match rest with
      | b1 :: r => isCont b1 && validUtf8 fuel r
      | _ => false
    else if 224 ≤ b0 ∧ b0 ≤ 239 then
      match rest with
      | b1 :: b2 :: r =>
        let lo := if b0 = 224 then 160 else 128
        let hi := if b0 = 237 then 159 else 191
        decide (lo ≤ b1 ∧ b1 ≤ hi) && isCont b2 && validUtf8 fuel r
      | _ => false
    else if 240 ≤ b0 ∧ b0 ≤ 244 then
      match rest with
      | b1 :: b2 :: b3 :: r =>
        let lo := if b0 = 240 then 144 else 128
        let hi := if b0 = 244 then 143 else 191
        decide (lo ≤ b1 ∧ b1 ≤ hi) && isCont b2 && isCont b3 && validUtf8 fuel r
      | _ => false
    else false

def isPrefix : Bytes → Bytes → Bool
  | [], _ => true
  | _ :: _, [] => false
  | a :: p, b :: s => a == b && isPrefix p s

/-- byte offset of the first occurrence (`str::find::<&str>`) -/
def findFrom (pat : Bytes) : Nat → Bytes → Option Nat
  | i, [] => if pat.isEmpty then some i else none
  | i, s@(_ :: t) => if isPrefix pat s then some i else findFrom pat (i + 1) t

/-- all offsets at which `pat` occurs -/
def occurrences (pat : Bytes) : Nat → Bytes → List Nat
  | i, [] => if pat.isEmpty then [i] else []
  | i, s@(_ :: t) => (if isPrefix pat s then [i] else []) ++ occurrences pat (i + 1) t

def str_find (s pat : Bytes) : Option Nat := findFrom pat 0 s
/-- `rfind`: the last occurrence; for the empty pattern only char boundaries count. -/
def str_rfind (s pat : Bytes) : Option Nat :=
  ((occurrences pat 0 s).filter (fun i => isCharBoundary s i)).getLast?
def str_ends_with (s pat : Bytes) : Bool := isPrefix pat.reverse s.reverse

def cmpBytes : Bytes → Bytes → Nat   -- Ordering as the tag gluon uses: LT = 0, EQ = 1, GT = 2
  | [], [] => 1
  | [], _ :: _ => 0
  | _ :: _, [] => 2
  | a :: s, b :: t => if a < b then 0 else if a > b then 2 else cmpBytes s t

/-! ### parsing -/

/-- `i64::from_str_radix` / `str::parse::<i64>` once the radix is known to be valid. `none` = `Err`. -/
def parseDigits (radix : Int) : Bytes → Int → Option Int
  | [], acc => some acc
  | c :: cs, acc =>
    match digitVal (Int.ofNat c) with
    | some d => if d < radix then parseDigits radix cs (acc * radix + d) else none
    | none => none

def parseSigned (lo hi : Int) (signed : Bool) (radix : Int) (s : Bytes) : Option Int :=
  match s with
  | [] => none
  | [43] => none
  | [45] => none
  | 43 :: ds => (parseDigits radix ds 0).bind fun v => if v ≤ hi then some v else none
  | 45 :: ds =>
    if signed then (parseDigits radix ds 0).bind fun v => if lo ≤ -v then some (-v) else none else none
  | ds => (parseDigits radix ds 0).bind fun v => if v ≤ hi then some v else none

/-- `i64::from_str_radix(src, radix: u32)`: panics unless 2 ≤ radix ≤ 36. -/
def i64_from_str_radix (s : Bytes) (radix : Int) : R (Option Int) :=
  if 2 ≤ radix ∧ radix ≤ 36 then .ret (parseSigned i64Min i64Max true radix s) else .panic

def showNat (n : Nat) : Bytes := (toString n).toUTF8.toList.map (·.toNat)
def showInt (i : Int) : Bytes := if i < 0 then 45 :: showNat i.natAbs else showNat i.toNat

end GluonModel.RustStd
