/-
C07 model, part (v): which calls the compiler emits as `TailCall`.

vm/src/compiler.rs `compile` (631-650) / `compile_` (652-965) / `compile_primitive` (967-1033) thread a
flag `tail_position` through the core expression; `emit_call(args, tail_position)` (317-324, used at
794) turns a call into `TailCall` when the flag is set.  A function body starts with the flag set
(`compile_lambda` 1130, `compile_expr` 590).  Two other places emit a plain `Call(2)` directly: an
unknown `#`-primitive (1023-1026, 1030) and the `string_eq` test of a string-literal pattern (872).

`E` is the shape of a core expression of ONE function (closures with parameters are separate
functions and do not appear; parameterless recursive bindings are compiled in place, 710-711).
`flags tail e` = the kinds of the call instructions in emission order (true = `TailCall`).
-/
namespace GluonModel.TailPos

mutual
inductive E where
  /-- Const / Ident (659-666): no call -/
  | atom
  /-- `Let` with `Named::Expr` (672-679, 770) -/
  | letE (bind body : E)
  /-- `Let` with `Named::Recursive` (680-768): the parameterless bindings compiled in place -/
  | letRec (inplace : Es) (body : E)
  /-- ordinary call (790-794) -/
  | call (f : E) (args : Es)
  /-- saturated constructor (779-788): arguments only, `ConstructVariant` -/
  | ctor (args : Es)
  /-- `&&` (977-989) -/
  | andE (l r : E)
  /-- `||` (990-1002) -/
  | orE (l r : E)
  /-- arithmetic / comparison instruction (1004-1030) -/
  | binE (l r : E)
  /-- any other `#` primitive: `load_identifier(op)`, both operands, `Call(2)` (1023-1030) -/
  | primOther (l r : E)
  /-- `Match` (796-920) -/
  | matchE (scrut : E) (alts : Alts)
  /-- `Data` (921-960) -/
  | data (xs : Es)
  /-- `Cast` (962) -/
  | cast (e : E)
inductive Es where
  | nil
  | cons (e : E) (es : Es)
inductive Alts where
  | nil
  /-- `strLit`: the pattern is a string literal (its test is a `Call(2)` of `string_eq`, 859-873) -/
  | cons (strLit : Bool) (e : E) (rest : Alts)
end

mutual
/-- Kinds of the emitted call instructions, in emission order. -/
def flags : Bool → E → List Bool
  | _, .atom => []
  | t, .letE b body => flags false b ++ flags t body
  | t, .letRec vs body => flagsAll vs ++ flags t body
  | t, .call f args => flags false f ++ flagsAll args ++ [t]
  | _, .ctor args => flagsAll args
  | t, .andE l r => flags false l ++ flags t r
  | t, .orE l r => flags false l ++ flags t r
  | _, .binE l r => flags false l ++ flags false r
  | _, .primOther l r => flags false l ++ flags false r ++ [false]
  | t, .matchE s alts => flags false s ++ altTests alts ++ flagsAlts t alts
  | _, .data xs => flagsAll xs
  | t, .cast e => flags t e
/-- a list of sub-expressions compiled with `tail_position = false` -/
def flagsAll : Es → List Bool
  | .nil => []
  | .cons e es => flags false e ++ flagsAll es
/-- first loop of `Match` (804-879): the tests -/
def altTests : Alts → List Bool
  | .nil => []
  | .cons strLit _ rest => (if strLit then [false] else []) ++ altTests rest
/-- second loop (883-915): the alternatives' bodies, `compile(&alt.expr, function, tail_position)` -/
def flagsAlts : Bool → Alts → List Bool
  | _, .nil => []
  | t, .cons _ e rest => flags t e ++ flagsAlts t rest
end

/-- A function body (`compile_lambda` 1130 / `compile_expr` 590: `tail_position = true`). -/
def bodyFlags (e : E) : List Bool := flags true e

/-! The specification: a call is a tail call iff every step from the function body down to it goes
through a position whose value *is* the value of the enclosing expression. -/

inductive Ctx where
  | letBind | letBody | recVal | recBody | callFn | callArg | ctorArg
  | andL | andR | orL | orR | binL | binR | primL | primR | primCall
  | scrut | strTest | alt | dataArg | cast
  deriving DecidableEq, Repr

/-- The tail contexts of the language (cf. `Generated.TailContexts.table`). -/
def Ctx.inherits : Ctx → Bool
  | .letBody | .recBody | .andR | .orR | .alt | .cast => true
  | _ => false

mutual
/-- The path (outermost first) to every emitted call, in emission order. -/
def paths : E → List (List Ctx)
  | .atom => []
  | .letE b body => (paths b).map (Ctx.letBind :: ·) ++ (paths body).map (Ctx.letBody :: ·)
  | .letRec vs body => (pathsAll Ctx.recVal vs) ++ (paths body).map (Ctx.recBody :: ·)
  | .call f args => (paths f).map (Ctx.callFn :: ·) ++ pathsAll Ctx.callArg args ++ [[]]
  | .ctor args => pathsAll Ctx.ctorArg args
  | .andE l r => (paths l).map (Ctx.andL :: ·) ++ (paths r).map (Ctx.andR :: ·)
  | .orE l r => (paths l).map (Ctx.orL :: ·) ++ (paths r).map (Ctx.orR :: ·)
  | .binE l r => (paths l).map (Ctx.binL :: ·) ++ (paths r).map (Ctx.binR :: ·)
  | .primOther l r => (paths l).map (Ctx.primL :: ·) ++ (paths r).map (Ctx.primR :: ·) ++ [[Ctx.primCall]]
  | .matchE s alts => (paths s).map (Ctx.scrut :: ·) ++ pathsTests alts ++ pathsAlts alts
  | .data xs => pathsAll Ctx.dataArg xs
  | .cast e => (paths e).map (Ctx.cast :: ·)
def pathsAll (c : Ctx) : Es → List (List Ctx)
  | .nil => []
  | .cons e es => (paths e).map (c :: ·) ++ pathsAll c es
def pathsTests : Alts → List (List Ctx)
  | .nil => []
  | .cons strLit _ rest => (if strLit then [[Ctx.strTest]] else []) ++ pathsTests rest
def pathsAlts : Alts → List (List Ctx)
  | .nil => []
  | .cons _ e rest => (paths e).map (Ctx.alt :: ·) ++ pathsAlts rest
end

def isTailPath (p : List Ctx) : Bool := p.all Ctx.inherits

end GluonModel.TailPos
