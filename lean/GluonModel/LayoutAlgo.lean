/-
Model of the layout algorithm of gluon's parser: /repo/parser/src/layout.rs (all of it:
`Contexts::push`/`check_unindentation_limit` :82-118, `continue_block` :139, `scan_continue_block`
:148, `peek_token` :182, `next_token` :199, `layout_token` :222, `scan_for_next_block` :232,
`layout_next_token` :277-604, `token_closes_context` :607, `Iterator::next` :629).

Tokens are abstracted to their *kind* plus the start location (line, column, absolute) and
the absolute end; that is all `layout.rs` ever looks at.  The token source is modelled as
the `Tokenizer` behaves (parser/src/token.rs:785-853): the real tokens, then `EOF` **for ever**
(`Tokenizer::next` never returns `None`), or an `Err` item (`lexErr`).

The model is the code as it is, including
 * `peek_token` returning `unprocessed_tokens.first()` (the *bottom* of the stack) whatever `n` is,
 * the unbounded `for i in 0..` of `scan_continue_block` (:159) — it used to run for ever once
   inside an attribute at end of input (finding `hang:layout:scan_continue_block`, fixed by
   commit 3521415; the old rule is kept as `scanLoopOld`),
 * the two `expect("No top level block found")` (:359, :475) as the outcome `panic`.
No imports: this file is linked into the native driver.
-/
namespace GluonModel.LayoutAlgo

inductive Kind where
  | shebang | doc | attrOpen
  | rec_ | else_ | if_ | in_ | let_ | do_ | seq_ | match_ | then_ | type_ | with_
  | comma | equals | lambda | pipe | rarrow
  | lbrace | lbracket | lparen | rbrace | rbracket | rparen
  | openBlock | closeBlock | semi
  | eof
  | other      -- identifiers, literals, operators, `forall`, `@`, `:`, `.`, `..`, `?`
  | lexErr     -- the tokenizer yields `Err(..)` here
  deriving DecidableEq, Repr, Inhabited

/-- layout.rs:29 `Context`. -/
inductive Ctx where
  | block (emitSemi : Bool)
  | brace | bracket | paren | expr | let_ | rec_ | type_ | if_ | matchClause | lambda | attribute
  deriving DecidableEq, Repr, Inhabited

def Ctx.isBlock : Ctx → Bool
  | .block _ => true
  | _ => false

structure Loc where
  line : Nat
  col : Nat
  abs : Nat
  deriving DecidableEq, Repr, Inhabited

/-- A token: kind, start location, absolute end. -/
structure Tok where
  kind : Kind
  loc : Loc
  stop : Nat
  deriving DecidableEq, Repr, Inhabited

/-- layout.rs:17 `Offside`. -/
structure Offside where
  loc : Loc
  ctx : Ctx
  deriving DecidableEq, Repr, Inhabited

inductive LErr where
  | unindented (abs : Nat)        -- layout.rs:111
  | lex (start stop : Nat)        -- token error mapped at :185 / :212
  deriving DecidableEq, Repr, Inhabited

/-- State of `Layout` (:121).  `unproc` and `stack` have the *top* (Vec's last element) at the
    head; `input` is what the tokenizer has not produced yet, `eofTok` what it produces for ever
    afterwards. -/
structure St where
  input : List Tok
  eofTok : Tok
  unproc : List Tok
  stack : List Offside
  deriving Repr, Inhabited

/-- layout.rs:607 `token_closes_context`. -/
def closes (k : Kind) (c : Ctx) : Bool :=
  match k, c with
  | .else_, .if_ => true
  | .rbrace, .brace => true
  | .rbracket, .bracket => true
  | .rparen, .paren => true
  | .in_, .rec_ => true
  | .in_, .let_ => true
  | .in_, .type_ => true
  | .rbracket, .attribute => true
  | _, .block _ => true
  | _, _ => false

/-- layout.rs:88 `check_unindentation_limit`; `true` = Ok.  The Rust loop runs over
    `stack.iter().rev()`, i.e. from the top = our head. -/
def checkUnindent (col : Nat) : List Offside → Bool → Bool
  | [], _ => true
  | o :: rest, skip =>
    match o.ctx with
    | .lambda => checkUnindent col rest true
    | .block _ =>
      if skip then checkUnindent col rest skip
      else if col < o.loc.col then false else checkUnindent col rest skip
    | .brace | .bracket | .paren => true
    | .matchClause | .type_ | .rec_ | .let_ =>
      if col < o.loc.col then false else checkUnindent col rest skip
    | _ => checkUnindent col rest skip

/-- layout.rs:82 `Contexts::push`. -/
def pushCtx (st : St) (o : Offside) : Except LErr St :=
  if checkUnindent o.loc.col st.stack false then .ok { st with stack := o :: st.stack }
  else .error (.unindented o.loc.abs)

/-- `if let Context::Block { ref mut emit_semi } = last_mut().context { *emit_semi = b }`. -/
def setTopSemi (b : Bool) : List Offside → List Offside
  | o :: rest => (match o.ctx with
      | .block _ => { o with ctx := .block b }
      | _ => o) :: rest
  | [] => []

/-- One item from the tokenizer. -/
def fetch (st : St) : Except LErr (Tok × St) :=
  match st.input with
  | t :: rest =>
    if t.kind = .lexErr then .error (.lex t.loc.abs t.stop) else .ok (t, { st with input := rest })
  | [] => .ok ({ st.eofTok with kind := .eof }, st)   -- token.rs:847: `Token::EOF`, for ever

/-- layout.rs:199 `next_token`. -/
def nextToken (st : St) : Except LErr (Tok × St) :=
  match st.unproc with
  | t :: rest => .ok (t, { st with unproc := rest })
  | [] => fetch st

/-- layout.rs:182 `peek_token n`: fetch until `unprocessed_tokens.len() > n`, inserting each new
    token at index 0 (the bottom = end of our list), then return `first()` — the bottom. -/
def peekToken : Nat → St → Except LErr (Option Tok × St)
  | 0, st => .ok (st.unproc.getLast?, st)      -- the argument = number of fetches still to do
  | fuel + 1, st =>
    match fetch st with
    | .error e => .error e
    | .ok (t, st') => peekToken fuel { st' with unproc := st'.unproc ++ [t] }

inductive ScanRes where
  | done (b : Bool) (st : St)
  | err (e : LErr)
  | hang
  deriving Repr

/-- layout.rs:159-181, the body of `for i in 0..` from `i` on (with the arm
    `Token::EOF => return Ok(false)` of commit 3521415).  `fuel` bounds the number of
    iterations; `scanFuel` always suffices (theorem `scan_terminates`), so the outcome `hang`
    is unreachable; it is kept so that a regression of the real code shows up as a mismatch. -/
def scanLoop (expected : Kind) : Nat → Nat → Bool → Tok → St → ScanRes
  | 0, _, _, _, _ => .hang
  | fuel + 1, i, inAttr, first, st =>
    let peeked : Except LErr (Option Tok × St) :=
      if i = 0 then .ok (some first, st)
      else peekToken (i - st.unproc.length) st      -- `for _ in len..=i-1`
    match peeked with
    | .error e => .err e
    | .ok (none, st') => .done false st'
    | .ok (some t, st') =>
      if t.kind = expected then .done true st'
      else match t.kind with
        | .eof => .done false st'
        | .attrOpen => scanLoop expected fuel (i + 1) true first st'
        | .doc => scanLoop expected fuel (i + 1) inAttr first st'
        | .rbracket => scanLoop expected fuel (i + 1) false first st'
        | _ => if inAttr then scanLoop expected fuel (i + 1) inAttr first st' else .done false st'

/-- Enough iterations: each one either re-reads a buffered token, consumes a token of the
    input, or meets the tokenizer's EOF and returns (theorem `scan_terminates`). -/
def scanFuel (st : St) : Nat := st.unproc.length + st.input.length + 3

/-- layout.rs:148 `scan_continue_block`. -/
def scanContinueBlock (c : Ctx) (first : Tok) (st : St) : ScanRes :=
  match c with
  | .let_ => scanLoop .let_ (scanFuel st) 0 false first st
  | .type_ => scanLoop .type_ (scanFuel st) 0 false first st
  | _ => .done false st

/-- `stack.len() >= 2 && stack[stack.len() - 2].context == Context::Rec` (:140, :540). -/
def inRecOf : List Offside → Bool
  | _ :: o :: _ => o.ctx = Ctx.rec_
  | _ => false

/-- layout.rs:139 `continue_block`. -/
def continueBlock (c : Ctx) (tok : Tok) (st : St) : ScanRes :=
  if inRecOf st.stack then
    if c = Ctx.attribute then .done true st
    else if tok.kind ≠ .rec_ then scanContinueBlock c tok st
    else .done false st
  else .done false st

/-- The column of the first (bottom-most) `Block` context: `stack.iter().find(..)` (:246). -/
def firstBlockCol (stack : List Offside) : Option Nat :=
  (stack.reverse.find? (fun o => o.ctx.isBlock)).map (fun o => o.loc.col)

/-- layout.rs:232 `scan_for_next_block`. -/
def scanForNextBlock (c : Ctx) (st : St) : Except LErr St :=
  match nextToken st with
  | .error e => .error e
  | .ok (next, st) =>
    let st := { st with unproc := next :: st.unproc }
    if c.isBlock then
      match firstBlockCol st.stack with
      | some lastCol =>
        if next.loc.col ≤ lastCol then
          pushCtx { st with unproc := { next with kind := .openBlock } ::
                                      { next with kind := .closeBlock } :: st.unproc }
            ⟨next.loc, c⟩
        else
          pushCtx { st with unproc := { next with kind := .openBlock } :: st.unproc } ⟨next.loc, c⟩
      | none =>
        pushCtx { st with unproc := { next with kind := .openBlock } :: st.unproc } ⟨next.loc, c⟩
    else pushCtx st ⟨next.loc, c⟩

/-- Outcome of one pass through the body of the `loop` at layout.rs:291. -/
inductive Step where
  | ret (t : Tok) (st : St)     -- `return Ok(token)`
  | cont (t : Tok) (st : St)    -- `continue`
  | err (e : LErr)              -- `return Err(..)` / `?`
  | panic                        -- `expect("No top level block found")`
  | hang                         -- `scan_continue_block` never returns
  deriving Repr

/-- `layout_token` (:222): re-queue the real token, give back a synthetic one with its span. -/
def layoutToken (t : Tok) (k : Kind) (st : St) : Step :=
  .ret { t with kind := k } { st with unproc := t :: st.unproc }

def ofExcept (t : Tok) : Except LErr St → Step
  | .ok st => .ret t st
  | .error e => .err e

def isClosingKind : Kind → Bool
  | .in_ | .closeBlock | .else_ | .rbrace | .rbracket | .rparen | .comma => true
  | _ => false

/-- layout.rs:514-527. -/
def pushContextOf : Kind → Option Ctx
  | .rec_ => some .rec_
  | .type_ => some .type_
  | .let_ => some .let_
  | .do_ | .seq_ => some .let_
  | .if_ => some .if_
  | .match_ => some .expr
  | .lambda => some .lambda
  | .lbrace => some .brace
  | .lbracket => some .bracket
  | .lparen => some .paren
  | .attrOpen => some .attribute
  | _ => none

/-- layout.rs:513-602: push a context for the token, or scan for the next block, and return it. -/
def finish (tok : Tok) (offside : Offside) (st : St) : Step :=
  match pushContextOf tok.kind with
  | some c =>
    let pos := if offside.ctx = .rec_ ∧ offside.loc.line = tok.loc.line then offside.loc else tok.loc
    let st := if offside.ctx = c ∧ (offside.ctx = .type_ ∨ offside.ctx = .let_) ∧ inRecOf st.stack
      then { st with stack := st.stack.tail } else st
    ofExcept tok (pushCtx st ⟨pos, c⟩)
  | none =>
    match tok.kind, offside.ctx with
    | .in_, c =>                                   -- :553 (unreachable: `in` is a closing token)
      let st := { st with stack := st.stack.tail }
      if c.isBlock then layoutToken tok .closeBlock st else .ret tok st
    | .equals, .let_ | .rarrow, .lambda | .rarrow, .matchClause | .then_, _ =>
      ofExcept tok (scanForNextBlock (.block false) st)
    | .with_, _ => ofExcept tok (scanForNextBlock .matchClause st)
    | .else_, _ =>
      match nextToken st with
      | .error e => .err e
      | .ok (next, st) =>
        let addBlock := next.kind ≠ .if_ ∨ next.loc.line ≠ tok.loc.line
        let st := { st with unproc := next :: st.unproc }
        if addBlock then ofExcept tok (scanForNextBlock (.block false) st) else .ret tok st
    | .comma, _ => .ret tok { st with stack := setTopSemi false st.stack }   -- :586 (unreachable)
    | _, _ => .ret tok st

/-- Either the pass through the loop body is over, or control falls through to the next
    section of the body with this state. -/
inductive Rule where
  | done (s : Step)
  | fall (st : St)
  deriving Repr

/-- layout.rs:458-509: a token at or left of the column of a `let`/`type` context ends the
    bindings: an `in` is inserted (unless the block of a `rec` continues). -/
def implicitIn (tok : Tok) (offside : Offside) (st : St) : Rule :=
  let lt : Bool := tok.loc.col < offside.loc.col
  let eq : Bool := tok.loc.col = offside.loc.col
  if (lt || eq) && tok.kind != .rbrace then
    match continueBlock offside.ctx tok st with
    | .err e => .done (.err e)
    | .hang => .done .hang
    | .done true st => .fall st
    | .done false st =>
      if tok.kind = .eof then .done (.cont tok { st with stack := st.stack.tail })
      else
        let st := { st with stack := st.stack.tail }          -- pop the let, :470
        match st.stack with
        | [] => .done .panic                                     -- :475 expect
        | top :: _ =>
          let stack := setTopSemi false st.stack
          let stack := if top.ctx = .rec_ then stack.tail else stack
          let st := { st with stack := stack, unproc := tok :: st.unproc }   -- layout_token
          match pushCtx st ⟨offside.loc, .block false⟩ with
          | .error e => .done (.err e)
          | .ok st =>
            .done (.ret { tok with kind := .in_ }
              { st with unproc := { tok with kind := .openBlock } :: st.unproc })
  else .fall st

/-- layout.rs:404-511, the offside rules. -/
def offsideRule (tok : Tok) (offside : Offside) (st : St) : Rule :=
  let lt : Bool := tok.loc.col < offside.loc.col
  let eq : Bool := tok.loc.col = offside.loc.col
  match offside.ctx with
  | .block semi =>
    if lt then .done (.cont { tok with kind := .closeBlock } { st with unproc := tok :: st.unproc })
    else if eq then
      if semi then
        .done (layoutToken tok .semi { st with stack := setTopSemi false st.stack })
      else
        match tok.kind with
        | .attrOpen | .doc | .openBlock => .fall st
        | _ => .fall { st with stack := setTopSemi true st.stack }
    else .fall st
  | .expr | .lambda =>
    if lt || eq then .done (.cont tok { st with stack := st.stack.tail }) else .fall st
  | .matchClause =>
    if lt || (eq && tok.kind != .pipe) then .done (.cont tok { st with stack := st.stack.tail })
    else .fall st
  | .let_ | .type_ => implicitIn tok offside st
  | _ => .fall st

/-- layout.rs:312-400, closing tokens.
    `guard = true` is the code as it is; `guard = false` removes the early return of
    layout.rs:321-332 (used only by `layout_guard_needed`). -/
def closing (guard : Bool) (tok : Tok) (offside : Offside) (st : St) : Rule :=
  let st := { st with stack := st.stack.tail }                       -- :319 pop
  if guard && st.stack.all (fun o => !closes tok.kind o.ctx) then .done (.ret tok st)
  else if closes tok.kind offside.ctx then
    match offside.ctx with
    | .if_ => .fall st                                                -- falls out of the match
    | .brace | .bracket | .paren | .attribute => .done (.ret tok st)
    | .block _ =>
      if tok.kind = .closeBlock then .done (.ret tok { st with stack := setTopSemi false st.stack })
      else .done (layoutToken tok .closeBlock st)
    | .rec_ | .let_ | .type_ =>
      match st.stack with
      | [] => .done .panic                                             -- :359 expect
      | top :: _ =>
        let stack := setTopSemi false st.stack
        let stack := if top.ctx = .rec_ then stack.tail else stack
        match pushCtx { st with stack := stack } ⟨top.loc, .block false⟩ with
        | .error e => .done (.err e)
        | .ok st => .done (.ret tok { st with unproc := { tok with kind := .openBlock } :: st.unproc })
    | _ => .done (.cont tok st)
  else .done (.cont tok st)

/-- One pass through the `loop` body, layout.rs:291-603. -/
def step (guard : Bool) (tok : Tok) (st : St) : Step :=
  if tok.kind = .shebang then .ret tok st
  else match st.stack with
  | [] =>
    match pushCtx st ⟨tok.loc, .block false⟩ with
    | .error e => .err e
    | .ok st => layoutToken tok .openBlock st
  | offside :: _ =>
    if tok.kind = .comma ∧ (offside.ctx = .brace ∨ offside.ctx = .paren ∨ offside.ctx = .bracket)
    then .ret tok st
    else if isClosingKind tok.kind then
      match closing guard tok offside st with
      | .done r => r
      | .fall st => finish tok offside st                              -- (`else`, If): popped
    else
      match offsideRule tok offside st with
      | .done r => r
      | .fall st => finish tok offside st

inductive Res where
  | ret (t : Tok) (st : St)
  | err (e : LErr)
  | panic
  | hang
  | outOfFuel
  deriving Repr

/-- The `loop` of layout.rs:291 with explicit fuel. -/
def loop (guard : Bool) : Nat → Tok → St → Res
  | 0, _, _ => .outOfFuel
  | fuel + 1, tok, st =>
    match step guard tok st with
    | .ret t st => .ret t st
    | .cont t st => loop guard fuel t st
    | .err e => .err e
    | .panic => .panic
    | .hang => .hang

/-- The measure that every `continue` decreases (theorem `loop_terminates`). -/
def measure (tok : Tok) (st : St) : Nat :=
  2 * st.stack.length + (if tok.kind = .closeBlock then 0 else 1)

/-- layout.rs:277 `layout_next_token`. -/
def layoutNextToken (guard : Bool) (st : St) : Res :=
  match nextToken st with
  | .error e => .err e
  | .ok (tok, st) =>
    let tok := if tok.kind = .eof then { tok with loc := { tok.loc with col := 0 } } else tok
    if tok.kind = .eof ∧ st.stack = [] then .ret tok st
    else loop guard (measure tok st + 1) tok st

inductive Outcome where
  | ok | err (e : LErr) | panic | hang | fuel
  deriving Repr, DecidableEq

/-- `Iterator::next` (:629) called until it returns `None` (EOF) or an error.
    Output: the tokens handed to the LALRPOP parser, and how the stream ended. -/
def run (guard : Bool) : Nat → St → List Tok → List Tok × Outcome
  | 0, _, acc => (acc.reverse, .fuel)
  | fuel + 1, st, acc =>
    match layoutNextToken guard st with
    | .ret t st => if t.kind = .eof then (acc.reverse, .ok) else run guard fuel st (t :: acc)
    | .err e => (acc.reverse, .err e)
    | .panic => (acc.reverse, .panic)
    | .hang => (acc.reverse, .hang)
    | .outOfFuel => (acc.reverse, .fuel)

def initial (input : List Tok) (eofTok : Tok) : St :=
  { input := input, eofTok := eofTok, unproc := [], stack := [] }

/-- Whole layout pass over a token stream (driver entry). -/
def layout (input : List Tok) (eofTok : Tok) (fuel : Nat) : List Tok × Outcome :=
  run true fuel (initial input eofTok) []

/-! ### The old rule (before commit 3521415; finding `hang:layout:scan_continue_block`, fixed)

`scan_continue_block` without the arm `Token::EOF => return Ok(false)`: once inside an
attribute at end of input it peeked EOF for ever.  Kept only for the regression theorems
`scan_old_rule_…`. -/
def scanLoopOld (expected : Kind) : Nat → Nat → Bool → Tok → St → ScanRes
  | 0, _, _, _, _ => .hang
  | fuel + 1, i, inAttr, first, st =>
    let peeked : Except LErr (Option Tok × St) :=
      if i = 0 then .ok (some first, st)
      else peekToken (i - st.unproc.length) st
    match peeked with
    | .error e => .err e
    | .ok (none, st') => .done false st'
    | .ok (some t, st') =>
      if t.kind = expected then .done true st'
      else match t.kind with
        | .attrOpen => scanLoopOld expected fuel (i + 1) true first st'
        | .doc => scanLoopOld expected fuel (i + 1) inAttr first st'
        | .rbracket => scanLoopOld expected fuel (i + 1) false first st'
        | _ => if inAttr then scanLoopOld expected fuel (i + 1) inAttr first st' else .done false st'

end GluonModel.LayoutAlgo
