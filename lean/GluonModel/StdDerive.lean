/-
Model of `#[derive(Eq, Show)]` (vm/src/derive/eq.rs, vm/src/derive/show.rs, dispatcher
vm/src/derive/mod.rs:18 `generate`) as structural recursion over values of algebraic types, together
with the std instances the generated code bottoms out in (Int, String, Bool, Option, Array).

A value carries its constructor / field names, so one untyped `Val` serves every generated type.
-/
namespace GluonModel.StdDerive

inductive Val where
  | int (i : Int)
  | str (s : String)
  | bool (b : Bool)
  /-- a variant value `Name arg₀ … argₙ` (also std `Option`: `Some x` / `None`) -/
  | ctor (name : String) (args : List Val)
  /-- a record value, fields in declaration order -/
  | record (fields : List (String × Val))
  /-- an `Array` -/
  | arr (xs : List Val)
  deriving Repr, Inhabited

mutual
/-- `show`:
    * variant (show.rs:28-88): the constructor name, then for every argument IN ORDER
      `" " ++ "(" ++ show arg ++ ")"`;
    * record (show.rs:90-150): `"{ "`, then `name = show field` separated by `", "`, the last one
      followed by `" "`, then `"}"`;
    * Int: Rust `{}` (primitives.rs:373), String: quotes without escaping (std/string.glu:27),
      Bool: std/bool.glu:66, Option: std/option.glu:131-137 (same shape as a derived instance),
      Array: std/array.glu:49-62. -/
def showVal : Val → String
  | .int i => toString i
  | .str s => "\"" ++ s ++ "\""
  | .bool b => if b then "True" else "False"
  | .ctor n args => n ++ showArgs args
  | .record fs => "{ " ++ showFields fs ++ "}"
  | .arr xs =>
    match xs with
    | [] => "[]"
    | x :: rest => "[" ++ showVal x ++ showRest rest ++ "]"
def showArgs : List Val → String
  | [] => ""
  | a :: as => " " ++ ("(" ++ (showVal a ++ ")")) ++ showArgs as
def showFields : List (String × Val) → String
  | [] => ""
  | (n, v) :: rest =>
    n ++ " = " ++ showVal v ++ (match rest with | [] => " " | _ :: _ => ", ") ++ showFields rest
def showRest : List Val → String
  | [] => ""
  | x :: rest => ", " ++ showVal x ++ showRest rest
end

mutual
/-- `==`:
    * variant (eq.rs:62-123): `match (l, r)` on the same constructor, `&&`-chain over ALL argument
      pairs in order (`True` for none), any other pair of constructors `False`;
    * record (eq.rs:125-174): `&&`-chain over all fields;
    * Array: std/array.glu:20-32 (length, then element-wise). -/
def eqVal : Val → Val → Bool
  | .int a, .int b => a == b
  | .str a, .str b => a == b
  | .bool a, .bool b => a == b
  | .ctor n as, .ctor m bs => n == m && eqArgs as bs
  | .record fs, .record gs => eqFields fs gs
  | .arr xs, .arr ys => eqArgs xs ys
  | _, _ => false
def eqArgs : List Val → List Val → Bool
  | [], [] => true
  | a :: as, b :: bs => eqVal a b && eqArgs as bs
  | _, _ => false
def eqFields : List (String × Val) → List (String × Val) → Bool
  | [], [] => true
  | (n, a) :: as, (m, b) :: bs => n == m && eqVal a b && eqFields as bs
  | _, _ => false
end

end GluonModel.StdDerive
