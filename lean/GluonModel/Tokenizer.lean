/-!
# Executable model of the tokenizer (`parser/src/token.rs`, `parser/src/str_suffix.rs`)

The tokenizer works on the BYTES of the text (`StrSuffix`), not on scalars; the model does the
same: the input is an `Array Nat` of bytes (the theorems quantify over the UTF-8 encoding of an
arbitrary list of Unicode scalars).  The state of `Tokenizer` is the `Location`
(line, column, absolute) of `CharLocations`; `absolute` is kept relative to the start of the text
(the Rust value is `start_index + abs`, `start_index = 1` for `str`).

Every operation of the Rust code that can panic is a CHECKED operation here whose failure is the
outcome `Res.panic`:

* `Tokenizer::slice` / `&s[a..b]` (token.rs:425, 467, 489, 630): `a ≤ b ≤ len` and both ends on
  char boundaries — the test of `str::is_char_boundary` (a byte test, exactly as in Rust);
* `StrSuffix::restore_char` (str_suffix.rs:78): `str::from_utf8(&buf).expect("UTF-8 string")`;
* `content_end.absolute.0 -= k` (token.rs:561, 598): `u32` subtraction;
* `float.parse().unwrap()`, `NotNan::new(..).unwrap()` (token.rs:702);
* `to_digit(16).expect("valid hex literal")` (token.rs:899).

Every `loop`/`while` of the Rust code whose next iteration would start in the same position (it
would then spin for ever, the state being the position) is the outcome `Res.hang`.  That none of
the two outcomes is reachable is proved in `Proofs/Tokenizer*.lean` (`Props/C09.lean`:
`tokenize_total`).

Not modelled: the numeric value of float literals (kind and span only), `u32` overflow of
line/column/absolute counters (texts ≥ 4 GiB).
-/
namespace GluonModel.Tokenizer

/-- Outcome of a step of the tokenizer. -/
inductive Res (α : Type) where
  | ok (a : α)
  | panic (msg : String)
  | hang
  deriving Repr

@[inline] def Res.bind {α β : Type} (x : Res α) (f : α → Res β) : Res β :=
  match x with
  | .ok a => f a
  | .panic m => .panic m
  | .hang => .hang

instance : Monad Res where
  pure := Res.ok
  bind := Res.bind

abbrev Input := Array Nat

/-- base/src/pos.rs `Location`; `abs` is `absolute - start_index`. -/
structure Loc where
  line : Nat
  col : Nat
  abs : Nat
  deriving Repr, DecidableEq, Inhabited

/-- base/src/pos.rs:23 `Location::shift` (+ token.rs:346: a column 0 becomes 1 — cannot occur). -/
def Loc.shift (l : Loc) (b : Nat) : Loc :=
  if b = 10 then { line := l.line + 1, col := 1, abs := l.abs + 1 }
  else { line := l.line, col := l.col + 1, abs := l.abs + 1 }

/-- token.rs:326 the initial location. -/
def Loc.start : Loc := ⟨0, 1, 0⟩

/-! ### Byte classes (token.rs:292-314, base/src/ast.rs:1173) -/

def isIdentStart (b : Nat) : Bool := b == 95 || (97 ≤ b && b ≤ 122) || (65 ≤ b && b ≤ 90)
def isDigit (b : Nat) : Bool := 48 ≤ b && b ≤ 57
def isIdentContinue (b : Nat) : Bool := isDigit b || b == 39 || isIdentStart b
def isHex (b : Nat) : Bool := isDigit b || (97 ≤ b && b ≤ 102) || (65 ≤ b && b ≤ 70)
def isOperatorByte (b : Nat) : Bool :=
  b == 33 || b == 35 || b == 36 || b == 37 || b == 38 || b == 42 || b == 43 || b == 45 ||
  b == 46 || b == 47 || b == 60 || b == 61 || b == 62 || b == 63 || b == 64 || b == 92 ||
  b == 94 || b == 124 || b == 126 || b == 58
/-- `(ch as char).is_whitespace()` for a `u8` (token.rs:865): U+0009–000D, U+0020, U+0085, U+00A0. -/
def isByteWhitespace (b : Nat) : Bool := (9 ≤ b && b ≤ 13) || b == 32 || b == 133 || b == 160
/-- UTF-8 continuation byte; `!StrSuffix::is_char_boundary_byte` (str_suffix.rs:51). -/
def isCont (b : Nat) : Bool := 128 ≤ b && b < 192

/-! ### UTF-8 (what `str::from_utf8` accepts) -/

/-- Decode one scalar at the head of a byte list: `(scalar, length)`.  Exactly the well-formed
sequences of the Unicode standard, table 3-7 (what `core::str::from_utf8` accepts). -/
def decode1 : List Nat → Option (Nat × Nat)
  | [] => none
  | b0 :: r =>
    if b0 < 128 then some (b0, 1)
    else if 194 ≤ b0 && b0 ≤ 223 then
      match r with
      | b1 :: _ => if isCont b1 then some ((b0 - 192) * 64 + (b1 - 128), 2) else none
      | _ => none
    else if 224 ≤ b0 && b0 ≤ 239 then
      match r with
      | b1 :: b2 :: _ =>
        if isCont b1 && isCont b2 && (b0 != 224 || 160 ≤ b1) && (b0 != 237 || b1 < 160) then
          some ((b0 - 224) * 4096 + (b1 - 128) * 64 + (b2 - 128), 3)
        else none
      | _ => none
    else if 240 ≤ b0 && b0 ≤ 244 then
      match r with
      | b1 :: b2 :: b3 :: _ =>
        if isCont b1 && isCont b2 && isCont b3 && (b0 != 240 || 144 ≤ b1) && (b0 != 244 || b1 < 144) then
          some ((b0 - 240) * 262144 + (b1 - 128) * 4096 + (b2 - 128) * 64 + (b3 - 128), 4)
        else none
      | _ => none
    else none

/-- `str::from_utf8(bytes).is_ok()`, with fuel `bytes.length` (each scalar has ≥ 1 byte). -/
def validUtf8Fuel : Nat → List Nat → Bool
  | _, [] => true
  | 0, _ :: _ => false
  | f + 1, l =>
    match decode1 l with
    | none => false
    | some (_, k) => validUtf8Fuel f (l.drop k)

def validUtf8 (l : List Nat) : Bool := validUtf8Fuel l.length l

/-- `char::len_utf8`. -/
def lenUtf8 (c : Nat) : Nat := if c < 128 then 1 else if c < 2048 then 2 else if c < 65536 then 3 else 4

/-- str_suffix.rs:67 `bytes_prefix` of the suffix that starts at byte `p`: the bytes before the
first char-boundary byte among the first `min(3, len)` bytes. -/
def bytesPrefix (inp : Input) (p : Nat) : List Nat :=
  let take1 (i : Nat) : Option Nat :=
    match inp[p + i]? with
    | some b => if isCont b then some b else none
    | none => none
  match take1 0 with
  | none => []
  | some a =>
    match take1 1 with
    | none => [a]
    | some b =>
      match take1 2 with
      | none => [a, b]
      | some c => [a, b, c]

/-- str_suffix.rs:78 `restore_char(&[b])` where the suffix starts at byte `p`:
`buf = [b] ++ bytes_prefix ++ zeros` (4 bytes); `from_utf8(&buf).expect("UTF-8 string")`;
the first scalar. -/
def restoreChar (inp : Input) (b : Nat) (p : Nat) : Res Nat :=
  let suf := bytesPrefix inp p
  let buf := b :: (suf ++ List.replicate (3 - suf.length) 0)
  if validUtf8 buf then
    match decode1 buf with
    | some (c, _) => .ok c
    | none => .panic "char"
  else .panic "UTF-8 string"

/-! ### Slices -/

/-- `str::is_char_boundary`. -/
def isBoundary (inp : Input) (i : Nat) : Bool :=
  i == 0 || i == inp.size ||
    (match inp[i]? with
     | none => false
     | some b => !isCont b)

/-- token.rs:425 `Tokenizer::slice` = `&self.input[s..e]` (a pair of offsets here). -/
def slice (inp : Input) (s e : Nat) : Res (Nat × Nat) :=
  if s ≤ e && e ≤ inp.size && isBoundary inp s && isBoundary inp e then .ok (s, e)
  else .panic "slice"

/-- `content_end.absolute.0 -= k` (u32, the Rust value is `start_index + abs`) followed by the
slice, which re-subtracts `start_index`: either step fails iff `k > abs`. -/
def subAbs (abs k : Nat) : Res Nat :=
  if k ≤ abs then .ok (abs - k) else .panic "attempt to subtract with overflow"

/-- The bytes of a slice. -/
def bytesAt (inp : Input) (s e : Nat) : List Nat := (inp.extract s e).toList

def lit (s : String) : List Nat := s.toUTF8.toList.map (·.toNat)

/-! ### Tokens and errors -/

/-- token.rs:248 `Error`. -/
inductive ErrK where
  | emptyCharLiteral
  | unexpectedChar (c : Nat)
  | unexpectedEof
  | unexpectedEscapeCode (c : Nat)
  | unterminatedCharLiteral
  | unterminatedStringLiteral
  | invalidRawStringDelimiter
  | nonParseableInt
  | hexLiteralOverflow
  | hexLiteralUnderflow
  | hexLiteralWrongPrefix
  | hexLiteralIncomplete
  deriving Repr, DecidableEq, Inhabited

/-- token.rs:20 `Token<&str>`; a `&str` payload is the pair of byte offsets of the slice. -/
inductive Tok where
  | shebang (s e : Nat)
  | ident (s e : Nat)
  | op (s e : Nat)
  | str (raw : Bool) (s e : Nat)
  | chr (c : Nat)
  | int (v : Int)
  | byte (v : Nat)
  | float (s e : Nat)
  | doc (block : Bool) (s e : Nat)
  | kw (name : String)      -- rec else forall if in let do seq match then type with
  | punct (name : String)   -- at colon comma dot dotdot equals lambda pipe rarrow question, brackets, attrOpen
  | eof
  deriving Repr, DecidableEq, Inhabited

/-- A recorded error (`Tokenizer::errors`) or the payload of a fatal one. -/
structure SErr where
  kind : ErrK
  s : Loc
  e : Loc
  deriving Repr, DecidableEq, Inhabited

structure STok where
  s : Loc
  e : Loc
  tok : Tok
  deriving Repr, DecidableEq, Inhabited

/-- What one call of `Tokenizer::next` yields. -/
inductive Item where
  | tok (t : STok)
  | err (e : SErr)
  deriving Repr, DecidableEq, Inhabited

/-- Result of a scanner: the item, the location afterwards, the errors pushed to
`Tokenizer::errors` (in order). -/
structure Out where
  item : Item
  loc : Loc
  errs : List SErr
  deriving Repr, Inhabited

/-! ### Primitive moves -/

/-- token.rs:380 `lookahead` (byte only; its location is the current one). -/
def peek (inp : Input) (l : Loc) : Option Nat := inp[l.abs]?

/-- token.rs:376 `bump`. -/
def bump (inp : Input) (l : Loc) : Option (Nat × Loc) :=
  match inp[l.abs]? with
  | none => none
  | some b => some (b, l.shift b)

/-- `for _ in 1..n { self.bump(); }` with `k = n - 1`. -/
def bumpN (inp : Input) : Nat → Loc → Loc
  | 0, l => l
  | k + 1, l =>
    match bump inp l with
    | none => l
    | some (_, l') => bumpN inp k l'

/-- `self.bump();` with the result ignored. -/
def bumpLoc (inp : Input) (l : Loc) : Loc :=
  match bump inp l with
  | some (_, l') => l'
  | none => l

/-- token.rs:388 `skip_to_end`. -/
def skipToEnd (inp : Input) (l : Loc) : Loc :=
  if h : l.abs < inp.size then skipToEnd inp (l.shift inp[l.abs]) else l
termination_by inp.size - l.abs
decreasing_by simp only [Loc.shift]; split <;> simp <;> omega

/-- The scanning part of token.rs:439 `take_until` (the slice it returns is taken by the caller
with `slice`). -/
def scanUntil (inp : Input) (term : Nat → Bool) (l : Loc) : Loc :=
  if h : l.abs < inp.size then
    if term inp[l.abs] then l else scanUntil inp term (l.shift inp[l.abs])
  else l
termination_by inp.size - l.abs
decreasing_by simp only [Loc.shift]; split <;> simp <;> omega

/-- token.rs:439 `take_until(start, terminate)`: `(end, slice(start, end))`. -/
def takeUntil (inp : Input) (start : Loc) (term : Nat → Bool) (l : Loc) : Res (Loc × (Nat × Nat)) :=
  let e := scanUntil inp term l
  match slice inp start.abs e.abs with
  | .ok sl => .ok (e, sl)
  | .panic m => .panic m
  | .hang => .hang

/-- token.rs:432 `take_while`. -/
def takeWhile (inp : Input) (start : Loc) (keep : Nat → Bool) (l : Loc) : Res (Loc × (Nat × Nat)) :=
  takeUntil inp start (fun b => !keep b) l

/-! ### Whitespace trimming (`str::trim`, `str::trim_end`: Unicode `White_Space`) -/

/-- Length of the encoded `White_Space` scalar at the head, or 0. -/
def wsLenHead : List Nat → Nat
  | 194 :: 133 :: _ => 2
  | 194 :: 160 :: _ => 2
  | 225 :: 154 :: 128 :: _ => 3
  | 226 :: 128 :: b :: _ => if (128 ≤ b && b ≤ 138) || b == 168 || b == 169 || b == 175 then 3 else 0
  | 226 :: 129 :: 159 :: _ => 3
  | 227 :: 128 :: 128 :: _ => 3
  | b :: _ => if (9 ≤ b && b ≤ 13) || b == 32 then 1 else 0
  | [] => 0

/-- `trim_start` on the slice `[s, e)`: the new start. -/
def trimStart (inp : Input) (s e : Nat) : Nat :=
  if _h : s < e then
    let k := wsLenHead (bytesAt inp s (min e (s + 3)))
    if k = 0 then s else trimStart inp (s + k) e
  else s
termination_by e - s
decreasing_by omega

/-- Length of the encoded `White_Space` scalar at the end of the (reversed) bytes, or 0. -/
def wsLenLast : List Nat → Nat
  | 133 :: 194 :: _ => 2
  | 160 :: 194 :: _ => 2
  | 128 :: 154 :: 225 :: _ => 3
  | 159 :: 129 :: 226 :: _ => 3
  | 128 :: 128 :: 227 :: _ => 3
  | b :: 128 :: 226 :: _ =>
    if (128 ≤ b && b ≤ 138) || b == 168 || b == 169 || b == 175 then 3 else 0
  | b :: _ => if (9 ≤ b && b ≤ 13) || b == 32 then 1 else 0
  | [] => 0

/-- `trim_end` on the slice `[s, e)`: the new end. -/
def trimEnd (inp : Input) (s e : Nat) : Nat :=
  if _h : s < e then
    let k := wsLenLast (bytesAt inp (max s (e - 3)) e).reverse
    if k = 0 then e else if k ≤ e - s then trimEnd inp s (e - k) else e
  else e
termination_by e - s
decreasing_by omega

/-! ### Number parsing (`str::parse`) -/

def digitsVal : List Nat → Nat → Nat
  | [], acc => acc
  | b :: r, acc => digitsVal r (acc * 10 + (b - 48))

/-- `str::parse::<i64>()`: optional sign, at least one digit, in range. -/
def parseI64 (bs : List Nat) : Option Int :=
  let (neg, ds) := match bs with
    | 45 :: r => (true, r)
    | 43 :: r => (false, r)
    | r => (false, r)
  if ds.isEmpty || !ds.all isDigit then none
  else
    let v : Int := digitsVal ds 0
    let v := if neg then -v else v
    if -9223372036854775808 ≤ v && v ≤ 9223372036854775807 then some v else none

/-- `str::parse::<u8>()`: optional `+`, at least one digit, ≤ 255 (a `-` is an invalid digit). -/
def parseU8 (bs : List Nat) : Option Nat :=
  let ds := match bs with
    | 43 :: r => r
    | r => r
  if ds.isEmpty || !ds.all isDigit then none
  else
    let v := digitsVal ds 0
    if v ≤ 255 then some v else none

/-- The strings `str::parse::<f64>()` accepts that can arise here are of the form
`-?digits.digits*`; this recogniser accepts `[+-]?(digits(.digits*)? | .digits)` (no exponent,
no `inf`/`nan`: the slice contains only `-`, digits and `.`), which never parses to NaN. -/
def f64Parseable (bs : List Nat) : Bool :=
  let ds := match bs with
    | 45 :: r => r
    | 43 :: r => r
    | r => r
  let intPart := ds.takeWhile isDigit
  let rest := ds.dropWhile isDigit
  match rest with
  | [] => !intPart.isEmpty
  | 46 :: frac => frac.all isDigit && (!intPart.isEmpty || !frac.isEmpty)
  | _ => false

def hexVal (b : Nat) : Option Nat :=
  if isDigit b then some (b - 48)
  else if 97 ≤ b && b ≤ 102 then some (b - 87)
  else if 65 ≤ b && b ≤ 70 then some (b - 55)
  else none

/-- token.rs:893 `i64_from_hex`: `checked_mul(16)` then `checked_add(x * sign)` per digit. -/
def i64FromHex (positive : Bool) : List Nat → Int → Res (Except ErrK Int)
  | [], acc => .ok (.ok acc)
  | c :: r, acc =>
    match hexVal c with
    | none => .panic "valid hex literal"
    | some x =>
      let m := acc * 16
      let inRange (v : Int) : Bool := -9223372036854775808 ≤ v && v ≤ 9223372036854775807
      let a := m + (if positive then (x : Int) else -(x : Int))
      if inRange m && inRange a then i64FromHex positive r a
      else .ok (.error (if positive then .hexLiteralOverflow else .hexLiteralUnderflow))

/-! ### The scanners (each takes the location AFTER the bytes `next` has already bumped) -/

def mkTok (s e : Loc) (t : Tok) (l : Loc) (errs : List SErr := []) : Res Out :=
  .ok ⟨.tok ⟨s, e, t⟩, l, errs⟩

/-- token.rs:397 `recover(start, end, code, token)`. -/
def recoverTok (s e : Loc) (code : ErrK) (t : Tok) (l : Loc) (errs : List SErr := []) : Res Out :=
  .ok ⟨.tok ⟨s, e, t⟩, l, errs ++ [⟨code, s, e⟩]⟩

/-- token.rs:392 `self.error(location, code)`: skip to the end, fatal error. -/
def fatal (inp : Input) (at_ : Loc) (code : ErrK) (l : Loc) (errs : List SErr := []) : Res Out :=
  .ok ⟨.err ⟨code, at_, at_⟩, skipToEnd inp l, errs⟩

/-- token.rs:525 `escape_code(start)`; `l` is the location after the backslash.
Returns the byte, the new location and the recorded errors. -/
def escapeCode (inp : Input) (start : Loc) (l : Loc) : Res (Nat × Loc × List SErr) :=
  match bump inp l with
  | none => .ok (0, l, [⟨.unexpectedEof, l, l⟩])          -- eof_recover(b'\0')
  | some (b, l1) =>
    if b == 39 || b == 34 || b == 92 || b == 47 then .ok (b, l1, [])
    else if b == 110 then .ok (10, l1, [])
    else if b == 114 then .ok (13, l1, [])
    else if b == 116 then .ok (9, l1, [])
    else
      match restoreChar inp b l1.abs with
      | .ok ch => .ok (b, bumpN inp (lenUtf8 ch - 1) l1, [⟨.unexpectedEscapeCode ch, start, l⟩])
      | .panic m => .panic m
      | .hang => .hang

/-- token.rs:548 `string_literal`: the `loop`. -/
def stringLoop (inp : Input) (start contentStart : Loc) (l : Loc) (errs : List SErr) : Res Out :=
  match takeUntil inp l (fun b => b == 34 || b == 92) l with
  | .panic m => .panic m
  | .hang => .hang
  | .ok (l1, _) =>
    match bump inp l1 with
    | some (b, l2) =>
      if b == 92 then
        match escapeCode inp l1 l2 with
        | .panic m => .panic m
        | .hang => .hang
        | .ok (_, l3, es) =>
          if l.abs < l3.abs ∧ l.abs < inp.size then stringLoop inp start contentStart l3 (errs ++ es)
          else .hang
      else if b == 34 then
        match subAbs l2.abs 1 with
        | .panic m => .panic m
        | .hang => .hang
        | .ok ce =>
          match slice inp contentStart.abs ce with
          | .panic m => .panic m
          | .hang => .hang
          | .ok (cs, ce) => mkTok start l2 (.str false cs ce) l2 errs
      else
        match slice inp contentStart.abs l2.abs with
        | .panic m => .panic m
        | .hang => .hang
        | .ok (cs, ce) => recoverTok start l2 .unterminatedStringLiteral (.str false cs ce) l2 errs
    | none =>
      match slice inp contentStart.abs l1.abs with
      | .panic m => .panic m
      | .hang => .hang
      | .ok (cs, ce) => recoverTok start l1 .unterminatedStringLiteral (.str false cs ce) l1 errs
termination_by inp.size - l.abs
decreasing_by omega

/-- token.rs:548 `string_literal(start)`; `l` is the location after the opening quote. -/
def stringLiteral (inp : Input) (start : Loc) (l : Loc) : Res Out :=
  stringLoop inp start l l []

/-- token.rs:579-586: count the `#` up to the opening quote.  `none`: invalid delimiter. -/
def rawDelims (inp : Input) (d : Nat) (l : Loc) : Option (Nat × Loc) :=
  if h : l.abs < inp.size then
    let b := inp[l.abs]
    if b == 35 then rawDelims inp (d + 1) (l.shift b)
    else if b == 34 then some (d, l.shift b)
    else none
  else some (d, l)
termination_by inp.size - l.abs
decreasing_by simp only [Loc.shift]; split <;> simp <;> omega

/-- token.rs:594-613 the inner `loop` after a quote inside a raw string.  `inl tokenEnd` when the
closing delimiter is complete, `inr l` when the outer loop goes on at `l`. -/
def rawInner (inp : Input) (delims found : Nat) (l : Loc) : Loc ⊕ Loc :=
  if found = delims then .inl l
  else if h : l.abs < inp.size then
    let b := inp[l.abs]
    if b == 35 then rawInner inp delims (found + 1) (l.shift b)
    else if b == 34 then rawInner inp delims 0 (l.shift b)
    else .inr (l.shift b)
  else .inr l
termination_by inp.size - l.abs
decreasing_by all_goals (simp only [Loc.shift]; split <;> simp <;> omega)

/-- token.rs:589-617 the outer `loop` of `raw_string_literal`. -/
def rawLoop (inp : Input) (start contentStart : Loc) (delims : Nat) (l : Loc) : Res Out :=
  match takeUntil inp contentStart (fun b => b == 34) l with
  | .panic m => .panic m
  | .hang => .hang
  | .ok (l1, _) =>
    match bump inp l1 with
    | some (b, l2) =>
      if b == 34 then
        match rawInner inp delims 0 l2 with
        | .inl e =>
          match subAbs e.abs (delims + 1) with
          | .panic m => .panic m
          | .hang => .hang
          | .ok ce =>
            match slice inp contentStart.abs ce with
            | .panic m => .panic m
            | .hang => .hang
            | .ok (cs, ce) => mkTok start e (.str true cs ce) e
        | .inr l3 =>
          if l.abs < l3.abs ∧ l.abs < inp.size then rawLoop inp start contentStart delims l3
          else .hang
      else
        match slice inp contentStart.abs l2.abs with
        | .panic m => .panic m
        | .hang => .hang
        | .ok (cs, ce) => recoverTok start l2 .unterminatedStringLiteral (.str true cs ce) l2
    | none =>
      match slice inp contentStart.abs l1.abs with
      | .panic m => .panic m
      | .hang => .hang
      | .ok (cs, ce) => recoverTok start l1 .unterminatedStringLiteral (.str true cs ce) l1
termination_by inp.size - l.abs
decreasing_by omega

/-- token.rs:578 `raw_string_literal(start)`; `l` is the location after the `r`. -/
def rawStringLiteral (inp : Input) (start : Loc) (l : Loc) : Res Out :=
  match rawDelims inp 0 l with
  | none => fatal inp start .invalidRawStringDelimiter l   -- `self.error`: skips to the end
  | some (d, l1) => rawLoop inp start l1 d l1

/-- token.rs:665-682 the second half of `char_literal`: the closing quote is expected at `l2`. -/
def charClose (inp : Input) (start : Loc) (ch : Nat) (l2 : Loc) (errs : List SErr) : Res Out :=
  match bump inp l2 with
  | none => recoverTok l2 l2 .unexpectedEof (.chr 0) l2 errs   -- eof_recover
  | some (b, l3) =>
    if b == 39 then mkTok start l3 (.chr ch) l3 errs
    else if 128 ≤ b then
      -- the byte read instead of the quote may start a multi-byte character
      match restoreChar inp b l3.abs with
      | .ok nx => recoverTok start l2 .unterminatedCharLiteral (.chr ch) (bumpN inp (lenUtf8 nx - 1) l3) errs
      | .panic m => .panic m
      | .hang => .hang
    else recoverTok start l2 .unterminatedCharLiteral (.chr ch) l3 errs

/-- token.rs:638 `char_literal(start)`; `l` is the location after the opening quote. -/
def charLiteral (inp : Input) (start : Loc) (l : Loc) : Res Out :=
  match bump inp l with
  | none => recoverTok l l .unexpectedEof (.chr 0) l
  | some (b, l1) =>
    if b == 92 then
      match escapeCode inp l l1 with
      | .panic m => .panic m
      | .hang => .hang
      | .ok (escaped, l2, es) => charClose inp start (if escaped < 128 then escaped else 65533) l2 es
    else if b == 39 then recoverTok start l .emptyCharLiteral (.chr 0) l1
    else if 128 ≤ b then
      match restoreChar inp b l1.abs with
      | .ok full => charClose inp start full (bumpN inp (lenUtf8 full - 1) l1) []
      | .panic m => .panic m
      | .hang => .hang
    else charClose inp start b l1 []

/-- `recover(a, b, UnexpectedChar(restore_char(ch)), ())?` when the lookahead is an identifier
start (token.rs:693, 713, 748, 760): the recorded errors. -/
def identAfterNumber (inp : Input) (l : Loc) : Res (List SErr) :=
  match peek inp l with
  | some ch =>
    if isIdentStart ch then
      match restoreChar inp ch l.abs with
      | .ok c => .ok [⟨.unexpectedChar c, l, l⟩]
      | .panic m => .panic m
      | .hang => .hang
    else .ok []
  | none => .ok []

/-- token.rs:685 `numeric_literal(start)`; `l` is the location after the first byte. -/
def numericLiteral (inp : Input) (start : Loc) (l : Loc) : Res Out := do
  let (l1, (is, ie)) ← takeWhile inp start isDigit l
  let int := bytesAt inp is ie
  let intTok (s e : Loc) (l' : Loc) (errs : List SErr) : Res Out :=
    match parseI64 int with
    | some v => mkTok s e (.int v) l' errs
    | none => recoverTok s e .nonParseableInt (.int 0) l' errs
  match peek inp l1 with
  | some 46 =>
    let l2 := l1.shift 46
    let (l3, (fs, fe)) ← takeWhile inp start isDigit l2
    let errs ← identAfterNumber inp l3
    if f64Parseable (bytesAt inp fs fe) then mkTok start l3 (.float fs fe) l3 errs
    else .panic "float parse"
  | some 120 =>
    let l2 := l1.shift 120
    let (l3, (hs, he)) ← takeWhile inp l2 isHex l2
    if int == lit "0" || int == lit "-0" then
      let errs ← identAfterNumber inp l3
      if hs == he then recoverTok start l3 .hexLiteralIncomplete (.int 0) l3 errs
      else
        match ← i64FromHex (int == lit "0") (bytesAt inp hs he) 0 with
        | .ok v => mkTok start l3 (.int v) l3 errs
        | .error e => recoverTok start l3 e (.int 0) l3 errs
    else recoverTok start l1 .hexLiteralWrongPrefix (.int 0) l3
  | some 98 =>
    let l2 := l1.shift 98
    let errs ← identAfterNumber inp l2
    match parseU8 int with
    | some v => mkTok start l2 (.byte v) l2 errs
    | none => recoverTok start l2 .nonParseableInt (.byte 0) l2 errs
  | some ch =>
    if isIdentStart ch then do
      -- `Some((start, ch))` shadows `start`: the literal's span starts at the identifier
      let errs ← identAfterNumber inp l1
      intTok l1 l1 l1 errs
    else intTok start l1 l1 []
  | none => intTok start l1 l1 []

def keywords : List String :=
  ["rec", "else", "forall", "if", "in", "let", "do", "seq", "match", "then", "type", "with"]

/-- token.rs:780 `identifier(start)`; `l` is the location after the first byte. -/
def identifier (inp : Input) (start : Loc) (l : Loc) : Res Out := do
  let (l1, (s, e)) ← takeWhile inp start isIdentContinue l
  let (l2, (s, e)) ←
    (match peek inp l1 with
     | some 33 => do
       -- `end.column += 1; end.absolute += 1` — the same as the location after the bump
       let sl ← slice inp start.abs (l1.abs + 1)
       pure (l1.shift 33, sl)
     | _ => pure (l1, (s, e)) : Res (Loc × (Nat × Nat)))
  let bs := bytesAt inp s e
  match keywords.find? (fun k => lit k == bs) with
  | some k => mkTok start l2 (.kw k) l2
  | none => mkTok start l2 (.ident s e) l2

/-- token.rs:502 `operator(start)`; `l` is the location after the first byte. -/
def operator (inp : Input) (start : Loc) (l : Loc) : Res Out := do
  let (l1, (s, e)) ← takeWhile inp start isOperatorByte l
  let bs := bytesAt inp s e
  if bs == lit "@" then mkTok start l1 (.punct "at") l1
  else if bs == lit "." then mkTok start l1 (.punct "dot") l1
  else if bs == lit ".." then mkTok start l1 (.punct "dotdot") l1
  else if bs == lit ":" then mkTok start l1 (.punct "colon") l1
  else if bs == lit "=" then mkTok start l1 (.punct "equals") l1
  else if bs == lit "|" then mkTok start l1 (.punct "pipe") l1
  else if bs == lit "->" then mkTok start l1 (.punct "rarrow") l1
  else if bs == lit "#" then
    -- the token's span ends after the `#`, the operator text and the position go further
    let (l2, _) ← takeWhile inp start isIdentStart l1
    let (l3, (s, e)) ← takeWhile inp start isOperatorByte l2
    mkTok start l1 (.op s e) l3
  else mkTok start l1 (.op s e) l1

/-- Does the slice start with these bytes? -/
def startsWith (inp : Input) (s e : Nat) (p : List Nat) : Bool :=
  (bytesAt inp s (min e (s + p.length))) == p

/-- token.rs:460 `line_comment(start)`; `none`: an ordinary comment (the loop continues). -/
def lineComment (inp : Input) (start : Loc) (l : Loc) : Res (Option STok × Loc) := do
  let (l1, (s, e)) ← takeUntil inp start (fun b => b == 10) l
  if startsWith inp s e [47, 47, 47] /- "///" -/ then
    let skip := if startsWith inp s e [47, 47, 47, 32] /- "/// " -/ then 4 else 3
    let (cs, ce) ← slice inp (s + skip) e          -- `&comment[skip..]`
    pure (some ⟨start, l1, .doc false cs ce⟩, l1)
  else pure (none, l1)

/-- token.rs:478 the `loop` of `block_comment`. `inl`: fatal `UnexpectedEof`. -/
def blockLoop (inp : Input) (start : Loc) (l : Loc) : Res (Out ⊕ (Option STok × Loc)) :=
  match takeUntil inp start (fun b => b == 42) l with
  | .panic m => .panic m
  | .hang => .hang
  | .ok (l1, (s, e)) =>
    match bump inp (bumpLoc inp l1) with   -- `bumpLoc`: skip the `*` found
    | some (b, l3) =>
      if b == 47 then
        if startsWith inp s e [47, 42, 42] /- "/**" -/ && e - s != 3 then
          match slice inp (s + 3) e with          -- `comment[3..]`
          | .panic m => .panic m
          | .hang => .hang
          | .ok (cs, ce) =>
            -- `str::trim`: an all-whitespace string trims to the empty slice at its START
            let cs' := trimStart inp cs ce
            let (cs', ce') := if cs' == ce then (cs, cs) else (cs', trimEnd inp cs' ce)
            .ok (.inr (some ⟨start, l3, .doc true cs' ce'⟩, l3))
        else .ok (.inr (none, l3))
      else
        -- `Some((_, _)) => continue`: the byte after the `*` is not consumed
        if l.abs < (bumpLoc inp l1).abs ∧ l.abs < inp.size then blockLoop inp start (bumpLoc inp l1)
        else .hang
    | none =>
      match fatal inp (bumpLoc inp l1) .unexpectedEof (bumpLoc inp l1) with     -- eof_error
      | .ok o => .ok (.inl o)
      | .panic m => .panic m
      | .hang => .hang
termination_by inp.size - l.abs
decreasing_by omega

/-- token.rs:475 `block_comment(start)`; `l` is the location after the first `/`. -/
def blockComment (inp : Input) (start : Loc) (l : Loc) : Res (Out ⊕ (Option STok × Loc)) :=
  blockLoop inp start (bumpLoc inp l)      -- skip the first `*`

/-- token.rs:625 `shebang_line(start)`. -/
def shebangLine (inp : Input) (start : Loc) (l : Loc) : Res (Option STok × Loc) := do
  let (l1, (s, e)) ← takeUntil inp start (fun b => b == 10) l
  if startsWith inp s e [35, 33] /- "#!" -/ then
    let (cs, ce) ← slice inp (s + 2) e             -- `line[skip..]`
    pure (some ⟨start, l1, .shebang cs (trimEnd inp cs ce)⟩, l1)
  else pure (none, l1)

def testLookahead (inp : Input) (l : Loc) (p : Nat → Bool) : Bool :=
  match peek inp l with
  | some b => p b
  | none => false

def punctOf (b : Nat) : Option String :=
  if b == 44 then some "comma" else if b == 92 then some "lambda"
  else if b == 123 then some "lbrace" else if b == 91 then some "lbracket"
  else if b == 40 then some "lparen" else if b == 125 then some "rbrace"
  else if b == 93 then some "rbracket" else if b == 41 then some "rparen"
  else if b == 63 then some "question" else none

/-- token.rs:815 `Tokenizer::next`: one token, a fatal error, or `EOF`.  `errs` are the errors
recorded while skipping. -/
def next (inp : Input) (l : Loc) (errs : List SErr) : Res Out :=
  match bump inp l with
  | none => mkTok l l .eof l errs
  | some (ch, l1) =>
    -- a scanner ended at `l'` without a token: the `while let` goes round again
    let again (l' : Loc) (errs : List SErr) : Res Out :=
      if l.abs < l'.abs ∧ l.abs < inp.size then next inp l' errs else .hang
    let withErrs (r : Res Out) : Res Out :=
      match r with
      | .ok o => .ok { o with errs := errs ++ o.errs }
      | r => r
    match punctOf ch with
    | some p => mkTok l l1 (.punct p) l1 errs
    | none =>
      if ch == 114 && testLookahead inp l1 (fun b => b == 34 || b == 35) then
        withErrs (rawStringLiteral inp l l1)
      else if ch == 34 then withErrs (stringLiteral inp l l1)
      else if ch == 39 then withErrs (charLiteral inp l l1)
      else if ch == 47 && testLookahead inp l1 (· == 47) then
        match lineComment inp l l1 with
        | .ok (some t, l') => .ok ⟨.tok t, l', errs⟩
        | .ok (none, l') => again l' errs
        | .panic m => .panic m
        | .hang => .hang
      else if ch == 47 && testLookahead inp l1 (· == 42) then
        match blockComment inp l l1 with
        | .ok (.inl o) => withErrs (.ok o)
        | .ok (.inr (some t, l')) => .ok ⟨.tok t, l', errs⟩
        | .ok (.inr (none, l')) => again l' errs
        | .panic m => .panic m
        | .hang => .hang
      else if ch == 35 && l.abs == 0 && testLookahead inp l1 (· == 33) then
        match shebangLine inp l l1 with
        | .ok (some t, l') => .ok ⟨.tok t, l', errs⟩
        | .ok (none, l') => again l' errs
        | .panic m => .panic m
        | .hang => .hang
      else if ch == 35 && testLookahead inp l1 (· == 91) then
        let l2 := l1.shift 91
        mkTok l l2 (.punct "attrOpen") l2 errs
      else if isIdentStart ch then withErrs (identifier inp l l1)
      else if isDigit ch || (ch == 45 && testLookahead inp l1 isDigit) then
        withErrs (numericLiteral inp l l1)
      else if isOperatorByte ch then withErrs (operator inp l l1)
      else if isByteWhitespace ch then again l1 errs
      else
        match restoreChar inp ch l1.abs with
        | .ok c =>
          let l2 := bumpN inp (lenUtf8 c - 1) l1
          again l2 (errs ++ [⟨.unexpectedChar c, l, l2⟩])
        | .panic m => .panic m
        | .hang => .hang
termination_by inp.size - l.abs
decreasing_by omega

/-! ### The whole stream -/

inductive End where
  | eof (at_ : Loc)     -- `Token::EOF` was returned (and would be for ever)
  | fuel                -- the call budget ran out
  | panic (msg : String)
  | hang
  deriving Repr, DecidableEq, Inhabited

structure Stream where
  items : List Item      -- what `next` yielded before `EOF`, in order
  errs : List SErr       -- `Tokenizer::errors` at the end
  fin : End
  deriving Repr, Inhabited

/-- Call `next` until it yields `EOF`, at most `fuel` times. -/
def run (inp : Input) : Nat → Loc → List Item → List SErr → Stream
  | 0, _, items, errs => ⟨items.reverse, errs, .fuel⟩
  | fuel + 1, l, items, errs =>
    match next inp l [] with
    | .panic m => ⟨items.reverse, errs, .panic m⟩
    | .hang => ⟨items.reverse, errs, .hang⟩
    | .ok o =>
      match o.item with
      | .tok ⟨s, _, .eof⟩ => ⟨items.reverse, errs ++ o.errs, .eof s⟩
      | it => run inp fuel o.loc (it :: items) (errs ++ o.errs)

/-- The token stream of a text: every call of `next` up to the first `EOF`; the call budget
`len + 1` is never exhausted (`Props/C09.lean: tokenize_total`). -/
def tokenize (inp : Input) : Stream := run inp (inp.size + 1) Loc.start [] []

end GluonModel.Tokenizer
