/-
The text layer that names and string constants of serialised bytecode rest on: JSON string
escaping as serde_json writes it (`format_escaped_str_contents`, serde_json/src/ser.rs: `"` `\`
and the control characters below U+0020 are escaped — `\b \f \n \r \t`, otherwise `\u00xx` with
lowercase hex — everything else, including U+007F and all non-ASCII, is written verbatim) and as it
reads it back (`parse_str` / `parse_escape`, serde_json/src/read.rs: the escapes `\" \\ \/ \b \f
\n \r \t \uXXXX`; a raw control character or an unknown escape is an error).

Every `Symbol`, `InternedStr`, `String` of a `CompiledModule` (names of locals, upvars, globals,
record fields, constructors, the module id, string constants, doc comments in the metadata) goes
through this pair; vm/src/serialization.rs:344-352 `symbol::deserialize` must therefore read an
*owned* string — a borrowed `&str` exists only when nothing was escaped.

`unescape` works on the characters between the quotes. `\uD800`–`\uDFFF` (surrogate halves, which
serde_json combines pairwise) are outside the model: `escape` never produces them.
-/
namespace GluonModel.JsonStr

def hexDigit (n : Nat) : Char :=
  if n < 10 then Char.ofNat (48 + n) else Char.ofNat (87 + n)

def hexVal (c : Char) : Option Nat :=
  if '0' ≤ c ∧ c ≤ '9' then some (c.toNat - 48)
  else if 'a' ≤ c ∧ c ≤ 'f' then some (c.toNat - 87)
  else if 'A' ≤ c ∧ c ≤ 'F' then some (c.toNat - 55)
  else none

def escapeChar (c : Char) : List Char :=
  if c = '"' then ['\\', '"']
  else if c = '\\' then ['\\', '\\']
  else if c = '\x08' then ['\\', 'b']
  else if c = '\x0c' then ['\\', 'f']
  else if c = '\n' then ['\\', 'n']
  else if c = '\r' then ['\\', 'r']
  else if c = '\t' then ['\\', 't']
  else if c.toNat < 32 then ['\\', 'u', '0', '0', hexDigit (c.toNat / 16), hexDigit (c.toNat % 16)]
  else [c]

def escape : List Char → List Char
  | [] => []
  | c :: cs => escapeChar c ++ escape cs

/-- Reader state: between escapes, after a backslash, inside `\u` with `k` digits to go. -/
inductive St where
  | normal
  | esc
  | u (k acc : Nat)
  deriving Repr, DecidableEq

def simpleEsc (e : Char) : Option Char :=
  if e = '"' then some '"' else if e = '\\' then some '\\' else if e = '/' then some '/'
  else if e = 'b' then some '\x08' else if e = 'f' then some '\x0c' else if e = 'n' then some '\n'
  else if e = 'r' then some '\r' else if e = 't' then some '\t' else none

/-- One input character: new state and the character produced, or an error. -/
def step : St → Char → Option (St × Option Char)
  | .normal, c =>
    if c = '\\' then some (.esc, none)
    else if c = '"' ∨ c.toNat < 32 then none
    else some (.normal, some c)
  | .esc, e =>
    if e = 'u' then some (.u 4 0, none)
    else match simpleEsc e with
      | some ch => some (.normal, some ch)
      | none => none
  | .u k acc, c =>
    match hexVal c with
    | none => none
    | some v =>
      let n := acc * 16 + v
      if k ≤ 1 then
        if 0xD800 ≤ n ∧ n ≤ 0xDFFF then none else some (.normal, some (Char.ofNat n))
      else some (.u (k - 1) n, none)

def run : St → List Char → Option (List Char)
  | st, [] => if st = .normal then some [] else none
  | st, c :: rest =>
    match step st c with
    | none => none
    | some (st', out) =>
      match run st' rest, out with
      | some r, some ch => some (ch :: r)
      | some r, none => some r
      | none, _ => none

def unescape (s : List Char) : Option (List Char) := run .normal s

end GluonModel.JsonStr
