/-
Model of the comment iterator the formatter uses to recover comments from the source text
between two AST spans:  /repo/base/src/source.rs  `CommentIter` (struct :343),
`Iterator::next` (:350-387) and `DoubleEndedIterator::next_back` (:388-425), as the code is
after the lead's `fix:` commits 9929c7c and 9c4447b.

The iterator state is the remaining `&str` (`self.src`), modelled as `List Char`.  Every Rust
operation that can panic (slice `s[a..]`, `s[..b]`, `usize` subtraction, `.unwrap()`) is
modelled by a *checked* operation whose failure is the outcome `R.panic`, so "the code never
panics" is a theorem about the model and not an assumption built into it.  All slice indices
of the Rust code are lengths of prefixes/suffixes of the string they index, except one
(`self.src.len() - trimmed.len()` in `next_back`), which is modelled on UTF-8 byte lengths
(`takeBytes`), so that the model also reproduces the "not a char boundary" panic.

No imports: linked into the native driver `drv_c10`.
-/
namespace GluonModel.Comments

/-- Rust `char::is_whitespace` (Unicode `White_Space`). -/
def isWs (c : Char) : Bool :=
  let n := c.toNat
  (9 ≤ n && n ≤ 13) || n == 32 || n == 0x85 || n == 0xA0 || n == 0x1680 ||
  (0x2000 ≤ n && n ≤ 0x200A) || n == 0x2028 || n == 0x2029 || n == 0x202F || n == 0x205F ||
  n == 0x3000

/-- The closure `|c: char| c.is_whitespace() && c != '\n'` (source.rs:357, :397, :412). -/
def wsNoNl (c : Char) : Bool := isWs c && c != '\n'

/-- `str::trim_end_matches(p)`. -/
def trimEnd (p : Char → Bool) (l : List Char) : List Char := (l.reverse.dropWhile p).reverse

/-- `str::trim_matches(p)` (both ends). -/
def trimBoth (p : Char → Bool) (l : List Char) : List Char := trimEnd p (l.dropWhile p)

def startsWith (pre l : List Char) : Bool := pre.isPrefixOf l
def endsWith (suf l : List Char) : Bool := suf.reverse.isPrefixOf l.reverse

/-- `s.starts_with("//") && !s.starts_with("///")` (source.rs:358, :405). -/
def isLineComment (s : List Char) : Bool :=
  startsWith ['/', '/'] s && !startsWith ['/', '/', '/'] s

/-- Strip one trailing `'\r'` (`strip_suffix('\r')` in `str::lines`). -/
def stripCr (a : List Char) : List Char :=
  if endsWith ['\r'] a then a.dropLast else a

/-- `s.lines().next()`: `None` on the empty string, otherwise the text before the first
    `'\n'`, minus one `'\r'` directly before that `'\n'`; the whole string (nothing stripped)
    when there is no `'\n'`. -/
def firstLine? (s : List Char) : Option (List Char) :=
  if s.isEmpty then none else
  let a := s.takeWhile (· != '\n')
  if a.length < s.length then some (stripCr a) else some a

/-- The text after the last `'\n'` of `s` (all of `s` if there is none). -/
def afterLastNl (s : List Char) : List Char := (s.reverse.takeWhile (· != '\n')).reverse

/-- `s.find(pat)`: char index of the first occurrence. -/
def findSub (pat : List Char) : List Char → Option Nat
  | [] => if pat.isEmpty then some 0 else none
  | c :: cs => if startsWith pat (c :: cs) then some 0 else (findSub pat cs).map (· + 1)

/-- `s.rfind(pat)`: char index of the last occurrence. -/
def rfindSub (pat : List Char) : List Char → Option Nat
  | [] => if pat.isEmpty then some 0 else none
  | c :: cs =>
    match rfindSub pat cs with
    | some i => some (i + 1)
    | none => if startsWith pat (c :: cs) then some 0 else none

/-- Checked `&s[n..]` for an index that is a char count. -/
def sliceFrom (n : Nat) (s : List Char) : Option (List Char) :=
  if n ≤ s.length then some (s.drop n) else none

/-- Checked `&s[..n]` for an index that is a char count. -/
def sliceTo (n : Nat) (s : List Char) : Option (List Char) :=
  if n ≤ s.length then some (s.take n) else none

/-- `str::len()`: UTF-8 byte length. -/
def byteLen : List Char → Nat
  | [] => 0
  | c :: cs => c.utf8Size + byteLen cs

/-- Checked `&s[..k]` for a *byte* index `k`: `none` when `k` is past the end or not on a char
    boundary (both panic in Rust). -/
def takeBytes : List Char → Nat → Option (List Char)
  | _, 0 => some []
  | [], _ + 1 => none
  | c :: cs, k + 1 =>
    if c.utf8Size ≤ k + 1 then (takeBytes cs (k + 1 - c.utf8Size)).map (c :: ·) else none

/-- Checked `usize` subtraction (`attempt to subtract with overflow`). -/
def checkedSub (a b : Nat) : Option Nat := if b ≤ a then some (a - b) else none

/-- Result of one call of `next` / `next_back`. -/
inductive R where
  /-- the call panicked -/
  | panic
  /-- the call returned `None`; `self.src` is now `rest` -/
  | stop (rest : List Char)
  /-- the call returned `Some(item)`; `self.src` is now `rest` -/
  | yield (item rest : List Char)
  deriving Repr, DecidableEq, Inhabited

/-- `CommentIter::next` (source.rs:350-387). -/
def next (src : List Char) : R :=
  if src.isEmpty then .stop src                                            -- :351
  else
    let s := trimBoth wsNoNl src                                           -- :354-357
    if isLineComment s then                                                -- :358
      match firstLine? s with                                              -- :359 lines().next().unwrap()
      | none => .panic
      | some cl =>
        match sliceFrom cl.length s with                                   -- :360
        | none => .panic
        | some r =>
          if startsWith ['\r', '\n'] r then                                -- :361
            match sliceFrom 2 r with
            | none => .panic
            | some r' => .yield cl r'
          else if startsWith ['\n'] r then                                 -- :363
            match sliceFrom 1 r with
            | none => .panic
            | some r' => .yield cl r'
          else .yield cl r                                                 -- :366
    else if startsWith ['/', '*'] s then                                   -- :370
      match findSub ['*', '/'] s with                                      -- :371
      | some i =>
        match sliceTo (i + 2) s, sliceFrom (i + 2) s with                  -- split_at(i + 2)
        | some c, some r => .yield c r
        | _, _ => .panic
      | none => .stop s
    else if startsWith ['\n'] s then                                       -- :376
      match sliceFrom 1 s with
      | none => .panic
      | some r => .yield [] r
    else .stop s                                                           -- :380

/-- `CommentIter::next_back` (source.rs:388-425, after fix commit 9c4447b). -/
def nextBack (src : List Char) : R :=
  if src.isEmpty then .stop src                                            -- :389
  else
    let s := trimEnd wsNoNl src                                            -- :392-394
    if endsWith ['\n'] s then                                              -- :395
      let nlLen := if endsWith ['\r', '\n'] s then 2 else 1                -- :396
      match checkedSub s.length nlLen with                                 -- :397 len - newline_len
      | none => .panic
      | some n =>
        match sliceTo n s with                                             -- :397 src[..n]
        | none => .panic
        | some wn =>
          if wn.isEmpty then .stop s                                       -- :398 return None
          else
            let cl := afterLastNl wn                                       -- :404 rsplit('\n').next()
            let trimmed := cl.dropWhile isWs                               -- :405 trim_start()
            if isLineComment trimmed then                                  -- :407
              match checkedSub (byteLen wn) (byteLen trimmed) with         -- :409 len - trimmed.len()
              | none => .panic
              | some k =>
                match takeBytes wn k with                                  -- :409 src[..k]
                | none => .panic
                | some s2 => .yield trimmed (trimEnd wsNoNl s2)            -- :410
            else .yield [] wn                                              -- :413
    else if endsWith ['*', '/'] s then                                     -- :415
      match rfindSub ['/', '*'] s with                                     -- :416
      | some i =>
        match sliceTo i s, sliceFrom i s with                              -- split_at(i)
        | some r, some c => .yield c r
        | _, _ => .panic
      | none => .stop s
    else .stop s                                                           -- :422

/-- Outcome of draining an iterator. -/
inductive Run where
  | panic
  /-- ran out of fuel (proved impossible for `forward`/`backward`) -/
  | fuel
  /-- the items in the order they were yielded, and the final `self.src` -/
  | done (items : List (List Char)) (rest : List Char)
  deriving Repr, DecidableEq, Inhabited

def Run.cons (it : List Char) : Run → Run
  | .done its r => .done (it :: its) r
  | x => x

def drain (step : List Char → R) : Nat → List Char → Run
  | 0, _ => .fuel
  | n + 1, s =>
    match step s with
    | .panic => .panic
    | .stop r => .done [] r
    | .yield it r => (drain step n r).cons it

/-- `comments_between(span).collect()`; each `Some` strictly shortens `self.src`, so
    `length + 1` calls suffice (`forward_total`). -/
def forward (s : List Char) : Run := drain next (s.length + 1) s

/-- `comments_between(span).rev().collect()`. -/
def backward (s : List Char) : Run := drain nextBack (s.length + 1) s

/-- An interleaving of `next` (`true`) and `next_back` (`false`) calls on one iterator; `none`
    stands for a returned `None`.  Stops at a panic. -/
def mixed : List Bool → List Char → List (Option (List Char)) × Bool
  | [], _ => ([], false)
  | b :: bs, s =>
    match (if b then next s else nextBack s) with
    | .panic => ([], true)
    | .stop r => let (xs, p) := mixed bs r; (none :: xs, p)
    | .yield it r => let (xs, p) := mixed bs r; (some it :: xs, p)

end GluonModel.Comments
