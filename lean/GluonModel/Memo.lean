/-
C15 model `Memo`: module loading through the incremental query database.

What is mirrored (gluon @ /repo):

* `State.inline_modules` (src/query.rs:80-86): latest source text per module  → `St.srcs`.
* `add_module` (src/query.rs:195-218): Occupied entry with *different* text → overwrite and
  `ModuleTextQuery.invalidate` (a new salsa revision); Occupied with equal text → nothing;
  **Vacant entry → insert only, no invalidation and no new revision**                → `setSrc false`.
  (`setSrc true` is the repaired variant that also starts a new revision for a new module.)
* the derived queries `typechecked_source_module` (src/query.rs:548, `report_untracked_read` at :553),
  `core_expr` (:603, untracked read at :608), `compiled_module`, `import` (:682), `global_inner`
  (:707): every one of them (transitively) performs an untracked read, so salsa
  (gluon-salsa-0.15.2 src/derived/slot.rs:1077-1082 `MemoInputs::Untracked => return false`) re-executes
  them in every new revision and returns the memo unchanged *within* one revision (slot.rs:423-520
  `probe`: `verified_at == revision_now` ⇒ up to date). Hence the memo tables are modelled as
  `Cache.memo` = results verified in the current revision, dropped as a whole when the revision
  counter `St.rev` is bumped.
* `import!` (src/import.rs:490-605) evaluates the imported module at macro-expansion time of the
  importer, all imports of a module in source order, collecting *all* errors (no short circuit);
  a module that is currently being computed (salsa `QueryState::InProgress`, slot.rs:432-458) is a
  cycle: `recover_cycle*` (src/query.rs:447-510) → `import::Error::CyclicDependency`
  (src/import.rs:51). In the model "in progress" = "removed from `avail`".
* `global_inner` (src/query.rs:707-771) runs the compiled module body (`call_thunk_top`, :733) only
  when typechecking and compilation succeeded → `Cache.log` records the bodies that ran (the
  harness observes them through a counting extern function).

Module sources are abstracted to what the generated test modules contain: a result kind (Int /
String), a constant, and an ordered list of imports, each either used in an `#Int+` sum (`true`) or
only bound (`false`).
-/
namespace GluonModel.Memo

abbrev Mod := Nat

inductive Ty where
  | int | str
  deriving DecidableEq, Repr

/-- Error classes, by increasing priority of the canonical outcome. -/
inductive Cls where
  | type | missing | cycle
  deriving DecidableEq, Repr

structure Src where
  kind : Ty
  c : Nat
  deps : List (Mod × Bool)
  deriving DecidableEq, Repr

inductive Res where
  | ok (ty : Ty) (v : Nat)
  | err (c : Cls)
  deriving DecidableEq, Repr

abbrev Srcs := List (Mod × Src)

def Srcs.mods (s : Srcs) : List Mod := s.map (·.1)

/-- Overwrite / insert the text of one module. -/
def Srcs.set (s : Srcs) (m : Mod) (t : Src) : Srcs := (m, t) :: s.filter (fun p => p.1 != m)

def hasErr (c : Cls) (rs : List (Res × Bool)) : Bool := rs.any (fun p => p.1 == Res.err c)

/-- An import used as an `Int` whose module is not an `Int`. -/
def mismatch (rs : List (Res × Bool)) : Bool :=
  rs.any (fun p => p.2 && (match p.1 with | .ok .int _ => false | _ => true))

def intOf : Res → Nat
  | .ok _ v => v
  | .err _ => 0

def sumUsed (rs : List (Res × Bool)) : Nat :=
  (rs.filter (·.2)).foldl (fun a p => a + intOf p.1) 0

/-- Outcome of a module given the outcomes of its imports: all import errors are reported
    (canonical class = the highest one), then the importer's own type errors, else its value. -/
def combine (s : Src) (rs : List (Res × Bool)) : Res :=
  if hasErr .cycle rs then .err .cycle
  else if hasErr .missing rs then .err .missing
  else if hasErr .type rs || mismatch rs then .err .type
  else match s.kind with
    | .int => .ok .int (s.c + sumUsed rs)
    | .str => .ok .str s.c

/-- From-scratch evaluation (a fresh VM): depth-first over the imports; `avail` are the modules
    that are *not* currently being computed. Out of fuel never happens when `fuel > avail.length`
    (`Proofs.Memo.evalA_agree`); it is reported as a cycle. -/
def evalA (srcs : Srcs) : Nat → List Mod → Mod → Res
  | 0, _, _ => .err .cycle
  | f+1, avail, m =>
    match srcs.lookup m with
    | none => .err .missing
    | some s =>
      if m ∈ avail then
        combine s (s.deps.map fun d => (evalA srcs f (avail.filter (· != m)) d.1, d.2))
      else .err .cycle

/-- What a fresh VM given `srcs` answers for `import! m`. -/
def spec (srcs : Srcs) (m : Mod) : Res := evalA srcs (srcs.length + 1) srcs.mods m

/-- Memo tables of the current revision and the log of module bodies run in it. -/
structure Cache where
  memo : List (Mod × Res)
  log : List Mod
  deriving Repr

def isOk : Res → Bool
  | .ok _ _ => true
  | .err _ => false

def evalDeps (ev : Mod → Cache → Res × Cache) : List (Mod × Bool) → Cache → List (Res × Bool) × Cache
  | [], c => ([], c)
  | d :: ds, c =>
    let r := ev d.1 c
    let rs := evalDeps ev ds r.2
    ((r.1, d.2) :: rs.1, rs.2)

/-- The engine's evaluation of `import! m`: memo hit, else compute (and memoise) through the
    imports; a module being computed is a cycle (not memoised at that point: its slot is
    `InProgress`). -/
def evalM (srcs : Srcs) : Nat → List Mod → Mod → Cache → Res × Cache
  | 0, _, _, c => (.err .cycle, c)
  | f+1, avail, m, c =>
    match c.memo.lookup m with
    | some r => (r, c)
    | none =>
      match srcs.lookup m with
      | none => (.err .missing, { c with memo := (m, .err .missing) :: c.memo })
      | some s =>
        if m ∈ avail then
          let rs := evalDeps (evalM srcs f (avail.filter (· != m))) s.deps c
          let r := combine s rs.1
          (r, { memo := (m, r) :: rs.2.memo, log := if isOk r then rs.2.log ++ [m] else rs.2.log })
        else (.err .cycle, c)

structure St where
  srcs : Srcs
  rev : Nat
  cache : Cache
  deriving Repr

def St.init : St := ⟨[], 0, ⟨[], []⟩⟩

def St.bump (st : St) (srcs : Srcs) : St := ⟨srcs, st.rev + 1, ⟨[], []⟩⟩

/-- `add_module` (src/query.rs:195). `fixed = false` is the code as it is. -/
def setSrc (fixed : Bool) (st : St) (m : Mod) (t : Src) : St :=
  match st.srcs.lookup m with
  | some old => if old = t then st else st.bump (st.srcs.set m t)
  | none => if fixed then st.bump (st.srcs.set m t) else { st with srcs := st.srcs.set m t }

/-- `run_expr "import! m"` / the evaluating half of `load_script`. -/
def getM (st : St) (m : Mod) : Res × St :=
  let r := evalM st.srcs (st.srcs.length + 1) st.srcs.mods m st.cache
  (r.1, { st with cache := r.2 })

inductive Op where
  | set (m : Mod) (t : Src)
  | get (m : Mod)
  deriving Repr

def step (fixed : Bool) (st : St) : Op → St
  | .set m t => setSrc fixed st m t
  | .get m => (getM st m).2

def replay (fixed : Bool) (ops : List Op) (st : St) : St := ops.foldl (step fixed) st

/-- The latest sources after a history, independent of any engine. -/
def latest (ops : List Op) (s : Srcs) : Srcs :=
  ops.foldl (fun s op => match op with | .set m t => if s.lookup m = some t then s else s.set m t | .get _ => s) s

end GluonModel.Memo
