/-
C07 model, part (i): the memory accounting of one gluon heap (vm/src/gc.rs `struct Gc`, 241-277:
`values` the linked list of objects, `allocated_memory`, `collect_limit`, `memory_limit`).

Only sizes matter: an object is the number of bytes accounted for it, `AllocPtr::size()` =
`GcHeader::value_offset() + value_size` (gc.rs:394-396).  `hdr` is `GcHeader::value_offset()`
(gc.rs:443-447; 40 on the x86-64 target: `Option<AllocPtr>` has no niche), a parameter of the model.  Sizes are `Nat`; the Rust code
uses `usize` with `saturating_add` in the check (gc.rs:1233-1236), which differs only when a sum
reaches 2^64.
-/
namespace GluonModel.GcAccount

structure Gc where
  /-- accounted size of every object of the `values` list, newest first (gc.rs:1337 pushes at the
      head) -/
  objs : List Nat
  /-- `allocated_memory` -/
  allocated : Nat
  /-- `collect_limit` -/
  collectLimit : Nat
  /-- `memory_limit` -/
  limit : Nat
  /-- `GcHeader::value_offset()` -/
  hdr : Nat
  deriving Repr, DecidableEq

/-- gc.rs:1152-1163 `Gc::new`. -/
def Gc.new (hdr limit : Nat) : Gc := ⟨[], 0, 100, limit, hdr⟩

inductive Res where
  | ok
  /-- `Error::OutOfMemory { limit, needed }` -/
  | oom (limit needed : Nat)
  deriving Repr, DecidableEq

/-- gc.rs:1318-1350 `alloc_ignore_limit_`: link the object, `allocated_memory += ptr.size()`. -/
def allocIgnore (g : Gc) (size : Nat) : Gc :=
  { g with objs := (g.hdr + size) :: g.objs, allocated := g.allocated + (g.hdr + size) }

/-- gc.rs:1226-1244 `alloc_owned` as it is now (after `fix: include the GC header in the memory
    limit check`): `needed = allocated + header + size`; `needed >= memory_limit` fails. -/
def alloc (g : Gc) (size : Nat) : Gc × Res :=
  let needed := g.allocated + g.hdr + size
  if needed ≥ g.limit then (g, .oom g.limit needed) else (allocIgnore g size, .ok)

/-- The check as it was at the pinned commit (defect D4): the header was not part of `needed`. -/
def allocOld (g : Gc) (size : Nat) : Gc × Res :=
  let needed := g.allocated + size
  if needed ≥ g.limit then (g, .oom g.limit needed) else (allocIgnore g size, .ok)

/-- gc.rs:1425-1468 `sweep` + 1477-1483 `free`: objects whose mark bit is not set are unlinked and
    `allocated_memory -= ptr.size()`.  `marks` is aligned with `objs`; a missing mark = unmarked. -/
def sweepObjs : List Nat → List Bool → List Nat
  | [], _ => []
  | _ :: _, [] => []
  | o :: os, m :: ms => if m then o :: sweepObjs os ms else sweepObjs os ms

def freed : List Nat → List Bool → Nat
  | [], _ => 0
  | o :: os, [] => o + freed os []
  | o :: os, m :: ms => if m then freed os ms else o + freed os ms

/-- gc.rs:1373-1387 `collect`: mark from the roots, sweep, `collect_limit = 2 * allocated_memory`. -/
def collect (g : Gc) (marks : List Bool) : Gc :=
  let a := g.allocated - freed g.objs marks
  { g with objs := sweepObjs g.objs marks, allocated := a, collectLimit := 2 * a }

/-- gc.rs:1352-1369 `check_collect`: collect when `allocated_memory >= collect_limit`. -/
def checkCollect (g : Gc) (marks : List Bool) : Gc × Bool :=
  if g.allocated ≥ g.collectLimit then (collect g marks, true) else (g, false)

/-- gc.rs:1185-1215 `alloc_and_collect`: `check_collect(roots)` then `alloc_owned`. -/
def allocAndCollect (g : Gc) (marks : List Bool) (size : Nat) : Gc × Res :=
  alloc (checkCollect g marks).1 size

/-- vm/src/api/mod.rs:526-537 `Pushable::status_push` (and 488-496 `async_status_push`): when pushing
    the result of an extern primitive fails (e.g. `std.string.prim.append` cannot allocate its result,
    vm/src/primitives.rs:286-289 → `RuntimeResult::Panic` → api/mod.rs:1518), the text of the error
    is allocated with `alloc_ignore_limit` (line 533) and pushed for `execute_function`
    (thread.rs:1915-1926) to turn into `Error::Panic(text)`.  `msg` = length of that text. -/
def allocOrReport (g : Gc) (size msg : Nat) : Gc × Res :=
  match alloc g size with
  | (g', .ok) => (g', .ok)
  | (g', r) => (allocIgnore g' msg, r)

/-- The repair: the error leaves the primitive without a heap allocation. -/
def allocOrReportFixed (g : Gc) (size _msg : Nat) : Gc × Res := alloc g size

inductive Op where
  | alloc (size : Nat)
  | allocIgnore (size : Nat)
  | allocCollect (marks : List Bool) (size : Nat)
  | collect (marks : List Bool)
  | setLimit (limit : Nat)
  deriving Repr

def step (g : Gc) : Op → Gc × Res
  | .alloc n => alloc g n
  | .allocIgnore n => (allocIgnore g n, .ok)
  | .allocCollect ms n => allocAndCollect g ms n
  | .collect ms => (collect g ms, .ok)
  | .setLimit l => ({ g with limit := l }, .ok)

def run (g : Gc) : List Op → Gc
  | [] => g
  | op :: ops => run (step g op).1 ops

/-- Ops that respect the limit: everything but `alloc_ignore_limit` and lowering the limit. -/
def Op.accounted : Op → Bool
  | .allocIgnore _ => false
  | .setLimit _ => false
  | _ => true

/-- The sequence of `needed` values of a fixed allocation trace is independent of the limit up to
    the first failure; `firstOom limit needs` is the `needed` reported under `limit`. -/
def firstOom (limit : Nat) : List Nat → Option Nat
  | [] => none
  | n :: ns => if n ≥ limit then some n else firstOom limit ns

end GluonModel.GcAccount
