/-
`OptCore`: mirror of the core IR that gluon's optimiser works on (vm/src/core/mod.rs:56-168
`Closure`, `Named`, `LetBinding`, `Literal`, `Pattern`, `Alternative`, `Expr`) and a reference
evaluator with an effect log, used by the theorems of C04.

Symbols compare by address in gluon (base/src/symbol.rs:249); the harness gives every symbol a
canonical unique name, so here a symbol is a `String`.  Types are erased except for the row
(field names) of a `Data` node's type, which optimize.rs:253 reads.

The lists inside expressions are explicit mutual inductives (`Exprs`, `Alts`, `Closures`) so that
functions and proofs are plain mutual structural recursions.
-/
namespace GluonModel.OptCore

/-- vm/src/core/mod.rs:131 `Literal` (floats by bit pattern, chars by scalar value). -/
inductive Lit where
  | int (i : Int)
  | byte (n : Nat)
  | float (bits : Nat)
  | str (s : String)
  | char (n : Nat)
  deriving Repr, BEq, DecidableEq, Inhabited

/-- vm/src/core/mod.rs:140 `Pattern`; a record field is (field name, binder) where the binder is
    `field.1.unwrap_or(field.0.name)`. -/
inductive Pat where
  | ctor (name : String) (args : List String)
  | record (fields : List (String × String))
  | ident (x : String)
  | lit (l : Lit)
  deriving Repr, BEq, DecidableEq, Inhabited

mutual
/-- vm/src/core/mod.rs:159 `Expr`; `Let` is split by its `Named` (mod.rs:88). -/
inductive Expr where
  | const (l : Lit)
  | ident (x : String)
  | call (f : Expr) (args : Exprs)
  /-- `Data(id, args)`: constructor name (`<record>` for records) and the field names of `id.typ` -/
  | data (ctor : String) (rows : List String) (args : Exprs)
  | letE (x : String) (e : Expr) (body : Expr)
  | letRec (cs : Closures) (body : Expr)
  | matchE (s : Expr) (alts : Alts)
  | cast (e : Expr)
inductive Exprs where
  | nil
  | cons (e : Expr) (es : Exprs)
inductive Alts where
  | nil
  | cons (p : Pat) (e : Expr) (rest : Alts)
/-- a group of `Closure { name, args, expr }` -/
inductive Closures where
  | nil
  | cons (name : String) (args : List String) (body : Expr) (rest : Closures)
end

instance : Inhabited Expr := ⟨.const (.int 0)⟩

def Exprs.ofList : List Expr → Exprs
  | [] => .nil
  | e :: es => .cons e (Exprs.ofList es)

def Alts.ofList : List (Pat × Expr) → Alts
  | [] => .nil
  | (p, e) :: r => .cons p e (Alts.ofList r)

def Closures.ofList : List (String × List String × Expr) → Closures
  | [] => .nil
  | (n, a, b) :: r => .cons n a b (Closures.ofList r)

/-- Builtin operators are the identifiers starting with `#` (dead_code.rs:264,
    base/src/symbol.rs:282 `is_primitive`). -/
def isBuiltinName (x : String) : Bool :=
  match x.toList with
  | '#' :: _ => true
  | _ => false

/-- `some b` when the callee is a builtin operator identifier. -/
def builtinCallee : Expr → Option String
  | .ident x => if isBuiltinName x then some x else none
  | _ => none

/-! ### Values and outcomes -/

inductive Value where
  | lit (l : Lit)
  | data (ctor : String) (rows : List String) (fields : List Value)
  /-- member `name` of the recursive group `group` defined in environment `env` -/
  | clos (env : List (String × Value)) (group : Closures) (name : String)
  | pap (f : Value) (args : List Value)
  /-- a host function / global that the module does not define -/
  | ext (name : String)

instance : Inhabited Value := ⟨.lit (.int 0)⟩

abbrev Env := List (String × Value)

/-- One call of a side-effecting host function: name and arguments. -/
abbrev ExternCall := String × List Value
abbrev Log := List ExternCall

inductive Out (α : Type) where
  | ok (a : α)
  /-- integer overflow / division by zero of a builtin arithmetic operation -/
  | arith
  /-- failure raised by a host function (`error msg`) -/
  | user (msg : String)
  /-- stuck: only ill-typed programs get here -/
  | wrong
  /-- the call budget of the evaluator ran out -/
  | timeout

/-- Outcome plus the sequence of host calls made up to it. -/
structure R (α : Type) where
  out : Out α
  log : Log

def R.pure {α} (a : α) : R α := ⟨.ok a, []⟩

def R.bind {α β} (r : R α) (k : α → R β) : R β :=
  match r.out with
  | .ok a => ⟨(k a).out, r.log ++ (k a).log⟩
  | .arith => ⟨.arith, r.log⟩
  | .user m => ⟨.user m, r.log⟩
  | .wrong => ⟨.wrong, r.log⟩
  | .timeout => ⟨.timeout, r.log⟩

def lookup : Env → String → Option Value
  | [], _ => none
  | (y, v) :: r, x => if y = x then some v else lookup r x

/-- An identifier the module does not bind is a global of the host. -/
def lookupD (env : Env) (x : String) : Value := (lookup env x).getD (.ext x)

def minInt : Int := -9223372036854775808
def maxInt : Int := 9223372036854775807

def checked (n : Int) : Out Value :=
  if minInt ≤ n ∧ n ≤ maxInt then .ok (.lit (.int n)) else .arith

def boolV (b : Bool) : Value := .data (if b then "True" else "False") [] []

def litOf : Value → Option Lit
  | .lit l => some l
  | _ => none

/-- Two integer arguments. -/
def intArgs : List Value → Option (Int × Int)
  | [a, b] =>
    match litOf a, litOf b with
    | some (.int x), some (.int y) => some (x, y)
    | _, _ => none
  | _ => none

def intOp (op : String) (a b : Int) : Out Value :=
  if op = "#Int+" then checked (a + b)
  else if op = "#Int-" then checked (a - b)
  else if op = "#Int*" then checked (a * b)
  else if op = "#Int/" then (if b = 0 then .arith else checked (Int.tdiv a b))
  else if op = "#Int<" then .ok (boolV (decide (a < b)))
  else if op = "#Int==" then .ok (boolV (decide (a = b)))
  else .wrong

/-- The builtin operators the reference evaluator knows (vm/src/thread.rs `AddInt` … via
    vm/src/compiler.rs primitive table): checked 64-bit integer arithmetic and comparisons.
    Every builtin is a function of its arguments: no log, and `arith` is its only failure. -/
def builtin (op : String) (args : List Value) : Out Value :=
  match intArgs args with
  | some (a, b) => intOp op a b
  | none => .wrong

def findIdx (rows : List String) (f : String) : Option Nat :=
  match rows with
  | [] => none
  | r :: rs => if r = f then some 0 else (findIdx rs f).map (· + 1)

def bindFields (rows : List String) (vals : List Value) : List (String × String) → Option Env
  | [] => some []
  | (f, b) :: rest =>
    match findIdx rows f with
    | none => none
    | some i =>
      match vals[i]?, bindFields rows vals rest with
      | some v, some r => some ((b, v) :: r)
      | _, _ => none

/-- Bindings made by a flat core pattern, or `none` when it does not match. -/
def matchPat : Pat → Value → Option Env
  | .ident x, v => some [(x, v)]
  | .lit l, .lit l' => if l = l' then some [] else none
  | .ctor c args, .data c' _ fields =>
    if c = c' ∧ args.length = fields.length then some (args.zip fields) else none
  | .record fs, .data _ rows vals => bindFields rows vals fs
  | _, _ => none

/-- How a non-builtin call behaves: callee value, argument values ↦ outcome and host calls made. -/
abbrev Caller := Value → List Value → R Value

def closureEnv (env : Env) (group : Closures) : Closures → Env
  | .nil => []
  | .cons n _ _ rest => (n, .clos env group n) :: closureEnv env group rest

/-- Applying a function value: the builtin operators are pure functions of their arguments, every
    other callee is delegated to `call`. -/
def applyV (call : Caller) (fv : Value) (vs : List Value) : R Value :=
  match fv with
  | .ext b => if isBuiltinName b then ⟨builtin b vs, []⟩ else call fv vs
  | _ => call fv vs

/-- Value of an identifier: builtin operator names denote themselves, a name the module does
    not bind is a global of the host. -/
def identV (env : Env) (x : String) : Value :=
  if isBuiltinName x then .ext x else lookupD env x

mutual
/-- Strict, left-to-right evaluation of a core expression; every non-builtin call is delegated to
    `call` (so the evaluator itself is a structural recursion). -/
def eval (call : Caller) (env : Env) : Expr → R Value
  | .const l => R.pure (.lit l)
  | .ident x => R.pure (identV env x)
  | .call f args =>
    (eval call env f).bind fun fv => (evalList call env args).bind fun vs => applyV call fv vs
  | .data c rows args => (evalList call env args).bind fun vs => R.pure (.data c rows vs)
  | .letE x e body => (eval call env e).bind fun v => eval call ((x, v) :: env) body
  | .letRec cs body => eval call (closureEnv env cs cs ++ env) body
  | .matchE s alts => (eval call env s).bind fun v => evalAlts call env v alts
  | .cast e => eval call env e
def evalList (call : Caller) (env : Env) : Exprs → R (List Value)
  | .nil => R.pure []
  | .cons e es =>
    (eval call env e).bind fun v => (evalList call env es).bind fun vs => R.pure (v :: vs)
def evalAlts (call : Caller) (env : Env) (v : Value) : Alts → R Value
  | .nil => ⟨.wrong, []⟩
  | .cons p e rest =>
    match matchPat p v with
    | some bs => eval call (bs ++ env) e
    | none => evalAlts call env v rest
end

def findClosure : Closures → String → Option (List String × Expr)
  | .nil, _ => none
  | .cons n a b rest, x => if n = x then some (a, b) else findClosure rest x

/-- The two host functions of the examples: `vlog x` records the call and returns `x`;
    `error msg` records nothing and fails. -/
def hostCall (name : String) (args : List Value) : R Value :=
  match args with
  | [v] =>
    if name = "vlog" then ⟨.ok v, [("vlog", [v])]⟩
    else if name = "error" then
      match litOf v with
      | some (.str m) => ⟨.user m, []⟩
      | _ => ⟨.wrong, []⟩
    else ⟨.wrong, []⟩
  | _ => ⟨.wrong, []⟩

/-- A concrete `Caller`: closures, partial applications and the host functions above, with a
    budget of nested closure calls. -/
def applyN : Nat → Caller
  | 0, _, _ => ⟨.timeout, []⟩
  | n + 1, f, args =>
    match f with
    | .ext name => hostCall name args
    | .pap g pre => applyN n g (pre ++ args)
    | .clos cenv group name =>
      match findClosure group name with
      | none => ⟨.wrong, []⟩
      | some (params, body) =>
        if args.length < params.length then R.pure (.pap f args)
        else
          let env' := (params.zip args) ++ closureEnv cenv group group ++ cenv
          let r := eval (applyN n) env' body
          if args.length = params.length then r
          else r.bind fun v => applyN n v (args.drop params.length)
    | _ => ⟨.wrong, []⟩

/-- Evaluate a closed module body with the concrete caller. -/
def run (fuel : Nat) (e : Expr) : R Value := eval (applyN fuel) [] e

end GluonModel.OptCore
