/-
C07 model, part (iii): value stack + frame stack of one gluon thread across calls, tail calls and
returns (vm/src/stack.rs `Stack { values, frames, max_stack_size }` 422-428, `add_new_frame`
906-948; vm/src/thread.rs `Call`/`TailCall` arms 2183-2219, function return 2527-2565, `do_call`
2752-2793, `call_function_with_upvars` 2699-2750).

Only sizes matter: `values` is `Stack::values.len()`, a frame is its `offset`, the function it runs
and the number of excess arguments parked below it (`Frame::excess`; 0 = none).  What a function
body does between two calls is a `push`/`pop` of values in the current frame.  Closures only: an
extern function runs in a frame with `max_stack_size() = 0` (stack.rs:263-265) and may push freely;
that is outside this model.
-/
namespace GluonModel.CallStack

/-- `CompiledFunction { args, max_stack_size }` (compiler.rs:124-127). -/
structure FnInfo where
  args : Nat
  max : Nat
  deriving Repr, DecidableEq, Inhabited

structure Frame where
  offset : Nat
  fn : Nat
  /-- number of fields of the excess-argument object below the function slot; 0 = `excess: false` -/
  excess : Nat
  deriving Repr, DecidableEq, Inhabited

structure St where
  values : Nat
  /-- innermost first -/
  frames : List Frame
  deriving Repr, DecidableEq, Inhabited

inductive Err where
  /-- `Error::StackOverflow(limit)` -/
  | stackOverflow
  /-- the event does not apply (an `assert!`/`ice!` of the Rust code would fire) -/
  | stuck
  /-- model assertion: a body pushed beyond the function's `max_stack_size` -/
  | bound
  deriving Repr, DecidableEq, Inhabited

/-- The value being called: closure `fn`, or a partial application of it holding `held` arguments
    (`ValueRepr::Closure` / `ValueRepr::PartialApplication`, thread.rs:2761-2790). -/
structure Callee where
  fn : Nat
  held : Nat
  deriving Repr, DecidableEq, Inhabited

inductive Ev where
  | push (k : Nat)
  | pop (k : Nat)
  /-- `Call(n)` -/
  | call (c : Callee) (n : Nat)
  /-- `TailCall(n)` -/
  | tailcall (c : Callee) (n : Nat)
  /-- `Return`; `c` describes the returned value and is used only when the frame has excess
      arguments (the result is then called with them, thread.rs:2550-2562) -/
  | ret (c : Option Callee)
  deriving Repr, DecidableEq, Inhabited

abbrev Tbl := List FnInfo

def exc (fr : Frame) : Nat := if fr.excess = 0 then 0 else 1

/-- stack.rs:906-948 `add_new_frame`: `offset = len - args`; `len + max_stack_size > limit` is a
    stack overflow; otherwise the frame is pushed. -/
def enter (limit : Nat) (s : St) (g : Nat) (info : FnInfo) (excess : Nat) : Except Err St :=
  if s.values < info.args then .error .stuck
  else if s.values + info.max > limit then .error .stackOverflow
  else .ok { s with frames := ⟨s.values - info.args, g, excess⟩ :: s.frames }

/-- thread.rs:2752-2793 `do_call(n)` with the callee `c` in the function slot, followed by
    `call_function_with_upvars` (2699-2750): a partial application first inserts its held
    arguments (2778-2780); exact arity enters the frame; too few arguments build a partial
    application in place (2712-2721); too many park the excess in a data object inserted below
    the function and enter with `excess = true` (2722-2748). -/
def doCall (tbl : Tbl) (limit : Nat) (s : St) (c : Callee) (n : Nat) : Except Err St :=
  match s.frames, tbl[c.fn]? with
  | p :: _, some info =>
    if s.values < p.offset + n + 1 then .error .stuck
    else if c.held ≠ 0 ∧ info.args ≤ c.held then .error .stuck
    else
      let total := c.held + n
      if total = info.args then
        enter limit { s with values := s.values + c.held } c.fn info 0
      else if total < info.args then
        .ok { s with values := s.values - n }
      else
        enter limit { s with values := s.values + c.held - (total - info.args) + 1 } c.fn info
          (total - info.args)
  | _, _ => .error .stuck

def step (tbl : Tbl) (limit : Nat) (s : St) : Ev → Except Err St
  | .push k =>
    match s.frames with
    | fr :: _ =>
      match tbl[fr.fn]? with
      | some info =>
        if s.values + k - fr.offset > info.max then .error .bound
        else .ok { s with values := s.values + k }
      | none => .error .stuck
    | [] => .error .stuck
  | .pop k =>
    match s.frames with
    | fr :: _ => if s.values < fr.offset + k then .error .stuck else .ok { s with values := s.values - k }
    | [] => .error .stuck
  | .call c n => doCall tbl limit s c n
  | .tailcall c n =>
    -- thread.rs:2188-2219: amount = frame height - n (+1 with excess); the excess fields are
    -- pushed as further arguments; the frame is popped; `amount` values below the new function
    -- (locals, the current function, the excess object) are removed; then `do_call`
    match s.frames with
    | fr :: p :: rest =>
      if s.values < fr.offset + n + 1 then .error .stuck
      else if fr.offset < 1 + exc fr then .error .stuck
      else doCall tbl limit { values := fr.offset + n + fr.excess - exc fr, frames := p :: rest } c (n + fr.excess)
    | _ => .error .stuck
  | .ret c =>
    -- thread.rs:2527-2565: pop the frame, `slide(len)` leaves the result in the function slot;
    -- with excess arguments: drop the excess object, push its fields, call the result
    -- (the bottom frame is the host's `State::Unknown` frame, which never returns)
    match s.frames with
    | fr :: p :: rest =>
      if s.values < fr.offset + 1 then .error .stuck
      else if fr.offset < 1 + exc fr then .error .stuck
      else if fr.excess = 0 then .ok { values := fr.offset, frames := p :: rest }
      else match c with
        | some c => doCall tbl limit { values := fr.offset - 1 + fr.excess, frames := p :: rest } c fr.excess
        | none => .error .stuck
    | _ => .error .stuck

def run (tbl : Tbl) (limit : Nat) (s : St) : List Ev → Except Err St
  | [] => .ok s
  | ev :: evs =>
    match step tbl limit s ev with
    | .ok s' => run tbl limit s' evs
    | .error e => .error e

/-- The thread at rest: the bottom `State::Unknown` frame (the host's), no values. The host frame is
    function 0 of the table by convention. -/
def St.base : St := ⟨0, [⟨0, 0, 0⟩]⟩

/-! The interrupt flag.  thread.rs:1788-1884 `execute`: a loop whose every iteration first reads
`thread.interrupted()` (1792) and then runs the current frame until its next call, tail call or
return (`execute_` returns to the loop at 2186, 2218, 2559/2564).  `flag i` is the value the i-th
read sees. -/

inductive ExecEnd where
  | finished
  | interrupted
  deriving Repr, DecidableEq

/-- Number of segments run and how the loop ended, starting with poll number `i`. -/
def execute (flag : Nat → Bool) : Nat → Nat → Nat × ExecEnd
  | _, 0 => (0, .finished)
  | i, segs + 1 =>
    if flag i then (0, .interrupted)
    else let r := execute flag (i + 1) segs; (r.1 + 1, r.2)

end GluonModel.CallStack
