/-
The compact JSON text serde_json's `Serializer::new` writes (`CompactFormatter`: no whitespace,
`,` and `:` separators, integers in plain decimal, strings escaped as in `JsonStr`) and a reader for
exactly that form, over the value type of `InstrJson`. Numbers with a fraction or an exponent are
kept as their lexeme (see `InstrJson`). Used by the C12 driver to take the `instructions` arrays of
real `compile_to_bytecode` output apart and to put them together again.
-/
import GluonModel.InstrJson
import GluonModel.JsonStr

namespace GluonModel.JsonText
open GluonModel.InstrJson

def printInt (v : Int) : List Char := (toString v).toList

mutual
def print : J → List Char
  | .null => ['n', 'u', 'l', 'l']
  | .bool true => ['t', 'r', 'u', 'e']
  | .bool false => ['f', 'a', 'l', 's', 'e']
  | .int v => printInt v
  | .flt l => l
  | .str s => '"' :: JsonStr.escape s.toList ++ ['"']
  | .arr xs => '[' :: printArr xs ++ [']']
  | .obj kvs => '{' :: printObj kvs ++ ['}']
def printArr : List J → List Char
  | [] => []
  | [x] => print x
  | x :: xs => print x ++ ',' :: printArr xs
def printObj : List (String × J) → List Char
  | [] => []
  | [(k, x)] => '"' :: JsonStr.escape k.toList ++ '"' :: ':' :: print x
  | (k, x) :: kvs => '"' :: JsonStr.escape k.toList ++ '"' :: ':' :: print x ++ ',' :: printObj kvs
end

/-- The characters between the opening quote (already consumed) and the closing one, still escaped. -/
def takeStr : List Char → List Char → Option (List Char × List Char)
  | [], _ => none
  | '"' :: rest, acc => some (acc.reverse, rest)
  | ['\\'], _ => none
  | '\\' :: c :: rest, acc => takeStr rest (c :: '\\' :: acc)
  | c :: rest, acc => takeStr rest (c :: acc)

def isNumChar (c : Char) : Bool :=
  c.isDigit || c == '-' || c == '+' || c == '.' || c == 'e' || c == 'E'

/-- A number: an integer literal must be in the canonical form the writer produces. -/
def pNum (cs : List Char) : Option (J × List Char) :=
  let lex := cs.takeWhile isNumChar
  let rest := cs.dropWhile isNumChar
  if lex.isEmpty then none
  else if lex.all (fun c => c.isDigit || c == '-') then
    match (String.ofList lex).toInt? with
    | some v => if printInt v == lex then some (.int v, rest) else none
    | none => none
  else some (.flt lex, rest)

def pString (cs : List Char) : Option (String × List Char) :=
  match takeStr cs [] with
  | some (raw, rest) =>
    match JsonStr.unescape raw with
    | some s => some (String.ofList s, rest)
    | none => none
  | none => none

mutual
def pVal : Nat → List Char → Option (J × List Char)
  | 0, _ => none
  | _ + 1, 'n' :: 'u' :: 'l' :: 'l' :: r => some (.null, r)
  | _ + 1, 't' :: 'r' :: 'u' :: 'e' :: r => some (.bool true, r)
  | _ + 1, 'f' :: 'a' :: 'l' :: 's' :: 'e' :: r => some (.bool false, r)
  | _ + 1, '"' :: r =>
    match pString r with
    | some (s, r) => some (.str s, r)
    | none => none
  | _ + 1, '[' :: ']' :: r => some (.arr [], r)
  | n + 1, '[' :: r =>
    match pArr n r with
    | some (xs, r) => some (.arr xs, r)
    | none => none
  | _ + 1, '{' :: '}' :: r => some (.obj [], r)
  | n + 1, '{' :: r =>
    match pObj n r with
    | some (kvs, r) => some (.obj kvs, r)
    | none => none
  | _ + 1, cs => pNum cs
def pArr : Nat → List Char → Option (List J × List Char)
  | 0, _ => none
  | n + 1, cs =>
    match pVal n cs with
    | some (x, ',' :: r) =>
      match pArr n r with
      | some (xs, r) => some (x :: xs, r)
      | none => none
    | some (x, ']' :: r) => some ([x], r)
    | _ => none
def pObj : Nat → List Char → Option (List (String × J) × List Char)
  | 0, _ => none
  | n + 1, '"' :: cs =>
    match pString cs with
    | some (k, ':' :: r) =>
      match pVal n r with
      | some (x, ',' :: r) =>
        match pObj n r with
        | some (kvs, r) => some ((k, x) :: kvs, r)
        | none => none
      | some (x, '}' :: r) => some ([(k, x)], r)
      | _ => none
    | _ => none
  | _ + 1, _ => none
end

/-- A complete text (nothing may follow the value). -/
def parse (cs : List Char) : Option J :=
  match pVal (cs.length + 1) cs with
  | some (j, []) => some j
  | _ => none

end GluonModel.JsonText
