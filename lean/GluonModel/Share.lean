/-
The marked / reference sharing scheme of gluon's seeded (de)serialisation.

Rust source mirrored here:

* base/src/serialization.rs:285-307  `NodeToId`, `node_to_id`: one map *pointer → id* for all
  pointer kinds; a node whose `Shared::unique()` holds (strong count 1) is not entered (`Lookup::
  Unique`), a node already present gives `Lookup::Found(id)`, otherwise it is inserted with
  `id = map.len()` *before* its contents are written (`Lookup::Inserted(id)`).
* base/src/serialization.rs:363-376  `shared::serialize`: `Unique → Variant::Plain(contents)`,
  `Found(id) → Variant::Reference(id)`, `Inserted(id) → Variant::Marked(id, contents)`.
* base/src/serialization.rs:248-252  `enum Variant<T> { Marked(Id, T), Plain(T), Reference(Id) }`.
* base/src/serialization.rs:155-198  `NodeMap`: an `anymap` of `HashMap<Id, T>` — one id table *per
  Rust type* (`insert` overwrites, `get` clones).
* base/src/serialization.rs:254-278  `SharedSeed::deserialize`: `Marked(id, node)` deserialises the
  contents *first* and only then `insert(id, node)`; `Plain(v)` returns `v`; `Reference(id)`
  looks the id up in the table of the expected type, `None → Err("missing id {id}")`.
* vm/src/serialization.rs:64-80 `SeSeed` (wraps the base `SeSeed`), :30-62 `DeSeed` (`gc_map`
  is such a `NodeMap`), :313-335 `GcPtr<T>` is `Shared` with `unique() = false` and serialises
  through `shared::serialize`.

* vm/src/serialization.rs:528-553 `ClosureData::serialize_state` (the only cyclic node kind: a
  closure's upvars may reach the closure again, e.g. recursive groups and recursive records): a
  sequence `[Reference(id)]` if the closure's address is in `node_to_id`, otherwise
  `[Marked(id = map.len()), function, upvars.len(), upvar…]` with the address inserted *before*
  anything else is written.
* vm/src/serialization.rs:555-612 `Visitor for Seed<ClosureData>`: `Marked(id)` reads the
  function (and the count), *allocates* the closure with dummy upvars, inserts it into `gc_map`
  under `id`, and only then reads and *fills in* the upvars (two-phase "allocate then fill"), so a
  `Reference(id)` met while the upvars are read resolves to the closure under construction.
  `Reference(id)` looks `id` up in the `GcPtr<ClosureData>` table. Records (`deserialize_data`,
  :235-293) and arrays have NO such scheme: they go through `SharedSeed` (insert after contents).

Abstraction: a heap graph is a term `T` whose shared nodes carry their *address*; a node's
`sort` stands for its Rust type (the `NodeMap` key), `uniq` for `Shared::unique()`. The framing of
the byte format (serde_json brackets, bincode lengths, …) is abstracted to tokens that carry the
number of children (`Tok`), so that a token list is self-delimiting like the real formats.
-/
namespace GluonModel.Share

/-- A heap graph unfolded from a root; `addr` is the pointer of a shared node. -/
inductive T where
  | atom (a : Nat)
  | node (addr : Nat) (uniq : Bool) (sort : Nat) (kids : List T)
  /-- a fillable object (closure): `pre` is read before the object is allocated and entered into
      the table (the function), `post` after (the upvars) -/
  | clo (addr : Nat) (sort : Nat) (pre post : List T)
  /-- a pointer to an object that is described elsewhere in the term and not unfolded here: the
      back edge of a cycle -/
  | ptr (addr : Nat) (sort : Nat)
  deriving Repr, Inhabited

/-- What the serialiser writes (`Variant<T>`), before framing. -/
inductive D where
  | atom (a : Nat)
  | marked (sort id : Nat) (kids : List D)
  | plain (sort : Nat) (kids : List D)
  | ref (sort id : Nat)
  /-- `[Marked(id), kid…]` of a closure; the first `k` kids precede the allocation -/
  | cmarked (sort id k : Nat) (kids : List D)
  deriving Repr, Inhabited

/-- Association-list lookup, newest binding first (a `HashMap` whose `insert` overwrites). -/
def lookup {α : Type} [DecidableEq α] {β : Type} (k : α) : List (α × β) → Option β
  | [] => none
  | (k', v) :: rest => if k' = k then some v else lookup k rest

/-- `node_to_id` (pointer ↦ id). -/
abbrev IdMap := List (Nat × Nat)

mutual
/-- `shared::serialize` over a whole graph. -/
def serD : IdMap → T → D × IdMap
  | m, .atom a => (.atom a, m)
  | m, .node addr uniq sort kids =>
    if uniq then
      let r := serDs m kids
      (.plain sort r.1, r.2)
    else
      match lookup addr m with
      | some id => (.ref sort id, m)
      | none =>
        let id := m.length
        let r := serDs ((addr, id) :: m) kids
        (.marked sort id r.1, r.2)
  | m, .clo addr sort pre post =>
    match lookup addr m with
    | some id => (.ref sort id, m)
    | none =>
      let id := m.length
      let r₁ := serDs ((addr, id) :: m) pre
      let r₂ := serDs r₁.2 post
      (.cmarked sort id pre.length (r₁.1 ++ r₂.1), r₂.2)
  | m, .ptr addr sort =>
    -- a back edge: its target is an ancestor, hence in the table (`none` only for terms that do
    -- not describe a graph)
    match lookup addr m with
    | some id => (.ref sort id, m)
    | none => (.atom 0, m)
def serDs : IdMap → List T → List D × IdMap
  | m, [] => ([], m)
  | m, t :: ts =>
    let r₁ := serD m t
    let r₂ := serDs r₁.2 ts
    (r₁.1 :: r₂.1, r₂.2)
end

/-- `NodeMap`: (type, id) ↦ rebuilt node. -/
abbrev NodeMap := List ((Nat × Nat) × T)

inductive Err where
  | missing (id : Nat)
  | eof
  /-- fewer elements than the closure visitor needs (`invalid_length`) -/
  | invalid
  deriving Repr, DecidableEq, Inhabited

mutual
/-- `SharedSeed::deserialize` over a whole stream. A rebuilt shared node gets its id as the new
    address, a `Plain` node is a fresh unique object (address 0, `uniq = true`). -/
def deD : NodeMap → D → Except Err (T × NodeMap)
  | nm, .atom a => .ok (.atom a, nm)
  | nm, .plain s ks =>
    match deDs nm ks with
    | .ok (ts, nm') => .ok (.node 0 true s ts, nm')
    | .error e => .error e
  | nm, .marked s id ks =>
    match deDs nm ks with
    | .ok (ts, nm') => .ok (.node id false s ts, ((s, id), .node id false s ts) :: nm')
    | .error e => .error e
  | nm, .ref s id =>
    match lookup (s, id) nm with
    | some t => .ok (t, nm)
    | none => .error (.missing id)
  | nm, .cmarked s id k ks =>
    -- the placeholder is the pointer to the allocated, not yet filled closure
    match deDsC nm k ((s, id), .ptr id s) ks with
    | .ok (ts, nm') =>
      .ok (.clo id s (ts.take k) (ts.drop k), ((s, id), .clo id s (ts.take k) (ts.drop k)) :: nm')
    | .error e => .error e
def deDs : NodeMap → List D → Except Err (List T × NodeMap)
  | nm, [] => .ok ([], nm)
  | nm, d :: ds =>
    match deD nm d with
    | .ok (t, nm₁) =>
      match deDs nm₁ ds with
      | .ok (ts, nm₂) => .ok (t :: ts, nm₂)
      | .error e => .error e
    | .error e => .error e
/-- Kids of a closure: after the first `k` the table gets the entry `pl` (allocation), then the
    rest is read. -/
def deDsC : NodeMap → Nat → ((Nat × Nat) × T) → List D → Except Err (List T × NodeMap)
  | nm, 0, pl, [] => .ok ([], pl :: nm)
  | nm, 0, pl, d :: ds =>
    match deD (pl :: nm) d with
    | .ok (t, nm₁) =>
      match deDs nm₁ ds with
      | .ok (ts, nm₂) => .ok (t :: ts, nm₂)
      | .error e => .error e
    | .error e => .error e
  | _, _ + 1, _, [] => .error .invalid
  | nm, k + 1, pl, d :: ds =>
    match deD nm d with
    | .ok (t, nm₁) =>
      match deDsC nm₁ k pl ds with
      | .ok (ts, nm₂) => .ok (t :: ts, nm₂)
      | .error e => .error e
    | .error e => .error e
end

/-! ### Framing -/

/-- Self-delimiting tokens: a node token announces its number of children. -/
inductive Tok where
  | atom (a : Nat)
  | marked (sort id n : Nat)
  | plain (sort n : Nat)
  | ref (sort id : Nat)
  | cmarked (sort id k n : Nat)
  deriving Repr, DecidableEq, Inhabited

mutual
def flat : D → List Tok
  | .atom a => [.atom a]
  | .marked s id ks => .marked s id ks.length :: flats ks
  | .plain s ks => .plain s ks.length :: flats ks
  | .ref s id => [.ref s id]
  | .cmarked s id k ks => .cmarked s id k ks.length :: flats ks
def flats : List D → List Tok
  | [] => []
  | d :: ds => flat d ++ flats ds
end

mutual
/-- Reads one value off the front of the token list; `none` = input ended early (or fuel, which
    `parse_flat` shows never to be the reason for the fuel `de` supplies). -/
def parse : Nat → List Tok → Option (D × List Tok)
  | 0, _ => none
  | _ + 1, [] => none
  | _ + 1, .atom a :: r => some (.atom a, r)
  | _ + 1, .ref s id :: r => some (.ref s id, r)
  | f + 1, .marked s id n :: r =>
    match parseN f n r with
    | some (ks, r') => some (.marked s id ks, r')
    | none => none
  | f + 1, .plain s n :: r =>
    match parseN f n r with
    | some (ks, r') => some (.plain s ks, r')
    | none => none
  | f + 1, .cmarked s id k n :: r =>
    match parseN f n r with
    | some (ks, r') => some (.cmarked s id k ks, r')
    | none => none
def parseN : Nat → Nat → List Tok → Option (List D × List Tok)
  | _, 0, r => some ([], r)
  | 0, _ + 1, _ => none
  | f + 1, n + 1, r =>
    match parse f r with
    | some (d, r₁) =>
      match parseN f n r₁ with
      | some (ds, r₂) => some (d :: ds, r₂)
      | none => none
    | none => none
end

/-- Serialise a graph with an empty `SeSeed`. -/
def ser (t : T) : List Tok := flat (serD [] t).1

/-- Deserialise with an empty `DeSeed`; trailing tokens are ignored (the real entry points never
    call `Deserializer::end`). -/
def de (toks : List Tok) : Except Err T :=
  match parse (2 * toks.length + 2) toks with
  | none => .error .eof
  | some (d, _) =>
    match deD [] d with
    | .ok (t, _) => .ok t
    | .error e => .error e

/-! ### Reading a result -/

/-- The graph with every shared address renamed through `m` (unique nodes become address 0). -/
def rho (m : IdMap) (a : Nat) : Nat := (lookup a m).getD 0

mutual
def relabel (m : IdMap) : T → T
  | .atom a => .atom a
  | .node addr uniq s ks =>
    if uniq then .node 0 true s (relabels m ks) else .node (rho m addr) false s (relabels m ks)
  | .clo addr s pre post => .clo (rho m addr) s (relabels m pre) (relabels m post)
  | .ptr addr s => .ptr (rho m addr) s
def relabels (m : IdMap) : List T → List T
  | [] => []
  | t :: ts => relabel m t :: relabels m ts
end

/-- The value a graph denotes when sharing is forgotten. -/
inductive Tree where
  | atom (a : Nat)
  | node (sort : Nat) (kids : List Tree)
  /-- a back edge (to an enclosing fillable object of that sort) -/
  | back (sort : Nat)
  deriving Repr, Inhabited

mutual
def unfold : T → Tree
  | .atom a => .atom a
  | .node _ _ s ks => .node s (unfolds ks)
  | .clo _ s pre post => .node s (unfolds pre ++ unfolds post)
  | .ptr _ s => .back s
def unfolds : List T → List Tree
  | [] => []
  | t :: ts => unfold t :: unfolds ts
end

mutual
/-- Addresses of the shared objects that are unfolded in the term. -/
def addrs : T → List Nat
  | .atom _ => []
  | .node addr uniq _ ks => if uniq then addrsL ks else addr :: addrsL ks
  | .clo addr _ pre post => addr :: (addrsL pre ++ addrsL post)
  | .ptr _ _ => []
def addrsL : List T → List Nat
  | [] => []
  | t :: ts => addrs t ++ addrsL ts
end

mutual
/-- Targets of the back edges of the term. -/
def ptrs : T → List Nat
  | .atom _ => []
  | .node _ _ _ ks => ptrsL ks
  | .clo _ _ pre post => ptrsL pre ++ ptrsL post
  | .ptr addr _ => [addr]
def ptrsL : List T → List Nat
  | [] => []
  | t :: ts => ptrs t ++ ptrsL ts
end

def T.sort : T → Nat
  | .atom _ => 0
  | .node _ _ s _ => s
  | .clo _ s _ _ => s
  | .ptr _ s => s

mutual
/-- `Agrees h F t` — the term describes a heap graph that the scheme can carry:
    every shared object of `t` is the object that the heap `h` holds at its address (so two
    occurrences of an address are the same object); no object is unfolded inside itself; and
    **cycles pass only through fillable objects**: a back edge `ptr a` is allowed only where `a ∈ F`,
    the set of closures whose `post` part (upvars) we are inside of. -/
def Agrees (h : Nat → T) (F : Nat → Prop) : T → Prop
  | .atom _ => True
  | .node addr uniq s ks =>
    (uniq = false → h addr = .node addr uniq s ks ∧ addr ∉ addrsL ks) ∧ AgreesL h F ks
  | .clo addr s pre post =>
    h addr = .clo addr s pre post ∧ addr ∉ addrsL pre ∧ addr ∉ addrsL post ∧
      AgreesL h F pre ∧ AgreesL h (fun x => F x ∨ x = addr) post
  | .ptr addr s => F addr ∧ (h addr).sort = s
def AgreesL (h : Nat → T) (F : Nat → Prop) : List T → Prop
  | [] => True
  | t :: ts => Agrees h F t ∧ AgreesL h F ts
end

mutual
/-- `Consistent h F t` — `Agrees` without its acyclicity clauses: every shared object of `t` is the
    object the heap `h` holds at its address, and back edges only target closures being filled.
    `Proofs.consistent_agrees` derives the acyclicity (`addr ∉ addrsL kids`) from this: a finite term
    cannot contain, unfolded, the object it is itself an unfolding of. -/
def Consistent (h : Nat → T) (F : Nat → Prop) : T → Prop
  | .atom _ => True
  | .node addr uniq s ks => (uniq = false → h addr = .node addr uniq s ks) ∧ ConsistentL h F ks
  | .clo addr s pre post =>
    h addr = .clo addr s pre post ∧ ConsistentL h F pre ∧
      ConsistentL h (fun x => F x ∨ x = addr) post
  | .ptr addr s => F addr ∧ (h addr).sort = s
def ConsistentL (h : Nat → T) (F : Nat → Prop) : List T → Prop
  | [] => True
  | t :: ts => Consistent h F t ∧ ConsistentL h F ts
end

mutual
/-- Number of constructors of the term. -/
def size : T → Nat
  | .atom _ => 1
  | .node _ _ _ ks => 1 + sizeL ks
  | .clo _ _ pre post => 1 + sizeL pre + sizeL post
  | .ptr _ _ => 1
def sizeL : List T → Nat
  | [] => 0
  | t :: ts => size t + sizeL ts
end

end GluonModel.Share
