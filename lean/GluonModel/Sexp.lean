/-
S-expression line protocol shared by all drivers (not part of any theorem).

  atom      := any run of characters other than whitespace, '(' , ')' , '"'
  string    := '"' … '"' with escapes \\ \" \n \t \r \xHH (raw byte as Latin-1 code point; all
               protocol strings are sent as sequences of *bytes* or code points < 256, or via
               \u{H+} for a scalar value)
  list      := '(' sexp* ')'
-/
namespace GluonModel

inductive Sexp where
  | atom (s : String)
  | str (s : String)
  | list (xs : List Sexp)
  deriving Repr, Inhabited, BEq

namespace Sexp

private def hexVal (c : Char) : Option Nat :=
  if '0' ≤ c ∧ c ≤ '9' then some (c.toNat - '0'.toNat)
  else if 'a' ≤ c ∧ c ≤ 'f' then some (c.toNat - 'a'.toNat + 10)
  else if 'A' ≤ c ∧ c ≤ 'F' then some (c.toNat - 'A'.toNat + 10)
  else none

private def isDelim (c : Char) : Bool :=
  c == ' ' || c == '\n' || c == '\t' || c == '\r' || c == '(' || c == ')' || c == '"'

private partial def parseStr (cs : List Char) (acc : List Char) : Option (String × List Char) :=
  match cs with
  | [] => none
  | '"' :: rest => some (String.ofList acc.reverse, rest)
  | '\\' :: 'n' :: rest => parseStr rest ('\n' :: acc)
  | '\\' :: 't' :: rest => parseStr rest ('\t' :: acc)
  | '\\' :: 'r' :: rest => parseStr rest ('\r' :: acc)
  | '\\' :: '\\' :: rest => parseStr rest ('\\' :: acc)
  | '\\' :: '"' :: rest => parseStr rest ('"' :: acc)
  | '\\' :: 'x' :: a :: b :: rest =>
    match hexVal a, hexVal b with
    | some x, some y => parseStr rest (Char.ofNat (16 * x + y) :: acc)
    | _, _ => none
  | '\\' :: 'u' :: '{' :: rest =>
    let rec go (cs : List Char) (n : Nat) : Option (Nat × List Char) :=
      match cs with
      | '}' :: r => some (n, r)
      | c :: r => match hexVal c with
        | some v => go r (16 * n + v)
        | none => none
      | [] => none
    match go rest 0 with
    | some (n, r) => parseStr r (Char.ofNat n :: acc)
    | none => none
  | c :: rest => parseStr rest (c :: acc)

mutual
private partial def parseOne (cs : List Char) : Option (Sexp × List Char) :=
  match cs with
  | [] => none
  | c :: rest =>
    if c == ' ' || c == '\n' || c == '\t' || c == '\r' then parseOne rest
    else if c == '(' then
      match parseMany rest [] with
      | some (xs, r) => some (Sexp.list xs, r)
      | none => none
    else if c == ')' then none
    else if c == '"' then
      match parseStr rest [] with
      | some (s, r) => some (Sexp.str s, r)
      | none => none
    else
      let tok := cs.takeWhile (fun c => !isDelim c)
      some (Sexp.atom (String.ofList tok), cs.dropWhile (fun c => !isDelim c))
private partial def parseMany (cs : List Char) (acc : List Sexp) : Option (List Sexp × List Char) :=
  match cs with
  | [] => none
  | c :: rest =>
    if c == ' ' || c == '\n' || c == '\t' || c == '\r' then parseMany rest acc
    else if c == ')' then some (acc.reverse, rest)
    else match parseOne cs with
      | some (x, r) => parseMany r (x :: acc)
      | none => none
end

/-- Parse one line into a single S-expression. -/
def parse (line : String) : Option Sexp :=
  match parseOne line.toList with
  | some (x, _) => some x
  | none => none

private def escChar (c : Char) : String :=
  if c == '"' then "\\\"" else if c == '\\' then "\\\\" else if c == '\n' then "\\n"
  else if c == '\t' then "\\t" else if c == '\r' then "\\r"
  else if c.toNat < 32 || c.toNat == 127 then
    let h := "0123456789abcdef".toList
    "\\x" ++ String.ofList [h.getD (c.toNat / 16) '0', h.getD (c.toNat % 16) '0']
  else if c.toNat > 126 then
    "\\u{" ++ String.ofList (Nat.toDigits 16 c.toNat) ++ "}"
  else String.singleton c

def quote (s : String) : String :=
  "\"" ++ String.join (s.toList.map escChar) ++ "\""

partial def render : Sexp → String
  | .atom s => s
  | .str s => quote s
  | .list xs => "(" ++ " ".intercalate (xs.map render) ++ ")"

def toInt? : Sexp → Option Int
  | .atom s => s.toInt?
  | _ => none

def toNat? : Sexp → Option Nat
  | .atom s => s.toNat?
  | _ => none

def atom? : Sexp → Option String
  | .atom s => some s
  | _ => none

def str? : Sexp → Option String
  | .str s => some s
  | _ => none

def list? : Sexp → Option (List Sexp)
  | .list xs => some xs
  | _ => none

end Sexp

/-- Read stdin line by line; each line is one request `(<id> …)`; `handle` returns the answer
    payload; the driver prints `(<id> <payload>)`. Unparseable lines answer `(? bad-line)`. -/
partial def driverLoop (handle : List Sexp → String) : IO Unit := do
  let stdin ← IO.getStdin
  let stdout ← IO.getStdout
  let rec loop : IO Unit := do
    let line ← stdin.getLine
    if line.isEmpty then return ()
    if line.trimAscii.toString.isEmpty then loop else
    match Sexp.parse line with
    | some (.list (id :: rest)) =>
      stdout.putStrLn ("(" ++ id.render ++ " " ++ handle rest ++ ")")
      loop
    | _ =>
      stdout.putStrLn "(? bad-line)"
      loop
  loop
  stdout.flush

end GluonModel
