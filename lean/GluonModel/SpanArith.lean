/-
Span arithmetic of the parser front (parser/src/lib.rs):
 * `Span::new` (base/src/pos.rs: "start and end are reordered to maintain start <= end"),
 * `shrink_hidden_spans` (lib.rs:70-107): a node's span becomes `expr.start .. last.end`,
 * `Error::from_lalrpop` (lib.rs:197-233): positions of LALRPOP errors; an `UnrecognizedEof`
   whose location is `BytePos::default()` (= 0, "no location") is moved to the end of the source,
 * `parse_with` (lib.rs:496-502): tokenizer errors keep their (start, end) absolute positions.
Positions are natural numbers (`BytePos`); the source occupies `[lo, hi]` = `input.span()`.
-/
namespace GluonModel.SpanArith

structure Span where
  start : Nat
  stop : Nat
  deriving DecidableEq, Repr, Inhabited

/-- pos.rs `Span::new`: reorders its arguments. -/
def Span.mk' (a b : Nat) : Span := if a ≤ b then ⟨a, b⟩ else ⟨b, a⟩

/-- A span lies inside the source `[lo, hi]` and is well formed. -/
def Span.Inside (s : Span) (lo hi : Nat) : Prop := lo ≤ s.start ∧ s.start ≤ s.stop ∧ s.stop ≤ hi

/-- lib.rs:76/78/80/87/92: `expr.span = Span::new(expr.span.start(), last.span.end())`. -/
def shrink (expr last : Span) : Span := Span.mk' expr.start last.stop

/-- The LALRPOP error shapes that carry positions (lib.rs:200-231). -/
inductive RawErr where
  | invalidToken (loc : Nat)
  | unrecognizedToken (l r : Nat)
  | unrecognizedEof (loc : Nat)
  | extraToken (l r : Nat)
  | user (s : Span)
  deriving Repr

/-- lib.rs:197 `Error::from_lalrpop` (positions only). -/
def fromLalrpop (source : Span) : RawErr → Span
  | .invalidToken loc => Span.mk' loc loc
  | .unrecognizedToken l r => Span.mk' l r
  | .unrecognizedEof loc => let loc := if loc = 0 then source.stop else loc; Span.mk' loc loc
  | .extraToken l r => Span.mk' l r
  | .user s => s

/-- What LALRPOP and the layout/tokenizer are trusted to deliver: positions of tokens of the
    source — or the "nil" location 0 for an EOF error. -/
def RawErr.Plausible (lo hi : Nat) : RawErr → Prop
  | .invalidToken loc => lo ≤ loc ∧ loc ≤ hi
  | .unrecognizedToken l r => lo ≤ l ∧ l ≤ hi ∧ lo ≤ r ∧ r ≤ hi
  | .unrecognizedEof loc => loc = 0 ∨ (lo ≤ loc ∧ loc ≤ hi)
  | .extraToken l r => lo ≤ l ∧ l ≤ hi ∧ lo ≤ r ∧ r ≤ hi
  | .user s => s.Inside lo hi

/-- A tiny expression tree with spans, to state `shrink` over whole trees: every node is
    re-spanned bottom-up to end at its last child, like the grammar actions do. -/
inductive Tree where
  | leaf (s : Span)
  | node (s : Span) (children : List Tree)   -- last child = `last`
  deriving Repr

def Tree.span : Tree → Span
  | .leaf s => s
  | .node s _ => s

mutual
def shrinkTree : Tree → Tree
  | .leaf s => .leaf s
  | .node s cs =>
    let cs' := shrinkList cs
    match cs'.getLast? with
    | some l => .node (shrink s l.span) cs'
    | none => .node s cs'
def shrinkList : List Tree → List Tree
  | [] => []
  | t :: ts => shrinkTree t :: shrinkList ts
end

mutual
def Tree.AllInside (lo hi : Nat) : Tree → Prop
  | .leaf s => s.Inside lo hi
  | .node s cs => s.Inside lo hi ∧ AllInsideList lo hi cs
def AllInsideList (lo hi : Nat) : List Tree → Prop
  | [] => True
  | t :: ts => t.AllInside lo hi ∧ AllInsideList lo hi ts
end

end GluonModel.SpanArith
