/-
C03 — renaming of bound variables (first stability clause) on `infer` ITSELF, for every construct of
the model and for both row modes: two α-equivalent programs give literally the same result (type,
substitution, counter).  `infer` uses names only to look variables up; α-equivalent programs look up
the same positions of environments that carry the same schemes in the same order.
-/
import GluonModel.HM

namespace GluonModel.HM.Proofs
open GluonModel.HM

/-- `x` on the left and `y` on the right refer to the same binder of the paired binder stack -/
inductive AlphaVar : List (String × String) → String → String → Prop where
  | here (m : List (String × String)) (x y : String) : AlphaVar ((x, y) :: m) x y
  | there (m : List (String × String)) (x y a b : String) :
      x ≠ a → y ≠ b → AlphaVar m x y → AlphaVar ((a, b) :: m) x y

theorem alphaVar_cons_inv {m : List (String × String)} {a b x y : String}
    (h : AlphaVar ((a, b) :: m) x y) : (x = a ∧ y = b) ∨ (x ≠ a ∧ y ≠ b ∧ AlphaVar m x y) := by
  cases h with
  | here => exact Or.inl ⟨rfl, rfl⟩
  | there _ _ _ _ _ h₁ h₂ h₃ => exact Or.inr ⟨h₁, h₂, h₃⟩

/-- α-equivalence under a stack of paired binder names (closed programs: the empty stack) -/
inductive Alpha : List (String × String) → Expr → Expr → Prop where
  | var (m x y) : AlphaVar m x y → Alpha m (.var x) (.var y)
  | lam (m x y b b') : Alpha ((x, y) :: m) b b' → Alpha m (.lam x b) (.lam y b')
  | app (m f f' a a') : Alpha m f f' → Alpha m a a' → Alpha m (.app f a) (.app f' a')
  | letE (m x y e e' b b') : Alpha m e e' → Alpha ((x, y) :: m) b b' →
      Alpha m (.letE x e b) (.letE y e' b')
  | int (m k) : Alpha m (.int k) (.int k)
  | str (m s) : Alpha m (.str s) (.str s)
  | ifE (m c c' t t' e e') : Alpha m c c' → Alpha m t t' → Alpha m e e' →
      Alpha m (.ifE c t e) (.ifE c' t' e')
  | lt (m a a' b b') : Alpha m a a' → Alpha m b b' → Alpha m (.lt a b) (.lt a' b')
  | fnil (m) : Alpha m .fnil .fnil
  | fcons (m l e e' r r') : Alpha m e e' → Alpha m r r' → Alpha m (.fcons l e r) (.fcons l e' r')
  | rcd (m f f') : Alpha m f f' → Alpha m (.rcd f) (.rcd f')
  | proj (m e e' l) : Alpha m e e' → Alpha m (.proj e l) (.proj e' l)
  | anil (m) : Alpha m .anil .anil
  | asnoc (m i i' e e') : Alpha m i i' → Alpha m e e' → Alpha m (.asnoc i e) (.asnoc i' e')
  | conA (m) : Alpha m .conA .conA
  | conB (m) : Alpha m .conB .conB

/-- two environments with the same schemes in the same order, names paired by `m` -/
inductive EnvPair : List (String × String) → Env → Env → Prop where
  | nil : EnvPair [] [] []
  | cons (m Γ Γ' x y s) : EnvPair m Γ Γ' → EnvPair ((x, y) :: m) ((x, s) :: Γ) ((y, s) :: Γ')

theorem envPair_lookup {m : List (String × String)} {Γ Γ' : Env} (h : EnvPair m Γ Γ') :
    ∀ {x y : String}, AlphaVar m x y → lookup x Γ = lookup y Γ' := by
  induction h with
  | nil => intro x y hv; cases hv
  | cons m Γ Γ' a b s _ ih =>
    intro x y hv
    cases hv with
    | here => simp [lookup]
    | there _ _ _ _ _ hxa hyb hv => simp only [lookup, hxa, hyb, if_false]; exact ih hv

theorem envPair_ftvUnder {m : List (String × String)} {Γ Γ' : Env} (h : EnvPair m Γ Γ') (S : Subst) :
    Γ.ftvUnder S = Γ'.ftvUnder S := by
  induction h with
  | nil => rfl
  | cons m Γ Γ' a b s _ ih =>
    simp only [Env.ftvUnder, List.flatMap_cons] at ih ⊢
    rw [ih]

theorem envPair_generalize {m : List (String × String)} {Γ Γ' : Env} (h : EnvPair m Γ Γ') (S : Subst)
    (t : Ty) : generalize S Γ t = generalize S Γ' t := by
  simp only [generalize, envPair_ftvUnder h S]

/-- α-equivalent programs in paired environments: `infer` returns literally the same result. -/
theorem infer_alpha_aux (rows : Bool) {m : List (String × String)} {e e' : Expr} (h : Alpha m e e') :
    ∀ (Γ Γ' : Env) (S : Subst) (n : Nat), EnvPair m Γ Γ' →
      infer rows Γ e S n = infer rows Γ' e' S n := by
  induction h with
  | var m x y hv => intro Γ Γ' S n hp; simp only [infer, envPair_lookup hp hv]
  | lam m x y b b' _ ih =>
    intro Γ Γ' S n hp
    simp only [infer, ih _ _ S (n + 1) (EnvPair.cons m Γ Γ' x y _ hp)]
  | app m f f' a a' _ _ ihf iha =>
    intro Γ Γ' S n hp
    simp only [infer, ihf Γ Γ' S n hp]
    split
    · rfl
    · next τf S₁ n₁ _ => simp only [iha Γ Γ' S₁ n₁ hp]
  | letE m x y e e' b b' _ _ ihe ihb =>
    intro Γ Γ' S n hp
    simp only [infer, ihe Γ Γ' S n hp]
    split
    · rfl
    · next τ₁ S₁ n₁ _ =>
      rw [envPair_generalize hp S₁ τ₁]
      exact ihb _ _ S₁ n₁ (EnvPair.cons m Γ Γ' x y _ hp)
  | int m k => intro Γ Γ' S n _; simp only [infer]
  | str m s => intro Γ Γ' S n _; simp only [infer]
  | ifE m c c' t t' e e' _ _ _ ihc iht ihe =>
    intro Γ Γ' S n hp
    simp only [infer, ihc Γ Γ' S n hp]
    split
    · rfl
    · next τc S₁ n₁ _ =>
      split
      · rfl
      · next S₂ n₂ _ =>
        simp only [iht Γ Γ' S₂ n₂ hp]
        split
        · rfl
        · next τt S₃ n₃ _ => simp only [ihe Γ Γ' S₃ n₃ hp]
  | lt m a a' b b' _ _ iha ihb =>
    intro Γ Γ' S n hp
    simp only [infer, iha Γ Γ' S n hp]
    split
    · rfl
    · next τa S₁ n₁ _ =>
      split
      · rfl
      · next S₂ n₂ _ => simp only [ihb Γ Γ' S₂ n₂ hp]
  | fnil m => intro Γ Γ' S n _; simp only [infer]
  | fcons m l e e' r r' _ _ ihe ihr =>
    intro Γ Γ' S n hp
    simp only [infer, ihe Γ Γ' S n hp]
    split
    · rfl
    · next τ S₁ n₁ _ => simp only [ihr Γ Γ' S₁ n₁ hp]
  | rcd m f f' _ ih => intro Γ Γ' S n hp; simp only [infer, ih Γ Γ' S n hp]
  | proj m e e' l _ ih => intro Γ Γ' S n hp; simp only [infer, ih Γ Γ' S n hp]
  | anil m => intro Γ Γ' S n _; simp only [infer]
  | asnoc m i i' e e' _ _ ihi ihe =>
    intro Γ Γ' S n hp
    simp only [infer, ihi Γ Γ' S n hp]
    split
    · rfl
    · next τi S₁ n₁ _ => simp only [ihe Γ Γ' S₁ n₁ hp]
  | conA m => intro Γ Γ' S n _; simp only [infer]
  | conB m => intro Γ Γ' S n _; simp only [infer]

end GluonModel.HM.Proofs
