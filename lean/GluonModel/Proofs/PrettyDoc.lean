/-
Proofs about the `pretty` layout model `GluonModel.PrettyDoc`.
-/
import GluonModel.PrettyDoc

namespace GluonModel.Proofs.PrettyDoc
open GluonModel.PrettyDoc

/-- The kept characters of the text leaves of a document, in order, taking the break side of
    every `FlatAlt` and the first side of every `Union`.  With `keep` = "not whitespace" this
    is the token text of the document. -/
def tok (keep : Char → Bool) : Doc → List Char
  | .nil => []
  | .fail => []
  | .line => []
  | .text s => s.filter keep
  | .append l r => tok keep l ++ tok keep r
  | .group d => tok keep d
  | .nest _ d => tok keep d
  | .flatAlt b _ => tok keep b
  | .union l _ => tok keep l

/-- Both sides of every `FlatAlt` and of every `Union` carry the same kept text. -/
def Uniform (keep : Char → Bool) : Doc → Prop
  | .nil => True
  | .fail => True
  | .line => True
  | .text _ => True
  | .append l r => Uniform keep l ∧ Uniform keep r
  | .group d => Uniform keep d
  | .nest _ d => Uniform keep d
  | .flatAlt b f => Uniform keep b ∧ Uniform keep f ∧ tok keep b = tok keep f
  | .union l r => Uniform keep l ∧ Uniform keep r ∧ tok keep l = tok keep r

/-- `Fail` is reachable only inside the left side of a `Union` (where it makes the renderer fall
    back to the right side). -/
def Safe : Doc → Prop
  | .nil => True
  | .fail => False
  | .line => True
  | .text _ => True
  | .append l r => Safe l ∧ Safe r
  | .group d => Safe d
  | .nest _ d => Safe d
  | .flatAlt b f => Safe b ∧ Safe f
  | .union _ r => Safe r

instance decUniform (keep : Char → Bool) : (d : Doc) → Decidable (Uniform keep d)
  | .nil => isTrue trivial
  | .fail => isTrue trivial
  | .line => isTrue trivial
  | .text _ => isTrue trivial
  | .append l r =>
    haveI := decUniform keep l; haveI := decUniform keep r
    inferInstanceAs (Decidable (Uniform keep l ∧ Uniform keep r))
  | .group d => decUniform keep d
  | .nest _ d => decUniform keep d
  | .flatAlt b f =>
    haveI := decUniform keep b; haveI := decUniform keep f
    inferInstanceAs (Decidable (Uniform keep b ∧ Uniform keep f ∧ tok keep b = tok keep f))
  | .union l r =>
    haveI := decUniform keep l; haveI := decUniform keep r
    inferInstanceAs (Decidable (Uniform keep l ∧ Uniform keep r ∧ tok keep l = tok keep r))

instance decSafe : (d : Doc) → Decidable (Safe d)
  | .nil => isTrue trivial
  | .fail => isFalse id
  | .line => isTrue trivial
  | .text _ => isTrue trivial
  | .append l r =>
    haveI := decSafe l; haveI := decSafe r
    inferInstanceAs (Decidable (Safe l ∧ Safe r))
  | .group d => decSafe d
  | .nest _ d => decSafe d
  | .flatAlt b f =>
    haveI := decSafe b; haveI := decSafe f
    inferInstanceAs (Decidable (Safe b ∧ Safe f))
  | .union _ r => decSafe r

/-- The layout characters the renderer itself writes are not kept. -/
def DropsLayout (keep : Char → Bool) : Prop := keep ' ' = false ∧ keep '\n' = false

theorem filter_newline {keep : Char → Bool} (hk : DropsLayout keep) (ind : Nat) :
    (newline ind).filter keep = [] := by
  unfold newline
  rw [List.filter_cons]
  simp only [hk.2, Bool.false_eq_true, if_false]
  rw [List.filter_eq_nil_iff]
  intro c hc
  have := List.eq_of_mem_replicate hc
  subst this
  simp [hk.1]

/-- The heart of width independence: whatever the width, the indentation, the mode and the
    look-ahead context, one `best` step over a uniform document appends exactly the document's
    kept text to the kept text of the output. -/
theorem go_tok {keep : Char → Bool} (hk : DropsLayout keep) (w : Nat) (d : Doc) :
    ∀ (ind : Nat) (mode : Mode) (rest : List Doc) (st st' : St),
      Uniform keep d → go w ind mode d rest st = some st' →
      st'.out.filter keep = st.out.filter keep ++ tok keep d := by
  induction d with
  | nil =>
    intro ind mode rest st st' _ h
    simp only [go] at h
    injection h with h; subst h; simp [tok]
  | fail =>
    intro ind mode rest st st' _ h
    simp [go] at h
  | line =>
    intro ind mode rest st st' _ h
    simp only [go] at h
    injection h with h; subst h
    simp [tok, filter_newline hk]
  | text s =>
    intro ind mode rest st st' _ h
    simp only [go] at h
    injection h with h; subst h
    simp [tok]
  | append l r ihl ihr =>
    intro ind mode rest st st' hu h
    simp only [go] at h
    cases hl : go w ind mode l (r :: rest) st with
    | none => rw [hl] at h; cases h
    | some st1 =>
      rw [hl] at h
      simp only at h
      have e1 := ihl ind mode (r :: rest) st st1 hu.1 hl
      have e2 := ihr ind mode rest st1 st' hu.2 h
      rw [e2, e1]; simp [tok]
  | group d ih =>
    intro ind mode rest st st' hu h
    simp only [go] at h
    cases mode with
    | flat => exact ih ind .flat rest st st' hu h
    | brk =>
      simp only at h
      split at h
      · exact ih ind .flat rest st st' hu h
      · exact ih ind .brk rest st st' hu h
  | nest k d ih =>
    intro ind mode rest st st' hu h
    simp only [go] at h
    exact ih (ind + k) mode rest st st' hu h
  | flatAlt b f ihb ihf =>
    intro ind mode rest st st' hu h
    simp only [go] at h
    cases mode with
    | brk => exact ihb ind .brk rest st st' hu.1 h
    | flat =>
      have := ihf ind .flat rest st st' hu.2.1 h
      rw [this]; simp [tok, hu.2.2]
  | union l r ihl ihr =>
    intro ind mode rest st st' hu h
    simp only [go] at h
    cases hl : go w ind mode l rest { pos := st.pos, out := [], fits := true } with
    | none =>
      rw [hl] at h
      simp only at h
      have := ihr ind mode rest st st' hu.2.1 h
      rw [this]; simp [tok, hu.2.2]
    | some st1 =>
      rw [hl] at h
      simp only at h
      split at h
      · injection h with h; subst h
        have := ihl ind mode rest _ st1 hu.1 hl
        simp at this
        simp [tok, this]
      · have := ihr ind mode rest st st' hu.2.1 h
        rw [this]; simp [tok, hu.2.2]

/-- `Res keep d t`: `t` is the kept text of one *resolution* of `d` — one side chosen at every
    `FlatAlt` and `Union`. (`Fail` has no resolution.) -/
inductive Res (keep : Char → Bool) : Doc → List Char → Prop
  | nil : Res keep .nil []
  | line : Res keep .line []
  | text (s : List Char) : Res keep (.text s) (s.filter keep)
  | append {l r : Doc} {a b : List Char} : Res keep l a → Res keep r b → Res keep (.append l r) (a ++ b)
  | group {d : Doc} {a : List Char} : Res keep d a → Res keep (.group d) a
  | nest {k : Nat} {d : Doc} {a : List Char} : Res keep d a → Res keep (.nest k d) a
  | altB {b f : Doc} {a : List Char} : Res keep b a → Res keep (.flatAlt b f) a
  | altF {b f : Doc} {a : List Char} : Res keep f a → Res keep (.flatAlt b f) a
  | unionL {l r : Doc} {a : List Char} : Res keep l a → Res keep (.union l r) a
  | unionR {l r : Doc} {a : List Char} : Res keep r a → Res keep (.union l r) a

/-- For ANY document: what one `best` step appends is, up to layout characters, the text of one
    resolution of the document. -/
theorem go_res {keep : Char → Bool} (hk : DropsLayout keep) (w : Nat) (d : Doc) :
    ∀ (ind : Nat) (mode : Mode) (rest : List Doc) (st st' : St),
      go w ind mode d rest st = some st' →
      ∃ t, Res keep d t ∧ st'.out.filter keep = st.out.filter keep ++ t := by
  induction d with
  | nil =>
    intro ind mode rest st st' h
    simp only [go] at h
    injection h with h; subst h
    exact ⟨[], .nil, by simp⟩
  | fail => intro ind mode rest st st' h; simp [go] at h
  | line =>
    intro ind mode rest st st' h
    simp only [go] at h
    injection h with h; subst h
    exact ⟨[], .line, by simp [filter_newline hk]⟩
  | text s =>
    intro ind mode rest st st' h
    simp only [go] at h
    injection h with h; subst h
    exact ⟨_, .text s, by simp⟩
  | append l r ihl ihr =>
    intro ind mode rest st st' h
    simp only [go] at h
    cases hl : go w ind mode l (r :: rest) st with
    | none => rw [hl] at h; cases h
    | some st1 =>
      rw [hl] at h
      simp only at h
      obtain ⟨a, ra, e1⟩ := ihl ind mode (r :: rest) st st1 hl
      obtain ⟨b, rb, e2⟩ := ihr ind mode rest st1 st' h
      exact ⟨a ++ b, .append ra rb, by rw [e2, e1]; simp⟩
  | group d ih =>
    intro ind mode rest st st' h
    simp only [go] at h
    cases mode with
    | flat => obtain ⟨a, ra, e⟩ := ih ind .flat rest st st' h; exact ⟨a, .group ra, e⟩
    | brk =>
      simp only at h
      split at h
      · obtain ⟨a, ra, e⟩ := ih ind .flat rest st st' h; exact ⟨a, .group ra, e⟩
      · obtain ⟨a, ra, e⟩ := ih ind .brk rest st st' h; exact ⟨a, .group ra, e⟩
  | nest k d ih =>
    intro ind mode rest st st' h
    simp only [go] at h
    obtain ⟨a, ra, e⟩ := ih (ind + k) mode rest st st' h
    exact ⟨a, .nest ra, e⟩
  | flatAlt b f ihb ihf =>
    intro ind mode rest st st' h
    simp only [go] at h
    cases mode with
    | brk => obtain ⟨a, ra, e⟩ := ihb ind .brk rest st st' h; exact ⟨a, .altB ra, e⟩
    | flat => obtain ⟨a, ra, e⟩ := ihf ind .flat rest st st' h; exact ⟨a, .altF ra, e⟩
  | union l r ihl ihr =>
    intro ind mode rest st st' h
    simp only [go] at h
    cases hl : go w ind mode l rest { pos := st.pos, out := [], fits := true } with
    | none =>
      rw [hl] at h
      simp only at h
      obtain ⟨a, ra, e⟩ := ihr ind mode rest st st' h
      exact ⟨a, .unionR ra, e⟩
    | some st1 =>
      rw [hl] at h
      simp only at h
      split at h
      · injection h with h; subst h
        obtain ⟨a, ra, e⟩ := ihl ind mode rest _ st1 hl
        simp at e
        exact ⟨a, .unionL ra, by simp [e]⟩
      · obtain ⟨a, ra, e⟩ := ihr ind mode rest st st' h
        exact ⟨a, .unionR ra, e⟩

theorem render_res {keep : Char → Bool} (hk : DropsLayout keep) (w : Nat) (d : Doc) (o : List Char)
    (h : render w d = some o) : ∃ t, Res keep d t ∧ o.filter keep = t := by
  unfold render at h
  cases hg : go w 0 .brk d [] { pos := 0, out := [], fits := true } with
  | none => rw [hg] at h; cases h
  | some st' =>
    rw [hg] at h
    simp at h
    subst h
    obtain ⟨t, rt, e⟩ := go_res hk w d 0 .brk [] _ st' hg
    exact ⟨t, rt, by simpa using e⟩

/-- Rendering a `Safe` document cannot fail. -/
theorem go_safe (w : Nat) (d : Doc) :
    ∀ (ind : Nat) (mode : Mode) (rest : List Doc) (st : St),
      Safe d → ∃ st', go w ind mode d rest st = some st' := by
  induction d with
  | nil => intro ind mode rest st _; exact ⟨st, rfl⟩
  | fail => intro ind mode rest st h; exact h.elim
  | line => intro ind mode rest st _; exact ⟨_, rfl⟩
  | text s => intro ind mode rest st _; exact ⟨_, rfl⟩
  | append l r ihl ihr =>
    intro ind mode rest st hs
    obtain ⟨st1, h1⟩ := ihl ind mode (r :: rest) st hs.1
    obtain ⟨st2, h2⟩ := ihr ind mode rest st1 hs.2
    exact ⟨st2, by simp only [go, h1, h2]⟩
  | group d ih =>
    intro ind mode rest st hs
    cases mode with
    | flat => simpa only [go] using ih ind .flat rest st hs
    | brk =>
      simp only [go]
      split
      · exact ih ind .flat rest st hs
      · exact ih ind .brk rest st hs
  | nest k d ih =>
    intro ind mode rest st hs
    simpa only [go] using ih (ind + k) mode rest st hs
  | flatAlt b f ihb ihf =>
    intro ind mode rest st hs
    cases mode with
    | brk => simpa only [go] using ihb ind .brk rest st hs.1
    | flat => simpa only [go] using ihf ind .flat rest st hs.2
  | union l r _ ihr =>
    intro ind mode rest st hs
    simp only [go]
    cases hl : go w ind mode l rest { pos := st.pos, out := [], fits := true } with
    | none => exact ihr ind mode rest st hs
    | some st1 =>
      simp only
      split
      · exact ⟨_, rfl⟩
      · exact ihr ind mode rest st hs

theorem render_tok {keep : Char → Bool} (hk : DropsLayout keep) (w : Nat) (d : Doc) (o : List Char)
    (hu : Uniform keep d) (h : render w d = some o) : o.filter keep = tok keep d := by
  unfold render at h
  cases hg : go w 0 .brk d [] { pos := 0, out := [], fits := true } with
  | none => rw [hg] at h; cases h
  | some st' =>
    rw [hg] at h
    simp at h
    subst h
    simpa using go_tok hk w d 0 .brk [] _ st' hu hg

theorem render_safe (w : Nat) (d : Doc) (hs : Safe d) : ∃ o, render w d = some o := by
  obtain ⟨st', h⟩ := go_safe w d 0 .brk [] { pos := 0, out := [], fits := true } hs
  exact ⟨st'.out, by simp [render, h]⟩

/-! ### soundness of the look-ahead: an accepted group really fits -/

/-- No `Union` anywhere (the look-ahead inspects only the second side of a `Union`, the
    renderer tries the first, so the statement below is about union-free groups). -/
def UnionFree : Doc → Prop
  | .nil => True
  | .fail => True
  | .line => True
  | .text _ => True
  | .append l r => UnionFree l ∧ UnionFree r
  | .group d => UnionFree d
  | .nest _ d => UnionFree d
  | .flatAlt b f => UnionFree b ∧ UnionFree f
  | .union _ _ => False

instance decUnionFree : (d : Doc) → Decidable (UnionFree d)
  | .nil => isTrue trivial
  | .fail => isTrue trivial
  | .line => isTrue trivial
  | .text _ => isTrue trivial
  | .append l r =>
    haveI := decUnionFree l; haveI := decUnionFree r
    inferInstanceAs (Decidable (UnionFree l ∧ UnionFree r))
  | .group d => decUnionFree d
  | .nest _ d => decUnionFree d
  | .flatAlt b f =>
    haveI := decUnionFree b; haveI := decUnionFree f
    inferInstanceAs (Decidable (UnionFree b ∧ UnionFree f))
  | .union _ _ => isFalse id

/-- The text of a document laid out flat. -/
def flatText : Doc → List Char
  | .nil => []
  | .fail => []
  | .line => []
  | .text s => s
  | .append l r => flatText l ++ flatText r
  | .group d => flatText d
  | .nest _ d => flatText d
  | .flatAlt _ f => flatText f
  | .union l _ => flatText l

theorem byteLen_append (a b : List Char) : byteLen (a ++ b) = byteLen a + byteLen b := by
  induction a with
  | nil => simp [byteLen]
  | cons c a ih => simp [byteLen, ih]; omega

/-- If the flat scan of `fitting` runs through `d` from column `p` to column `p'`, then the
    renderer in flat mode writes exactly `flatText d`, ends at `p'`, no text overflowed
    (`fits` unchanged), `p' = p + len` and `p' ≤ w` unless nothing was written. -/
theorem fitDoc_flat_cont (w : Nat) (d : Doc) :
    ∀ (p p' : Nat), UnionFree d → fitDoc w .flat d p = .cont p' →
      (p' = p + byteLen (flatText d) ∧ (byteLen (flatText d) = 0 ∨ p' ≤ w)) ∧
      ∀ (ind : Nat) (rest : List Doc) (st : St), st.pos = p →
        go w ind .flat d rest st =
          some { pos := p', out := st.out ++ flatText d, fits := st.fits } := by
  induction d with
  | nil =>
    intro p p' _ h
    simp only [fitDoc] at h
    injection h with h; subst h
    refine ⟨by simp [flatText, byteLen], ?_⟩
    intro ind rest st hp
    subst hp
    simp [go, flatText]
  | fail => intro p p' _ h; simp [fitDoc] at h
  | line => intro p p' _ h; simp [fitDoc] at h
  | text s =>
    intro p p' _ h
    simp only [fitDoc] at h
    split at h
    · cases h
    · rename_i hle
      injection h with h; subst h
      refine ⟨⟨rfl, Or.inr (by omega)⟩, ?_⟩
      intro ind rest st hp
      subst hp
      have : decide (st.pos + byteLen s ≤ w) = true := by simp; omega
      simp [go, flatText, this]
  | append l r ihl ihr =>
    intro p p' hu h
    simp only [fitDoc] at h
    cases hl : fitDoc w .flat l p with
    | done b => rw [hl] at h; cases h
    | cont p1 =>
      rw [hl] at h
      simp only at h
      obtain ⟨⟨e1, b1⟩, g1⟩ := ihl p p1 hu.1 hl
      obtain ⟨⟨e2, b2⟩, g2⟩ := ihr p1 p' hu.2 h
      refine ⟨⟨by simp [flatText, byteLen_append]; omega, ?_⟩, ?_⟩
      · simp only [flatText, byteLen_append]
        rcases b2 with b2 | b2
        · rcases b1 with b1 | b1
          · left; omega
          · right; omega
        · right; exact b2
      · intro ind rest st hp
        simp only [go, g1 ind (r :: rest) st hp]
        rw [g2 ind rest _ rfl]
        simp [flatText]
  | group d ih =>
    intro p p' hu h
    simp only [fitDoc] at h
    obtain ⟨e, g⟩ := ih p p' hu h
    exact ⟨e, fun ind rest st hp => by simpa only [go, flatText] using g ind rest st hp⟩
  | nest k d ih =>
    intro p p' hu h
    simp only [fitDoc] at h
    obtain ⟨e, g⟩ := ih p p' hu h
    exact ⟨e, fun ind rest st hp => by simpa only [go, flatText] using g (ind + k) rest st hp⟩
  | flatAlt b f _ ihf =>
    intro p p' hu h
    simp only [fitDoc] at h
    obtain ⟨e, g⟩ := ihf p p' hu.2 h
    exact ⟨e, fun ind rest st hp => by simpa only [go, flatText] using g ind rest st hp⟩
  | union l r _ _ => intro p p' hu; exact hu.elim

/-- In flat mode a decided scan is always a refusal (a hard newline, `Fail`, or overflow). -/
theorem fitDoc_flat_done (w : Nat) (d : Doc) :
    ∀ (p : Nat) (b : Bool), UnionFree d → fitDoc w .flat d p = .done b → b = false := by
  induction d with
  | nil => intro p b _ h; simp [fitDoc] at h
  | fail => intro p b _ h; simp only [fitDoc] at h; injection h with h; exact h.symm
  | line =>
    intro p b _ h
    simp only [fitDoc] at h
    injection h with h
    rw [← h]; decide
  | text s =>
    intro p b _ h
    simp only [fitDoc] at h
    split at h
    · injection h with h; exact h.symm
    · cases h
  | append l r ihl ihr =>
    intro p b hu h
    simp only [fitDoc] at h
    cases hl : fitDoc w .flat l p with
    | done b' => rw [hl] at h; simp only at h; injection h with h; subst h; exact ihl p _ hu.1 hl
    | cont p1 => rw [hl] at h; exact ihr p1 b hu.2 h
  | group d ih => intro p b hu h; exact ih p b hu (by simpa only [fitDoc] using h)
  | nest k d ih => intro p b hu h; exact ih p b hu (by simpa only [fitDoc] using h)
  | flatAlt b' f _ ihf => intro p b hu h; exact ihf p b hu.2 (by simpa only [fitDoc] using h)
  | union l r _ _ => intro p b hu; exact hu.elim

/-- `fitting_sound`: when the look-ahead accepts a (union-free) group at column `st.pos`, the
    renderer lays it out flat as exactly `flatText d`, without a newline of its own, no text
    overflows, and the group ends within the width (unless it is empty). -/
theorem fitting_sound (w : Nat) (d : Doc) (rest : List Doc) (ind : Nat) (st : St)
    (hu : UnionFree d) (h : fitting w d rest st.pos = true) :
    go w ind .flat d rest st =
        some { pos := st.pos + byteLen (flatText d), out := st.out ++ flatText d, fits := st.fits } ∧
      (byteLen (flatText d) = 0 ∨ st.pos + byteLen (flatText d) ≤ w) := by
  unfold fitting at h
  cases hf : fitDoc w .flat d st.pos with
  | done b =>
    rw [hf] at h
    simp only at h
    have := fitDoc_flat_done w d st.pos b hu hf
    rw [this] at h; cases h
  | cont p' =>
    obtain ⟨⟨e, b⟩, g⟩ := fitDoc_flat_cont w d st.pos p' hu hf
    refine ⟨?_, ?_⟩
    · rw [g ind rest st rfl, e]
    · rcases b with b | b
      · exact Or.inl b
      · exact Or.inr (by omega)

/-! ### the `FlatAlt` shapes the two gluon printers build -/

theorem uniform_softBreak {keep : Char → Bool} (hk : DropsLayout keep) : Uniform keep Doc.softBreak := by
  simp [Doc.softBreak, Uniform, tok, hk.1]

theorem uniform_softBreak_ (keep : Char → Bool) : Uniform keep Doc.softBreak_ := by
  simp [Doc.softBreak_, Uniform, tok]

theorem uniform_softline {keep : Char → Bool} (hk : DropsLayout keep) : Uniform keep Doc.softline := by
  simp [Doc.softline, Doc.softBreak, Uniform, tok, hk.1]

theorem uniform_failUnlessFlat (keep : Char → Bool) : Uniform keep Doc.failUnlessFlat := by
  simp [Doc.failUnlessFlat, Uniform, tok]

theorem uniform_trailingComma_iff (keep : Char → Bool) :
    Uniform keep Doc.trailingComma ↔ keep ',' = false := by
  simp [Doc.trailingComma, Uniform, tok, List.filter_cons]

end GluonModel.Proofs.PrettyDoc
