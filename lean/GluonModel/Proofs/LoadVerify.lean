/- Lemmas for `GluonModel.LoadVerify`; the frame part is C07's `StackVerify.Proofs.verify_sound`. -/
import GluonModel.LoadVerify
import GluonModel.Proofs.StackVerify

namespace GluonModel.LoadVerify.Proofs
open GluonModel.LoadVerify GluonModel.StackVerify

theorem verified_parts (f : VFn) (hv : verified f = true) :
    verify f.toFn = true ∧ operandsOk f = true ∧ verifiedL f.inner = true := by
  cases f with
  | mk a m c s r u inner =>
    simp only [verified, Bool.and_eq_true] at hv
    exact ⟨hv.1.1, hv.1.2, hv.2⟩

theorem verifiedL_mem : (gs : List VFn) → verifiedL gs = true → ∀ g ∈ gs, verified g = true
  | [], _, g, hg => by cases hg
  | g' :: gs, h, g, hg => by
    simp only [verifiedL, Bool.and_eq_true] at h
    cases hg with
    | head => exact h.1
    | tail _ hg => exact verifiedL_mem gs h.2 g hg

theorem refOk_inRange (f : VFn) (vi : VInstr) (h pc : Nat) (hr : refOk f vi.ref = true) :
    ∀ a ∈ (match vi.ref with
      | .none => []
      | .string i => [Access.string i]
      | .record i a => [Access.record i a]
      | .upvar i => [Access.upvar i]
      | .closure j u => [Access.inner j u]), InRange f h a := by
  intro a ha
  cases hrf : vi.ref with
  | none => rw [hrf] at ha; cases ha
  | string i =>
    rw [hrf] at ha hr; simp at ha; subst ha
    simpa [refOk, InRange] using hr
  | record i n =>
    rw [hrf] at ha hr; simp at ha; subst ha
    simpa [refOk, InRange] using hr
  | upvar i =>
    rw [hrf] at ha hr; simp at ha; subst ha
    simpa [refOk, InRange] using hr
  | closure j u =>
    rw [hrf] at ha hr; simp at ha; subst ha
    simp only [refOk] at hr
    cases hg : f.inner[j]? with
    | none => rw [hg] at hr; cases hr
    | some g =>
      rw [hg] at hr
      simp only [Bool.and_eq_true, beq_iff_eq, decide_eq_true_eq] at hr
      exact ⟨g, hg, hr.1, hr.2⟩

theorem slots_inRange (i : Instr) (h : Nat) (hok : i.okAt h = true) (f : VFn) :
    ∀ a ∈ (match i with
      | .push j => [Access.slot j]
      | i => (List.range i.needs).map (fun k => Access.slot (h - 1 - k))), InRange f h a := by
  intro a ha
  cases i
  case push j =>
    simp only [List.mem_singleton] at ha
    subst ha
    simpa [Instr.okAt, InRange] using hok
  case closedata => simp [Instr.okAt] at hok
  all_goals (
    simp only [List.mem_map, List.mem_range] at ha
    obtain ⟨k, hk, rfl⟩ := ha
    have hn := hok
    simp only [Instr.okAt, decide_eq_true_eq] at hn
    simp only [Instr.needs] at hk hn
    simp only [InRange]
    omega)

theorem step_in_range (f : VFn) (hv : verified f = true) (pc h : Nat) (hr : Reach f.toFn pc h) :
    ∃ vi, f.code[pc]? = some vi ∧ h ≤ f.max ∧ vi.stack.after h ≤ f.max ∧
      ∀ a ∈ accesses vi pc h, InRange f h a := by
  obtain ⟨hvf, hop, _⟩ := verified_parts f hv
  obtain ⟨hmax, i, hi, hok, haft⟩ := StackVerify.Proofs.verify_sound f.toFn hvf pc h hr
  have hcode : f.toFn.code = f.code.map (·.stack) := by cases f; rfl
  have hmaxeq : f.toFn.max = f.max := by cases f; rfl
  rw [hcode, List.getElem?_map] at hi
  cases hvi : f.code[pc]? with
  | none => rw [hvi] at hi; cases hi
  | some vi =>
    rw [hvi] at hi
    simp only [Option.map_some, Option.some.injEq] at hi
    subst hi
    simp only [operandsOk, Bool.and_eq_true, List.all_eq_true] at hop
    obtain ⟨hrefs, htg⟩ := hop
    have hmem : vi ∈ f.code := List.mem_of_getElem? hvi
    have hpc : pc < f.code.length := by
      have := List.getElem?_eq_some_iff.mp hvi
      exact this.1
    refine ⟨vi, rfl, hmaxeq ▸ hmax, hmaxeq ▸ haft, ?_⟩
    intro a ha
    simp only [accesses, List.mem_append] at ha
    rcases ha with (ha | ha) | ha
    · exact slots_inRange vi.stack h hok f a ha
    · obtain ⟨pc', hpc', rfl⟩ := List.mem_map.mp ha
      simp only [targetsOk, Bool.and_eq_true, decide_eq_true_eq, List.all_eq_true,
        List.mem_range] at htg
      have := htg.2 pc hpc
      rw [hvi] at this
      simp only [List.all_eq_true, decide_eq_true_eq] at this
      exact this pc' hpc'
    · exact refOk_inRange f vi h pc (hrefs vi hmem) a ha

theorem closure_target (f : VFn) (hv : verified f = true) (vi : VInstr) (hm : vi ∈ f.code)
    (j u : Nat) (hr : vi.ref = .closure j u) :
    ∃ g, f.inner[j]? = some g ∧ g.upvars = u ∧ u ≤ f.max ∧ verified g = true := by
  obtain ⟨_, hop, hin⟩ := verified_parts f hv
  simp only [operandsOk, Bool.and_eq_true, List.all_eq_true] at hop
  have := hop.1 vi hm
  rw [hr] at this
  simp only [refOk] at this
  cases hg : f.inner[j]? with
  | none => rw [hg] at this; cases this
  | some g =>
    rw [hg] at this
    simp only [Bool.and_eq_true, beq_iff_eq, decide_eq_true_eq] at this
    exact ⟨g, rfl, this.1, this.2, verifiedL_mem f.inner hin g (List.mem_of_getElem? hg)⟩

end GluonModel.LoadVerify.Proofs
