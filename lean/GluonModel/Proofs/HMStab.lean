/-
C03 — stability of the declarative system under an unused binding (the declarative half of the
third stability clause of the property).
-/
import GluonModel.HM

namespace GluonModel.HM.Proofs
open GluonModel.HM

/-- free term variables -/
def fv : Expr → List String
  | .var x => [x]
  | .lam x b => (fv b).filter (fun y => y != x)
  | .app f a => fv f ++ fv a
  | .letE x e b => fv e ++ (fv b).filter (fun y => y != x)
  | .ifE c t e => fv c ++ (fv t ++ fv e)
  | .lt a b => fv a ++ fv b
  | .fcons _ e r => fv e ++ fv r
  | .rcd f => fv f
  | .proj e _ => fv e
  | .asnoc i e => fv i ++ fv e
  | _ => []

theorem slookup_cons_agree (x : String) (P : Ty → Prop) (Δ Δ' : SEnv) (b : Expr)
    (h : ∀ y, y ∈ (fv b).filter (fun y => y != x) → slookup y Δ' = slookup y Δ) :
    ∀ y, y ∈ fv b → slookup y ((x, P) :: Δ') = slookup y ((x, P) :: Δ) := by
  intro y hy
  simp only [slookup]
  by_cases hyx : y = x
  · simp [hyx]
  · simp only [hyx, if_false]
    exact h y (by simp [List.mem_filter, hy, hyx])

/-- a typing only depends on the environment at the free variables of the expression -/
theorem hasType_env_congr (Δ : SEnv) (e : Expr) (τ : Ty) (h : HasType Δ e τ) :
    ∀ Δ', (∀ y, y ∈ fv e → slookup y Δ' = slookup y Δ) → HasType Δ' e τ := by
  induction h with
  | var Δ x P τ hl hp =>
    intro Δ' hag
    exact HasType.var Δ' x P τ (by rw [hag x (by simp [fv])]; exact hl) hp
  | lam Δ x b a τ _ ih =>
    intro Δ' hag
    exact HasType.lam Δ' x b a τ (ih _ (slookup_cons_agree x _ Δ Δ' b hag))
  | app Δ f e a τ _ _ ihf ihe =>
    intro Δ' hag
    exact HasType.app Δ' f e a τ (ihf Δ' (fun y hy => hag y (by simp [fv, hy])))
      (ihe Δ' (fun y hy => hag y (by simp [fv, hy])))
  | letE Δ x e b P τ hne _ _ ihe ihb =>
    intro Δ' hag
    refine HasType.letE Δ' x e b P τ hne (fun τ₁ hp => ihe τ₁ hp Δ' (fun y hy => hag y (by simp [fv, hy]))) ?_
    apply ihb
    apply slookup_cons_agree x P Δ Δ' b
    intro y hy
    exact hag y (by simp only [fv, List.mem_append]; exact Or.inr hy)
  | int Δ n => intro Δ' _; exact HasType.int Δ' n
  | str Δ s => intro Δ' _; exact HasType.str Δ' s
  | lt Δ a b _ _ iha ihb =>
    intro Δ' hag
    exact HasType.lt Δ' a b (iha Δ' (fun y hy => hag y (by simp [fv, hy])))
      (ihb Δ' (fun y hy => hag y (by simp [fv, hy])))
  | ifE Δ c t e τ _ _ _ ihc iht ihe =>
    intro Δ' hag
    exact HasType.ifE Δ' c t e τ (ihc Δ' (fun y hy => hag y (by simp [fv, hy])))
      (iht Δ' (fun y hy => hag y (by simp [fv, hy]))) (ihe Δ' (fun y hy => hag y (by simp [fv, hy])))
  | fnil Δ => intro Δ' _; exact HasType.fnil Δ'
  | fcons Δ l e rest τ ρ _ _ ihe ihr =>
    intro Δ' hag
    exact HasType.fcons Δ' l e rest τ ρ (ihe Δ' (fun y hy => hag y (by simp [fv, hy])))
      (ihr Δ' (fun y hy => hag y (by simp [fv, hy])))
  | rcd Δ f ρ _ ih =>
    intro Δ' hag
    exact HasType.rcd Δ' f ρ (ih Δ' (fun y hy => hag y (by simp [fv, hy])))
  | proj Δ e l ρ τ _ hf ih =>
    intro Δ' hag
    exact HasType.proj Δ' e l ρ τ (ih Δ' (fun y hy => hag y (by simp [fv, hy]))) hf
  | anil Δ τ => intro Δ' _; exact HasType.anil Δ' τ
  | asnoc Δ init e τ _ _ ihi ihe =>
    intro Δ' hag
    exact HasType.asnoc Δ' init e τ (ihi Δ' (fun y hy => hag y (by simp [fv, hy])))
      (ihe Δ' (fun y hy => hag y (by simp [fv, hy])))
  | conA Δ τ => intro Δ' _; exact HasType.conA Δ' τ
  | conB Δ τ => intro Δ' _; exact HasType.conB Δ' τ

/-- Adding a binding that the body does not use changes nothing: the `let` has exactly the types
    of its body, provided (and only if) the bound expression is typable at all. -/
theorem hasType_unused_let (Δ : SEnv) (x : String) (e b : Expr) (τ : Ty) (hx : x ∉ fv b) :
    HasType Δ (.letE x e b) τ ↔ (∃ τ₁, HasType Δ e τ₁) ∧ HasType Δ b τ := by
  have agree : ∀ (P : Ty → Prop) y, y ∈ fv b → slookup y ((x, P) :: Δ) = slookup y Δ := by
    intro P y hy
    have : y ≠ x := fun h => hx (h ▸ hy)
    simp [slookup, this]
  constructor
  · intro h
    cases h with
    | letE _ _ _ _ P _ hne hall hb =>
      obtain ⟨τ₁, hp⟩ := hne
      exact ⟨⟨τ₁, hall τ₁ hp⟩, hasType_env_congr _ b τ hb Δ (fun y hy => (agree P y hy).symm)⟩
  · intro ⟨⟨τ₁, h₁⟩, hb⟩
    exact HasType.letE Δ x e b (fun t => HasType Δ e t) τ ⟨τ₁, h₁⟩ (fun _ h => h)
      (hasType_env_congr Δ b τ hb _ (fun y hy => agree _ y hy))

end GluonModel.HM.Proofs
