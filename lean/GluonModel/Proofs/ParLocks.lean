/-
Lemmas about `GluonModel.ParLocks`: a lock hierarchy excludes wait-for cycles and deadlock.
-/
import GluonModel.ParLocks

namespace GluonModel.ParLocks.Proofs
open GluonModel.ParLocks

/-- `prog`, started while holding `held`, acquires only locks ranked above everything it holds. -/
def Ordered (rank : Lock → Nat) : List Lock → List Op → Prop
  | _, [] => True
  | held, .acq l :: rest => (∀ h ∈ held, rank h < rank l) ∧ Ordered rank (l :: held) rest
  | held, .rel l :: rest => Ordered rank (held.erase l) rest

/-- invariant of a system in which every thread respects the hierarchy -/
def Good (rank : Lock → Nat) (s : Sys) : Prop :=
  ∀ th ∈ s, Ordered rank th.held th.prog ∧ (th.prog = [] → th.held = [])

theorem ordered_norm (rank : Lock → Nat) (th : Th) (h : Ordered rank th.held th.prog) :
    Ordered rank (norm th).held (norm th).prog ∧ ((norm th).prog = [] → (norm th).held = []) := by
  obtain ⟨held, prog⟩ := th
  cases prog with
  | nil => simp [norm, Ordered]
  | cons o rest => simp [norm]; exact h

theorem good_stepTh (rank : Lock → Nat) (s : Sys) (th th' : Th)
    (h : Ordered rank th.held th.prog) (hs : stepTh s th = some th') :
    Ordered rank th'.held th'.prog ∧ (th'.prog = [] → th'.held = []) := by
  obtain ⟨held, prog⟩ := th
  cases prog with
  | nil => simp [stepTh] at hs
  | cons o rest =>
    cases o with
    | acq l =>
      simp only [stepTh] at hs
      split at hs
      · simp at hs
      · simp only [Option.some.injEq] at hs
        subst hs
        exact ordered_norm rank _ h.2
    | rel l =>
      simp only [stepTh, Option.some.injEq] at hs
      subst hs
      exact ordered_norm rank _ h

theorem good_stepAt (rank : Lock → Nat) (s s' : Sys) (i : Nat) (hg : Good rank s)
    (hs : stepAt s i = some s') : Good rank s' := by
  unfold stepAt at hs
  cases hi : s[i]? with
  | none => simp [hi] at hs
  | some th =>
    simp only [hi] at hs
    cases ht : stepTh s th with
    | none => simp [ht] at hs
    | some th' =>
      simp only [ht, Option.some.injEq] at hs
      subst hs
      intro x hx
      rcases List.mem_or_eq_of_mem_set hx with hx | hx
      · exact hg x hx
      · subst hx
        have hm : th ∈ s := List.mem_of_getElem? hi
        exact good_stepTh rank s th x (hg th hm).1 ht

theorem good_runSched (rank : Lock → Nat) (sched : List Nat) :
    ∀ s s', Good rank s → runSched s sched = some s' → Good rank s' := by
  induction sched with
  | nil => intro s s' hg h; simp [runSched] at h; subst h; exact hg
  | cons i is ih =>
    intro s s' hg h
    simp only [runSched] at h
    cases hs : stepAt s i with
    | none => simp [hs] at h
    | some s1 =>
      simp only [hs] at h
      exact ih s1 s' (good_stepAt rank s s1 i hg hs) h

theorem good_mkSys (rank : Lock → Nat) (progs : List (List Op))
    (h : ∀ p ∈ progs, Ordered rank [] p) : Good rank (mkSys progs) := by
  intro th hth
  simp only [mkSys, List.mem_map] at hth
  obtain ⟨p, hp, rfl⟩ := hth
  exact ordered_norm rank ⟨[], p⟩ (h p hp)

/-! ### wait-for graph -/

/-- OS thread `i` is blocked on a lock that OS thread `j` holds -/
def WaitsFor (s : Sys) (i j : Nat) : Prop :=
  ∃ thi thj l, s[i]? = some thi ∧ s[j]? = some thj ∧ wants thi = some l ∧ l ∈ thj.held

/-- one or more wait-for edges -/
inductive WaitPath (s : Sys) : Nat → Nat → Prop
  | single {i j : Nat} : WaitsFor s i j → WaitPath s i j
  | cons {i j k : Nat} : WaitsFor s i j → WaitPath s j k → WaitPath s i k

def wantRank (rank : Lock → Nat) (s : Sys) (i : Nat) : Nat :=
  match s[i]? with
  | none => 0
  | some th =>
    match wants th with
    | none => 0
    | some l => rank l

theorem wants_some {th : Th} {l : Lock} (h : wants th = some l) :
    ∃ rest, th.prog = .acq l :: rest := by
  obtain ⟨held, prog⟩ := th
  cases prog with
  | nil => simp [wants] at h
  | cons o rest =>
    cases o with
    | acq l' => simp [wants] at h; subst h; exact ⟨rest, rfl⟩
    | rel l' => simp [wants] at h

/-- along a wait-for edge into a waiting thread the wanted rank strictly increases -/
theorem edge_rank (rank : Lock → Nat) (s : Sys) (hg : Good rank s) (i j k : Nat)
    (h1 : WaitsFor s i j) (h2 : WaitsFor s j k) : wantRank rank s i < wantRank rank s j := by
  obtain ⟨thi, thj, l, hi, hj, hw, hl⟩ := h1
  obtain ⟨thj', _, l', hj', _, hw', _⟩ := h2
  rw [hj] at hj'
  cases hj'
  obtain ⟨rest, hp⟩ := wants_some hw'
  have hm : thj ∈ s := List.mem_of_getElem? hj
  have ho := (hg thj hm).1
  rw [hp] at ho
  have := ho.1 l hl
  simp [wantRank, hi, hj, hw, hw']
  exact this

theorem path_first (s : Sys) (i j : Nat) (h : WaitPath s i j) : ∃ k, WaitsFor s i k := by
  cases h with
  | single h => exact ⟨_, h⟩
  | cons h _ => exact ⟨_, h⟩

theorem path_rank (rank : Lock → Nat) (s : Sys) (hg : Good rank s) (i k : Nat)
    (h : WaitPath s i k) : ∀ m, WaitsFor s k m → wantRank rank s i < wantRank rank s k := by
  induction h with
  | single h => intro m hm; exact edge_rank rank s hg _ _ m h hm
  | cons h p ih =>
    intro m hm
    obtain ⟨x, hx⟩ := path_first s _ _ p
    exact Nat.lt_trans (edge_rank rank s hg _ _ x h hx) (ih m hm)

theorem no_cycle (rank : Lock → Nat) (s : Sys) (hg : Good rank s) (i : Nat) :
    ¬ WaitPath s i i := by
  intro h
  obtain ⟨m, hm⟩ := path_first s i i h
  exact Nat.lt_irrefl _ (path_rank rank s hg i i h m hm)

/-! ### progress -/

def wr (rank : Lock → Nat) (th : Th) : Nat :=
  match wants th with
  | none => 0
  | some l => rank l

def maxWr (rank : Lock → Nat) : Sys → Nat
  | [] => 0
  | th :: s => max (wr rank th) (maxWr rank s)

theorem wr_le_max (rank : Lock → Nat) (s : Sys) (th : Th) (h : th ∈ s) :
    wr rank th ≤ maxWr rank s := by
  induction s with
  | nil => simp at h
  | cons a s ih =>
    rcases List.mem_cons.mp h with h | h
    · subst h; simp [maxWr]; exact Nat.le_max_left _ _
    · simp only [maxWr]; exact Nat.le_trans (ih h) (Nat.le_max_right _ _)

theorem heldBy_iff (s : Sys) (l : Lock) : heldBy s l = true ↔ ∃ th ∈ s, l ∈ th.held := by
  simp [heldBy]

/-- in a state where nobody can move, an unfinished thread is blocked on a lock held by another
    unfinished thread that wants a higher-ranked lock -/
theorem climb_one (rank : Lock → Nat) (s : Sys) (hg : Good rank s)
    (hstuck : ∀ th ∈ s, stepTh s th = none) (th : Th) (hm : th ∈ s) (hp : th.prog ≠ []) :
    ∃ th' ∈ s, th'.prog ≠ [] ∧ wr rank th < wr rank th' := by
  have hs := hstuck th hm
  obtain ⟨held, prog⟩ := th
  cases prog with
  | nil => simp at hp
  | cons o rest =>
    cases o with
    | rel l => simp [stepTh] at hs
    | acq l =>
      simp only [stepTh] at hs
      split at hs
      · rename_i hb
        obtain ⟨u, hu, hlu⟩ := (heldBy_iff s l).mp hb
        have hup : u.prog ≠ [] := by
          intro h
          have := (hg u hu).2 h
          rw [this] at hlu
          simp at hlu
        refine ⟨u, hu, hup, ?_⟩
        -- u is stuck too, hence wants a lock; it holds `l`
        have hsu := hstuck u hu
        obtain ⟨uheld, uprog⟩ := u
        cases uprog with
        | nil => simp at hup
        | cons o' rest' =>
          cases o' with
          | rel l' => simp [stepTh] at hsu
          | acq l' =>
            have ho := (hg _ hu).1
            simp only [Ordered] at ho
            have := ho.1 l hlu
            simp [wr, wants]
            exact this
      · simp at hs

theorem climb (rank : Lock → Nat) (s : Sys) (hg : Good rank s)
    (hstuck : ∀ th ∈ s, stepTh s th = none) (n : Nat) :
    ∀ th ∈ s, th.prog ≠ [] → ∃ th' ∈ s, th'.prog ≠ [] ∧ wr rank th + n ≤ wr rank th' := by
  induction n with
  | zero => intro th hm hp; exact ⟨th, hm, hp, Nat.le_refl _⟩
  | succ n ih =>
    intro th hm hp
    obtain ⟨u, hu, hup, hlt⟩ := ih th hm hp
    obtain ⟨w, hw, hwp, hlt2⟩ := climb_one rank s hg hstuck u hu hup
    exact ⟨w, hw, hwp, by omega⟩

theorem stuck_all (s : Sys) (h : ∀ i, stepAt s i = none) : ∀ th ∈ s, stepTh s th = none := by
  intro th hm
  obtain ⟨i, hi, hget⟩ := List.mem_iff_getElem.mp hm
  have := h i
  have hi' : s[i]? = some th := by simp [List.getElem?_eq_getElem hi, hget]
  unfold stepAt at this
  simp only [hi'] at this
  cases hs : stepTh s th with
  | none => rfl
  | some th' => simp [hs] at this

/-- a system respecting a hierarchy is never stuck: all finished, or somebody can move -/
theorem progress (rank : Lock → Nat) (s : Sys) (hg : Good rank s) :
    (∀ th ∈ s, th.prog = []) ∨ ∃ i, (stepAt s i).isSome := by
  by_cases hd : ∀ th ∈ s, th.prog = []
  · exact Or.inl hd
  · right
    apply Classical.byContradiction
    intro hne
    have hall : ∀ i, stepAt s i = none := by
      intro i
      cases h : stepAt s i with
      | none => rfl
      | some x => exact absurd ⟨i, by simp [h]⟩ hne
    have hstuck := stuck_all s hall
    have ⟨th, hm, hp⟩ : ∃ th ∈ s, th.prog ≠ [] := by
      apply Classical.byContradiction
      intro h
      apply hd
      intro th hm
      apply Classical.byContradiction
      intro hp
      exact h ⟨th, hm, hp⟩
    obtain ⟨u, hu, _, hle⟩ := climb rank s hg hstuck (maxWr rank s + 1) th hm hp
    have := wr_le_max rank s u hu
    omega

/-! ### soundness of the interleaving search `explore` (what the driver answers with) -/

/-- reachable from `s0` by some schedule -/
def Reach (s0 s : Sys) : Prop := ∃ sched, runSched s0 sched = some s

theorem runSched_snoc (s0 s s' : Sys) (sched : List Nat) (i : Nat)
    (h : runSched s0 sched = some s) (hs : stepAt s i = some s') :
    runSched s0 (sched ++ [i]) = some s' := by
  induction sched generalizing s0 with
  | nil =>
    simp only [runSched, Option.some.injEq] at h
    subst h
    simp [runSched, hs]
  | cons j js ih =>
    simp only [runSched] at h
    cases hj : stepAt s0 j with
    | none => simp [hj] at h
    | some s1 =>
      simp only [hj] at h
      simp only [List.cons_append, runSched, hj]
      exact ih s1 h

theorem reach_refl (s0 : Sys) : Reach s0 s0 := ⟨[], rfl⟩

theorem reach_step (s0 s s' : Sys) (i : Nat) (h : Reach s0 s) (hs : stepAt s i = some s') :
    Reach s0 s' := by
  obtain ⟨sched, hr⟩ := h
  exact ⟨sched ++ [i], runSched_snoc s0 s s' sched i hr hs⟩

theorem mem_successors (s s' : Sys) (h : s' ∈ successors s) : ∃ i, stepAt s i = some s' := by
  unfold successors at h
  obtain ⟨i, _, hi⟩ := List.mem_filterMap.mp h
  exact ⟨i, hi⟩

/-- Every deadlock the search reports is a state that some schedule really reaches. -/
theorem explore_sound (s0 : Sys) :
    ∀ (fuel : Nat) (work : List Sys) (seen : List (List Nat)),
      (∀ s ∈ work, Reach s0 s) → explore fuel work seen = true →
      ∃ s, Reach s0 s ∧ deadlocked s = true := by
  intro fuel
  induction fuel with
  | zero => intro work seen _ h; simp [explore] at h
  | succ fuel ih =>
    intro work seen hw h
    cases work with
    | nil => simp [explore] at h
    | cons s rest =>
      simp only [explore] at h
      have hrest : ∀ x ∈ rest, Reach s0 x := fun x hx => hw x (List.mem_cons_of_mem _ hx)
      have hs : Reach s0 s := hw s (List.mem_cons_self ..)
      split at h
      · exact ih rest seen hrest h
      · split at h
        · rename_i hd
          exact ⟨s, hs, hd⟩
        · apply ih (successors s ++ rest) (key s :: seen) _ h
          intro x hx
          rcases List.mem_append.mp hx with hx | hx
          · obtain ⟨i, hi⟩ := mem_successors s x hx
            exact reach_step s0 s x i hs hi
          · exact hrest x hx

theorem allDone_iff (s : Sys) : allDone s = true ↔ ∀ th ∈ s, th.prog = [] := by
  simp [allDone, List.isEmpty_iff]

theorem successors_nil (s : Sys) (h : (successors s).isEmpty = true) : ∀ i, stepAt s i = none := by
  intro i
  cases hs : stepAt s i with
  | none => rfl
  | some s' =>
    have hi : i < s.length := by
      unfold stepAt at hs
      cases hg : s[i]? with
      | none => simp [hg] at hs
      | some th =>
        have := List.getElem?_eq_some_iff.mp hg
        exact this.1
    have : s' ∈ successors s := by
      unfold successors
      exact List.mem_filterMap.mpr ⟨i, List.mem_range.mpr hi, hs⟩
    have hne : successors s ≠ [] := List.ne_nil_of_mem this
    simp [List.isEmpty_iff] at h
    exact absurd h hne

/-- `deadlocked` (the Boolean the search tests) is the Prop-level deadlock: somebody is unfinished
    and nobody can perform his next lock operation. -/
theorem deadlocked_spec (s : Sys) (h : deadlocked s = true) :
    (¬ ∀ th ∈ s, th.prog = []) ∧ ∀ i, stepAt s i = none := by
  unfold deadlocked at h
  simp only [Bool.and_eq_true, Bool.not_eq_true'] at h
  refine ⟨?_, successors_nil s h.2⟩
  intro hall
  have := (allDone_iff s).mpr hall
  rw [this] at h
  simp at h

end GluonModel.ParLocks.Proofs
