/-
Program-level invariants of `runOps` (any thread bodies, any resume/yield schedule) stated on the
observation log — the very text that is compared with the implementation: cells and lazies.
(Channels: `runOps_chanInv` in `Proofs/ChanThreads.lean`.)
-/
import GluonModel.Chan
import GluonModel.Proofs.Chan
import GluonModel.Proofs.ChanThreads

namespace GluonModel.Chan

/-! ## References: every logged load shows the latest logged store -/

def storeEv (r : Nat) (e : Ev) : Option Int := if e.kind = 6 ∧ e.a = (r : Int) then some e.b else none

/-- The value most recently stored into `r` according to a newest-first log. -/
def lastStoreLog (r : Nat) (init : Int) (log : List Ev) : Int :=
  ((log.filterMap (storeEv r)).head?).getD init

/-- Every load event of `r` in the (newest-first) log carries the value of the latest earlier store. -/
def LoadsOk (r : Nat) (init : Int) : List Ev → Prop
  | [] => True
  | e :: older => (e.kind = 5 ∧ e.a = (r : Int) → e.b = lastStoreLog r init older) ∧ LoadsOk r init older

def RefInv (cells0 : Nat → Int) (s : St) : Prop :=
  ∀ r, s.p.cells r = lastStoreLog r (cells0 r) s.log ∧ LoadsOk r (cells0 r) s.log

theorem lastStoreLog_append (r : Nat) (init : Int) (l log : List Ev) (h : ∀ e ∈ l, e.kind ≠ 6) :
    lastStoreLog r init (l ++ log) = lastStoreLog r init log := by
  have : l.filterMap (storeEv r) = [] := by
    rw [List.filterMap_eq_nil_iff]
    intro e he
    simp [storeEv, h e he]
  simp [lastStoreLog, List.filterMap_append, this]

theorem lastStoreLog_cons (r : Nat) (init : Int) (e : Ev) (log : List Ev) (h : e.kind ≠ 6) :
    lastStoreLog r init (e :: log) = lastStoreLog r init log :=
  lastStoreLog_append r init [e] log (by simp [h])

theorem loadsOk_append (r : Nat) (init : Int) (l log : List Ev) (h : ∀ e ∈ l, e.kind ≠ 5)
    (hl : LoadsOk r init log) : LoadsOk r init (l ++ log) := by
  induction l with
  | nil => simpa using hl
  | cons e l ih =>
    have he : e.kind ≠ 5 := h e (by simp)
    refine ⟨fun hk => absurd hk.1 he, ih (fun e' he' => h e' (by simp [he']))⟩

theorem primEvents_kinds (tid : Nat) (c : Bool) (p : POp) (r : PRes)
    (hl : ∀ x, p ≠ .load x) (hs : ∀ x v, p ≠ .store x v) :
    ∀ e ∈ primEvents tid c p r, e.kind ≠ 5 ∧ e.kind ≠ 6 := by
  intro e he
  cases p with
  | send c' v => simp [primEvents] at he; subst he; simp
  | recv c' => cases r <;> simp [primEvents] at he <;> subst he <;> simp
  | load x => exact absurd rfl (hl x)
  | store x v => exact absurd rfl (hs x v)
  | force k =>
    cases r with
    | forced fr =>
      cases fr with
      | ok v => simp [primEvents] at he; subst he; simp
      | err e' => cases c <;> simp [primEvents] at he; subst he; simp
      | pending => simp [primEvents] at he
      | nofuel => simp [primEvents] at he
    | sent => simp [primEvents] at he
    | got v => simp [primEvents] at he
    | empty => simp [primEvents] at he
    | loaded v => simp [primEvents] at he
    | stored => simp [primEvents] at he

theorem doPrim_refInv (d : Decls) (cells0 : Nat → Int) (tid : Nat) (c : Bool) (p : POp) (s : St)
    (h : RefInv cells0 s) : RefInv cells0 (doPrim d tid c p s).1 := by
  intro r
  obtain ⟨hc, hl⟩ := h r
  -- the events logged around the call other than its own result
  have hmid5 : ∀ e ∈ runEvents s.p.lz.runs (pstep d tid p s.p).1.lz.runs ++ beginEvents tid p, e.kind ≠ 5 := by
    intro e he
    rcases List.mem_append.mp he with he | he
    · rw [runEvents_kind _ _ e he]; decide
    · rw [beginEvents_kind _ _ e he]; decide
  have hmid6 : ∀ e ∈ runEvents s.p.lz.runs (pstep d tid p s.p).1.lz.runs ++ beginEvents tid p, e.kind ≠ 6 := by
    intro e he
    rcases List.mem_append.mp he with he | he
    · rw [runEvents_kind _ _ e he]; decide
    · rw [beginEvents_kind _ _ e he]; decide
  have hmidL := loadsOk_append r (cells0 r) _ s.log hmid5 hl
  have hmidS := lastStoreLog_append r (cells0 r) _ s.log hmid6
  simp only [doPrim]
  rw [show primEvents tid c p (pstep d tid p s.p).2 ++ runEvents s.p.lz.runs (pstep d tid p s.p).1.lz.runs ++
        beginEvents tid p ++ s.log =
      primEvents tid c p (pstep d tid p s.p).2 ++
        ((runEvents s.p.lz.runs (pstep d tid p s.p).1.lz.runs ++ beginEvents tid p) ++ s.log) by
    simp [List.append_assoc]]
  by_cases hld : ∃ x, p = .load x
  · obtain ⟨x, hx⟩ := hld
    subst hx
    simp only [pstep, primEvents, List.cons_append, List.nil_append] at hmidL hmidS ⊢
    refine ⟨?_, ?_, hmidL⟩
    · rw [lastStoreLog_cons r (cells0 r) _ _ (by simp), hmidS]; exact hc
    · intro hk
      have hx : x = r := by have := hk.2; simp at this; omega
      subst hx
      simp only
      rw [hmidS]; exact hc
  · by_cases hst : ∃ x v, p = .store x v
    · obtain ⟨x, v, hx⟩ := hst
      subst hx
      simp only [pstep, primEvents, List.cons_append, List.nil_append] at hmidL hmidS ⊢
      refine ⟨?_, ?_, hmidL⟩
      · by_cases e : x = r
        · subst e; simp [upd, lastStoreLog, storeEv]
        · have e' : r ≠ x := fun y => e y.symm
          have ei : ¬ ((x : Int) = (r : Int)) := by omega
          have : lastStoreLog r (cells0 r) (⟨tid, 6, (x : Int), v⟩ :: (runEvents s.p.lz.runs s.p.lz.runs ++ beginEvents tid (.store x v) ++ s.log))
              = lastStoreLog r (cells0 r) (runEvents s.p.lz.runs s.p.lz.runs ++ beginEvents tid (.store x v) ++ s.log) := by
            simp [lastStoreLog, storeEv, ei]
          rw [this]
          simp only [upd, e', if_false]
          rw [hmidS]; exact hc
      · intro hk; simp at hk
    · have hl' : ∀ x, p ≠ .load x := fun x hx => hld ⟨x, hx⟩
      have hs' : ∀ x v, p ≠ .store x v := fun x v hx => hst ⟨x, v, hx⟩
      have hk := primEvents_kinds tid c p (pstep d tid p s.p).2 hl' hs'
      have hcells : (pstep d tid p s.p).1.cells = s.p.cells := by
        cases p with
        | send c' v => simp [pstep]
        | recv c' => cases hq : s.p.chans c' <;> simp [pstep, hq]
        | load x => exact absurd rfl (hl' x)
        | store x v => exact absurd rfl (hs' x v)
        | force k => simp [pstep]
      refine ⟨?_, ?_⟩
      · rw [hcells, lastStoreLog_append r (cells0 r) _ _ (fun e he => (hk e he).2), hmidS]; exact hc
      · exact loadsOk_append r (cells0 r) _ _ (fun e he => (hk e he).1) hmidL

theorem emit_refInv (cells0 : Nat → Int) (s : St) (e : Ev) (hk : 10 < e.kind) (h : RefInv cells0 s) :
    RefInv cells0 (s.emit e) := by
  intro r
  obtain ⟨hc, hl⟩ := h r
  have h5 : e.kind ≠ 5 := by omega
  have h6 : e.kind ≠ 6 := by omega
  refine ⟨?_, ?_⟩
  · have := lastStoreLog_append r (cells0 r) [e] s.log (by simp [h6])
    simpa [St.emit] using hc.trans this.symm
  · exact ⟨fun hk' => absurd hk'.1 h5, hl⟩

theorem runOps_refInv (d : Decls) (cells0 : Nat → Int) (fuel tid : Nat) (ops : List Op) (s : St)
    (h : RefInv cells0 s) : RefInv cells0 (runOps d fuel tid ops s).1 := by
  refine runOps_preserves d (RefInv cells0) (doPrim_refInv d cells0) (emit_refInv cells0) ?_ fuel tid ops s h
  intro tid t s0 ops s1 o s2 _ _ h1 heq
  cases o <;> simp [afterChild] at heq <;> subst heq
  · exact emit_refInv cells0 _ _ (by simp) (fun r => h1 r)
  · exact emit_refInv cells0 _ _ (by simp) (fun r => h1 r)
  · exact emit_refInv cells0 _ _ (by simp) (fun r => h1 r)
  · exact emit_refInv cells0 _ _ (by simp) (fun r => h1 r)

/-! ## Lazies: every logged force value is the value in the cell -/

def ForcesInv (s : St) : Prop :=
  ∀ e ∈ s.log, e.kind = 8 → ∀ k : Nat, e.a = (k : Int) → s.p.lz.st k = .value e.b

theorem doPrim_forcesInv (d : Decls) (tid : Nat) (c : Bool) (p : POp) (s : St)
    (h : ForcesInv s) : ForcesInv (doPrim d tid c p s).1 := by
  intro e he hk8 k hak
  simp only [doPrim] at he ⊢
  rcases List.mem_append.mp he with he | he
  · rcases List.mem_append.mp he with he | he
    · rcases List.mem_append.mp he with he | he
      · -- the result event of this call
        cases p with
        | send c' v => simp [primEvents] at he; subst he; simp at hk8
        | recv c' => cases hr : (pstep d tid (.recv c') s.p).2 <;> rw [hr] at he <;> simp [primEvents] at he <;> subst he <;> simp at hk8
        | load x => cases hr : (pstep d tid (.load x) s.p).2 <;> rw [hr] at he <;> simp [primEvents] at he <;> subst he <;> simp at hk8
        | store x v => simp [primEvents] at he; subst he; simp at hk8
        | force j =>
          cases hr : (force d forceFuel tid j s.p.lz).2 with
          | ok v =>
            have hr' : (pstep d tid (.force j) s.p).2 = .forced (.ok v) := by simp [pstep, hr]
            rw [hr'] at he
            simp [primEvents] at he
            subst he
            simp at hak
            have hjk : j = k := by omega
            subst hjk
            simpa [pstep] using force_ok_sets_value d forceFuel tid j s.p.lz v hr
          | err e' =>
            have hr' : (pstep d tid (.force j) s.p).2 = .forced (.err e') := by simp [pstep, hr]
            rw [hr'] at he
            cases c <;> simp [primEvents] at he
            subst he; simp at hk8
          | pending =>
            have hr' : (pstep d tid (.force j) s.p).2 = .forced .pending := by simp [pstep, hr]
            rw [hr'] at he; simp [primEvents] at he
          | nofuel =>
            have hr' : (pstep d tid (.force j) s.p).2 = .forced .nofuel := by simp [pstep, hr]
            rw [hr'] at he; simp [primEvents] at he
      · rw [runEvents_kind _ _ e he] at hk8; cases hk8
    · rw [beginEvents_kind _ _ e he] at hk8; cases hk8
  · -- an older event: the value is still there
    have hv := h e he hk8 k hak
    cases p with
    | send c' v => simpa [pstep] using hv
    | recv c' => cases hq : s.p.chans c' <;> simpa [pstep, hq] using hv
    | load x => simpa [pstep] using hv
    | store x v => simpa [pstep] using hv
    | force j => simpa [pstep] using force_value_stable d forceFuel tid j s.p.lz k e.b hv

theorem emit_forcesInv (s : St) (e : Ev) (hk : 10 < e.kind) (h : ForcesInv s) : ForcesInv (s.emit e) := by
  intro e' he' hk8 k hak
  simp [St.emit] at he'
  rcases he' with he' | he'
  · subst he'; omega
  · exact h e' he' hk8 k hak

theorem runOps_forcesInv (d : Decls) (fuel tid : Nat) (ops : List Op) (s : St)
    (h : ForcesInv s) : ForcesInv (runOps d fuel tid ops s).1 := by
  refine runOps_preserves d ForcesInv (doPrim_forcesInv d) emit_forcesInv ?_ fuel tid ops s h
  intro tid t s0 ops s1 o s2 _ _ h1 heq
  cases o <;> simp [afterChild] at heq <;> subst heq
  · exact emit_forcesInv _ _ (by simp) (fun e he => h1 e he)
  · exact emit_forcesInv _ _ (by simp) (fun e he => h1 e he)
  · exact emit_forcesInv _ _ (by simp) (fun e he => h1 e he)
  · exact emit_forcesInv _ _ (by simp) (fun e he => h1 e he)

/-! ## Lazies: the logged thunk starts are exactly `runs` -/

theorem force_runs_prefix (d : Decls) (fuel tid k : Nat) (s : LS) :
    ∃ l, (force d fuel tid k s).1.runs = l ++ s.runs := by
  induction fuel generalizing k s with
  | zero => exact ⟨[], by simp [force]⟩
  | succ fuel ih =>
    unfold force
    split
    · split
      · exact ⟨[k], by simp⟩
      · exact ⟨[k], by simp⟩
      · rename_i j n hd
        obtain ⟨l, hl⟩ := ih j { st := upd s.st k (.blackhole tid false), runs := k :: s.runs }
        rw [finishAdd_runs, hl]
        exact ⟨l ++ [k], by simp⟩
    · split
      · exact ⟨[], by simp⟩
      · exact ⟨[], by simp⟩
    · exact ⟨[], by simp⟩
    · exact ⟨[], by simp⟩

theorem pstep_runs_prefix (d : Decls) (tid : Nat) (p : POp) (s : PState) :
    ∃ l, (pstep d tid p s).1.lz.runs = l ++ s.lz.runs := by
  cases p with
  | send c v => exact ⟨[], by simp [pstep]⟩
  | recv c => cases hq : s.chans c <;> exact ⟨[], by simp [pstep, hq]⟩
  | load r => exact ⟨[], by simp [pstep]⟩
  | store r v => exact ⟨[], by simp [pstep]⟩
  | force k =>
    obtain ⟨l, hl⟩ := force_runs_prefix d forceFuel tid k s.lz
    exact ⟨l, by simpa [pstep] using hl⟩

theorem newRuns_prefix (l b : List Nat) : newRuns b (l ++ b) = l := by
  simp [newRuns]

def isRun (k : Nat) (e : Ev) : Bool := decide (e.kind = 10 ∧ e.a = (k : Int))

theorem countP_runEvents (k : Nat) (l b : List Nat) :
    (runEvents b (l ++ b)).countP (isRun k) = l.count k := by
  rw [runEvents, newRuns_prefix]
  induction l with
  | nil => simp
  | cons j l ih =>
    simp only [List.map_cons, List.countP_cons, ih, List.count_cons]
    by_cases e : j = k
    · subst e; simp [isRun]
    · have ei : ¬ ((j : Int) = (k : Int)) := by omega
      simp [isRun, e, ei]

/-- The log's thunk-start events of lazy `k` are as many as `k` occurs in `runs`, and `runs` obeys `RunsInv`. -/
def RunsLogInv (s : St) : Prop :=
  RunsInv s.p.lz ∧ ∀ k, s.log.countP (isRun k) = s.p.lz.runs.count k

theorem countP_isRun_zero (k : Nat) (l : List Ev) (h : ∀ e ∈ l, e.kind ≠ 10) : l.countP (isRun k) = 0 := by
  rw [List.countP_eq_zero]
  intro e he
  simp [isRun, h e he]

theorem primEvents_not10 (tid : Nat) (c : Bool) (p : POp) (r : PRes) : ∀ e ∈ primEvents tid c p r, e.kind ≠ 10 := by
  intro e he
  cases p with
  | send c' v => simp [primEvents] at he; subst he; simp
  | recv c' => cases r <;> simp [primEvents] at he <;> subst he <;> simp
  | load x => cases r <;> simp [primEvents] at he <;> subst he <;> simp
  | store x v => simp [primEvents] at he; subst he; simp
  | force k =>
    cases r with
    | forced fr =>
      cases fr with
      | ok v => simp [primEvents] at he; subst he; simp
      | err e' => cases c <;> simp [primEvents] at he; subst he; simp
      | pending => simp [primEvents] at he
      | nofuel => simp [primEvents] at he
    | sent => simp [primEvents] at he
    | got v => simp [primEvents] at he
    | empty => simp [primEvents] at he
    | loaded v => simp [primEvents] at he
    | stored => simp [primEvents] at he

theorem pstep_runsInv (d : Decls) (tid : Nat) (p : POp) (s : PState) (h : RunsInv s.lz) :
    RunsInv (pstep d tid p s).1.lz := by
  cases p with
  | send c v => simpa [pstep] using h
  | recv c => cases hq : s.chans c <;> simpa [pstep, hq] using h
  | load r => simpa [pstep] using h
  | store r v => simpa [pstep] using h
  | force k => simpa [pstep] using force_runsInv d forceFuel tid k s.lz h

theorem doPrim_runsLogInv (d : Decls) (tid : Nat) (c : Bool) (p : POp) (s : St) (h : RunsLogInv s) :
    RunsLogInv (doPrim d tid c p s).1 := by
  refine ⟨by simpa [doPrim] using pstep_runsInv d tid p s.p h.1, ?_⟩
  intro k
  obtain ⟨l, hl⟩ := pstep_runs_prefix d tid p s.p
  have hp : (primEvents tid c p (pstep d tid p s.p).2).countP (isRun k) = 0 :=
    countP_isRun_zero k _ (primEvents_not10 tid c p _)
  have hb : (beginEvents tid p).countP (isRun k) = 0 :=
    countP_isRun_zero k _ (fun e he => by rw [beginEvents_kind _ _ e he]; decide)
  have hr : (runEvents s.p.lz.runs (pstep d tid p s.p).1.lz.runs).countP (isRun k) = l.count k := by
    rw [hl, countP_runEvents]
  simp only [doPrim, List.countP_append]
  rw [hp, hb, hr, h.2 k, hl, List.count_append]
  omega

theorem emit_runsLogInv (s : St) (e : Ev) (hk : 10 < e.kind) (h : RunsLogInv s) : RunsLogInv (s.emit e) := by
  refine ⟨by simpa [St.emit] using h.1, ?_⟩
  intro k
  have : isRun k e = false := by simp [isRun]; intro h10; omega
  simpa [St.emit, List.countP_cons, this] using h.2 k

theorem runOps_runsLogInv (d : Decls) (fuel tid : Nat) (ops : List Op) (s : St)
    (h : RunsLogInv s) : RunsLogInv (runOps d fuel tid ops s).1 := by
  refine runOps_preserves d RunsLogInv (doPrim_runsLogInv d) emit_runsLogInv ?_ fuel tid ops s h
  intro tid t s0 ops s1 o s2 _ _ h1 heq
  cases o <;> simp [afterChild] at heq <;> subst heq
  · exact emit_runsLogInv _ _ (by simp) ⟨h1.1, h1.2⟩
  · exact emit_runsLogInv _ _ (by simp) ⟨h1.1, h1.2⟩
  · exact emit_runsLogInv _ _ (by simp) ⟨h1.1, h1.2⟩
  · exact emit_runsLogInv _ _ (by simp) ⟨h1.1, h1.2⟩

end GluonModel.Chan
