import GluonModel.GcAccount

namespace GluonModel.GcAccount.Proofs
open GluonModel.GcAccount

/-- `allocated_memory` is exactly the sum of the sizes of the linked objects. -/
def SumInv (g : Gc) : Prop := g.allocated = g.objs.sum

theorem freed_add_sweep (objs : List Nat) (marks : List Bool) :
    freed objs marks + (sweepObjs objs marks).sum = objs.sum := by
  induction objs generalizing marks with
  | nil => simp [freed, sweepObjs]
  | cons o os ih =>
    cases marks with
    | nil =>
      have := ih []
      simp [freed, sweepObjs] at *
      cases os <;> simp_all [freed, sweepObjs]
    | cons m ms =>
      have := ih ms
      cases m <;> simp [freed, sweepObjs] <;> omega

theorem freed_le_sum (objs : List Nat) (marks : List Bool) : freed objs marks ≤ objs.sum := by
  have := freed_add_sweep objs marks; omega

theorem sumInv_allocIgnore (g : Gc) (n : Nat) (h : SumInv g) : SumInv (allocIgnore g n) := by
  unfold SumInv at *; simp [allocIgnore, h]; omega

theorem sumInv_alloc (g : Gc) (n : Nat) (h : SumInv g) : SumInv (alloc g n).1 := by
  unfold alloc; simp only []
  split
  · exact h
  · exact sumInv_allocIgnore g n h

theorem sumInv_collect (g : Gc) (ms : List Bool) (h : SumInv g) : SumInv (collect g ms) := by
  unfold SumInv at *
  have := freed_add_sweep g.objs ms
  simp [collect, h]; omega

theorem sumInv_checkCollect (g : Gc) (ms : List Bool) (h : SumInv g) : SumInv (checkCollect g ms).1 := by
  unfold checkCollect; split
  · exact sumInv_collect g ms h
  · exact h

theorem sumInv_step (g : Gc) (op : Op) (h : SumInv g) : SumInv (step g op).1 := by
  cases op with
  | alloc n => exact sumInv_alloc g n h
  | allocIgnore n => exact sumInv_allocIgnore g n h
  | allocCollect ms n => exact sumInv_alloc _ n (sumInv_checkCollect g ms h)
  | collect ms => exact sumInv_collect g ms h
  | setLimit l => exact h

theorem sumInv_run (g : Gc) (ops : List Op) (h : SumInv g) : SumInv (run g ops) := by
  induction ops generalizing g with
  | nil => exact h
  | cons op ops ih => exact ih _ (sumInv_step g op h)

/-! limit -/

theorem limit_allocIgnore (g : Gc) (n : Nat) : (allocIgnore g n).limit = g.limit := rfl
theorem limit_alloc (g : Gc) (n : Nat) : (alloc g n).1.limit = g.limit := by
  unfold alloc; simp only []; split <;> rfl
theorem limit_collect (g : Gc) (ms : List Bool) : (collect g ms).limit = g.limit := rfl
theorem limit_checkCollect (g : Gc) (ms : List Bool) : (checkCollect g ms).1.limit = g.limit := by
  unfold checkCollect; split <;> rfl
theorem hdr_alloc (g : Gc) (n : Nat) : (alloc g n).1.hdr = g.hdr := by
  unfold alloc; simp only []; split <;> rfl
theorem hdr_checkCollect (g : Gc) (ms : List Bool) : (checkCollect g ms).1.hdr = g.hdr := by
  unfold checkCollect; split <;> rfl

theorem alloc_le (g : Gc) (n : Nat) (h : g.allocated ≤ g.limit) :
    (alloc g n).1.allocated ≤ g.limit := by
  unfold alloc; simp only []
  split
  · exact h
  · simp [allocIgnore]; omega

theorem collect_le (g : Gc) (ms : List Bool) : (collect g ms).allocated ≤ g.allocated := by
  simp [collect]

theorem checkCollect_le (g : Gc) (ms : List Bool) : (checkCollect g ms).1.allocated ≤ g.allocated := by
  unfold checkCollect; split
  · exact collect_le g ms
  · exact Nat.le_refl _

theorem step_within (g : Gc) (op : Op) (hop : op.accounted = true) (h : g.allocated ≤ g.limit) :
    (step g op).1.allocated ≤ (step g op).1.limit ∧ (step g op).1.limit = g.limit := by
  cases op with
  | alloc n => exact ⟨by rw [step, limit_alloc]; exact alloc_le g n h, limit_alloc g n⟩
  | allocIgnore n => simp [Op.accounted] at hop
  | allocCollect ms n =>
    have h1 : (checkCollect g ms).1.allocated ≤ (checkCollect g ms).1.limit := by
      rw [limit_checkCollect]; exact Nat.le_trans (checkCollect_le g ms) h
    refine ⟨?_, ?_⟩
    · show (alloc (checkCollect g ms).1 n).1.allocated ≤ (alloc (checkCollect g ms).1 n).1.limit
      rw [limit_alloc]; exact alloc_le _ n h1
    · show (alloc (checkCollect g ms).1 n).1.limit = g.limit
      rw [limit_alloc, limit_checkCollect]
  | collect ms =>
    exact ⟨Nat.le_trans (collect_le g ms) h, rfl⟩
  | setLimit l => simp [Op.accounted] at hop

theorem run_within (g : Gc) (ops : List Op) (hops : ∀ op ∈ ops, op.accounted = true)
    (h : g.allocated ≤ g.limit) :
    (run g ops).allocated ≤ g.limit ∧ (run g ops).limit = g.limit := by
  induction ops generalizing g with
  | nil => exact ⟨h, rfl⟩
  | cons op ops ih =>
    have hs := step_within g op (hops op (by simp)) h
    have := ih (step g op).1 (fun o ho => hops o (by simp [ho])) hs.1
    rw [hs.2] at this
    exact this

theorem alloc_ok_iff (g : Gc) (n : Nat) :
    (alloc g n).2 = .ok ↔ g.allocated + g.hdr + n < g.limit := by
  unfold alloc; simp only []
  split <;> simp <;> omega

theorem alloc_oom (g : Gc) (n : Nat) (h : g.allocated + g.hdr + n ≥ g.limit) :
    alloc g n = (g, .oom g.limit (g.allocated + g.hdr + n)) := by
  unfold alloc; simp only []; rw [if_pos h]

theorem alloc_ok_strict (g : Gc) (n : Nat) (h : (alloc g n).2 = .ok) :
    (alloc g n).1.allocated < g.limit ∧ (alloc g n).1.allocated = g.allocated + g.hdr + n := by
  have hlt := (alloc_ok_iff g n).1 h
  unfold alloc; simp only []
  rw [if_neg (by omega)]
  simp [allocIgnore]; omega

/-! the escape hatch -/

def ignoreBytes (hdr : Nat) : List Op → Nat
  | [] => 0
  | .allocIgnore n :: ops => hdr + n + ignoreBytes hdr ops
  | _ :: ops => ignoreBytes hdr ops

def Op.keepsLimit : Op → Bool
  | .setLimit _ => false
  | _ => true

theorem hdr_step (g : Gc) (op : Op) : (step g op).1.hdr = g.hdr := by
  cases op with
  | alloc n => exact hdr_alloc g n
  | allocIgnore n => rfl
  | allocCollect ms n => show (alloc _ n).1.hdr = _; rw [hdr_alloc, hdr_checkCollect]
  | collect ms => rfl
  | setLimit l => rfl

theorem run_ignore_bounded (g : Gc) (ops : List Op) (e : Nat)
    (hops : ∀ op ∈ ops, Op.keepsLimit op = true) (h : g.allocated ≤ g.limit + e) :
    (run g ops).allocated ≤ g.limit + e + ignoreBytes g.hdr ops ∧ (run g ops).limit = g.limit := by
  induction ops generalizing g e with
  | nil => exact ⟨by simp [run, ignoreBytes]; exact h, rfl⟩
  | cons op ops ih =>
    have hk := hops op (by simp)
    have hrest : ∀ o ∈ ops, Op.keepsLimit o = true := fun o ho => hops o (by simp [ho])
    cases op with
    | alloc n =>
      have h1 : (alloc g n).1.allocated ≤ g.limit + e := by
        unfold alloc; simp only []; split
        · exact h
        · simp [allocIgnore]; omega
      have := ih (alloc g n).1 e hrest (by rw [limit_alloc]; exact h1)
      rw [limit_alloc, hdr_alloc] at this
      simpa [run, step, ignoreBytes] using this
    | allocIgnore n =>
      have := ih (allocIgnore g n) (e + (g.hdr + n)) hrest (by simp [allocIgnore]; omega)
      simp [run, step, ignoreBytes] at *
      have h2 : (allocIgnore g n).limit = g.limit := rfl
      have h3 : (allocIgnore g n).hdr = g.hdr := rfl
      rw [h2, h3] at this
      exact ⟨by omega, this.2⟩
    | allocCollect ms n =>
      have h0 : (checkCollect g ms).1.allocated ≤ g.limit + e :=
        Nat.le_trans (checkCollect_le g ms) h
      have h1 : (alloc (checkCollect g ms).1 n).1.allocated ≤ g.limit + e := by
        unfold alloc; simp only []; split
        · exact h0
        · rename_i hn
          simp [allocIgnore]
          rw [limit_checkCollect] at hn
          omega
      have := ih (alloc (checkCollect g ms).1 n).1 e hrest
        (by rw [limit_alloc, limit_checkCollect]; exact h1)
      rw [limit_alloc, limit_checkCollect, hdr_alloc, hdr_checkCollect] at this
      simpa [run, step, ignoreBytes, allocAndCollect] using this
    | collect ms =>
      have := ih (collect g ms) e hrest (Nat.le_trans (collect_le g ms) h)
      have h2 : (collect g ms).limit = g.limit := rfl
      have h3 : (collect g ms).hdr = g.hdr := rfl
      rw [h2, h3] at this
      simpa [run, step, ignoreBytes] using this
    | setLimit l => simp [Op.keepsLimit] at hk

/-! thresholds -/

theorem firstOom_none_iff (limit : Nat) (ns : List Nat) :
    firstOom limit ns = none ↔ ∀ n ∈ ns, n < limit := by
  induction ns with
  | nil => simp [firstOom]
  | cons n ns ih =>
    unfold firstOom
    by_cases h : n ≥ limit
    · simp [h]; omega
    · simp [h, ih]; omega

theorem firstOom_some (limit : Nat) (ns : List Nat) (n : Nat) (h : firstOom limit ns = some n) :
    n ∈ ns ∧ n ≥ limit := by
  induction ns with
  | nil => simp [firstOom] at h
  | cons m ms ih =>
    unfold firstOom at h
    by_cases hm : m ≥ limit
    · simp [hm] at h; subst h; exact ⟨by simp, hm⟩
    · simp [hm] at h; have := ih h; exact ⟨by simp [this.1], this.2⟩

end GluonModel.GcAccount.Proofs
