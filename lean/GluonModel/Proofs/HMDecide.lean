/-
C03 — inference terminates (some unification fuel gives an answer other than `fuel`, and from then on
the answer never changes), and on the projection-free ML fragment it DECIDES typability.
-/
import GluonModel.HM
import GluonModel.Proofs.HM
import GluonModel.Proofs.HMTerm
import GluonModel.Proofs.HMFuel
import GluonModel.Proofs.HMFuelMono
import GluonModel.Proofs.HMFuelTerm
import GluonModel.Proofs.HMSound
import GluonModel.Proofs.HMComplete
import GluonModel.Proofs.HMPrincipal

namespace GluonModel.HM.Proofs
open GluonModel.HM

/-- from some fuel on the answer of inference is one and the same, and it is not `fuel` -/
theorem inferF_total (Γ : Env) (e : Expr) (S : Subst) (n : Nat) :
    ∃ N r, r ≠ .error .fuel ∧ ∀ fuel, N ≤ fuel → inferF false fuel Γ e S n = r := by
  obtain ⟨N, hN⟩ := inferF_fuel_exists e Γ S n
  exact ⟨N, _, hN, fun fuel hle => inferF_mono N fuel hle e Γ S n _ rfl hN⟩

/-- on the projection-free ML fragment (with `let`), for every sufficiently large fuel: the program is
    accepted iff it has a typing -/
theorem inferF_decides (e : Expr) (hfr : NoProj e) :
    ∃ N, ∀ fuel, N ≤ fuel →
      ((∃ τ', HasType [] e τ') ↔ ∃ τ S n', inferF false fuel [] e Subst.id 0 = .ok (τ, S, n')) := by
  obtain ⟨N, r, _, hall⟩ := inferF_total [] e Subst.id 0
  refine ⟨N, fun fuel hf => ⟨?_, ?_⟩⟩
  · rintro ⟨τ', hτ'⟩
    obtain ⟨τ, S, n', N', h₁, _, _⟩ := inferF_complete_principal e hfr τ' hτ'
    have e₁ := h₁ (fuel + N') (Nat.le_add_left _ _)
    rw [hall (fuel + N') (by omega)] at e₁
    rw [hall fuel hf, e₁]
    exact ⟨τ, S, n', rfl⟩
  · rintro ⟨τ, S, n', h⟩
    exact ⟨_, inferF_sound fuel [] e 0 τ S n' h⟩

end GluonModel.HM.Proofs
