import GluonModel.Memo
import GluonModel.Proofs.Memo
/-
C15, round 5: the exact staleness boundary of the engine AS IT IS.

A module is *late* when it was added as a NEW module (`add_module`, Vacant branch) although an
evaluation of the current revision had already demanded it (its "missing module" answer is memoised)
and no module text has been changed since. Result: the engine answers, for every history and every
module, exactly what a fresh VM answers on the latest sources WITHOUT the late modules
(`getM_eff`, `replay_inv2`); hence it is stale iff some late module would not answer "missing
module" on a fresh VM (`stale_iff_late`).
-/
namespace GluonModel.Memo.Proofs
open GluonModel.Memo

/-! ### The fresh-VM answer depends only on the sources of the reachable modules -/

/-- `evalA_agree`, needing agreement of the in-progress sets only on modules that have a source. -/
theorem evalA_agree' (srcs : Srcs) :
    ∀ f f' A A' m, (∀ y, Reach srcs m y → srcs.lookup y ≠ none → (y ∈ A ↔ y ∈ A')) →
      A.length < f → A'.length < f' → evalA srcs f A m = evalA srcs f' A' m := by
  intro f
  induction f with
  | zero => intro f' A A' m _ h; omega
  | succ f ih =>
    intro f' A A' m hag hf hf'
    cases f' with
    | zero => omega
    | succ f' =>
      unfold evalA
      cases hl : srcs.lookup m with
      | none => rfl
      | some s =>
        simp only []
        have hm : m ∈ A ↔ m ∈ A' := hag m (.refl m) (by rw [hl]; simp)
        by_cases hin : m ∈ A
        · have hin' : m ∈ A' := hm.mp hin
          rw [if_pos hin, if_pos hin']
          congr 1
          apply List.map_congr_left
          intro d hd
          congr 1
          apply ih
          · intro y hy hs
            rw [mem_filter_ne, mem_filter_ne]
            have := hag y (.step ⟨s, d.2, hl, by cases d; exact hd⟩ hy) hs
            rw [this]
          · have := length_filter_ne_lt A m hin; omega
          · have := length_filter_ne_lt A' m hin'; omega
        · have hin' : m ∉ A' := fun h => hin (hm.mpr h)
          rw [if_neg hin, if_neg hin']

theorem mem_mods_iff (srcs : Srcs) (y : Mod) : y ∈ srcs.mods ↔ srcs.lookup y ≠ none := by
  constructor
  · intro h hn
    cases hl : srcs.lookup y with
    | some s => rw [hl] at hn; cases hn
    | none =>
      clear hn
      induction srcs with
      | nil => simp [Srcs.mods] at h
      | cons p ps ih =>
        obtain ⟨k, v⟩ := p
        rw [List.lookup_cons] at hl
        by_cases e : y = k
        · subst e; simp at hl
        · have hb : (y == k) = false := by simp [e]
          rw [hb] at hl
          have : y ∈ Srcs.mods ps := by
            simp [Srcs.mods] at h ⊢
            cases h with
            | inl h => exact absurd h e
            | inr h => exact h
          exact ih this hl
  · intro h
    cases hl : srcs.lookup y with
    | none => exact absurd hl h
    | some s => exact lookup_some_mem_mods srcs y s hl

theorem reach_congr {srcs srcs' : Srcs} {m y : Mod} (hr : Reach srcs m y) :
    (∀ z, Reach srcs m z → srcs.lookup z = srcs'.lookup z) → Reach srcs' m y := by
  induction hr with
  | refl x => intro _; exact .refl x
  | @step x y z e _ ih =>
    intro h
    obtain ⟨s, u, hl, hm⟩ := e
    refine .step ⟨s, u, ?_, hm⟩ (ih (fun w hw => h w (.step ⟨s, u, hl, hm⟩ hw)))
    rw [← h x (.refl x)]; exact hl

theorem reach_congr_symm {srcs srcs' : Srcs} {m y : Mod} (hr : Reach srcs' m y) :
    (∀ z, Reach srcs m z → srcs.lookup z = srcs'.lookup z) → Reach srcs m y := by
  induction hr with
  | refl x => intro _; exact .refl x
  | @step x y z e _ ih =>
    intro h
    obtain ⟨s, u, hl, hm⟩ := e
    have hl' : srcs.lookup x = some s := by rw [h x (.refl x)]; exact hl
    exact .step ⟨s, u, hl', hm⟩ (ih (fun w hw => h w (.step ⟨s, u, hl', hm⟩ hw)))

theorem evalA_srcs_congr (srcs srcs' : Srcs) :
    ∀ f A m, (∀ y, Reach srcs m y → srcs.lookup y = srcs'.lookup y) →
      evalA srcs f A m = evalA srcs' f A m := by
  intro f
  induction f with
  | zero => intro A m _; rfl
  | succ f ih =>
    intro A m h
    unfold evalA
    rw [← h m (.refl m)]
    cases hl : srcs.lookup m with
    | none => rfl
    | some s =>
      simp only []
      by_cases hin : m ∈ A
      · rw [if_pos hin, if_pos hin]
        congr 1
        apply List.map_congr_left
        intro d hd
        congr 1
        apply ih
        intro y hy
        exact h y (.step ⟨s, d.2, hl, by cases d; exact hd⟩ hy)
      · rw [if_neg hin, if_neg hin]

/-- What a fresh VM answers for `m` depends only on the sources of the modules reachable from `m`. -/
theorem spec_congr (srcs srcs' : Srcs) (m : Mod)
    (h : ∀ y, Reach srcs m y → srcs.lookup y = srcs'.lookup y) : spec srcs m = spec srcs' m := by
  unfold spec
  rw [evalA_srcs_congr srcs srcs' _ _ m h]
  apply evalA_agree'
  · intro y hy hs
    have hy' := reach_congr_symm hy h
    rw [mem_mods_iff, mem_mods_iff, h y hy']
  · simp [Srcs.mods]
  · simp [Srcs.mods]

/-! ### Effective sources: the latest sources without the late modules -/

def effSrcs (srcs : Srcs) (late : List Mod) : Srcs := srcs.filter (fun p => !late.contains p.1)

theorem lookup_filter_key (l : Srcs) (q : Mod → Bool) (x : Mod) :
    (l.filter (fun p => q p.1)).lookup x = if q x then l.lookup x else none := by
  induction l with
  | nil => simp [List.lookup]
  | cons p ps ih =>
    obtain ⟨k, v⟩ := p
    by_cases hk : q k = true
    · rw [List.filter_cons_of_pos (by simpa using hk), List.lookup_cons, List.lookup_cons, ih]
      by_cases e : x = k
      · subst e; simp [hk]
      · have hb : (x == k) = false := by simp [e]
        simp [hb]
    · rw [List.filter_cons_of_neg (by simpa using hk), ih, List.lookup_cons]
      by_cases e : x = k
      · subst e; simp [hk]
      · have hb : (x == k) = false := by simp [e]
        simp [hb]

theorem lookup_eff (srcs : Srcs) (late : List Mod) (x : Mod) :
    (effSrcs srcs late).lookup x = if x ∈ late then none else srcs.lookup x := by
  unfold effSrcs
  rw [lookup_filter_key srcs (fun k => !late.contains k) x]
  by_cases h : x ∈ late <;> simp [h]

theorem lookup_set (srcs : Srcs) (m x : Mod) (t : Src) :
    (srcs.set m t).lookup x = if x = m then some t else srcs.lookup x := by
  unfold Srcs.set
  rw [List.lookup_cons]
  by_cases e : x = m
  · subst e; simp
  · have hb : (x == m) = false := by simp [e]
    rw [hb, lookup_filter_key srcs (fun k => k != m) x]
    simp [e]

theorem effSrcs_nil (srcs : Srcs) : effSrcs srcs [] = srcs := by
  unfold effSrcs
  simp

/-! ### The engine does not look at the source of a module that has a memo entry -/

theorem evalDeps_congr (P : Cache → Prop) (ev ev' : Mod → Cache → Res × Cache)
    (h : ∀ d c, P c → ev d c = ev' d c ∧ P (ev d c).2) (deps : List (Mod × Bool)) :
    ∀ c, P c → evalDeps ev deps c = evalDeps ev' deps c := by
  induction deps with
  | nil => intro c _; rfl
  | cons d ds ih =>
    intro c hc
    have h1 := h d.1 c hc
    simp only [evalDeps]
    rw [← h1.1, ih _ h1.2]

theorem evalM_congr (srcs srcs' : Srcs) :
    ∀ f A m c, (∀ x, c.memo.lookup x = none → srcs.lookup x = srcs'.lookup x) →
      evalM srcs f A m c = evalM srcs' f A m c := by
  intro f
  induction f with
  | zero => intro A m c _; rfl
  | succ f ih =>
    intro A m c h
    unfold evalM
    cases hmemo : c.memo.lookup m with
    | some r => rfl
    | none =>
      simp only []
      rw [← h m hmemo]
      cases hl : srcs.lookup m with
      | none => rfl
      | some s =>
        simp only []
        by_cases hin : m ∈ A
        · rw [if_pos hin, if_pos hin]
          have heq := evalDeps_congr
            (fun c => ∀ x, c.memo.lookup x = none → srcs.lookup x = srcs'.lookup x)
            (evalM srcs f (A.filter (· != m))) (evalM srcs' f (A.filter (· != m)))
            (by
              intro d c' hc'
              refine ⟨ih _ d c' hc', ?_⟩
              intro x hx
              apply hc'
              cases hq : c'.memo.lookup x with
              | none => rfl
              | some r =>
                exfalso
                exact (evalM_R srcs f (A.filter (· != m)) d c').1 x (by rw [hq]; simp) hx)
            s.deps c h
          rw [heq]
        · rw [if_neg hin, if_neg hin]

/-! ### The memo table is closed under imports (between evaluations) -/

/-- `m` has been answered: it is memoised, or it is in progress (and will be memoised on the way out). -/
def Done (srcs : Srcs) (A : List Mod) (c : Cache) (m : Mod) : Prop :=
  c.memo.lookup m ≠ none ∨ (m ∉ A ∧ srcs.lookup m ≠ none)

def Closed (srcs : Srcs) (A : List Mod) (c : Cache) : Prop :=
  ∀ y s d, c.memo.lookup y ≠ none → srcs.lookup y = some s → d ∈ s.deps → Done srcs A c d.1

def Mono (c c' : Cache) : Prop := ∀ x, c.memo.lookup x ≠ none → c'.memo.lookup x ≠ none

theorem Done.mono {srcs : Srcs} {A : List Mod} {c c' : Cache} {m : Mod} (hm : Mono c c')
    (h : Done srcs A c m) : Done srcs A c' m := by
  cases h with
  | inl h => exact .inl (hm m h)
  | inr h => exact .inr h

theorem evalDeps_closed (srcs : Srcs) (A : List Mod) (ev : Mod → Cache → Res × Cache)
    (hev : ∀ d c, Closed srcs A c → Closed srcs A (ev d c).2 ∧ Done srcs A (ev d c).2 d ∧ Mono c (ev d c).2)
    (deps : List (Mod × Bool)) :
    ∀ c, Closed srcs A c →
      Closed srcs A (evalDeps ev deps c).2 ∧ (∀ d ∈ deps, Done srcs A (evalDeps ev deps c).2 d.1) ∧
      Mono c (evalDeps ev deps c).2 := by
  induction deps with
  | nil =>
    intro c hc
    refine And.intro hc (And.intro ?_ (fun _ h => h))
    intro d hd
    cases hd
  | cons d ds ih =>
    intro c hc
    have h1 := hev d.1 c hc
    have h2 := ih (ev d.1 c).2 h1.1
    simp only [evalDeps]
    refine ⟨h2.1, ?_, fun x hx => h2.2.2 x (h1.2.2 x hx)⟩
    intro d' hd'
    cases hd' with
    | head => exact h1.2.1.mono h2.2.2
    | tail _ hd' => exact h2.2.1 d' hd'

theorem lookup_cons_cases (l : List (Mod × Res)) (m y : Mod) (r : Res)
    (h : ((m, r) :: l).lookup y ≠ none) : y = m ∨ l.lookup y ≠ none := by
  by_cases e : y = m
  · exact .inl e
  · have hb : (y == m) = false := by simp [e]
    rw [List.lookup_cons, hb] at h
    exact .inr h

theorem evalM_closed (srcs : Srcs) :
    ∀ f A m c, A.length < f → Closed srcs A c →
      Closed srcs A (evalM srcs f A m c).2 ∧ Done srcs A (evalM srcs f A m c).2 m := by
  intro f
  induction f with
  | zero => intro A m c h; omega
  | succ f ih =>
    intro A m c hf hc
    unfold evalM
    cases hmemo : c.memo.lookup m with
    | some r => exact ⟨hc, .inl (by rw [hmemo]; simp)⟩
    | none =>
      simp only []
      cases hl : srcs.lookup m with
      | none =>
        simp only []
        refine ⟨?_, .inl (lookup_cons_ne_none _ _ _ _ (.inl rfl))⟩
        intro y s d hy hs hd
        cases lookup_cons_cases _ _ _ _ hy with
        | inl e => subst e; rw [hl] at hs; cases hs
        | inr hy' =>
          cases hc y s d hy' hs hd with
          | inl h => exact .inl (lookup_cons_ne_none _ _ _ _ (.inr h))
          | inr h => exact .inr h
      | some s =>
        simp only []
        by_cases hin : m ∈ A
        · rw [if_pos hin]
          have hlen := length_filter_ne_lt A m hin
          have hc' : Closed srcs (A.filter (· != m)) c := by
            intro y s' d hy hs hd
            cases hc y s' d hy hs hd with
            | inl h => exact .inl h
            | inr h => exact .inr ⟨fun hx => h.1 ((mem_filter_ne A m d.1).mp hx).1, h.2⟩
          have hd := evalDeps_closed srcs (A.filter (· != m)) (evalM srcs f (A.filter (· != m)))
            (by
              intro d c' hcc
              have := ih (A.filter (· != m)) d c' (by omega) hcc
              exact ⟨this.1, this.2, (evalM_R srcs f _ d c').1⟩)
            s.deps c hc'
          generalize (evalDeps (evalM srcs f (A.filter (· != m))) s.deps c) = rs at hd
          simp only []
          -- answered below `m` ⇒ answered once `m` is memoised
          have lift : ∀ x l, Done srcs (A.filter (· != m)) rs.2 x →
              Done srcs A ⟨(m, combine s rs.1) :: rs.2.memo, l⟩ x := by
            intro x l hx
            cases hx with
            | inl h => exact .inl (lookup_cons_ne_none _ _ _ _ (.inr h))
            | inr h =>
              by_cases e : x = m
              · exact .inl (lookup_cons_ne_none _ _ _ _ (.inl e))
              · exact .inr ⟨fun hxA => h.1 ((mem_filter_ne A m x).mpr ⟨hxA, e⟩), h.2⟩
          refine ⟨?_, .inl (lookup_cons_ne_none _ _ _ _ (.inl rfl))⟩
          intro y s' d hy hs hdm
          apply lift
          cases lookup_cons_cases _ _ _ _ hy with
          | inl e =>
            subst e
            rw [hl] at hs
            cases hs
            exact hd.2.1 d hdm
          | inr hy' => exact hd.1 y s' d hy' hs hdm
        · rw [if_neg hin]
          exact ⟨hc, .inr ⟨hin, by rw [hl]; simp⟩⟩

/-- Between evaluations: every import of a memoised module (that has a source) is memoised. -/
def ClosedTop (srcs : Srcs) (c : Cache) : Prop :=
  ∀ y s d, c.memo.lookup y ≠ none → srcs.lookup y = some s → d ∈ s.deps → c.memo.lookup d.1 ≠ none

theorem closedTop_reach {srcs : Srcs} {c : Cache} (hc : ClosedTop srcs c) {y z : Mod}
    (hr : Reach srcs y z) : c.memo.lookup y ≠ none → c.memo.lookup z ≠ none := by
  induction hr with
  | refl x => exact fun h => h
  | @step x y z e _ ih =>
    intro hx
    obtain ⟨s, u, hl, hm⟩ := e
    exact ih (hc x s (y, u) hx hl hm)

/-! ### The invariant of the engine as it is -/

/-- `late`: modules added as new while already memoised as missing in the current revision. -/
def Inv2 (st : St) (late : List Mod) : Prop :=
  Good (effSrcs st.srcs late) st.cache ∧ ClosedTop (effSrcs st.srcs late) st.cache ∧
  ∀ x ∈ late, st.cache.memo.lookup x ≠ none

theorem inv2_init : Inv2 St.init [] :=
  ⟨good_empty _ _, fun _ _ _ h => absurd rfl h, fun _ h => by cases h⟩

theorem getM_eff (st : St) (late : List Mod) (m : Mod) (h : Inv2 st late) :
    (getM st m).1 = spec (effSrcs st.srcs late) m ∧ Inv2 (getM st m).2 late := by
  obtain ⟨hg, hc, hl⟩ := h
  have hagree : ∀ x, st.cache.memo.lookup x = none →
      st.srcs.lookup x = (effSrcs st.srcs late).lookup x := by
    intro x hx
    rw [lookup_eff]
    by_cases hxl : x ∈ late
    · exact absurd hx (hl x hxl)
    · simp [hxl]
  have hsub : ∀ y, y ∉ st.srcs.mods → (effSrcs st.srcs late).lookup y = none := by
    intro y hy
    rw [lookup_eff, not_mem_mods_lookup st.srcs y hy]
    simp
  have hlen : st.srcs.mods.length < st.srcs.length + 1 := by simp [Srcs.mods]
  have e : getM st m =
      ((evalM (effSrcs st.srcs late) (st.srcs.length + 1) st.srcs.mods m st.cache).1,
       { st with cache := (evalM (effSrcs st.srcs late) (st.srcs.length + 1) st.srcs.mods m st.cache).2 }) := by
    unfold getM
    rw [evalM_congr st.srcs (effSrcs st.srcs late) _ _ m st.cache hagree]
  have h1 := evalM_correct (effSrcs st.srcs late) (st.srcs.length + 1) st.srcs.mods m st.cache hlen hg
    (fun y hy hs => absurd (hsub y hy) hs)
  have h2 := evalM_closed (effSrcs st.srcs late) (st.srcs.length + 1) st.srcs.mods m st.cache hlen
    (fun y s d hy hs hd => .inl (hc y s d hy hs hd))
  have h3 := (evalM_R (effSrcs st.srcs late) (st.srcs.length + 1) st.srcs.mods m st.cache).1
  rw [e]
  refine ⟨h1.1, h1.2, ?_, fun x hx => h3 x (hl x hx)⟩
  intro y s d hy hs hd
  cases h2.1 y s d hy hs hd with
  | inl h => exact h
  | inr h => exact absurd (hsub d.1 h.1) h.2

theorem good_congr {srcs srcs' : Srcs} {c : Cache} (hc : ClosedTop srcs c)
    (h : ∀ z, c.memo.lookup z ≠ none → srcs.lookup z = srcs'.lookup z) (hg : Good srcs c) :
    Good srcs' c := by
  intro y r hy
  rw [hg y r hy]
  apply spec_congr
  intro z hz
  exact h z (closedTop_reach hc hz (by rw [hy]; simp))

theorem closedTop_congr {srcs srcs' : Srcs} {c : Cache}
    (h : ∀ z, c.memo.lookup z ≠ none → srcs.lookup z = srcs'.lookup z) (hc : ClosedTop srcs c) :
    ClosedTop srcs' c := by
  intro y s d hy hs hd
  rw [← h y hy] at hs
  exact hc y s d hy hs hd

/-- The ghost bookkeeping of `add_module` as it is: which modules are late after this step. -/
def lateStep (st : St) (late : List Mod) : Op → List Mod
  | .get _ => late
  | .set m t =>
    match st.srcs.lookup m with
    | some old => if old = t then late else []
    | none => if (st.cache.memo.lookup m).isSome then m :: late else late

def lateFrom : St → List Mod → List Op → List Mod
  | _, late, [] => late
  | st, late, op :: ops => lateFrom (step false st op) (lateStep st late op) ops

/-- The late modules after a history on a new VM. -/
def lateMods (ops : List Op) : List Mod := lateFrom St.init [] ops

theorem step_inv2 (st : St) (late : List Mod) (op : Op) (h : Inv2 st late) :
    Inv2 (step false st op) (lateStep st late op) := by
  cases op with
  | get m => exact (getM_eff st late m h).2
  | set m t =>
    obtain ⟨hg, hc, hl⟩ := h
    simp only [step, setSrc, lateStep]
    cases hlk : st.srcs.lookup m with
    | some old =>
      simp only []
      by_cases e : old = t
      · rw [if_pos e, if_pos e]; exact ⟨hg, hc, hl⟩
      · rw [if_neg e, if_neg e]
        exact ⟨good_empty _ _, fun _ _ _ h => absurd rfl h, fun _ h => by cases h⟩
    | none =>
      simp only [Bool.false_eq_true, if_false]
      cases hmm : st.cache.memo.lookup m with
      | some r =>
        -- late: the effective sources do not change
        simp only [Option.isSome_some, if_true]
        have heq : ∀ z, (effSrcs st.srcs late).lookup z =
            (effSrcs (st.srcs.set m t) (m :: late)).lookup z := by
          intro z
          rw [lookup_eff, lookup_eff, lookup_set]
          by_cases ez : z = m
          · subst ez; simp [hlk]
          · simp [ez]
        refine ⟨good_congr hc (fun z _ => heq z) hg, closedTop_congr (fun z _ => heq z) hc, ?_⟩
        intro x hx
        cases hx with
        | head => show st.cache.memo.lookup m ≠ none; rw [hmm]; simp
        | tail _ hx => exact hl x hx
      | none =>
        -- never demanded in this revision: no memoised module reaches it
        simp only [Option.isSome_none, Bool.false_eq_true, if_false]
        have heq : ∀ z, st.cache.memo.lookup z ≠ none → (effSrcs st.srcs late).lookup z =
            (effSrcs (st.srcs.set m t) late).lookup z := by
          intro z hz
          have ez : z ≠ m := fun e => hz (e ▸ hmm)
          rw [lookup_eff, lookup_eff, lookup_set]
          simp [ez]
        exact ⟨good_congr hc heq hg, closedTop_congr heq hc, hl⟩

theorem replay_inv2 (ops : List Op) :
    ∀ st late, Inv2 st late → Inv2 (replay false ops st) (lateFrom st late ops) := by
  induction ops with
  | nil => intro st late h; exact h
  | cons op ops ih => intro st late h; exact ih _ _ (step_inv2 st late op h)

/-! ### When do the late modules matter? -/

/-- If every late module answers "missing" on a fresh VM anyway, leaving them out changes nothing. -/
theorem evalA_eff (srcs : Srcs) (late : List Mod) (hmiss : ∀ x ∈ late, spec srcs x = .err .missing) :
    ∀ f A m, A.length < f → Chain srcs A m →
      evalA srcs f A m = evalA (effSrcs srcs late) f A m := by
  intro f
  induction f with
  | zero => intro A m h; omega
  | succ f ih =>
    intro A m hf hch
    by_cases hml : m ∈ late
    · have hr : evalA (effSrcs srcs late) (f + 1) A m = .err .missing := by
        unfold evalA
        rw [lookup_eff, if_pos hml]
      rw [hr, ← hmiss m hml]
      unfold spec
      apply evalA_agree'
      · intro y hy hs
        constructor
        · intro _; exact (mem_mods_iff srcs y).mpr hs
        · intro _
          apply Classical.byContradiction
          intro hyA
          obtain ⟨d, he, hrd⟩ := hch y hyA hs
          have hcyc : ReachesCycle srcs m := ⟨y, hy, ⟨d, he, hrd.trans hy⟩⟩
          have := (spec_cycle_iff srcs m).mpr hcyc
          rw [hmiss m hml] at this
          cases this
      · exact hf
      · simp [Srcs.mods]
    · have hlk : (effSrcs srcs late).lookup m = srcs.lookup m := by
        rw [lookup_eff, if_neg hml]
      unfold evalA
      rw [hlk]
      cases hl : srcs.lookup m with
      | none => rfl
      | some s =>
        simp only []
        by_cases hin : m ∈ A
        · rw [if_pos hin, if_pos hin]
          congr 1
          apply List.map_congr_left
          intro d hd
          congr 1
          apply ih
          · have := length_filter_ne_lt A m hin; omega
          · intro y hy hs
            rw [mem_filter_ne] at hy
            have hed : Edge srcs m d.1 := ⟨s, d.2, hl, by cases d; exact hd⟩
            by_cases e : y = m
            · subst e; exact ⟨d.1, hed, .refl _⟩
            · have hy' : y ∉ A := fun h => hy ⟨h, e⟩
              obtain ⟨d', he, hr⟩ := hch y hy' hs
              exact ⟨d', he, hr.trans (.step hed (.refl _))⟩
        · rw [if_neg hin, if_neg hin]

theorem spec_eff_eq (srcs : Srcs) (late : List Mod) (hmiss : ∀ x ∈ late, spec srcs x = .err .missing)
    (m : Mod) : spec srcs m = spec (effSrcs srcs late) m := by
  unfold spec
  rw [evalA_eff srcs late hmiss (srcs.length + 1) srcs.mods m (by simp [Srcs.mods])
    (fun y hy hs => absurd (not_mem_mods_lookup srcs y hy) hs)]
  apply evalA_agree'
  · intro y _ hs
    have hs' : srcs.lookup y ≠ none := by
      intro hn
      rw [lookup_eff] at hs
      by_cases hyl : y ∈ late
      · simp [hyl] at hs
      · simp [hyl, hn] at hs
    rw [mem_mods_iff, mem_mods_iff]
    exact ⟨fun _ => hs, fun _ => hs'⟩
  · simp [Srcs.mods]
  · simp [Srcs.mods]

/-- The engine in a state with late modules `late` is stale for some module iff some late module
    would NOT answer "missing module" on a fresh VM given the current sources. -/
theorem stale_iff_late (st : St) (late : List Mod) (h : Inv2 st late) :
    (∃ m, (getM st m).1 ≠ spec st.srcs m) ↔ ∃ x ∈ late, spec st.srcs x ≠ .err .missing := by
  constructor
  · intro ⟨m, hm⟩
    apply Classical.byContradiction
    intro hno
    apply hm
    rw [(getM_eff st late m h).1]
    symm
    apply spec_eff_eq
    intro x hx
    apply Classical.byContradiction
    intro hne
    exact hno ⟨x, hx, hne⟩
  · intro ⟨x, hx, hne⟩
    refine ⟨x, ?_⟩
    rw [(getM_eff st late x h).1, spec_missing _ x (by rw [lookup_eff, if_pos hx])]
    exact fun e => hne e.symm

/-- A module that reaches no late module is answered as by a fresh VM. -/
theorem fresh_of_no_late_reachable (st : St) (late : List Mod) (h : Inv2 st late) (m : Mod)
    (hr : ∀ y, Reach st.srcs m y → y ∉ late) : (getM st m).1 = spec st.srcs m := by
  rw [(getM_eff st late m h).1]
  symm
  apply spec_congr
  intro y hy
  rw [lookup_eff, if_neg (hr y hy)]

/-! ### "missing module", syntactically -/

theorem combine_eq_missing (s : Src) (rs : List (Res × Bool)) (h : combine s rs = .err .missing) :
    ∃ p ∈ rs, p.1 = Res.err .missing := by
  unfold combine at h
  by_cases hc : hasErr .cycle rs = true
  · rw [hc] at h; simp at h
  · have hc' : hasErr .cycle rs = false := by simpa using hc
    rw [hc'] at h
    simp only [Bool.false_eq_true, if_false] at h
    by_cases hm : hasErr .missing rs = true
    · unfold hasErr at hm
      rw [List.any_eq_true] at hm
      obtain ⟨p, hp, he⟩ := hm
      exact ⟨p, hp, by simpa using he⟩
    · exfalso
      have hm' : hasErr .missing rs = false := by simpa using hm
      rw [hm'] at h
      simp only [Bool.false_eq_true, if_false] at h
      split at h
      · cases h
      · cases hk : s.kind <;> rw [hk] at h <;> cases h

theorem evalA_missing_sound (srcs : Srcs) :
    ∀ f A m, evalA srcs f A m = .err .missing → ∃ y, Reach srcs m y ∧ srcs.lookup y = none := by
  intro f
  induction f with
  | zero => intro A m h; unfold evalA at h; cases h
  | succ f ih =>
    intro A m h
    unfold evalA at h
    cases hl : srcs.lookup m with
    | none => exact ⟨m, .refl m, hl⟩
    | some s =>
      rw [hl] at h
      simp only [] at h
      by_cases hin : m ∈ A
      · rw [if_pos hin] at h
        obtain ⟨p, hp, he⟩ := combine_eq_missing s _ h
        obtain ⟨d, hd, hpd⟩ := List.mem_map.mp hp
        subst hpd
        simp only [] at he
        obtain ⟨y, hr, hn⟩ := ih _ d.1 he
        exact ⟨y, .step ⟨s, d.2, hl, by cases d; exact hd⟩ hr, hn⟩
      · rw [if_neg hin] at h; cases h

theorem combine_missing (s : Src) (rs : List (Res × Bool)) (hc : ∀ p ∈ rs, p.1 ≠ Res.err .cycle)
    (hm : ∃ p ∈ rs, p.1 = Res.err .missing) : combine s rs = .err .missing := by
  have h1 : hasErr .cycle rs = false := by
    unfold hasErr
    rw [List.any_eq_false]
    intro p hp
    have := hc p hp
    simpa using this
  have h2 : hasErr .missing rs = true := by
    obtain ⟨p, hp, he⟩ := hm
    unfold hasErr
    rw [List.any_eq_true]
    exact ⟨p, hp, by simp [he]⟩
  simp [combine, h1, h2]

/-- A fresh VM answers "missing module" for `m` exactly when `m` reaches a module without source
    and no import cycle. -/
theorem spec_missing_iff (srcs : Srcs) (m : Mod) :
    spec srcs m = .err .missing ↔
      (¬ ReachesCycle srcs m ∧ ∃ y, Reach srcs m y ∧ srcs.lookup y = none) := by
  constructor
  · intro h
    refine ⟨fun hc => ?_, evalA_missing_sound srcs _ _ m h⟩
    rw [(spec_cycle_iff srcs m).mpr hc] at h
    cases h
  · intro ⟨hnc, y, hr, hn⟩
    induction hr with
    | refl x => exact spec_missing srcs x hn
    | @step x y z e hyz ih =>
      obtain ⟨s, u, hl, hm⟩ := e
      have hed : ∀ d ∈ s.deps, Edge srcs x d.1 := fun d hd => ⟨s, d.2, hl, by cases d; exact hd⟩
      rw [spec_unfold srcs x s hl]
      apply combine_missing
      · intro p hp hpc
        obtain ⟨d, hd, hpd⟩ := List.mem_map.mp hp
        subst hpd
        obtain ⟨w, hw, hcw⟩ := (spec_cycle_iff srcs d.1).mp hpc
        exact hnc ⟨w, .step (hed d hd) hw, hcw⟩
      · refine ⟨(spec srcs y, u), List.mem_map.mpr ⟨(y, u), hm, rfl⟩, ?_⟩
        apply ih _ hn
        intro ⟨w, hw, hcw⟩
        exact hnc ⟨w, .step ⟨s, u, hl, hm⟩ hw, hcw⟩

/-! ### Cycles, for the engine as it is -/

theorem getM_cycle_iff (st : St) (late : List Mod) (h : Inv2 st late) (m : Mod) :
    (getM st m).1 = .err .cycle ↔ ReachesCycle (effSrcs st.srcs late) m := by
  rw [(getM_eff st late m h).1]
  exact spec_cycle_iff _ m

/-! ### Every (revision, module) pair occurs at most once in the trace of body runs -/

/-- The bodies run by each step of a history, tagged with the revision they ran in. -/
def runsOf (fixed : Bool) : St → List Op → List (Nat × Mod)
  | _, [] => []
  | st, op :: ops =>
    let st' := step fixed st op
    let new := if st'.rev = st.rev then st'.cache.log.drop st.cache.log.length else st'.cache.log
    new.map (fun x => (st'.rev, x)) ++ runsOf fixed st' ops

theorem step_rev (fixed : Bool) (st : St) (op : Op) :
    (step fixed st op).rev = st.rev ∨
      ((step fixed st op).rev = st.rev + 1 ∧ (step fixed st op).cache.log = []) := by
  cases op with
  | get m => exact .inl rfl
  | set m t =>
    simp only [step, setSrc]
    cases st.srcs.lookup m with
    | none => cases fixed <;> simp [St.bump]
    | some old =>
      simp only []
      split
      · exact .inl rfl
      · exact .inr ⟨rfl, rfl⟩

theorem nodup_map_tag (r : Nat) (l : List Mod) (h : l.Nodup) :
    (l.map (fun x => (r, x))).Nodup := by
  induction l with
  | nil => exact List.nodup_nil
  | cons a l ih =>
    rw [List.nodup_cons] at h
    rw [List.map_cons, List.nodup_cons]
    refine ⟨?_, ih h.2⟩
    intro hm
    obtain ⟨x, hx, e⟩ := List.mem_map.mp hm
    cases e
    exact h.1 hx

theorem runsOf_nodup (fixed : Bool) (ops : List Op) :
    ∀ st, J st.cache →
      (st.cache.log.map (fun x => (st.rev, x)) ++ runsOf fixed st ops).Nodup ∧
      ∀ p ∈ runsOf fixed st ops, st.rev ≤ p.1 := by
  induction ops with
  | nil =>
    intro st hj
    simp only [runsOf, List.append_nil]
    refine ⟨?_, fun _ h => by cases h⟩
    exact nodup_map_tag _ _ hj.1
  | cons op ops ih =>
    intro st hj
    have hj' := step_J fixed st op hj
    obtain ⟨ih1, ih2⟩ := ih (step fixed st op) hj'
    simp only [runsOf]
    cases step_rev fixed st op with
    | inl hr =>
      obtain ⟨t, ht⟩ := step_log_prefix fixed st op hr
      rw [if_pos hr]
      have hd : (step fixed st op).cache.log.drop st.cache.log.length = t := by
        rw [← ht]; simp
      rw [hd]
      constructor
      · rw [← ht, hr, List.map_append, List.append_assoc] at ih1
        rw [hr]
        exact ih1
      · intro p hp
        rw [List.mem_append] at hp
        cases hp with
        | inl hp =>
          obtain ⟨x, _, rfl⟩ := List.mem_map.mp hp
          simp [hr]
        | inr hp => have := ih2 p hp; omega
    | inr hr =>
      obtain ⟨hr, hlog⟩ := hr
      have hne : ¬ (step fixed st op).rev = st.rev := by omega
      rw [if_neg hne, hlog]
      rw [hlog] at ih1
      simp only [List.map_nil, List.nil_append] at ih1 ⊢
      constructor
      · rw [List.nodup_append]
        refine ⟨nodup_map_tag _ _ hj.1, ih1, ?_⟩
        intro a ha b hb e
        subst e
        obtain ⟨x, _, rfl⟩ := List.mem_map.mp ha
        have := ih2 _ hb
        simp only at this
        omega
      · intro p hp
        have := ih2 p hp
        omega

end GluonModel.Memo.Proofs
