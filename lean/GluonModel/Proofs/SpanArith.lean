import GluonModel.SpanArith

namespace GluonModel.SpanArith.Proofs
open GluonModel.SpanArith

theorem mk'_inside {lo hi a b : Nat} (ha : lo ≤ a ∧ a ≤ hi) (hb : lo ≤ b ∧ b ≤ hi) :
    (Span.mk' a b).Inside lo hi := by
  unfold Span.mk' Span.Inside
  split <;> simp <;> omega

theorem shrink_inside {lo hi : Nat} {e l : Span} (he : e.Inside lo hi) (hl : l.Inside lo hi) :
    (shrink e l).Inside lo hi := by
  unfold Span.Inside at he hl
  exact mk'_inside (by omega) (by omega)

theorem fromLalrpop_inside {lo hi : Nat} (hlh : lo ≤ hi) (e : RawErr) (h : e.Plausible lo hi) :
    (fromLalrpop ⟨lo, hi⟩ e).Inside lo hi := by
  cases e with
  | invalidToken loc => exact mk'_inside h h
  | unrecognizedToken l r => exact mk'_inside ⟨h.1, h.2.1⟩ ⟨h.2.2.1, h.2.2.2⟩
  | unrecognizedEof loc =>
    simp only [fromLalrpop]
    split
    · exact mk'_inside ⟨hlh, Nat.le_refl _⟩ ⟨hlh, Nat.le_refl _⟩
    · rename_i hz
      rcases h with h | h
      · exact absurd h hz
      · exact mk'_inside h h
  | extraToken l r => exact mk'_inside ⟨h.1, h.2.1⟩ ⟨h.2.2.1, h.2.2.2⟩
  | user s => exact h

theorem span_inside_of_all {lo hi : Nat} : ∀ t : Tree, t.AllInside lo hi → t.span.Inside lo hi
  | .leaf _, h => by simpa [Tree.AllInside, Tree.span] using h
  | .node _ _, h => by
    simp only [Tree.AllInside] at h
    exact h.1

theorem getLast_inside {lo hi : Nat} : ∀ (cs : List Tree) (l : Tree), AllInsideList lo hi cs →
    cs.getLast? = some l → l.AllInside lo hi
  | [], _, _, h => by simp at h
  | [t], l, ha, h => by
    simp at h; subst h
    simp only [AllInsideList] at ha; exact ha.1
  | _ :: t :: ts, l, ha, h => by
    simp only [AllInsideList] at ha
    rw [List.getLast?_cons_cons] at h
    exact getLast_inside (t :: ts) l (by simp only [AllInsideList]; exact ha.2) h

mutual
theorem shrinkTree_inside {lo hi : Nat} : ∀ t : Tree, t.AllInside lo hi → (shrinkTree t).AllInside lo hi
  | .leaf s, h => by simpa [shrinkTree] using h
  | .node s cs, h => by
    simp only [Tree.AllInside] at h
    have hcs := shrinkList_inside cs h.2
    simp only [shrinkTree]
    split
    · rename_i l hl
      simp only [Tree.AllInside]
      exact ⟨shrink_inside h.1 (span_inside_of_all _ (getLast_inside _ _ hcs hl)), hcs⟩
    · simp only [Tree.AllInside]
      exact ⟨h.1, hcs⟩
theorem shrinkList_inside {lo hi : Nat} : ∀ cs : List Tree, AllInsideList lo hi cs →
    AllInsideList lo hi (shrinkList cs)
  | [], _ => by simp [shrinkList, AllInsideList]
  | t :: ts, h => by
    simp only [AllInsideList] at h
    simp only [shrinkList, AllInsideList]
    exact ⟨shrinkTree_inside t h.1, shrinkList_inside ts h.2⟩
end

end GluonModel.SpanArith.Proofs
