import GluonModel.Surf
namespace GluonModel.Surf.Proofs
open GluonModel.Surf

theorem eval_fuel_mono (n m : Nat) (env : Env) (e : Expr) (r : Res)
    (h : eval n env e = r) (hr : r ≠ .error .fuel) (hm : n ≤ m) : eval m env e = r := by
  sorry

theorem eval_deterministic (n m : Nat) (env : Env) (e : Expr) (r₁ r₂ : Res)
    (h₁ : eval n env e = r₁) (h₂ : eval m env e = r₂)
    (hr₁ : r₁ ≠ .error .fuel) (hr₂ : r₂ ≠ .error .fuel) : r₁ = r₂ := by
  sorry

theorem app_args_left_to_right (k n : Nat) (env : Env) (f : Expr) (fv : Val)
    (pre : List Expr) (bad : Expr) (post : List Expr) (vs : List Val) (err : Err)
    (hf : eval k env f = .ok fv)
    (hpre : evalList k env pre = .ok vs) (hbad : eval k env bad = .error err)
    (herr : err ≠ .fuel) (hn : k + pre.length + 1 ≤ n) :
    eval (n + 1) env (.app f (pre ++ bad :: post)) = .error err := by
  sorry

theorem prim_in_range (op : String) (a b : Int) (k : Int) (h : primOp op a b = .ok (.int k)) :
    minInt ≤ k ∧ k ≤ maxInt := by
  sorry

theorem over_application (n : Nat) (params : List String) (body : Expr) (cenv : Env)
    (xs ys : List Val) (hx : xs.length = params.length) (hy : ys ≠ []) :
    apply (n + 1) (.clos params body cenv) (xs ++ ys) =
      (match eval n (bindParams params xs cenv) body with
       | .error e => .error e
       | .ok r => apply n r ys) := by
  sorry

end GluonModel.Surf.Proofs
