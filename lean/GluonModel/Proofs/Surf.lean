import GluonModel.Surf
namespace GluonModel.Surf.Proofs
open GluonModel.Surf

/-- The four "fuel `n` is below fuel `m`" statements, in the form
    "either out of fuel at `n`, or same answer at `m`". -/
private def Below (n m : Nat) : Prop :=
  (∀ env e, eval n env e = .error .fuel ∨ eval n env e = eval m env e) ∧
  (∀ env es, evalList n env es = .error .fuel ∨ evalList n env es = evalList m env es) ∧
  (∀ env v alts, evalAlts n env v alts = .error .fuel ∨ evalAlts n env v alts = evalAlts m env v alts) ∧
  (∀ f args, apply n f args = .error .fuel ∨ apply n f args = apply m f args)

/-- use an induction hypothesis on a sub-call: either it ran out of fuel (and then so does the
    whole), or rewrite it to the larger fuel -/
local macro "sub " h:term : tactic =>
  `(tactic| (have hh := $h; rcases hh with h1 | h1; (· simp [h1]); rw [h1]; clear h1))

private theorem below_succ {n m : Nat} (ih : Below n m) : Below (n + 1) (m + 1) := by
  obtain ⟨ihE, ihL, ihA, ihP⟩ := ih
  refine ⟨?_, ?_, ?_, ?_⟩
  · intro env e
    cases e with
    | int k => simp [eval]
    | str s => simp [eval]
    | var x => simp [eval]
    | lam xs body => simp [eval]
    | app f args =>
      simp only [eval]
      sub ihE env f
      split
      · simp
      · sub ihL env args
        split
        · simp
        · exact ihP _ _
    | let_ p e₁ e₂ =>
      simp only [eval]
      sub ihE env e₁
      split
      · simp
      · split
        · exact ihE _ _
        · simp
    | letrec binds body =>
      simp only [eval]
      exact ihE _ _
    | ite c a b =>
      simp only [eval]
      sub ihE env c
      split
      · simp
      · exact ihE _ _
      · exact ihE _ _
      · simp
    | prim op a b =>
      simp only [eval]
      sub ihE env a
      split
      · simp
      · sub ihE env b
        split <;> simp
      · simp
    | and_ a b =>
      simp only [eval]
      sub ihE env a
      split
      · simp
      · simp
      · exact ihE _ _
      · simp
    | or_ a b =>
      simp only [eval]
      sub ihE env a
      split
      · simp
      · simp
      · exact ihE _ _
      · simp
    | ctor tag arity => simp [eval]
    | match_ s alts =>
      simp only [eval]
      sub ihE env s
      split
      · simp
      · exact ihA _ _ _
    | record fields base layout =>
      simp only [eval]
      sub ihL env fields
      split
      · simp
      · split
        · simp
        · rename_i be
          sub ihE env be
          split <;> simp
    | proj e i =>
      simp only [eval]
      sub ihE env e
      split <;> simp
    | array es =>
      simp only [eval]
      sub ihL env es
      split <;> simp
    | error msg => simp [eval]
  · intro env es
    cases es with
    | nil => simp [evalList]
    | cons e es =>
      simp only [evalList]
      sub ihE env e
      split
      · simp
      · sub ihL env es
        split <;> simp
  · intro env v alts
    cases alts with
    | nil => simp [evalAlts]
    | cons a alts =>
      obtain ⟨p, e⟩ := a
      simp only [evalAlts]
      split
      · exact ihE _ _
      · exact ihA _ _ _
  · intro f args
    cases args with
    | nil => simp [apply]
    | cons a as =>
      cases f with
      | clos params body cenv =>
        simp only [apply]
        split
        · simp
        · generalize bindParams _ _ _ = env'
          sub ihE env' body
          split
          · simp
          · exact ihP _ _
      | recclos group idx cenv =>
        simp only [apply]
        split
        · simp
        · split
          · rename_i body _ _
            sub ihE (recEnv group cenv) body
            split
            · simp
            · exact ihP _ _
          · split
            · simp
            · rename_i body _ _ _
              generalize bindParams _ _ _ = env'
              sub ihE env' body
              split
              · simp
              · exact ihP _ _
      | ctorfn tag arity =>
        simp only [apply]
        split
        · simp
        · split <;> simp
      | pap g args₀ =>
        simp only [apply]
        exact ihP _ _
      | int k => simp [apply]
      | str s => simp [apply]
      | data t fs => simp [apply]
      | arr xs => simp [apply]

private theorem below_zero (m : Nat) : Below 0 m := by
  refine ⟨?_, ?_, ?_, ?_⟩ <;> intros <;> left
  · simp [eval]
  · simp [evalList]
  · simp [evalAlts]
  · simp [apply]

private theorem below_add (n d : Nat) : Below n (n + d) := by
  induction n with
  | zero => exact below_zero _
  | succ n ih =>
    have : n + 1 + d = (n + d) + 1 := by omega
    rw [this]
    exact below_succ ih

private theorem below_of_le {n m : Nat} (h : n ≤ m) : Below n m := by
  obtain ⟨d, rfl⟩ := Nat.exists_eq_add_of_le h
  exact below_add n d

theorem eval_fuel_mono (n m : Nat) (env : Env) (e : Expr) (r : Res)
    (h : eval n env e = r) (hr : r ≠ .error .fuel) (hm : n ≤ m) : eval m env e = r := by
  rcases (below_of_le hm).1 env e with h1 | h1
  · exact absurd (h.symm.trans h1) hr
  · exact h1.symm.trans h

private theorem evalList_fuel_mono (n m : Nat) (env : Env) (es : List Expr)
    (r : Except Err (List Val))
    (h : evalList n env es = r) (hr : r ≠ .error .fuel) (hm : n ≤ m) : evalList m env es = r := by
  rcases (below_of_le hm).2.1 env es with h1 | h1
  · exact absurd (h.symm.trans h1) hr
  · exact h1.symm.trans h

theorem eval_deterministic (n m : Nat) (env : Env) (e : Expr) (r₁ r₂ : Res)
    (h₁ : eval n env e = r₁) (h₂ : eval m env e = r₂)
    (hr₁ : r₁ ≠ .error .fuel) (hr₂ : r₂ ≠ .error .fuel) : r₁ = r₂ := by
  rcases Nat.le_total n m with hle | hle
  · exact (eval_fuel_mono n m env e r₁ h₁ hr₁ hle).symm.trans h₂
  · exact h₁.symm.trans (eval_fuel_mono m n env e r₂ h₂ hr₂ hle)

private theorem evalList_first_failure (k : Nat) (env : Env) (bad : Expr) (post : List Expr)
    (err : Err) (hbad : eval k env bad = .error err) (herr : err ≠ .fuel) :
    ∀ (pre : List Expr) (vs : List Val) (j : Nat), evalList k env pre = .ok vs →
      k + pre.length + 1 ≤ j → evalList j env (pre ++ bad :: post) = .error err := by
  intro pre
  induction pre with
  | nil =>
    intro vs j _ hj
    obtain ⟨j', rfl⟩ : ∃ j', j = j' + 1 := ⟨j - 1, by simp at hj; omega⟩
    have hb : eval j' env bad = .error err :=
      eval_fuel_mono k j' env bad _ hbad (by simpa using herr) (by simp at hj; omega)
    simp [evalList, hb]
  | cons p ps ih =>
    intro vs j hpre hj
    obtain ⟨j', rfl⟩ : ∃ j', j = j' + 1 := ⟨j - 1, by omega⟩
    obtain ⟨k', rfl⟩ : ∃ k', k = k' + 1 := by
      cases k with
      | zero => simp [evalList] at hpre
      | succ k' => exact ⟨k', rfl⟩
    simp only [evalList] at hpre
    simp only [List.length_cons] at hj
    split at hpre
    · cases hpre
    · rename_i v hp
      split at hpre
      · cases hpre
      · rename_i vs' hps
        have hp' : eval j' env p = .ok v :=
          eval_fuel_mono k' j' env p _ hp (by simp) (by omega)
        have hps' : evalList (k' + 1) env ps = .ok vs' :=
          evalList_fuel_mono k' (k' + 1) env ps _ hps (by simp) (by omega)
        have := ih vs' j' hps' (by omega)
        simp [evalList, hp', this]

theorem app_args_left_to_right (k n : Nat) (env : Env) (f : Expr) (fv : Val)
    (pre : List Expr) (bad : Expr) (post : List Expr) (vs : List Val) (err : Err)
    (hf : eval k env f = .ok fv)
    (hpre : evalList k env pre = .ok vs) (hbad : eval k env bad = .error err)
    (herr : err ≠ .fuel) (hn : k + pre.length + 1 ≤ n) :
    eval (n + 1) env (.app f (pre ++ bad :: post)) = .error err := by
  have hf' : eval n env f = .ok fv := eval_fuel_mono k n env f _ hf (by simp) (by omega)
  have hl := evalList_first_failure k env bad post err hbad herr pre vs n hpre hn
  simp [eval, hf', hl]

private theorem checked_in_range {x k : Int} (h : checked x = .ok (.int k)) :
    minInt ≤ k ∧ k ≤ maxInt := by
  unfold checked at h
  split at h
  · rename_i hx
    injection h with h
    injection h with h
    subst h
    exact hx
  · cases h

theorem prim_in_range (op : String) (a b : Int) (k : Int) (h : primOp op a b = .ok (.int k)) :
    minInt ≤ k ∧ k ≤ maxInt := by
  unfold primOp at h
  split at h
  · exact checked_in_range h
  split at h
  · exact checked_in_range h
  split at h
  · exact checked_in_range h
  split at h
  · split at h
    · cases h
    · exact checked_in_range h
  split at h
  · simp [boolVal] at h
  split at h
  · simp [boolVal] at h
  · cases h

theorem over_application (n : Nat) (params : List String) (body : Expr) (cenv : Env)
    (xs ys : List Val) (hx : xs.length = params.length) (hy : ys ≠ []) :
    apply (n + 1) (.clos params body cenv) (xs ++ ys) =
      (match eval n (bindParams params xs cenv) body with
       | .error e => .error e
       | .ok r => apply n r ys) := by
  obtain ⟨a, as, hcons⟩ : ∃ a as, xs ++ ys = a :: as := by
    cases hxy : xs ++ ys with
    | nil => simp at hxy; exact absurd hxy.2 hy
    | cons a as => exact ⟨a, as, rfl⟩
  have htake : (xs ++ ys).take params.length = xs := by
    rw [← hx]; exact List.take_left'  rfl
  have hdrop : (xs ++ ys).drop params.length = ys := by
    rw [← hx]; exact List.drop_left' rfl
  have hlen : ¬ (xs ++ ys).length < params.length := by
    simp [List.length_append]; omega
  rw [hcons] at htake hdrop hlen ⊢
  simp only [apply]
  rw [if_neg hlen, htake, hdrop]
  cases eval n (bindParams params xs cenv) body <;> rfl

end GluonModel.Surf.Proofs
