/-
Lemmas for C18: the grammar model reads back what the printer model prints, on the fragment
`core`: holes, constructors, generics, `(->)`, explicit and implicit functions, `forall`,
applications, and records — closed or open (`| r`), with value fields (operator names in
parentheses), printed with braces or, when `is_tuple` says so, as tuples (arity 0 and ≥ 2).
-/
import GluonModel.TypePrint

namespace GluonModel.Proofs.TypeRows
open GluonModel.TypePrint

/-- What may stand in the head position of an application (well-kinded heads). -/
def headLike : Ty → Bool
  | .con _ | .var _ | .app _ _ | .proj _ => true
  | _ => false

mutual
/-- The proved fragment, with lexically valid names: a constructor name is one the grammar
    classifies as a constructor (upper-case initial), a generic name one it classifies as a
    generic (not `_`, not upper-case), a field name does not start upper-case.  A record has the
    comma test on all its fields (`cut = fieldsLen row`, i.e. one `ExtendRow` node). -/
def core : Ty → Prop
  | .hole => True
  | .arrow => True
  | .con n => classify n = .con n
  | .var n => classify n = .var n
  | .fn _ a r => core a ∧ core r
  | .all vs b => vs ≠ [] ∧ core b
  | .app f a => core f ∧ headLike f = true ∧ core a
  | .record cut row => rowOK row ∧ cut = fieldsLen row
  | .proj ids => 2 ≤ ids.length
  | .effect row => rowOK row
  | _ => False
/-- rows of value fields, closed (`EmptyRow`) or ending in a row variable -/
def rowOK : Ty → Prop
  | .rnil => True
  | .var n => classify n = .var n
  | .rfield n t rest => startsUpper n = false ∧ core t ∧ rowOK rest
  | _ => False
end

/-- number of arguments on the application spine -/
def argc : Ty → Nat
  | .app f _ => argc f + 1
  | _ => 0

/-- recursion depth (fuel) sufficient to read the type (or row) back -/
def need : Ty → Nat
  | .fn _ a r => max (need a) (need r) + 6
  | .all _ b => need b + 6
  | .app f a => max (need f) (need a + argc f + 2) + 6
  | .rfield _ t rest => max (need t) (need rest) + 4
  | .record _ row => need row + 6
  | .effect row => need row + 6
  | _ => 4

theorem need_ge (t : Ty) : 4 ≤ need t := by
  cases t <;> simp [need] <;> omega

def NoDot : List Tok → Prop
  | .dot :: _ => False
  | _ => True

def NoAtom : List Tok → Prop
  | t :: _ => atomStart t = false
  | [] => True

def NoArrow : List Tok → Prop
  | .arrow :: _ => False
  | _ => True

/-- first token is an identifier, `(` or `{` -/
def HeadOK : List Tok → Prop
  | .id _ :: _ => True
  | .lparen :: _ => True
  | .lbrace :: _ => True
  | .lbracket :: .pipe :: _ => True
  | _ => False

/-- what follows the fields of a record: `}` or `| tail` -/
def EndBrace : List Tok → Prop
  | .rbrace :: _ => True
  | .pipe :: _ => True
  | _ => False

@[simp] theorem print_hole (p : Prec) : print p .hole = [.id "_"] := by simp [print]
@[simp] theorem print_con (p : Prec) (n : String) : print p (.con n) = [.id n] := by simp [print]
@[simp] theorem print_var (p : Prec) (n : String) : print p (.var n) = [.id n] := by simp [print]
@[simp] theorem print_arrow (p : Prec) : print p .arrow = [.lparen, .arrow, .rparen] := by
  simp [print]

theorem print_fn (p : Prec) (i : Bool) (a r : Ty) :
    print p (.fn i a r) = enclose p .function
      ((if i then [.lbracket] ++ print .function a ++ [.rbracket] else print .function a)
        ++ [.arrow] ++ print .top r) := by
  simp [print]

theorem print_all (p : Prec) (vs : List String) (b : Ty) :
    print p (.all vs b) = enclose p .function ([.kwForall] ++ vs.map .id ++ [.dot] ++ print .top b) := by
  simp [print]

theorem print_app (p : Prec) (f a : Ty) :
    print p (.app f a) = enclose p .constructor (print .top f ++ print .constructor a) := by
  simp [print]

@[simp] theorem enclose_top (l : Prec) (d : List Tok) (h : l ≠ .top) : enclose .top l d = d := by
  cases l <;> simp_all [enclose, Prec.rank]

@[simp] theorem enclose_fun_con (d : List Tok) : enclose .function .constructor d = d := by
  simp [enclose, Prec.rank]

@[simp] theorem enclose_fun_fun (d : List Tok) :
    enclose .function .function d = [.lparen] ++ d ++ [.rparen] := by
  simp [enclose, Prec.rank]

@[simp] theorem enclose_con (l : Prec) (d : List Tok) :
    enclose .constructor l d = [.lparen] ++ d ++ [.rparen] := by
  cases l <;> simp [enclose, Prec.rank]


/-! ### rows -/

def fieldsOf : Ty → List (String × Ty)
  | .rfield n t rest => (n, t) :: fieldsOf rest
  | .rtype _ _ _ rest => fieldsOf rest
  | _ => []

def typesOf : Ty → List Ty
  | .rfield _ t rest => t :: typesOf rest
  | .rtype _ _ _ rest => typesOf rest
  | _ => []

def rowEndOf : Ty → Ty
  | .rfield _ _ rest => rowEndOf rest
  | .rtype _ _ _ rest => rowEndOf rest
  | t => t

theorem fieldsOf_length (row : Ty) : (fieldsOf row).length = fieldsLen row := by
  induction row <;> simp_all [fieldsOf, fieldsLen]

theorem typesOf_length (row : Ty) : (typesOf row).length = fieldsLen row := by
  induction row <;> simp_all [typesOf, fieldsLen]

theorem printTypes_rowOK (row : Ty) (h : rowOK row) (tot : Nat) (b : Bool) (i : Nat) :
    printTypes tot b i row = [] := by
  induction row generalizing i <;> simp_all [rowOK, printTypes]

theorem hasTypeField_rowOK (row : Ty) (h : rowOK row) : hasTypeField row = false := by
  induction row <;> simp_all [rowOK, hasTypeField]

theorem mkRow_fieldsOf (row : Ty) (h : rowOK row) : mkRow [] (fieldsOf row) (rowEndOf row) = row := by
  induction row <;> simp_all [rowOK, mkRow, fieldsOf, rowEndOf]

/-- a row of the fragment ends in `EmptyRow` (then nothing is printed after the fields) or in a
    row variable `r` (then `| r` is printed) -/
theorem rowEnd_cases (row : Ty) (h : rowOK row) :
    (rowEndOf row = .rnil ∧ rowTail row = [] ∧ rowClosed row = true) ∨
    (∃ r, rowEndOf row = .var r ∧ classify r = .var r ∧ rowTail row = [.pipe, .id r] ∧
      rowClosed row = false) := by
  induction row <;> simp_all [rowOK, rowEndOf, rowTail, rowClosed]

theorem tupleRow_typesOf (row : Ty) (h : rowOK row) (i : Nat) (hn : tupleNames i row = true)
    (hc : rowClosed row = true) : tupleRow i (typesOf row) = row := by
  induction row generalizing i <;> simp_all [rowOK, tupleRow, typesOf, tupleNames, rowClosed]

/-- rows without a value field print no field -/
theorem printFields_len0 (row : Ty) (h : rowOK row) (h0 : fieldsLen row = 0) (named : Bool)
    (c i : Nat) : printFields named c i row = [] ∧ fieldsOf row = [] ∧ typesOf row = [] := by
  cases row <;> simp_all [rowOK, fieldsLen, printFields, fieldsOf, typesOf]

/-! ### first tokens -/

theorem print_record (p : Prec) (cut : Nat) (row : Ty) (h : rowOK row) :
    print p (.record cut row) =
      if isTuple row then [.lparen] ++ printFields false cut 0 row ++ [.rparen]
      else [.lbrace] ++ printFields true cut 0 row ++ rowTail row ++ [.rbrace] := by
  have hc : isTuple row = true → rowTail row = [] := by
    intro ht
    simp only [isTuple, Bool.and_eq_true] at ht
    rcases rowEnd_cases row h with ⟨_, h2, _⟩ | ⟨r, _, _, _, h4⟩
    · exact h2
    · rw [h4] at ht; simp at ht
  simp only [print, printTypes_rowOK row h]
  split
  · rename_i ht; simp [hc ht]
  · simp

theorem HeadOK.noDot {l : List Tok} (h : HeadOK l) : NoDot l := by
  match l, h with
  | .id _ :: _, _ => trivial
  | .lparen :: _, _ => trivial
  | .lbrace :: _, _ => trivial
  | .lbracket :: .pipe :: _, _ => trivial

theorem HeadOK.start {l : List Tok} (h : HeadOK l) :
    ∃ t ts, l = t :: ts ∧ atomStart t = true ∧ typeStart t = true ∧ t ≠ .arrow ∧ t ≠ .dotdot := by
  match l, h with
  | .id s :: ts, _ => exact ⟨_, _, rfl, rfl, rfl, by simp, by simp⟩
  | .lparen :: ts, _ => exact ⟨_, _, rfl, rfl, rfl, by simp, by simp⟩
  | .lbrace :: ts, _ => exact ⟨_, _, rfl, rfl, rfl, by simp, by simp⟩
  | .lbracket :: .pipe :: ts, _ => exact ⟨_, _, rfl, rfl, rfl, by simp, by simp⟩

/-- the `. id` continuation of a dotted name -/
def dotTail : List String → List Tok
  | [] => []
  | x :: xs => .dot :: .id x :: dotTail xs

theorem dotted_cons (a : String) (l : List String) : dotted (a :: l) = .id a :: dotTail l := by
  induction l generalizing a with
  | nil => simp [dotted, dotTail]
  | cons b l ih => simp [dotted, dotTail, ih]

theorem print_proj (p : Prec) (a b : String) (l : List String) :
    print p (.proj (a :: b :: l)) = .id a :: dotTail (b :: l) := by
  simp only [print, dotted_cons]

theorem proj_shape (ids : List String) (h : 2 ≤ ids.length) : ∃ a b l, ids = a :: b :: l := by
  match ids, h with
  | a :: b :: l, _ => exact ⟨a, b, l, rfl⟩

theorem print_effect (p : Prec) (row : Ty) :
    print p (.effect row) = .lbracket :: .pipe ::
      (printFields true (fieldsLen row) 0 row ++ (rowTail row ++ [.pipe, .rbracket])) := by
  simp [print]

theorem headOK_headLike (f : Ty) : core f → headLike f = true → ∀ rest, HeadOK (print .top f ++ rest) := by
  induction f with
  | con n => intro _ _ rest; simp [HeadOK]
  | var n => intro _ _ rest; simp [HeadOK]
  | proj ids =>
    intro hc _ rest
    simp only [core] at hc
    obtain ⟨a, b, l, rfl⟩ := proj_shape ids hc
    rw [print_proj]; simp [HeadOK]
  | app f a ihf _ =>
    intro hc _ rest
    simp only [core] at hc
    rw [print_app, enclose_top _ _ (by decide), List.append_assoc]
    exact ihf hc.1 hc.2.1 _
  | _ => intro _ hl; simp [headLike] at hl

theorem headOK_record (p : Prec) (cut : Nat) (row : Ty) (h : rowOK row) (rest : List Tok) :
    HeadOK (print p (.record cut row) ++ rest) := by
  rw [print_record p cut row h]
  split <;> simp [HeadOK]

/-- At `Prec::Function` and `Prec::Constructor` a type starts with an identifier, `(` or `{`. -/
theorem headOK_fun (t : Ty) (hc : core t) (rest : List Tok) :
    HeadOK (print .function t ++ rest) := by
  cases t with
  | hole => simp [HeadOK]
  | arrow => simp [HeadOK]
  | con n => simp [HeadOK]
  | var n => simp [HeadOK]
  | fn i a r => rw [print_fn, enclose_fun_fun]; simp [HeadOK]
  | all vs b => rw [print_all, enclose_fun_fun]; simp [HeadOK]
  | app f a =>
    simp only [core] at hc
    rw [print_app, enclose_fun_con, List.append_assoc]
    exact headOK_headLike f hc.1 hc.2.1 _
  | proj ids =>
    simp only [core] at hc
    obtain ⟨a, b, l, rfl⟩ := proj_shape ids hc
    rw [print_proj]; simp [HeadOK]
  | effect row => rw [print_effect]; simp [HeadOK]
  | record cut row => simp only [core] at hc; exact headOK_record _ _ _ hc.1 _
  | _ => simp [core] at hc

theorem headOK_con (t : Ty) (hc : core t) (rest : List Tok) :
    HeadOK (print .constructor t ++ rest) := by
  cases t with
  | hole => simp [HeadOK]
  | arrow => simp [HeadOK]
  | con n => simp [HeadOK]
  | var n => simp [HeadOK]
  | fn i a r => rw [print_fn, enclose_con]; simp [HeadOK]
  | all vs b => rw [print_all, enclose_con]; simp [HeadOK]
  | app f a => rw [print_app, enclose_con]; simp [HeadOK]
  | proj ids =>
    simp only [core] at hc
    obtain ⟨a, b, l, rfl⟩ := proj_shape ids hc
    rw [print_proj]; simp [HeadOK]
  | effect row => rw [print_effect]; simp [HeadOK]
  | record cut row => simp only [core] at hc; exact headOK_record _ _ _ hc.1 _
  | _ => simp [core] at hc

/-- At `Prec::Top` a type starts with a token that starts a `Type` and is neither `->` nor `..`. -/
theorem head_top (t : Ty) (hc : core t) (rest : List Tok) :
    ∃ tok ts, print .top t ++ rest = tok :: ts ∧ typeStart tok = true ∧ tok ≠ .arrow ∧
      tok ≠ .dotdot := by
  have fromOK : ∀ l, HeadOK l → ∃ tok ts, l = tok :: ts ∧ typeStart tok = true ∧ tok ≠ .arrow ∧
      tok ≠ .dotdot := by
    intro l hl
    obtain ⟨tok, ts, e, _, h2, h3, h4⟩ := hl.start
    exact ⟨tok, ts, e, h2, h3, h4⟩
  cases t with
  | hole => exact fromOK _ (by simp [HeadOK])
  | arrow => exact fromOK _ (by simp [HeadOK])
  | con n => exact fromOK _ (by simp [HeadOK])
  | var n => exact fromOK _ (by simp [HeadOK])
  | fn i a r =>
    simp only [core] at hc
    rw [print_fn, enclose_top _ _ (by decide)]
    cases i
    · have hok := headOK_fun a hc.1 ([.arrow] ++ (print .top r ++ rest))
      simp only [Bool.false_eq_true, if_false, List.append_assoc]
      exact fromOK _ hok
    · simp only [if_true, List.append_assoc, List.cons_append, List.nil_append]
      exact ⟨_, _, rfl, by simp [typeStart, atomStart], by simp, by simp⟩
  | all vs b =>
    rw [print_all, enclose_top _ _ (by decide)]
    simp only [List.append_assoc, List.cons_append, List.nil_append]
    exact ⟨_, _, rfl, by simp [typeStart], by simp, by simp⟩
  | app f a =>
    have := headOK_headLike (.app f a) hc rfl rest
    exact fromOK _ this
  | proj ids =>
    simp only [core] at hc
    obtain ⟨a, b, l, rfl⟩ := proj_shape ids hc
    exact fromOK _ (by rw [print_proj]; simp [HeadOK])
  | effect row => exact fromOK _ (by rw [print_effect]; simp [HeadOK])
  | record cut row => simp only [core] at hc; exact fromOK _ (headOK_record _ _ _ hc.1 _)
  | _ => simp [core] at hc

/-! ### grammar lemmas -/

theorem pProjTail_noDot (l : List Tok) (h : NoDot l) : pProjTail l = ([], l) := by
  match l, h with
  | [], _ => simp [pProjTail]
  | t :: ts, h =>
    cases t <;> simp [NoDot] at h <;> simp [pProjTail]

theorem pProjTail_dotTail (l : List String) (rest : List Tok) (h : NoDot rest) :
    pProjTail (dotTail l ++ rest) = (l, rest) := by
  induction l with
  | nil => simpa [dotTail] using pProjTail_noDot rest h
  | cons x xs ih => simp [dotTail, pProjTail, ih]

theorem pIdents_map (vs : List String) (rest : List Tok) :
    pIdents (vs.map .id ++ .dot :: rest) = (vs, .dot :: rest) := by
  induction vs with
  | nil => simp [pIdents]
  | cons v vs ih => simp [pIdents, ih]

/-- `pType` on a token stream that starts with an identifier or `(` goes to `pFunTail`. -/
theorem pType_headOK (F : Nat) (l : List Tok) (h : HeadOK l) : pType (F + 1) l = pFunTail F l := by
  match l, h with
  | .id s :: ts, _ => simp [pType]
  | .lparen :: ts, _ => simp [pType]
  | .lbrace :: ts, _ => simp [pType]
  | .lbracket :: .pipe :: ts, _ => simp [pType]

theorem pArgs_stop (G : Nat) (h : Ty) (rest : List Tok) (hr : NoAtom rest) :
    pArgs (G + 1) h rest = some (h, rest) := by
  match rest, hr with
  | [], _ => simp [pArgs]
  | t :: ts, hr => simp [NoAtom] at hr; simp [pArgs, hr]

/-- Reading an atomic type whose printed form is a single identifier. -/
theorem pAtomic_id (G : Nat) (s : String) (rest : List Tok) (hd : NoDot rest) :
    pAtomic (G + 1) (.id s :: rest) = some (classify s, rest) := by
  simp [pAtomic, pProjTail_noDot rest hd]

theorem classify_hole : classify "_" = .hole := by simp [classify]

/-- A parenthesised type: `( <Type> )` reads as that type, given that `<Type>` itself reads back. -/
theorem pAtomic_paren (F : Nat) (t : Ty) (body rest : List Tok)
    (hhead : ∃ tok ts, body ++ .rparen :: rest = tok :: ts ∧ typeStart tok = true ∧
      tok ≠ .arrow ∧ tok ≠ .dotdot)
    (hbody : pType F (body ++ .rparen :: rest) = some (t, .rparen :: rest)) :
    pAtomic (F + 2) ([.lparen] ++ body ++ [.rparen] ++ rest) = some (t, rest) := by
  obtain ⟨tok, ts, e, hs, h1, h2⟩ := hhead
  have e' : [Tok.lparen] ++ body ++ [.rparen] ++ rest = .lparen :: tok :: ts := by
    simp [← e]
  rw [e']
  rw [e] at hbody
  have : pCommaTypes (F + 1) (tok :: ts) = some ([t], .rparen :: rest) := by
    simp only [pCommaTypes]
    rw [if_pos hs, hbody]
  cases tok <;> simp_all [pAtomic, typeStart, atomStart]

theorem pApp_of_pAtomic (F : Nat) (l rest : List Tok) (t : Ty)
    (h : pAtomic (F + 1) l = some (t, rest)) (hr : NoAtom rest) :
    pApp (F + 2) l = some (t, rest) := by
  simp only [pApp, h]
  exact pArgs_stop F t rest hr

theorem pFunTail_of_pApp (F : Nat) (l rest : List Tok) (a : Ty)
    (h : pApp F l = some (a, rest)) (hr : NoArrow rest) :
    pFunTail (F + 1) l = some (a, rest) := by
  simp only [pFunTail, h]
  match rest, hr with
  | [], _ => rfl
  | tok :: ts, hr => cases tok <;> simp_all [NoArrow]

theorem pType_of_pApp (F : Nat) (l rest : List Tok) (a : Ty) (hl : HeadOK l)
    (h : pApp F l = some (a, rest)) (hr : NoArrow rest) :
    pType (F + 2) l = some (a, rest) := by
  rw [pType_headOK _ _ hl]
  exact pFunTail_of_pApp F l rest a h hr

theorem noAtom_arrow (l : List Tok) : NoAtom (.arrow :: l) := by simp [NoAtom, atomStart]
theorem noAtom_rparen (l : List Tok) : NoAtom (.rparen :: l) := by simp [NoAtom, atomStart]
theorem noAtom_rbracket (l : List Tok) : NoAtom (.rbracket :: l) := by simp [NoAtom, atomStart]

theorem pType_lbracket (F : Nat) (X ts' rest : List Tok) (a r : Ty) (h : HeadOK X)
    (hq : pType F X = some (a, .rbracket :: .arrow :: ts'))
    (hr : pType F ts' = some (r, rest)) :
    pType (F + 1) (.lbracket :: X) = some (.fn true a r, rest) := by
  match X, h with
  | .id s :: ts, _ => simp only [pType, hq, hr]
  | .lparen :: ts, _ => simp only [pType, hq, hr]
  | .lbrace :: ts, _ => simp only [pType, hq, hr]
  | .lbracket :: .pipe :: ts, _ => simp only [pType, hq, hr]

theorem noAtom_endBrace (l : List Tok) (h : EndBrace l) : NoDot l ∧ NoAtom l ∧ NoArrow l := by
  match l, h with
  | .rbrace :: _, _ => simp [NoDot, NoAtom, NoArrow, atomStart]
  | .pipe :: _, _ => simp [NoDot, NoAtom, NoArrow, atomStart]

theorem pIdent_identToks (n : String) (Y : List Tok) : pIdent (identToks n ++ Y) = some (n, Y) := by
  unfold identToks; split <;> simp [pIdent]

/-- The statement proved by induction: reading back at each of the three precedence levels, and
    the application-spine invariant. -/
def Reads (t : Ty) : Prop :=
  (∀ F rest, need t ≤ F → NoDot rest →
      pAtomic F (print .constructor t ++ rest) = some (t, rest)) ∧
  (∀ F rest, need t ≤ F → NoDot rest → NoAtom rest →
      pApp F (print .function t ++ rest) = some (t, rest)) ∧
  (∀ F rest, need t ≤ F → NoDot rest → NoAtom rest → NoArrow rest →
      pType F (print .top t ++ rest) = some (t, rest)) ∧
  (headLike t = true → ∀ G rest, 1 ≤ G → need t ≤ G + argc t + 5 → NoDot rest →
      pApp (G + argc t + 1) (print .top t ++ rest) = pArgs G t rest)

/-- atoms whose printed form is the same token list `toks` at every precedence and is read by
    `pAtomic` with any fuel ≥ 1 -/
theorem reads_atom (t : Ty) (toks : List Tok) (hp : ∀ p, print p t = toks)
    (hok : ∀ rest, HeadOK (toks ++ rest))
    (hat : ∀ G rest, NoDot rest → pAtomic (G + 1) (toks ++ rest) = some (t, rest))
    (hn : need t = 4) (ha : argc t = 0) : Reads t := by
  have B : ∀ F rest, 2 ≤ F → NoDot rest → NoAtom rest →
      pApp F (toks ++ rest) = some (t, rest) := by
    intro F rest hF hd ha'
    obtain ⟨G, rfl⟩ : ∃ G, F = G + 2 := ⟨F - 2, by omega⟩
    exact pApp_of_pAtomic _ _ _ _ (hat G rest hd) ha'
  refine ⟨?_, ?_, ?_, ?_⟩
  · intro F rest hF hd
    obtain ⟨G, rfl⟩ : ∃ G, F = G + 1 := ⟨F - 1, by omega⟩
    rw [hp]; exact hat G rest hd
  · intro F rest hF hd ha'
    rw [hp]; exact B F rest (by omega) hd ha'
  · intro F rest hF hd ha' har
    obtain ⟨G, rfl⟩ : ∃ G, F = G + 2 := ⟨F - 2, by omega⟩
    rw [hp]
    exact pType_of_pApp _ _ _ _ (hok rest) (B G rest (by omega) hd ha') har
  · intro _ G rest hG _ hd
    obtain ⟨G', rfl⟩ : ∃ G', G = G' + 1 := ⟨G - 1, by omega⟩
    rw [hp, ha]
    simp only [pApp, hat G' rest hd]

/-- compound types that are parenthesised below the top level: everything follows from
    reading back at the top level -/
theorem reads_paren (t : Ty) (hl : headLike t = false)
    (hpf : print .function t = [.lparen] ++ print .top t ++ [.rparen])
    (hpc : print .constructor t = [.lparen] ++ print .top t ++ [.rparen])
    (hhead : ∀ rest, ∃ tok ts, print .top t ++ rest = tok :: ts ∧ typeStart tok = true ∧
      tok ≠ .arrow ∧ tok ≠ .dotdot)
    (hn : 6 ≤ need t)
    (C : ∀ F rest, need t ≤ F + 3 → NoDot rest → NoAtom rest → NoArrow rest →
      pType F (print .top t ++ rest) = some (t, rest)) : Reads t := by
  have A : ∀ F rest, need t ≤ F + 1 → NoDot rest →
      pAtomic F (print .constructor t ++ rest) = some (t, rest) := by
    intro F rest hF hd
    obtain ⟨G, rfl⟩ : ∃ G, F = G + 2 := ⟨F - 2, by omega⟩
    rw [hpc]
    apply pAtomic_paren
    · exact hhead _
    · exact C G (.rparen :: rest) (by omega) trivial (noAtom_rparen _) trivial
  refine ⟨fun F rest hF hd => A F rest (by omega) hd, ?_, ?_, ?_⟩
  · intro F rest hF hd ha'
    obtain ⟨G, rfl⟩ : ∃ G, F = G + 2 := ⟨F - 2, by omega⟩
    apply pApp_of_pAtomic _ _ _ _ _ ha'
    have := A (G + 1) rest (by omega) hd
    rw [hpc] at this; rw [hpf]; exact this
  · intro F rest hF hd ha' har
    exact C F rest (by omega) hd ha' har
  · intro h; rw [hl] at h; cases h

/-- atomic types that cannot head an application (`_`, `(->)`, records, tuples): everything
    follows from `pAtomic` -/
theorem reads_atomic (t : Ty) (toks : List Tok) (hp : ∀ p, print p t = toks)
    (hl : headLike t = false) (hok : ∀ rest, HeadOK (toks ++ rest)) (hn : 4 ≤ need t)
    (hat : ∀ F rest, need t ≤ F + 3 → NoDot rest → pAtomic F (toks ++ rest) = some (t, rest)) :
    Reads t := by
  have B : ∀ F rest, need t ≤ F + 2 → NoDot rest → NoAtom rest →
      pApp F (toks ++ rest) = some (t, rest) := by
    intro F rest hF hd ha'
    obtain ⟨G, rfl⟩ : ∃ G, F = G + 2 := ⟨F - 2, by omega⟩
    exact pApp_of_pAtomic _ _ _ _ (hat (G + 1) rest (by omega) hd) ha'
  refine ⟨?_, ?_, ?_, ?_⟩
  · intro F rest hF hd
    rw [hp]; exact hat F rest (by omega) hd
  · intro F rest hF hd ha'
    rw [hp]; exact B F rest (by omega) hd ha'
  · intro F rest hF hd ha' har
    obtain ⟨G, rfl⟩ : ∃ G, F = G + 2 := ⟨F - 2, by omega⟩
    rw [hp]
    exact pType_of_pApp _ _ _ _ (hok rest) (B G rest (by omega) hd ha') har
  · intro h; rw [hl] at h; cases h

theorem reads_var (n : String) (h : classify n = .var n) : Reads (.var n) :=
  reads_atom (.var n) [.id n] (by simp) (by simp [HeadOK])
    (fun G rest hd => by simp only [List.singleton_append]; rw [pAtomic_id G n rest hd, h])
    (by simp [need]) (by simp [argc])

/-- What is proved about a row: its printed fields are read back by `CommaTemp<RecordField>`
    (named, brace syntax) and by `CommaTemp<Type>` (unnamed, tuple syntax).  `i` is the index of
    the first field of `row` within the record, so the record's comma test is against
    `i + fieldsLen row`. -/
def RowReads (row : Ty) : Prop :=
  (∀ F i rest, need row ≤ F → EndBrace rest →
      pFields F (printFields true (i + fieldsLen row) i row ++ rest) = some ([], fieldsOf row, rest)) ∧
  (∀ F i rest, need row ≤ F →
      pCommaTypes F (printFields false (i + fieldsLen row) i row ++ .rparen :: rest)
        = some (typesOf row, .rparen :: rest)) ∧
  (∀ F i rest, need row ≤ F → EndBrace rest →
      pEffFields F (printFields true (i + fieldsLen row) i row ++ rest) = some (fieldsOf row, rest))

theorem rowReads_empty (row : Ty) (h : rowOK row) (h0 : fieldsLen row = 0) : RowReads row := by
  have hn := need_ge row
  refine ⟨?_, ?_, ?_⟩
  · intro F i rest hF he
    obtain ⟨G, rfl⟩ : ∃ G, F = G + 1 := ⟨F - 1, by omega⟩
    obtain ⟨e1, e2, _⟩ := printFields_len0 row h h0 true (i + fieldsLen row) i
    rw [e1, e2, List.nil_append]
    match rest, he with
    | .rbrace :: ts, _ => simp [pFields, pIdent]
    | .pipe :: ts, _ => simp [pFields, pIdent]
  · intro F i rest hF
    obtain ⟨G, rfl⟩ : ∃ G, F = G + 1 := ⟨F - 1, by omega⟩
    obtain ⟨e1, _, e3⟩ := printFields_len0 row h h0 false (i + fieldsLen row) i
    rw [e1, e3, List.nil_append]
    simp [pCommaTypes, typeStart, atomStart]
  · intro F i rest hF he
    obtain ⟨G, rfl⟩ : ∃ G, F = G + 1 := ⟨F - 1, by omega⟩
    obtain ⟨e1, e2, _⟩ := printFields_len0 row h h0 true (i + fieldsLen row) i
    rw [e1, e2, List.nil_append]
    match rest, he with
    | .rbrace :: ts, _ => simp [pEffFields, pIdent]
    | .pipe :: ts, _ => simp [pEffFields, pIdent]

/-- a tuple `( T0, …, Tn )`, `n ≠ 1` -/
theorem pAtomic_tuple (F : Nat) (ts rest : List Tok) (elems : List Ty) (hne : elems.length ≠ 1)
    (hhead : ∃ tok ts', ts = tok :: ts' ∧ tok ≠ .arrow ∧ tok ≠ .dotdot)
    (hct : pCommaTypes F ts = some (elems, .rparen :: rest)) :
    pAtomic (F + 1) (.lparen :: ts) = some (.record elems.length (tupleRow 0 elems), rest) := by
  obtain ⟨tok, ts', rfl, h1, h2⟩ := hhead
  match elems, hne with
  | [], _ => cases tok <;> simp_all [pAtomic]
  | [x], hne => simp at hne
  | x :: y :: l, _ => cases tok <;> simp_all [pAtomic]

theorem head_printFields_false (row : Ty) (h : rowOK row) (c i : Nat) (Y : List Tok) :
    ∃ tok ts', printFields false c i row ++ .rparen :: Y = tok :: ts' ∧ tok ≠ .arrow ∧
      tok ≠ .dotdot := by
  cases row with
  | rfield n t rest =>
    simp only [rowOK] at h
    simp only [printFields, Bool.false_eq_true, if_false, List.nil_append, List.append_assoc]
    obtain ⟨tok, ts, e, _, h1, h2⟩ := head_top t h.2.1
      ((if (i + 1 != c) = true then [Tok.comma] else []) ++ (printFields false c (i + 1) rest ++ .rparen :: Y))
    exact ⟨tok, ts, e, h1, h2⟩
  | rnil => exact ⟨.rparen, Y, by simp [printFields], by simp, by simp⟩
  | var n => exact ⟨.rparen, Y, by simp [printFields], by simp, by simp⟩
  | _ => simp [rowOK] at h

theorem reads_all (t : Ty) : (core t → Reads t) ∧ (rowOK t → RowReads t) := by
  induction t with
  | hole =>
    refine ⟨fun _ => ?_, fun h => by simp [rowOK] at h⟩
    exact reads_atom .hole [.id "_"] (by simp) (by simp [HeadOK])
      (fun G rest hd => by
        simp only [List.singleton_append]; rw [pAtomic_id G "_" rest hd, classify_hole])
      (by simp [need]) (by simp [argc])
  | «opaque» => exact ⟨fun h => by simp [core] at h, fun h => by simp [rowOK] at h⟩
  | con n =>
    refine ⟨fun h => ?_, fun h => by simp [rowOK] at h⟩
    simp only [core] at h
    exact reads_atom (.con n) [.id n] (by simp) (by simp [HeadOK])
      (fun G rest hd => by simp only [List.singleton_append]; rw [pAtomic_id G n rest hd, h])
      (by simp [need]) (by simp [argc])
  | var n =>
    refine ⟨fun h => ?_, fun h => rowReads_empty _ h (by simp [fieldsLen])⟩
    simp only [core] at h
    exact reads_var n h
  | arrow =>
    refine ⟨fun _ => ?_, fun h => by simp [rowOK] at h⟩
    exact reads_atom .arrow [.lparen, .arrow, .rparen] (by simp) (by simp [HeadOK])
      (fun G rest _ => by simp [pAtomic]) (by simp [need]) (by simp [argc])
  | proj ids =>
    refine ⟨fun h => ?_, fun h => by simp [rowOK] at h⟩
    simp only [core] at h
    obtain ⟨a, b, l, rfl⟩ := proj_shape ids h
    exact reads_atom (.proj (a :: b :: l)) (.id a :: dotTail (b :: l)) (fun p => print_proj p a b l)
      (by intro rest; simp [HeadOK])
      (fun G rest hd => by
        simp only [List.cons_append, pAtomic, pProjTail_dotTail (b :: l) rest hd])
      (by simp [need]) (by simp [argc])
  | rtype n ps t rest _ _ => exact ⟨fun h => by simp [core] at h, fun h => by simp [rowOK] at h⟩
  | variant row _ => exact ⟨fun h => by simp [core] at h, fun h => by simp [rowOK] at h⟩
  | effect row ihrow =>
    refine ⟨fun hc => ?_, fun h => by simp [rowOK] at h⟩
    simp only [core] at hc
    obtain ⟨_, _, R3⟩ := ihrow.2 hc
    have hnr := need_ge row
    apply reads_atomic _ _ (fun p => print_effect p row) rfl (by intro rest; simp [HeadOK])
      (by simp only [need]; omega)
    intro F rest hF hd
    simp only [need] at hF
    obtain ⟨G, rfl⟩ : ∃ G, F = G + 1 := ⟨F - 1, by omega⟩
    have e : Tok.lbracket :: .pipe ::
          (printFields true (fieldsLen row) 0 row ++ (rowTail row ++ [.pipe, .rbracket])) ++ rest
        = .lbracket :: .pipe :: (printFields true (0 + fieldsLen row) 0 row
            ++ (rowTail row ++ .pipe :: .rbracket :: rest)) := by simp
    rw [e]
    have hm := mkRow_fieldsOf row hc
    rcases rowEnd_cases row hc with ⟨hend, htail, _⟩ | ⟨r, hend, hr, htail, _⟩
    · rw [htail, List.nil_append]
      have hf := R3 G 0 (.pipe :: .rbracket :: rest) (by omega) trivial
      rw [Nat.zero_add] at hf
      rw [hend] at hm
      simp [pAtomic, hf, hm]
    · rw [htail]
      have hf := R3 G 0 (.pipe :: .id r :: .pipe :: .rbracket :: rest) (by omega) trivial
      rw [Nat.zero_add] at hf
      obtain ⟨_, _, Cv, _⟩ := reads_var r hr
      have hv := Cv G (.pipe :: .rbracket :: rest) (by simp only [need]; omega) trivial
        (by simp [NoAtom, atomStart]) trivial
      rw [hend] at hm
      simp only [print_var, List.singleton_append] at hv
      simp [pAtomic, hf, hv, hm]
  | rnil =>
    exact ⟨fun h => by simp [core] at h, fun h => rowReads_empty _ h (by simp [fieldsLen])⟩
  | fn i a r iha ihr =>
    refine ⟨fun hc => ?_, fun h => by simp [rowOK] at h⟩
    have hc' := hc
    simp only [core] at hc'
    obtain ⟨ha, hr⟩ := hc'
    obtain ⟨_, Ba, _, _⟩ := iha.1 ha
    obtain ⟨_, _, Cr, _⟩ := ihr.1 hr
    have hna := need_ge a
    have hnr := need_ge r
    apply reads_paren
    · rfl
    · rw [print_fn, print_fn, enclose_fun_fun, enclose_top _ _ (by decide)]
    · rw [print_fn, print_fn, enclose_con, enclose_top _ _ (by decide)]
    · exact fun rest => head_top _ hc rest
    · simp [need]
    · intro F rest hF hd hna' har
      simp only [need] at hF
      obtain ⟨G, rfl⟩ : ∃ G, F = G + 2 := ⟨F - 2, by omega⟩
      rw [print_fn, enclose_top _ _ (by decide)]
      cases i
      · -- explicit argument
        simp only [Bool.false_eq_true, if_false, List.append_assoc, List.cons_append,
          List.nil_append]
        rw [pType_headOK _ _ (headOK_fun a ha _)]
        simp only [pFunTail]
        rw [Ba G (.arrow :: (print .top r ++ rest)) (by omega) trivial (noAtom_arrow _)]
        simp only
        rw [Cr G rest (by omega) hd hna' har]
      · -- implicit argument
        simp only [if_true, List.append_assoc, List.cons_append, List.nil_append]
        obtain ⟨G', rfl⟩ : ∃ G', G = G' + 1 := ⟨G - 1, by omega⟩
        have hq : pType (G' + 2) (print .function a ++ .rbracket :: .arrow :: (print .top r ++ rest))
            = some (a, .rbracket :: .arrow :: (print .top r ++ rest)) :=
          pType_of_pApp _ _ _ _ (headOK_fun a ha _)
            (Ba G' (.rbracket :: .arrow :: (print .top r ++ rest)) (by omega) trivial
              (noAtom_rbracket _)) trivial
        exact pType_lbracket _ _ _ _ _ _ (headOK_fun a ha _) hq
          (Cr (G' + 2) rest (by omega) hd hna' har)
  | all vs b ihb =>
    refine ⟨fun hc => ?_, fun h => by simp [rowOK] at h⟩
    have hc' := hc
    simp only [core] at hc'
    obtain ⟨hvs, hb⟩ := hc'
    obtain ⟨v, vs', rfl⟩ : ∃ v vs', vs = v :: vs' := by
      cases vs with
      | nil => exact absurd rfl hvs
      | cons v vs' => exact ⟨v, vs', rfl⟩
    obtain ⟨_, _, Cb, _⟩ := ihb.1 hb
    apply reads_paren
    · rfl
    · rw [print_all, print_all, enclose_fun_fun, enclose_top _ _ (by decide)]
    · rw [print_all, print_all, enclose_con, enclose_top _ _ (by decide)]
    · exact fun rest => head_top _ hc rest
    · simp [need]
    · intro F rest hF hd hna har
      simp only [need] at hF
      obtain ⟨G, rfl⟩ : ∃ G, F = G + 1 := ⟨F - 1, by omega⟩
      rw [print_all, enclose_top _ _ (by decide)]
      have e : [Tok.kwForall] ++ (v :: vs').map Tok.id ++ [.dot] ++ print .top b ++ rest
          = .kwForall :: ((v :: vs').map Tok.id ++ .dot :: (print .top b ++ rest)) := by simp
      rw [e]
      simp only [pType, pIdents_map]
      rw [Cb G rest (by omega) hd hna har]
  | app f a ihf iha =>
    refine ⟨fun hcore => ?_, fun h => by simp [rowOK] at h⟩
    have hc' := hcore
    simp only [core] at hc'
    obtain ⟨hf, hlf, ha⟩ := hc'
    obtain ⟨_, _, _, Sf⟩ := ihf.1 hf
    obtain ⟨Aa, _, _, _⟩ := iha.1 ha
    have hnf := need_ge f
    have hna := need_ge a
    have S : ∀ G rest, 1 ≤ G → need (.app f a) ≤ G + argc (.app f a) + 5 → NoDot rest →
        pApp (G + argc (.app f a) + 1) (print .top (.app f a) ++ rest) = pArgs G (.app f a) rest := by
      intro G rest hG1 hG hd
      simp only [need, argc] at hG
      rw [print_app, enclose_top _ _ (by decide), List.append_assoc]
      have e : G + argc (.app f a) + 1 = (G + 1) + argc f + 1 := by simp only [argc]; omega
      rw [e, Sf hlf (G + 1) _ (by omega) (by omega) (headOK_con a ha rest).noDot]
      have hA := Aa G rest (by omega) hd
      obtain ⟨tok, ts, hX, hs, _⟩ := (headOK_con a ha rest).start
      rw [hX] at hA ⊢
      simp [pArgs, hs, hA]
    have B : ∀ F rest, need (.app f a) ≤ F + 4 → NoDot rest → NoAtom rest →
        pApp F (print .top (.app f a) ++ rest) = some (.app f a, rest) := by
      intro F rest hF hd hna'
      have h2 : argc (.app f a) + 3 ≤ F := by simp only [need, argc] at hF ⊢; omega
      obtain ⟨G, rfl⟩ : ∃ G, F = (G + 1) + argc (.app f a) + 1 :=
        ⟨F - argc (.app f a) - 2, by omega⟩
      rw [S (G + 1) rest (by omega) (by omega) hd]
      exact pArgs_stop G _ rest hna'
    have hpt : print .function (.app f a) = print .top (.app f a) := by
      rw [print_app, print_app, enclose_fun_con, enclose_top _ _ (by decide)]
    have C : ∀ F rest, need (.app f a) ≤ F + 2 → NoDot rest → NoAtom rest → NoArrow rest →
        pType F (print .top (.app f a) ++ rest) = some (.app f a, rest) := by
      intro F rest hF hd hna' har
      obtain ⟨G, rfl⟩ : ∃ G, F = G + 2 := ⟨F - 2, by simp only [need] at hF; omega⟩
      exact pType_of_pApp _ _ _ _ (headOK_headLike _ hcore rfl _) (B G rest (by omega) hd hna') har
    refine ⟨?_, ?_, fun F rest hF => C F rest (by omega), fun _ => S⟩
    · intro F rest hF hd
      obtain ⟨G, rfl⟩ : ∃ G, F = G + 2 := ⟨F - 2, by simp only [need] at hF; omega⟩
      rw [print_app, enclose_con]
      apply pAtomic_paren
      · have hh := head_top _ hcore (.rparen :: rest)
        rw [print_app, enclose_top _ _ (by decide)] at hh
        exact hh
      · have := C G (.rparen :: rest) (by omega) trivial (noAtom_rparen _) trivial
        rw [print_app, enclose_top _ _ (by decide)] at this
        exact this
    · intro F rest hF hd hna'
      rw [hpt]; exact B F rest (by omega) hd hna'
  | rfield n t rest iht ihrest =>
    refine ⟨fun h => by simp [core] at h, fun h => ?_⟩
    simp only [rowOK] at h
    obtain ⟨hup, hct, hrest⟩ := h
    obtain ⟨_, _, Ct, _⟩ := iht.1 hct
    obtain ⟨R1, R2, R3⟩ := ihrest.2 hrest
    refine ⟨?_, ?_, ?_⟩
    · -- `name : type,` … read by `RecordField`
      intro F i rest0 hF he
      simp only [need] at hF
      obtain ⟨G, rfl⟩ : ∃ G, F = G + 1 := ⟨F - 1, by omega⟩
      obtain ⟨hd0, ha0, har0⟩ := noAtom_endBrace rest0 he
      have hlen : i + fieldsLen (.rfield n t rest) = (i + 1) + fieldsLen rest := by
        simp only [fieldsLen]; omega
      rw [hlen]
      simp only [printFields, fieldsOf, if_true]
      by_cases h0 : fieldsLen rest = 0
      · obtain ⟨e1, e2, _⟩ := printFields_len0 rest hrest h0 true (i + 1 + fieldsLen rest) (i + 1)
        have hb : (i + 1 != i + 1 + fieldsLen rest) = false := by simp [h0]
        rw [e1, e2, hb]
        have e : identToks n ++ [Tok.colon] ++ print .top t ++ (if false = true then [Tok.comma] else []) ++ [] ++ rest0
            = identToks n ++ .colon :: (print .top t ++ rest0) := by simp
        rw [e]
        have hq := Ct G rest0 (by omega) hd0 ha0 har0
        simp only [pFields, pIdent_identToks, hup, hq]
        match rest0, he with
        | .rbrace :: _, _ => simp
        | .pipe :: _, _ => simp
      · have hb : (i + 1 != i + 1 + fieldsLen rest) = true := by simp; omega
        rw [hb]
        have e : identToks n ++ [Tok.colon] ++ print .top t ++ (if true = true then [Tok.comma] else [])
              ++ printFields true (i + 1 + fieldsLen rest) (i + 1) rest ++ rest0
            = identToks n ++ .colon :: (print .top t ++ .comma ::
                (printFields true (i + 1 + fieldsLen rest) (i + 1) rest ++ rest0)) := by simp
        rw [e]
        have hq := Ct G (.comma :: (printFields true (i + 1 + fieldsLen rest) (i + 1) rest ++ rest0))
          (by omega) trivial (by simp [NoAtom, atomStart]) trivial
        have hrec := R1 G (i + 1) rest0 (by omega) he
        simp [pFields, pIdent_identToks, hup, hq, hrec]
    · -- `type,` … read by `CommaTemp<Type>`
      intro F i rest0 hF
      simp only [need] at hF
      obtain ⟨G, rfl⟩ : ∃ G, F = G + 1 := ⟨F - 1, by omega⟩
      have hlen : i + fieldsLen (.rfield n t rest) = (i + 1) + fieldsLen rest := by
        simp only [fieldsLen]; omega
      rw [hlen]
      simp only [printFields, typesOf, Bool.false_eq_true, if_false, List.nil_append]
      by_cases h0 : fieldsLen rest = 0
      · obtain ⟨e1, _, e3⟩ := printFields_len0 rest hrest h0 false (i + 1 + fieldsLen rest) (i + 1)
        have hb : (i + 1 != i + 1 + fieldsLen rest) = false := by simp [h0]
        rw [e1, e3, hb]
        have e : print .top t ++ (if false = true then [Tok.comma] else []) ++ [] ++ Tok.rparen :: rest0
            = print .top t ++ .rparen :: rest0 := by simp
        rw [e]
        have hq := Ct G (.rparen :: rest0) (by omega) trivial (noAtom_rparen _) trivial
        obtain ⟨tok, ts, hX, hs, _⟩ := head_top t hct (.rparen :: rest0)
        rw [hX] at hq ⊢
        simp [pCommaTypes, hs, hq]
      · have hb : (i + 1 != i + 1 + fieldsLen rest) = true := by simp; omega
        rw [hb]
        have e : print .top t ++ (if true = true then [Tok.comma] else [])
              ++ printFields false (i + 1 + fieldsLen rest) (i + 1) rest ++ Tok.rparen :: rest0
            = print .top t ++ .comma ::
                (printFields false (i + 1 + fieldsLen rest) (i + 1) rest ++ .rparen :: rest0) := by simp
        rw [e]
        have hq := Ct G (.comma :: (printFields false (i + 1 + fieldsLen rest) (i + 1) rest ++ .rparen :: rest0))
          (by omega) trivial (by simp [NoAtom, atomStart]) trivial
        have hrec := R2 G (i + 1) rest0 (by omega)
        obtain ⟨tok, ts, hX, hs, _⟩ := head_top t hct
          (.comma :: (printFields false (i + 1 + fieldsLen rest) (i + 1) rest ++ .rparen :: rest0))
        rw [hX] at hq ⊢
        simp [pCommaTypes, hs, hq, hrec]
    · -- `name : type,` … read by `Effect` (effect rows)
      intro F i rest0 hF he
      simp only [need] at hF
      obtain ⟨G, rfl⟩ : ∃ G, F = G + 1 := ⟨F - 1, by omega⟩
      obtain ⟨hd0, ha0, har0⟩ := noAtom_endBrace rest0 he
      have hlen : i + fieldsLen (.rfield n t rest) = (i + 1) + fieldsLen rest := by
        simp only [fieldsLen]; omega
      rw [hlen]
      simp only [printFields, fieldsOf, if_true]
      by_cases h0 : fieldsLen rest = 0
      · obtain ⟨e1, e2, _⟩ := printFields_len0 rest hrest h0 true (i + 1 + fieldsLen rest) (i + 1)
        have hb : (i + 1 != i + 1 + fieldsLen rest) = false := by simp [h0]
        rw [e1, e2, hb]
        have e : identToks n ++ [Tok.colon] ++ print .top t ++ (if false = true then [Tok.comma] else []) ++ [] ++ rest0
            = identToks n ++ .colon :: (print .top t ++ rest0) := by simp
        rw [e]
        have hq := Ct G rest0 (by omega) hd0 ha0 har0
        simp only [pEffFields, pIdent_identToks, hq]
        match rest0, he with
        | .rbrace :: _, _ => simp
        | .pipe :: _, _ => simp
      · have hb : (i + 1 != i + 1 + fieldsLen rest) = true := by simp; omega
        rw [hb]
        have e : identToks n ++ [Tok.colon] ++ print .top t ++ (if true = true then [Tok.comma] else [])
              ++ printFields true (i + 1 + fieldsLen rest) (i + 1) rest ++ rest0
            = identToks n ++ .colon :: (print .top t ++ .comma ::
                (printFields true (i + 1 + fieldsLen rest) (i + 1) rest ++ rest0)) := by simp
        rw [e]
        have hq := Ct G (.comma :: (printFields true (i + 1 + fieldsLen rest) (i + 1) rest ++ rest0))
          (by omega) trivial (by simp [NoAtom, atomStart]) trivial
        have hrec := R3 G (i + 1) rest0 (by omega) he
        simp [pEffFields, pIdent_identToks, hq, hrec]
  | record cut row ihrow =>
    refine ⟨fun hc => ?_, fun h => by simp [rowOK] at h⟩
    simp only [core] at hc
    obtain ⟨hrow, rfl⟩ := hc
    obtain ⟨R1, R2, _⟩ := ihrow.2 hrow
    have hnr := need_ge row
    by_cases ht : isTuple row = true
    · -- tuple syntax
      have hp : ∀ p, print p (.record (fieldsLen row) row)
          = .lparen :: (printFields false (fieldsLen row) 0 row ++ [.rparen]) := by
        intro p; rw [print_record _ _ _ hrow, if_pos ht]; simp
      have ht' := ht
      simp only [isTuple, Bool.and_eq_true, bne_iff_ne, ne_eq] at ht'
      obtain ⟨⟨⟨_, hnames⟩, hlen1⟩, hclosed⟩ := ht'
      apply reads_atomic _ _ hp rfl (by intro rest; simp [HeadOK]) (by simp only [need]; omega)
      intro F rest hF hd
      simp only [need] at hF
      obtain ⟨G, rfl⟩ : ∃ G, F = G + 1 := ⟨F - 1, by omega⟩
      have hct := R2 G 0 rest (by omega)
      rw [Nat.zero_add] at hct
      have hres := pAtomic_tuple G _ rest (typesOf row) (by rw [typesOf_length]; exact hlen1)
        (head_printFields_false row hrow _ _ _) hct
      rw [typesOf_length, tupleRow_typesOf row hrow 0 hnames hclosed] at hres
      simpa using hres
    · -- brace syntax
      have hp : ∀ p, print p (.record (fieldsLen row) row)
          = .lbrace :: (printFields true (fieldsLen row) 0 row ++ (rowTail row ++ [.rbrace])) := by
        intro p; rw [print_record _ _ _ hrow, if_neg ht]; simp
      apply reads_atomic _ _ hp rfl (by intro rest; simp [HeadOK]) (by simp only [need]; omega)
      intro F rest hF hd
      simp only [need] at hF
      obtain ⟨G, rfl⟩ : ∃ G, F = G + 1 := ⟨F - 1, by omega⟩
      have e : Tok.lbrace :: (printFields true (fieldsLen row) 0 row ++ (rowTail row ++ [.rbrace])) ++ rest
          = .lbrace :: (printFields true (0 + fieldsLen row) 0 row ++ (rowTail row ++ .rbrace :: rest)) := by
        simp
      rw [e]
      have hm := mkRow_fieldsOf row hrow
      have hl := fieldsOf_length row
      rcases rowEnd_cases row hrow with ⟨hend, htail, _⟩ | ⟨r, hend, hr, htail, _⟩
      · rw [htail, List.nil_append]
        have hf := R1 G 0 (.rbrace :: rest) (by omega) trivial
        rw [Nat.zero_add] at hf
        rw [hend] at hm
        simp [pAtomic, hf, hm, hl]
      · rw [htail]
        have hf := R1 G 0 (.pipe :: .id r :: .rbrace :: rest) (by omega) trivial
        rw [Nat.zero_add] at hf
        obtain ⟨_, _, Cv, _⟩ := reads_var r hr
        have hv := Cv G (.rbrace :: rest) (by simp only [need]; omega) trivial
          (by simp [NoAtom, atomStart]) trivial
        rw [hend] at hm
        simp only [print_var, List.singleton_append] at hv
        simp [pAtomic, hf, hv, hm, hl]

/-- The fragment's theorem. -/
theorem reads_core (t : Ty) (hc : core t) : Reads t := (reads_all t).1 hc

theorem rowTail_of_isTuple (row : Ty) (h : rowOK row) (ht : isTuple row = true) : rowTail row = [] := by
  simp only [isTuple, Bool.and_eq_true] at ht
  rcases rowEnd_cases row h with ⟨_, h2, _⟩ | ⟨r, _, _, _, h4⟩
  · exact h2
  · rw [h4] at ht; simp at ht

theorem enclose_length (p l : Prec) (d : List Tok) : d.length ≤ (enclose p l d).length := by
  unfold enclose; split <;> simp; omega

/-- The fuel of the top-level entry points (`fuelFor`) is enough: the recursion depth `need t`
    is bounded by 8 × the number of printed tokens. -/
theorem need_le_tokens_all (t : Ty) :
    (core t → need t ≤ 8 * (print .top t).length ∧ argc t + 1 ≤ (print .top t).length ∧
      ∀ p, (print .top t).length ≤ (print p t).length) ∧
    (rowOK t → ∀ named c i, need t ≤ 8 * (printFields named c i t ++ rowTail t).length + 4) := by
  induction t with
  | hole => exact ⟨fun _ => by simp [need, argc], fun h => by simp [rowOK] at h⟩
  | «opaque» => exact ⟨fun h => by simp [core] at h, fun h => by simp [rowOK] at h⟩
  | con n => exact ⟨fun _ => by simp [need, argc], fun h => by simp [rowOK] at h⟩
  | var n => exact ⟨fun _ => by simp [need, argc], fun _ => by simp [need]⟩
  | arrow => exact ⟨fun _ => by simp [need, argc], fun h => by simp [rowOK] at h⟩
  | proj ids =>
    refine ⟨fun h => ?_, fun h => by simp [rowOK] at h⟩
    simp only [core] at h
    obtain ⟨a, b, l, rfl⟩ := proj_shape ids h
    simp [need, argc, print_proj]; omega
  | rtype n ps t rest _ _ => exact ⟨fun h => by simp [core] at h, fun h => by simp [rowOK] at h⟩
  | variant row _ => exact ⟨fun h => by simp [core] at h, fun h => by simp [rowOK] at h⟩
  | effect row ihrow =>
    refine ⟨fun hc => ?_, fun h => by simp [rowOK] at h⟩
    simp only [core] at hc
    have hr := ihrow.2 hc true (fieldsLen row) 0
    refine ⟨?_, ?_, fun p => by rw [print_effect, print_effect]; exact Nat.le_refl _⟩
    · rw [print_effect]
      simp only [need, List.length_append, List.length_cons, List.length_nil] at hr ⊢
      omega
    · rw [print_effect]; simp [argc]
  | rnil => exact ⟨fun h => by simp [core] at h, fun _ => by simp [need]⟩
  | fn i a r iha ihr =>
    refine ⟨fun hc => ?_, fun h => by simp [rowOK] at h⟩
    simp only [core] at hc
    obtain ⟨ha1, ha2, ha3⟩ := iha.1 hc.1
    obtain ⟨hr1, hr2, hr3⟩ := ihr.1 hc.2
    have hf := ha3 .function
    refine ⟨?_, ?_, ?_⟩
    · rw [print_fn, enclose_top _ _ (by decide)]
      simp only [need]
      cases i <;> simp <;> omega
    · rw [print_fn, enclose_top _ _ (by decide)]
      cases i <;> simp [argc] <;> omega
    · intro p
      rw [print_fn, print_fn, enclose_top _ _ (by decide)]
      exact enclose_length _ _ _
  | all vs b ihb =>
    refine ⟨fun hc => ?_, fun h => by simp [rowOK] at h⟩
    simp only [core] at hc
    obtain ⟨hb1, hb2, hb3⟩ := ihb.1 hc.2
    refine ⟨?_, ?_, ?_⟩
    · rw [print_all, enclose_top _ _ (by decide)]
      simp [need]; omega
    · rw [print_all, enclose_top _ _ (by decide)]
      simp [argc]
    · intro p
      rw [print_all, print_all, enclose_top _ _ (by decide)]
      exact enclose_length _ _ _
  | app f a ihf iha =>
    refine ⟨fun hc => ?_, fun h => by simp [rowOK] at h⟩
    simp only [core] at hc
    obtain ⟨hf1, hf2, hf3⟩ := ihf.1 hc.1
    obtain ⟨ha1, ha2, ha3⟩ := iha.1 hc.2.2
    have hcc := ha3 .constructor
    refine ⟨?_, ?_, ?_⟩
    · rw [print_app, enclose_top _ _ (by decide)]
      simp only [need, List.length_append]
      omega
    · rw [print_app, enclose_top _ _ (by decide)]
      simp only [argc, List.length_append]
      omega
    · intro p
      rw [print_app, print_app, enclose_top _ _ (by decide)]
      exact enclose_length _ _ _
  | rfield n t rest iht ihrest =>
    refine ⟨fun h => by simp [core] at h, fun h => ?_⟩
    simp only [rowOK] at h
    obtain ⟨ht1, ht2, _⟩ := iht.1 h.2.1
    intro named c i
    have hr := ihrest.2 h.2.2 named c (i + 1)
    simp only [printFields, rowTail, need, List.length_append] at hr ⊢
    omega
  | record cut row ihrow =>
    refine ⟨fun hc => ?_, fun h => by simp [rowOK] at h⟩
    simp only [core] at hc
    obtain ⟨hrow, rfl⟩ := hc
    have hr := ihrow.2 hrow
    have hp : ∀ p, (print p (.record (fieldsLen row) row)).length
        = (print .top (.record (fieldsLen row) row)).length := by
      intro p; rw [print_record _ _ _ hrow, print_record _ _ _ hrow]
    refine ⟨?_, ?_, fun p => by rw [hp p]; exact Nat.le_refl _⟩
    · rw [print_record _ _ _ hrow]
      simp only [need]
      split
      · rename_i ht
        have := hr false (fieldsLen row) 0
        rw [rowTail_of_isTuple row hrow ht] at this
        simp only [List.length_append, List.length_cons, List.length_nil] at this ⊢
        omega
      · have := hr true (fieldsLen row) 0
        simp only [List.length_append, List.length_cons, List.length_nil] at this ⊢
        omega
    · rw [print_record _ _ _ hrow]
      split <;> simp [argc]

theorem need_le_tokens (t : Ty) (hc : core t) : need t ≤ 8 * (print .top t).length :=
  ((need_le_tokens_all t).1 hc).1

/-- Except for a `forall`, a type of the fragment starts (at `Prec::Top`) with a token that
    starts an atomic type. -/
theorem head_top_atom (t : Ty) (hc : core t) (hnf : ∀ vs b, t ≠ .all vs b) (rest : List Tok) :
    ∃ tok ts, print .top t ++ rest = tok :: ts ∧ atomStart tok = true := by
  have fromOK : ∀ l, HeadOK l → ∃ tok ts, l = tok :: ts ∧ atomStart tok = true := by
    intro l hl
    obtain ⟨tok, ts, e, h1, _⟩ := hl.start
    exact ⟨tok, ts, e, h1⟩
  cases t with
  | hole => exact fromOK _ (by simp [HeadOK])
  | arrow => exact fromOK _ (by simp [HeadOK])
  | con n => exact fromOK _ (by simp [HeadOK])
  | var n => exact fromOK _ (by simp [HeadOK])
  | fn i a r =>
    simp only [core] at hc
    rw [print_fn, enclose_top _ _ (by decide)]
    cases i
    · have hok := headOK_fun a hc.1 ([.arrow] ++ (print .top r ++ rest))
      simp only [Bool.false_eq_true, if_false, List.append_assoc]
      exact fromOK _ hok
    · simp only [if_true, List.append_assoc, List.cons_append, List.nil_append]
      exact ⟨_, _, rfl, by simp [atomStart]⟩
  | all vs b => exact absurd rfl (hnf _ _)
  | app f a => exact fromOK _ (headOK_headLike (.app f a) hc rfl rest)
  | proj ids =>
    simp only [core] at hc
    obtain ⟨a, b, l, rfl⟩ := proj_shape ids hc
    exact fromOK _ (by rw [print_proj]; simp [HeadOK])
  | effect row => exact fromOK _ (by rw [print_effect]; simp [HeadOK])
  | record cut row => simp only [core] at hc; exact fromOK _ (headOK_record _ _ _ hc.1 _)
  | _ => simp [core] at hc

theorem pTop_atomStart (f : Nat) (tok : Tok) (ts : List Tok) (h : atomStart tok = true) :
    pTop f (tok :: ts) = pType f (tok :: ts) := by
  cases tok <;> simp [pTop, atomStart] at h ⊢

end GluonModel.Proofs.TypeRows
