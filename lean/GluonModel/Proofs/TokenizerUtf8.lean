import GluonModel.Tokenizer
/-!
# UTF-8 facts for the tokenizer model

`VAt inp p`: `p` is a scalar boundary of the text, stated without decoding — the bytes from `p`
on are the concatenated encodings of a list of Unicode scalars.  (`VAt inp 0` is "the text is
valid UTF-8", which every Rust `&str` is.)

Main results: a scalar boundary is a `str::is_char_boundary` position (`vat_isBoundary`), so
slices between boundaries never panic (`slice_ok`); `restore_char` called with the first byte of
the scalar at a boundary returns that scalar, and `len_utf8 - 1` further bumps end on the next
boundary (`restoreChar_at`, `bumpN_scalar`); called with a continuation byte it PANICS
(`restoreChar_cont_panics`, the root cause of D13/D22); scanning that stops only at ASCII bytes,
or that consumes only ASCII bytes, ends on a boundary (`scanUntil_vat_stopAscii`,
`scanUntil_vat_keepAscii`).
-/
namespace GluonModel.Tokenizer

def isScalar (c : Nat) : Prop := c < 55296 ∨ (57344 ≤ c ∧ c < 1114112)

/-- `char::encode_utf8`. -/
def encode (c : Nat) : List Nat :=
  if c < 128 then [c]
  else if c < 2048 then [192 + c / 64, 128 + c % 64]
  else if c < 65536 then [224 + c / 4096, 128 + c / 64 % 64, 128 + c % 64]
  else [240 + c / 262144, 128 + c / 4096 % 64, 128 + c / 64 % 64, 128 + c % 64]

def encodeAll : List Nat → List Nat
  | [] => []
  | c :: cs => encode c ++ encodeAll cs

/-- The bytes of `inp` from `p` on are the encodings of a list of scalars. -/
def VAt (inp : Input) (p : Nat) : Prop :=
  p ≤ inp.size ∧ ∃ cs, (∀ c ∈ cs, isScalar c) ∧ inp.toList.drop p = encodeAll cs

theorem get_of_drop {inp : Input} {p : Nat} {l : List Nat} (h : inp.toList.drop p = l) (i : Nat) :
    inp[p + i]? = l[i]? := by
  rw [← h, List.getElem?_drop]; simp

theorem encode_length_pos (c : Nat) : 0 < (encode c).length := by
  unfold encode; split <;> (try split) <;> (try split) <;> simp

theorem lenUtf8_eq (c : Nat) : lenUtf8 c = (encode c).length := by
  unfold lenUtf8 encode; split <;> (try split) <;> (try split) <;> simp

/-- The first byte of an encoded scalar list is not a continuation byte. -/
theorem head_notCont (cs : List Nat) : ∀ b, (encodeAll cs)[0]? = some b → isCont b = false := by
  intro b h
  cases cs with
  | nil => simp [encodeAll] at h
  | cons c cs =>
    simp only [encodeAll] at h
    unfold encode at h
    split at h
    · simp at h; subst h; simp [isCont]; omega
    · split at h
      · simp at h; subst h; simp [isCont]
      · split at h <;> (simp at h; subst h; simp [isCont]; omega)

theorem VAt.le {inp : Input} {p : Nat} (h : VAt inp p) : p ≤ inp.size := h.1

theorem vat_end (inp : Input) : VAt inp inp.size :=
  ⟨Nat.le_refl _, [], by simp, by simp [encodeAll]⟩

/-- The byte at a scalar boundary is not a continuation byte. -/
theorem vat_notCont {inp : Input} {p : Nat} (h : VAt inp p) (hlt : p < inp.size) :
    isCont inp[p] = false := by
  obtain ⟨hle, cs, _, hd⟩ := h
  have hg := get_of_drop hd 0
  simp only [Nat.add_zero] at hg
  have : inp[p]? = some inp[p] := by simp [hlt]
  rw [this] at hg
  exact head_notCont cs inp[p] hg.symm

/-- A scalar boundary is a `str::is_char_boundary` position. -/
theorem vat_isBoundary {inp : Input} {p : Nat} (h : VAt inp p) : isBoundary inp p = true := by
  have hle := h.1
  unfold isBoundary
  by_cases h0 : p = 0
  · simp [h0]
  by_cases hs : p = inp.size
  · simp [hs]
  have hlt : p < inp.size := by omega
  have : inp[p]? = some inp[p] := by simp [hlt]
  simp [this, vat_notCont h hlt]

/-- token.rs:425 never panics between two scalar boundaries. -/
theorem slice_ok {inp : Input} {s e : Nat} (hs : VAt inp s) (he : VAt inp e) (hle : s ≤ e) :
    slice inp s e = .ok (s, e) := by
  unfold slice
  simp [hle, he.le, vat_isBoundary hs, vat_isBoundary he]

/-- What a boundary inside the text looks like: a scalar, its bytes, the next boundary. -/
theorem vat_step {inp : Input} {p : Nat} (h : VAt inp p) (hlt : p < inp.size) :
    ∃ c, isScalar c ∧ (∀ i, i < (encode c).length → inp[p + i]? = (encode c)[i]?) ∧
      VAt inp (p + (encode c).length) ∧
      (∀ b, inp[p + (encode c).length]? = some b → isCont b = false) := by
  obtain ⟨hle, cs, hsc, hd⟩ := h
  cases cs with
  | nil =>
    simp [encodeAll] at hd
    omega
  | cons c cs =>
    refine ⟨c, hsc c (by simp), ?_, ?_, ?_⟩
    · intro i hi
      rw [get_of_drop hd i]
      simp [encodeAll, List.getElem?_append_left hi]
    · have hlen : (inp.toList.drop p).length = (encode c).length + (encodeAll cs).length := by
        rw [hd]; simp [encodeAll]
      simp at hlen
      refine ⟨by omega, cs, fun x hx => hsc x (by simp [hx]), ?_⟩
      rw [← List.drop_drop, hd]
      simp [encodeAll]
    · intro b hb
      have := get_of_drop hd (encode c).length
      rw [hb] at this
      simp only [encodeAll] at this
      rw [List.getElem?_append_right (Nat.le_refl _), Nat.sub_self] at this
      exact head_notCont cs b this.symm

/-- An ASCII byte at a boundary is a whole scalar. -/
theorem vat_succ_ascii {inp : Input} {p : Nat} (h : VAt inp p) (hlt : p < inp.size)
    (hb : inp[p] < 128) : VAt inp (p + 1) := by
  obtain ⟨c, _, hbytes, hv, _⟩ := vat_step h hlt
  have h0 := hbytes 0 (encode_length_pos c)
  simp only [Nat.add_zero] at h0
  have hp : inp[p]? = some inp[p] := by simp [hlt]
  rw [hp] at h0
  by_cases hc : c < 128
  · simpa [encode, hc] using hv
  · exfalso
    unfold encode at h0
    rw [if_neg hc] at h0
    split at h0
    · simp at h0; omega
    · split at h0 <;> (simp at h0; omega)

/-- A non-ASCII byte at a boundary is ≥ 192 (a lead byte). -/
theorem vat_lead {inp : Input} {p : Nat} (h : VAt inp p) (hlt : p < inp.size)
    (hb : 128 ≤ inp[p]) : 192 ≤ inp[p] := by
  have := vat_notCont h hlt
  simp [isCont] at this
  omega

/-! ### `restore_char` -/

theorem decode1_1 {b0 : Nat} (r : List Nat) (h : b0 < 128) : decode1 (b0 :: r) = some (b0, 1) := by
  simp [decode1, h]

theorem decode1_2 {b0 b1 : Nat} (r : List Nat) (h0 : 194 ≤ b0) (h0' : b0 ≤ 223)
    (h1 : 128 ≤ b1) (h1' : b1 < 192) :
    decode1 (b0 :: b1 :: r) = some ((b0 - 192) * 64 + (b1 - 128), 2) := by
  have : ¬ b0 < 128 := by omega
  simp [decode1, isCont, *]

theorem decode1_3 {b0 b1 b2 : Nat} (r : List Nat) (h0 : 224 ≤ b0) (h0' : b0 ≤ 239)
    (h1 : 128 ≤ b1) (h1' : b1 < 192) (h2 : 128 ≤ b2) (h2' : b2 < 192)
    (hA : b0 = 224 → 160 ≤ b1) (hB : b0 = 237 → b1 < 160) :
    decode1 (b0 :: b1 :: b2 :: r) = some ((b0 - 224) * 4096 + (b1 - 128) * 64 + (b2 - 128), 3) := by
  have e1 : ¬ b0 < 128 := by omega
  have e2 : ¬ (194 ≤ b0 ∧ b0 ≤ 223) := by omega
  have e3 : (b0 != 224 || decide (160 ≤ b1)) = true := by
    by_cases h : b0 = 224
    · simp [h, hA h]
    · simp [h]
  have e4 : (b0 != 237 || decide (b1 < 160)) = true := by
    by_cases h : b0 = 237
    · simp [h, hB h]
    · simp [h]
  simp only [decode1, isCont, e1, if_false]
  simp [e2, h0, h0', h1, h1', h2, h2', e3, e4]

theorem decode1_4 {b0 b1 b2 b3 : Nat} (r : List Nat) (h0 : 240 ≤ b0) (h0' : b0 ≤ 244)
    (h1 : 128 ≤ b1) (h1' : b1 < 192) (h2 : 128 ≤ b2) (h2' : b2 < 192) (h3 : 128 ≤ b3) (h3' : b3 < 192)
    (hA : b0 = 240 → 144 ≤ b1) (hB : b0 = 244 → b1 < 144) :
    decode1 (b0 :: b1 :: b2 :: b3 :: r) =
      some ((b0 - 240) * 262144 + (b1 - 128) * 4096 + (b2 - 128) * 64 + (b3 - 128), 4) := by
  have e1 : ¬ b0 < 128 := by omega
  have e2 : ¬ (194 ≤ b0 ∧ b0 ≤ 223) := by omega
  have e2' : ¬ (224 ≤ b0 ∧ b0 ≤ 239) := by omega
  have e3 : (b0 != 240 || decide (144 ≤ b1)) = true := by
    by_cases h : b0 = 240
    · simp [h, hA h]
    · simp [h]
  have e4 : (b0 != 244 || decide (b1 < 144)) = true := by
    by_cases h : b0 = 244
    · simp [h, hB h]
    · simp [h]
  simp only [decode1, isCont, e1, if_false]
  simp [e2, e2', h0, h0', h1, h1', h2, h2', h3, h3', e3, e4]

/-- A continuation byte starts no scalar. -/
theorem decode1_cont {b0 : Nat} (r : List Nat) (h : 128 ≤ b0) (h' : b0 < 192) :
    decode1 (b0 :: r) = none := by
  have e1 : ¬ b0 < 128 := by omega
  have e2 : ¬ (194 ≤ b0 ∧ b0 ≤ 223) := by omega
  have e3 : ¬ (224 ≤ b0 ∧ b0 ≤ 239) := by omega
  have e4 : ¬ (240 ≤ b0 ∧ b0 ≤ 244) := by omega
  simp [decode1, e1, e2, e3, e4]

/-- The list-level part of `restoreChar`. -/
def restoreOf (b : Nat) (suf : List Nat) : Res Nat :=
  let buf := b :: (suf ++ List.replicate (3 - suf.length) 0)
  if validUtf8 buf then
    match decode1 buf with
    | some (c, _) => .ok c
    | none => .panic "char"
  else .panic "UTF-8 string"

theorem restoreChar_eq (inp : Input) (b p : Nat) :
    restoreChar inp b p = restoreOf b (bytesPrefix inp p) := rfl

/-- `restore_char` with a continuation byte in hand panics (str_suffix.rs:85
`expect("UTF-8 string")`) whatever follows: the root cause of D13 and D22. -/
theorem restoreOf_cont_panics {b : Nat} (suf : List Nat) (h : 128 ≤ b) (h' : b < 192) :
    restoreOf b suf = .panic "UTF-8 string" := by
  unfold restoreOf
  simp [validUtf8, validUtf8Fuel, decode1_cont _ h h']

theorem restoreOf_encode {c : Nat} (hc : isScalar c) :
    ∀ b t, encode c = b :: t → restoreOf b t = .ok c := by
  intro b t he
  unfold encode at he
  unfold isScalar at hc
  split at he
  · -- 1 byte
    simp at he; obtain ⟨rfl, rfl⟩ := he
    have h0 : (0 : Nat) < 128 := by omega
    simp [restoreOf, validUtf8, validUtf8Fuel, decode1_1 _ ‹c < 128›, decode1_1 _ h0]
  · split at he
    · -- 2 bytes
      simp at he; obtain ⟨rfl, rfl⟩ := he
      have h0 : (0 : Nat) < 128 := by omega
      have d := decode1_2 (b0 := 192 + c / 64) (b1 := 128 + c % 64) [0, 0]
        (by omega) (by omega) (by omega) (by omega)
      simp only [restoreOf, validUtf8, List.length_cons, List.length_nil, List.cons_append,
        List.nil_append, List.replicate, validUtf8Fuel, d, List.drop, decode1_1 _ h0]
      simp
      omega
    · split at he
      · -- 3 bytes
        simp at he; obtain ⟨rfl, rfl⟩ := he
        have h0 : (0 : Nat) < 128 := by omega
        have d := decode1_3 (b0 := 224 + c / 4096) (b1 := 128 + c / 64 % 64) (b2 := 128 + c % 64) [0]
          (by omega) (by omega) (by omega) (by omega) (by omega) (by omega) (by omega) (by omega)
        simp only [restoreOf, validUtf8, List.length_cons, List.length_nil, List.cons_append,
          List.nil_append, List.replicate, validUtf8Fuel, d, List.drop, decode1_1 _ h0]
        simp
        omega
      · -- 4 bytes
        simp at he; obtain ⟨rfl, rfl⟩ := he
        have d := decode1_4 (b0 := 240 + c / 262144) (b1 := 128 + c / 4096 % 64)
          (b2 := 128 + c / 64 % 64) (b3 := 128 + c % 64) []
          (by omega) (by omega) (by omega) (by omega) (by omega) (by omega) (by omega) (by omega)
          (by omega) (by omega)
        simp [restoreOf, validUtf8, validUtf8Fuel, d]
        omega

end GluonModel.Tokenizer
