/-
C03 — termination of `unify` (syntactic rows): some fuel always suffices, and more fuel never
changes an answer.  Measure: (number of variables in a duplicate-free bound list, size).
-/
import GluonModel.HM
import GluonModel.Proofs.HM

namespace GluonModel.HM.Proofs
open GluonModel.HM

theorem mem_ftv_subst (σ : Subst) (x : Nat) (u : Ty) :
    x ∈ (u.subst σ).ftv ↔ ∃ w, w ∈ u.ftv ∧ x ∈ (σ w).ftv := by
  induction u with
  | var n => simp [Ty.subst, Ty.ftv]
  | con c => simp [Ty.subst, Ty.ftv]
  | empty => simp [Ty.subst, Ty.ftv]
  | app f a ihf iha =>
    simp only [Ty.subst, Ty.ftv, List.mem_append, ihf, iha]
    constructor
    · rintro (⟨w, hw, hx⟩ | ⟨w, hw, hx⟩)
      · exact ⟨w, Or.inl hw, hx⟩
      · exact ⟨w, Or.inr hw, hx⟩
    · rintro ⟨w, hw | hw, hx⟩
      · exact Or.inl ⟨w, hw, hx⟩
      · exact Or.inr ⟨w, hw, hx⟩
  | ext l t r iht ihr =>
    simp only [Ty.subst, Ty.ftv, List.mem_append, iht, ihr]
    constructor
    · rintro (⟨w, hw, hx⟩ | ⟨w, hw, hx⟩)
      · exact ⟨w, Or.inl hw, hx⟩
      · exact ⟨w, Or.inr hw, hx⟩
    · rintro ⟨w, hw | hw, hx⟩
      · exact Or.inl ⟨w, hw, hx⟩
      · exact Or.inr ⟨w, hw, hx⟩

theorem occurs_iff_mem_ftv (a : Nat) (t : Ty) : t.occurs a = true ↔ a ∈ t.ftv := by
  induction t with
  | var n =>
    simp only [Ty.occurs, Ty.ftv, List.mem_singleton, beq_iff_eq]
    exact eq_comm
  | con c => simp [Ty.occurs, Ty.ftv]
  | empty => simp [Ty.occurs, Ty.ftv]
  | app f x ihf ihx => simp [Ty.occurs, Ty.ftv, ihf, ihx]
  | ext l t r iht ihr => simp [Ty.occurs, Ty.ftv, iht, ihr]

/-- the substitution acts as the identity -/
def IsId (σ : Subst) : Prop := ∀ v, σ v = .var v

theorem subst_of_isId (σ : Subst) (h : IsId σ) (u : Ty) : u.subst σ = u := by
  have : u.subst σ = u.subst Subst.id := subst_congr σ Subst.id u h
  rw [this, subst_id]

/-- range of `σ` stays inside `V` (apart from the variable itself) -/
def Range (σ : Subst) (V : List Nat) : Prop := ∀ v x, x ∈ (σ v).ftv → x = v ∨ x ∈ V

/-- `σ` is the identity or removes some variable of `V` from every type -/
def Progress (σ : Subst) (V : List Nat) : Prop :=
  IsId σ ∨ ∃ a, a ∈ V ∧ ∀ v, a ∉ (σ v).ftv

def Sub (u : Ty) (V : List Nat) : Prop := ∀ x, x ∈ u.ftv → x ∈ V

theorem sub_subst (σ : Subst) (V : List Nat) (u : Ty) (hr : Range σ V) (hu : Sub u V) :
    Sub (u.subst σ) V := by
  intro x hx
  rcases (mem_ftv_subst σ x u).1 hx with ⟨w, hw, hxw⟩
  rcases hr w x hxw with h | h
  · subst h; exact hu _ hw
  · exact h

theorem sub_subst_elim (σ : Subst) (V : List Nat) (a : Nat) (u : Ty) (hr : Range σ V)
    (he : ∀ v, a ∉ (σ v).ftv) (hu : Sub u V) :
    Sub (u.subst σ) (V.filter fun y => y != a) := by
  intro x hx
  have hxV := sub_subst σ V u hr hu x hx
  rcases (mem_ftv_subst σ x u).1 hx with ⟨w, _, hxw⟩
  have : x ≠ a := by
    intro h; subst h; exact he w hxw
  simp [List.mem_filter, hxV, this]

theorem bindVar_inv (a : Nat) (t : Ty) (n n' : Nat) (σ : Subst) (V : List Nat)
    (h : bindVar a t n = .ok (σ, n')) (ha : a ∈ V) (ht : Sub t V) :
    Range σ V ∧ Progress σ V ∧ n' = n := by
  unfold bindVar at h
  split at h
  · injection h with h; injection h with h₁ h₂
    subst h₁
    refine ⟨?_, Or.inl (fun v => rfl), h₂.symm⟩
    intro v x hx
    simp [Subst.id, Ty.ftv] at hx
    exact Or.inl hx
  · split at h
    · cases h
    · next hocc =>
      injection h with h; injection h with h₁ h₂
      subst h₁
      have hna : a ∉ t.ftv := by
        intro hm
        exact hocc ((occurs_iff_mem_ftv a t).2 hm)
      refine ⟨?_, Or.inr ⟨a, ha, ?_⟩, h₂.symm⟩
      · intro v x hx
        by_cases hv : v = a
        · subst hv
          simp [Subst.single] at hx
          exact Or.inr (ht x hx)
        · simp [Subst.single, hv, Ty.ftv] at hx
          exact Or.inl hx
      · intro v
        by_cases hv : v = a
        · subst hv; simpa [Subst.single] using hna
        · simp [Subst.single, hv, Ty.ftv]; exact fun h => hv h.symm

theorem range_comp (σ₁ σ₂ : Subst) (V : List Nat) (h₁ : Range σ₁ V) (h₂ : Range σ₂ V) :
    Range (σ₂.comp σ₁) V := by
  intro v x hx
  rcases (mem_ftv_subst σ₂ x (σ₁ v)).1 hx with ⟨w, hw, hxw⟩
  rcases h₂ w x hxw with h | h
  · subst h; exact h₁ v x hw
  · exact Or.inr h

theorem range_mono (σ : Subst) (V W : List Nat) (h : Range σ W) (hs : ∀ x, x ∈ W → x ∈ V) :
    Range σ V := by
  intro v x hx
  rcases h v x hx with h | h
  · exact Or.inl h
  · exact Or.inr (hs x h)

/-- the common two-step shape of the `app` and `ext` cases -/
def twoStep (fuel n : Nat) (f g a b : Ty) : Except UErr (Subst × Nat) :=
  match unify false fuel n f g with
  | .error e => .error e
  | .ok (σ₁, n₁) =>
    match unify false fuel n₁ (a.subst σ₁) (b.subst σ₁) with
    | .error e => .error e
    | .ok (σ₂, n₂) => .ok (σ₂.comp σ₁, n₂)

theorem unify_app_app (fuel n : Nat) (f a g b : Ty) :
    unify false (fuel + 1) n (.app f a) (.app g b) = twoStep fuel n f g a b := by
  simp only [unify, twoStep]
  rfl

theorem unify_ext_ext (fuel n : Nat) (l l' : String) (a r a' r' : Ty) :
    unify false (fuel + 1) n (.ext l a r) (.ext l' a' r') =
      if l = l' then twoStep fuel n a a' r r' else .error .clash := by
  simp only [unify, twoStep, Bool.false_and, Bool.false_eq_true, ↓reduceIte]
  rfl

/-- Invariant of successful unification: range inside the variables of the inputs, and either
    nothing was bound or a variable was eliminated. -/
theorem unify_inv : ∀ (fuel n : Nat) (s t : Ty) (σ : Subst) (n' : Nat) (V : List Nat),
    unify false fuel n s t = .ok (σ, n') → Sub s V → Sub t V →
    Range σ V ∧ Progress σ V := by
  intro fuel
  induction fuel with
  | zero => intro n s t σ n' V h; simp [unify] at h
  | succ fuel ih =>
    intro n s t σ n' V h hs ht
    have two : ∀ (f g a b : Ty), twoStep fuel n f g a b = .ok (σ, n') →
        Sub f V → Sub g V → Sub a V → Sub b V → Range σ V ∧ Progress σ V := by
      intro f g a b h hf hg ha hb
      unfold twoStep at h
      split at h
      · cases h
      · next σ₁ n₁ h₁ =>
        split at h
        · cases h
        · next σ₂ n₂ h₂ =>
          injection h with h; injection h with hσ _
          subst hσ
          obtain ⟨r₁, p₁⟩ := ih n f g σ₁ n₁ V h₁ hf hg
          rcases p₁ with hid | ⟨a₀, ha₀, hel⟩
          · obtain ⟨r₂, p₂⟩ := ih n₁ _ _ σ₂ n₂ V h₂ (sub_subst σ₁ V a r₁ ha) (sub_subst σ₁ V b r₁ hb)
            refine ⟨range_comp σ₁ σ₂ V r₁ r₂, ?_⟩
            have hc : ∀ v, (σ₂.comp σ₁) v = σ₂ v := by
              intro v; simp [Subst.comp, hid v, Ty.subst]
            rcases p₂ with hid₂ | ⟨a₁, ha₁, hel₁⟩
            · exact Or.inl (fun v => by rw [hc v]; exact hid₂ v)
            · exact Or.inr ⟨a₁, ha₁, fun v => by rw [hc v]; exact hel₁ v⟩
          · obtain ⟨r₂, _⟩ := ih n₁ _ _ σ₂ n₂ (V.filter fun y => y != a₀) h₂
              (sub_subst_elim σ₁ V a₀ a r₁ hel ha) (sub_subst_elim σ₁ V a₀ b r₁ hel hb)
            have r₂' : Range σ₂ V := range_mono σ₂ V _ r₂ (fun x hx => (List.mem_filter.1 hx).1)
            refine ⟨range_comp σ₁ σ₂ V r₁ r₂', Or.inr ⟨a₀, ha₀, ?_⟩⟩
            intro v hm
            rcases (mem_ftv_subst σ₂ a₀ (σ₁ v)).1 hm with ⟨w, hw, hxw⟩
            rcases r₂ w a₀ hxw with h | h
            · subst h; exact hel v hw
            · simp [List.mem_filter] at h
    have bv : ∀ a u, bindVar a u n = .ok (σ, n') → a ∈ V → Sub u V → Range σ V ∧ Progress σ V := by
      intro a u h ha hu
      obtain ⟨r, p, _⟩ := bindVar_inv a u n n' σ V h ha hu
      exact ⟨r, p⟩
    have idc : ∀ m, (Except.ok (Subst.id, m) : Except UErr (Subst × Nat)) = .ok (σ, n') →
        Range σ V ∧ Progress σ V := by
      intro m h
      injection h with h; injection h with h₁ _
      subst h₁
      refine ⟨?_, Or.inl (fun v => rfl)⟩
      intro v x hx
      simp [Subst.id, Ty.ftv] at hx
      exact Or.inl hx
    cases s with
    | var a =>
      simp only [unify] at h
      exact bv a t h (hs a (by simp [Ty.ftv])) ht
    | con c =>
      cases t with
      | var b => simp only [unify] at h; exact bv b _ h (ht b (by simp [Ty.ftv])) hs
      | con d =>
        simp only [unify] at h
        split at h
        · exact idc n h
        · cases h
      | app _ _ => simp [unify] at h
      | ext _ _ _ => simp [unify] at h
      | empty => simp [unify] at h
    | empty =>
      cases t with
      | var b => simp only [unify] at h; exact bv b _ h (ht b (by simp [Ty.ftv])) hs
      | empty => simp only [unify] at h; exact idc n h
      | con _ => simp [unify] at h
      | app _ _ => simp [unify] at h
      | ext _ _ _ => simp [unify] at h
    | app f a =>
      cases t with
      | var b => simp only [unify] at h; exact bv b _ h (ht b (by simp [Ty.ftv])) hs
      | app g b =>
        rw [unify_app_app] at h
        exact two f g a b h (fun x hx => hs x (by simp [Ty.ftv, hx]))
          (fun x hx => ht x (by simp [Ty.ftv, hx])) (fun x hx => hs x (by simp [Ty.ftv, hx]))
          (fun x hx => ht x (by simp [Ty.ftv, hx]))
      | con _ => simp [unify] at h
      | ext _ _ _ => simp [unify] at h
      | empty => simp [unify] at h
    | ext l a r =>
      cases t with
      | var b => simp only [unify] at h; exact bv b _ h (ht b (by simp [Ty.ftv])) hs
      | ext l' a' r' =>
        rw [unify_ext_ext] at h
        split at h
        · exact two a a' r r' h (fun x hx => hs x (by simp [Ty.ftv, hx]))
            (fun x hx => ht x (by simp [Ty.ftv, hx])) (fun x hx => hs x (by simp [Ty.ftv, hx]))
            (fun x hx => ht x (by simp [Ty.ftv, hx]))
        · cases h
      | con _ => simp [unify] at h
      | app _ _ => simp [unify] at h
      | empty => simp [unify] at h


/-! ### more fuel never changes an answer -/

theorem twoStep_mono (fuel n : Nat) (f g a b : Ty) (r : Except UErr (Subst × Nat))
    (ih : ∀ (n : Nat) (s t : Ty) (r : Except UErr (Subst × Nat)),
      unify false fuel n s t = r → r ≠ .error .fuel → unify false (fuel + 1) n s t = r)
    (h : twoStep fuel n f g a b = r) (hr : r ≠ .error .fuel) :
    twoStep (fuel + 1) n f g a b = r := by
  unfold twoStep at h ⊢
  cases h₁ : unify false fuel n f g with
  | error e =>
    rw [h₁] at h
    have he : e ≠ .fuel := by intro he; subst he; exact hr h.symm
    rw [ih n f g _ h₁ (by intro hh; injection hh with hh; exact he hh)]
    exact h
  | ok p =>
    obtain ⟨σ₁, n₁⟩ := p
    rw [h₁] at h
    rw [ih n f g _ h₁ (by intro hh; cases hh)]
    simp only at h ⊢
    cases h₂ : unify false fuel n₁ (a.subst σ₁) (b.subst σ₁) with
    | error e =>
      rw [h₂] at h
      have he : e ≠ .fuel := by intro he; subst he; exact hr h.symm
      rw [ih n₁ _ _ _ h₂ (by intro hh; injection hh with hh; exact he hh)]
      exact h
    | ok q =>
      rw [h₂] at h
      rw [ih n₁ _ _ _ h₂ (by intro hh; cases hh)]
      exact h

theorem unify_mono_succ : ∀ (fuel n : Nat) (s t : Ty) (r : Except UErr (Subst × Nat)),
    unify false fuel n s t = r → r ≠ .error .fuel → unify false (fuel + 1) n s t = r := by
  intro fuel
  induction fuel with
  | zero => intro n s t r h hr; simp [unify] at h; exact absurd h.symm hr
  | succ fuel ih =>
    intro n s t r h hr
    cases s with
    | var a => simp only [unify] at h ⊢; exact h
    | con c =>
      cases t with
      | var b => simp only [unify] at h ⊢; exact h
      | con d => simp only [unify] at h ⊢; exact h
      | app _ _ => simp only [unify] at h ⊢; exact h
      | ext _ _ _ => simp only [unify] at h ⊢; exact h
      | empty => simp only [unify] at h ⊢; exact h
    | empty =>
      cases t with
      | var b => simp only [unify] at h ⊢; exact h
      | empty => simp only [unify] at h ⊢; exact h
      | con _ => simp only [unify] at h ⊢; exact h
      | app _ _ => simp only [unify] at h ⊢; exact h
      | ext _ _ _ => simp only [unify] at h ⊢; exact h
    | app f a =>
      cases t with
      | var b => simp only [unify] at h ⊢; exact h
      | app g b =>
        rw [unify_app_app] at h ⊢
        exact twoStep_mono fuel n f g a b r ih h hr
      | con _ => simp only [unify] at h ⊢; exact h
      | ext _ _ _ => simp only [unify] at h ⊢; exact h
      | empty => simp only [unify] at h ⊢; exact h
    | ext l a r' =>
      cases t with
      | var b => simp only [unify] at h ⊢; exact h
      | ext l' a' r'' =>
        rw [unify_ext_ext] at h ⊢
        split
        · next hl => rw [if_pos hl] at h; exact twoStep_mono fuel n a a' r' r'' r ih h hr
        · next hl => rw [if_neg hl] at h; exact h
      | con _ => simp only [unify] at h ⊢; exact h
      | app _ _ => simp only [unify] at h ⊢; exact h
      | empty => simp only [unify] at h ⊢; exact h

theorem unify_mono (fuel fuel' n : Nat) (s t : Ty) (r : Except UErr (Subst × Nat))
    (hle : fuel ≤ fuel') (h : unify false fuel n s t = r) (hr : r ≠ .error .fuel) :
    unify false fuel' n s t = r := by
  induction hle with
  | refl => exact h
  | step _ ih => exact unify_mono_succ _ n s t r ih hr

/-! ### some fuel suffices -/

theorem length_filter_ne_lt (V : List Nat) (a : Nat) (h : a ∈ V) :
    (V.filter fun y => y != a).length < V.length := by
  induction V with
  | nil => cases h
  | cons x xs ih =>
    by_cases hx : x = a
    · subst hx
      simp only [List.filter, bne_self_eq_false, List.length_cons]
      exact Nat.lt_succ_of_le (List.length_filter_le _ _)
    · have hm : a ∈ xs := by
        cases h with
        | head => exact absurd rfl hx
        | tail _ h => exact h
      have : (x != a) = true := by simp [hx]
      simp only [List.filter, this, List.length_cons]
      exact Nat.succ_lt_succ (ih hm)

theorem twoStep_fuel (n : Nat) (f g a b : Ty) (V : List Nat)
    (hf : Sub f V) (hg : Sub g V) (ha : Sub a V) (hb : Sub b V)
    (h₁ : ∃ N, unify false N n f g ≠ .error .fuel)
    (hsame : ∀ n₁, ∃ N, unify false N n₁ a b ≠ .error .fuel)
    (hless : ∀ (W : List Nat) (u v : Ty) (n₁ : Nat), W.length < V.length → Sub u W → Sub v W →
      ∃ N, unify false N n₁ u v ≠ .error .fuel) :
    ∃ N, twoStep N n f g a b ≠ .error .fuel := by
  obtain ⟨N₁, hN₁⟩ := h₁
  cases e₁ : unify false N₁ n f g with
  | error e =>
    refine ⟨N₁, ?_⟩
    unfold twoStep; rw [e₁]
    intro hh; injection hh with hh; subst hh; exact hN₁ e₁
  | ok p =>
    obtain ⟨σ₁, n₁⟩ := p
    obtain ⟨r₁, p₁⟩ := unify_inv N₁ n f g σ₁ n₁ V e₁ hf hg
    have h₂ : ∃ N, unify false N n₁ (a.subst σ₁) (b.subst σ₁) ≠ .error .fuel := by
      rcases p₁ with hid | ⟨a₀, ha₀, hel⟩
      · rw [subst_of_isId σ₁ hid a, subst_of_isId σ₁ hid b]; exact hsame n₁
      · exact hless _ _ _ n₁ (length_filter_ne_lt V a₀ ha₀)
          (sub_subst_elim σ₁ V a₀ a r₁ hel ha) (sub_subst_elim σ₁ V a₀ b r₁ hel hb)
    obtain ⟨N₂, hN₂⟩ := h₂
    refine ⟨max N₁ N₂, ?_⟩
    unfold twoStep
    rw [unify_mono N₁ (max N₁ N₂) n f g _ (Nat.le_max_left _ _) e₁ (by intro hh; cases hh)]
    simp only
    rw [unify_mono N₂ (max N₁ N₂) n₁ _ _ _ (Nat.le_max_right _ _) rfl hN₂]
    cases e₂ : unify false N₂ n₁ (a.subst σ₁) (b.subst σ₁) with
    | error e =>
      simp only
      intro hh; injection hh with hh; subst hh; exact hN₂ e₂
    | ok q => simp

theorem unify_fuel_aux : ∀ (k : Nat) (V : List Nat), V.length < k → ∀ (m : Nat) (s t : Ty) (n : Nat),
    s.size ≤ m → Sub s V → Sub t V → ∃ N, unify false N n s t ≠ .error .fuel := by
  intro k
  induction k with
  | zero => intro V h; exact absurd h (Nat.not_lt_zero _)
  | succ k ihk =>
    intro V hV m
    induction m with
    | zero =>
      intro s t n hs
      have := size_pos s
      omega
    | succ m ihm =>
      intro s t n hsz hs ht
      have one : ∀ r, unify false 1 n s t = r → r ≠ .error .fuel →
          ∃ N, unify false N n s t ≠ .error .fuel := by
        intro r h hr; exact ⟨1, by rw [h]; exact hr⟩
      have bv : ∀ a u, bindVar a u n ≠ .error .fuel := by
        intro a u
        unfold bindVar
        split
        · simp
        · split <;> simp
      have hless : ∀ (W : List Nat) (u v : Ty) (n₁ : Nat), W.length < V.length → Sub u W → Sub v W →
          ∃ N, unify false N n₁ u v ≠ .error .fuel := by
        intro W u v n₁ hW hu hv
        exact ihk W (by omega) u.size u v n₁ (Nat.le_refl _) hu hv
      cases s with
      | var a => exact ⟨1, by simp only [unify]; exact bv a t⟩
      | con c =>
        cases t with
        | var b => exact ⟨1, by simp only [unify]; exact bv b _⟩
        | con d =>
          refine ⟨1, ?_⟩
          simp only [unify]
          split <;> simp
        | app _ _ => exact ⟨1, by simp [unify]⟩
        | ext _ _ _ => exact ⟨1, by simp [unify]⟩
        | empty => exact ⟨1, by simp [unify]⟩
      | empty =>
        cases t with
        | var b => exact ⟨1, by simp only [unify]; exact bv b _⟩
        | empty => exact ⟨1, by simp [unify]⟩
        | con _ => exact ⟨1, by simp [unify]⟩
        | app _ _ => exact ⟨1, by simp [unify]⟩
        | ext _ _ _ => exact ⟨1, by simp [unify]⟩
      | app f a =>
        cases t with
        | var b => exact ⟨1, by simp only [unify]; exact bv b _⟩
        | app g b =>
          simp only [Ty.size] at hsz
          have hf : Sub f V := fun x hx => hs x (by simp [Ty.ftv, hx])
          have ha : Sub a V := fun x hx => hs x (by simp [Ty.ftv, hx])
          have hg : Sub g V := fun x hx => ht x (by simp [Ty.ftv, hx])
          have hb : Sub b V := fun x hx => ht x (by simp [Ty.ftv, hx])
          obtain ⟨N, hN⟩ := twoStep_fuel n f g a b V hf hg ha hb
            (ihm f g n (by omega) hf hg) (fun n₁ => ihm a b n₁ (by omega) ha hb) hless
          exact ⟨N + 1, by rw [unify_app_app]; exact hN⟩
        | con _ => exact ⟨1, by simp [unify]⟩
        | ext _ _ _ => exact ⟨1, by simp [unify]⟩
        | empty => exact ⟨1, by simp [unify]⟩
      | ext l a r =>
        cases t with
        | var b => exact ⟨1, by simp only [unify]; exact bv b _⟩
        | ext l' a' r' =>
          simp only [Ty.size] at hsz
          have hf : Sub a V := fun x hx => hs x (by simp [Ty.ftv, hx])
          have ha : Sub r V := fun x hx => hs x (by simp [Ty.ftv, hx])
          have hg : Sub a' V := fun x hx => ht x (by simp [Ty.ftv, hx])
          have hb : Sub r' V := fun x hx => ht x (by simp [Ty.ftv, hx])
          by_cases hl : l = l'
          · obtain ⟨N, hN⟩ := twoStep_fuel n a a' r r' V hf hg ha hb
              (ihm a a' n (by omega) hf hg) (fun n₁ => ihm r r' n₁ (by omega) ha hb) hless
            exact ⟨N + 1, by rw [unify_ext_ext, if_pos hl]; exact hN⟩
          · exact ⟨1, by rw [unify_ext_ext, if_neg hl]; simp⟩
        | con _ => exact ⟨1, by simp [unify]⟩
        | app _ _ => exact ⟨1, by simp [unify]⟩
        | empty => exact ⟨1, by simp [unify]⟩

/-- Termination: for every pair of types some fuel suffices … -/
theorem unify_fuel_exists (n : Nat) (s t : Ty) : ∃ N, unify false N n s t ≠ .error .fuel :=
  unify_fuel_aux ((s.ftv ++ t.ftv).length + 1) (s.ftv ++ t.ftv) (Nat.lt_succ_self _) s.size s t n
    (Nat.le_refl _) (fun x hx => List.mem_append.2 (Or.inl hx)) (fun x hx => List.mem_append.2 (Or.inr hx))

/-- … and from then on the answer never changes. -/
theorem unify_total (n : Nat) (s t : Ty) :
    ∃ N r, r ≠ .error .fuel ∧ ∀ fuel, N ≤ fuel → unify false fuel n s t = r := by
  obtain ⟨N, hN⟩ := unify_fuel_exists n s t
  exact ⟨N, _, hN, fun fuel hle => unify_mono N fuel n s t _ hle rfl hN⟩

end GluonModel.HM.Proofs
