import GluonModel.JsonStr
namespace GluonModel.JsonStr.Proofs
open GluonModel.JsonStr

theorem hex_roundtrip : ∀ d : Fin 16, hexVal (hexDigit d.val) = some d.val := by decide

theorem hexVal_hexDigit (d : Nat) (h : d < 16) : hexVal (hexDigit d) = some d :=
  hex_roundtrip ⟨d, h⟩

theorem run_escapeChar (c : Char) (rest : List Char) :
    run .normal (escapeChar c ++ rest) =
      match run .normal rest with
      | some r => some (c :: r)
      | none => none := by
  unfold escapeChar
  split
  · next h => subst h; simp [run, step, simpleEsc]; cases run .normal rest <;> rfl
  split
  · next h => subst h; simp [run, step, simpleEsc]; cases run .normal rest <;> rfl
  split
  · next h => subst h; simp [run, step, simpleEsc]; cases run .normal rest <;> rfl
  split
  · next h => subst h; simp [run, step, simpleEsc]; cases run .normal rest <;> rfl
  split
  · next h => subst h; simp [run, step, simpleEsc]; cases run .normal rest <;> rfl
  split
  · next h => subst h; simp [run, step, simpleEsc]; cases run .normal rest <;> rfl
  split
  · next h => subst h; simp [run, step, simpleEsc]; cases run .normal rest <;> rfl
  split
  · next h1 h2 h3 h4 h5 h6 h7 hlt =>
    have hd1 : c.toNat / 16 < 16 := by omega
    have hd2 : c.toNat % 16 < 16 := by omega
    have e1 := hexVal_hexDigit _ hd1
    have e2 := hexVal_hexDigit _ hd2
    have hz : hexVal '0' = some 0 := by decide
    have hn : (0 * 16 + 0) * 16 * 16 + c.toNat / 16 * 16 + c.toNat % 16 = c.toNat := by omega
    have hsur : ¬ (0xD800 ≤ c.toNat ∧ c.toNat ≤ 0xDFFF) := by omega
    have hc : Char.ofNat c.toNat = c := Char.ofNat_toNat c
    simp only [List.cons_append, List.nil_append, run, step]
    simp [simpleEsc, hz, e1, e2]
    have hn' : (c.toNat / 16) * 16 + c.toNat % 16 = c.toNat := by omega
    simp [hn', hsur, hc]
    cases run .normal rest <;> simp
  · next h1 h2 h3 h4 h5 h6 h7 hge =>
    have hq : ¬ (c = '"' ∨ c.toNat < 32) := by
      intro hc
      cases hc with
      | inl hc => exact h1 hc
      | inr hc => exact hge hc
    simp only [List.cons_append, List.nil_append, run, step, h2, hq, if_false]
    cases run .normal rest <;> rfl

theorem unescape_escape : (s : List Char) → unescape (escape s) = some s
  | [] => by simp [unescape, escape, run]
  | c :: cs => by
    have ih := unescape_escape cs
    simp only [unescape] at ih ⊢
    simp only [escape]
    rw [run_escapeChar, ih]

end GluonModel.JsonStr.Proofs
