import GluonModel.JsonStr
namespace GluonModel.JsonStr.Proofs
open GluonModel.JsonStr

theorem hex_roundtrip : ∀ d : Fin 16, hexVal (hexDigit d.val) = some d.val := by decide

theorem hexVal_hexDigit (d : Nat) (h : d < 16) : hexVal (hexDigit d) = some d :=
  hex_roundtrip ⟨d, h⟩

theorem run_escapeChar (c : Char) (rest : List Char) :
    run .normal (escapeChar c ++ rest) =
      match run .normal rest with
      | some r => some (c :: r)
      | none => none := by
  unfold escapeChar
  split
  · next h => subst h; simp [run, step, simpleEsc]; cases run .normal rest <;> rfl
  split
  · next h => subst h; simp [run, step, simpleEsc]; cases run .normal rest <;> rfl
  split
  · next h => subst h; simp [run, step, simpleEsc]; cases run .normal rest <;> rfl
  split
  · next h => subst h; simp [run, step, simpleEsc]; cases run .normal rest <;> rfl
  split
  · next h => subst h; simp [run, step, simpleEsc]; cases run .normal rest <;> rfl
  split
  · next h => subst h; simp [run, step, simpleEsc]; cases run .normal rest <;> rfl
  split
  · next h => subst h; simp [run, step, simpleEsc]; cases run .normal rest <;> rfl
  split
  · next h1 h2 h3 h4 h5 h6 h7 hlt =>
    have hd1 : c.toNat / 16 < 16 := by omega
    have hd2 : c.toNat % 16 < 16 := by omega
    have e1 := hexVal_hexDigit _ hd1
    have e2 := hexVal_hexDigit _ hd2
    have hz : hexVal '0' = some 0 := by decide
    have hn : (0 * 16 + 0) * 16 * 16 + c.toNat / 16 * 16 + c.toNat % 16 = c.toNat := by omega
    have hsur : ¬ (0xD800 ≤ c.toNat ∧ c.toNat ≤ 0xDFFF) := by omega
    have hc : Char.ofNat c.toNat = c := Char.ofNat_toNat c
    simp only [List.cons_append, List.nil_append, run, step]
    simp [simpleEsc, hz, e1, e2]
    have hn' : (c.toNat / 16) * 16 + c.toNat % 16 = c.toNat := by omega
    simp [hn', hsur, hc]
    cases run .normal rest <;> simp
  · next h1 h2 h3 h4 h5 h6 h7 hge =>
    have hq : ¬ (c = '"' ∨ c.toNat < 32) := by
      intro hc
      cases hc with
      | inl hc => exact h1 hc
      | inr hc => exact hge hc
    simp only [List.cons_append, List.nil_append, run, step, h2, hq, if_false]
    cases run .normal rest <;> rfl

theorem unescape_escape : (s : List Char) → unescape (escape s) = some s
  | [] => by simp [unescape, escape, run]
  | c :: cs => by
    have ih := unescape_escape cs
    simp only [unescape] at ih ⊢
    simp only [escape]
    rw [run_escapeChar, ih]


/-! ### When is the written form the string itself (a borrowed `&str` can exist)? -/

theorem escapeChar_len_pos (c : Char) : 1 ≤ (escapeChar c).length := by
  unfold escapeChar
  repeat' split
  all_goals simp

theorem escapeChar_len_one (c : Char) (h : (escapeChar c).length = 1) : escapeChar c = [c] := by
  by_cases h1 : c = '"'
  · simp [escapeChar, h1] at h
  by_cases h2 : c = '\\'
  · simp [escapeChar, h2] at h
  by_cases h3 : c = '\x08'
  · simp [escapeChar, h3] at h
  by_cases h4 : c = '\x0c'
  · simp [escapeChar, h4] at h
  by_cases h5 : c = '\n'
  · simp [escapeChar, h5] at h
  by_cases h6 : c = '\r'
  · simp [escapeChar, h6] at h
  by_cases h7 : c = '\t'
  · simp [escapeChar, h7] at h
  by_cases h8 : c.toNat < 32
  · simp [escapeChar, h1, h2, h3, h4, h5, h6, h7, h8] at h
  · simp [escapeChar, h1, h2, h3, h4, h5, h6, h7, h8]

theorem escape_length_ge : (s : List Char) → s.length ≤ (escape s).length
  | [] => by simp [escape]
  | c :: cs => by
    have := escape_length_ge cs
    have := escapeChar_len_pos c
    simp only [escape, List.length_append, List.length_cons]; omega

theorem escape_len_eq : (s : List Char) → (escape s).length = s.length →
    ∀ c ∈ s, escapeChar c = [c]
  | [], _, c, hc => by cases hc
  | d :: ds, h, c, hc => by
    have h1 := escape_length_ge ds
    have h2 := escapeChar_len_pos d
    simp only [escape, List.length_append, List.length_cons] at h
    have hd : (escapeChar d).length = 1 := by omega
    have hds : (escape ds).length = ds.length := by omega
    cases hc with
    | head => exact escapeChar_len_one d hd
    | tail _ hc => exact escape_len_eq ds hds c hc

theorem escape_of_plain : (s : List Char) → (∀ c ∈ s, escapeChar c = [c]) → escape s = s
  | [], _ => by simp [escape]
  | d :: ds, h => by
    simp [escape, h d (List.mem_cons_self ..),
      escape_of_plain ds (fun c hc => h c (List.mem_cons_of_mem _ hc))]

theorem escape_eq_self_iff (s : List Char) : escape s = s ↔ ∀ c ∈ s, escapeChar c = [c] :=
  ⟨fun h => escape_len_eq s (by rw [h]), escape_of_plain s⟩

end GluonModel.JsonStr.Proofs
