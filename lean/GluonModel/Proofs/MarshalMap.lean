import GluonModel.Marshal
import GluonModel.Proofs.Marshal
import GluonModel.Proofs.MarshalFull
namespace GluonModel.Marshal.Proofs
open GluonModel.Marshal

/-! ### reading ARBITRARY search trees (maps built or modified by gluon code) -/

/-- a `std.map.Map String _` with Rust-level values at the nodes -/
inductive VTree where
  | tip
  | bin (k : String) (v : Val) (l r : VTree)

/-- the gluon value of the tree (values marshalled with `push`) -/
def VTree.toTree : VTree → Tree
  | .tip => .tip
  | .bin k v l r => .bin k (push v) l.toTree r.toTree

/-- all entries, left to right -/
def VTree.inorder : VTree → List (String × Val)
  | .tip => []
  | .bin k v l r => l.inorder ++ (k, v) :: r.inorder

def VTree.all (p : String → Val → Prop) : VTree → Prop
  | .tip => True
  | .bin k v l r => p k v ∧ l.all p ∧ r.all p

/-- the search-tree invariant of std/map.glu (`insert` keeps it) -/
def VTree.isBST : VTree → Prop
  | .tip => True
  | .bin k _ l r => l.all (fun k' _ => k' < k) ∧ r.all (fun k' _ => k < k') ∧ l.isBST ∧ r.isBST

theorem VTree.all_imp {p q : String → Val → Prop} (h : ∀ k v, p k v → q k v) :
    ∀ t : VTree, t.all p → t.all q
  | .tip, _ => trivial
  | .bin k v l r, ⟨h1, h2, h3⟩ => ⟨h k v h1, VTree.all_imp h l h2, VTree.all_imp h r h3⟩

theorem VTree.all_inorder {p : String → Val → Prop} :
    ∀ t : VTree, t.all p → ∀ e ∈ t.inorder, p e.1 e.2
  | .tip, _, e, he => by simp [VTree.inorder] at he
  | .bin k v l r, ⟨h1, h2, h3⟩, e, he => by
    simp [VTree.inorder] at he
    rcases he with he | rfl | he
    · exact VTree.all_inorder l h2 e he
    · exact h1
    · exact VTree.all_inorder r h3 e he

theorem insertSorted_mid (k : String) (v : Val) (R : List (String × Val)) (hR : ∀ b ∈ R, k < b.1) :
    ∀ L : List (String × Val), (∀ a ∈ L, a.1 < k) → insertSorted k v (L ++ R) = L ++ (k, v) :: R
  | [], _ => by
    cases R with
    | nil => simp [insertSorted]
    | cons b R =>
      obtain ⟨kb, vb⟩ := b
      have : k < kb := hR (kb, vb) (by simp)
      simp [insertSorted, this]
  | (k2, v2) :: L, h => by
    have h2 : k2 < k := h (k2, v2) (by simp)
    have n1 : ¬ k < k2 := String.lt_asymm h2
    have n2 : k ≠ k2 := fun e => String.lt_irrefl k (e ▸ h2)
    simp [insertSorted, n1, n2, insertSorted_mid k v R hR L (fun a ha => h a (by simp [ha]))]

/-- `from_gluon_map` (api/mod.rs:1324: node, then left subtree, then right subtree, each entry
    `extend`ed into the BTreeMap) on a search tree whose keys lie strictly between the entries `L`
    and `R` already collected: the tree's entries land between them, in order. -/
theorem fromMap_bst (getv : GV → Option Val) :
    ∀ (t : VTree) (L R : List (String × Val)), t.isBST → t.all (fun _ v => getv (push v) = some v) →
      (∀ a ∈ L, t.all (fun k _ => a.1 < k)) → (∀ b ∈ R, t.all (fun k _ => k < b.1)) →
      fromMap getv t.toTree.toGV (L ++ R) = some (L ++ t.inorder ++ R)
  | .tip, L, R, _, _, _, _ => by simp [VTree.toTree, Tree.toGV, fromMap, VTree.inorder]
  | .bin k v l r, L, R, hb, hv, hL, hR => by
    obtain ⟨hlk, hrk, hbl, hbr⟩ := hb
    obtain ⟨hvk, hvl, hvr⟩ := hv
    have hLk : ∀ a ∈ L, a.1 < k := fun a ha => (hL a ha).1
    have hRk : ∀ b ∈ R, k < b.1 := fun b hb => (hR b hb).1
    have hins := insertSorted_mid k v R hRk L hLk
    -- left subtree: between L and (k, v) :: R
    have ihl := fromMap_bst getv l L ((k, v) :: R) hbl hvl (fun a ha => (hL a ha).2.1)
      (by
        intro b hb
        simp at hb
        rcases hb with rfl | hb
        · exact hlk
        · exact (hR b hb).2.1)
    -- right subtree: between L ++ inorder l ++ [(k, v)] and R
    have ihr := fromMap_bst getv r (L ++ l.inorder ++ [(k, v)]) R hbr hvr
      (by
        intro a ha
        simp at ha
        rcases ha with ha | ha | rfl
        · exact (hL a ha).2.2
        · have hlt : a.1 < k := VTree.all_inorder l hlk a ha
          exact VTree.all_imp (fun k' _ h => String.lt_trans hlt h) r hrk
        · exact hrk)
      (fun b hb => (hR b hb).2.2)
    simp at ihl ihr
    simp [VTree.toTree, Tree.toGV, fromMap, hvk, hins, ihl, ihr, VTree.inorder]

/-- the in-order listing of a search tree is strictly increasing in the keys -/
theorem inorder_sorted : ∀ t : VTree, t.isBST → t.inorder.Pairwise (fun a b => a.1 < b.1)
  | .tip, _ => by simp [VTree.inorder]
  | .bin k v l r, ⟨hlk, hrk, hbl, hbr⟩ => by
    simp only [VTree.inorder]
    rw [List.pairwise_append]
    refine ⟨inorder_sorted l hbl, ?_, ?_⟩
    · rw [List.pairwise_cons]
      exact ⟨fun b hb => VTree.all_inorder r hrk b hb, inorder_sorted r hbr⟩
    · intro a ha b hb
      have hak : a.1 < k := VTree.all_inorder l hlk a ha
      simp at hb
      rcases hb with rfl | hb
      · exact hak
      · exact String.lt_trans hak (VTree.all_inorder r hrk b hb)

end GluonModel.Marshal.Proofs
