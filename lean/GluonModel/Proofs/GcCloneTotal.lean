/-
Totality of the cloner (C13): the fuel `cloneFuel` always suffices when every copied object goes
through the `visited` map. Model: `GluonModel.GcHeap`.
-/
import GluonModel.GcHeap
import GluonModel.Proofs.GcHeap
import GluonModel.Proofs.GcIso

namespace GluonModel.GcHeap

/-- number of source ids without an entry in the `visited` map -/
def unvisited (vis : List (Nat × Nat)) : List Nat → Nat
  | [] => 0
  | i :: l => (if (lookupVis vis i).isNone then 1 else 0) + unvisited vis l

theorem unvisited_mono {v v' : List (Nat × Nat)} (hm : VisMono v v') (l : List Nat) :
    unvisited v' l ≤ unvisited v l := by
  induction l with
  | nil => simp [unvisited]
  | cons i l ih =>
    simp only [unvisited]
    cases h : lookupVis v i with
    | none => cases h' : lookupVis v' i <;> simp <;> omega
    | some n => rw [hm i n h]; simp; exact ih

theorem unvisited_strict {v v' : List (Nat × Nat)} (hm : VisMono v v') {x : Nat} {n : Nat}
    (hx : lookupVis v x = none) (hx' : lookupVis v' x = some n) (l : List Nat) (hl : x ∈ l) :
    unvisited v' l + 1 ≤ unvisited v l := by
  induction l with
  | nil => simp at hl
  | cons i l ih =>
    simp only [unvisited]
    have hmono := unvisited_mono hm l
    by_cases hi : i = x
    · subst hi
      rw [hx, hx']; simp; omega
    · have : x ∈ l := by
        rcases List.mem_cons.mp hl with h | h
        · exact absurd h.symm hi
        · exact h
      have ih' := ih this
      cases h : lookupVis v i with
      | none => cases h' : lookupVis v' i <;> simp <;> omega
      | some m => rw [hm i m h]; simp; omega

theorem unvisited_le (vis : List (Nat × Nat)) (l : List Nat) : unvisited vis l ≤ l.length := by
  induction l with
  | nil => simp [unvisited]
  | cons i l ih => simp only [unvisited, List.length_cons]; split <;> omega

/-- Hypotheses of totality: the clone hypotheses, every copied cell goes through `visited`
    (repaired cloner, or no cell is copied), and nothing uncloneable is met. -/
structure TotalCtx (s0 : State) (dst : HeapId) (rgen : Option Nat) (fixed : Bool)
    (Rel : Nat → Prop) : Prop where
  ctx : CloneCtx s0 dst rgen fixed Rel
  cell : ∀ v o, Rel v → s0.obj v = some o → shareable s0 rgen v = false → BypassKind o.kind →
    fixed = true
  cloneable : ∀ v o, Rel v → s0.obj v = some o → shareable s0 rgen v = false →
    o.kind ≠ .udata ∧ o.kind ≠ .thread

theorem cloneEdges_total {fixed : Bool} {s0 : State} {rgen : Option Nat} {dst thr : HeapId}
    {Rel : Nat → Prop} (k : Cl → Nat → Option (Cl × Nat)) (bound : Nat)
    (hkP : ∀ c v c' r, CI s0 dst c → Rel v → k c v = some (c', r) → Post fixed s0 dst thr c c' r)
    (hkI : ∀ c v c' r, CI s0 dst c → CI2 s0 Rel c → Rel v → k c v = some (c', r) →
      IsoPost s0 rgen dst Rel c c' v r)
    (hkT : ∀ c v, CI s0 dst c → CI2 s0 Rel c → Rel v → unvisited c.vis s0.ids + 1 ≤ bound →
      ∃ c' r, k c v = some (c', r)) :
    ∀ (es : List Nat) (c : Cl), CI s0 dst c → CI2 s0 Rel c → (∀ e ∈ es, Rel e) →
      unvisited c.vis s0.ids + 1 ≤ bound → ∃ c' rs, cloneEdges k c es = some (c', rs) := by
  intro es
  induction es with
  | nil => intro c _ _ _ _; exact ⟨c, [], rfl⟩
  | cons e es ih =>
    intro c hci hci2 hrel hb
    obtain ⟨c1, e', hke⟩ := hkT c e hci hci2 (hrel e List.mem_cons_self) hb
    have p1 := hkP c e c1 e' hci (hrel e List.mem_cons_self) hke
    have q1 := hkI c e c1 e' hci hci2 (hrel e List.mem_cons_self) hke
    have hb1 : unvisited c1.vis s0.ids + 1 ≤ bound := by
      have := unvisited_mono q1.mono s0.ids
      omega
    obtain ⟨c2, es', hrest⟩ := ih c1 p1.ci q1.ci2 (fun x hx => hrel x (List.mem_cons_of_mem _ hx)) hb1
    exact ⟨c2, e' :: es', by simp [cloneEdges, hke, hrest]⟩

theorem viaVisited_total {fixed : Bool} {s0 : State} {rgen : Option Nat} {dst thr : HeapId}
    {Rel : Nat → Prop} (k : Cl → Nat → Option (Cl × Nat)) (bound : Nat)
    (hkP : ∀ c v c' r, CI s0 dst c → Rel v → k c v = some (c', r) → Post fixed s0 dst thr c c' r)
    (hkI : ∀ c v c' r, CI s0 dst c → CI2 s0 Rel c → Rel v → k c v = some (c', r) →
      IsoPost s0 rgen dst Rel c c' v r)
    (hkT : ∀ c v, CI s0 dst c → CI2 s0 Rel c → Rel v → unvisited c.vis s0.ids + 1 ≤ bound →
      ∃ c' r, k c v = some (c', r))
    {c : Cl} {v : Nat} {o : Obj} (kind : Kind) (home : HeapId)
    (hci : CI s0 dst c) (hci2 : CI2 s0 Rel c) (hrelv : Rel v) (hv : v < s0.next)
    (hedges : ∀ e ∈ o.edges, Rel e) (hb : unvisited c.vis s0.ids + 1 ≤ bound + 1) :
    ∃ c' r, viaVisited k dst c v o kind home = some (c', r) := by
  unfold viaVisited
  cases hl : lookupVis c.vis v with
  | some n => exact ⟨c, n, rfl⟩
  | none =>
    simp only
    -- the state after the placeholder: same construction as in `viaVisited_iso`
    let c1 : Cl := ⟨c.s.push ⟨dst, home, kind, o.edges⟩, (v, c.s.next) :: c.vis⟩
    have hc1 : CI s0 dst c1 := by
      refine ⟨hci.wf.push _, hci.ext.trans (Ext.push hci.wf _), ?_⟩
      intro v' n' hmem
      rcases List.mem_cons.mp hmem with heq | hmem
      · cases heq
        exact ⟨⟨dst, home, kind, o.edges⟩, by simp [c1, State.push], rfl⟩
      · obtain ⟨on, hon, hown⟩ := hci.vis v' n' hmem
        refine ⟨on, ?_, hown⟩
        show (c.s.push _).obj n' = some on
        rw [(Ext.push hci.wf _).2 n' (hci.wf.lt hon)]; exact hon
    have hs0n : s0.next ≤ c.s.next := hci.ext.1
    have hmono1 : VisMono c.vis c1.vis := by
      intro x n hx
      show lookupVis ((v, c.s.next) :: c.vis) x = some n
      rw [lookupVis_cons]
      by_cases hvx : v = x
      · subst hvx; rw [hl] at hx; cases hx
      · rw [if_neg hvx]; exact hx
    have hc12 : CI2 s0 Rel c1 := by
      refine ⟨?_, ?_, ?_⟩
      · intro x n hx
        have hx' : lookupVis ((v, c.s.next) :: c.vis) x = some n := hx
        rw [lookupVis_cons] at hx'
        by_cases hvx : v = x
        · subst hvx
          rw [if_pos rfl] at hx'; cases hx'
          exact ⟨hs0n, by simp [c1, State.push], hrelv⟩
        · rw [if_neg hvx] at hx'
          obtain ⟨a, b, d⟩ := hci2.visNew x n hx'
          exact ⟨a, by simp only [c1, State.push]; omega, d⟩
      · intro x y n hx hy
        have hx' : lookupVis ((v, c.s.next) :: c.vis) x = some n := hx
        have hy' : lookupVis ((v, c.s.next) :: c.vis) y = some n := hy
        rw [lookupVis_cons] at hx' hy'
        by_cases hvx : v = x <;> by_cases hvy : v = y
        · rw [← hvx, ← hvy]
        · rw [if_pos hvx] at hx'; rw [if_neg hvy] at hy'
          cases hx'
          have := (hci2.visNew y _ hy').2.1
          omega
        · rw [if_neg hvx] at hx'; rw [if_pos hvy] at hy'
          cases hy'
          have := (hci2.visNew x _ hx').2.1
          omega
        · rw [if_neg hvx] at hx'; rw [if_neg hvy] at hy'
          exact hci2.visInj x y n hx' hy'
      · intro n h1 h2
        by_cases hn : n = c.s.next
        · subst hn
          exact ⟨v, by show lookupVis ((v, c.s.next) :: c.vis) v = _; rw [lookupVis_cons, if_pos rfl]⟩
        · have h2' : n < c.s.next := by simp only [c1, State.push] at h2; omega
          obtain ⟨x, hx⟩ := hci2.onto n h1 h2'
          exact ⟨x, hmono1 x n hx⟩
    have hstrict : unvisited c1.vis s0.ids + 1 ≤ unvisited c.vis s0.ids :=
      unvisited_strict hmono1 hl
        (by show lookupVis ((v, c.s.next) :: c.vis) v = some c.s.next; rw [lookupVis_cons, if_pos rfl])
        s0.ids (by unfold State.ids; exact List.mem_range.mpr hv)
    obtain ⟨c2, es, hce⟩ := cloneEdges_total (thr := thr) k bound hkP hkI hkT o.edges c1 hc1 hc12 hedges
      (by omega)
    have hce' : cloneEdges k ⟨c.s.push ⟨dst, home, kind, o.edges⟩, (v, c.s.next) :: c.vis⟩ o.edges
        = some (c2, es) := hce
    rw [hce']
    exact ⟨_, _, rfl⟩

theorem cloneVal_total {s0 : State} {dst thr : HeapId} {rgen : Option Nat} {fixed : Bool}
    {Rel : Nat → Prop} (T : TotalCtx s0 dst rgen fixed Rel) :
    ∀ (f : Nat) (c : Cl) (v : Nat), CI s0 dst c → CI2 s0 Rel c → Rel v →
      unvisited c.vis s0.ids + 1 ≤ f →
      ∃ c' r, cloneVal dst thr rgen fixed f false c v = some (c', r) := by
  intro f
  induction f with
  | zero => intro c v _ _ _ h; omega
  | succ f ih =>
    intro c v hci hci2 hrel hb
    have hkP : ∀ c v c' r, CI s0 dst c → Rel v →
        cloneVal dst thr rgen fixed f false c v = some (c', r) →
        Post fixed s0 dst thr c c' r :=
      fun c v c' r a b d => cloneVal_post T.ctx f false c v c' r a b d
    have hkI := cloneVal_iso (thr := thr) T.ctx T.cell f
    obtain ⟨o, ho⟩ := T.ctx.live v hrel
    have hv : v < s0.next := T.ctx.wf.lt ho
    have hoc : c.s.obj v = some o := by rw [hci.ext.2 v hv]; exact ho
    have hsh := shareable_ext (rgen := rgen) hci.ext hv
    simp only [cloneVal, Bool.not_false, Bool.true_and]
    by_cases hs : shareable s0 rgen v = true
    · rw [hsh, hs]; exact ⟨c, v, by simp⟩
    · have hs' : shareable s0 rgen v = false := by
        cases hb : shareable s0 rgen v
        · rfl
        · exact absurd hb hs
      rw [hsh, hs']
      simp only [Bool.false_eq_true, if_false, hoc]
      have hedges : o.kind ≠ .thread → ∀ e ∈ o.edges, Rel e := T.ctx.closed v o hrel ho
      have hcl := T.cloneable v o hrel ho hs'
      cases hk : o.kind with
      | udata => exact absurd hk hcl.1
      | thread => exact absurd hk hcl.2
      | code => exact ⟨c, v, by simp⟩
      | plain =>
        simp only
        exact viaVisited_total (thr := thr) _ f hkP hkI ih .plain dst hci hci2 hrel hv
          (hedges (by simp [hk])) hb
      | aarr =>
        have hfx := T.cell v o hrel ho hs' (Or.inr (Or.inl hk))
        subst hfx
        simp only [Bool.not_true]
        exact viaVisited_total (thr := thr) _ f hkP hkI ih .aarr dst hci hci2 hrel hv
          (hedges (by simp [hk])) hb
      | uarr =>
        have hfx := T.cell v o hrel ho hs' (Or.inr (Or.inr hk))
        subst hfx
        simp only [Bool.not_true]
        exact viaVisited_total (thr := thr) _ f hkP hkI ih .uarr dst hci hci2 hrel hv
          (hedges (by simp [hk])) hb
      | shallow =>
        have hfx := T.ctx.noShallow v o hrel ho hk
        subst hfx
        simp only [if_true]
        exact viaVisited_total (thr := thr) _ f hkP hkI ih .shallow dst hci hci2 hrel hv
          (hedges (by simp [hk])) hb
      | cell =>
        have hfx := T.cell v o hrel ho hs' (Or.inl hk)
        subst hfx
        simp only [if_true]
        exact viaVisited_total (thr := thr) _ f hkP hkI ih .cell thr hci hci2 hrel hv
          (hedges (by simp [hk])) hb

/-- **The fuel of `deepClone` always suffices** (so a `none` result is a genuine refusal:
    an uncloneable userdata or a thread was met). -/
theorem deepClone_total' {s0 : State} {dst thr : HeapId} {rgen : Option Nat} {fixed : Bool}
    {Rel : Nat → Prop} (T : TotalCtx s0 dst rgen fixed Rel) {v : Nat} (hv : Rel v) :
    ∃ s' r, deepClone s0 dst thr rgen fixed v = some (s', r) := by
  have hci : CI s0 dst ⟨s0, []⟩ := ⟨T.ctx.wf, Ext.refl _, by intro v n h; simp at h⟩
  have hci2 : CI2 s0 Rel ⟨s0, []⟩ :=
    ⟨by intro x n h; simp [lookupVis] at h, by intro x y n h; simp [lookupVis] at h,
      by intro n h1 h2; exact absurd h2 (by simpa using h1)⟩
  have hb : unvisited ([] : List (Nat × Nat)) s0.ids + 1 ≤ cloneFuel s0 := by
    have := unvisited_le [] s0.ids
    simp only [State.ids, List.length_range] at this
    simp only [cloneFuel, State.ids]; omega
  obtain ⟨c, r, h⟩ := cloneVal_total (thr := thr) T (cloneFuel s0) ⟨s0, []⟩ v hci hci2 hv hb
  exact ⟨c.s, r, by simp [deepClone, h]⟩

/-- Objects the cloner enters below `v0`. -/
inductive Copied (s0 : State) (rgen : Option Nat) (v0 : Nat) : Nat → Prop
  | root : Copied s0 rgen v0 v0
  | step {q p o} : Copied s0 rgen v0 q → s0.obj q = some o → shareable s0 rgen q = false →
      isCode s0 q = false → p ∈ o.edges → Copied s0 rgen v0 p

/-- Given the conclusion of `deepClone_iso'`, everything the cloner enters is resolved: shared,
    bytecode, or in the domain of the bijection. -/
theorem copied_resolved {s0 : State} {rgen : Option Nat} {vis : List (Nat × Nat)} {v0 : Nat}
    (h0 : Resolved s0 rgen vis v0)
    (hent : ∀ x n, lookupVis vis x = some n → ∃ ox, s0.obj x = some ox ∧
      ∀ e ∈ ox.edges, Resolved s0 rgen vis e)
    {p : Nat} (hp : Copied s0 rgen v0 p) : Resolved s0 rgen vis p := by
  induction hp with
  | root => exact h0
  | @step q p o _ ho hs hc he ih =>
    rcases ih with h | h | ⟨n, hn⟩
    · rw [hs] at h; cases h
    · rw [hc] at h; cases h
    · obtain ⟨ox, hox, hres⟩ := hent q n hn
      rw [ho] at hox; cases hox
      exact hres p he

end GluonModel.GcHeap
