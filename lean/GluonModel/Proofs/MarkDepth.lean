import GluonModel.MarkDepth

namespace GluonModel.MarkDepth.Proofs
open GluonModel.MarkDepth

theorem traceDepth_chain (n : Nat) : traceDepth (chain n) = n + 1 := by
  induction n with
  | zero => rfl
  | succ n ih => simp [chain, traceDepth, ih]; omega

theorem size_pos (v : V) : 0 < size v := by cases v <;> simp [size] <;> omega

theorem markIter_all (fuel : Nat) (todo : List V) (acc : Nat) (h : sizes todo ≤ fuel) :
    markIter fuel todo acc = acc + sizes todo := by
  induction fuel generalizing todo acc with
  | zero =>
    cases todo with
    | nil => simp [markIter, sizes]
    | cons v vs => have := size_pos v; simp [sizes] at h; omega
  | succ fuel ih =>
    cases todo with
    | nil => simp [markIter, sizes]
    | cons v vs =>
      cases v with
      | leaf =>
        simp only [markIter]
        rw [ih vs (acc + 1) (by simp [sizes, size] at h; omega)]
        simp [sizes, size]; omega
      | node l r =>
        simp only [markIter]
        rw [ih (l :: r :: vs) (acc + 1) (by simp [sizes, size] at h ⊢; omega)]
        simp [sizes, size]; omega

end GluonModel.MarkDepth.Proofs
