/-
Lemmas for C17 (model: `GluonModel.Chan`). Specification-side functions (what was sent, what was
received, the last store, …) are defined here; the property theorems in `Props/C17.lean` are thin
statements over them.
-/
import GluonModel.Chan

namespace GluonModel.Chan

/-! ## Specification-side readings of a trace -/

/-- History = every call of the trace paired with its result. -/
def hist (d : Decls) (tr : List (Nat × POp)) (s : PState) : List ((Nat × POp) × PRes) :=
  tr.zip (runTrace d tr s).2

/-- Values sent on channel `c`, in sending order. -/
def sentVals (c : Nat) : List (Nat × POp) → List Int
  | [] => []
  | (_, op) :: tr =>
    match op with
    | .send c' v => if c' = c then v :: sentVals c tr else sentVals c tr
    | _ => sentVals c tr

/-- Values delivered by `recv` on channel `c`, in delivery order. -/
def gotVals (c : Nat) : List ((Nat × POp) × PRes) → List Int
  | [] => []
  | ((_, op), r) :: h =>
    match op, r with
    | .recv c', .got v => if c' = c then v :: gotVals c h else gotVals c h
    | _, _ => gotVals c h

/-- The value most recently stored into cell `r` by the trace (`init` if none). -/
def lastStore (r : Nat) (init : Int) : List (Nat × POp) → Int
  | [] => init
  | (_, op) :: tr =>
    match op with
    | .store r' v => if r' = r then lastStore r v tr else lastStore r init tr
    | _ => lastStore r init tr

/-- Values returned by successful forces of lazy `k`. -/
def okForces (k : Nat) : List ((Nat × POp) × PRes) → List Int
  | [] => []
  | ((_, op), r) :: h =>
    match op, r with
    | .force k', .forced (.ok v) => if k' = k then v :: okForces k h else okForces k h
    | _, _ => okForces k h

theorem runTrace_cons (d : Decls) (tid : Nat) (op : POp) (tr : List (Nat × POp)) (s : PState) :
    runTrace d ((tid, op) :: tr) s =
      ((runTrace d tr (pstep d tid op s).1).1, (pstep d tid op s).2 :: (runTrace d tr (pstep d tid op s).1).2) := by
  simp [runTrace]

theorem hist_cons (d : Decls) (tid : Nat) (op : POp) (tr : List (Nat × POp)) (s : PState) :
    hist d ((tid, op) :: tr) s = ((tid, op), (pstep d tid op s).2) :: hist d tr (pstep d tid op s).1 := by
  simp [hist, runTrace_cons]

theorem runTrace_append (d : Decls) (a b : List (Nat × POp)) (s : PState) :
    (runTrace d (a ++ b) s).1 = (runTrace d b (runTrace d a s).1).1 := by
  induction a generalizing s with
  | nil => simp [runTrace]
  | cons x a ih =>
    obtain ⟨tid, op⟩ := x
    simp [runTrace_cons, ih]

/-! ## Channels -/

theorem chan_fifo_gen (d : Decls) (c : Nat) (tr : List (Nat × POp)) (s : PState) :
    s.chans c ++ sentVals c tr = gotVals c (hist d tr s) ++ (runTrace d tr s).1.chans c := by
  induction tr generalizing s with
  | nil => simp [sentVals, gotVals, hist, runTrace]
  | cons x tr ih =>
    obtain ⟨tid, op⟩ := x
    rw [hist_cons, runTrace_cons]
    cases op with
    | send c' v =>
      have := ih (pstep d tid (.send c' v) s).1
      by_cases h : c' = c
      · subst h; simp [sentVals, gotVals, pstep] at this ⊢; simpa using this
      · have hc : c ≠ c' := fun e => h e.symm
        simp [sentVals, gotVals, pstep, h, upd, hc] at this ⊢; exact this
    | recv c' =>
      have := ih (pstep d tid (.recv c') s).1
      by_cases h : c' = c
      · subst h
        cases hq : s.chans c' with
        | nil => simp [sentVals, gotVals, pstep, hq] at this ⊢; exact this
        | cons v q => simp [sentVals, gotVals, pstep, hq] at this ⊢; exact this
      · have hc : c ≠ c' := fun e => h e.symm
        cases hq : s.chans c' with
        | nil => simp [sentVals, gotVals, pstep, hq] at this ⊢; exact this
        | cons v q => simp [sentVals, gotVals, pstep, hq, h, upd, hc] at this ⊢; exact this
    | load r =>
      have := ih (pstep d tid (.load r) s).1
      simp [sentVals, gotVals, pstep] at this ⊢; exact this
    | store r v =>
      have := ih (pstep d tid (.store r v) s).1
      simp [sentVals, gotVals, pstep] at this ⊢; exact this
    | force k =>
      have := ih (pstep d tid (.force k) s).1
      simp [sentVals, gotVals, pstep] at this ⊢; exact this

/-! ## References -/

theorem cells_after (d : Decls) (r : Nat) (tr : List (Nat × POp)) (s : PState) :
    (runTrace d tr s).1.cells r = lastStore r (s.cells r) tr := by
  induction tr generalizing s with
  | nil => simp [lastStore, runTrace]
  | cons x tr ih =>
    obtain ⟨tid, op⟩ := x
    rw [runTrace_cons]
    cases op with
    | send c v => simp [lastStore, ih, pstep]
    | recv c =>
      cases hq : s.chans c <;> simp [lastStore, ih, pstep, hq]
    | load r' => simp [lastStore, ih, pstep]
    | store r' v =>
      by_cases h : r' = r
      · subst h; simp [lastStore, ih, pstep]
      · have hc : r ≠ r' := fun e => h e.symm
        simp [lastStore, ih, pstep, h, upd, hc]
    | force k => simp [lastStore, ih, pstep]

/-! ## Lazy values: frame and monotonicity lemmas for `force` -/

theorem finishAdd_ok (k : Nat) (n : Int) (p : LS × FRes) (v : Int) (h : p.2 = .ok v) :
    finishAdd k n p = ({ st := upd p.1.st k (.value (v + n)), runs := p.1.runs }, .ok (v + n)) := by
  unfold finishAdd; rw [h]

theorem finishAdd_not_ok (k : Nat) (n : Int) (p : LS × FRes) (h : ∀ v, p.2 ≠ .ok v) :
    finishAdd k n p = p := by
  unfold finishAdd
  split
  · rename_i v hv; exact absurd hv (h v)
  · rfl

theorem finishAdd_st_other (k : Nat) (n : Int) (p : LS × FRes) (i : Nat) (h : i ≠ k) :
    (finishAdd k n p).1.st i = p.1.st i := by
  unfold finishAdd
  split <;> simp [upd, h]

theorem finishAdd_runs (k : Nat) (n : Int) (p : LS × FRes) : (finishAdd k n p).1.runs = p.1.runs := by
  unfold finishAdd
  split <;> simp

/-- A computed value is never overwritten (any thread, any lazy being forced). -/
theorem force_value_stable (d : Decls) (fuel tid j : Nat) (s : LS) (k : Nat) (v : Int)
    (h : s.st k = .value v) : (force d fuel tid j s).1.st k = .value v := by
  induction fuel generalizing j s with
  | zero => simpa [force] using h
  | succ fuel ih =>
    unfold force
    split
    · rename_i hj
      have hjk : k ≠ j := by intro e; subst e; rw [h] at hj; cases hj
      split
      · simp [upd, hjk, h]
      · simp [upd, hjk, h]
      · rename_i j' n hd
        rw [finishAdd_st_other _ _ _ _ hjk]
        apply ih
        simp [upd, hjk, h]
    · rename_i o w hj
      split
      · exact h
      · have hjk : k ≠ j := by intro e; subst e; rw [h] at hj; cases hj
        simp [upd, hjk, h]
    · exact h

/-- A successful force leaves the value in the cell. -/
theorem force_ok_sets_value (d : Decls) (fuel tid k : Nat) (s : LS) (v : Int)
    (h : (force d fuel tid k s).2 = .ok v) : (force d fuel tid k s).1.st k = .value v := by
  cases fuel with
  | zero => simp [force] at h
  | succ fuel =>
    unfold force at h ⊢
    split at h
    · split at h
      · simp at h; subst h; simp
      · simp at h
      · rename_i j n hd
        cases hr : (force d fuel tid j { st := upd s.st k (.blackhole tid false), runs := k :: s.runs }).2 with
        | ok v' =>
          rw [finishAdd_ok _ _ _ v' hr] at h ⊢
          simp at h; subst h; simp
        | err e => rw [finishAdd_not_ok _ _ _ (by simp [hr])] at h; rw [hr] at h; cases h
        | pending => rw [finishAdd_not_ok _ _ _ (by simp [hr])] at h; rw [hr] at h; cases h
        | nofuel => rw [finishAdd_not_ok _ _ _ (by simp [hr])] at h; rw [hr] at h; cases h
    · split at h
      · simp at h
      · simp at h
    · rename_i v' hk
      simp at h; subst h; simpa using hk

/-- Blackholes keep their owner whatever is forced by whomever (only the waiter flag can change). -/
theorem force_blackhole_stable (d : Decls) (fuel tid j : Nat) (s : LS) (k o : Nat)
    (h : ∃ w, s.st k = .blackhole o w) : ∃ w, (force d fuel tid j s).1.st k = .blackhole o w := by
  induction fuel generalizing j s with
  | zero => simpa [force] using h
  | succ fuel ih =>
    obtain ⟨w, hw⟩ := h
    unfold force
    split
    · rename_i hj
      have hjk : k ≠ j := by intro e; subst e; rw [hw] at hj; cases hj
      split
      · exact ⟨w, by simp [upd, hjk, hw]⟩
      · exact ⟨w, by simp [upd, hjk, hw]⟩
      · rename_i j' n hd
        rw [finishAdd_st_other _ _ _ _ hjk]
        apply ih
        exact ⟨w, by simp [upd, hjk, hw]⟩
    · rename_i o' w' hj
      split
      · exact ⟨w, hw⟩
      · by_cases hjk : k = j
        · subst hjk
          rw [hw] at hj
          cases hj
          exact ⟨true, by simp [upd]⟩
        · exact ⟨w, by simp [upd, hjk, hw]⟩
    · exact ⟨w, hw⟩

/-- A force that reports an error leaves the lazy blackholed BY THE FORCING THREAD (lazy.rs:146). -/
theorem force_err_leaves_blackhole (d : Decls) (fuel tid k : Nat) (s : LS) (e : FErr)
    (h : (force d fuel tid k s).2 = .err e) : ∃ w, (force d fuel tid k s).1.st k = .blackhole tid w := by
  cases fuel with
  | zero => simp [force] at h
  | succ fuel =>
    unfold force at h ⊢
    split at h
    · rename_i hk
      split at h
      · simp at h
      · exact ⟨false, by simp [upd]⟩
      · rename_i j n hd
        have hst := force_blackhole_stable d fuel tid j
          { st := upd s.st k (.blackhole tid false), runs := k :: s.runs } k tid ⟨false, by simp [upd]⟩
        cases hr : (force d fuel tid j { st := upd s.st k (.blackhole tid false), runs := k :: s.runs }).2 with
        | ok v' => rw [finishAdd_ok _ _ _ v' hr] at h; simp at h
        | err e' => rw [finishAdd_not_ok _ _ _ (by simp [hr])]; exact hst
        | pending => rw [finishAdd_not_ok _ _ _ (by simp [hr])]; exact hst
        | nofuel => rw [finishAdd_not_ok _ _ _ (by simp [hr])]; exact hst
    · rename_i o w hk
      split at h
      · rename_i ho
        subst ho
        exact ⟨w, by simpa using hk⟩
      · simp at h
    · simp at h

/-- Forcing a lazy blackholed by `o`: the owner gets `<<loop>>`, every other thread waits. -/
theorem force_on_blackhole (d : Decls) (fuel tid k : Nat) (s : LS) (o : Nat) (w : Bool)
    (h : s.st k = .blackhole o w) :
    (force d (fuel + 1) tid k s).2 = if o = tid then .err .loop else .pending := by
  unfold force
  rw [h]
  by_cases ho : o = tid <;> simp [ho]

/-! `runs`: a thunk body is started only from state `thunk`, which is left at once and never re-entered. -/

def RunsInv (s : LS) : Prop := ∀ k, s.runs.count k + (if s.st k = .thunk then 1 else 0) ≤ 1

theorem runsInv_set (j : Nat) (s2 : LS) (x : LState) (hx : x ≠ .thunk) (h2 : RunsInv s2) :
    RunsInv { st := upd s2.st j x, runs := s2.runs } := by
  intro k
  have hk := h2 k
  by_cases e : k = j
  · subst e; simp [upd, hx] at hk ⊢; split at hk <;> omega
  · simp [upd, e] at hk ⊢; exact hk

theorem runsInv_start (tid j : Nat) (s : LS) (h : RunsInv s) (hj : s.st j = .thunk) :
    RunsInv { st := upd s.st j (.blackhole tid false), runs := j :: s.runs } := by
  intro k
  have hk := h k
  by_cases e : k = j
  · subst e; simp [upd, hj] at hk ⊢; omega
  · have e' : j ≠ k := fun x => e x.symm
    simp [upd, e, List.count_cons, e'] at hk ⊢; exact hk

theorem finishAdd_runsInv (k : Nat) (n : Int) (p : LS × FRes) (h : RunsInv p.1) :
    RunsInv (finishAdd k n p).1 := by
  unfold finishAdd
  split
  · exact runsInv_set _ _ _ (by simp) h
  · exact h

theorem force_runsInv (d : Decls) (fuel tid j : Nat) (s : LS) (h : RunsInv s) :
    RunsInv (force d fuel tid j s).1 := by
  induction fuel generalizing j s with
  | zero => simpa [force] using h
  | succ fuel ih =>
    unfold force
    split
    · rename_i hj
      split
      · exact runsInv_set j _ _ (by simp) (runsInv_start tid j s h hj)
      · exact runsInv_start tid j s h hj
      · rename_i j' n hd
        exact finishAdd_runsInv _ _ _ (ih j' _ (runsInv_start tid j s h hj))
    · split
      · exact h
      · exact runsInv_set j _ _ (by simp) h
    · exact h

/-! Trace-level consequences -/

theorem trace_value_stable (d : Decls) (tr : List (Nat × POp)) (s : PState) (k : Nat) (v : Int)
    (h : s.lz.st k = .value v) : (runTrace d tr s).1.lz.st k = .value v := by
  induction tr generalizing s with
  | nil => simpa [runTrace] using h
  | cons x tr ih =>
    obtain ⟨tid, op⟩ := x
    rw [runTrace_cons]
    apply ih
    cases op with
    | send c v' => simpa [pstep] using h
    | recv c => cases hq : s.chans c <;> simpa [pstep, hq] using h
    | load r => simpa [pstep] using h
    | store r v' => simpa [pstep] using h
    | force j => simpa [pstep] using force_value_stable d forceFuel tid j s.lz k v h

theorem trace_blackhole_stable (d : Decls) (tr : List (Nat × POp)) (s : PState) (k o : Nat)
    (h : ∃ w, s.lz.st k = .blackhole o w) : ∃ w, (runTrace d tr s).1.lz.st k = .blackhole o w := by
  induction tr generalizing s with
  | nil => simpa [runTrace] using h
  | cons x tr ih =>
    obtain ⟨tid, op⟩ := x
    rw [runTrace_cons]
    apply ih
    cases op with
    | send c v' => simpa [pstep] using h
    | recv c => cases hq : s.chans c <;> simpa [pstep, hq] using h
    | load r => simpa [pstep] using h
    | store r v' => simpa [pstep] using h
    | force j => simpa [pstep] using force_blackhole_stable d forceFuel tid j s.lz k o h

theorem trace_runsInv (d : Decls) (tr : List (Nat × POp)) (s : PState) (h : RunsInv s.lz) :
    RunsInv (runTrace d tr s).1.lz := by
  induction tr generalizing s with
  | nil => simpa [runTrace] using h
  | cons x tr ih =>
    obtain ⟨tid, op⟩ := x
    rw [runTrace_cons]
    apply ih
    cases op with
    | send c v' => simpa [pstep] using h
    | recv c => cases hq : s.chans c <;> simpa [pstep, hq] using h
    | load r => simpa [pstep] using h
    | store r v' => simpa [pstep] using h
    | force j => simpa [pstep] using force_runsInv d forceFuel tid j s.lz h

theorem okForces_final (d : Decls) (tr : List (Nat × POp)) (s : PState) (k : Nat) (v : Int)
    (h : v ∈ okForces k (hist d tr s)) : (runTrace d tr s).1.lz.st k = .value v := by
  induction tr generalizing s with
  | nil => simp [hist, okForces] at h
  | cons x tr ih =>
    obtain ⟨tid, op⟩ := x
    rw [hist_cons] at h
    rw [runTrace_cons]
    cases op with
    | send c v' => simp [okForces] at h; exact ih _ h
    | recv c => simp [okForces] at h; exact ih _ h
    | load r => simp [okForces] at h; exact ih _ h
    | store r v' => simp [okForces] at h; exact ih _ h
    | force j =>
      cases hr : (force d forceFuel tid j s.lz).2 with
      | ok v' =>
        by_cases hjk : j = k
        · subst hjk
          simp [okForces, pstep, hr] at h
          rcases h with h | h
          · subst h
            apply trace_value_stable
            simpa [pstep] using force_ok_sets_value d forceFuel tid j s.lz v hr
          · exact ih _ h
        · simp [okForces, pstep, hr, hjk] at h; exact ih _ h
      | err e => simp [okForces, pstep, hr] at h; exact ih _ h
      | pending => simp [okForces, pstep, hr] at h; exact ih _ h
      | nofuel => simp [okForces, pstep, hr] at h; exact ih _ h

/-! ## Self-dependency -/

theorem force_selfdep_never_value (d : Decls) (k : Nat) (n : Int) (hd : d k = .add k n)
    (fuel tid j : Nat) (s : LS) (h : ∀ v, s.st k ≠ .value v) :
    ∀ v, (force d fuel tid j s).1.st k ≠ .value v := by
  induction fuel generalizing j s with
  | zero => simpa [force] using h
  | succ fuel ih =>
    unfold force
    split
    · rename_i hj
      split
      · rename_i v' hdj
        have hjk : k ≠ j := by intro e; subst e; rw [hd] at hdj; cases hdj
        intro v; simp [upd, hjk]; exact h v
      · rename_i hdj
        have hjk : k ≠ j := by intro e; subst e; rw [hd] at hdj; cases hdj
        intro v; simp [upd, hjk]; exact h v
      · rename_i j' n' hdj
        by_cases hjk : k = j
        · subst hjk
          rw [hd] at hdj
          cases hdj
          have hbh := force_blackhole_stable d fuel tid k
            { st := upd s.st k (.blackhole tid false), runs := k :: s.runs } k tid ⟨false, by simp [upd]⟩
          have hnot : ∀ v, (force d fuel tid k
              { st := upd s.st k (.blackhole tid false), runs := k :: s.runs }).2 ≠ .ok v := by
            intro v hv
            have := force_ok_sets_value d fuel tid k _ v hv
            obtain ⟨w, hw⟩ := hbh
            rw [hw] at this
            cases this
          rw [finishAdd_not_ok _ _ _ hnot]
          intro v hv
          obtain ⟨w, hw⟩ := hbh
          rw [hw] at hv
          cases hv
        · intro v
          rw [finishAdd_st_other _ _ _ _ hjk]
          apply ih
          intro v'; simp [upd, hjk]; exact h v'
    · rename_i o w hj
      split
      · exact h
      · intro v
        by_cases hjk : k = j
        · subst hjk; simp [upd]
        · simp [upd, hjk]; exact h v
    · exact h

theorem trace_selfdep_never_value (d : Decls) (k : Nat) (n : Int) (hd : d k = .add k n)
    (tr : List (Nat × POp)) (s : PState) (h : ∀ v, s.lz.st k ≠ .value v) :
    ∀ v, (runTrace d tr s).1.lz.st k ≠ .value v := by
  induction tr generalizing s with
  | nil => simpa [runTrace] using h
  | cons x tr ih =>
    obtain ⟨tid, op⟩ := x
    rw [runTrace_cons]
    apply ih
    cases op with
    | send c v' => simpa [pstep] using h
    | recv c => cases hq : s.chans c <;> simpa [pstep, hq] using h
    | load r => simpa [pstep] using h
    | store r v' => simpa [pstep] using h
    | force j => simpa [pstep] using force_selfdep_never_value d k n hd forceFuel tid j s.lz h

/-- Forcing a directly self-dependent lazy that is not yet a value: `<<loop>>` for the thread that
    owns (or now takes) the blackhole, an endless wait for any other thread. -/
theorem force_selfdep_result (d : Decls) (k : Nat) (n : Int) (hd : d k = .add k n)
    (fuel tid : Nat) (s : LS) (h : ∀ v, s.st k ≠ .value v) :
    (force d (fuel + 2) tid k s).2 = .err .loop ∨ (force d (fuel + 2) tid k s).2 = .pending := by
  cases hk : s.st k with
  | value v => exact absurd hk (h v)
  | blackhole o w =>
    rw [force_on_blackhole d (fuel + 1) tid k s o w hk]
    by_cases ho : o = tid <;> simp [ho]
  | thunk =>
    left
    have hin := force_on_blackhole d fuel tid k
      { st := upd s.st k (.blackhole tid false), runs := k :: s.runs } tid false (by simp [upd])
    simp at hin
    unfold force
    simp only [hk, hd]
    rw [finishAdd_not_ok _ _ _ (by rw [hin]; simp)]
    exact hin

/-! ## After a failure (defect D8) and the repaired `force` -/

theorem finishAddF_st_other (k : Nat) (n : Int) (p : LSF × FRes) (i : Nat) (h : i ≠ k) :
    (finishAddF k n p).1.st i = p.1.st i := by
  unfold finishAddF
  split <;> simp [upd, h]

theorem forceFixed_failed_stable (d : Decls) (fuel tid j : Nat) (s : LSF) (k : Nat) (e : FErr)
    (h : s.st k = .failed e) : (forceFixed d fuel tid j s).1.st k = .failed e := by
  induction fuel generalizing j s with
  | zero => simpa [forceFixed] using h
  | succ fuel ih =>
    unfold forceFixed
    split
    · rename_i hj
      have hjk : k ≠ j := by intro x; subst x; rw [h] at hj; cases hj
      split
      · simp [upd, hjk, h]
      · simp [upd, hjk, h]
      · rw [finishAddF_st_other _ _ _ _ hjk]
        apply ih
        simp [upd, hjk, h]
    · rename_i o w hj
      split
      · exact h
      · have hjk : k ≠ j := by intro x; subst x; rw [h] at hj; cases hj
        simp [upd, hjk, h]
    · exact h
    · exact h

theorem forceFixed_thunk_err (d : Decls) (fuel tid k : Nat) (s : LSF) (e : FErr)
    (hk : s.st k = .thunk) (h : (forceFixed d fuel tid k s).2 = .err e) :
    (forceFixed d fuel tid k s).1.st k = .failed e := by
  cases fuel with
  | zero => simp [forceFixed] at h
  | succ fuel =>
    unfold forceFixed at h ⊢
    simp only [hk] at h ⊢
    split at h
    · simp at h
    · simp at h; subst h; simp [upd]
    · rename_i j n hd
      unfold finishAddF at h ⊢
      split at h
      · simp at h
      · rename_i e' he'
        simp at h; subst h
        simp [upd]
      · rename_i hne1 hne2
        cases hr : (forceFixed d fuel tid j { st := upd s.st k (.blackhole tid false), runs := k :: s.runs }).2 with
        | ok v => exact absurd hr (hne1 v)
        | err e' => exact absurd hr (hne2 e')
        | pending => rw [hr] at h; cases h
        | nofuel => rw [hr] at h; cases h

theorem forceFixed_on_failed (d : Decls) (fuel tid k : Nat) (s : LSF) (e : FErr) (h : s.st k = .failed e) :
    (forceFixed d (fuel + 1) tid k s).2 = .err e := by
  unfold forceFixed
  rw [h]

/-- A sequence of forces `(thread, lazy)` in the repaired model. -/
def runForcesF (d : Decls) : List (Nat × Nat) → LSF → LSF
  | [], s => s
  | (tid, j) :: tr, s => runForcesF d tr (forceFixed d forceFuel tid j s).1

theorem runForcesF_failed_stable (d : Decls) (tr : List (Nat × Nat)) (s : LSF) (k : Nat) (e : FErr)
    (h : s.st k = .failed e) : (runForcesF d tr s).st k = .failed e := by
  induction tr generalizing s with
  | nil => simpa [runForcesF] using h
  | cons x tr ih =>
    obtain ⟨tid, j⟩ := x
    simp only [runForcesF]
    exact ih _ (forceFixed_failed_stable d forceFuel tid j s k e h)

end GluonModel.Chan
