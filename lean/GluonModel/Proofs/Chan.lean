/-
Lemmas for C17 (model: `GluonModel.Chan`). Specification-side functions (what was sent, what was
received, the last store, …) are defined here; the property theorems in `Props/C17.lean` are thin
statements over them.
-/
import GluonModel.Chan

namespace GluonModel.Chan

/-! ## Specification-side readings of a trace -/

/-- History = every call of the trace paired with its result. -/
def hist (d : Decls) (tr : List (Nat × POp)) (s : PState) : List ((Nat × POp) × PRes) :=
  tr.zip (runTrace d tr s).2

/-- Values sent on channel `c`, in sending order. -/
def sentVals (c : Nat) : List (Nat × POp) → List Int
  | [] => []
  | (_, op) :: tr =>
    match op with
    | .send c' v => if c' = c then v :: sentVals c tr else sentVals c tr
    | _ => sentVals c tr

/-- Values delivered by `recv` on channel `c`, in delivery order. -/
def gotVals (c : Nat) : List ((Nat × POp) × PRes) → List Int
  | [] => []
  | ((_, op), r) :: h =>
    match op, r with
    | .recv c', .got v => if c' = c then v :: gotVals c h else gotVals c h
    | _, _ => gotVals c h

/-- The value most recently stored into cell `r` by the trace (`init` if none). -/
def lastStore (r : Nat) (init : Int) : List (Nat × POp) → Int
  | [] => init
  | (_, op) :: tr =>
    match op with
    | .store r' v => if r' = r then lastStore r v tr else lastStore r init tr
    | _ => lastStore r init tr

/-- Values returned by successful forces of lazy `k`. -/
def okForces (k : Nat) : List ((Nat × POp) × PRes) → List Int
  | [] => []
  | ((_, op), r) :: h =>
    match op, r with
    | .force k', .forced (.ok v) => if k' = k then v :: okForces k h else okForces k h
    | _, _ => okForces k h

theorem runTrace_cons (d : Decls) (tid : Nat) (op : POp) (tr : List (Nat × POp)) (s : PState) :
    runTrace d ((tid, op) :: tr) s =
      ((runTrace d tr (pstep d tid op s).1).1, (pstep d tid op s).2 :: (runTrace d tr (pstep d tid op s).1).2) := by
  simp [runTrace]

theorem hist_cons (d : Decls) (tid : Nat) (op : POp) (tr : List (Nat × POp)) (s : PState) :
    hist d ((tid, op) :: tr) s = ((tid, op), (pstep d tid op s).2) :: hist d tr (pstep d tid op s).1 := by
  simp [hist, runTrace_cons]

theorem runTrace_append (d : Decls) (a b : List (Nat × POp)) (s : PState) :
    (runTrace d (a ++ b) s).1 = (runTrace d b (runTrace d a s).1).1 := by
  induction a generalizing s with
  | nil => simp [runTrace]
  | cons x a ih =>
    obtain ⟨tid, op⟩ := x
    simp [runTrace_cons, ih]

/-! ## Channels -/

theorem chan_fifo_gen (d : Decls) (c : Nat) (tr : List (Nat × POp)) (s : PState) :
    s.chans c ++ sentVals c tr = gotVals c (hist d tr s) ++ (runTrace d tr s).1.chans c := by
  induction tr generalizing s with
  | nil => simp [sentVals, gotVals, hist, runTrace]
  | cons x tr ih =>
    obtain ⟨tid, op⟩ := x
    rw [hist_cons, runTrace_cons]
    cases op with
    | send c' v =>
      have := ih (pstep d tid (.send c' v) s).1
      by_cases h : c' = c
      · subst h; simp [sentVals, gotVals, pstep] at this ⊢; simpa using this
      · have hc : c ≠ c' := fun e => h e.symm
        simp [sentVals, gotVals, pstep, h, upd, hc] at this ⊢; exact this
    | recv c' =>
      have := ih (pstep d tid (.recv c') s).1
      by_cases h : c' = c
      · subst h
        cases hq : s.chans c' with
        | nil => simp [sentVals, gotVals, pstep, hq] at this ⊢; exact this
        | cons v q => simp [sentVals, gotVals, pstep, hq] at this ⊢; exact this
      · have hc : c ≠ c' := fun e => h e.symm
        cases hq : s.chans c' with
        | nil => simp [sentVals, gotVals, pstep, hq] at this ⊢; exact this
        | cons v q => simp [sentVals, gotVals, pstep, hq, h, upd, hc] at this ⊢; exact this
    | load r =>
      have := ih (pstep d tid (.load r) s).1
      simp [sentVals, gotVals, pstep] at this ⊢; exact this
    | store r v =>
      have := ih (pstep d tid (.store r v) s).1
      simp [sentVals, gotVals, pstep] at this ⊢; exact this
    | force k =>
      have := ih (pstep d tid (.force k) s).1
      simp [sentVals, gotVals, pstep] at this ⊢; exact this

/-! ## References -/

theorem cells_after (d : Decls) (r : Nat) (tr : List (Nat × POp)) (s : PState) :
    (runTrace d tr s).1.cells r = lastStore r (s.cells r) tr := by
  induction tr generalizing s with
  | nil => simp [lastStore, runTrace]
  | cons x tr ih =>
    obtain ⟨tid, op⟩ := x
    rw [runTrace_cons]
    cases op with
    | send c v => simp [lastStore, ih, pstep]
    | recv c =>
      cases hq : s.chans c <;> simp [lastStore, ih, pstep, hq]
    | load r' => simp [lastStore, ih, pstep]
    | store r' v =>
      by_cases h : r' = r
      · subst h; simp [lastStore, ih, pstep]
      · have hc : r ≠ r' := fun e => h e.symm
        simp [lastStore, ih, pstep, h, upd, hc]
    | force k => simp [lastStore, ih, pstep]

/-! ## Lazy values: frame and monotonicity lemmas for `force` -/

theorem finishAdd_ok (k : Nat) (n : Int) (p : LS × FRes) (v : Int) (h : p.2 = .ok v) :
    finishAdd k n p = ({ st := upd p.1.st k (.value (v + n)), runs := p.1.runs }, .ok (v + n)) := by
  unfold finishAdd; rw [h]

theorem finishAdd_err (k : Nat) (n : Int) (p : LS × FRes) (e : FErr) (h : p.2 = .err e) :
    finishAdd k n p = ({ st := upd p.1.st k (.failed e), runs := p.1.runs }, .err e) := by
  unfold finishAdd; rw [h]

theorem finishAdd_pending (k : Nat) (n : Int) (p : LS × FRes) (h : p.2 = .pending) :
    finishAdd k n p = p := by
  unfold finishAdd; rw [h]

theorem finishAdd_nofuel (k : Nat) (n : Int) (p : LS × FRes) (h : p.2 = .nofuel) :
    finishAdd k n p = p := by
  unfold finishAdd; rw [h]

theorem finishAdd_st_other (k : Nat) (n : Int) (p : LS × FRes) (i : Nat) (h : i ≠ k) :
    (finishAdd k n p).1.st i = p.1.st i := by
  unfold finishAdd
  split <;> simp [upd, h]

theorem finishAdd_runs (k : Nat) (n : Int) (p : LS × FRes) : (finishAdd k n p).1.runs = p.1.runs := by
  unfold finishAdd
  split <;> simp

/-- A cell that is neither a thunk nor a blackhole is final: no force by anyone changes it. -/
theorem force_final_stable (d : Decls) (fuel tid j : Nat) (s : LS) (k : Nat) (x : LState)
    (hx1 : x ≠ .thunk) (hx2 : ∀ o w, x ≠ .blackhole o w)
    (h : s.st k = x) : (force d fuel tid j s).1.st k = x := by
  induction fuel generalizing j s with
  | zero => simpa [force] using h
  | succ fuel ih =>
    unfold force
    split
    · rename_i hj
      have hjk : k ≠ j := by intro e; subst e; rw [h] at hj; exact hx1 hj
      split
      · simp [upd, hjk, h]
      · simp [upd, hjk, h]
      · rw [finishAdd_st_other _ _ _ _ hjk]
        apply ih
        simp [upd, hjk, h]
    · rename_i o w hj
      split
      · exact h
      · have hjk : k ≠ j := by intro e; subst e; rw [h] at hj; exact hx2 _ _ hj
        simp [upd, hjk, h]
    · exact h
    · exact h

/-- A computed value is never overwritten (any thread, any lazy being forced). -/
theorem force_value_stable (d : Decls) (fuel tid j : Nat) (s : LS) (k : Nat) (v : Int)
    (h : s.st k = .value v) : (force d fuel tid j s).1.st k = .value v :=
  force_final_stable d fuel tid j s k _ (by simp) (by simp) h

/-- A recorded failure is never overwritten. -/
theorem force_failed_stable (d : Decls) (fuel tid j : Nat) (s : LS) (k : Nat) (e : FErr)
    (h : s.st k = .failed e) : (force d fuel tid j s).1.st k = .failed e :=
  force_final_stable d fuel tid j s k _ (by simp) (by simp) h

/-- A successful force leaves the value in the cell. -/
theorem force_ok_sets_value (d : Decls) (fuel tid k : Nat) (s : LS) (v : Int)
    (h : (force d fuel tid k s).2 = .ok v) : (force d fuel tid k s).1.st k = .value v := by
  cases fuel with
  | zero => simp [force] at h
  | succ fuel =>
    unfold force at h ⊢
    split at h
    · split at h
      · simp at h; subst h; simp
      · simp at h
      · rename_i j n hd
        cases hr : (force d fuel tid j { st := upd s.st k (.blackhole tid false), runs := k :: s.runs }).2 with
        | ok v' =>
          rw [finishAdd_ok _ _ _ v' hr] at h ⊢
          simp at h; subst h; simp
        | err e => rw [finishAdd_err _ _ _ e hr] at h; simp at h
        | pending => rw [finishAdd_pending _ _ _ hr] at h; rw [hr] at h; cases h
        | nofuel => rw [finishAdd_nofuel _ _ _ hr] at h; rw [hr] at h; cases h
    · split at h
      · simp at h
      · simp at h
    · rename_i v' hk
      simp at h; subst h; simpa using hk
    · simp at h

/-- A force that finds the thunk unevaluated and reports an error records it in the cell
    (lazy.rs:121-131). -/
theorem force_thunk_err (d : Decls) (fuel tid k : Nat) (s : LS) (e : FErr)
    (hk : s.st k = .thunk) (h : (force d fuel tid k s).2 = .err e) :
    (force d fuel tid k s).1.st k = .failed e := by
  cases fuel with
  | zero => simp [force] at h
  | succ fuel =>
    unfold force at h ⊢
    simp only [hk] at h ⊢
    split at h
    · simp at h
    · simp at h; subst h; simp [upd]
    · rename_i j n hd
      cases hr : (force d fuel tid j { st := upd s.st k (.blackhole tid false), runs := k :: s.runs }).2 with
      | ok v' => rw [finishAdd_ok _ _ _ v' hr] at h; simp at h
      | err e' =>
        rw [finishAdd_err _ _ _ e' hr] at h ⊢
        simp at h; subst h; simp [upd]
      | pending => rw [finishAdd_pending _ _ _ hr] at h; rw [hr] at h; cases h
      | nofuel => rw [finishAdd_nofuel _ _ _ hr] at h; rw [hr] at h; cases h

theorem force_on_failed (d : Decls) (fuel tid k : Nat) (s : LS) (e : FErr) (h : s.st k = .failed e) :
    force d (fuel + 1) tid k s = (s, .err e) := by
  unfold force
  rw [h]

theorem force_on_value (d : Decls) (fuel tid k : Nat) (s : LS) (v : Int) (h : s.st k = .value v) :
    force d (fuel + 1) tid k s = (s, .ok v) := by
  unfold force
  rw [h]

/-- Forcing a lazy blackholed by `o`: the owner gets `<<loop>>`, every other thread waits. -/
theorem force_on_blackhole (d : Decls) (fuel tid k : Nat) (s : LS) (o : Nat) (w : Bool)
    (h : s.st k = .blackhole o w) :
    (force d (fuel + 1) tid k s).2 = if o = tid then .err .loop else .pending := by
  unfold force
  rw [h]
  by_cases ho : o = tid <;> simp [ho]

theorem force_on_own_blackhole (d : Decls) (fuel tid k : Nat) (s : LS) (w : Bool)
    (h : s.st k = .blackhole tid w) : force d (fuel + 1) tid k s = (s, .err .loop) := by
  unfold force
  rw [h]
  simp

/-! ### Blackholes exist only while their owner evaluates: a force never waits, and when it returns
    (value or error) it has removed every blackhole it created. -/

def IsBH (x : LState) : Prop := ∃ o w, x = .blackhole o w

/-- Every blackhole belongs to thread `tid` (the evaluation stack of the running force). -/
def Owned (tid : Nat) (s : LS) : Prop := ∀ j o w, s.st j = .blackhole o w → o = tid

def NoBH (s : LS) : Prop := ∀ j, ¬ IsBH (s.st j)

theorem NoBH.owned {s : LS} (h : NoBH s) (tid : Nat) : Owned tid s := by
  intro j o w hj
  exact absurd ⟨o, w, hj⟩ (h j)

theorem force_owned (d : Decls) (fuel tid k : Nat) (s : LS) (h : Owned tid s) :
    (force d fuel tid k s).2 ≠ .pending ∧ Owned tid (force d fuel tid k s).1 ∧
    ((force d fuel tid k s).2 ≠ .nofuel → ∀ j, IsBH ((force d fuel tid k s).1.st j) → IsBH (s.st j)) := by
  induction fuel generalizing k s with
  | zero => simp [force, h]
  | succ fuel ih =>
    unfold force
    split
    · rename_i hk
      split
      · refine ⟨by simp, ?_, ?_⟩
        · intro j o w hj
          by_cases e : j = k
          · subst e; simp [upd] at hj
          · simp [upd, e] at hj; exact h j o w hj
        · intro _ j hj
          by_cases e : j = k
          · subst e; obtain ⟨o, w, hj⟩ := hj; simp [upd] at hj
          · simpa [upd, e] using hj
      · refine ⟨by simp, ?_, ?_⟩
        · intro j o w hj
          by_cases e : j = k
          · subst e; simp [upd] at hj
          · simp [upd, e] at hj; exact h j o w hj
        · intro _ j hj
          by_cases e : j = k
          · subst e; obtain ⟨o, w, hj⟩ := hj; simp [upd] at hj
          · simpa [upd, e] using hj
      · rename_i j' n hd
        have hs1 : Owned tid { st := upd s.st k (.blackhole tid false), runs := k :: s.runs } := by
          intro j o w hj
          by_cases e : j = k
          · subst e; simp [upd] at hj; exact hj.1.symm
          · simp [upd, e] at hj; exact h j o w hj
        obtain ⟨ha, hb, hc⟩ := ih j' _ hs1
        cases hr : (force d fuel tid j' { st := upd s.st k (.blackhole tid false), runs := k :: s.runs }).2 with
        | ok v =>
          rw [finishAdd_ok _ _ _ v hr]
          refine ⟨by simp, ?_, ?_⟩
          · intro j o w hj
            by_cases e : j = k
            · subst e; simp [upd] at hj
            · simp [upd, e] at hj; exact hb j o w hj
          · intro _ j hj
            by_cases e : j = k
            · subst e; obtain ⟨o, w, hj⟩ := hj; simp [upd] at hj
            · have h2 : IsBH ((force d fuel tid j' { st := upd s.st k (.blackhole tid false), runs := k :: s.runs }).1.st j) := by
                simpa [upd, e] using hj
              have := hc (by rw [hr]; simp) j h2
              simpa [upd, e] using this
        | err e' =>
          rw [finishAdd_err _ _ _ e' hr]
          refine ⟨by simp, ?_, ?_⟩
          · intro j o w hj
            by_cases e : j = k
            · subst e; simp [upd] at hj
            · simp [upd, e] at hj; exact hb j o w hj
          · intro _ j hj
            by_cases e : j = k
            · subst e; obtain ⟨o, w, hj⟩ := hj; simp [upd] at hj
            · have h2 : IsBH ((force d fuel tid j' { st := upd s.st k (.blackhole tid false), runs := k :: s.runs }).1.st j) := by
                simpa [upd, e] using hj
              have := hc (by rw [hr]; simp) j h2
              simpa [upd, e] using this
        | pending => exact absurd hr ha
        | nofuel =>
          rw [finishAdd_nofuel _ _ _ hr]
          exact ⟨by rw [hr]; simp, hb, fun hne => absurd hr hne⟩
    · rename_i o w hk
      have ho : o = tid := h k o w hk
      simp [ho, h]
    · simp [h]
    · simp [h]

/-! ### Fuel: `nofuel` needs a chain of more unevaluated lazies than there are. -/

/-- Number of unevaluated lazies among `0 … n-1`. -/
def thunkCount : Nat → (Nat → LState) → Nat
  | 0, _ => 0
  | n + 1, st => thunkCount n st + (if st n = .thunk then 1 else 0)

/-- Only the lazies `0 … n-1` have bodies that force another lazy. -/
def Bounded (d : Decls) (n : Nat) : Prop := ∀ k, n ≤ k → ∀ j m, d k ≠ .add j m

theorem thunkCount_le (n : Nat) (st : Nat → LState) : thunkCount n st ≤ n := by
  induction n with
  | zero => simp [thunkCount]
  | succ n ih => simp only [thunkCount]; split <;> omega

theorem thunkCount_upd_ge (n k : Nat) (st : Nat → LState) (x : LState) (hk : n ≤ k) :
    thunkCount n (upd st k x) = thunkCount n st := by
  induction n with
  | zero => simp [thunkCount]
  | succ n ih =>
    have hne : n ≠ k := by omega
    simp only [thunkCount, upd, hne, if_false]
    rw [ih (by omega)]

theorem thunkCount_upd_lt (n k : Nat) (st : Nat → LState) (x : LState) (hk : k < n)
    (ht : st k = .thunk) (hx : x ≠ .thunk) : thunkCount n (upd st k x) + 1 = thunkCount n st := by
  induction n with
  | zero => omega
  | succ n ih =>
    by_cases e : n = k
    · subst e
      have := thunkCount_upd_ge n n st x (Nat.le_refl _)
      simp only [thunkCount, upd_same, ht, hx, if_true, if_false, this]
    · have := ih (by omega)
      simp only [thunkCount, upd, e, if_false]
      generalize (if st n = LState.thunk then 1 else 0) = c
      omega

theorem force_fuel_enough (d : Decls) (n : Nat) (hb : Bounded d n) (fuel tid k : Nat) (s : LS)
    (hf : thunkCount n s.st + 2 ≤ fuel) : (force d fuel tid k s).2 ≠ .nofuel := by
  induction fuel generalizing k s with
  | zero => omega
  | succ fuel ih =>
    unfold force
    split
    · rename_i hk
      split
      · simp
      · simp
      · rename_i j m hd
        have hkn : k < n := by
          by_cases hlt : k < n
          · exact hlt
          · exact absurd hd (hb k (by omega) j m)
        have hc := thunkCount_upd_lt n k s.st (.blackhole tid false) hkn hk (by simp)
        have := ih j { st := upd s.st k (.blackhole tid false), runs := k :: s.runs } (by simp only; omega)
        cases hr : (force d fuel tid j { st := upd s.st k (.blackhole tid false), runs := k :: s.runs }).2 with
        | ok v => rw [finishAdd_ok _ _ _ v hr]; simp
        | err e => rw [finishAdd_err _ _ _ e hr]; simp
        | pending => rw [finishAdd_pending _ _ _ hr, hr]; simp
        | nofuel => exact absurd hr this
    · split <;> simp
    · simp
    · simp

/-! `runs`: a thunk body is started only from state `thunk`, which is left at once and never re-entered. -/

def RunsInv (s : LS) : Prop := ∀ k, s.runs.count k + (if s.st k = .thunk then 1 else 0) ≤ 1

theorem runsInv_set (j : Nat) (s2 : LS) (x : LState) (hx : x ≠ .thunk) (h2 : RunsInv s2) :
    RunsInv { st := upd s2.st j x, runs := s2.runs } := by
  intro k
  have hk := h2 k
  by_cases e : k = j
  · subst e; simp [upd, hx] at hk ⊢; split at hk <;> omega
  · simp [upd, e] at hk ⊢; exact hk

theorem runsInv_start (tid j : Nat) (s : LS) (h : RunsInv s) (hj : s.st j = .thunk) :
    RunsInv { st := upd s.st j (.blackhole tid false), runs := j :: s.runs } := by
  intro k
  have hk := h k
  by_cases e : k = j
  · subst e; simp [upd, hj] at hk ⊢; omega
  · have e' : j ≠ k := fun x => e x.symm
    simp [upd, e, List.count_cons, e'] at hk ⊢; exact hk

theorem finishAdd_runsInv (k : Nat) (n : Int) (p : LS × FRes) (h : RunsInv p.1) :
    RunsInv (finishAdd k n p).1 := by
  unfold finishAdd
  split
  · exact runsInv_set _ _ _ (by simp) h
  · exact runsInv_set _ _ _ (by simp) h
  · exact h

theorem force_runsInv (d : Decls) (fuel tid j : Nat) (s : LS) (h : RunsInv s) :
    RunsInv (force d fuel tid j s).1 := by
  induction fuel generalizing j s with
  | zero => simpa [force] using h
  | succ fuel ih =>
    unfold force
    split
    · rename_i hj
      split
      · exact runsInv_set j _ _ (by simp) (runsInv_start tid j s h hj)
      · exact runsInv_set j _ _ (by simp) (runsInv_start tid j s h hj)
      · rename_i j' n hd
        exact finishAdd_runsInv _ _ _ (ih j' _ (runsInv_start tid j s h hj))
    · split
      · exact h
      · exact runsInv_set j _ _ (by simp) h
    · exact h
    · exact h

/-! Trace-level consequences -/

theorem trace_value_stable (d : Decls) (tr : List (Nat × POp)) (s : PState) (k : Nat) (v : Int)
    (h : s.lz.st k = .value v) : (runTrace d tr s).1.lz.st k = .value v := by
  induction tr generalizing s with
  | nil => simpa [runTrace] using h
  | cons x tr ih =>
    obtain ⟨tid, op⟩ := x
    rw [runTrace_cons]
    apply ih
    cases op with
    | send c v' => simpa [pstep] using h
    | recv c => cases hq : s.chans c <;> simpa [pstep, hq] using h
    | load r => simpa [pstep] using h
    | store r v' => simpa [pstep] using h
    | force j => simpa [pstep] using force_value_stable d forceFuel tid j s.lz k v h

theorem trace_runsInv (d : Decls) (tr : List (Nat × POp)) (s : PState) (h : RunsInv s.lz) :
    RunsInv (runTrace d tr s).1.lz := by
  induction tr generalizing s with
  | nil => simpa [runTrace] using h
  | cons x tr ih =>
    obtain ⟨tid, op⟩ := x
    rw [runTrace_cons]
    apply ih
    cases op with
    | send c v' => simpa [pstep] using h
    | recv c => cases hq : s.chans c <;> simpa [pstep, hq] using h
    | load r => simpa [pstep] using h
    | store r v' => simpa [pstep] using h
    | force j => simpa [pstep] using force_runsInv d forceFuel tid j s.lz h

theorem okForces_final (d : Decls) (tr : List (Nat × POp)) (s : PState) (k : Nat) (v : Int)
    (h : v ∈ okForces k (hist d tr s)) : (runTrace d tr s).1.lz.st k = .value v := by
  induction tr generalizing s with
  | nil => simp [hist, okForces] at h
  | cons x tr ih =>
    obtain ⟨tid, op⟩ := x
    rw [hist_cons] at h
    rw [runTrace_cons]
    cases op with
    | send c v' => simp [okForces] at h; exact ih _ h
    | recv c => simp [okForces] at h; exact ih _ h
    | load r => simp [okForces] at h; exact ih _ h
    | store r v' => simp [okForces] at h; exact ih _ h
    | force j =>
      cases hr : (force d forceFuel tid j s.lz).2 with
      | ok v' =>
        by_cases hjk : j = k
        · subst hjk
          simp [okForces, pstep, hr] at h
          rcases h with h | h
          · subst h
            apply trace_value_stable
            simpa [pstep] using force_ok_sets_value d forceFuel tid j s.lz v hr
          · exact ih _ h
        · simp [okForces, pstep, hr, hjk] at h; exact ih _ h
      | err e => simp [okForces, pstep, hr] at h; exact ih _ h
      | pending => simp [okForces, pstep, hr] at h; exact ih _ h
      | nofuel => simp [okForces, pstep, hr] at h; exact ih _ h


theorem trace_failed_stable (d : Decls) (tr : List (Nat × POp)) (s : PState) (k : Nat) (e : FErr)
    (h : s.lz.st k = .failed e) : (runTrace d tr s).1.lz.st k = .failed e := by
  induction tr generalizing s with
  | nil => simpa [runTrace] using h
  | cons x tr ih =>
    obtain ⟨tid, op⟩ := x
    rw [runTrace_cons]
    apply ih
    cases op with
    | send c v' => simpa [pstep] using h
    | recv c => cases hq : s.chans c <;> simpa [pstep, hq] using h
    | load r => simpa [pstep] using h
    | store r v' => simpa [pstep] using h
    | force j => simpa [pstep] using force_failed_stable d forceFuel tid j s.lz k e h

/-- With at most `forceFuel - 2` lazies whose body forces another lazy, a top-level force (no blackhole
    around) never runs out of fuel, never waits, and leaves no blackhole behind. -/
theorem force_top (d : Decls) (n : Nat) (hb : Bounded d n) (hn : n + 2 ≤ forceFuel) (tid k : Nat)
    (s : LS) (h : NoBH s) :
    (force d forceFuel tid k s).2 ≠ .nofuel ∧ (force d forceFuel tid k s).2 ≠ .pending ∧
    NoBH (force d forceFuel tid k s).1 := by
  have hf := force_fuel_enough d n hb forceFuel tid k s (by have := thunkCount_le n s.st; omega)
  obtain ⟨ha, _, hc⟩ := force_owned d forceFuel tid k s (h.owned tid)
  exact ⟨hf, ha, fun j hj => h j (hc hf j hj)⟩

theorem trace_noBH (d : Decls) (n : Nat) (hb : Bounded d n) (hn : n + 2 ≤ forceFuel)
    (tr : List (Nat × POp)) (s : PState) (h : NoBH s.lz) : NoBH (runTrace d tr s).1.lz := by
  induction tr generalizing s with
  | nil => simpa [runTrace] using h
  | cons x tr ih =>
    obtain ⟨tid, op⟩ := x
    rw [runTrace_cons]
    apply ih
    cases op with
    | send c v' => simpa [pstep] using h
    | recv c => cases hq : s.chans c <;> simpa [pstep, hq] using h
    | load r => simpa [pstep] using h
    | store r v' => simpa [pstep] using h
    | force j => simpa [pstep] using (force_top d n hb hn tid j s.lz h).2.2

theorem init_noBH (cells : Nat → Int) : NoBH (PState.init cells).lz := by
  intro j hj
  obtain ⟨o, w, hj⟩ := hj
  simp [PState.init] at hj

/-- At top level, an error of `force k` means the cell now holds the recorded failure. -/
theorem force_top_err_records (d : Decls) (tid k : Nat) (s : LS) (h : NoBH s) (e : FErr)
    (he : (force d forceFuel tid k s).2 = .err e) : (force d forceFuel tid k s).1.st k = .failed e := by
  cases hk : s.st k with
  | thunk => exact force_thunk_err d forceFuel tid k s e hk he
  | blackhole o w => exact absurd ⟨o, w, hk⟩ (h k)
  | value v =>
    rw [show forceFuel = 7 + 1 from rfl, force_on_value d 7 tid k s v hk] at he
    cases he
  | failed e' =>
    rw [show forceFuel = 7 + 1 from rfl, force_on_failed d 7 tid k s e' hk] at he ⊢
    simp at he
    subst he
    exact hk

/-! ## Self-dependency -/

/-- For a directly self-dependent lazy `k` the cell is a thunk, a blackhole (while being evaluated) or
    the recorded `<<loop>>` — whatever is forced by whomever. -/
def SelfDepInv (k : Nat) (s : LS) : Prop :=
  s.st k = .thunk ∨ s.st k = .failed .loop ∨ IsBH (s.st k)

theorem force_selfdep_inv (d : Decls) (k : Nat) (n : Int) (hd : d k = .add k n)
    (fuel tid j : Nat) (s : LS) (h : SelfDepInv k s) : SelfDepInv k (force d fuel tid j s).1 := by
  induction fuel generalizing j s with
  | zero => simpa [force] using h
  | succ fuel ih =>
    by_cases hjk : j = k
    · subst hjk
      cases hk : s.st j with
      | thunk =>
        unfold force
        simp only [hk, hd]
        cases fuel with
        | zero =>
          simp only [force]
          rw [finishAdd_nofuel _ _ _ rfl]
          right; right; exact ⟨tid, false, by simp [upd]⟩
        | succ fuel =>
          rw [force_on_own_blackhole d fuel tid j _ false (by simp [upd])]
          rw [finishAdd_err _ _ _ .loop rfl]
          right; left; simp [upd]
      | blackhole o w =>
        unfold force
        simp only [hk]
        split
        · right; right; exact ⟨o, w, hk⟩
        · right; right; exact ⟨o, true, by simp [upd]⟩
      | value v =>
        rcases h with h | h | ⟨o, w, h⟩ <;> rw [hk] at h <;> cases h
      | failed e =>
        rw [force_on_failed d fuel tid j s e hk]
        exact h
    · have hkj : k ≠ j := fun e => hjk e.symm
      unfold force
      split
      · split
        · simpa [SelfDepInv, upd, hkj] using h
        · simpa [SelfDepInv, upd, hkj] using h
        · rename_i j' n' hdj
          have h1 : SelfDepInv k { st := upd s.st j (.blackhole tid false), runs := j :: s.runs } := by
            simpa [SelfDepInv, upd, hkj] using h
          have := ih j' _ h1
          unfold SelfDepInv at this ⊢
          rw [finishAdd_st_other _ _ _ _ hkj]
          exact this
      · split
        · exact h
        · simpa [SelfDepInv, upd, hkj] using h
      · exact h
      · exact h

theorem trace_selfdep_inv (d : Decls) (k : Nat) (n : Int) (hd : d k = .add k n)
    (tr : List (Nat × POp)) (s : PState) (h : SelfDepInv k s.lz) : SelfDepInv k (runTrace d tr s).1.lz := by
  induction tr generalizing s with
  | nil => simpa [runTrace] using h
  | cons x tr ih =>
    obtain ⟨tid, op⟩ := x
    rw [runTrace_cons]
    apply ih
    cases op with
    | send c v' => simpa [pstep] using h
    | recv c => cases hq : s.chans c <;> simpa [pstep, hq] using h
    | load r => simpa [pstep] using h
    | store r v' => simpa [pstep] using h
    | force j => simpa [pstep] using force_selfdep_inv d k n hd forceFuel tid j s.lz h

/-- A force inside its own thunk: the inner force reports `<<loop>>`, the outer computation fails with
    it and records it. -/
theorem force_selfdep_thunk (d : Decls) (k : Nat) (n : Int) (hd : d k = .add k n)
    (fuel tid : Nat) (s : LS) (hk : s.st k = .thunk) :
    (force d (fuel + 2) tid k s).2 = .err .loop := by
  unfold force
  simp only [hk, hd]
  rw [force_on_own_blackhole d fuel tid k _ false (by simp [upd])]
  rw [finishAdd_err _ _ _ .loop rfl]

/-! ## The old rule (before commit b4f59e3): a failed thunk left `Blackhole(owner)` — defect D8 -/

theorem finishAddOld_ok (k : Nat) (n : Int) (p : LSOld × FRes) (v : Int) (h : p.2 = .ok v) :
    finishAddOld k n p = ({ st := upd p.1.st k (.value (v + n)), runs := p.1.runs }, .ok (v + n)) := by
  unfold finishAddOld; rw [h]

theorem finishAddOld_not_ok (k : Nat) (n : Int) (p : LSOld × FRes) (h : ∀ v, p.2 ≠ .ok v) :
    finishAddOld k n p = p := by
  unfold finishAddOld
  split
  · rename_i v hv; exact absurd hv (h v)
  · rfl

theorem finishAddOld_st_other (k : Nat) (n : Int) (p : LSOld × FRes) (i : Nat) (h : i ≠ k) :
    (finishAddOld k n p).1.st i = p.1.st i := by
  unfold finishAddOld
  split <;> simp [upd, h]

/-- Blackholes keep their owner whatever is forced by whomever (only the waiter flag can change). -/
theorem forceOld_blackhole_stable (d : Decls) (fuel tid j : Nat) (s : LSOld) (k o : Nat)
    (h : ∃ w, s.st k = .blackhole o w) : ∃ w, (forceOld d fuel tid j s).1.st k = .blackhole o w := by
  induction fuel generalizing j s with
  | zero => simpa [forceOld] using h
  | succ fuel ih =>
    obtain ⟨w, hw⟩ := h
    unfold forceOld
    split
    · rename_i hj
      have hjk : k ≠ j := by intro e; subst e; rw [hw] at hj; cases hj
      split
      · exact ⟨w, by simp [upd, hjk, hw]⟩
      · exact ⟨w, by simp [upd, hjk, hw]⟩
      · rename_i j' n hd
        rw [finishAddOld_st_other _ _ _ _ hjk]
        apply ih
        exact ⟨w, by simp [upd, hjk, hw]⟩
    · rename_i o' w' hj
      split
      · exact ⟨w, hw⟩
      · by_cases hjk : k = j
        · subst hjk
          rw [hw] at hj
          cases hj
          exact ⟨true, by simp [upd]⟩
        · exact ⟨w, by simp [upd, hjk, hw]⟩
    · exact ⟨w, hw⟩

/-- A force that reports an error leaves the lazy blackholed BY THE FORCING THREAD (old lazy.rs:146). -/
theorem forceOld_err_leaves_blackhole (d : Decls) (fuel tid k : Nat) (s : LSOld) (e : FErr)
    (h : (forceOld d fuel tid k s).2 = .err e) : ∃ w, (forceOld d fuel tid k s).1.st k = .blackhole tid w := by
  cases fuel with
  | zero => simp [forceOld] at h
  | succ fuel =>
    unfold forceOld at h ⊢
    split at h
    · rename_i hk
      split at h
      · simp at h
      · exact ⟨false, by simp [upd]⟩
      · rename_i j n hd
        have hst := forceOld_blackhole_stable d fuel tid j
          { st := upd s.st k (.blackhole tid false), runs := k :: s.runs } k tid ⟨false, by simp [upd]⟩
        cases hr : (forceOld d fuel tid j { st := upd s.st k (.blackhole tid false), runs := k :: s.runs }).2 with
        | ok v' => rw [finishAddOld_ok _ _ _ v' hr] at h; simp at h
        | err e' => rw [finishAddOld_not_ok _ _ _ (by simp [hr])]; exact hst
        | pending => rw [finishAddOld_not_ok _ _ _ (by simp [hr])]; exact hst
        | nofuel => rw [finishAddOld_not_ok _ _ _ (by simp [hr])]; exact hst
    · rename_i o w hk
      split at h
      · rename_i ho
        subst ho
        exact ⟨w, by simpa using hk⟩
      · simp at h
    · simp at h

/-- Forcing a lazy blackholed by `o`: the owner gets `<<loop>>`, every other thread waits. -/
theorem forceOld_on_blackhole (d : Decls) (fuel tid k : Nat) (s : LSOld) (o : Nat) (w : Bool)
    (h : s.st k = .blackhole o w) :
    (forceOld d (fuel + 1) tid k s).2 = if o = tid then .err .loop else .pending := by
  unfold forceOld
  rw [h]
  by_cases ho : o = tid <;> simp [ho]

/-- A sequence of forces `(thread, lazy)` under the old rule. -/
def runForcesOld (d : Decls) : List (Nat × Nat) → LSOld → LSOld
  | [], s => s
  | (tid, j) :: tr, s => runForcesOld d tr (forceOld d forceFuel tid j s).1

theorem runForcesOld_blackhole_stable (d : Decls) (tr : List (Nat × Nat)) (s : LSOld) (k o : Nat)
    (h : ∃ w, s.st k = .blackhole o w) : ∃ w, (runForcesOld d tr s).st k = .blackhole o w := by
  induction tr generalizing s with
  | nil => simpa [runForcesOld] using h
  | cons x tr ih =>
    obtain ⟨tid, j⟩ := x
    simp only [runForcesOld]
    exact ih _ (forceOld_blackhole_stable d forceFuel tid j s k o h)

end GluonModel.Chan
