/-
Lemmas about the coroutine interpreter `runOps` (spawn / resume / yield) of `GluonModel.Chan`.
-/
import GluonModel.Chan
import GluonModel.Proofs.Chan

namespace GluonModel.Chan

/-! ## A generic invariant principle for `runOps` -/

/-- If `I` survives every primitive call (with its logging), every bookkeeping event (kinds 11–14) and
    the thread-table update that `resume` makes when the child stops, then it survives any program. -/
theorem runOps_preserves (d : Decls) (I : St → Prop)
    (hprim : ∀ tid c p s, I s → I (doPrim d tid c p s).1)
    (hemit : ∀ (s : St) (e : Ev), 10 < e.kind → I s → I (s.emit e))
    (hchild : ∀ tid t (s0 : St) ops s1 o s2, I s0 → s0.th t = .ready ops → I s1 →
      afterChild tid t s1 o = .ok s2 → I s2) :
    ∀ fuel tid ops s, I s → I (runOps d fuel tid ops s).1 := by
  intro fuel
  induction fuel with
  | zero => intro tid ops s h; simpa [runOps] using h
  | succ fuel ih =>
    intro tid ops s h
    cases ops with
    | nil => simpa [runOps] using h
    | cons op rest =>
      cases op with
      | prim p =>
        simp only [runOps]
        split
        · exact hprim _ _ _ _ h
        · exact hprim _ _ _ _ h
        · exact ih _ _ _ (hprim _ _ _ _ h)
      | forceU k =>
        simp only [runOps]
        split
        · exact ih _ _ _ (hprim _ _ _ _ h)
        · exact hprim _ _ _ _ h
        · exact hprim _ _ _ _ h
        · exact hprim _ _ _ _ h
      | yield =>
        simp only [runOps]
        split
        · exact ih _ _ _ (hemit _ _ (by simp) h)
        · exact hemit _ _ (by simp) h
      | resume t =>
        simp only [runOps]
        split
        · exact ih _ _ _ (hemit _ _ (by simp) h)
        · exact ih _ _ _ (hemit _ _ (by simp) h)
        · exact ih _ _ _ (hemit _ _ (by simp) h)
        · exact ih _ _ _ (hemit _ _ (by simp) h)
        · rename_i ops hth
          have hc := ih t ops s h
          split
          · rename_i s2 heq
            exact ih _ _ _ (hchild tid t s ops _ _ s2 h hth hc heq)
          · rename_i r heq
            -- the child's run stopped the program: the final state is the child's final state
            cases ho : (runOps d fuel t ops s).2 with
            | fin => rw [ho] at heq; simp [afterChild] at heq
            | yielded r' => rw [ho] at heq; simp [afterChild] at heq
            | blocked => rw [ho] at heq; simp [afterChild] at heq
            | failed e f => rw [ho] at heq; simp [afterChild] at heq
            | panic => rw [ho] at heq; simp [afterChild] at heq; rw [← heq]; exact hc
            | nofuel => rw [ho] at heq; simp [afterChild] at heq; rw [← heq]; exact hc

/-! ## Threads: dead stays dead, a yield saves exactly the rest -/

/-- A finished thread stays finished whatever any thread does afterwards. -/
theorem done_stable (d : Decls) (t : Nat) (fuel tid : Nat) (ops : List Op) (s : St)
    (h : s.th t = .done) : (runOps d fuel tid ops s).1.th t = .done := by
  refine runOps_preserves d (fun s => s.th t = .done) ?_ ?_ ?_ fuel tid ops s h
  · intro tid c p s h; simpa [doPrim] using h
  · intro s e _ h; simpa [St.emit] using h
  · intro tid t' s0 ops s1 o s2 h0 hth h1 heq
    have hne : t ≠ t' := by
      intro e; subst e; rw [h0] at hth; cases hth
    cases o <;> simp [afterChild] at heq <;> subst heq <;> simp [St.emit, upd, hne, h1]

/-- When a thread's run stops at a `yield`, what is saved for the next `resume` is exactly the part of
    its operation list after that `yield`. -/
theorem yield_saves_suffix (d : Decls) :
    ∀ (fuel tid : Nat) (ops : List Op) (s s1 : St) (r : List Op),
      runOps d fuel tid ops s = (s1, .yielded r) → ∃ pre, ops = pre ++ .yield :: r := by
  intro fuel
  induction fuel with
  | zero => intro tid ops s s1 r h; simp [runOps] at h
  | succ fuel ih =>
    intro tid ops s s1 r h
    cases ops with
    | nil => simp [runOps] at h
    | cons op rest =>
      have step : ∀ s', runOps d fuel tid rest s' = (s1, .yielded r) → ∃ pre, op :: rest = pre ++ .yield :: r := by
        intro s' h'
        obtain ⟨pre, hp⟩ := ih tid rest s' s1 r h'
        exact ⟨op :: pre, by simp [hp]⟩
      cases op with
      | prim p =>
        simp only [runOps] at h
        split at h
        · simp at h
        · simp at h
        · exact step _ h
      | forceU k =>
        simp only [runOps] at h
        split at h
        · exact step _ h
        · simp at h
        · simp at h
        · simp at h
      | yield =>
        simp only [runOps] at h
        split at h
        · exact step _ h
        · simp at h
          exact ⟨[], by simp [h.2]⟩
      | resume t =>
        simp only [runOps] at h
        split at h
        · exact step _ h
        · exact step _ h
        · exact step _ h
        · exact step _ h
        · split at h
          · exact step _ h
          · rename_i r' heq
            cases ho : (runOps d fuel t _ s).2 with
            | fin => rw [ho] at heq; simp [afterChild] at heq
            | yielded r'' => rw [ho] at heq; simp [afterChild] at heq
            | blocked => rw [ho] at heq; simp [afterChild] at heq
            | failed e f => rw [ho] at heq; simp [afterChild] at heq
            | panic => rw [ho] at heq; simp [afterChild] at heq; rw [← heq] at h; simp at h
            | nofuel => rw [ho] at heq; simp [afterChild] at heq; rw [← heq] at h; simp at h

/-! ## Channels at program level: the observation log is FIFO across threads -/

/-- The value a log entry says was sent on / received from channel `c`. -/
def sentEv (c : Nat) (e : Ev) : Option Int := if e.kind = 1 ∧ e.a = (c : Int) then some e.b else none
def gotEv (c : Nat) (e : Ev) : Option Int := if e.kind = 3 ∧ e.a = (c : Int) then some e.b else none

/-- Chronological readings of a (newest-first) log. -/
def sentLog (c : Nat) (log : List Ev) : List Int := (log.filterMap (sentEv c)).reverse
def gotLog (c : Nat) (log : List Ev) : List Int := (log.filterMap (gotEv c)).reverse

/-- sent = received ++ queued, on the log, newest first. -/
def ChanInv (s : St) : Prop :=
  ∀ c, s.log.filterMap (sentEv c) = (s.p.chans c).reverse ++ s.log.filterMap (gotEv c)

theorem filterMap_sentEv_nil (c : Nat) (l : List Ev) (h : ∀ e ∈ l, e.kind ≠ 1) :
    l.filterMap (sentEv c) = [] := by
  rw [List.filterMap_eq_nil_iff]
  intro e he
  simp [sentEv, h e he]

theorem filterMap_gotEv_nil (c : Nat) (l : List Ev) (h : ∀ e ∈ l, e.kind ≠ 3) :
    l.filterMap (gotEv c) = [] := by
  rw [List.filterMap_eq_nil_iff]
  intro e he
  simp [gotEv, h e he]

theorem runEvents_kind (b a : List Nat) : ∀ e ∈ runEvents b a, e.kind = 10 := by
  intro e he
  simp [runEvents] at he
  obtain ⟨k, _, hk⟩ := he
  rw [← hk]

theorem beginEvents_kind (tid : Nat) (op : POp) : ∀ e ∈ beginEvents tid op, e.kind = 7 := by
  intro e he
  cases op <;> simp [beginEvents] at he
  rw [he]

theorem doPrim_chanInv (d : Decls) (tid : Nat) (c : Bool) (p : POp) (s : St) (h : ChanInv s) :
    ChanInv (doPrim d tid c p s).1 := by
  intro ch
  have hs := h ch
  have r1 := filterMap_sentEv_nil ch _ (fun e he => by rw [runEvents_kind _ _ e he]; decide :
    ∀ e ∈ runEvents s.p.lz.runs (pstep d tid p s.p).1.lz.runs, e.kind ≠ 1)
  have r3 := filterMap_gotEv_nil ch _ (fun e he => by rw [runEvents_kind _ _ e he]; decide :
    ∀ e ∈ runEvents s.p.lz.runs (pstep d tid p s.p).1.lz.runs, e.kind ≠ 3)
  have b1 := filterMap_sentEv_nil ch _ (fun e he => by rw [beginEvents_kind _ _ e he]; decide :
    ∀ e ∈ beginEvents tid p, e.kind ≠ 1)
  have b3 := filterMap_gotEv_nil ch _ (fun e he => by rw [beginEvents_kind _ _ e he]; decide :
    ∀ e ∈ beginEvents tid p, e.kind ≠ 3)
  simp only [doPrim, List.filterMap_append, r1, r3, b1, b3, List.nil_append]
  cases p with
  | send c' v =>
    by_cases e : c' = ch
    · subst e
      simp [primEvents, pstep, sentEv, gotEv, upd, hs]
    · have e' : ch ≠ c' := fun x => e x.symm
      have ei : ¬ ((c' : Int) = (ch : Int)) := by omega
      simp [primEvents, pstep, sentEv, gotEv, upd, e', ei, hs]
  | recv c' =>
    cases hq : s.p.chans c' with
    | nil => simp [primEvents, pstep, hq, sentEv, gotEv, hs]
    | cons v q =>
      by_cases e : c' = ch
      · subst e
        rw [hq] at hs
        simp [primEvents, pstep, hq, sentEv, gotEv, upd, hs]
      · have e' : ch ≠ c' := fun x => e x.symm
        have ei : ¬ ((c' : Int) = (ch : Int)) := by omega
        simp [primEvents, pstep, hq, sentEv, gotEv, upd, e', ei, hs]
  | load r => simp [primEvents, pstep, sentEv, gotEv, hs]
  | store r v => simp [primEvents, pstep, sentEv, gotEv, hs]
  | force k =>
    have hch : (pstep d tid (.force k) s.p).1.chans = s.p.chans := by simp [pstep]
    rw [hch]
    cases hr : (pstep d tid (.force k) s.p).2 with
    | forced r =>
      cases r with
      | ok v => simp [primEvents, sentEv, gotEv, hs]
      | err e => cases c <;> simp [primEvents, sentEv, gotEv, hs]
      | pending => simp [primEvents, hs]
      | nofuel => simp [primEvents, hs]
    | sent => simp [pstep] at hr
    | got v => simp [pstep] at hr
    | empty => simp [pstep] at hr
    | loaded v => simp [pstep] at hr
    | stored => simp [pstep] at hr

theorem emit_chanInv (s : St) (e : Ev) (hk : 10 < e.kind) (h : ChanInv s) : ChanInv (s.emit e) := by
  intro c
  have h1 : e.kind ≠ 1 := by omega
  have h3 : e.kind ≠ 3 := by omega
  simpa [St.emit, List.filterMap_cons, sentEv, gotEv, h1, h3] using h c

theorem runOps_chanInv (d : Decls) (fuel tid : Nat) (ops : List Op) (s : St) (h : ChanInv s) :
    ChanInv (runOps d fuel tid ops s).1 := by
  refine runOps_preserves d ChanInv (doPrim_chanInv d) emit_chanInv ?_ fuel tid ops s h
  intro tid t s0 ops s1 o s2 _ _ h1 heq
  cases o <;> simp [afterChild] at heq <;> subst heq
  · exact emit_chanInv _ _ (by simp) (fun c => h1 c)
  · exact emit_chanInv _ _ (by simp) (fun c => h1 c)
  · exact emit_chanInv _ _ (by simp) (fun c => h1 c)
  · exact emit_chanInv _ _ (by simp) (fun c => h1 c)

end GluonModel.Chan
