import GluonModel.Proofs.TokenizerAll
/-!
# `numeric_literal` (token.rs:685) is total: its two unwraps cannot fire
-/
namespace GluonModel.Tokenizer

theorem bytesAt_split {inp : Input} {s m e : Nat} (h1 : s ≤ m) (h2 : m ≤ e) :
    bytesAt inp s e = bytesAt inp s m ++ bytesAt inp m e := by
  simp only [bytesAt_eq]
  have e1 : e - s = (m - s) + (e - m) := by omega
  rw [e1, List.take_add, List.drop_drop]
  have e2 : s + (m - s) = m := by omega
  rw [e2]

theorem bytesAt_one {inp : Input} {p : Nat} (h : p < inp.size) : bytesAt inp p (p + 1) = [inp[p]] := by
  rw [bytesAt_eq]
  have : p < inp.toList.length := by simpa using h
  rw [List.drop_eq_getElem_cons this]
  simp

/-- Every byte a scan stepped over fails the terminator (list form of `scanUntil_over`). -/
theorem bytesAt_scan_all {inp : Input} {term : Nat → Bool} (l : Loc) :
    ∀ b ∈ bytesAt inp l.abs (scanUntil inp term l).abs, term b = false := by
  intro b hb
  obtain ⟨i, hi, hget⟩ := List.getElem_of_mem hb
  have hlen : i < (scanUntil inp term l).abs - l.abs := by
    have : (bytesAt inp l.abs (scanUntil inp term l).abs).length ≤ (scanUntil inp term l).abs - l.abs := by
      rw [bytesAt_eq]; simp; omega
    omega
  have h1 : (bytesAt inp l.abs (scanUntil inp term l).abs)[i]? = some b := by
    rw [List.getElem?_eq_getElem hi, hget]
  rw [bytesAt_get hlen] at h1
  exact scanUntil_over l (l.abs + i) b (by omega) (by omega) h1

theorem takeWhile_all_append {p : Nat → Bool} : ∀ (D : List Nat) (y : Nat) (r : List Nat),
    (∀ x ∈ D, p x = true) → p y = false →
    (D ++ y :: r).takeWhile p = D ∧ (D ++ y :: r).dropWhile p = y :: r
  | [], y, r, _, hy => by simp [List.takeWhile, List.dropWhile, hy]
  | x :: D, y, r, hD, hy => by
    have hx := hD x (by simp)
    have ih := takeWhile_all_append D y r (fun z hz => hD z (by simp [hz])) hy
    simp [List.takeWhile, List.dropWhile, hx, ih.1, ih.2]

/-- `float.parse().unwrap()` (token.rs:702): `[-]digits.digits*` is accepted. -/
theorem f64_ok (ch : Nat) (D1 D2 : List Nat) (h1 : ∀ x ∈ D1, isDigit x = true)
    (h2 : ∀ x ∈ D2, isDigit x = true)
    (h : isDigit ch = true ∨ (ch = 45 ∧ D1 ≠ [])) :
    f64Parseable (ch :: (D1 ++ 46 :: D2)) = true := by
  have h46 : isDigit 46 = false := by decide
  have hall : D2.all isDigit = true := by simpa [List.all_eq_true] using h2
  rcases h with hd | ⟨rfl, hne⟩
  · have hc1 : ch ≠ 45 := by intro hh; subst hh; simp [isDigit] at hd
    have hc2 : ch ≠ 43 := by intro hh; subst hh; simp [isDigit] at hd
    have tw := takeWhile_all_append (p := isDigit) (ch :: D1) 46 D2
      (by intro x hx; simp at hx; rcases hx with rfl | hx; exact hd; exact h1 x hx) h46
    simp only [List.cons_append] at tw
    unfold f64Parseable
    split
    · rename_i heq; simp at heq; exact absurd heq.1 hc1
    · rename_i heq; simp at heq; exact absurd heq.1 hc2
    · simp only [tw.1, tw.2]
      simp [hall]
  · have tw := takeWhile_all_append (p := isDigit) D1 46 D2 h1 h46
    unfold f64Parseable
    simp only [tw.1, tw.2]
    cases D1 with
    | nil => exact absurd rfl hne
    | cons a D => simp [hall]

/-- `to_digit(16).expect("valid hex literal")` (token.rs:899) cannot fire on hex digits. -/
theorem i64FromHex_ok (pos : Bool) : ∀ (bs : List Nat) (acc : Int), (∀ b ∈ bs, isHex b = true) →
    ∃ r, i64FromHex pos bs acc = .ok r
  | [], acc, _ => ⟨_, rfl⟩
  | c :: r, acc, h => by
    have hc := h c (by simp)
    unfold i64FromHex
    have : ∃ x, hexVal c = some x := by
      unfold hexVal
      by_cases h1 : isDigit c = true
      · exact ⟨_, by rw [if_pos h1]⟩
      · rw [if_neg h1]
        by_cases h2 : (decide (97 ≤ c) && decide (c ≤ 102)) = true
        · exact ⟨_, by rw [if_pos h2]⟩
        · rw [if_neg h2]
          have h3 : (decide (65 ≤ c) && decide (c ≤ 70)) = true := by
            unfold isHex at hc
            simp only [Bool.or_eq_true] at hc
            rcases hc with (h | h) | h
            · exact absurd h h1
            · exact absurd h h2
            · exact h
          exact ⟨_, by rw [if_pos h3]⟩
    obtain ⟨x, hx⟩ := this
    rw [hx]
    simp only []
    repeat' split
    all_goals first
      | exact ⟨_, rfl⟩
      | exact i64FromHex_ok pos r _ (fun b hb => h b (by simp [hb]))

/-- `restore_char` of an ASCII LOOKAHEAD byte (token.rs:694, 714, 749, 761): the suffix starts
with that very byte, a char boundary, so `bytes_prefix` is empty. -/
theorem identAfterNumber_ok {inp : Input} (l : Loc) : ∃ es, identAfterNumber inp l = .ok es := by
  unfold identAfterNumber
  split
  · rename_i ch hp
    split
    · rename_i hid
      obtain ⟨hlt, he⟩ := peek_some hp
      have hch : ch < 128 := isIdentStart_lt hid
      have hbp : bytesPrefix inp l.abs = [] := by
        unfold bytesPrefix
        have : inp[l.abs]? = some ch := by simp [hlt, he]
        have hnc : isCont ch = false := by simp [isCont]; omega
        simp [this, hnc]
      rw [restoreChar_eq, hbp]
      have := restoreOf_encode (c := ch) (Or.inl (by omega)) ch [] (by simp [encode, hch])
      rw [this]
      exact ⟨_, rfl⟩
    · exact ⟨_, rfl⟩
  · exact ⟨_, rfl⟩

theorem scanUntil_gt {inp : Input} {term : Nat → Bool} {l : Loc} (h : l.abs < inp.size)
    (ht : term inp[l.abs] = false) : l.abs < (scanUntil inp term l).abs := by
  conv => rhs; unfold scanUntil
  simp only [h, dite_true, ht]
  have := scanUntil_ge (inp := inp) (term := term) (l.shift inp[l.abs])
  simp at this ⊢
  omega

theorem numericLiteral_total {inp : Input} : NumericTotal inp := by
  intro start l hs hv habs hn
  have hle : start.abs ≤ l.abs := by omega
  obtain ⟨he1, hv1, hle1⟩ := takeWhile_ascii (fun b => isDigit_lt) hs hv hle
  unfold numericLiteral
  rw [he1]
  simp only [ok_bind]
  split
  · -- `.`: float
    rename_i hp
    have hv2 := vat_shift_peek hv1 hp (by decide) 46
    obtain ⟨he2, hv3, hle3⟩ := takeWhile_ascii (fun b => isDigit_lt) hs hv2 (by simp; omega)
    rw [he2]
    simp only [ok_bind]
    obtain ⟨es, hes⟩ := identAfterNumber_ok (inp := inp)
      (scanUntil inp (fun b => !isDigit b) ((scanUntil inp (fun b => !isDigit b) l).shift 46))
    rw [hes]
    simp only [ok_bind]
    have hf : f64Parseable (bytesAt inp start.abs
        (scanUntil inp (fun b => !isDigit b) ((scanUntil inp (fun b => !isDigit b) l).shift 46)).abs) = true := by
      obtain ⟨hlt1, hb46⟩ := peek_some hp
      obtain ⟨ch, hch, hcase⟩ := hn
      obtain ⟨hlt0, hch0⟩ := get_some hch
      simp at hle3
      have sp1 := bytesAt_split (inp := inp) (s := start.abs) (m := start.abs + 1)
        (e := (scanUntil inp (fun b => !isDigit b) ((scanUntil inp (fun b => !isDigit b) l).shift 46)).abs)
        (by omega) (by omega)
      have sp2 := bytesAt_split (inp := inp) (s := start.abs + 1) (m := (scanUntil inp (fun b => !isDigit b) l).abs)
        (e := (scanUntil inp (fun b => !isDigit b) ((scanUntil inp (fun b => !isDigit b) l).shift 46)).abs)
        (by omega) (by omega)
      have sp3 := bytesAt_split (inp := inp) (s := (scanUntil inp (fun b => !isDigit b) l).abs)
        (m := (scanUntil inp (fun b => !isDigit b) l).abs + 1)
        (e := (scanUntil inp (fun b => !isDigit b) ((scanUntil inp (fun b => !isDigit b) l).shift 46)).abs)
        (by omega) (by omega)
      rw [sp1, sp2, sp3, bytesAt_one hlt0, bytesAt_one hlt1, hch0, hb46]
      have hD1 : ∀ x ∈ bytesAt inp (start.abs + 1) (scanUntil inp (fun b => !isDigit b) l).abs, isDigit x = true := by
        intro x hx
        have := bytesAt_scan_all (term := fun b => !isDigit b) l x (by rw [habs]; exact hx)
        simpa using this
      have hD2 : ∀ x ∈ bytesAt inp ((scanUntil inp (fun b => !isDigit b) l).abs + 1)
          (scanUntil inp (fun b => !isDigit b) ((scanUntil inp (fun b => !isDigit b) l).shift 46)).abs,
          isDigit x = true := by
        intro x hx
        have := bytesAt_scan_all (term := fun b => !isDigit b)
          ((scanUntil inp (fun b => !isDigit b) l).shift 46) x (by simpa using hx)
        simpa using this
      refine f64_ok ch _ _ hD1 hD2 ?_
      rcases hcase with hd | ⟨h45, d, hd1, hd2⟩
      · exact Or.inl hd
      · refine Or.inr ⟨h45, ?_⟩
        obtain ⟨hltd, hdd⟩ := get_some hd1
        have hlt' : l.abs < inp.size := by omega
        have hgt := scanUntil_gt (term := fun b => !isDigit b) (l := l) hlt'
          (by have : inp[l.abs] = d := by simp only [habs]; exact hdd
              simp [this, hd2])
        intro hnil
        have hlen := bytesAt_length (inp := inp) (s := start.abs + 1)
          (e := (scanUntil inp (fun b => !isDigit b) l).abs) hv1.le
        rw [hnil] at hlen
        simp at hlen
        omega
    rw [if_pos hf]
    have hfin : l.abs ≤ (scanUntil inp (fun b => !isDigit b) ((scanUntil inp (fun b => !isDigit b) l).shift 46)).abs := by
      simp at hle3; omega
    exact ⟨_, rfl, hv3, hfin⟩
  · -- `x`: hex
    rename_i hp
    have hv2 := vat_shift_peek hv1 hp (by decide) 120
    obtain ⟨he2, hv3, hle3⟩ := takeWhile_ascii (fun b => isHex_lt) hv2 hv2 (Nat.le_refl _)
    rw [he2]
    simp only [ok_bind]
    simp at hle3
    have hfin : l.abs ≤ (scanUntil inp (fun b => !isHex b) ((scanUntil inp (fun b => !isDigit b) l).shift 120)).abs := by
      omega
    split
    · obtain ⟨es, hes⟩ := identAfterNumber_ok (inp := inp)
        (scanUntil inp (fun b => !isHex b) ((scanUntil inp (fun b => !isDigit b) l).shift 120))
      rw [hes]
      simp only [ok_bind]
      split
      · exact ⟨_, rfl, hv3, hfin⟩
      · have hall : ∀ b ∈ bytesAt inp ((scanUntil inp (fun b => !isDigit b) l).shift 120).abs
            (scanUntil inp (fun b => !isHex b) ((scanUntil inp (fun b => !isDigit b) l).shift 120)).abs,
            isHex b = true := by
          intro x hx
          have := bytesAt_scan_all (term := fun b => !isHex b) _ x hx
          simpa using this
        obtain ⟨r, hr⟩ := i64FromHex_ok (bytesAt inp start.abs (scanUntil inp (fun b => !isDigit b) l).abs == lit "0") _ 0 hall
        rw [hr]
        simp only [ok_bind]
        split <;> exact ⟨_, rfl, hv3, hfin⟩
    · exact ⟨_, rfl, hv3, hfin⟩
  · -- `b`: byte
    rename_i hp
    have hv2 := vat_shift_peek hv1 hp (by decide) 98
    obtain ⟨es, hes⟩ := identAfterNumber_ok (inp := inp) ((scanUntil inp (fun b => !isDigit b) l).shift 98)
    rw [hes]
    simp only [ok_bind]
    split <;> exact ⟨_, rfl, hv2, by show l.abs ≤ ((scanUntil inp (fun b => !isDigit b) l).shift 98).abs; simp; omega⟩
  · split
    · obtain ⟨es, hes⟩ := identAfterNumber_ok (inp := inp) (scanUntil inp (fun b => !isDigit b) l)
      rw [hes]
      simp only [ok_bind]
      split <;> exact ⟨_, rfl, hv1, hle1⟩
    · split <;> exact ⟨_, rfl, hv1, hle1⟩
  · split <;> exact ⟨_, rfl, hv1, hle1⟩

/-- `tokenize_total`: every `&str`, no hypothesis. -/
theorem tokenize_total_all (cs : List Nat) (h : ∀ c ∈ cs, isScalar c) :
    ∃ e, (tokenize (encodeAll cs).toArray).fin = .eof e :=
  tokenize_total_of (vat_zero_of_scalars cs h) numericLiteral_total

end GluonModel.Tokenizer
