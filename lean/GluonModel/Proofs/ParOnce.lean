/-
Lemmas about `GluonModel.ParOnce` (the `Once` transition system).
-/
import GluonModel.ParOnce

namespace GluonModel.ParOnce.Proofs
open GluonModel.ParOnce

/-- The safety invariant. -/
def Inv (body : Nat → Int) (s : St) : Prop :=
  match s.cell with
  | .absent => s.evals = 0 ∧ s.got = []
  | .inProgress _ _ => s.evals = 1 ∧ s.got = []
  | .done v _ => s.evals = 1 ∧ v = body 1 ∧ ∀ p ∈ s.got, p.2 = body 1

theorem inv_init (body : Nat → Int) : Inv body init := by
  simp [Inv, init]

theorem inv_step (body : Nat → Int) (s : St) (e : Ev) (h : Inv body s) : Inv body (step body s e) := by
  obtain ⟨cell, evals, got⟩ := s
  cases e with
  | request t =>
    cases cell with
    | absent => simp_all [Inv, step]
    | inProgress o ws =>
      by_cases c : t = o ∨ t ∈ ws
      · simp_all [Inv, step]
      · simp_all [Inv, step]
    | done v ws =>
      by_cases c : t ∈ ws
      · simp_all [Inv, step]; exact h.2.2
      · simp_all [Inv, step]; exact h.2.2
  | finish =>
    cases cell with
    | absent => simp_all [Inv, step]
    | inProgress o ws => simp_all [Inv, step]
    | done v ws => simp_all [Inv, step]; exact h.2.2
  | wake t =>
    cases cell with
    | absent => simp_all [Inv, step]
    | inProgress o ws => simp_all [Inv, step]
    | done v ws =>
      by_cases c : t ∈ ws
      · simp_all [Inv, step]; exact h.2.2
      · simp_all [Inv, step]; exact h.2.2

theorem inv_runFrom (body : Nat → Int) (es : List Ev) :
    ∀ s, Inv body s → Inv body (runFrom body s es) := by
  induction es with
  | nil => intro s h; exact h
  | cons e es ih => intro s h; exact ih _ (inv_step body s e h)

theorem inv_run (body : Nat → Int) (es : List Ev) : Inv body (run body es) :=
  inv_runFrom body es init (inv_init body)

/-- `t` has asked and is accounted for: it has its value, or it owns the evaluation, or it is
    parked on the cell. -/
def Tracked (s : St) (t : Nat) : Prop :=
  (∃ x, (t, x) ∈ s.got) ∨
  match s.cell with
  | .absent => False
  | .inProgress o ws => t = o ∨ t ∈ ws
  | .done _ ws => t ∈ ws

theorem tracked_request (body : Nat → Int) (s : St) (t : Nat) :
    Tracked (step body s (.request t)) t := by
  obtain ⟨cell, evals, got⟩ := s
  cases cell with
  | absent => simp [Tracked, step]
  | inProgress o ws =>
    by_cases c : t = o ∨ t ∈ ws
    · simp only [step, if_pos c, Tracked]; exact Or.inr c
    · simp [step, if_neg c, Tracked]
  | done v ws =>
    by_cases c : t ∈ ws
    · simp only [step, if_pos c, Tracked]; exact Or.inr c
    · simp only [step, if_neg c, Tracked]; exact Or.inl ⟨v, by simp⟩

theorem tracked_step (body : Nat → Int) (s : St) (e : Ev) (t : Nat) (h : Tracked s t) :
    Tracked (step body s e) t := by
  obtain ⟨cell, evals, got⟩ := s
  cases e with
  | request u =>
    cases cell with
    | absent => simp_all [Tracked, step]
    | inProgress o ws =>
      by_cases c : u = o ∨ u ∈ ws
      · simp_all [Tracked, step]
      · simp only [step, if_neg c, Tracked] at h ⊢
        rcases h with h | h | h
        · exact Or.inl h
        · exact Or.inr (Or.inl h)
        · exact Or.inr (Or.inr (List.mem_cons_of_mem _ h))
    | done v ws =>
      by_cases c : u ∈ ws
      · simp_all [Tracked, step]
      · simp only [step, if_neg c, Tracked] at h ⊢
        rcases h with ⟨x, h⟩ | h
        · exact Or.inl ⟨x, List.mem_cons_of_mem _ h⟩
        · exact Or.inr h
  | finish =>
    cases cell with
    | absent => simp_all [Tracked, step]
    | inProgress o ws =>
      simp only [step, Tracked] at h ⊢
      rcases h with ⟨x, h⟩ | h | h
      · exact Or.inl ⟨x, List.mem_cons_of_mem _ h⟩
      · exact Or.inl ⟨body evals, by simp [h]⟩
      · exact Or.inr h
    | done v ws => simp_all [Tracked, step]
  | wake u =>
    cases cell with
    | absent => simp_all [Tracked, step]
    | inProgress o ws => simp_all [Tracked, step]
    | done v ws =>
      by_cases c : u ∈ ws
      · simp only [step, if_pos c, Tracked] at h ⊢
        rcases h with ⟨x, h⟩ | h
        · exact Or.inl ⟨x, List.mem_cons_of_mem _ h⟩
        · by_cases e : t = u
          · exact Or.inl ⟨v, by simp [e]⟩
          · exact Or.inr ((List.mem_erase_of_ne e).mpr h)
      · simp_all [Tracked, step]

theorem tracked_runFrom (body : Nat → Int) (t : Nat) (es : List Ev) :
    ∀ s, (Tracked s t ∨ Ev.request t ∈ es) → Tracked (runFrom body s es) t := by
  induction es with
  | nil =>
    intro s h
    rcases h with h | h
    · exact h
    · simp at h
  | cons e es ih =>
    intro s h
    apply ih
    rcases h with h | h
    · exact Or.inl (tracked_step body s e t h)
    · rcases List.mem_cons.mp h with h | h
      · subst h; exact Or.inl (tracked_request body s t)
      · exact Or.inr h

/-- Waking every parked requester of a finished cell empties the waiting list and hands each of
    them the stored value; nothing already obtained is lost. -/
theorem wake_all (body : Nat → Int) (v : Int) (ws : List Nat) :
    ∀ s : St, s.cell = .done v ws →
      (runFrom body s (ws.map .wake)).cell = .done v [] ∧
      (runFrom body s (ws.map .wake)).evals = s.evals ∧
      (∀ p ∈ s.got, p ∈ (runFrom body s (ws.map .wake)).got) ∧
      (∀ t ∈ ws, (t, v) ∈ (runFrom body s (ws.map .wake)).got) ∧
      (∀ p ∈ (runFrom body s (ws.map .wake)).got, p ∈ s.got ∨ p.2 = v) := by
  induction ws with
  | nil => intro s h; simp [runFrom, h]; intro a b hab; exact Or.inl hab
  | cons w ws ih =>
    intro s h
    obtain ⟨cell, evals, got⟩ := s
    simp only at h
    subst h
    have hs : step body ⟨.done v (w :: ws), evals, got⟩ (.wake w) = ⟨.done v ws, evals, (w, v) :: got⟩ := by
      simp [step]
    have := ih ⟨.done v ws, evals, (w, v) :: got⟩ rfl
    simp only [List.map_cons, runFrom, List.foldl_cons, hs]
    simp only [runFrom] at this
    obtain ⟨h1, h2, h3, h4, h5⟩ := this
    refine ⟨h1, h2, ?_, ?_, ?_⟩
    · intro p hp; exact h3 p (List.mem_cons_of_mem _ hp)
    · intro t ht
      rcases List.mem_cons.mp ht with ht | ht
      · subst ht; exact h3 _ (by simp)
      · exact h4 t ht
    · intro p hp
      rcases h5 p hp with h | h
      · rcases List.mem_cons.mp h with h | h
        · right; simp [h]
        · left; exact h
      · right; exact h

end GluonModel.ParOnce.Proofs
