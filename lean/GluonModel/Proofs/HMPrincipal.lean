/-
C03 — what completeness (`HMComplete`), soundness (`HMSound`) and fuel monotonicity
(`HMFuelMono`) give for `infer` ITSELF (the executed fuel) on the projection-free ML fragment with
`let`: the reported type is the principal type, a rejection other than `fuel` means "untypable", and
the unused-binding clause.
-/
import GluonModel.HM
import GluonModel.Proofs.HM
import GluonModel.Proofs.HMTerm
import GluonModel.Proofs.HMFuel
import GluonModel.Proofs.HMFuelMono
import GluonModel.Proofs.HMSound
import GluonModel.Proofs.HMComplete
import GluonModel.Proofs.HMBridge
import GluonModel.Proofs.HMStab

namespace GluonModel.HM.Proofs
open GluonModel.HM

theorem noProj_of_projFree : ∀ e : Expr, ProjFree e → NoProj e := by
  intro e
  induction e with
  | lam x b ih => exact ih
  | app f a ihf iha => exact fun h => ⟨ihf h.1, iha h.2⟩
  | letE x e b ihe ihb => exact fun h => ⟨ihe h.1, ihb h.2⟩
  | ifE c t e ihc iht ihe => exact fun h => ⟨ihc h.1, iht h.2.1, ihe h.2.2⟩
  | lt a b iha ihb => exact fun h => ⟨iha h.1, ihb h.2⟩
  | fcons l e rest ihe ihr => exact fun h => ⟨ihe h.1, ihr h.2.1⟩
  | rcd f ih => exact fun h => ih h.1
  | proj e l _ => intro h; exact absurd h (by simp [ProjFree])
  | asnoc i e ihi ihe => exact fun h => ⟨ihi h.1, ihe h.2⟩
  | _ => intro _; trivial

/-- typable ⇒ accepted from some fuel on, the reported type is a typing and most general -/
theorem inferF_complete_principal (e : Expr) (hfr : NoProj e) (τ₀ : Ty) (h₀ : HasType [] e τ₀) :
    ∃ τ S n' N, (∀ fuel, N ≤ fuel → inferF false fuel [] e Subst.id 0 = .ok (τ, S, n')) ∧
      HasType [] e (τ.subst S) ∧ ∀ τ', HasType [] e τ' → ∃ Q : Subst, τ' = (τ.subst S).subst Q := by
  obtain ⟨τ, S, n', N, h₁, hp⟩ := inferF_complete_principal_closed e hfr τ₀ h₀
  exact ⟨τ, S, n', N, h₁, inferF_sound N [] e 0 τ S n' (h₁ N (Nat.le_refl _)), hp⟩

/-- an answer of `infer` other than `fuel` is the answer at every larger fuel -/
theorem infer_stable (e : Expr) (r : Except UErr (Ty × Subst × Nat))
    (h : infer false [] e Subst.id 0 = r) (hr : r ≠ .error .fuel) (fuel : Nat) (hf : unifyFuel ≤ fuel) :
    inferF false fuel [] e Subst.id 0 = r :=
  inferF_mono unifyFuel fuel hf e [] Subst.id 0 r (by rw [inferF_unifyFuel]; exact h) hr

/-- `infer` itself: an accepted program of the fragment gets THE principal type -/
theorem infer_principal_noProj (e : Expr) (τ : Ty) (S : Subst) (n' : Nat) (hfr : NoProj e)
    (h : infer false [] e Subst.id 0 = .ok (τ, S, n')) :
    HasType [] e (τ.subst S) ∧ ∀ τ', HasType [] e τ' → ∃ Q : Subst, τ' = (τ.subst S).subst Q := by
  have hs := infer_sound [] e 0 τ S n' h
  refine ⟨hs, fun τ' hτ' => ?_⟩
  obtain ⟨τ₂, S₂, n₂, N, h₂, _, hp⟩ := inferF_complete_principal e hfr τ' hτ'
  have e₁ := infer_stable e _ h (by intro hh; cases hh) (unifyFuel + N) (Nat.le_add_right _ _)
  have e₂ := h₂ (unifyFuel + N) (Nat.le_add_left _ _)
  rw [e₁] at e₂
  injection e₂ with e₂
  injection e₂ with a₁ e₂
  injection e₂ with a₂ _
  subst a₁; subst a₂
  exact hp τ' hτ'

/-- `infer` itself: a rejection other than `fuel` means the program has no typing -/
theorem infer_reject_noProj (e : Expr) (err : UErr) (hfr : NoProj e) (he : err ≠ .fuel)
    (h : infer false [] e Subst.id 0 = .error err) : ∀ τ', ¬ HasType [] e τ' := by
  intro τ' hτ'
  obtain ⟨τ₂, S₂, n₂, N, h₂, _, _⟩ := inferF_complete_principal e hfr τ' hτ'
  have e₁ := infer_stable e _ h (by intro hh; injection hh with hh; exact he hh) (unifyFuel + N)
    (Nat.le_add_right _ _)
  have e₂ := h₂ (unifyFuel + N) (Nat.le_add_left _ _)
  rw [e₁] at e₂
  cases e₂

/-- `infer` itself on a typable program: `fuel`, or success with a most general type -/
theorem infer_complete_noProj (e : Expr) (τ' : Ty) (hfr : NoProj e) (h : HasType [] e τ') :
    infer false [] e Subst.id 0 = .error .fuel ∨
    ∃ τ S n', infer false [] e Subst.id 0 = .ok (τ, S, n') ∧ ∃ Q : Subst, τ' = (τ.subst S).subst Q := by
  cases hr : infer false [] e Subst.id 0 with
  | error err =>
    by_cases he : err = .fuel
    · left; rw [he]
    · exact absurd h (infer_reject_noProj e err hfr he hr τ')
  | ok p =>
    obtain ⟨τ, S, n'⟩ := p
    exact Or.inr ⟨τ, S, n', rfl, (infer_principal_noProj e τ S n' hfr hr).2 τ' h⟩

/-! ### the unused-binding clause on `infer` itself -/

/-- two types are instances of each other (equal up to a renaming of type variables) -/
def TyEquiv (a b : Ty) : Prop := (∃ Q : Subst, b = a.subst Q) ∧ ∃ Q : Subst, a = b.subst Q

/-- Adding a binding the body does not use: if both programs are accepted the reported types are
    instances of each other; and a rejection (other than `fuel`) of one excludes acceptance of the
    other — provided, for the direction "body accepted ⇒ `let` accepted", that the bound expression is
    typable at all. -/
theorem infer_unused_let_noProj (x : String) (e b : Expr) (hx : x ∉ fv b)
    (hfr : NoProj (.letE x e b)) :
    (∀ τ S n τ₂ S₂ n₂, infer false [] b Subst.id 0 = .ok (τ, S, n) →
        infer false [] (.letE x e b) Subst.id 0 = .ok (τ₂, S₂, n₂) →
        TyEquiv (τ.subst S) (τ₂.subst S₂)) ∧
    (∀ τ₂ S₂ n₂, infer false [] (.letE x e b) Subst.id 0 = .ok (τ₂, S₂, n₂) →
        ∀ err, infer false [] b Subst.id 0 = .error err → err = .fuel) ∧
    (∀ τ S n, infer false [] b Subst.id 0 = .ok (τ, S, n) → (∃ τ₁, HasType [] e τ₁) →
        ∀ err, infer false [] (.letE x e b) Subst.id 0 = .error err → err = .fuel) := by
  have hb : NoProj b := hfr.2
  refine ⟨?_, ?_, ?_⟩
  · intro τ S n τ₂ S₂ n₂ h₁ h₂
    obtain ⟨s₁, p₁⟩ := infer_principal_noProj b τ S n hb h₁
    obtain ⟨s₂, p₂⟩ := infer_principal_noProj _ τ₂ S₂ n₂ hfr h₂
    have t₂ := ((hasType_unused_let [] x e b _ hx).1 s₂).2
    have hne := ((hasType_unused_let [] x e b _ hx).1 s₂).1
    have t₁ := (hasType_unused_let [] x e b _ hx).2 ⟨hne, s₁⟩
    exact ⟨p₁ _ t₂, p₂ _ t₁⟩
  · intro τ₂ S₂ n₂ h₂ err h₁
    apply Classical.byContradiction
    intro he
    have s₂ := infer_sound [] _ 0 τ₂ S₂ n₂ h₂
    exact infer_reject_noProj b err hb he h₁ _ ((hasType_unused_let [] x e b _ hx).1 s₂).2
  · intro τ S n h₁ hne err h₂
    apply Classical.byContradiction
    intro he
    have s₁ := infer_sound [] _ 0 τ S n h₁
    exact infer_reject_noProj _ err hfr he h₂ _ ((hasType_unused_let [] x e b _ hx).2 ⟨hne, s₁⟩)

end GluonModel.HM.Proofs
