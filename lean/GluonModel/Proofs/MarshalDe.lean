import GluonModel.Marshal
import GluonModel.Proofs.Marshal
import GluonModel.Proofs.MarshalFull
namespace GluonModel.Marshal.Proofs
open GluonModel.Marshal

/-- remove newtype wrappers (they do not exist on the gluon side) -/
def strip : TCode → TCode
  | .newtype t => strip t
  | t => t

theorem glKind_strip : ∀ t : TCode, glKind (strip t) = glKind t
  | .newtype t => by simp [strip, glKind, glKind_strip t]
  | .unit | .u8 | .int _ | .f32 | .f64 | .bool | .char | .string | .ordering | .option _ | .result _ _
  | .vec _ | .tuple _ | .map _ | .struct _ | .tstruct _ | .ustruct | .enum _ _ | .vunit | .vtuple _
  | .vstruct _ => by simp [strip]

theorem asOption_strip : ∀ t : TCode, asOption (strip t) = asOption t
  | .newtype t => by simp [strip, asOption, asOption_strip t]
  | .unit | .u8 | .int _ | .f32 | .f64 | .bool | .char | .string | .ordering | .option _ | .result _ _
  | .vec _ | .tuple _ | .map _ | .struct _ | .tstruct _ | .ustruct | .enum _ _ | .vunit | .vtuple _
  | .vstruct _ => by simp [strip]

theorem glKind_of_strip_eq (gl c : TCode) (h : strip gl = strip c) : glKind gl = glKind c := by
  rw [← glKind_strip gl, ← glKind_strip c, h]

theorem asOption_of_strip_eq (gl c : TCode) (h : strip gl = strip c) : asOption gl = asOption c := by
  rw [← asOption_strip gl, ← asOption_strip c, h]

/-! ### the values `De` reads back correctly: everything except unit, tuples, tuple structs, `Result`,
    maps (and `Ordering`, which has no serde impls) -/

mutual
def WTd : TCode → Val → Bool
  | .u8, .u8 n => decide (n < 256)
  | .int t, .int t' n => decide (t = t') && inRange t n
  | .f32, .f32 b => f64to32 (f32to64 b) == b
  | .f64, .f64 _ => true
  | .bool, .bool _ => true
  | .char, .char c => validChar c
  | .string, .str _ => true
  | .option _, .none => true
  | .option t, .some v => WTd t v
  | .vec t, .vec vs => vs.all (fun v => WTd t v)
  | .struct fs, .struct vs => WTdf fs vs && nodupB (namesOf vs)
  | .newtype t, .newtype v => WTd t v
  | .ustruct, .ustruct => true
  | .enum _ vars, .var i p => WTdv vars i p
  | _, _ => false
def WTds : List TCode → List Val → Bool
  | [], [] => true
  | t :: ts, v :: vs => WTd t v && WTds ts vs
  | _, _ => false
def WTdf : List (String × TCode) → List (String × Val) → Bool
  | [], [] => true
  | (n, t) :: fs, (m, v) :: vs => decide (n = m) && WTd t v && WTdf fs vs
  | _, _ => false
def WTdv : List TCode → Nat → Val → Bool
  | .vunit :: _, 0, .vunit => true
  | .vtuple ts :: _, 0, .vtuple vs => WTds ts vs
  | .vstruct fs :: _, 0, .vstruct vs => WTdf fs vs && nodupB (namesOf vs)
  | _ :: vars, n + 1, p => WTdv vars n p
  | _, _, _ => false
end

def namesT : List (String × TCode) → List String
  | [] => []
  | (n, _) :: fs => n :: namesT fs

theorem namesOf_append (pre : List (String × Val)) (n : String) (v : Val) :
    namesOf (pre ++ [(n, v)]) = namesOf pre ++ [n] := by
  induction pre with
  | nil => simp [namesOf]
  | cons q pre ih => obtain ⟨a, b⟩ := q; simp [namesOf, ih]

theorem seqM_pushL (f : GV → DeOut) :
    ∀ (vs : List Val) (acc : List Val), (∀ v ∈ vs, f (push v) = .ok v) →
      seqM f (pushL vs) acc = .ok (.vec (acc.reverse ++ vs))
  | [], acc, _ => by simp [pushL, seqM]
  | v :: vs, acc, h => by
    have h1 := h v (by simp)
    have h2 := seqM_pushL f vs (v :: acc) (fun w hw => h w (by simp [hw]))
    simp [pushL, seqM, h1, h2]

theorem namesT_eq : ∀ (fs : List (String × TCode)) (vs : List (String × Val)), WTdf fs vs = true →
    namesT fs = namesOf vs
  | [], [], _ => by simp [namesOf, namesT]
  | (n, t) :: fs, (m, v) :: vs, h => by
    simp [WTdf] at h
    simp [namesOf, namesT, h.1.1, namesT_eq fs vs h.2]
  | [], _ :: _, h => by simp [WTdf] at h
  | _ :: _, [], h => by simp [WTdf] at h

theorem deField_found (n : String) (t gt : TCode) (x : GV) (post : List (String × TCode)) :
    ∀ pre : List (String × TCode), n ∉ namesT pre →
      deField (pre ++ (n, t) :: post) n gt x = some (de t gt x)
  | [], _ => by simp [deField]
  | (m, t') :: pre, h => by
    simp [namesT] at h
    have hm : m ≠ n := fun e => h.1 e.symm
    simp [deField, hm, deField_found n t gt x post pre h.2]

theorem assocVal_found (n : String) (v : Val) (post : List (String × Val)) :
    ∀ pre : List (String × Val), n ∉ namesOf pre → assocVal n (pre ++ (n, v) :: post) = some v
  | [], _ => by simp [assocVal]
  | (m, w) :: pre, h => by
    simp [namesOf] at h
    have hm : m ≠ n := fun e => h.1 e.symm
    simp [assocVal, hm, assocVal_found n v post pre h.2]

/-- with every declared field present (same names, no duplicates) the visitor's epilogue returns
    them in declaration order -/
theorem assemble_all : ∀ (fs : List (String × TCode)) (vs pre : List (String × Val)),
    namesT fs = namesOf vs → nodupB (namesOf vs) = true → (∀ n ∈ namesOf vs, n ∉ namesOf pre) →
    assemble fs (pre ++ vs) = some vs
  | [], [], _, _, _, _ => by simp [assemble]
  | (n, t) :: fs, (m, v) :: vs, pre, hn, hd, hp => by
    simp [namesOf, namesT] at hn
    obtain ⟨rfl, hn'⟩ := hn
    obtain ⟨hnr, hdr⟩ := namesOf_mem_nodup n v vs hd
    have ih := assemble_all fs vs (pre ++ [(n, v)]) hn' hdr (by
      intro k hk
      rw [namesOf_append]
      simp
      exact ⟨hp k (by simp [namesOf, hk]), fun e => hnr (e ▸ hk)⟩)
    simp at ih
    have hf := assocVal_found n v vs pre (hp n (by simp [namesOf]))
    simp [assemble, ih, hf]
  | [], _ :: _, _, h, _, _ => by simp [namesOf, namesT] at h
  | (_, _) :: _, [], _, h, _, _ => by simp [namesOf, namesT] at h


theorem WTds_length : ∀ ts vs, WTds ts vs = true → vs.length = ts.length
  | [], [], _ => rfl
  | t :: ts, v :: vs, h => by
    simp [WTds] at h
    simp [WTds_length ts vs h.2]
  | [], _ :: _, h => by simp [WTds] at h
  | _ :: _, [], h => by simp [WTds] at h

theorem WTdv_payload : ∀ (vars : List TCode) (i : Nat) (p : Val), WTdv vars i p = true →
    p = .vunit ∨ (∃ vs, p = .vtuple vs) ∨ (∃ fs, p = .vstruct fs)
  | [], i, p, h => by simp [WTdv] at h
  | c :: vars, 0, p, h => by
    cases c <;> cases p <;> simp [WTdv] at h <;> simp
  | c :: vars, i + 1, p, h => by
    have h' : WTdv vars i p = true := by
      cases c <;> cases p <;> simp_all [WTdv]
    exact WTdv_payload vars i p h'

theorem tagOf_push_var (tg : Nat) (p : Val)
    (hp : p = .vunit ∨ (∃ vs, p = .vtuple vs) ∨ (∃ fs, p = .vstruct fs)) :
    tagOf (push (.var tg p)) = some tg := by
  rcases hp with rfl | ⟨vs, rfl⟩ | ⟨fs, rfl⟩ <;> simp [push, tagOf]

set_option maxHeartbeats 1000000 in
mutual
theorem de_push_gen : ∀ (c : TCode) (v : Val) (gl : TCode), WTd c v = true → strip gl = strip c →
    de c gl (push v) = .ok v
  | .u8, v, gl, h, _ => by
    cases v <;> simp [WTd] at h
    rename_i n
    have : (0 : Int) ≤ n ∧ (n : Int) ≤ 255 := by omega
    simp [push, de, deInt, intVisit, this]
  | .int t, v, gl, h, _ => by
    cases v <;> simp [WTd] at h
    obtain ⟨rfl, h2⟩ := h
    rename_i n
    have hr := int_roundtrip t n h2
    cases t <;> simp [push, de, deInt, intVisit] <;> simp [inRange] at h2 <;>
      first
        | (simp only [castTo, toI64]; omega)
        | (have e : toI64 n = n := toI64_id n (by omega); simp [e, inRange, h2])
  | .f32, v, gl, h, _ => by
    cases v <;> simp [WTd] at h
    simp [push, de, deFloat, h]
  | .f64, v, gl, h, _ => by cases v <;> simp [WTd] at h; simp [push, de, deFloat]
  | .bool, v, gl, h, _ => by
    cases v <;> simp [WTd] at h
    rename_i b
    cases b <;> simp [push, de, tagOf]
  | .char, v, gl, h, hs => by
    cases v <;> simp [WTd] at h
    have hk : glKind gl = .char := by rw [glKind_of_strip_eq gl _ hs]; rfl
    simp [push, de, deChar, hk, char_roundtrip _ h]
  | .string, v, gl, h, hs => by
    cases v <;> simp [WTd] at h
    have hk : glKind gl = .string := by rw [glKind_of_strip_eq gl _ hs]; rfl
    simp [push, de, hk]
  | .option t, v, gl, h, hs => by
    have ho : asOption gl = some t := by rw [asOption_of_strip_eq gl _ hs]; rfl
    cases v <;> simp [WTd] at h
    · simp [push, de, ho, tagOf]
    · rename_i w
      simp [push, de, ho, tagOf, fieldsOf, de_push_gen t w t h rfl]
  | .vec t, v, gl, h, hs => by
    cases v <;> simp [WTd] at h
    rename_i vs
    have hk : glKind gl = .arr t := by rw [glKind_of_strip_eq gl _ hs]; rfl
    obtain ⟨r, hr⟩ := mkArray_shape (pushL vs)
    have hm := seqM_pushL (fun x => de t t x) vs [] (fun w hw => de_push_gen t w t (h w hw) rfl)
    simp at hm
    simp [push, hr, de, hk, hm]
  | .newtype t, v, gl, h, hs => by
    cases v <;> simp [WTd] at h
    rename_i w
    have := de_push_gen t w gl h (by simpa [strip] using hs)
    simp [push, de, this]
  | .ustruct, v, gl, h, _ => by cases v <;> simp [WTd] at h; simp [push, de, tagOf]
  | .struct fs, v, gl, h, hs => by
    cases v <;> simp [WTd] at h
    rename_i vs
    have hk : glKind gl = .recd fs := by rw [glKind_of_strip_eq gl _ hs]; rfl
    have hl := mapLoop_push fs vs [] [] [] [] h.1 h.2 (by simp) rfl rfl
    simp at hl
    have ha := assemble_all fs vs [] (namesT_eq fs vs h.1) h.2 (by simp [namesOf])
    simp at ha
    simp [push, de, deStruct, tagOf, hk, hl, ha]
  | .enum n vars, v, gl, h, hs => by
    cases v <;> simp [WTd] at h
    rename_i i p
    have hk : glKind gl = .var (vars.map ctorArgs) := by rw [glKind_of_strip_eq gl _ hs]; rfl
    have ht := tagOf_push_var i p (WTdv_payload vars i p h)
    have hv := deVariant_push vars i p h gl (vars.map ctorArgs) i hk (by
      intro c hc
      simp [hc])
    simp only [de, ht, hv]
  | .unit, v, _, h, _ => by cases v <;> simp [WTd] at h
  | .ordering, v, _, h, _ => by cases v <;> simp [WTd] at h
  | .result _ _, v, _, h, _ => by cases v <;> simp [WTd] at h
  | .tuple _, v, _, h, _ => by cases v <;> simp [WTd] at h
  | .tstruct _, v, _, h, _ => by cases v <;> simp [WTd] at h
  | .map _, v, _, h, _ => by cases v <;> simp [WTd] at h
  | .vunit, v, _, h, _ => by cases v <;> simp [WTd] at h
  | .vtuple _, v, _, h, _ => by cases v <;> simp [WTd] at h
  | .vstruct _, v, _, h, _ => by cases v <;> simp [WTd] at h
theorem deElems_push : ∀ (ts : List TCode) (vs : List Val), WTds ts vs = true →
    deElems ts ((pushL vs).zip ts) = .inl vs
  | [], [], _ => by simp [deElems]
  | t :: ts, v :: vs, h => by
    simp [WTds] at h
    simp [pushL, deElems, de_push_gen t v t h.1 rfl, deElems_push ts vs h.2]
  | [], _ :: _, h => by simp [WTds] at h
  | _ :: _, [], h => by simp [WTds] at h
theorem mapLoop_push : ∀ (fs : List (String × TCode)) (vs : List (String × Val))
    (preT : List (String × TCode)) (preN : List String) (preF : List GV) (acc : List (String × Val)),
    WTdf fs vs = true → nodupB (namesOf vs) = true → (∀ n ∈ namesOf vs, n ∉ preN) →
    namesT preT = preN → preN.length = preF.length →
    mapLoop (fun n gt x => deField (preT ++ fs) n gt x)
      (.record (preN ++ namesOf vs) (preF ++ pushF vs)) fs acc = .inl (some (acc.reverse ++ vs))
  | [], [], _, _, _, acc, _, _, _, _, _ => by simp [mapLoop]
  | (n, t) :: fs, (m, v) :: vs, preT, preN, preF, acc, h, hd, hn, hT, hl => by
    simp [WTdf] at h
    obtain ⟨⟨rfl, hv⟩, hrest⟩ := h
    have hnot : n ∉ preN := hn n (by simp [namesOf])
    obtain ⟨hnr, hdr⟩ := namesOf_mem_nodup n v vs hd
    have hlook := lookupField_record n preN (namesOf vs) preF (pushF vs) (push v) hnot hl
    have hf := deField_found n t t (push v) fs preT (by rw [hT]; exact hnot)
    have h1 := de_push_gen t v t hv rfl
    have h2 := mapLoop_push fs vs (preT ++ [(n, t)]) (preN ++ [n]) (preF ++ [push v]) ((n, v) :: acc)
      hrest hdr (by
        intro k hk
        simp
        exact ⟨hn k (by simp [namesOf, hk]), fun e => hnr (e ▸ hk)⟩)
      (by
        have : ∀ l : List (String × TCode), namesT (l ++ [(n, t)]) = namesT l ++ [n] := by
          intro l; induction l with
          | nil => simp [namesT]
          | cons q l ih => obtain ⟨a, b⟩ := q; simp [namesT, ih]
        rw [this, hT])
      (by simp [hl])
    simp at h2
    simp [namesOf, pushF, mapLoop, hlook, hf, h1, h2]
  | [], _ :: _, _, _, _, _, h, _, _, _, _ => by simp [WTdf] at h
  | _ :: _, [], _, _, _, _, h, _, _, _, _ => by simp [WTdf] at h
theorem deVariant_push : ∀ (vars : List TCode) (k : Nat) (p : Val), WTdv vars k p = true →
    ∀ (gl : TCode) (allctors : List (List TCode)) (tg : Nat), glKind gl = .var allctors →
      (∀ c, vars[k]? = some c → allctors[tg]? = some (ctorArgs c)) →
      deVariant vars k gl (push (.var tg p)) tg = .inl p
  | [], k, p, h => by simp [WTdv] at h
  | c :: vars, 0, p, h => by
    intro gl allctors tg hk hc
    have hc0 := hc c (by simp)
    cases c <;> cases p <;> simp [WTdv] at h
    · simp [deVariant]
    · rename_i ts vs
      simp [ctorArgs] at hc0
      have hlen := WTds_length ts vs h
      match ts, vs, h, hlen with
      | [], [], _, _ =>
        simp [deVariant, deSeq, push, pushL, hk, tagOf, hc0, fieldsOf, deElems]
      | [t], [v], h, _ =>
        simp [WTds] at h
        simp [deVariant, variantArg, push, pushL, hk, tagOf, hc0, fieldsOf, de_push_gen t v t h rfl]
      | t1 :: t2 :: ts, v1 :: v2 :: vs, h, _ =>
        have he := deElems_push (t1 :: t2 :: ts) (v1 :: v2 :: vs) h
        simp [deVariant, deSeq, push, hk, tagOf, hc0, fieldsOf, he]
    · rename_i fs vs
      simp [ctorArgs] at hc0
      have hl := mapLoop_push fs vs [] [] [] [] h.1 h.2 (by simp) rfl rfl
      simp at hl
      have ha := assemble_all fs vs [] (namesT_eq fs vs h.1) h.2 (by simp [namesOf])
      simp at ha
      simp [deVariant, push, hk, hc0, fieldsOf, tagOf, glKind, hl, ha]
  | c :: vars, k + 1, p, h => by
    have h' : WTdv vars k p = true := by
      revert h
      cases c <;> cases p <;> simp [WTdv]
    intro gl allctors tg hk hc
    have := deVariant_push vars k p h' gl allctors tg hk (by
      intro c' hc'
      exact hc c' (by simpa using hc'))
    simp only [deVariant]
    exact this
end


/-- the unrestricted form: the gluon type is the one of the Rust type itself -/
theorem de_push (c : TCode) (v : Val) (h : WTd c v = true) : de c c (push v) = .ok v :=
  de_push_gen c v c h rfl

/-! ### the De defects (model = code) -/

theorem de_unit_err : de .unit .unit (push .unit) = .err := by
  simp [push, de, tagOf, anyReject]

theorem de_tuple_err (ts : List TCode) (vs : List Val) :
    de (.tuple ts) (.tuple ts) (push (.tuple vs)) = .err := by
  simp only [push, de]
  unfold deSeq
  simp [glKind, anyReject, tagOf, isRecK]

theorem de_tstruct_err (ts : List TCode) (vs : List Val) :
    de (.tstruct ts) (.tstruct ts) (push (.tstruct vs)) = .err := by
  simp only [push, de]
  unfold deSeq
  simp [glKind, anyReject, tagOf, isRecK]

/-- a pushed `Ok v` is handed to the *error* type's deserializer (and would come back as `Err`) -/
theorem de_result_ok (t e : TCode) (v : Val) :
    de (.result t e) (.result t e) (push (.ok v)) =
      (match de e t (push v) with | .ok y => .ok (.err y) | o => o) := by
  simp [push, de, tagOf, variantArg, glKind, fieldsOf]
  cases de e t (push v) <;> rfl

theorem de_result_err (t e : TCode) (v : Val) :
    de (.result t e) (.result t e) (push (.err v)) =
      (match de t e (push v) with | .ok y => .ok (.ok y) | o => o) := by
  simp [push, de, tagOf, variantArg, glKind, fieldsOf]
  cases de t e (push v) <;> rfl

theorem tagOf_toGV (tr : Tree) : ∃ t, tagOf tr.toGV = some t := by
  cases tr <;> simp [Tree.toGV, tagOf]

theorem de_map_crash (t : TCode) (kvs : List (String × Val)) :
    de (.map t) (.map t) (push (.map kvs)) = .crash := by
  obtain ⟨tg, ht⟩ := tagOf_toGV (buildMap (pushKV kvs))
  simp [push, de, ht, isRecK, glKind]

/-! ### suggested fixes, as variants of the three confused arms -/

/-- `deserialize_unit` also accepting what `Pushable for ()` pushes (`Int 0`) -/
def deUnitFixed (v : GV) : DeOut :=
  match v with
  | .int _ => .ok .unit
  | _ => match tagOf v with
    | some 0 => .ok .unit
    | _ => .err

/-- `Result`: choose the seed by gluon's constructor order (`Err` = 0, `Ok` = 1) -/
def deResultFixed (t e : TCode) (v : GV) : DeOut :=
  match tagOf v, (fieldsOf v)[0]? with
  | some 1, some x => match de t t x with
    | .ok y => .ok (.ok y)
    | o => o
  | some 0, some x => match de e e x with
    | .ok y => .ok (.err y)
    | o => o
  | _, _ => .err

/-- `deserialize_seq` with an arm for record-typed data (tuples): the fields in order -/
def deTupleFixed (ts : List TCode) (v : GV) : DeOut :=
  match tagOf v with
  | some _ => match deElems ts ((fieldsOf v).zip ts) with
    | .inl vs => .ok (.tuple vs)
    | .inr o => o
  | none => .err

theorem de_unit_fixed_ok : deUnitFixed (push .unit) = .ok .unit := by
  simp [push, deUnitFixed]

theorem de_result_fixed_ok (t e : TCode) (v : Val) :
    (WTd t v = true → deResultFixed t e (push (.ok v)) = .ok (.ok v)) ∧
    (WTd e v = true → deResultFixed t e (push (.err v)) = .ok (.err v)) := by
  constructor <;> intro h <;> simp [deResultFixed, push, tagOf, fieldsOf, de_push _ _ h]

theorem de_tuple_fixed_ok (ts : List TCode) (vs : List Val) (h : WTds ts vs = true) :
    deTupleFixed ts (push (.tuple vs)) = .ok (.tuple vs) := by
  simp [deTupleFixed, push, tagOf, fieldsOf, deElems_push ts vs h]

end GluonModel.Marshal.Proofs
