/-
Lemmas for C04: dead-code elimination with a *closed* used-set preserves the outcome and the
sequence of host calls of an expression, up to skipped builtin arithmetic failures.
-/
import GluonModel.OptCore
import GluonModel.Dce

namespace GluonModel.Proofs.Dce
open GluonModel.OptCore GluonModel.Dce

/-- Failures that evaluating a dropped (call-free) binding can produce. -/
def Skippable {α : Type} : Out α → Prop
  | .arith => True
  | .wrong => True
  | _ => False

/-- `r'` (optimised) is `r`, or `r` stopped with a skippable failure and `r'` went on. -/
def Lenient {α : Type} (r r' : R α) : Prop :=
  r' = r ∨ (Skippable r.out ∧ ∃ l, r'.log = r.log ++ l)

/-- No host call, and either a value or a skippable failure. -/
def Quiet {α : Type} (r : R α) : Prop :=
  r.log = [] ∧ (Skippable r.out ∨ ∃ a, r.out = .ok a)

/-- The two environments give every identifier in `used` the same value. -/
def Agree (used : String → Bool) (env env' : Env) : Prop :=
  ∀ x, used x = true → lookup env' x = lookup env x

theorem lenient_refl {α} (r : R α) : Lenient r r := Or.inl rfl

theorem bind_log {α β} (r : R α) (k : α → R β) : ∃ l, (r.bind k).log = r.log ++ l := by
  unfold R.bind
  cases h : r.out <;> simp

theorem bind_skip {α β} (r : R α) (k : α → R β) (h : Skippable r.out) :
    (r.bind k).out = (match r.out with | .arith => .arith | _ => .wrong) ∧ (r.bind k).log = r.log := by
  unfold R.bind
  cases h' : r.out <;> simp_all [Skippable]

theorem bind_skippable {α β} (r : R α) (k : α → R β) (h : Skippable r.out) :
    Skippable (r.bind k).out ∧ (r.bind k).log = r.log := by
  unfold R.bind
  cases h' : r.out <;> simp_all [Skippable]

theorem bind_lenient {α β} (r r' : R α) (k k' : α → R β)
    (h : Lenient r r') (hk : ∀ a, Lenient (k a) (k' a)) : Lenient (r.bind k) (r'.bind k') := by
  rcases h with h | ⟨hs, l, hl⟩
  · subst h
    cases ho : r'.out with
    | ok a =>
      rcases hk a with e | ⟨hs, l, hl⟩
      · left; unfold R.bind; simp [ho, e]
      · right
        unfold R.bind
        simp only [ho]
        exact ⟨hs, l, by simp [hl]⟩
    | arith => left; unfold R.bind; simp [ho]
    | user m => left; unfold R.bind; simp [ho]
    | wrong => left; unfold R.bind; simp [ho]
    | timeout => left; unfold R.bind; simp [ho]
  · right
    obtain ⟨hs', hlog⟩ := bind_skippable r k hs
    obtain ⟨l2, hl2⟩ := bind_log r' k'
    exact ⟨hs', l ++ l2, by rw [hl2, hl, hlog, List.append_assoc]⟩

theorem bind_quiet {α β} (r : R α) (k : α → R β) (h : Quiet r) (hk : ∀ a, Quiet (k a)) :
    Quiet (r.bind k) := by
  obtain ⟨hl, ho⟩ := h
  rcases ho with hs | ⟨a, ha⟩
  · obtain ⟨h1, h2⟩ := bind_skippable r k hs
    exact ⟨by rw [h2, hl], Or.inl h1⟩
  · obtain ⟨hl2, ho2⟩ := hk a
    unfold R.bind
    simp only [ha]
    exact ⟨by simp [hl, hl2], ho2⟩

theorem pure_bind {α β} (a : α) (k : α → R β) : (R.pure a).bind k = k a := by
  unfold R.bind R.pure
  simp

theorem quiet_pure {α} (a : α) : Quiet (R.pure a) := ⟨rfl, Or.inr ⟨a, rfl⟩⟩

theorem checked_quiet (n : Int) : Skippable (checked n) ∨ ∃ a, checked n = .ok a := by
  unfold checked
  split
  · exact Or.inr ⟨_, rfl⟩
  · exact Or.inl trivial

theorem intOp_quiet (op : String) (a b : Int) :
    Skippable (intOp op a b) ∨ ∃ v, intOp op a b = .ok v := by
  unfold intOp
  repeat' split
  all_goals first
    | exact checked_quiet _
    | exact Or.inl trivial
    | exact Or.inr ⟨_, rfl⟩

/-- Every builtin is a function of its arguments whose only failures are skippable. -/
theorem builtin_quiet (op : String) (vs : List Value) :
    Skippable (builtin op vs) ∨ ∃ a, builtin op vs = .ok a := by
  unfold builtin
  split
  · exact intOp_quiet _ _ _
  · exact Or.inl trivial

theorem builtinCallee_some {f : Expr} {b : String} (h : builtinCallee f = some b) :
    f = .ident b ∧ isBuiltinName b = true := by
  cases f <;> simp [builtinCallee] at h
  rename_i x
  by_cases hb : isBuiltinName x = true
  · simp [hb] at h; subst h; exact ⟨rfl, hb⟩
  · simp [hb] at h

/-! ### Call-free expressions are quiet -/

mutual
theorem pure_quiet (call : Caller) : ∀ (e : Expr), pureE e = true →
    ∀ env, Quiet (eval call env e)
  | .const l, _, env => by simp only [eval]; exact quiet_pure _
  | .ident x, _, env => by simp only [eval]; exact quiet_pure _
  | .call f args, hp, env => by
    simp only [pureE, Bool.and_eq_true, Option.isSome_iff_exists] at hp
    obtain ⟨⟨b, hb⟩, hpa⟩ := hp
    obtain ⟨hf, hbn⟩ := builtinCallee_some hb
    subst hf
    simp only [eval, pure_bind]
    apply bind_quiet _ _ (pure_quietList call args hpa env)
    intro vs
    simp only [identV, hbn, if_true, applyV]
    exact ⟨rfl, builtin_quiet _ _⟩
  | .data c rows args, hp, env => by
    simp only [pureE] at hp
    simp only [eval]
    apply bind_quiet _ _ (pure_quietList call args hp env)
    intro vs
    exact quiet_pure _
  | .letE x e body, hp, env => by
    simp only [pureE, Bool.and_eq_true] at hp
    simp only [eval]
    apply bind_quiet _ _ (pure_quiet call e hp.1 env)
    intro v
    exact pure_quiet call body hp.2 _
  | .letRec cs body, hp, env => by
    simp only [pureE] at hp
    simp only [eval]
    exact pure_quiet call body hp _
  | .matchE s alts, hp, env => by
    simp only [pureE, Bool.and_eq_true] at hp
    simp only [eval]
    apply bind_quiet _ _ (pure_quiet call s hp.1 env)
    intro v
    exact pure_quietAlts call alts hp.2 v env
  | .cast e, hp, env => by
    simp only [pureE] at hp
    simp only [eval]
    exact pure_quiet call e hp env
theorem pure_quietList (call : Caller) : ∀ (es : Exprs), pureList es = true →
    ∀ env, Quiet (evalList call env es)
  | .nil, _, env => by simp only [evalList]; exact quiet_pure _
  | .cons e es, hp, env => by
    simp only [pureList, Bool.and_eq_true] at hp
    simp only [evalList]
    apply bind_quiet _ _ (pure_quiet call e hp.1 env)
    intro v
    apply bind_quiet _ _ (pure_quietList call es hp.2 env)
    intro vs
    exact quiet_pure _
theorem pure_quietAlts (call : Caller) : ∀ (alts : Alts), pureAlts alts = true →
    ∀ v env, Quiet (evalAlts call env v alts)
  | .nil, _, v, env => by simp only [evalAlts]; exact ⟨rfl, Or.inl trivial⟩
  | .cons p e rest, hp, v, env => by
    simp only [pureAlts, Bool.and_eq_true] at hp
    simp only [evalAlts]
    split
    · exact pure_quiet call e hp.1 _
    · exact pure_quietAlts call rest hp.2 v env
end

/-! ### Environments -/

theorem agree_refl (used : String → Bool) (env : Env) : Agree used env env := fun _ _ => rfl

theorem agree_cons {used : String → Bool} {env env' : Env} (h : Agree used env env')
    (x : String) (v : Value) : Agree used ((x, v) :: env) ((x, v) :: env') := by
  intro y hy
  simp only [lookup]
  split
  · rfl
  · exact h y hy

theorem lookup_append (bs env : Env) (x : String) :
    lookup (bs ++ env) x = (match lookup bs x with | some v => some v | none => lookup env x) := by
  induction bs with
  | nil => simp [lookup]
  | cons p bs ih =>
    obtain ⟨y, v⟩ := p
    simp only [List.cons_append, lookup]
    split
    · rfl
    · exact ih

theorem agree_append {used : String → Bool} {env env' : Env} (h : Agree used env env')
    (bs : Env) : Agree used (bs ++ env) (bs ++ env') := by
  intro y hy
  rw [lookup_append, lookup_append, h y hy]

/-- Extending only the unoptimised environment by bindings of unused names keeps agreement. -/
theorem agree_skip {used : String → Bool} {env env' : Env} (h : Agree used env env')
    (bs : Env) (hb : ∀ p ∈ bs, used p.1 = false) : Agree used (bs ++ env) env' := by
  intro y hy
  rw [lookup_append]
  have : lookup bs y = none := by
    induction bs with
    | nil => rfl
    | cons p bs ih =>
      obtain ⟨z, v⟩ := p
      simp only [lookup]
      have hz : used z = false := hb (z, v) (by simp)
      have : ¬ z = y := by
        intro e
        subst e
        rw [hz] at hy
        exact Bool.noConfusion hy
      simp only [this, if_false]
      exact ih (fun p hp => hb p (by simp [hp]))
  rw [this]
  exact h y hy

theorem bindFields_keys (rows : List String) (vals : List Value) :
    ∀ (fs : List (String × String)) (bs : Env), bindFields rows vals fs = some bs →
      ∀ p ∈ bs, ∃ f ∈ fs, f.2 = p.1
  | [], bs, h, p, hp => by
    simp [bindFields] at h
    subst h
    simp at hp
  | (f, b) :: rest, bs, h, p, hp => by
    simp only [bindFields] at h
    split at h
    · simp at h
    · split at h
      · rename_i v r hv hr
        simp at h
        subst h
        simp at hp
        rcases hp with hp | hp
        · exact ⟨(f, b), by simp, by simp [hp]⟩
        · obtain ⟨g, hg, hgp⟩ := bindFields_keys rows vals rest r hr p hp
          exact ⟨g, by simp [hg], hgp⟩
      · simp at h

theorem identV_agree {used : String → Bool} {env env' : Env} (h : Agree used env env')
    (x : String) (hx : used x = true) : identV env' x = identV env x := by
  simp only [identV, lookupD, h x hx]

/-- The shape `dropMatch` recognises. -/
theorem dropMatch_shape {used : String → Bool} {alts : Alts} (h : dropMatch used alts = true) :
    ∃ fields b, alts = .cons (.record fields) b .nil ∧ ∀ f ∈ fields, used f.2 = false := by
  cases alts with
  | nil => simp [dropMatch] at h
  | cons p b rest =>
    cases rest with
    | cons _ _ _ => cases p <;> simp [dropMatch] at h
    | nil =>
      cases p with
      | record fields =>
        refine ⟨fields, b, rfl, ?_⟩
        simp only [dropMatch, Bool.not_eq_true', List.any_eq_false] at h
        intro f hf
        have := h f hf
        simpa using this
      | ctor _ _ => simp [dropMatch] at h
      | ident _ => simp [dropMatch] at h
      | lit _ => simp [dropMatch] at h

/-! ### Soundness of `dce` for a closed used-set (closure-free expressions) -/

/-- Statement about the body of the first alternative (what a dropped match is replaced by). -/
def FirstSound (used : String → Bool) (call : Caller) : Alts → Prop
  | .nil => True
  | .cons _ b _ => ∀ env env', Agree used env env' →
      Lenient (eval call env b) (eval call env' (dce used b))

mutual
theorem dce_sound (used : String → Bool) (call : Caller) : ∀ (e : Expr),
    noRec e = true → kept used e = true → ∀ env env', Agree used env env' →
    Lenient (eval call env e) (eval call env' (dce used e))
  | .const l, _, _, env, env', _ => by simp only [dce, eval]; exact lenient_refl _
  | .ident x, _, hk, env, env', ha => by
    simp only [kept] at hk
    simp only [dce, eval, identV_agree ha x hk]
    exact lenient_refl _
  | .call f args, hn, hk, env, env', ha => by
    simp only [noRec, Bool.and_eq_true] at hn
    simp only [kept, Bool.and_eq_true] at hk
    simp only [dce, eval]
    apply bind_lenient _ _ _ _ (dce_sound used call f hn.1 hk.1 env env' ha)
    intro fv
    apply bind_lenient _ _ _ _ (dce_soundList used call args hn.2 hk.2 env env' ha)
    intro vs
    exact lenient_refl _
  | .data c rows args, hn, hk, env, env', ha => by
    simp only [noRec] at hn
    simp only [kept] at hk
    simp only [dce, eval]
    apply bind_lenient _ _ _ _ (dce_soundList used call args hn hk env env' ha)
    intro vs
    exact lenient_refl _
  | .letE x e body, hn, hk, env, env', ha => by
    simp only [noRec, Bool.and_eq_true] at hn
    simp only [kept, Bool.and_eq_true] at hk
    by_cases hx : used x = true
    · simp only [hx, if_true] at hk
      simp only [dce, hx, if_true, eval]
      apply bind_lenient _ _ _ _ (dce_sound used call e hn.1 hk.1 env env' ha)
      intro v
      exact dce_sound used call body hn.2 hk.2 _ _ (agree_cons ha x v)
    · have hx' : used x = false := by simpa using hx
      simp only [hx', Bool.false_eq_true, if_false] at hk
      simp only [dce, hx', Bool.false_eq_true, if_false, eval]
      obtain ⟨hl, ho⟩ := pure_quiet call e hk.1 env
      rcases ho with hs | ⟨v, hv⟩
      · right
        obtain ⟨h1, h2⟩ := bind_skippable (eval call env e)
          (fun v => eval call ((x, v) :: env) body) hs
        exact ⟨h1, (eval call env' (dce used body)).log, by rw [h2, hl]; rfl⟩
      · have hagree : Agree used ((x, v) :: env) env' :=
          agree_skip ha [(x, v)] (by intro p hp; simp at hp; subst hp; exact hx')
        have ih := dce_sound used call body hn.2 hk.2 _ _ hagree
        have : (eval call env e).bind (fun v => eval call ((x, v) :: env) body)
            = eval call ((x, v) :: env) body := by
          unfold R.bind
          simp only [hv, hl, List.nil_append]
        rw [this]
        exact ih
  | .letRec cs body, hn, _, env, env', _ => by simp [noRec] at hn
  | .matchE s alts, hn, hk, env, env', ha => by
    simp only [noRec, Bool.and_eq_true] at hn
    by_cases hd : dropMatch used alts = true
    · simp only [kept, hd, if_true, Bool.and_eq_true] at hk
      obtain ⟨fields, b, hshape, hunused⟩ := dropMatch_shape hd
      have hfirst := dce_soundFirst used call alts hn.2 hk.2
      subst hshape
      simp only [dce, hd, if_true, dceFirstBody, eval]
      simp only [FirstSound] at hfirst
      obtain ⟨hl, ho⟩ := pure_quiet call s hk.1 env
      rcases ho with hs | ⟨v, hv⟩
      · right
        obtain ⟨h1, h2⟩ := bind_skippable (eval call env s)
          (fun v => evalAlts call env v (.cons (.record fields) b .nil)) hs
        exact ⟨h1, (eval call env' (dce used b)).log, by rw [h2, hl]; rfl⟩
      · have : (eval call env s).bind (fun v => evalAlts call env v (.cons (.record fields) b .nil))
            = evalAlts call env v (.cons (.record fields) b .nil) := by
          unfold R.bind
          simp only [hv, hl, List.nil_append]
        rw [this]
        simp only [evalAlts]
        split
        · rename_i bs hbs
          apply hfirst
          apply agree_skip ha
          intro p hp
          cases v <;> simp only [matchPat] at hbs <;> try exact absurd hbs (by simp)
          rename_i c rows vals
          obtain ⟨f, hf, hfp⟩ := bindFields_keys rows vals fields bs hbs p hp
          rw [← hfp]
          exact hunused f hf
        · right
          exact ⟨trivial, (eval call env' (dce used b)).log, by simp⟩
    · have hd' : dropMatch used alts = false := by simpa using hd
      simp only [kept, hd', Bool.false_eq_true, if_false, Bool.and_eq_true] at hk
      simp only [dce, hd', Bool.false_eq_true, if_false, eval]
      apply bind_lenient _ _ _ _ (dce_sound used call s hn.1 hk.1 env env' ha)
      intro v
      exact dce_soundAlts used call alts hn.2 hk.2 v env env' ha
  | .cast e, hn, hk, env, env', ha => by
    simp only [noRec] at hn
    simp only [kept] at hk
    simp only [dce, eval]
    exact dce_sound used call e hn hk env env' ha
theorem dce_soundList (used : String → Bool) (call : Caller) : ∀ (es : Exprs),
    noRecList es = true → keptList used es = true → ∀ env env', Agree used env env' →
    Lenient (evalList call env es) (evalList call env' (dceList used es))
  | .nil, _, _, env, env', _ => by simp only [dceList, evalList]; exact lenient_refl _
  | .cons e es, hn, hk, env, env', ha => by
    simp only [noRecList, Bool.and_eq_true] at hn
    simp only [keptList, Bool.and_eq_true] at hk
    simp only [dceList, evalList]
    apply bind_lenient _ _ _ _ (dce_sound used call e hn.1 hk.1 env env' ha)
    intro v
    apply bind_lenient _ _ _ _ (dce_soundList used call es hn.2 hk.2 env env' ha)
    intro vs
    exact lenient_refl _
theorem dce_soundAlts (used : String → Bool) (call : Caller) : ∀ (alts : Alts),
    noRecAlts alts = true → keptAlts used alts = true → ∀ v env env', Agree used env env' →
    Lenient (evalAlts call env v alts) (evalAlts call env' v (dceAlts used alts))
  | .nil, _, _, v, env, env', _ => by simp only [dceAlts, evalAlts]; exact lenient_refl _
  | .cons p e rest, hn, hk, v, env, env', ha => by
    simp only [noRecAlts, Bool.and_eq_true] at hn
    simp only [keptAlts, Bool.and_eq_true] at hk
    simp only [dceAlts, evalAlts]
    split
    · exact dce_sound used call e hn.1 hk.1 _ _ (agree_append ha _)
    · exact dce_soundAlts used call rest hn.2 hk.2 v env env' ha
theorem dce_soundFirst (used : String → Bool) (call : Caller) : ∀ (alts : Alts),
    noRecAlts alts = true → keptFirstBody used alts = true → FirstSound used call alts
  | .nil, _, _ => trivial
  | .cons p e rest, hn, hk => by
    simp only [noRecAlts, Bool.and_eq_true] at hn
    simp only [keptFirstBody] at hk
    intro env env' ha
    exact dce_sound used call e hn.1 hk env env' ha
end

end GluonModel.Proofs.Dce
