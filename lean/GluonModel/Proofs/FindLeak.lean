/-
C20: where the scope leak can happen. On a well-nested tree, when the cursor is on a terminal
(`spec pos e ≠ none`) every construct the search passes through contains the cursor, so even
the code as it is registers only binders of containing constructs: the leak is confined to gap
positions (keywords, whitespace, brackets).
-/
import GluonModel.FindSpec
import GluonModel.Proofs.FindSpec

namespace GluonModel.FindPos.Proofs
open GluonModel.FindPos

/-- every stack entry of `st1` is already in `st` or was registered by a containing construct -/
def ScopeAt (pos : Nat) (st st1 : St) : Prop :=
  ∀ x ∈ st1.scope, x ∈ st.scope ∨ x.2.containment pos = .eq

theorem scopeAt_refl (pos : Nat) (st : St) : ScopeAt pos st st := fun _ hx => Or.inl hx

theorem scopeAt_trans (pos : Nat) (a b c : St) (h1 : ScopeAt pos a b) (h2 : ScopeAt pos b c) :
    ScopeAt pos a c := by
  intro x hx
  rcases h2 x hx with h | h
  · exact h1 x h
  · exact Or.inr h

theorem scopeAt_eq (pos : Nat) (st st' st1 : St) (h : st1.scope = st'.scope)
    (h0 : ScopeAt pos st st') : ScopeAt pos st st1 := by
  intro x hx; rw [h] at hx; exact h0 x hx

theorem scopeAt_hook (fx : Bool) (pos : Nat) (st st' : St) (sp : Span) (ids : List Nat)
    (h0 : ScopeAt pos st st') (hsp : isAt sp pos = true) :
    ScopeAt pos st (hook fx pos st' sp ids) := by
  intro x hx
  unfold hook at hx
  split at hx
  · exact h0 x hx
  · simp only [addScope, List.mem_append, List.mem_reverse, List.mem_map] at hx
    rcases hx with ⟨i, _, rfl⟩ | hx
    · right; simpa [isAt] using hsp
    · exact h0 x hx

@[simp] theorem enter_scope (m : M) (pos : Nat) (st : St) : (enter m pos st).scope = st.scope := by
  unfold enter; split <;> rfl
@[simp] theorem setFound_scope (st : St) (f : Found) : (setFound st f).scope = st.scope := rfl
@[simp] theorem foundIfAt_scope (m : M) (pos : Nat) (st : St) :
    (foundIfAt m pos st).scope = st.scope := rfl

/-- the new state of a step -/
def nextState : Next → Option St
  | .done (.ok st) => some st
  | .done _ => none
  | .go _ st => some st

theorem isAt_of_spec_expr (pos : Nat) (e : Expr) (h : e.spec pos ≠ none) : isAt e.span pos = true := by
  cases hh : isAt e.span pos with
  | true => rfl
  | false => exact absurd (Expr.spec_none pos e hh) h

/-- One step from a well-nested node whose `spec` is not `none` (the cursor is on a terminal
    below it) registers only binders of constructs that contain the cursor. -/
theorem step_scope_at (fx : Bool) (pos : Nat) (n : Node) (st : St)
    (hw : Node.wn n = true) (hs : Node.spec pos n ≠ none) :
    ∀ st1, nextState (step fx pos n st) = some st1 → ScopeAt pos st st1 := by
  intro st1 h1
  cases n with
  | pat p =>
    apply scopeAt_eq pos st st st1 _ (scopeAt_refl pos st)
    cases p <;> simp only [step] at h1 <;> (repeat' split at h1) <;>
      simp [nextState] at h1 <;> subst h1 <;> simp
  | variant v =>
    apply scopeAt_eq pos st st st1 _ (scopeAt_refl pos st)
    cases v with
    | none => simp [step, nextState] at h1; subst h1; simp
    | some x => cases x <;> simp [step, nextState] at h1 <;> subst h1 <;> simp
  | expr e =>
    have hat := isAt_of_spec_expr pos e hs
    cases e with
    | lambda sp args body =>
      simp only [step] at h1
      have hk := scopeAt_hook fx pos st (enter (Expr.lambda sp args body).m pos st) sp (args.map Arg.id)
        (scopeAt_eq pos st st _ (by simp) (scopeAt_refl pos st)) hat
      split at h1 <;> simp [nextState] at h1 <;> subst h1
      · exact scopeAt_eq pos st _ _ (by simp) hk
      · exact hk
    | letb sp isRec bs body =>
      simp only [step] at h1
      have h0 : ScopeAt pos st (enter (Expr.letb sp isRec bs body).m pos st) :=
        scopeAt_eq pos st st _ (by simp) (scopeAt_refl pos st)
      have hrec : ScopeAt pos st (if isRec = true then
          hook fx pos (enter (Expr.letb sp isRec bs body).m pos st) sp
            (bs.flatMap (fun b => b.name.binders))
          else enter (Expr.letb sp isRec bs body).m pos st) := by
        cases isRec
        · exact h0
        · exact scopeAt_hook fx pos st _ sp _ h0 hat
      split at h1
      · rename_i b hb
        simp [nextState] at h1; subst h1
        obtain ⟨y, hy, _, hyc⟩ := selectGo_false LBind.span pos bs none _ hb
        simp at hy; subst hy
        exact scopeAt_hook fx pos st _ b.span _ hrec (by simpa [isAt] using hyc)
      · simp [nextState] at h1; subst h1
        cases isRec
        · exact scopeAt_hook fx pos st _ sp _ h0 hat
        · exact scopeAt_hook fx pos st _ sp _ h0 hat
    | matchE sp s alts =>
      simp only [Node.wn, Expr.wn, Span.wf, Bool.and_eq_true, decide_eq_true_eq] at hw
      obtain ⟨⟨⟨hwf, hch⟩, hws⟩, hwa⟩ := hw
      have hch' : chain sp.lo sp.hi ((Sum.inl s :: alts.map Sum.inr).map itemSpan) = true := by
        rw [items_spans]; exact hch
      have h0 : ScopeAt pos st (enter (Expr.matchE sp s alts).m pos st) :=
        scopeAt_eq pos st st _ (by simp) (scopeAt_refl pos st)
      simp only [step] at h1
      change nextState (match (selectSpanned itemSpan pos (Sum.inl s :: alts.map Sum.inr)).2 with
        | none => Next.done Out.panic
        | some (Sum.inl e) => _
        | some (Sum.inr a) => _) = some st1 at h1
      rcases select_cases itemSpan pos _ _ _ hch' with ⟨x, hfind, hsel, hm, hatx⟩ | ⟨hfind, r, hsel, hr, hnil⟩
      · rw [hsel] at h1
        cases x with
        | inl e' =>
          simp [nextState] at h1; subst h1
          exact scopeAt_eq pos st _ _ (by simp) h0
        | inr a =>
          have hk := scopeAt_hook fx pos st _ a.span a.pat.binders h0 hatx
          simp only at h1
          split at h1 <;> simp [nextState] at h1 <;> subst h1 <;> exact hk
      · exfalso
        rw [items_find] at hfind
        have hs' : isAt s.span pos = false := by
          cases h : isAt s.span pos
          · rfl
          · rw [h] at hfind; simp at hfind
        rw [hs'] at hfind
        simp only [Bool.false_eq_true, ↓reduceIte, Option.map_eq_none_iff] at hfind
        apply hs
        cases isAt sp pos <;> simp [Node.spec, Expr.spec, hs', specAlts_find, hfind]
    | leaf sp => 
      apply scopeAt_eq pos st st st1 _ (scopeAt_refl pos st)
      simp [step, nextState] at h1; subst h1; simp
    | emptyNode sp =>
      apply scopeAt_eq pos st st st1 _ (scopeAt_refl pos st)
      simp [step, nextState] at h1; subst h1; simp
    | error sp =>
      apply scopeAt_eq pos st st st1 _ (scopeAt_refl pos st)
      simp [step, nextState] at h1; subst h1; simp
    | one sp cs =>
      apply scopeAt_eq pos st st st1 _ (scopeAt_refl pos st)
      simp only [step] at h1
      split at h1 <;> simp [nextState] at h1; subst h1; simp
    | «infix» sp l op r =>
      apply scopeAt_eq pos st st st1 _ (scopeAt_refl pos st)
      simp only [step] at h1
      split at h1 <;> simp [nextState] at h1 <;> subst h1 <;> simp
    | proj sp e =>
      apply scopeAt_eq pos st st st1 _ (scopeAt_refl pos st)
      simp only [step] at h1
      split at h1 <;> simp [nextState] at h1 <;> subst h1 <;> simp
    | annotated sp e =>
      apply scopeAt_eq pos st st st1 _ (scopeAt_refl pos st)
      simp [step, nextState] at h1; subst h1; simp
    | record sp fs base =>
      apply scopeAt_eq pos st st st1 _ (scopeAt_refl pos st)
      simp [step, nextState] at h1; subst h1; simp

theorem run_scope_at (fx : Bool) (pos : Nat) :
    ∀ (fuel : Nat) (n : Node) (st st' : St), Node.wn n = true → st.found = .notFound →
      Node.spec pos n ≠ none → run fx pos fuel n st = .ok st' → ScopeAt pos st st' := by
  intro fuel
  induction fuel with
  | zero => intro n st st' _ _ _ h; simp [run] at h
  | succ k ih =>
    intro n st st' hw hf hs h
    have hsp := step_spec fx pos n st hw hf
    have hsc := step_scope_at fx pos n st hw hs
    rw [run] at h
    split at h
    · rename_i o ho
      subst h
      exact hsc st' (by rw [ho]; rfl)
    · rename_i n' st1 ho
      rw [ho] at hsp
      obtain ⟨hw', hf', hspec⟩ := hsp
      have h1 := hsc st1 (by rw [ho]; rfl)
      exact scopeAt_trans pos st st1 st' h1 (ih n' st1 st' hw' hf' (by rw [hspec]; exact hs) h)

end GluonModel.FindPos.Proofs
