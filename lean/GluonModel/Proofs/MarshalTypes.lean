import GluonModel.Marshal
namespace GluonModel.Marshal.Proofs
open GluonModel.Marshal

mutual
theorem unify_refl : ∀ a : GType, unify a a = true
  | .builtin b => by simp [unify]
  | .array t => by simp [unify, unify_refl t]
  | .alias n xs => by simp [unify, unifyL_refl xs]
  | .record fs => by simp [unify, unifyF_refl fs]
theorem unifyL_refl : ∀ xs : List GType, unifyL xs xs = true
  | [] => by simp [unifyL]
  | x :: xs => by simp [unifyL, unify_refl x, unifyL_refl xs]
theorem unifyF_refl : ∀ fs : List (String × GType), unifyF fs fs = true
  | [] => by simp [unifyF]
  | (n, x) :: fs => by simp [unifyF, unify_refl x, unifyF_refl fs]
end

mutual
theorem unify_eq : ∀ a b : GType, unify a b = true → a = b
  | .builtin a, b, h => by cases b <;> simp [unify] at h; simp [h]
  | .array a, b, h => by
    cases b <;> simp [unify] at h
    simp [unify_eq a _ h]
  | .alias n xs, b, h => by
    cases b <;> simp [unify] at h
    simp [h.1, unifyL_eq xs _ h.2]
  | .record fs, b, h => by
    cases b <;> simp [unify] at h
    simp [unifyF_eq fs _ h]
theorem unifyL_eq : ∀ xs ys : List GType, unifyL xs ys = true → xs = ys
  | [], [], _ => rfl
  | x :: xs, y :: ys, h => by
    simp [unifyL] at h
    simp [unify_eq x y h.1, unifyL_eq xs ys h.2]
  | [], _ :: _, h => by simp [unifyL] at h
  | _ :: _, [], h => by simp [unifyL] at h
theorem unifyF_eq : ∀ fs gs : List (String × GType), unifyF fs gs = true → fs = gs
  | [], [], _ => rfl
  | (n, x) :: xs, (m, y) :: ys, h => by
    simp [unifyF] at h
    simp [h.1.1, unify_eq x y h.1.2, unifyF_eq xs ys h.2]
  | [], _ :: _, h => by simp [unifyF] at h
  | _ :: _, [], h => by simp [unifyF] at h
end

theorem unify_iff (a b : GType) : unify a b = true ↔ a = b :=
  ⟨unify_eq a b, fun h => h ▸ unify_refl a⟩

end GluonModel.Marshal.Proofs
