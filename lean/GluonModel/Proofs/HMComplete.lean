/-
C03 — completeness and principality of `infer` (syntactic rows) on the let-free,
projection-free fragment, up to the unification fuel.

On top of the invariant of `HMSound` (`Inv S E`: the threaded substitution is a most general
solution of the equations so far) this needs the FRESHNESS invariant: every type variable of the
environment, of the equations and of the types returned so far is below the counter, so a solution
can be extended on the new variables without disturbing anything.
-/
import GluonModel.HM
import GluonModel.Proofs.HM
import GluonModel.Proofs.HMTerm
import GluonModel.Proofs.HMSound

namespace GluonModel.HM.Proofs
open GluonModel.HM

/-! ### the counter is not moved by syntactic unification -/

theorem bindVar_counter (a : Nat) (t : Ty) (n n' : Nat) (σ : Subst)
    (h : bindVar a t n = .ok (σ, n')) : n' = n := by
  unfold bindVar at h
  split at h
  · injection h with h; injection h with _ h₂; exact h₂.symm
  · split at h
    · cases h
    · injection h with h; injection h with _ h₂; exact h₂.symm

theorem unify_counter : ∀ (fuel n : Nat) (s t : Ty) (σ : Subst) (n' : Nat),
    unify false fuel n s t = .ok (σ, n') → n' = n := by
  intro fuel
  induction fuel with
  | zero => intro n s t σ n' h; simp [unify] at h
  | succ fuel ih =>
    intro n s t σ n' h
    have two : ∀ (f g a b : Ty), twoStep fuel n f g a b = .ok (σ, n') → n' = n := by
      intro f g a b h
      unfold twoStep at h
      split at h
      · cases h
      · next σ₁ n₁ h₁ =>
        split at h
        · cases h
        · next σ₂ n₂ h₂ =>
          injection h with h; injection h with _ hn
          have e₁ := ih n f g σ₁ n₁ h₁
          have e₂ := ih n₁ _ _ σ₂ n₂ h₂
          omega
    have idc : ∀ m, (Except.ok (Subst.id, m) : Except UErr (Subst × Nat)) = .ok (σ, n') → n' = m := by
      intro m h; injection h with h; injection h with _ h₂; exact h₂.symm
    cases s with
    | var a => simp only [unify] at h; exact bindVar_counter a t n n' σ h
    | con c =>
      cases t with
      | var b => simp only [unify] at h; exact bindVar_counter b _ n n' σ h
      | con d =>
        simp only [unify] at h
        split at h
        · exact idc n h
        · cases h
      | app _ _ => simp [unify] at h
      | ext _ _ _ => simp [unify] at h
      | empty => simp [unify] at h
    | empty =>
      cases t with
      | var b => simp only [unify] at h; exact bindVar_counter b _ n n' σ h
      | empty => simp only [unify] at h; exact idc n h
      | con _ => simp [unify] at h
      | app _ _ => simp [unify] at h
      | ext _ _ _ => simp [unify] at h
    | app f a =>
      cases t with
      | var b => simp only [unify] at h; exact bindVar_counter b _ n n' σ h
      | app g b => rw [unify_app_app] at h; exact two f g a b h
      | con _ => simp [unify] at h
      | ext _ _ _ => simp [unify] at h
      | empty => simp [unify] at h
    | ext l a r =>
      cases t with
      | var b => simp only [unify] at h; exact bindVar_counter b _ n n' σ h
      | ext l' a' r' =>
        rw [unify_ext_ext] at h
        split at h
        · exact two a a' r r' h
        · cases h
      | con _ => simp [unify] at h
      | app _ _ => simp [unify] at h
      | empty => simp [unify] at h

/-! ### freshness -/

def Below (n : Nat) (t : Ty) : Prop := ∀ v, v ∈ t.ftv → v < n
def BelowE (n : Nat) (E : Eqs) : Prop := ∀ p, p ∈ E → Below n p.1 ∧ Below n p.2
def BelowΓ (n : Nat) (Γ : Env) : Prop := ∀ p, p ∈ Γ → Below n p.2.ty

/-- two substitutions agree below `n` -/
def Agree (n : Nat) (R' R : Subst) : Prop := ∀ v, v < n → R' v = R v

theorem below_mono {n m : Nat} (h : n ≤ m) {t : Ty} (ht : Below n t) : Below m t :=
  fun v hv => Nat.lt_of_lt_of_le (ht v hv) h

theorem belowE_mono {n m : Nat} (h : n ≤ m) {E : Eqs} (hE : BelowE n E) : BelowE m E :=
  fun p hp => ⟨below_mono h (hE p hp).1, below_mono h (hE p hp).2⟩

theorem belowΓ_mono {n m : Nat} (h : n ≤ m) {Γ : Env} (hΓ : BelowΓ n Γ) : BelowΓ m Γ :=
  fun p hp => below_mono h (hΓ p hp)

theorem agree_mono {n m : Nat} (h : n ≤ m) {R' R : Subst} (ha : Agree m R' R) : Agree n R' R :=
  fun v hv => ha v (Nat.lt_of_lt_of_le hv h)

theorem agree_trans {n : Nat} {R₂ R₁ R : Subst} (h₂ : Agree n R₂ R₁) (h₁ : Agree n R₁ R) :
    Agree n R₂ R := fun v hv => (h₂ v hv).trans (h₁ v hv)

theorem subst_agree {n : Nat} {R' R : Subst} {t : Ty} (ht : Below n t) (ha : Agree n R' R) :
    t.subst R' = t.subst R :=
  subst_congr_ftv R' R t (fun v hv => ha v (ht v hv))

theorem sol_agree {n : Nat} {R' R : Subst} {E : Eqs} (hE : BelowE n E) (ha : Agree n R' R)
    (h : Sol R E) : Sol R' E := by
  intro p hp
  rw [subst_agree (hE p hp).1 ha, subst_agree (hE p hp).2 ha]
  exact h p hp

theorem sol_cons {R : Subst} {a b : Ty} {E : Eqs} (hab : a.subst R = b.subst R) (h : Sol R E) :
    Sol R ((a, b) :: E) := by
  intro p hp
  cases hp with
  | head => exact hab
  | tail _ hp => exact h p hp

theorem belowE_cons {n : Nat} {a b : Ty} {E : Eqs} (ha : Below n a) (hb : Below n b)
    (h : BelowE n E) : BelowE n ((a, b) :: E) := by
  intro p hp
  cases hp with
  | head => exact ⟨ha, hb⟩
  | tail _ hp => exact h p hp

/-- change a substitution at one variable -/
def upd (R : Subst) (k : Nat) (t : Ty) : Subst := fun v => if v = k then t else R v

theorem upd_agree (R : Subst) (k : Nat) (t : Ty) : Agree k (upd R k t) R := by
  intro v hv
  simp [upd, Nat.ne_of_lt hv]

theorem upd_self (R : Subst) (k : Nat) (t : Ty) : upd R k t k = t := by simp [upd]

/-! ### monomorphic environments, exact relation -/

/-- every variable of `Δ` has exactly the one type its (monomorphic) scheme denotes under `R` -/
def EnvC : SEnv → Env → Subst → Prop
  | [], [], _ => True
  | (x, P) :: Δ, (y, s) :: Γ, R =>
    x = y ∧ s.vars = [] ∧ (∀ τ, P τ → τ = s.ty.subst R) ∧ EnvC Δ Γ R
  | _, _, _ => False

theorem envC_lookup : ∀ (Δ : SEnv) (Γ : Env) (R : Subst) (x : String) (P : Ty → Prop),
    EnvC Δ Γ R → slookup x Δ = some P →
    ∃ s, lookup x Γ = some s ∧ s.vars = [] ∧ (∀ τ, P τ → τ = s.ty.subst R) ∧
      ∃ y, (y, s) ∈ Γ := by
  intro Δ
  induction Δ with
  | nil => intro Γ R x P _ h; simp [slookup] at h
  | cons q Δ ih =>
    intro Γ R x P hrel h
    obtain ⟨z, Q⟩ := q
    cases Γ with
    | nil => simp [EnvC] at hrel
    | cons p Γ =>
      obtain ⟨y, s⟩ := p
      simp only [EnvC] at hrel
      obtain ⟨hzy, hv, hP, hrest⟩ := hrel
      subst hzy
      simp only [slookup] at h
      simp only [lookup]
      split at h
      · next hx =>
        injection h with h; subst h
        exact ⟨s, by simp [hx], hv, hP, z, List.mem_cons_self ..⟩
      · next hx =>
        simp only [hx, if_false]
        obtain ⟨s', hl, hv', hP', y', hm⟩ := ih Γ R x P hrest h
        exact ⟨s', hl, hv', hP', y', List.mem_cons_of_mem _ hm⟩

theorem envC_agree : ∀ (Δ : SEnv) (Γ : Env) (R R' : Subst) (n : Nat),
    BelowΓ n Γ → Agree n R' R → EnvC Δ Γ R → EnvC Δ Γ R' := by
  intro Δ
  induction Δ with
  | nil => intro Γ R R' n _ _ h; cases Γ <;> simp_all [EnvC]
  | cons q Δ ih =>
    intro Γ R R' n hb ha hrel
    obtain ⟨z, Q⟩ := q
    cases Γ with
    | nil => simp [EnvC] at hrel
    | cons p Γ =>
      obtain ⟨y, s⟩ := p
      simp only [EnvC] at hrel ⊢
      obtain ⟨hzy, hv, hP, hrest⟩ := hrel
      refine ⟨hzy, hv, ?_, ih Γ R R' n (fun p hp => hb p (List.mem_cons_of_mem _ hp)) ha hrest⟩
      intro τ hτ
      rw [hP τ hτ]
      exact (subst_agree (hb (y, s) (List.mem_cons_self ..)) ha).symm

theorem inst_mono_vars (s : Scheme) (n : Nat) (h : s.vars = []) : inst s n = (s.ty, n) := by
  simp only [inst, h, indexOf, List.length_nil, Nat.add_zero]
  congr 1
  exact subst_id s.ty

/-! ### one unification step -/

theorem unifyS_complete (S : Subst) (n : Nat) (a b : Ty) (E : Eqs) (R : Subst)
    (hi : Inv S E) (hR : Sol R E) (hab : a.subst R = b.subst R) :
    unifyS false S n a b = .error .fuel ∨
      ∃ S', unifyS false S n a b = .ok (S', n) ∧ Inv S' ((a, b) :: E) := by
  cases hu : unifyS false S n a b with
  | error e =>
    by_cases he : e = .fuel
    · left; rw [he]
    · exfalso
      unfold unifyS at hu
      split at hu
      · next e' hu' =>
        injection hu with hu; subst hu
        apply unify_error_no_unifier unifyFuel n _ _ R e' he hu'
        rw [inv_absorb S E hi R hR a, inv_absorb S E hi R hR b]
        exact hab
      · cases hu
  | ok q =>
    obtain ⟨S', n'⟩ := q
    right
    have hn : n' = n := by
      unfold unifyS at hu
      split at hu
      · cases hu
      · next U n₁ hu' =>
        injection hu with hu; injection hu with _ hn
        have := unify_counter unifyFuel n _ _ U n₁ hu'
        omega
    subst hn
    exact ⟨S', rfl, unifyS_inv S n' a b S' n' E hu hi⟩


/-! ### the fragment and the statement -/

/-- let-free and projection-free expressions -/
def LetProjFree : Expr → Prop
  | .lam _ b => LetProjFree b
  | .app f a => LetProjFree f ∧ LetProjFree a
  | .letE _ _ _ => False
  | .ifE c t e => LetProjFree c ∧ LetProjFree t ∧ LetProjFree e
  | .lt a b => LetProjFree a ∧ LetProjFree b
  | .fcons _ e rest => LetProjFree e ∧ LetProjFree rest
  | .rcd f => LetProjFree f
  | .proj _ _ => False
  | .asnoc i e => LetProjFree i ∧ LetProjFree e
  | _ => True

/-- the outcome of a complete run: out of fuel, or success with a type of which the given typing
    is an instance, all invariants re-established -/
def CRes (Γ : Env) (e : Expr) (S : Subst) (n : Nat) (R : Subst) (τ' : Ty) : Prop :=
  infer false Γ e S n = .error .fuel ∨
  ∃ τ S' n' E' R', infer false Γ e S n = .ok (τ, S', n') ∧ Inv S' E' ∧ Sol R' E' ∧
    BelowE n' E' ∧ n ≤ n' ∧ Below n' τ ∧ Agree n R' R ∧ τ.subst R' = τ'

def CompleteAt (e : Expr) : Prop :=
  ∀ (Γ : Env) (S : Subst) (n : Nat) (E : Eqs) (R : Subst) (Δ : SEnv) (τ' : Ty),
    LetProjFree e → Inv S E → Sol R E → BelowE n E → BelowΓ n Γ → EnvC Δ Γ R →
    HasType Δ e τ' → CRes Γ e S n R τ'

theorem below_closed {n : Nat} {t : Ty} (h : t.ftv = []) : Below n t := by
  intro v hv; rw [h] at hv; cases hv

theorem agree_refl (n : Nat) (R : Subst) : Agree n R R := fun _ _ => rfl

theorem complete_var (x : String) : CompleteAt (.var x) := by
  intro Γ S n E R Δ τ' _ hi hR hbE hbΓ hΔ hty
  cases hty with
  | var _ _ P _ hl hp =>
    obtain ⟨s, hlk, hv, hP, y, hm⟩ := envC_lookup Δ Γ R x P hΔ hl
    have hinf : infer false Γ (.var x) S n = .ok (s.ty, S, n) := by
      simp only [infer, hlk, inst_mono_vars s n hv]
    exact Or.inr ⟨_, _, _, E, R, hinf, hi, hR, hbE, Nat.le_refl _, hbΓ (y, s) hm, agree_refl n R,
      (hP τ' hp).symm⟩

theorem complete_lam (x : String) (b : Expr) (ih : CompleteAt b) : CompleteAt (.lam x b) := by
  intro Γ S n E R Δ τ' hfr hi hR hbE hbΓ hΔ hty
  cases hty with
  | lam _ _ _ a τb hb =>
    have hag₀ : Agree n (upd R n a) R := upd_agree R n a
    have hΔ' : EnvC ((x, fun t => t = a) :: Δ) ((x, Scheme.mono (.var n)) :: Γ) (upd R n a) := by
      simp only [EnvC]
      refine ⟨trivial, rfl, ?_, envC_agree Δ Γ R _ n hbΓ hag₀ hΔ⟩
      intro τ hτ
      rw [hτ]
      simp [Scheme.mono, Ty.subst, upd]
    have hbΓ' : BelowΓ (n + 1) ((x, Scheme.mono (.var n)) :: Γ) := by
      intro p hp
      cases hp with
      | head => intro v hv; simp [Scheme.mono, Ty.ftv] at hv; omega
      | tail _ hp => exact below_mono (Nat.le_succ n) (hbΓ p hp)
    rcases ih _ S (n + 1) E (upd R n a) _ τb hfr hi (sol_agree hbE hag₀ hR)
      (belowE_mono (Nat.le_succ n) hbE) hbΓ' hΔ' hb with h₁ | ⟨τ₀, S', n', E', R', h₁, hi', hR', hbE', hn', hbτ, hag, heq⟩
    · exact Or.inl (by simp only [infer, h₁])
    · have hinf : infer false Γ (.lam x b) S n = .ok (fn (.var n) τ₀, S', n') := by
        simp only [infer, h₁]
      refine Or.inr ⟨_, _, _, E', R', hinf, hi', hR', hbE', by omega, ?_, ?_, ?_⟩
      · intro v hv
        simp only [fn, Ty.ftv, List.mem_append, List.mem_singleton, List.nil_append] at hv
        rcases hv with hv | hv
        · omega
        · exact hbτ v hv
      · exact agree_trans (agree_mono (Nat.le_succ n) hag) hag₀
      · have : R' n = a := by rw [hag n (Nat.lt_succ_self n)]; exact upd_self R n a
        simp only [fn, Ty.subst, this, heq]

theorem complete_app (f a : Expr) (ihf : CompleteAt f) (iha : CompleteAt a) :
    CompleteAt (.app f a) := by
  intro Γ S n E R Δ τ' hfr hi hR hbE hbΓ hΔ hty
  cases hty with
  | app _ _ _ ta _ htf hta =>
    rcases ihf Γ S n E R Δ _ hfr.1 hi hR hbE hbΓ hΔ htf with
      h₁ | ⟨τf, S₁, n₁, E₁, R₁, h₁, hi₁, hR₁, hbE₁, hn₁, hbτf, hag₁, heq₁⟩
    · exact Or.inl (by simp only [infer, h₁])
    rcases iha Γ S₁ n₁ E₁ R₁ Δ _ hfr.2 hi₁ hR₁ hbE₁ (belowΓ_mono hn₁ hbΓ)
      (envC_agree Δ Γ R R₁ n hbΓ hag₁ hΔ) hta with
      h₂ | ⟨τa, S₂, n₂, E₂, R₂, h₂, hi₂, hR₂, hbE₂, hn₂, hbτa, hag₂, heq₂⟩
    · exact Or.inl (by simp only [infer, h₁, h₂])
    -- extend the solution on the fresh result variable
    have hag₃ : Agree n₂ (upd R₂ n₂ τ') R₂ := upd_agree R₂ n₂ τ'
    have hbτf₂ : Below n₂ τf := below_mono hn₂ hbτf
    have hab : τf.subst (upd R₂ n₂ τ') = (fn τa (.var n₂)).subst (upd R₂ n₂ τ') := by
      rw [subst_agree hbτf₂ hag₃, subst_agree hbτf hag₂, heq₁]
      simp only [fn, Ty.subst, upd_self]
      rw [subst_agree hbτa hag₃, heq₂]
    rcases unifyS_complete S₂ (n₂ + 1) τf (fn τa (.var n₂)) E₂ (upd R₂ n₂ τ') hi₂
      (sol_agree hbE₂ hag₃ hR₂) hab with h₃ | ⟨S₃, h₃, hi₃⟩
    · exact Or.inl (by simp only [infer, h₁, h₂, h₃])
    have hinf : infer false Γ (.app f a) S n = .ok (.var n₂, S₃, n₂ + 1) := by
      simp only [infer, h₁, h₂, h₃]
    refine Or.inr ⟨_, _, _, _, upd R₂ n₂ τ', hinf, hi₃,
      sol_cons hab (sol_agree hbE₂ hag₃ hR₂), ?_, by omega, ?_, ?_, ?_⟩
    · apply belowE_cons (below_mono (Nat.le_succ _) hbτf₂) _ (belowE_mono (Nat.le_succ _) hbE₂)
      intro v hv
      simp only [fn, Ty.ftv, List.mem_append, List.mem_singleton, List.nil_append] at hv
      rcases hv with hv | hv
      · exact Nat.lt_succ_of_lt (hbτa v hv)
      · omega
    · intro v hv; simp only [Ty.ftv, List.mem_singleton] at hv; omega
    · exact agree_trans (agree_mono (by omega) hag₃)
        (agree_trans (agree_mono hn₁ hag₂) hag₁)
    · simp only [Ty.subst, upd_self]


theorem complete_lt (a b : Expr) (iha : CompleteAt a) (ihb : CompleteAt b) :
    CompleteAt (.lt a b) := by
  intro Γ S n E R Δ τ' hfr hi hR hbE hbΓ hΔ hty
  cases hty with
  | lt _ _ _ hta htb =>
    rcases iha Γ S n E R Δ _ hfr.1 hi hR hbE hbΓ hΔ hta with
      h₁ | ⟨τa, S₁, n₁, E₁, R₁, h₁, hi₁, hR₁, hbE₁, hn₁, hbτa, hag₁, heq₁⟩
    · exact Or.inl (by simp only [infer, h₁])
    have hab₁ : tInt.subst R₁ = τa.subst R₁ := by rw [heq₁]; rfl
    rcases unifyS_complete S₁ n₁ tInt τa E₁ R₁ hi₁ hR₁ hab₁ with h₂ | ⟨S₂, h₂, hi₂⟩
    · exact Or.inl (by simp only [infer, h₁, h₂])
    have hbE₂ : BelowE n₁ ((tInt, τa) :: E₁) := belowE_cons (below_closed rfl) hbτa hbE₁
    rcases ihb Γ S₂ n₁ _ R₁ Δ _ hfr.2 hi₂ (sol_cons hab₁ hR₁) hbE₂ (belowΓ_mono hn₁ hbΓ)
      (envC_agree Δ Γ R R₁ n hbΓ hag₁ hΔ) htb with
      h₃ | ⟨τb, S₃, n₃, E₃, R₃, h₃, hi₃, hR₃, hbE₃, hn₃, hbτb, hag₃, heq₃⟩
    · exact Or.inl (by simp only [infer, h₁, h₂, h₃])
    have hab₃ : tInt.subst R₃ = τb.subst R₃ := by rw [heq₃]; rfl
    rcases unifyS_complete S₃ n₃ tInt τb E₃ R₃ hi₃ hR₃ hab₃ with h₄ | ⟨S₄, h₄, hi₄⟩
    · exact Or.inl (by simp only [infer, h₁, h₂, h₃, h₄])
    have hinf : infer false Γ (.lt a b) S n = .ok (tBool, S₄, n₃) := by
      simp only [infer, h₁, h₂, h₃, h₄]
    exact Or.inr ⟨_, _, _, _, R₃, hinf, hi₄, sol_cons hab₃ hR₃,
      belowE_cons (below_closed rfl) hbτb hbE₃, by omega, below_closed rfl,
      agree_trans (agree_mono hn₁ hag₃) hag₁, rfl⟩

theorem complete_if (c t e : Expr) (ihc : CompleteAt c) (iht : CompleteAt t) (ihe : CompleteAt e) :
    CompleteAt (.ifE c t e) := by
  intro Γ S n E R Δ τ' hfr hi hR hbE hbΓ hΔ hty
  cases hty with
  | ifE _ _ _ _ _ htc htt hte =>
    rcases ihc Γ S n E R Δ _ hfr.1 hi hR hbE hbΓ hΔ htc with
      h₁ | ⟨τc, S₁, n₁, E₁, R₁, h₁, hi₁, hR₁, hbE₁, hn₁, hbτc, hag₁, heq₁⟩
    · exact Or.inl (by simp only [infer, h₁])
    have hab₁ : tBool.subst R₁ = τc.subst R₁ := by rw [heq₁]; rfl
    rcases unifyS_complete S₁ n₁ tBool τc E₁ R₁ hi₁ hR₁ hab₁ with h₂ | ⟨S₂, h₂, hi₂⟩
    · exact Or.inl (by simp only [infer, h₁, h₂])
    have hbE₂ : BelowE n₁ ((tBool, τc) :: E₁) := belowE_cons (below_closed rfl) hbτc hbE₁
    have hΔ₁ := envC_agree Δ Γ R R₁ n hbΓ hag₁ hΔ
    have hbΓ₁ := belowΓ_mono hn₁ hbΓ
    rcases iht Γ S₂ n₁ _ R₁ Δ _ hfr.2.1 hi₂ (sol_cons hab₁ hR₁) hbE₂ hbΓ₁ hΔ₁ htt with
      h₃ | ⟨τt, S₃, n₃, E₃, R₃, h₃, hi₃, hR₃, hbE₃, hn₃, hbτt, hag₃, heq₃⟩
    · exact Or.inl (by simp only [infer, h₁, h₂, h₃])
    rcases ihe Γ S₃ n₃ E₃ R₃ Δ _ hfr.2.2 hi₃ hR₃ hbE₃ (belowΓ_mono hn₃ hbΓ₁)
      (envC_agree Δ Γ R₁ R₃ n₁ hbΓ₁ hag₃ hΔ₁) hte with
      h₄ | ⟨τe, S₄, n₄, E₄, R₄, h₄, hi₄, hR₄, hbE₄, hn₄, hbτe, hag₄, heq₄⟩
    · exact Or.inl (by simp only [infer, h₁, h₂, h₃, h₄])
    have hτt₄ : τt.subst R₄ = τ' := by rw [subst_agree hbτt hag₄, heq₃]
    have hab₅ : τt.subst R₄ = τe.subst R₄ := by rw [hτt₄, heq₄]
    rcases unifyS_complete S₄ n₄ τt τe E₄ R₄ hi₄ hR₄ hab₅ with h₅ | ⟨S₅, h₅, hi₅⟩
    · exact Or.inl (by simp only [infer, h₁, h₂, h₃, h₄, h₅])
    have hinf : infer false Γ (.ifE c t e) S n = .ok (τt, S₅, n₄) := by
      simp only [infer, h₁, h₂, h₃, h₄, h₅]
    exact Or.inr ⟨_, _, _, _, R₄, hinf, hi₅, sol_cons hab₅ hR₄,
      belowE_cons (below_mono hn₄ hbτt) hbτe hbE₄, by omega, below_mono hn₄ hbτt,
      agree_trans (agree_mono (by omega) hag₄) (agree_trans (agree_mono hn₁ hag₃) hag₁), hτt₄⟩

theorem complete_fcons (l : String) (e rest : Expr) (ihe : CompleteAt e) (ihr : CompleteAt rest) :
    CompleteAt (.fcons l e rest) := by
  intro Γ S n E R Δ τ' hfr hi hR hbE hbΓ hΔ hty
  cases hty with
  | fcons _ _ _ _ τe ρ hte htr =>
    rcases ihe Γ S n E R Δ _ hfr.1 hi hR hbE hbΓ hΔ hte with
      h₁ | ⟨τ₁, S₁, n₁, E₁, R₁, h₁, hi₁, hR₁, hbE₁, hn₁, hbτ₁, hag₁, heq₁⟩
    · exact Or.inl (by simp only [infer, h₁])
    rcases ihr Γ S₁ n₁ E₁ R₁ Δ _ hfr.2 hi₁ hR₁ hbE₁ (belowΓ_mono hn₁ hbΓ)
      (envC_agree Δ Γ R R₁ n hbΓ hag₁ hΔ) htr with
      h₂ | ⟨ρ₂, S₂, n₂, E₂, R₂, h₂, hi₂, hR₂, hbE₂, hn₂, hbρ, hag₂, heq₂⟩
    · exact Or.inl (by simp only [infer, h₁, h₂])
    have hinf : infer false Γ (.fcons l e rest) S n = .ok (.ext l τ₁ ρ₂, S₂, n₂) := by
      simp only [infer, h₁, h₂]
    refine Or.inr ⟨_, _, _, E₂, R₂, hinf, hi₂, hR₂, hbE₂, by omega, ?_,
      agree_trans (agree_mono hn₁ hag₂) hag₁, ?_⟩
    · intro v hv
      simp only [Ty.ftv, List.mem_append] at hv
      rcases hv with hv | hv
      · exact Nat.lt_of_lt_of_le (hbτ₁ v hv) hn₂
      · exact hbρ v hv
    · simp only [Ty.subst, subst_agree hbτ₁ hag₂, heq₁, heq₂]

theorem complete_rcd (f : Expr) (ih : CompleteAt f) : CompleteAt (.rcd f) := by
  intro Γ S n E R Δ τ' hfr hi hR hbE hbΓ hΔ hty
  cases hty with
  | rcd _ _ ρ htf =>
    rcases ih Γ S n E R Δ _ hfr hi hR hbE hbΓ hΔ htf with
      h₁ | ⟨ρ₁, S₁, n₁, E₁, R₁, h₁, hi₁, hR₁, hbE₁, hn₁, hbρ, hag₁, heq₁⟩
    · exact Or.inl (by simp only [infer, h₁])
    have hinf : infer false Γ (.rcd f) S n = .ok (tRec ρ₁, S₁, n₁) := by
      simp only [infer, h₁]
    refine Or.inr ⟨_, _, _, E₁, R₁, hinf, hi₁, hR₁, hbE₁, hn₁, ?_, hag₁, ?_⟩
    · intro v hv
      simp only [tRec, Ty.ftv, List.nil_append] at hv
      exact hbρ v hv
    · simp only [tRec, Ty.subst, heq₁]

theorem complete_asnoc (init e : Expr) (ihi : CompleteAt init) (ihe : CompleteAt e) :
    CompleteAt (.asnoc init e) := by
  intro Γ S n E R Δ τ' hfr hi hR hbE hbΓ hΔ hty
  cases hty with
  | asnoc _ _ _ τ₀ hti hte =>
    rcases ihi Γ S n E R Δ _ hfr.1 hi hR hbE hbΓ hΔ hti with
      h₁ | ⟨τi, S₁, n₁, E₁, R₁, h₁, hi₁, hR₁, hbE₁, hn₁, hbτi, hag₁, heq₁⟩
    · exact Or.inl (by simp only [infer, h₁])
    rcases ihe Γ S₁ n₁ E₁ R₁ Δ _ hfr.2 hi₁ hR₁ hbE₁ (belowΓ_mono hn₁ hbΓ)
      (envC_agree Δ Γ R R₁ n hbΓ hag₁ hΔ) hte with
      h₂ | ⟨τe, S₂, n₂, E₂, R₂, h₂, hi₂, hR₂, hbE₂, hn₂, hbτe, hag₂, heq₂⟩
    · exact Or.inl (by simp only [infer, h₁, h₂])
    have hτi₂ : τi.subst R₂ = tArr τ₀ := by rw [subst_agree hbτi hag₂, heq₁]
    have hab : τi.subst R₂ = (tArr τe).subst R₂ := by
      rw [hτi₂]; simp only [tArr, Ty.subst, heq₂]
    rcases unifyS_complete S₂ n₂ τi (tArr τe) E₂ R₂ hi₂ hR₂ hab with h₃ | ⟨S₃, h₃, hi₃⟩
    · exact Or.inl (by simp only [infer, h₁, h₂, h₃])
    have hinf : infer false Γ (.asnoc init e) S n = .ok (τi, S₃, n₂) := by
      simp only [infer, h₁, h₂, h₃]
    refine Or.inr ⟨_, _, _, _, R₂, hinf, hi₃, sol_cons hab hR₂,
      belowE_cons (below_mono hn₂ hbτi) ?_ hbE₂, by omega, below_mono hn₂ hbτi,
      agree_trans (agree_mono hn₁ hag₂) hag₁, hτi₂⟩
    intro v hv
    simp only [tArr, Ty.ftv, List.nil_append] at hv
    exact hbτe v hv

/-- Completeness and principality on the let-free, projection-free fragment, up to fuel. -/
theorem infer_complete_aux : ∀ e : Expr, CompleteAt e := by
  intro e
  induction e with
  | var x => exact complete_var x
  | lam x b ih => exact complete_lam x b ih
  | app f a ihf iha => exact complete_app f a ihf iha
  | letE x e b _ _ => intro Γ S n E R Δ τ' hfr; exact absurd hfr (by simp [LetProjFree])
  | int k =>
    intro Γ S n E R Δ τ' _ hi hR hbE _ _ hty
    cases hty
    exact Or.inr ⟨tInt, S, n, E, R, by simp only [infer], hi, hR, hbE, Nat.le_refl _,
      below_closed rfl, agree_refl n R, rfl⟩
  | str k =>
    intro Γ S n E R Δ τ' _ hi hR hbE _ _ hty
    cases hty
    exact Or.inr ⟨tString, S, n, E, R, by simp only [infer], hi, hR, hbE, Nat.le_refl _,
      below_closed rfl, agree_refl n R, rfl⟩
  | ifE c t e ihc iht ihe => exact complete_if c t e ihc iht ihe
  | lt a b iha ihb => exact complete_lt a b iha ihb
  | fnil =>
    intro Γ S n E R Δ τ' _ hi hR hbE _ _ hty
    cases hty
    exact Or.inr ⟨.empty, S, n, E, R, by simp only [infer], hi, hR, hbE, Nat.le_refl _,
      below_closed rfl, agree_refl n R, rfl⟩
  | fcons l e rest ihe ihr => exact complete_fcons l e rest ihe ihr
  | rcd f ih => exact complete_rcd f ih
  | proj e l _ => intro Γ S n E R Δ τ' hfr; exact absurd hfr (by simp [LetProjFree])
  | anil =>
    intro Γ S n E R Δ τ' _ hi hR hbE _ _ hty
    cases hty with
    | anil _ τ₀ =>
      have hag : Agree n (upd R n τ₀) R := upd_agree R n τ₀
      refine Or.inr ⟨tArr (.var n), S, n + 1, E, upd R n τ₀, by simp only [infer], hi, sol_agree hbE hag hR,
        belowE_mono (Nat.le_succ n) hbE, Nat.le_succ n, ?_, hag, ?_⟩
      · intro v hv; simp only [tArr, Ty.ftv, List.nil_append, List.mem_singleton] at hv; omega
      · simp only [tArr, Ty.subst, upd_self]
  | asnoc init e ihi ihe => exact complete_asnoc init e ihi ihe
  | conA =>
    intro Γ S n E R Δ τ' _ hi hR hbE _ _ hty
    cases hty with
    | conA _ τ₀ =>
      have hag : Agree n (upd R n τ₀) R := upd_agree R n τ₀
      refine Or.inr ⟨fn (.var n) (tT (.var n)), S, n + 1, E, upd R n τ₀, by simp only [infer], hi, sol_agree hbE hag hR,
        belowE_mono (Nat.le_succ n) hbE, Nat.le_succ n, ?_, hag, ?_⟩
      · intro v hv
        simp only [fn, tT, Ty.ftv, List.nil_append, List.mem_append, List.mem_singleton] at hv
        omega
      · simp only [fn, tT, Ty.subst, upd_self]
  | conB =>
    intro Γ S n E R Δ τ' _ hi hR hbE _ _ hty
    cases hty with
    | conB _ τ₀ =>
      have hag : Agree n (upd R n τ₀) R := upd_agree R n τ₀
      refine Or.inr ⟨tT (.var n), S, n + 1, E, upd R n τ₀, by simp only [infer], hi, sol_agree hbE hag hR,
        belowE_mono (Nat.le_succ n) hbE, Nat.le_succ n, ?_, hag, ?_⟩
      · intro v hv; simp only [tT, Ty.ftv, List.nil_append, List.mem_singleton] at hv; omega
      · simp only [tT, Ty.subst, upd_self]

/-- Closed programs of the fragment: every declarative typing is an instance of the type `infer`
    reports — unless the constant unification fuel runs out, which is a distinct answer. -/
theorem infer_complete_principal_closed (e : Expr) (τ' : Ty) (hfr : LetProjFree e)
    (h : HasType [] e τ') :
    infer false [] e Subst.id 0 = .error .fuel ∨
    ∃ τ S n', infer false [] e Subst.id 0 = .ok (τ, S, n') ∧ ∃ Q : Subst, τ' = (τ.subst S).subst Q := by
  rcases infer_complete_aux e [] Subst.id 0 [] Subst.id [] τ' hfr inv_nil
    (fun p hp => by cases hp) (fun p hp => by cases hp) (fun p hp => by cases hp) trivial h with
    h₁ | ⟨τ, S', n', E', R', h₁, hi', hR', _, _, _, _, heq⟩
  · exact Or.inl h₁
  · refine Or.inr ⟨τ, S', n', h₁, R', ?_⟩
    rw [inv_absorb S' E' hi' R' hR' τ, heq]

end GluonModel.HM.Proofs
