/-
C03 — completeness and principality of `infer` (syntactic rows) on the projection-free ML
fragment: var, lam, app, LET WITH GENERALISATION, literals, `#Int<`, if, record/tuple literals,
arrays, constructors.  Stated for `inferF` (the fuel-parametrised copy of `infer`, `HMFuel.lean`):
a typable program is accepted for EVERY sufficiently large unification fuel, with a type of which
every typing is an instance.

On top of the invariant of `HMSound` (`Inv S E`: the threaded substitution is a most general
solution of the equations so far) this needs the FRESHNESS invariant: every type variable of the
environment, of the equations and of the types returned so far is below the counter, so a solution
can be extended on the new variables without disturbing anything.
-/
import GluonModel.HM
import GluonModel.Proofs.HM
import GluonModel.Proofs.HMTerm
import GluonModel.Proofs.HMFuel
import GluonModel.Proofs.HMSound

namespace GluonModel.HM.Proofs
open GluonModel.HM

/-! ### the counter is not moved by syntactic unification -/

theorem bindVar_counter (a : Nat) (t : Ty) (n n' : Nat) (σ : Subst)
    (h : bindVar a t n = .ok (σ, n')) : n' = n := by
  unfold bindVar at h
  split at h
  · injection h with h; injection h with _ h₂; exact h₂.symm
  · split at h
    · cases h
    · injection h with h; injection h with _ h₂; exact h₂.symm

theorem unify_counter : ∀ (fuel n : Nat) (s t : Ty) (σ : Subst) (n' : Nat),
    unify false fuel n s t = .ok (σ, n') → n' = n := by
  intro fuel
  induction fuel with
  | zero => intro n s t σ n' h; simp [unify] at h
  | succ fuel ih =>
    intro n s t σ n' h
    have two : ∀ (f g a b : Ty), twoStep fuel n f g a b = .ok (σ, n') → n' = n := by
      intro f g a b h
      unfold twoStep at h
      split at h
      · cases h
      · next σ₁ n₁ h₁ =>
        split at h
        · cases h
        · next σ₂ n₂ h₂ =>
          injection h with h; injection h with _ hn
          have e₁ := ih n f g σ₁ n₁ h₁
          have e₂ := ih n₁ _ _ σ₂ n₂ h₂
          omega
    have idc : ∀ m, (Except.ok (Subst.id, m) : Except UErr (Subst × Nat)) = .ok (σ, n') → n' = m := by
      intro m h; injection h with h; injection h with _ h₂; exact h₂.symm
    cases s with
    | var a => simp only [unify] at h; exact bindVar_counter a t n n' σ h
    | con c =>
      cases t with
      | var b => simp only [unify] at h; exact bindVar_counter b _ n n' σ h
      | con d =>
        simp only [unify] at h
        split at h
        · exact idc n h
        · cases h
      | app _ _ => simp [unify] at h
      | ext _ _ _ => simp [unify] at h
      | empty => simp [unify] at h
    | empty =>
      cases t with
      | var b => simp only [unify] at h; exact bindVar_counter b _ n n' σ h
      | empty => simp only [unify] at h; exact idc n h
      | con _ => simp [unify] at h
      | app _ _ => simp [unify] at h
      | ext _ _ _ => simp [unify] at h
    | app f a =>
      cases t with
      | var b => simp only [unify] at h; exact bindVar_counter b _ n n' σ h
      | app g b => rw [unify_app_app] at h; exact two f g a b h
      | con _ => simp [unify] at h
      | ext _ _ _ => simp [unify] at h
      | empty => simp [unify] at h
    | ext l a r =>
      cases t with
      | var b => simp only [unify] at h; exact bindVar_counter b _ n n' σ h
      | ext l' a' r' =>
        rw [unify_ext_ext] at h
        split at h
        · exact two a a' r r' h
        · cases h
      | con _ => simp [unify] at h
      | app _ _ => simp [unify] at h
      | empty => simp [unify] at h

/-! ### freshness -/

def Below (n : Nat) (t : Ty) : Prop := ∀ v, v ∈ t.ftv → v < n
def BelowE (n : Nat) (E : Eqs) : Prop := ∀ p, p ∈ E → Below n p.1 ∧ Below n p.2
def BelowΓ (n : Nat) (Γ : Env) : Prop := ∀ p, p ∈ Γ → Below n p.2.ty

/-- two substitutions agree below `n` -/
def Agree (n : Nat) (R' R : Subst) : Prop := ∀ v, v < n → R' v = R v

theorem below_mono {n m : Nat} (h : n ≤ m) {t : Ty} (ht : Below n t) : Below m t :=
  fun v hv => Nat.lt_of_lt_of_le (ht v hv) h

theorem belowE_mono {n m : Nat} (h : n ≤ m) {E : Eqs} (hE : BelowE n E) : BelowE m E :=
  fun p hp => ⟨below_mono h (hE p hp).1, below_mono h (hE p hp).2⟩

theorem belowΓ_mono {n m : Nat} (h : n ≤ m) {Γ : Env} (hΓ : BelowΓ n Γ) : BelowΓ m Γ :=
  fun p hp => below_mono h (hΓ p hp)

theorem agree_mono {n m : Nat} (h : n ≤ m) {R' R : Subst} (ha : Agree m R' R) : Agree n R' R :=
  fun v hv => ha v (Nat.lt_of_lt_of_le hv h)

theorem agree_trans {n : Nat} {R₂ R₁ R : Subst} (h₂ : Agree n R₂ R₁) (h₁ : Agree n R₁ R) :
    Agree n R₂ R := fun v hv => (h₂ v hv).trans (h₁ v hv)

theorem subst_agree {n : Nat} {R' R : Subst} {t : Ty} (ht : Below n t) (ha : Agree n R' R) :
    t.subst R' = t.subst R :=
  subst_congr_ftv R' R t (fun v hv => ha v (ht v hv))

theorem sol_agree {n : Nat} {R' R : Subst} {E : Eqs} (hE : BelowE n E) (ha : Agree n R' R)
    (h : Sol R E) : Sol R' E := by
  intro p hp
  rw [subst_agree (hE p hp).1 ha, subst_agree (hE p hp).2 ha]
  exact h p hp

theorem sol_cons {R : Subst} {a b : Ty} {E : Eqs} (hab : a.subst R = b.subst R) (h : Sol R E) :
    Sol R ((a, b) :: E) := by
  intro p hp
  cases hp with
  | head => exact hab
  | tail _ hp => exact h p hp

theorem belowE_cons {n : Nat} {a b : Ty} {E : Eqs} (ha : Below n a) (hb : Below n b)
    (h : BelowE n E) : BelowE n ((a, b) :: E) := by
  intro p hp
  cases hp with
  | head => exact ⟨ha, hb⟩
  | tail _ hp => exact h p hp

/-- change a substitution at one variable -/
def upd (R : Subst) (k : Nat) (t : Ty) : Subst := fun v => if v = k then t else R v

theorem upd_agree (R : Subst) (k : Nat) (t : Ty) : Agree k (upd R k t) R := by
  intro v hv
  simp [upd, Nat.ne_of_lt hv]

theorem upd_self (R : Subst) (k : Nat) (t : Ty) : upd R k t k = t := by simp [upd]

theorem below_closed {n : Nat} {t : Ty} (h : t.ftv = []) : Below n t := by
  intro v hv; rw [h] at hv; cases hv

theorem agree_refl (n : Nat) (R : Subst) : Agree n R R := fun _ _ => rfl

/-! ### the range of the threaded substitution stays below the counter -/

/-- below every counter from `n` on, `S` maps variables below the counter to types below it
    (so `S` is the identity from `n` on, and its range on the old variables is below `n`) -/
def BelowS (n : Nat) (S : Subst) : Prop := ∀ m, n ≤ m → ∀ v, v < m → Below m (S v)

theorem belowS_id (n : Nat) : BelowS n Subst.id := by
  intro m _ v hv x hx
  simp only [Subst.id, Ty.ftv, List.mem_singleton] at hx
  omega

theorem belowS_mono {n m : Nat} (h : n ≤ m) {S : Subst} (hS : BelowS n S) : BelowS m S :=
  fun k hk => hS k (Nat.le_trans h hk)

theorem below_subst {n : Nat} {S : Subst} {t : Ty} (hS : BelowS n S) (ht : Below n t) :
    Below n (t.subst S) := by
  intro x hx
  obtain ⟨w, hw, hxw⟩ := (mem_ftv_subst S x t).1 hx
  exact hS n (Nat.le_refl _) w (ht w hw) x hxw

theorem unifySF_belowS (fuel : Nat) (S : Subst) (n : Nat) (a b : Ty) (S' : Subst) (n' : Nat)
    (hS : BelowS n S) (ha : Below n a) (hb : Below n b)
    (h : unifySF false fuel S n a b = .ok (S', n')) : BelowS n S' := by
  unfold unifySF at h
  split at h
  · cases h
  · next U n₁ hu =>
    injection h with h; injection h with hS' _
    subst hS'
    have hr := (unify_inv fuel n _ _ U n₁ ((a.subst S).ftv ++ (b.subst S).ftv) hu
      (fun x hx => List.mem_append.2 (Or.inl hx)) (fun x hx => List.mem_append.2 (Or.inr hx))).1
    have hV : ∀ x, x ∈ (a.subst S).ftv ++ (b.subst S).ftv → x < n := by
      intro x hx
      rcases List.mem_append.1 hx with hx | hx
      · exact below_subst hS ha x hx
      · exact below_subst hS hb x hx
    intro m hm v hv x hx
    obtain ⟨w, hw, hxw⟩ := (mem_ftv_subst U x (S v)).1 hx
    have hwm : w < m := hS m hm v hv w hw
    rcases hr w x hxw with h | h
    · omega
    · exact Nat.lt_of_lt_of_le (hV x h) hm

/-! ### substitutions that agree on a type -/

theorem subst_eq_ftv (σ τ : Subst) (t : Ty) (h : t.subst σ = t.subst τ) :
    ∀ v, v ∈ t.ftv → σ v = τ v := by
  induction t with
  | var n =>
    intro v hv
    simp only [Ty.ftv, List.mem_singleton] at hv
    subst hv
    exact h
  | con c => intro v hv; cases hv
  | empty => intro v hv; cases hv
  | app f a ihf iha =>
    simp only [Ty.subst] at h
    injection h with h₁ h₂
    intro v hv
    simp only [Ty.ftv, List.mem_append] at hv
    rcases hv with hv | hv
    · exact ihf h₁ v hv
    · exact iha h₂ v hv
  | ext l t r iht ihr =>
    simp only [Ty.subst] at h
    injection h with _ h₁ h₂
    intro v hv
    simp only [Ty.ftv, List.mem_append] at hv
    rcases hv with hv | hv
    · exact iht h₁ v hv
    · exact ihr h₂ v hv

/-! ### environments of schemes: every declared type of a variable is an instance of its scheme -/

def EnvC : SEnv → Env → Subst → Prop
  | [], [], _ => True
  | (x, P) :: Δ, (y, s) :: Γ, R => x = y ∧ (∀ τ, P τ → Den s R τ) ∧ EnvC Δ Γ R
  | _, _, _ => False

theorem envC_lookup : ∀ (Δ : SEnv) (Γ : Env) (R : Subst) (x : String) (P : Ty → Prop),
    EnvC Δ Γ R → slookup x Δ = some P →
    ∃ s, lookup x Γ = some s ∧ (∀ τ, P τ → Den s R τ) ∧ ∃ y, (y, s) ∈ Γ := by
  intro Δ
  induction Δ with
  | nil => intro Γ R x P _ h; simp [slookup] at h
  | cons q Δ ih =>
    intro Γ R x P hrel h
    obtain ⟨z, Q⟩ := q
    cases Γ with
    | nil => simp [EnvC] at hrel
    | cons p Γ =>
      obtain ⟨y, s⟩ := p
      simp only [EnvC] at hrel
      obtain ⟨hzy, hP, hrest⟩ := hrel
      subst hzy
      simp only [slookup] at h
      simp only [lookup]
      split at h
      · next hx =>
        injection h with h; subst h
        exact ⟨s, by simp [hx], hP, z, List.mem_cons_self ..⟩
      · next hx =>
        simp only [hx, if_false]
        obtain ⟨s', hl, hP', y', hm⟩ := ih Γ R x P hrest h
        exact ⟨s', hl, hP', y', List.mem_cons_of_mem _ hm⟩

theorem den_agree {n : Nat} {s : Scheme} {R R' : Subst} {τ : Ty} (hs : Below n s.ty)
    (ha : Agree n R' R) (h : Den s R τ) : Den s R' τ := by
  obtain ⟨R₀, hR₀, hτ⟩ := h
  exact ⟨R₀, fun v hv hnv => (hR₀ v hv hnv).trans (ha v (hs v hv)).symm, hτ⟩

theorem envC_agree : ∀ (Δ : SEnv) (Γ : Env) (R R' : Subst) (n : Nat),
    BelowΓ n Γ → Agree n R' R → EnvC Δ Γ R → EnvC Δ Γ R' := by
  intro Δ
  induction Δ with
  | nil => intro Γ R R' n _ _ h; cases Γ <;> simp_all [EnvC]
  | cons q Δ ih =>
    intro Γ R R' n hb ha hrel
    obtain ⟨z, Q⟩ := q
    cases Γ with
    | nil => simp [EnvC] at hrel
    | cons p Γ =>
      obtain ⟨y, s⟩ := p
      simp only [EnvC] at hrel ⊢
      obtain ⟨hzy, hP, hrest⟩ := hrel
      exact ⟨hzy, fun τ hτ => den_agree (hb (y, s) (List.mem_cons_self ..)) ha (hP τ hτ),
        ih Γ R R' n (fun p hp => hb p (List.mem_cons_of_mem _ hp)) ha hrest⟩

/-! ### instantiation of a scheme with a block of fresh variables -/

/-- the renaming `inst` applies -/
def instSub (s : Scheme) (n : Nat) : Subst := fun v =>
  match indexOf v s.vars 0 with
  | some i => .var (n + i)
  | none => .var v

theorem inst_fst (s : Scheme) (n : Nat) : (inst s n).1 = s.ty.subst (instSub s n) := rfl
theorem inst_snd (s : Scheme) (n : Nat) : (inst s n).2 = n + s.vars.length := rfl

theorem indexOf_some (v : Nat) : ∀ (vs : List Nat) (k i : Nat), indexOf v vs k = some i →
    k ≤ i ∧ i < k + vs.length ∧ vs.getD (i - k) 0 = v := by
  intro vs
  induction vs with
  | nil => intro k i h; simp [indexOf] at h
  | cons w rest ih =>
    intro k i h
    simp only [indexOf] at h
    split at h
    · next hvw =>
      injection h with h
      subst h
      simp [hvw]
    · obtain ⟨h₁, h₂, h₃⟩ := ih (k + 1) i h
      refine ⟨by omega, by simp only [List.length_cons]; omega, ?_⟩
      have : i - k = (i - (k + 1)) + 1 := by omega
      rw [this, List.getD_cons_succ]
      exact h₃

theorem indexOf_none_not_mem (v : Nat) : ∀ (vs : List Nat) (k : Nat), indexOf v vs k = none → v ∉ vs := by
  intro vs
  induction vs with
  | nil => intro k _ h; cases h
  | cons w rest ih =>
    intro k h
    simp only [indexOf] at h
    split at h
    · cases h
    · next hvw =>
      intro hm
      cases hm with
      | head => exact hvw rfl
      | tail _ hm => exact ih (k + 1) h hm

/-- a solution extended on the block `n … n + |vars|` by the instance `R₀` of the quantified variables -/
def updBlock (R : Subst) (n : Nat) (vs : List Nat) (R₀ : Subst) : Subst := fun w =>
  if n ≤ w ∧ w < n + vs.length then R₀ (vs.getD (w - n) 0) else R w

theorem updBlock_agree (R : Subst) (n : Nat) (vs : List Nat) (R₀ : Subst) :
    Agree n (updBlock R n vs R₀) R := by
  intro v hv
  have : ¬ (n ≤ v ∧ v < n + vs.length) := by omega
  simp only [updBlock, this, if_false]

theorem inst_below (s : Scheme) (n : Nat) (hs : Below n s.ty) :
    Below (n + s.vars.length) (inst s n).1 := by
  intro x hx
  rw [inst_fst] at hx
  obtain ⟨w, hw, hxw⟩ := (mem_ftv_subst _ x s.ty).1 hx
  unfold instSub at hxw
  cases hidx : indexOf w s.vars 0 with
  | none =>
    rw [hidx] at hxw
    simp only [Ty.ftv, List.mem_singleton] at hxw
    have := hs w hw
    omega
  | some i =>
    rw [hidx] at hxw
    simp only [Ty.ftv, List.mem_singleton] at hxw
    have := (indexOf_some w s.vars 0 i hidx).2.1
    omega

/-- the instance `R₀` of the scheme is what the extended solution makes of `inst s n` -/
theorem inst_updBlock (s : Scheme) (n : Nat) (R R₀ : Subst) (hs : Below n s.ty)
    (hR₀ : ∀ v, v ∈ s.ty.ftv → v ∉ s.vars → R₀ v = R v) :
    (inst s n).1.subst (updBlock R n s.vars R₀) = s.ty.subst R₀ := by
  rw [inst_fst, ← subst_comp]
  apply subst_congr_ftv
  intro v hv
  show (instSub s n v).subst (updBlock R n s.vars R₀) = R₀ v
  unfold instSub
  cases hidx : indexOf v s.vars 0 with
  | none =>
    have hlt := hs v hv
    have : ¬ (n ≤ v ∧ v < n + s.vars.length) := by omega
    simp only [Ty.subst, updBlock, this, if_false]
    exact (hR₀ v hv (indexOf_none_not_mem v s.vars 0 hidx)).symm
  | some i =>
    obtain ⟨_, h₂, h₃⟩ := indexOf_some v s.vars 0 i hidx
    have : n ≤ n + i ∧ n + i < n + s.vars.length := by omega
    simp only [Ty.subst, updBlock, this, and_self, if_true]
    have e : n + i - n = i := by omega
    rw [e]
    simpa using congrArg R₀ h₃

/-! ### one unification step: for every sufficiently large fuel -/

theorem unifySF_complete (S : Subst) (n : Nat) (a b : Ty) (E : Eqs) (R : Subst)
    (hi : Inv S E) (hR : Sol R E) (hab : a.subst R = b.subst R)
    (hS : BelowS n S) (ha : Below n a) (hb : Below n b) :
    ∃ S' N, (∀ fuel, N ≤ fuel → unifySF false fuel S n a b = .ok (S', n)) ∧
      Inv S' ((a, b) :: E) ∧ BelowS n S' := by
  obtain ⟨N, r, hr, hall⟩ := unify_total n (a.subst S) (b.subst S)
  match r, hr, hall with
  | .error e, hr, hall =>
    exfalso
    have he : e ≠ .fuel := fun h => hr (by rw [h])
    apply unify_error_no_unifier N n _ _ R e he (hall N (Nat.le_refl _))
    rw [inv_absorb S E hi R hR a, inv_absorb S E hi R hR b]
    exact hab
  | .ok (U, n'), _, hall =>
    have hn : n' = n := unify_counter N n _ _ U n' (hall N (Nat.le_refl _))
    subst hn
    have hu : ∀ fuel, N ≤ fuel → unifySF false fuel S n' a b = .ok (U.comp S, n') := by
      intro fuel hf
      simp only [unifySF, hall fuel hf]
    exact ⟨U.comp S, N, hu, unifySF_inv N S n' a b _ n' E (hu N (Nat.le_refl _)) hi,
      unifySF_belowS N S n' a b _ n' hS ha hb (hu N (Nat.le_refl _))⟩

theorem unifyS_complete (S : Subst) (n : Nat) (a b : Ty) (E : Eqs) (R : Subst)
    (hi : Inv S E) (hR : Sol R E) (hab : a.subst R = b.subst R) :
    unifyS false S n a b = .error .fuel ∨
      ∃ S', unifyS false S n a b = .ok (S', n) ∧ Inv S' ((a, b) :: E) := by
  cases hu : unifyS false S n a b with
  | error e =>
    by_cases he : e = .fuel
    · left; rw [he]
    · exfalso
      unfold unifyS at hu
      split at hu
      · next e' hu' =>
        injection hu with hu; subst hu
        apply unify_error_no_unifier unifyFuel n _ _ R e' he hu'
        rw [inv_absorb S E hi R hR a, inv_absorb S E hi R hR b]
        exact hab
      · cases hu
  | ok q =>
    obtain ⟨S', n'⟩ := q
    right
    have hn : n' = n := by
      unfold unifyS at hu
      split at hu
      · cases hu
      · next U n₁ hu' =>
        injection hu with hu; injection hu with _ hn
        have := unify_counter unifyFuel n _ _ U n₁ hu'
        omega
    subst hn
    exact ⟨S', rfl, unifyS_inv S n' a b S' n' E hu hi⟩

/-! ### the fragment and the statement -/

/-- let-free and projection-free expressions (the fragment of round 4) -/
def LetProjFree : Expr → Prop
  | .lam _ b => LetProjFree b
  | .app f a => LetProjFree f ∧ LetProjFree a
  | .letE _ _ _ => False
  | .ifE c t e => LetProjFree c ∧ LetProjFree t ∧ LetProjFree e
  | .lt a b => LetProjFree a ∧ LetProjFree b
  | .fcons _ e rest => LetProjFree e ∧ LetProjFree rest
  | .rcd f => LetProjFree f
  | .proj _ _ => False
  | .asnoc i e => LetProjFree i ∧ LetProjFree e
  | _ => True

/-- the ML fragment: everything but field projection (`let` included) -/
def NoProj : Expr → Prop
  | .lam _ b => NoProj b
  | .app f a => NoProj f ∧ NoProj a
  | .letE _ e b => NoProj e ∧ NoProj b
  | .ifE c t e => NoProj c ∧ NoProj t ∧ NoProj e
  | .lt a b => NoProj a ∧ NoProj b
  | .fcons _ e rest => NoProj e ∧ NoProj rest
  | .rcd f => NoProj f
  | .proj _ _ => False
  | .asnoc i e => NoProj i ∧ NoProj e
  | _ => True

theorem noProj_of_letProjFree : ∀ e : Expr, LetProjFree e → NoProj e := by
  intro e
  induction e with
  | lam x b ih => exact ih
  | app f a ihf iha => exact fun h => ⟨ihf h.1, iha h.2⟩
  | letE x e b _ _ => intro h; exact absurd h (by simp [LetProjFree])
  | ifE c t e ihc iht ihe => exact fun h => ⟨ihc h.1, iht h.2.1, ihe h.2.2⟩
  | lt a b iha ihb => exact fun h => ⟨iha h.1, ihb h.2⟩
  | fcons l e rest ihe ihr => exact fun h => ⟨ihe h.1, ihr h.2⟩
  | rcd f ih => exact ih
  | proj e l _ => intro h; exact absurd h (by simp [LetProjFree])
  | asnoc i e ihi ihe => exact fun h => ⟨ihi h.1, ihe h.2⟩
  | _ => intro _; trivial

/-- the outcome of a complete run: for every sufficiently large fuel, success with one and the same
    type, of which the given typing is an instance; all invariants re-established -/
def CRes (Γ : Env) (e : Expr) (S : Subst) (n : Nat) (R : Subst) (τ' : Ty) : Prop :=
  ∃ τ S' n' E' R' N, (∀ fuel, N ≤ fuel → inferF false fuel Γ e S n = .ok (τ, S', n')) ∧
    Inv S' E' ∧ Sol R' E' ∧ BelowE n' E' ∧ BelowS n' S' ∧ n ≤ n' ∧ Below n' τ ∧ Agree n R' R ∧
    τ.subst R' = τ'

def CompleteAt (e : Expr) : Prop :=
  ∀ (Γ : Env) (S : Subst) (n : Nat) (E : Eqs) (R : Subst) (Δ : SEnv) (τ' : Ty),
    NoProj e → Inv S E → Sol R E → BelowE n E → BelowS n S → BelowΓ n Γ → EnvC Δ Γ R →
    HasType Δ e τ' → CRes Γ e S n R τ'

theorem complete_var (x : String) : CompleteAt (.var x) := by
  intro Γ S n E R Δ τ' _ hi hR hbE hbS hbΓ hΔ hty
  cases hty with
  | var _ _ P _ hl hp =>
    obtain ⟨s, hlk, hP, y, hm⟩ := envC_lookup Δ Γ R x P hΔ hl
    obtain ⟨R₀, hR₀, hτ'⟩ := hP τ' hp
    have hs : Below n s.ty := hbΓ (y, s) hm
    have hag := updBlock_agree R n s.vars R₀
    have hle : n ≤ n + s.vars.length := Nat.le_add_right _ _
    refine ⟨(inst s n).1, S, n + s.vars.length, E, updBlock R n s.vars R₀, 0, ?_, hi,
      sol_agree hbE hag hR, belowE_mono hle hbE, belowS_mono hle hbS, hle, inst_below s n hs, hag, ?_⟩
    · intro fuel _
      simp only [inferF, hlk, inst_snd]
    · rw [inst_updBlock s n R R₀ hs hR₀, hτ']

theorem complete_lam (x : String) (b : Expr) (ih : CompleteAt b) : CompleteAt (.lam x b) := by
  intro Γ S n E R Δ τ' hfr hi hR hbE hbS hbΓ hΔ hty
  cases hty with
  | lam _ _ _ a τb hb =>
    have hag₀ : Agree n (upd R n a) R := upd_agree R n a
    have hΔ' : EnvC ((x, fun t => t = a) :: Δ) ((x, Scheme.mono (.var n)) :: Γ) (upd R n a) := by
      simp only [EnvC]
      refine ⟨trivial, ?_, envC_agree Δ Γ R _ n hbΓ hag₀ hΔ⟩
      intro τ hτ
      rw [hτ]
      exact ⟨upd R n a, fun _ _ _ => rfl, by simp [Scheme.mono, Ty.subst, upd]⟩
    have hbΓ' : BelowΓ (n + 1) ((x, Scheme.mono (.var n)) :: Γ) := by
      intro p hp
      cases hp with
      | head => intro v hv; simp [Scheme.mono, Ty.ftv] at hv; omega
      | tail _ hp => exact below_mono (Nat.le_succ n) (hbΓ p hp)
    obtain ⟨τ₀, S', n', E', R', N, h₁, hi', hR', hbE', hbS', hn', hbτ, hag, heq⟩ :=
      ih _ S (n + 1) E (upd R n a) _ τb hfr hi (sol_agree hbE hag₀ hR)
        (belowE_mono (Nat.le_succ n) hbE) (belowS_mono (Nat.le_succ n) hbS) hbΓ' hΔ' hb
    refine ⟨fn (.var n) τ₀, S', n', E', R', N, ?_, hi', hR', hbE', hbS', by omega, ?_, ?_, ?_⟩
    · intro fuel hf
      simp only [inferF, h₁ fuel hf]
    · intro v hv
      simp only [fn, Ty.ftv, List.mem_append, List.mem_singleton, List.nil_append] at hv
      rcases hv with hv | hv
      · omega
      · exact hbτ v hv
    · exact agree_trans (agree_mono (Nat.le_succ n) hag) hag₀
    · have : R' n = a := by rw [hag n (Nat.lt_succ_self n)]; exact upd_self R n a
      simp only [fn, Ty.subst, this, heq]

theorem complete_app (f a : Expr) (ihf : CompleteAt f) (iha : CompleteAt a) :
    CompleteAt (.app f a) := by
  intro Γ S n E R Δ τ' hfr hi hR hbE hbS hbΓ hΔ hty
  cases hty with
  | app _ _ _ ta _ htf hta =>
    obtain ⟨τf, S₁, n₁, E₁, R₁, N₁, h₁, hi₁, hR₁, hbE₁, hbS₁, hn₁, hbτf, hag₁, heq₁⟩ :=
      ihf Γ S n E R Δ _ hfr.1 hi hR hbE hbS hbΓ hΔ htf
    obtain ⟨τa, S₂, n₂, E₂, R₂, N₂, h₂, hi₂, hR₂, hbE₂, hbS₂, hn₂, hbτa, hag₂, heq₂⟩ :=
      iha Γ S₁ n₁ E₁ R₁ Δ _ hfr.2 hi₁ hR₁ hbE₁ hbS₁ (belowΓ_mono hn₁ hbΓ)
        (envC_agree Δ Γ R R₁ n hbΓ hag₁ hΔ) hta
    -- extend the solution on the fresh result variable
    have hag₃ : Agree n₂ (upd R₂ n₂ τ') R₂ := upd_agree R₂ n₂ τ'
    have hbτf₂ : Below n₂ τf := below_mono hn₂ hbτf
    have hab : τf.subst (upd R₂ n₂ τ') = (fn τa (.var n₂)).subst (upd R₂ n₂ τ') := by
      rw [subst_agree hbτf₂ hag₃, subst_agree hbτf hag₂, heq₁]
      simp only [fn, Ty.subst, upd_self]
      rw [subst_agree hbτa hag₃, heq₂]
    have hbfn : Below (n₂ + 1) (fn τa (.var n₂)) := by
      intro v hv
      simp only [fn, Ty.ftv, List.mem_append, List.mem_singleton, List.nil_append] at hv
      rcases hv with hv | hv
      · exact Nat.lt_succ_of_lt (hbτa v hv)
      · omega
    obtain ⟨S₃, N₃, h₃, hi₃, hbS₃⟩ := unifySF_complete S₂ (n₂ + 1) τf (fn τa (.var n₂)) E₂
      (upd R₂ n₂ τ') hi₂ (sol_agree hbE₂ hag₃ hR₂) hab (belowS_mono (Nat.le_succ _) hbS₂)
      (below_mono (Nat.le_succ _) hbτf₂) hbfn
    refine ⟨.var n₂, S₃, n₂ + 1, _, upd R₂ n₂ τ', N₁ + N₂ + N₃, ?_, hi₃,
      sol_cons hab (sol_agree hbE₂ hag₃ hR₂), ?_, hbS₃, by omega, ?_, ?_, ?_⟩
    · intro fuel hf
      simp only [inferF, h₁ fuel (by omega), h₂ fuel (by omega), h₃ fuel (by omega)]
    · exact belowE_cons (below_mono (Nat.le_succ _) hbτf₂) hbfn (belowE_mono (Nat.le_succ _) hbE₂)
    · intro v hv; simp only [Ty.ftv, List.mem_singleton] at hv; omega
    · exact agree_trans (agree_mono (by omega) hag₃)
        (agree_trans (agree_mono hn₁ hag₂) hag₁)
    · simp only [Ty.subst, upd_self]

theorem complete_let (x : String) (e b : Expr) (ihe : CompleteAt e) (ihb : CompleteAt b) :
    CompleteAt (.letE x e b) := by
  intro Γ S n E R Δ τ' hfr hi hR hbE hbS hbΓ hΔ hty
  cases hty with
  | letE _ _ _ _ P _ hne hall hb =>
    obtain ⟨τ₀, hp₀⟩ := hne
    obtain ⟨τ₁, S₁, n₁, E₁, R₁, N₁, h₁, hi₁, hR₁, hbE₁, hbS₁, hn₁, hbτ₁, hag₁, heq₁⟩ :=
      ihe Γ S n E R Δ τ₀ hfr.1 hi hR hbE hbS hbΓ hΔ (hall τ₀ hp₀)
    have hbσ : Below n₁ (generalize S₁ Γ τ₁).ty := below_subst hbS₁ hbτ₁
    have hΔ₁ : EnvC Δ Γ R₁ := envC_agree Δ Γ R R₁ n hbΓ hag₁ hΔ
    -- the generalised scheme denotes (at least) every type of the bound expression
    have hden : ∀ t, P t → Den (generalize S₁ Γ τ₁) R₁ t := by
      intro t ht
      obtain ⟨τ₁', S₁', n₁', E₁', R₁', N₁', h₁', hi₁', hR₁', _, _, _, _, hag₁', heq₁'⟩ :=
        ihe Γ S n E R Δ t hfr.1 hi hR hbE hbS hbΓ hΔ (hall t ht)
      have hsame := (h₁ (N₁ + N₁') (by omega)).symm.trans (h₁' (N₁ + N₁') (by omega))
      injection hsame with hsame
      injection hsame with e₁ hsame
      injection hsame with e₂ e₃
      subst e₁; subst e₂; subst e₃
      refine ⟨R₁', ?_, ?_⟩
      · intro v hv hnv
        have hvU : v ∈ Γ.ftvUnder S₁ := by
          apply Classical.byContradiction
          intro hno
          apply hnv
          simp only [generalize, List.mem_filter, List.mem_eraseDups]
          exact ⟨hv, by simpa using hno⟩
        simp only [Env.ftvUnder, List.mem_flatMap] at hvU
        obtain ⟨p, hp, u, hu, hvu⟩ := hvU
        have hu_lt : u < n := by
          apply hbΓ p hp u
          simp only [Scheme.ftv, List.mem_filter] at hu
          exact hu.1
        have : (S₁ u).subst R₁' = (S₁ u).subst R₁ := by
          rw [hi₁'.2 R₁' hR₁' u, hi₁.2 R₁ hR₁ u, hag₁' u hu_lt, hag₁ u hu_lt]
        exact subst_eq_ftv R₁' R₁ (S₁ u) this v hvu
      · rw [← heq₁']
        exact (inv_absorb S₁ E₁' hi₁' R₁' hR₁' τ₁).symm
    have hΔ' : EnvC ((x, P) :: Δ) ((x, generalize S₁ Γ τ₁) :: Γ) R₁ := by
      simp only [EnvC]
      exact ⟨trivial, hden, hΔ₁⟩
    have hbΓ' : BelowΓ n₁ ((x, generalize S₁ Γ τ₁) :: Γ) := by
      intro p hp
      cases hp with
      | head => exact hbσ
      | tail _ hp => exact below_mono hn₁ (hbΓ p hp)
    obtain ⟨τ, S₂, n₂, E₂, R₂, N₂, h₂, hi₂, hR₂, hbE₂, hbS₂, hn₂, hbτ, hag₂, heq₂⟩ :=
      ihb _ S₁ n₁ E₁ R₁ _ τ' hfr.2 hi₁ hR₁ hbE₁ hbS₁ hbΓ' hΔ' hb
    refine ⟨τ, S₂, n₂, E₂, R₂, N₁ + N₂, ?_, hi₂, hR₂, hbE₂, hbS₂, by omega, hbτ,
      agree_trans (agree_mono hn₁ hag₂) hag₁, heq₂⟩
    intro fuel hf
    simp only [inferF, h₁ fuel (by omega)]
    exact h₂ fuel (by omega)

theorem complete_lt (a b : Expr) (iha : CompleteAt a) (ihb : CompleteAt b) :
    CompleteAt (.lt a b) := by
  intro Γ S n E R Δ τ' hfr hi hR hbE hbS hbΓ hΔ hty
  cases hty with
  | lt _ _ _ hta htb =>
    obtain ⟨τa, S₁, n₁, E₁, R₁, N₁, h₁, hi₁, hR₁, hbE₁, hbS₁, hn₁, hbτa, hag₁, heq₁⟩ :=
      iha Γ S n E R Δ _ hfr.1 hi hR hbE hbS hbΓ hΔ hta
    have hab₁ : tInt.subst R₁ = τa.subst R₁ := by rw [heq₁]; rfl
    obtain ⟨S₂, N₂, h₂, hi₂, hbS₂⟩ := unifySF_complete S₁ n₁ tInt τa E₁ R₁ hi₁ hR₁ hab₁ hbS₁
      (below_closed rfl) hbτa
    have hbE₂ : BelowE n₁ ((tInt, τa) :: E₁) := belowE_cons (below_closed rfl) hbτa hbE₁
    obtain ⟨τb, S₃, n₃, E₃, R₃, N₃, h₃, hi₃, hR₃, hbE₃, hbS₃, hn₃, hbτb, hag₃, heq₃⟩ :=
      ihb Γ S₂ n₁ _ R₁ Δ _ hfr.2 hi₂ (sol_cons hab₁ hR₁) hbE₂ hbS₂ (belowΓ_mono hn₁ hbΓ)
        (envC_agree Δ Γ R R₁ n hbΓ hag₁ hΔ) htb
    have hab₃ : tInt.subst R₃ = τb.subst R₃ := by rw [heq₃]; rfl
    obtain ⟨S₄, N₄, h₄, hi₄, hbS₄⟩ := unifySF_complete S₃ n₃ tInt τb E₃ R₃ hi₃ hR₃ hab₃ hbS₃
      (below_closed rfl) hbτb
    refine ⟨tBool, S₄, n₃, _, R₃, N₁ + N₂ + N₃ + N₄, ?_, hi₄, sol_cons hab₃ hR₃,
      belowE_cons (below_closed rfl) hbτb hbE₃, hbS₄, by omega, below_closed rfl,
      agree_trans (agree_mono hn₁ hag₃) hag₁, rfl⟩
    intro fuel hf
    simp only [inferF, h₁ fuel (by omega), h₂ fuel (by omega), h₃ fuel (by omega), h₄ fuel (by omega)]

theorem complete_if (c t e : Expr) (ihc : CompleteAt c) (iht : CompleteAt t) (ihe : CompleteAt e) :
    CompleteAt (.ifE c t e) := by
  intro Γ S n E R Δ τ' hfr hi hR hbE hbS hbΓ hΔ hty
  cases hty with
  | ifE _ _ _ _ _ htc htt hte =>
    obtain ⟨τc, S₁, n₁, E₁, R₁, N₁, h₁, hi₁, hR₁, hbE₁, hbS₁, hn₁, hbτc, hag₁, heq₁⟩ :=
      ihc Γ S n E R Δ _ hfr.1 hi hR hbE hbS hbΓ hΔ htc
    have hab₁ : tBool.subst R₁ = τc.subst R₁ := by rw [heq₁]; rfl
    obtain ⟨S₂, N₂, h₂, hi₂, hbS₂⟩ := unifySF_complete S₁ n₁ tBool τc E₁ R₁ hi₁ hR₁ hab₁ hbS₁
      (below_closed rfl) hbτc
    have hbE₂ : BelowE n₁ ((tBool, τc) :: E₁) := belowE_cons (below_closed rfl) hbτc hbE₁
    have hΔ₁ := envC_agree Δ Γ R R₁ n hbΓ hag₁ hΔ
    have hbΓ₁ := belowΓ_mono hn₁ hbΓ
    obtain ⟨τt, S₃, n₃, E₃, R₃, N₃, h₃, hi₃, hR₃, hbE₃, hbS₃, hn₃, hbτt, hag₃, heq₃⟩ :=
      iht Γ S₂ n₁ _ R₁ Δ _ hfr.2.1 hi₂ (sol_cons hab₁ hR₁) hbE₂ hbS₂ hbΓ₁ hΔ₁ htt
    obtain ⟨τe, S₄, n₄, E₄, R₄, N₄, h₄, hi₄, hR₄, hbE₄, hbS₄, hn₄, hbτe, hag₄, heq₄⟩ :=
      ihe Γ S₃ n₃ E₃ R₃ Δ _ hfr.2.2 hi₃ hR₃ hbE₃ hbS₃ (belowΓ_mono hn₃ hbΓ₁)
        (envC_agree Δ Γ R₁ R₃ n₁ hbΓ₁ hag₃ hΔ₁) hte
    have hτt₄ : τt.subst R₄ = τ' := by rw [subst_agree hbτt hag₄, heq₃]
    have hab₅ : τt.subst R₄ = τe.subst R₄ := by rw [hτt₄, heq₄]
    obtain ⟨S₅, N₅, h₅, hi₅, hbS₅⟩ := unifySF_complete S₄ n₄ τt τe E₄ R₄ hi₄ hR₄ hab₅ hbS₄
      (below_mono hn₄ hbτt) hbτe
    refine ⟨τt, S₅, n₄, _, R₄, N₁ + N₂ + N₃ + N₄ + N₅, ?_, hi₅, sol_cons hab₅ hR₄,
      belowE_cons (below_mono hn₄ hbτt) hbτe hbE₄, hbS₅, by omega, below_mono hn₄ hbτt,
      agree_trans (agree_mono (by omega) hag₄) (agree_trans (agree_mono hn₁ hag₃) hag₁), hτt₄⟩
    intro fuel hf
    simp only [inferF, h₁ fuel (by omega), h₂ fuel (by omega), h₃ fuel (by omega),
      h₄ fuel (by omega), h₅ fuel (by omega)]

theorem complete_fcons (l : String) (e rest : Expr) (ihe : CompleteAt e) (ihr : CompleteAt rest) :
    CompleteAt (.fcons l e rest) := by
  intro Γ S n E R Δ τ' hfr hi hR hbE hbS hbΓ hΔ hty
  cases hty with
  | fcons _ _ _ _ τe ρ hte htr =>
    obtain ⟨τ₁, S₁, n₁, E₁, R₁, N₁, h₁, hi₁, hR₁, hbE₁, hbS₁, hn₁, hbτ₁, hag₁, heq₁⟩ :=
      ihe Γ S n E R Δ _ hfr.1 hi hR hbE hbS hbΓ hΔ hte
    obtain ⟨ρ₂, S₂, n₂, E₂, R₂, N₂, h₂, hi₂, hR₂, hbE₂, hbS₂, hn₂, hbρ, hag₂, heq₂⟩ :=
      ihr Γ S₁ n₁ E₁ R₁ Δ _ hfr.2 hi₁ hR₁ hbE₁ hbS₁ (belowΓ_mono hn₁ hbΓ)
        (envC_agree Δ Γ R R₁ n hbΓ hag₁ hΔ) htr
    refine ⟨.ext l τ₁ ρ₂, S₂, n₂, E₂, R₂, N₁ + N₂, ?_, hi₂, hR₂, hbE₂, hbS₂, by omega, ?_,
      agree_trans (agree_mono hn₁ hag₂) hag₁, ?_⟩
    · intro fuel hf
      simp only [inferF, h₁ fuel (by omega), h₂ fuel (by omega)]
    · intro v hv
      simp only [Ty.ftv, List.mem_append] at hv
      rcases hv with hv | hv
      · exact Nat.lt_of_lt_of_le (hbτ₁ v hv) hn₂
      · exact hbρ v hv
    · simp only [Ty.subst, subst_agree hbτ₁ hag₂, heq₁, heq₂]

theorem complete_rcd (f : Expr) (ih : CompleteAt f) : CompleteAt (.rcd f) := by
  intro Γ S n E R Δ τ' hfr hi hR hbE hbS hbΓ hΔ hty
  cases hty with
  | rcd _ _ ρ htf =>
    obtain ⟨ρ₁, S₁, n₁, E₁, R₁, N₁, h₁, hi₁, hR₁, hbE₁, hbS₁, hn₁, hbρ, hag₁, heq₁⟩ :=
      ih Γ S n E R Δ _ hfr hi hR hbE hbS hbΓ hΔ htf
    refine ⟨tRec ρ₁, S₁, n₁, E₁, R₁, N₁, ?_, hi₁, hR₁, hbE₁, hbS₁, hn₁, ?_, hag₁, ?_⟩
    · intro fuel hf
      simp only [inferF, h₁ fuel hf]
    · intro v hv
      simp only [tRec, Ty.ftv, List.nil_append] at hv
      exact hbρ v hv
    · simp only [tRec, Ty.subst, heq₁]

theorem complete_asnoc (init e : Expr) (ihi : CompleteAt init) (ihe : CompleteAt e) :
    CompleteAt (.asnoc init e) := by
  intro Γ S n E R Δ τ' hfr hi hR hbE hbS hbΓ hΔ hty
  cases hty with
  | asnoc _ _ _ τ₀ hti hte =>
    obtain ⟨τi, S₁, n₁, E₁, R₁, N₁, h₁, hi₁, hR₁, hbE₁, hbS₁, hn₁, hbτi, hag₁, heq₁⟩ :=
      ihi Γ S n E R Δ _ hfr.1 hi hR hbE hbS hbΓ hΔ hti
    obtain ⟨τe, S₂, n₂, E₂, R₂, N₂, h₂, hi₂, hR₂, hbE₂, hbS₂, hn₂, hbτe, hag₂, heq₂⟩ :=
      ihe Γ S₁ n₁ E₁ R₁ Δ _ hfr.2 hi₁ hR₁ hbE₁ hbS₁ (belowΓ_mono hn₁ hbΓ)
        (envC_agree Δ Γ R R₁ n hbΓ hag₁ hΔ) hte
    have hτi₂ : τi.subst R₂ = tArr τ₀ := by rw [subst_agree hbτi hag₂, heq₁]
    have hab : τi.subst R₂ = (tArr τe).subst R₂ := by
      rw [hτi₂]; simp only [tArr, Ty.subst, heq₂]
    have hbarr : Below n₂ (tArr τe) := by
      intro v hv
      simp only [tArr, Ty.ftv, List.nil_append] at hv
      exact hbτe v hv
    obtain ⟨S₃, N₃, h₃, hi₃, hbS₃⟩ := unifySF_complete S₂ n₂ τi (tArr τe) E₂ R₂ hi₂ hR₂ hab hbS₂
      (below_mono hn₂ hbτi) hbarr
    refine ⟨τi, S₃, n₂, _, R₂, N₁ + N₂ + N₃, ?_, hi₃, sol_cons hab hR₂,
      belowE_cons (below_mono hn₂ hbτi) hbarr hbE₂, hbS₃, by omega, below_mono hn₂ hbτi,
      agree_trans (agree_mono hn₁ hag₂) hag₁, hτi₂⟩
    intro fuel hf
    simp only [inferF, h₁ fuel (by omega), h₂ fuel (by omega), h₃ fuel (by omega)]

/-- Completeness and principality on the projection-free ML fragment (`let` included), for every
    sufficiently large unification fuel. -/
theorem infer_complete_aux : ∀ e : Expr, CompleteAt e := by
  intro e
  induction e with
  | var x => exact complete_var x
  | lam x b ih => exact complete_lam x b ih
  | app f a ihf iha => exact complete_app f a ihf iha
  | letE x e b ihe ihb => exact complete_let x e b ihe ihb
  | int k =>
    intro Γ S n E R Δ τ' _ hi hR hbE hbS _ _ hty
    cases hty
    exact ⟨tInt, S, n, E, R, 0, fun fuel _ => by simp only [inferF], hi, hR, hbE, hbS, Nat.le_refl _,
      below_closed rfl, agree_refl n R, rfl⟩
  | str k =>
    intro Γ S n E R Δ τ' _ hi hR hbE hbS _ _ hty
    cases hty
    exact ⟨tString, S, n, E, R, 0, fun fuel _ => by simp only [inferF], hi, hR, hbE, hbS, Nat.le_refl _,
      below_closed rfl, agree_refl n R, rfl⟩
  | ifE c t e ihc iht ihe => exact complete_if c t e ihc iht ihe
  | lt a b iha ihb => exact complete_lt a b iha ihb
  | fnil =>
    intro Γ S n E R Δ τ' _ hi hR hbE hbS _ _ hty
    cases hty
    exact ⟨.empty, S, n, E, R, 0, fun fuel _ => by simp only [inferF], hi, hR, hbE, hbS, Nat.le_refl _,
      below_closed rfl, agree_refl n R, rfl⟩
  | fcons l e rest ihe ihr => exact complete_fcons l e rest ihe ihr
  | rcd f ih => exact complete_rcd f ih
  | proj e l _ => intro Γ S n E R Δ τ' hfr; exact absurd hfr (by simp [NoProj])
  | anil =>
    intro Γ S n E R Δ τ' _ hi hR hbE hbS _ _ hty
    cases hty with
    | anil _ τ₀ =>
      have hag : Agree n (upd R n τ₀) R := upd_agree R n τ₀
      refine ⟨tArr (.var n), S, n + 1, E, upd R n τ₀, 0, fun fuel _ => by simp only [inferF], hi,
        sol_agree hbE hag hR, belowE_mono (Nat.le_succ n) hbE, belowS_mono (Nat.le_succ n) hbS,
        Nat.le_succ n, ?_, hag, ?_⟩
      · intro v hv; simp only [tArr, Ty.ftv, List.nil_append, List.mem_singleton] at hv; omega
      · simp only [tArr, Ty.subst, upd_self]
  | asnoc init e ihi ihe => exact complete_asnoc init e ihi ihe
  | conA =>
    intro Γ S n E R Δ τ' _ hi hR hbE hbS _ _ hty
    cases hty with
    | conA _ τ₀ =>
      have hag : Agree n (upd R n τ₀) R := upd_agree R n τ₀
      refine ⟨fn (.var n) (tT (.var n)), S, n + 1, E, upd R n τ₀, 0, fun fuel _ => by simp only [inferF],
        hi, sol_agree hbE hag hR, belowE_mono (Nat.le_succ n) hbE, belowS_mono (Nat.le_succ n) hbS,
        Nat.le_succ n, ?_, hag, ?_⟩
      · intro v hv
        simp only [fn, tT, Ty.ftv, List.nil_append, List.mem_append, List.mem_singleton] at hv
        omega
      · simp only [fn, tT, Ty.subst, upd_self]
  | conB =>
    intro Γ S n E R Δ τ' _ hi hR hbE hbS _ _ hty
    cases hty with
    | conB _ τ₀ =>
      have hag : Agree n (upd R n τ₀) R := upd_agree R n τ₀
      refine ⟨tT (.var n), S, n + 1, E, upd R n τ₀, 0, fun fuel _ => by simp only [inferF], hi,
        sol_agree hbE hag hR, belowE_mono (Nat.le_succ n) hbE, belowS_mono (Nat.le_succ n) hbS,
        Nat.le_succ n, ?_, hag, ?_⟩
      · intro v hv; simp only [tT, Ty.ftv, List.nil_append, List.mem_singleton] at hv; omega
      · simp only [tT, Ty.subst, upd_self]

/-- Closed programs of the ML fragment (projection-free, `let` included): there is a fuel from which
    on `inferF` accepts the program, always with the same result, and every declarative typing is an
    instance of the reported type. -/
theorem inferF_complete_principal_closed (e : Expr) (hfr : NoProj e) (τ₀ : Ty) (h₀ : HasType [] e τ₀) :
    ∃ τ S n' N, (∀ fuel, N ≤ fuel → inferF false fuel [] e Subst.id 0 = .ok (τ, S, n')) ∧
      ∀ τ', HasType [] e τ' → ∃ Q : Subst, τ' = (τ.subst S).subst Q := by
  have run : ∀ τ', HasType [] e τ' → CRes [] e Subst.id 0 Subst.id τ' := fun τ' h =>
    infer_complete_aux e [] Subst.id 0 [] Subst.id [] τ' hfr inv_nil
      (fun p hp => by cases hp) (fun p hp => by cases hp) (belowS_id 0) (fun p hp => by cases hp) trivial h
  obtain ⟨τ, S', n', E', R', N, h₁, _⟩ := run τ₀ h₀
  refine ⟨τ, S', n', N, h₁, fun τ' hτ' => ?_⟩
  obtain ⟨τ₂, S₂, n₂, E₂, R₂, N₂, h₂, hi₂, hR₂, _, _, _, _, _, heq₂⟩ := run τ' hτ'
  have hsame := (h₁ (N + N₂) (by omega)).symm.trans (h₂ (N + N₂) (by omega))
  injection hsame with hsame
  injection hsame with e₁ hsame
  injection hsame with e₂ e₃
  subst e₁; subst e₂
  exact ⟨R₂, by rw [inv_absorb S' E₂ hi₂ R₂ hR₂ τ, heq₂]⟩

end GluonModel.HM.Proofs
