/-
Lemmas for C06, part (ii): what `reset_stack` restores after a failed top-level evaluation.
-/
import GluonModel.Frames

namespace GluonModel.Proofs.Frames
open GluonModel.Frames

def pushed : List Op → Nat
  | [] => 0
  | .push n :: ops => n + pushed ops
  | .enter _ :: ops => pushed ops

theorem resetLoop_values (level : Nat) : ∀ (fuel : Nat) (s : Stack), (resetLoop level fuel s).values = s.values
  | 0, s => rfl
  | fuel + 1, s => by
    unfold resetLoop
    split
    · rw [resetLoop_values level fuel]; rfl
    · rfl

theorem resetLoop_frames (level : Nat) : ∀ (fuel : Nat) (s : Stack), s.frames.length ≤ fuel →
    level ≤ s.frames.length → (resetLoop level fuel s).frames = s.frames.drop (s.frames.length - level)
  | 0, s, h, _ => by
    have : s.frames = [] := List.eq_nil_of_length_eq_zero (by omega)
    simp [resetLoop, this]
  | fuel + 1, s, h, hl => by
    unfold resetLoop
    split
    · rename_i hgt
      cases hf : s.frames with
      | nil => simp [hf] at hgt
      | cons x t =>
        have h1 : (exitScope s).frames = t := by simp [exitScope, hf]
        rw [resetLoop_frames level fuel (exitScope s) (by rw [h1]; simp [hf] at h; omega)
          (by rw [h1]; simp [hf] at hgt; omega)]
        rw [h1]
        simp only [List.length_cons]
        simp [hf] at hgt
        have : t.length + 1 - level = (t.length - level) + 1 := by omega
        rw [this, List.drop_succ_cons]
    · rename_i hle
      have : s.frames.length - level = 0 := by omega
      simp [this]

theorem run_values : ∀ (ops : List Op) (s : Stack), (s.run ops).values = s.values + pushed ops
  | [], s => by simp [Stack.run, pushed]
  | .push n :: ops, s => by
    have := run_values ops (s.apply (.push n))
    simp only [Stack.run, List.foldl_cons] at this ⊢
    rw [this]; simp [Stack.apply, pushed]; omega
  | .enter a :: ops, s => by
    have := run_values ops (s.apply (.enter a))
    simp only [Stack.run, List.foldl_cons] at this ⊢
    rw [this]; simp [Stack.apply, pushed]

theorem run_frames : ∀ (ops : List Op) (s : Stack), ∃ extra, (s.run ops).frames = extra ++ s.frames
  | [], s => ⟨[], by simp [Stack.run]⟩
  | .push n :: ops, s => by
    obtain ⟨e, he⟩ := run_frames ops (s.apply (.push n))
    exact ⟨e, by simpa [Stack.run, Stack.apply] using he⟩
  | .enter a :: ops, s => by
    obtain ⟨e, he⟩ := run_frames ops (s.apply (.enter a))
    refine ⟨e ++ [s.values - a], ?_⟩
    simp only [Stack.run, List.foldl_cons] at he ⊢
    rw [he]; simp [Stack.apply]

/-- The error path of `call_thunk_top` after any run: the frame stack is back, every value the run
    had pushed is still there. -/
theorem reset_after_run (s : Stack) (ops : List Op) :
    resetStack s.frames.length s.values (s.run ops) = ⟨s.frames, s.values + pushed ops⟩ := by
  obtain ⟨e, he⟩ := run_frames ops s
  have hv : (resetStack s.frames.length s.values (s.run ops)).values = s.values + pushed ops := by
    unfold resetStack; rw [resetLoop_values, run_values]
  have hf : (resetStack s.frames.length s.values (s.run ops)).frames = s.frames := by
    unfold resetStack
    rw [resetLoop_frames _ _ _ (Nat.le_refl _) (by rw [he]; simp)]
    rw [he]
    simp
  cases h : resetStack s.frames.length s.values (s.run ops) with
  | mk f v =>
    rw [h] at hv hf
    simp at hv hf
    simp [hv, hf]

theorem resetFixed_after_run (s : Stack) (ops : List Op) :
    resetFixed s.frames.length s.values (s.run ops) = s := by
  have h := reset_after_run s ops
  unfold resetFixed
  unfold resetStack at h
  simp only [h]
  cases s with
  | mk f v =>
    simp only [Stack.mk.injEq, true_and]
    omega

theorem pushed_runOps (d v : Nat) : pushed (runOps d v) = v := by
  unfold runOps
  simp only [pushed]
  induction d with
  | zero => simp [pushed]
  | succ n ih => simp [List.replicate_succ, pushed] at ih ⊢; exact ih

/-! ### locked extern frames -/

theorem resetLoopL_unlocked (base : List LFrame) (vals : Nat) :
    ∀ (fs : List LFrame) (fuel : Nat), (∀ f ∈ fs, f.locked = false) → fs.length ≤ fuel →
      resetLoopL base.length fuel ⟨fs ++ base, vals⟩ = (⟨base, vals⟩, true)
  | [], fuel, _, _ => by
    cases fuel with
    | zero => simp [resetLoopL]
    | succ n => simp [resetLoopL]
  | f :: fs, fuel, hu, hl => by
    cases fuel with
    | zero => simp at hl
    | succ n =>
      have hf : f.locked = false := hu f List.mem_cons_self
      have hlen : (f :: fs ++ base).length > base.length := by simp; omega
      unfold resetLoopL
      simp only [hlen, if_true]
      simp only [exitScopeL, List.cons_append, hf]
      exact resetLoopL_unlocked base vals fs n (fun g hg => hu g (List.mem_cons_of_mem _ hg))
        (by simp at hl; omega)

/-- With every frame above `base` unlocked the error path restores the thread exactly. -/
theorem resetTopL_unlocked (base : List LFrame) (vlen p : Nat) (fs : List LFrame)
    (hu : ∀ f ∈ fs, f.locked = false) :
    resetTopL base.length vlen ⟨fs ++ base, vlen + p⟩ = (⟨base, vlen⟩, true) := by
  unfold resetTopL
  rw [resetLoopL_unlocked base (vlen + p) fs _ hu (by simp)]
  simp only [LStack.mk.injEq, Prod.mk.injEq, true_and, and_true]
  omega

/-- A locked frame on top stops `reset_stack` at once: nothing is popped and the caller gets `reset_stack`'s error. -/
theorem resetTopL_top_locked (level vlen : Nat) (f : LFrame) (rest : List LFrame) (vals : Nat)
    (hl : f.locked = true) (hlen : (f :: rest).length > level) :
    resetTopL level vlen ⟨f :: rest, vals⟩ = (⟨f :: rest, vals⟩, false) := by
  unfold resetTopL
  have : resetLoopL level (f :: rest).length ⟨f :: rest, vals⟩ = (⟨f :: rest, vals⟩, false) := by
    simp only [List.length_cons]
    unfold resetLoopL
    simp only [List.length_cons] at hlen
    simp only [List.length_cons, hlen, if_true, exitScopeL, hl]
  simp only [this]

theorem toL_toStack (s : Stack) : s.toL.toStack = s := by
  cases s with
  | mk f v => simp [Stack.toL, LStack.toStack, List.map_map, Function.comp_def]

theorem asyncFail_restores (s : Stack) (d v : Nat) : asyncFailStep true s d v = (s, true) := by
  unfold asyncFailStep
  simp only [completeAsync, if_true, asyncPending, unlockTop]
  have h := resetTopL_unlocked s.toL.frames s.toL.values v
    (⟨s.toL.values + v, false⟩ :: List.replicate d ⟨s.toL.values + v, false⟩)
    (by
      intro f hf
      simp only [List.mem_cons, List.mem_replicate] at hf
      rcases hf with rfl | ⟨_, rfl⟩ <;> rfl)
  simp only [List.cons_append] at h
  rw [h]
  simp only [Prod.mk.injEq, and_true]
  have := toL_toStack s
  cases hs : s.toL with
  | mk f vv => rw [hs] at this; exact this

theorem asyncFail_lock_order_stuck (s : Stack) (d v : Nat) :
    (asyncFailStep false s d v).2 = false ∧
    (asyncFailStep false s d v).1.frames.length = s.frames.length + d + 1 ∧
    (asyncFailStep false s d v).1.values = s.values + v := by
  unfold asyncFailStep
  have hc : ∀ p, completeAsync false true p = (p, false) := by intro p; simp [completeAsync]
  simp only [hc, asyncPending]
  rw [resetTopL_top_locked _ _ _ _ _ rfl (by simp [Stack.toL]; omega)]
  simp [LStack.toStack, Stack.toL]
  omega

def leakSum (steps : List Step) : Nat := (steps.map failLeak).sum

theorem history_leaks : ∀ (steps : List Step) (s : Stack),
    runHistory resetStack steps s = ⟨s.frames, s.values + leakSum steps⟩
  | [], s => by simp [runHistory, leakSum]
  | .ok d v :: steps, s => by
    have := history_leaks steps s
    simp only [runHistory, List.foldl_cons, stepWith] at this ⊢
    rw [this]; simp [leakSum, failLeak]
  | .fail d v :: steps, s => by
    have h1 : stepWith resetStack s (.fail d v) = ⟨s.frames, s.values + v⟩ := by
      simp only [stepWith]; rw [reset_after_run, pushed_runOps]
    have := history_leaks steps ⟨s.frames, s.values + v⟩
    simp only [runHistory, List.foldl_cons] at this ⊢
    rw [h1, this]; simp [leakSum, failLeak]; omega
  | .hostFail d v :: steps, s => by
    have h1 : stepWith resetStack s (.hostFail d v) = ⟨s.frames, s.values + v⟩ := by
      simp only [stepWith]; rw [reset_after_run, pushed_runOps]
    have := history_leaks steps ⟨s.frames, s.values + v⟩
    simp only [runHistory, List.foldl_cons] at this ⊢
    rw [h1, this]; simp [leakSum, failLeak]; omega
  | .asyncFail d v :: steps, s => by
    have h1 : stepWith resetStack s (.asyncFail d v) = s := by
      simp only [stepWith]; rw [asyncFail_restores]
    have := history_leaks steps s
    simp only [runHistory, List.foldl_cons] at this ⊢
    rw [h1, this]; simp [leakSum, failLeak]
  | .okIO :: steps, s => by
    have := history_leaks steps ⟨s.frames, s.values + 1⟩
    simp only [runHistory, List.foldl_cons, stepWith] at this ⊢
    rw [this]; simp [leakSum, failLeak]; omega

theorem history_fixed : ∀ (steps : List Step) (s : Stack),
    runHistory resetFixed steps s = ⟨s.frames, s.values + ioSlots steps⟩
  | [], s => by simp [runHistory, ioSlots]
  | .ok d v :: steps, s => by
    have := history_fixed steps s
    simp only [runHistory, List.foldl_cons, stepWith] at this ⊢
    rw [this]; simp [ioSlots]
  | .fail d v :: steps, s => by
    have h1 : stepWith resetFixed s (.fail d v) = s := by
      simp only [stepWith]; exact resetFixed_after_run s _
    have := history_fixed steps s
    simp only [runHistory, List.foldl_cons] at this ⊢
    rw [h1, this]; simp [ioSlots]
  | .hostFail d v :: steps, s => by
    have h1 : stepWith resetFixed s (.hostFail d v) = s := by
      simp only [stepWith]; exact resetFixed_after_run s _
    have := history_fixed steps s
    simp only [runHistory, List.foldl_cons] at this ⊢
    rw [h1, this]; simp [ioSlots]
  | .asyncFail d v :: steps, s => by
    have h1 : stepWith resetFixed s (.asyncFail d v) = s := by
      simp only [stepWith]; rw [asyncFail_restores]
    have := history_fixed steps s
    simp only [runHistory, List.foldl_cons] at this ⊢
    rw [h1, this]; simp [ioSlots]
  | .okIO :: steps, s => by
    have := history_fixed steps ⟨s.frames, s.values + 1⟩
    simp only [runHistory, List.foldl_cons, stepWith] at this ⊢
    rw [this]; simp [ioSlots]; omega

def enters : List Op → Nat
  | [] => 0
  | .push _ :: ops => enters ops
  | .enter _ :: ops => 1 + enters ops

theorem run_frames_length : ∀ (ops : List Op) (s : Stack),
    (s.run ops).frames.length = s.frames.length + enters ops
  | [], s => by simp [Stack.run, enters]
  | .push n :: ops, s => by
    have := run_frames_length ops (s.apply (.push n))
    simp only [Stack.run, List.foldl_cons] at this ⊢
    rw [this]; simp [Stack.apply, enters]
  | .enter a :: ops, s => by
    have := run_frames_length ops (s.apply (.enter a))
    simp only [Stack.run, List.foldl_cons] at this ⊢
    rw [this]; simp [Stack.apply, enters]; omega

theorem enters_runOps (d v : Nat) : enters (runOps d v) = d := by
  unfold runOps
  simp only [enters]
  induction d with
  | zero => simp [enters]
  | succ n ih => simp [List.replicate_succ, enters] at ih ⊢; omega

/-- Old rule: a failed host call of a Gluon function left `d` frames and `v` values behind. -/
theorem hostFail_leaves (reset : Nat → Nat → Stack → Stack) (s : Stack) (d v : Nat) :
    (stepWithOldHost reset s (.hostFail d v)).frames.length = s.frames.length + d ∧
    (stepWithOldHost reset s (.hostFail d v)).values = s.values + v := by
  simp only [stepWithOldHost]
  rw [run_frames_length, run_values, enters_runOps, pushed_runOps]
  exact ⟨rfl, rfl⟩

end GluonModel.Proofs.Frames
