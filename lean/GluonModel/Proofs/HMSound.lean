/-
C03 — soundness of `infer` (syntactic rows) with let-generalisation, w.r.t. the declarative
system `HasType`.

Method: the threaded substitution `S` is, at every point, a most general solution of the
equations `E` unified so far (`Inv S E`: `S` solves `E`, and every solution `R` of `E` satisfies
`R ∘ S = R`).  The statement proved by induction on the expression quantifies over ALL solutions
`R` of the final equations, so no "typing is stable under substitution" lemma, no freshness
invariant and no capture side condition is needed.
-/
import GluonModel.HM
import GluonModel.Proofs.HM
import GluonModel.Proofs.HMFuel

namespace GluonModel.HM.Proofs
open GluonModel.HM

abbrev Eqs := List (Ty × Ty)

def Sol (R : Subst) (E : Eqs) : Prop := ∀ p, p ∈ E → p.1.subst R = p.2.subst R

/-- `S` solves `E` and is most general (strong form: every solution absorbs `S`). -/
def Inv (S : Subst) (E : Eqs) : Prop :=
  Sol S E ∧ ∀ R, Sol R E → ∀ v, (S v).subst R = R v

theorem inv_nil : Inv Subst.id [] :=
  ⟨fun p hp => (by cases hp), fun R _ v => rfl⟩

theorem subst_congr_ftv (σ τ : Subst) (t : Ty) (h : ∀ v, v ∈ t.ftv → σ v = τ v) :
    t.subst σ = t.subst τ := by
  induction t with
  | var n => exact h n (by simp [Ty.ftv])
  | con c => rfl
  | empty => rfl
  | app f a ihf iha =>
    simp only [Ty.subst]
    rw [ihf (fun v hv => h v (by simp [Ty.ftv, hv])), iha (fun v hv => h v (by simp [Ty.ftv, hv]))]
  | ext l t r iht ihr =>
    simp only [Ty.subst]
    rw [iht (fun v hv => h v (by simp [Ty.ftv, hv])), ihr (fun v hv => h v (by simp [Ty.ftv, hv]))]

/-- a solution absorbs the most general one on every type -/
theorem inv_absorb (S : Subst) (E : Eqs) (h : Inv S E) (R : Subst) (hR : Sol R E) (t : Ty) :
    (t.subst S).subst R = t.subst R := by
  rw [← subst_comp]
  exact subst_congr _ _ t (h.2 R hR)

theorem sol_comp (S : Subst) (E : Eqs) (h : Sol S E) (Q : Subst) : Sol (Q.comp S) E := by
  intro p hp
  rw [subst_comp, subst_comp, h p hp]

/-- one unification step keeps the invariant, for the equations extended by the new one -/
theorem unifySF_inv (fuel : Nat) (S : Subst) (n : Nat) (a b : Ty) (S' : Subst) (n' : Nat) (E : Eqs)
    (h : unifySF false fuel S n a b = .ok (S', n')) (hi : Inv S E) : Inv S' ((a, b) :: E) := by
  unfold unifySF at h
  split at h
  · cases h
  · next U n₁ hu =>
    injection h with h; injection h with hS _
    subst hS
    have hs := unify_sound fuel n _ _ U n₁ hu
    constructor
    · intro p hp
      cases hp with
      | head => simp only [subst_comp]; exact hs
      | tail _ hp => exact sol_comp S E hi.1 U p hp
    · intro R hR v
      have hRE : Sol R E := fun p hp => hR p (List.mem_cons_of_mem _ hp)
      have hab : (a.subst S).subst R = (b.subst S).subst R := by
        rw [inv_absorb S E hi R hRE a, inv_absorb S E hi R hRE b]
        exact hR (a, b) (List.mem_cons_self ..)
      have hm := unify_mgu fuel n _ _ U R n₁ hu hab
      show ((S v).subst U).subst R = R v
      rw [← subst_comp, subst_congr (R.comp U) R (S v) hm]
      exact hi.2 R hRE v

theorem unifyS_inv (S : Subst) (n : Nat) (a b : Ty) (S' : Subst) (n' : Nat) (E : Eqs)
    (h : unifyS false S n a b = .ok (S', n')) (hi : Inv S E) : Inv S' ((a, b) :: E) :=
  unifySF_inv unifyFuel S n a b S' n' E h hi

/-! ### environments -/

def EnvRel : SEnv → Env → Subst → Prop
  | [], [], _ => True
  | (x, P) :: Δ, (y, s) :: Γ, R => x = y ∧ (∀ τ, Den s R τ → P τ) ∧ EnvRel Δ Γ R
  | _, _, _ => False

theorem envRel_lookup : ∀ (Δ : SEnv) (Γ : Env) (R : Subst) (x : String) (s : Scheme),
    EnvRel Δ Γ R → lookup x Γ = some s → ∃ P, slookup x Δ = some P ∧ ∀ τ, Den s R τ → P τ := by
  intro Δ Γ
  induction Γ generalizing Δ with
  | nil => intro R x s _ h; simp [lookup] at h
  | cons p Γ ih =>
    intro R x s hrel h
    obtain ⟨y, t⟩ := p
    cases Δ with
    | nil => simp [EnvRel] at hrel
    | cons q Δ =>
      obtain ⟨z, P⟩ := q
      simp only [EnvRel] at hrel
      obtain ⟨hzy, hP, hrest⟩ := hrel
      subst hzy
      simp only [lookup] at h
      simp only [slookup]
      split at h
      · next hx =>
        injection h with h; subst h
        exact ⟨P, by simp [hx], hP⟩
      · next hx =>
        simp only [hx, if_false]
        exact ih Δ R x s hrest h

/-- the relation only depends on the substitution at the free variables of the environment -/
theorem envRel_congr : ∀ (Δ : SEnv) (Γ : Env) (R R₂ : Subst),
    (∀ p, p ∈ Γ → ∀ v, v ∈ p.2.ftv → R₂ v = R v) → EnvRel Δ Γ R → EnvRel Δ Γ R₂ := by
  intro Δ Γ
  induction Γ generalizing Δ with
  | nil => intro R R₂ _ h; cases Δ <;> simp_all [EnvRel]
  | cons p Γ ih =>
    intro R R₂ hag hrel
    obtain ⟨y, t⟩ := p
    cases Δ with
    | nil => simp [EnvRel] at hrel
    | cons q Δ =>
      obtain ⟨z, P⟩ := q
      simp only [EnvRel] at hrel ⊢
      obtain ⟨hzy, hP, hrest⟩ := hrel
      refine ⟨hzy, ?_, ih Δ R R₂ (fun p hp => hag p (List.mem_cons_of_mem _ hp)) hrest⟩
      intro τ ⟨R', hR', hτ⟩
      refine hP τ ⟨R', ?_, hτ⟩
      intro v hv hnv
      rw [hR' v hv hnv]
      apply hag (y, t) (List.mem_cons_self ..) v
      simp only [Scheme.ftv, List.mem_filter]
      exact ⟨hv, by simpa using hnv⟩

theorem envRel_denote (R : Subst) : ∀ Γ : Env, EnvRel (denote R Γ) Γ R := by
  intro Γ
  induction Γ with
  | nil => simp [denote, EnvRel]
  | cons p Γ ih =>
    obtain ⟨y, t⟩ := p
    simp only [denote, List.map, EnvRel]
    exact ⟨trivial, fun τ h => h, ih⟩

/-! ### schemes -/

theorem indexOf_none (v : Nat) : ∀ (vs : List Nat) (i : Nat), v ∉ vs → indexOf v vs i = none := by
  intro vs
  induction vs with
  | nil => intro i _; rfl
  | cons w rest ih =>
    intro i h
    simp only [List.mem_cons, not_or] at h
    simp only [indexOf, h.1, if_false]
    exact ih (i + 1) h.2

/-- an instance produced by `inst`, under any `R`, is in the denotation of the scheme -/
theorem den_inst (s : Scheme) (n : Nat) (R : Subst) : Den s R ((inst s n).1.subst R) := by
  refine ⟨fun v => ((match indexOf v s.vars 0 with
    | some i => Ty.var (n + i)
    | none => Ty.var v) : Ty).subst R, ?_, ?_⟩
  · intro v _ hv
    simp only [indexOf_none v s.vars 0 hv, Ty.subst]
  · simp only [inst]
    rw [← subst_comp]
    rfl

theorem den_mono (a : Ty) (R : Subst) (τ : Ty) (h : Den (Scheme.mono a) R τ) : τ = a.subst R := by
  obtain ⟨R', hR', hτ⟩ := h
  rw [hτ]
  exact subst_congr_ftv R' R a (fun v hv => hR' v hv (by simp [Scheme.mono]))

theorem mem_ftvUnder (S : Subst) (Γ : Env) (p : String × Scheme) (v w : Nat)
    (hp : p ∈ Γ) (hv : v ∈ p.2.ftv) (hw : w ∈ (S v).ftv) : w ∈ Γ.ftvUnder S := by
  simp only [Env.ftvUnder, List.mem_flatMap]
  exact ⟨p, hp, v, hv, hw⟩

/-! ### rows -/

theorem hasField_of_lookup : ∀ (row : Ty) (l : String) (t : Ty),
    lookupField l (rowFields row) = some t → HasField row l t := by
  intro row
  induction row with
  | ext l' t' r _ ihr =>
    intro l t h
    simp only [rowFields, lookupField] at h
    split at h
    · next hl => injection h with h; subst h; subst hl; exact HasField.here ..
    · next hl => exact HasField.there _ _ _ _ _ hl (ihr l t h)
  | var n => intro l t h; simp [rowFields, lookupField] at h
  | con c => intro l t h; simp [rowFields, lookupField] at h
  | app f a _ _ => intro l t h; simp [rowFields, lookupField] at h
  | empty => intro l t h; simp [rowFields, lookupField] at h

theorem hasField_subst (R : Subst) (row : Ty) (l : String) (t : Ty) (h : HasField row l t) :
    HasField (row.subst R) l (t.subst R) := by
  induction h with
  | here l t r => exact HasField.here ..
  | there l l' t t' r hne _ ih => exact HasField.there _ _ _ _ _ hne ih

theorem asRec_some (t row : Ty) (h : asRec t = some row) : t = tRec row := by
  cases t with
  | app f a =>
    cases f with
    | con c =>
      simp only [asRec] at h
      split at h
      · next hc => injection h with h; subst h; subst hc; rfl
      · cases h
    | _ => simp [asRec] at h
  | _ => simp [asRec] at h

/-! ### the main induction -/

/-- what is proved for every expression -/
def SoundAt (e : Expr) : Prop :=
  ∀ (fuel : Nat) (Γ : Env) (S : Subst) (n : Nat) (τ : Ty) (S' : Subst) (n' : Nat),
    inferF false fuel Γ e S n = .ok (τ, S', n') →
    ∀ E, Inv S E → ∃ E', (∀ R, Sol R E' → Sol R E) ∧ Inv S' E' ∧
      ∀ R, Sol R E' → ∀ Δ, EnvRel Δ Γ R → HasType Δ e (τ.subst R)

theorem sol_tail (R : Subst) (p : Ty × Ty) (E : Eqs) (h : Sol R (p :: E)) : Sol R E :=
  fun q hq => h q (List.mem_cons_of_mem _ hq)

theorem sol_head (R : Subst) (a b : Ty) (E : Eqs) (h : Sol R ((a, b) :: E)) :
    a.subst R = b.subst R := h (a, b) (List.mem_cons_self ..)

theorem infer_sound_aux : ∀ e : Expr, SoundAt e := by
  intro e
  induction e with
  | var x =>
    intro fuel Γ S n τ S' n' h E hi
    simp only [inferF] at h
    split at h
    · cases h
    · next s hs =>
      injection h with h; injection h with hτ h; injection h with hS _
      subst hτ; subst hS
      refine ⟨E, fun R h => h, hi, ?_⟩
      intro R _ Δ hrel
      obtain ⟨P, hP, hsub⟩ := envRel_lookup Δ Γ R x s hrel hs
      exact HasType.var Δ x P _ hP (hsub _ (den_inst s n R))
  | lam x b ih =>
    intro fuel Γ S n τ S' n' h E hi
    simp only [inferF] at h
    split at h
    · cases h
    · next τb S₁ n₁ hb =>
      injection h with h; injection h with hτ h; injection h with hS _
      subst hτ; subst hS
      obtain ⟨E', hsub, hi', hty⟩ := ih fuel _ S (n + 1) τb S₁ n₁ hb E hi
      refine ⟨E', hsub, hi', ?_⟩
      intro R hR Δ hrel
      simp only [fn, Ty.subst]
      apply HasType.lam
      apply hty R hR
      simp only [EnvRel]
      exact ⟨trivial, fun τ hden => den_mono _ R τ hden, hrel⟩
  | app f a ihf iha =>
    intro fuel Γ S n τ S' n' h E hi
    simp only [inferF] at h
    split at h
    · cases h
    · next τf S₁ n₁ hf =>
      split at h
      · cases h
      · next τa S₂ n₂ ha =>
        split at h
        · cases h
        · next S₃ n₃ hu =>
          injection h with h; injection h with hτ h; injection h with hS _
          subst hτ; subst hS
          obtain ⟨E₁, hsub₁, hi₁, hty₁⟩ := ihf fuel Γ S n τf S₁ n₁ hf E hi
          obtain ⟨E₂, hsub₂, hi₂, hty₂⟩ := iha fuel Γ S₁ n₁ τa S₂ n₂ ha E₁ hi₁
          have hi₃ := unifySF_inv fuel S₂ (n₂ + 1) _ _ S₃ n₃ E₂ hu hi₂
          refine ⟨_, fun R h => hsub₁ R (hsub₂ R (sol_tail R _ _ h)), hi₃, ?_⟩
          intro R hR Δ hrel
          have hR₂ := sol_tail R _ _ hR
          have heq := sol_head R _ _ _ hR
          have t₁ := hty₁ R (hsub₂ R hR₂) Δ hrel
          have t₂ := hty₂ R hR₂ Δ hrel
          rw [heq] at t₁
          simp only [fn, Ty.subst] at t₁
          exact HasType.app Δ f a _ _ t₁ t₂
  | letE x e b ihe ihb =>
    intro fuel Γ S n τ S' n' h E hi
    simp only [inferF] at h
    split at h
    · cases h
    · next τ₁ S₁ n₁ he =>
      obtain ⟨E₁, hsub₁, hi₁, hty₁⟩ := ihe fuel Γ S n τ₁ S₁ n₁ he E hi
      obtain ⟨E₂, hsub₂, hi₂, hty₂⟩ := ihb fuel _ S₁ n₁ τ S' n' h E₁ hi₁
      refine ⟨E₂, fun R h => hsub₁ R (hsub₂ R h), hi₂, ?_⟩
      intro R hR Δ hrel
      have hR₁ := hsub₂ R hR
      apply HasType.letE Δ x e b (fun t => HasType Δ e t) _ ⟨_, hty₁ R hR₁ Δ hrel⟩ (fun _ h => h)
      apply hty₂ R hR
      simp only [EnvRel]
      refine ⟨trivial, ?_, hrel⟩
      intro τ' ⟨R', hR', hτ'⟩
      -- the instance `R'` may be anything on the generalised variables; elsewhere take `R`
      let vs := (generalize S₁ Γ τ₁).vars
      let R'' : Subst := fun v => if v ∈ vs then R' v else R v
      have hτ'' : τ' = (τ₁.subst S₁).subst R'' := by
        rw [hτ']
        apply subst_congr_ftv
        intro v hv
        show R' v = if v ∈ vs then R' v else R v
        split
        · rfl
        · next hnv => exact hR' v hv hnv
      have hsol : Sol (R''.comp S₁) E₁ := sol_comp S₁ E₁ hi₁.1 R''
      have hrel' : EnvRel Δ Γ (R''.comp S₁) := by
        apply envRel_congr Δ Γ R _ _ hrel
        intro p hp v hv
        show (S₁ v).subst R'' = R v
        rw [← hi₁.2 R hR₁ v]
        apply subst_congr_ftv
        intro w hw
        have hwU := mem_ftvUnder S₁ Γ p v w hp hv hw
        have : w ∉ vs := by
          intro hmem
          simp only [vs, generalize, List.mem_filter] at hmem
          have := hmem.2
          simp [hwU] at this
        show (if w ∈ vs then R' w else R w) = R w
        simp [this]
      have := hty₁ (R''.comp S₁) hsol Δ hrel'
      rw [subst_comp] at this
      rw [hτ'']
      exact this
  | int k =>
    intro fuel Γ S n τ S' n' h E hi
    simp only [inferF] at h
    injection h with h; injection h with hτ h; injection h with hS _
    subst hτ; subst hS
    exact ⟨E, fun R h => h, hi, fun R _ Δ _ => HasType.int Δ k⟩
  | str k =>
    intro fuel Γ S n τ S' n' h E hi
    simp only [inferF] at h
    injection h with h; injection h with hτ h; injection h with hS _
    subst hτ; subst hS
    exact ⟨E, fun R h => h, hi, fun R _ Δ _ => HasType.str Δ k⟩
  | lt a b iha ihb =>
    intro fuel Γ S n τ S' n' h E hi
    simp only [inferF] at h
    split at h
    · cases h
    · next τa S₁ n₁ ha =>
      split at h
      · cases h
      · next S₂ n₂ hu₁ =>
        split at h
        · cases h
        · next τb S₃ n₃ hb =>
          split at h
          · cases h
          · next S₄ n₄ hu₂ =>
            injection h with h; injection h with hτ h; injection h with hS _
            subst hτ; subst hS
            obtain ⟨E₁, hsub₁, hi₁, hty₁⟩ := iha fuel Γ S n τa S₁ n₁ ha E hi
            have hi₂ := unifySF_inv fuel S₁ n₁ _ _ S₂ n₂ E₁ hu₁ hi₁
            obtain ⟨E₃, hsub₃, hi₃, hty₃⟩ := ihb fuel Γ S₂ n₂ τb S₃ n₃ hb _ hi₂
            have hi₄ := unifySF_inv fuel S₃ n₃ _ _ S₄ n₄ E₃ hu₂ hi₃
            refine ⟨_, fun R h => hsub₁ R (sol_tail R _ _ (hsub₃ R (sol_tail R _ _ h))), hi₄, ?_⟩
            intro R hR Δ hrel
            have hR₃ := sol_tail R _ _ hR
            have hR₂ := hsub₃ R hR₃
            have hR₁ := sol_tail R _ _ hR₂
            have t₁ := hty₁ R hR₁ Δ hrel
            have t₃ := hty₃ R hR₃ Δ hrel
            rw [← sol_head R _ _ _ hR₂] at t₁
            rw [← sol_head R _ _ _ hR] at t₃
            exact HasType.lt Δ a b t₁ t₃
  | ifE c t e ihc iht ihe =>
    intro fuel Γ S n τ S' n' h E hi
    simp only [inferF] at h
    split at h
    · cases h
    · next τc S₁ n₁ hc =>
      split at h
      · cases h
      · next S₂ n₂ hu₁ =>
        split at h
        · cases h
        · next τt S₃ n₃ ht =>
          split at h
          · cases h
          · next τe S₄ n₄ he =>
            split at h
            · cases h
            · next S₅ n₅ hu₂ =>
              injection h with h; injection h with hτ h; injection h with hS _
              subst hτ; subst hS
              obtain ⟨E₁, hsub₁, hi₁, hty₁⟩ := ihc fuel Γ S n τc S₁ n₁ hc E hi
              have hi₂ := unifySF_inv fuel S₁ n₁ _ _ S₂ n₂ E₁ hu₁ hi₁
              obtain ⟨E₃, hsub₃, hi₃, hty₃⟩ := iht fuel Γ S₂ n₂ τt S₃ n₃ ht _ hi₂
              obtain ⟨E₄, hsub₄, hi₄, hty₄⟩ := ihe fuel Γ S₃ n₃ τe S₄ n₄ he _ hi₃
              have hi₅ := unifySF_inv fuel S₄ n₄ _ _ S₅ n₅ E₄ hu₂ hi₄
              refine ⟨_, fun R h => hsub₁ R (sol_tail R _ _ (hsub₃ R (hsub₄ R (sol_tail R _ _ h)))),
                hi₅, ?_⟩
              intro R hR Δ hrel
              have hR₄ := sol_tail R _ _ hR
              have hR₃ := hsub₄ R hR₄
              have hR₂ := hsub₃ R hR₃
              have hR₁ := sol_tail R _ _ hR₂
              have t₁ := hty₁ R hR₁ Δ hrel
              have t₃ := hty₃ R hR₃ Δ hrel
              have t₄ := hty₄ R hR₄ Δ hrel
              rw [← sol_head R _ _ _ hR₂] at t₁
              rw [← sol_head R _ _ _ hR] at t₄
              exact HasType.ifE Δ c t e _ t₁ t₃ t₄
  | fnil =>
    intro fuel Γ S n τ S' n' h E hi
    simp only [inferF] at h
    injection h with h; injection h with hτ h; injection h with hS _
    subst hτ; subst hS
    exact ⟨E, fun R h => h, hi, fun R _ Δ _ => HasType.fnil Δ⟩
  | fcons l e rest ihe ihr =>
    intro fuel Γ S n τ S' n' h E hi
    simp only [inferF] at h
    split at h
    · cases h
    · next τe S₁ n₁ he =>
      split at h
      · cases h
      · next ρ S₂ n₂ hr =>
        injection h with h; injection h with hτ h; injection h with hS _
        subst hτ; subst hS
        obtain ⟨E₁, hsub₁, hi₁, hty₁⟩ := ihe fuel Γ S n τe S₁ n₁ he E hi
        obtain ⟨E₂, hsub₂, hi₂, hty₂⟩ := ihr fuel Γ S₁ n₁ ρ S₂ n₂ hr E₁ hi₁
        refine ⟨E₂, fun R h => hsub₁ R (hsub₂ R h), hi₂, ?_⟩
        intro R hR Δ hrel
        simp only [Ty.subst]
        exact HasType.fcons Δ l e rest _ _ (hty₁ R (hsub₂ R hR) Δ hrel) (hty₂ R hR Δ hrel)
  | rcd f ih =>
    intro fuel Γ S n τ S' n' h E hi
    simp only [inferF] at h
    split at h
    · cases h
    · next ρ S₁ n₁ hf =>
      injection h with h; injection h with hτ h; injection h with hS _
      subst hτ; subst hS
      obtain ⟨E₁, hsub₁, hi₁, hty₁⟩ := ih fuel Γ S n ρ S₁ n₁ hf E hi
      refine ⟨E₁, hsub₁, hi₁, ?_⟩
      intro R hR Δ hrel
      simp only [tRec, Ty.subst]
      exact HasType.rcd Δ f _ (hty₁ R hR Δ hrel)
  | proj e l ih =>
    intro fuel Γ S n τ S' n' h E hi
    simp only [inferF] at h
    split at h
    · cases h
    · next τe S₁ n₁ he =>
      obtain ⟨E₁, hsub₁, hi₁, hty₁⟩ := ih fuel Γ S n τe S₁ n₁ he E hi
      -- the path through unification
      have via : ∀ (S₂ : Subst) (n₂ : Nat),
          unifySF false fuel S₁ (n₁ + 2) (tRec (.ext l (.var n₁) (.var (n₁ + 1)))) τe = .ok (S₂, n₂) →
          ∃ E', (∀ R, Sol R E' → Sol R E) ∧ Inv S₂ E' ∧
            ∀ R, Sol R E' → ∀ Δ, EnvRel Δ Γ R → HasType Δ (.proj e l) ((Ty.var n₁).subst R) := by
        intro S₂ n₂ hu
        have hi₂ := unifySF_inv fuel S₁ (n₁ + 2) _ _ S₂ n₂ E₁ hu hi₁
        refine ⟨_, fun R h => hsub₁ R (sol_tail R _ _ h), hi₂, ?_⟩
        intro R hR Δ hrel
        have t₁ := hty₁ R (sol_tail R _ _ hR) Δ hrel
        rw [← sol_head R _ _ _ hR] at t₁
        simp only [tRec, Ty.subst] at t₁
        exact HasType.proj Δ e l _ _ t₁ (HasField.here ..)
      have viaU : ∀ (r : Except UErr (Ty × Subst × Nat)),
          (match unifySF false fuel S₁ (n₁ + 2) (tRec (.ext l (.var n₁) (.var (n₁ + 1)))) τe with
            | .error err => (.error err : Except UErr (Ty × Subst × Nat))
            | .ok (S₂, n₂) => .ok (.var n₁, S₂, n₂)) = r → r = .ok (τ, S', n') →
          ∃ E', (∀ R, Sol R E' → Sol R E) ∧ Inv S' E' ∧
            ∀ R, Sol R E' → ∀ Δ, EnvRel Δ Γ R → HasType Δ (.proj e l) (τ.subst R) := by
        intro r hr hrr
        subst hrr
        split at hr
        · cases hr
        · next S₂ n₂ hu =>
          injection hr with hr; injection hr with hτ hr; injection hr with hS _
          subst hτ; subst hS
          exact via S₂ n₂ hu
      split at h
      · next row hrow =>
        split at h
        · next τl hl =>
          injection h with h; injection h with hτ h; injection h with hS _
          subst hτ; subst hS
          refine ⟨E₁, hsub₁, hi₁, ?_⟩
          intro R hR Δ hrel
          have t₁ := hty₁ R hR Δ hrel
          rw [← inv_absorb S₁ E₁ hi₁ R hR τe, asRec_some _ _ hrow] at t₁
          simp only [tRec, Ty.subst] at t₁
          exact HasType.proj Δ e l _ _ t₁ (hasField_subst R row l τl (hasField_of_lookup row l τl hl))
        · exact viaU _ rfl h
      · split at h
        · exact viaU _ rfl h
        · cases h
  | anil =>
    intro fuel Γ S n τ S' n' h E hi
    simp only [inferF] at h
    injection h with h; injection h with hτ h; injection h with hS _
    subst hτ; subst hS
    exact ⟨E, fun R h => h, hi, fun R _ Δ _ => by simp only [tArr, Ty.subst]; exact HasType.anil Δ _⟩
  | asnoc init e ihi ihe =>
    intro fuel Γ S n τ S' n' h E hi
    simp only [inferF] at h
    split at h
    · cases h
    · next τi S₁ n₁ hin =>
      split at h
      · cases h
      · next τe S₂ n₂ he =>
        split at h
        · cases h
        · next S₃ n₃ hu =>
          injection h with h; injection h with hτ h; injection h with hS _
          subst hτ; subst hS
          obtain ⟨E₁, hsub₁, hi₁, hty₁⟩ := ihi fuel Γ S n τi S₁ n₁ hin E hi
          obtain ⟨E₂, hsub₂, hi₂, hty₂⟩ := ihe fuel Γ S₁ n₁ τe S₂ n₂ he E₁ hi₁
          have hi₃ := unifySF_inv fuel S₂ n₂ _ _ S₃ n₃ E₂ hu hi₂
          refine ⟨_, fun R h => hsub₁ R (hsub₂ R (sol_tail R _ _ h)), hi₃, ?_⟩
          intro R hR Δ hrel
          have hR₂ := sol_tail R _ _ hR
          have heq := sol_head R _ _ _ hR
          have t₁ := hty₁ R (hsub₂ R hR₂) Δ hrel
          have t₂ := hty₂ R hR₂ Δ hrel
          rw [heq]
          rw [heq] at t₁
          simp only [tArr, Ty.subst] at t₁ ⊢
          exact HasType.asnoc Δ init e _ t₁ t₂
  | conA =>
    intro fuel Γ S n τ S' n' h E hi
    simp only [inferF] at h
    injection h with h; injection h with hτ h; injection h with hS _
    subst hτ; subst hS
    exact ⟨E, fun R h => h, hi, fun R _ Δ _ => by
      simp only [fn, tT, Ty.subst]; exact HasType.conA Δ _⟩
  | conB =>
    intro fuel Γ S n τ S' n' h E hi
    simp only [inferF] at h
    injection h with h; injection h with hτ h; injection h with hS _
    subst hτ; subst hS
    exact ⟨E, fun R h => h, hi, fun R _ Δ _ => by
      simp only [tT, Ty.subst]; exact HasType.conB Δ _⟩

/-- Soundness at every unification fuel. -/
theorem inferF_sound (fuel : Nat) (Γ : Env) (e : Expr) (n : Nat) (τ : Ty) (S : Subst) (n' : Nat)
    (h : inferF false fuel Γ e Subst.id n = .ok (τ, S, n')) :
    HasType (denote S Γ) e (τ.subst S) := by
  obtain ⟨E', _, hi', hty⟩ := infer_sound_aux e fuel Γ Subst.id n τ S n' h [] inv_nil
  exact hty S hi'.1 _ (envRel_denote S Γ)

/-- Soundness of inference (syntactic rows), all constructs including `let` with
    generalisation: what `infer` accepts is derivable, at the reported type, in the environment
    denoted by `Γ` under the final substitution. -/
theorem infer_sound (Γ : Env) (e : Expr) (n : Nat) (τ : Ty) (S : Subst) (n' : Nat)
    (h : infer false Γ e Subst.id n = .ok (τ, S, n')) :
    HasType (denote S Γ) e (τ.subst S) := by
  obtain ⟨E', _, hi', hty⟩ := infer_sound_aux e unifyFuel Γ Subst.id n τ S n'
    (by rw [inferF_unifyFuel]; exact h) [] inv_nil
  exact hty S hi'.1 _ (envRel_denote S Γ)

/-- … and at every instance of the reported type. -/
theorem infer_sound_inst (Γ : Env) (e : Expr) (n : Nat) (τ : Ty) (S : Subst) (n' : Nat) (Q : Subst)
    (h : infer false Γ e Subst.id n = .ok (τ, S, n')) :
    HasType (denote (Q.comp S) Γ) e ((τ.subst S).subst Q) := by
  obtain ⟨E', _, hi', hty⟩ := infer_sound_aux e unifyFuel Γ Subst.id n τ S n'
    (by rw [inferF_unifyFuel]; exact h) [] inv_nil
  have := hty (Q.comp S) (sol_comp S E' hi'.1 Q) _ (envRel_denote _ Γ)
  rw [subst_comp] at this
  exact this

end GluonModel.HM.Proofs
