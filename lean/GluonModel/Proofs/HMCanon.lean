/-
C03 — `canon` (variables numbered by first occurrence, what model and harness print) identifies
types that are instances of each other.
-/
import GluonModel.HM
import GluonModel.Proofs.HM
import GluonModel.Proofs.HMSound
import GluonModel.Proofs.HMComplete
import GluonModel.Proofs.HMPrincipal

namespace GluonModel.HM.Proofs
open GluonModel.HM

theorem indexOf_map_inj (q : Nat → Nat) (v : Nat) : ∀ (m : List Nat) (k : Nat),
    (∀ w, w ∈ m → q v = q w → v = w) → indexOf (q v) (m.map q) k = indexOf v m k := by
  intro m
  induction m with
  | nil => intro k _; rfl
  | cons w rest ih =>
    intro k hinj
    simp only [List.map, indexOf]
    by_cases hvw : v = w
    · subst hvw; simp
    · have : q v ≠ q w := fun h => hvw (hinj w (List.mem_cons_self ..) h)
      simp only [hvw, this, if_false]
      exact ih (k + 1) (fun w' hw' => hinj w' (List.mem_cons_of_mem _ hw'))

theorem canonGo_mem : ∀ (t : Ty) (m : List Nat) (x : Nat),
    x ∈ (canonGo t m).2 → x ∈ m ∨ x ∈ t.ftv := by
  intro t
  induction t with
  | var n =>
    intro m x hx
    simp only [canonGo] at hx
    split at hx
    · exact Or.inl hx
    · simp only [List.mem_append, List.mem_singleton] at hx
      rcases hx with hx | hx
      · exact Or.inl hx
      · exact Or.inr (by simp [Ty.ftv, hx])
  | con c => intro m x hx; exact Or.inl hx
  | empty => intro m x hx; exact Or.inl hx
  | app f a ihf iha =>
    intro m x hx
    simp only [canonGo] at hx
    rcases iha _ x hx with h | h
    · rcases ihf m x h with h | h
      · exact Or.inl h
      · exact Or.inr (by simp [Ty.ftv, h])
    · exact Or.inr (by simp [Ty.ftv, h])
  | ext l t r iht ihr =>
    intro m x hx
    simp only [canonGo] at hx
    rcases ihr _ x hx with h | h
    · rcases iht m x h with h | h
      · exact Or.inl h
      · exact Or.inr (by simp [Ty.ftv, h])
    · exact Or.inr (by simp [Ty.ftv, h])

/-- `canonGo` commutes with a renaming that is injective on the variables in sight -/
theorem canonGo_ren (q : Nat → Nat) : ∀ (t : Ty) (m : List Nat),
    (∀ v w, (v ∈ m ∨ v ∈ t.ftv) → (w ∈ m ∨ w ∈ t.ftv) → q v = q w → v = w) →
    canonGo (t.subst fun v => .var (q v)) (m.map q) = ((canonGo t m).1, (canonGo t m).2.map q) := by
  intro t
  induction t with
  | var n =>
    intro m hinj
    have hi := indexOf_map_inj q n m 0
      (fun w hw h => hinj n w (Or.inr (by simp [Ty.ftv])) (Or.inl hw) h)
    simp only [Ty.subst, canonGo, hi]
    cases indexOf n m 0 with
    | some i => rfl
    | none => simp
  | con c => intro m _; rfl
  | empty => intro m _; rfl
  | app f a ihf iha =>
    intro m hinj
    have h₁ := ihf m (fun v w hv hw => hinj v w
      (hv.elim Or.inl (fun h => Or.inr (by simp [Ty.ftv, h])))
      (hw.elim Or.inl (fun h => Or.inr (by simp [Ty.ftv, h]))))
    have sub : ∀ v, (v ∈ (canonGo f m).2 ∨ v ∈ a.ftv) → (v ∈ m ∨ v ∈ (Ty.app f a).ftv) := by
      intro v hv
      rcases hv with hv | hv
      · rcases canonGo_mem f m v hv with h | h
        · exact Or.inl h
        · exact Or.inr (by simp [Ty.ftv, h])
      · exact Or.inr (by simp [Ty.ftv, hv])
    have h₂ := iha (canonGo f m).2 (fun v w hv hw => hinj v w (sub v hv) (sub w hw))
    simp only [Ty.subst, canonGo, h₁, h₂]
  | ext l t r iht ihr =>
    intro m hinj
    have h₁ := iht m (fun v w hv hw => hinj v w
      (hv.elim Or.inl (fun h => Or.inr (by simp [Ty.ftv, h])))
      (hw.elim Or.inl (fun h => Or.inr (by simp [Ty.ftv, h]))))
    have sub : ∀ v, (v ∈ (canonGo t m).2 ∨ v ∈ r.ftv) → (v ∈ m ∨ v ∈ (Ty.ext l t r).ftv) := by
      intro v hv
      rcases hv with hv | hv
      · rcases canonGo_mem t m v hv with h | h
        · exact Or.inl h
        · exact Or.inr (by simp [Ty.ftv, h])
      · exact Or.inr (by simp [Ty.ftv, hv])
    have h₂ := ihr (canonGo t m).2 (fun v w hv hw => hinj v w (sub v hv) (sub w hw))
    simp only [Ty.subst, canonGo, h₁, h₂]

theorem canon_ren (q : Nat → Nat) (t : Ty)
    (hinj : ∀ v w, v ∈ t.ftv → w ∈ t.ftv → q v = q w → v = w) :
    canon (t.subst fun v => .var (q v)) = canon t := by
  have := canonGo_ren q t [] (fun v w hv hw => hinj v w
    (hv.elim (fun h => by cases h) id) (hw.elim (fun h => by cases h) id))
  simp only [List.map_nil] at this
  simp only [canon, this]

theorem subst_eq_var (σ : Subst) (t : Ty) (v : Nat) (h : t.subst σ = .var v) : ∃ w, t = .var w := by
  cases t with
  | var w => exact ⟨w, rfl⟩
  | con c => simp [Ty.subst] at h
  | empty => simp [Ty.subst] at h
  | app f a => simp [Ty.subst] at h
  | ext l t r => simp [Ty.subst] at h

/-- the variable a substitution maps `v` to (0 if it is not a variable) -/
def varOf (Q : Subst) (v : Nat) : Nat :=
  match Q v with
  | .var w => w
  | _ => 0

/-- Types that are instances of each other have the same canonical form. -/
theorem canon_of_tyEquiv (a b : Ty) (h : TyEquiv a b) : canon a = canon b := by
  obtain ⟨⟨Q, hQ⟩, ⟨Q', hQ'⟩⟩ := h
  -- on the variables of `a`, `Q` followed by `Q'` is the identity
  have hid : ∀ v, v ∈ a.ftv → (Q v).subst Q' = .var v := by
    have e : a.subst (Q'.comp Q) = a.subst Subst.id := by
      rw [subst_comp, ← hQ, ← hQ', subst_id]
    exact subst_eq_ftv (Q'.comp Q) Subst.id a e
  have hvar : ∀ v, v ∈ a.ftv → Q v = .var (varOf Q v) := by
    intro v hv
    obtain ⟨w, hw⟩ := subst_eq_var Q' (Q v) v (hid v hv)
    simp only [varOf, hw]
  have hb : b = a.subst fun v => .var (varOf Q v) := by
    rw [hQ]
    exact subst_congr_ftv _ _ a hvar
  rw [hb]
  symm
  apply canon_ren
  intro v w hv hw hq
  have e₁ := hid v hv
  have e₂ := hid w hw
  rw [hvar v hv, hq, ← hvar w hw, e₂] at e₁
  injection e₁ with e₁
  exact e₁.symm

/-- unused binding, both programs accepted: the canonical answers are EQUAL -/
theorem inferTop_unused_let (x : String) (e b : Expr) (hx : x ∉ fv b) (hfr : NoProj (.letE x e b))
    (τ : Ty) (S : Subst) (n : Nat) (τ₂ : Ty) (S₂ : Subst) (n₂ : Nat)
    (h₁ : infer false [] b Subst.id 0 = .ok (τ, S, n))
    (h₂ : infer false [] (.letE x e b) Subst.id 0 = .ok (τ₂, S₂, n₂)) :
    inferTop false (.letE x e b) = inferTop false b := by
  have heq := (infer_unused_let_noProj x e b hx hfr).1 τ S n τ₂ S₂ n₂ h₁ h₂
  simp only [inferTop, h₁, h₂, canon_of_tyEquiv _ _ heq]

theorem inferTop_bridge (e : Expr) (h : ProjFree e) : inferTop true e = inferTop false e := by
  simp only [inferTop, infer_bridge e 0 h]

end GluonModel.HM.Proofs
