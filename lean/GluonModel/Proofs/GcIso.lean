/-
C13: the deep clone is ISOMORPHIC to the source graph (sharing and cycles preserved by the
`visited` map). Model: `GluonModel.GcHeap`.
-/
import GluonModel.GcHeap
import GluonModel.Proofs.GcHeap

namespace GluonModel.GcHeap

def isCode (s0 : State) (x : Nat) : Bool :=
  match s0.obj x with
  | some o => o.kind == .code
  | none => false

/-- What the cloner returns for `x` once `x` has been dealt with: `x` itself when it is shared
    (generation shortcut) or bytecode, else its entry in the `visited` map. -/
def phi (s0 : State) (rgen : Option Nat) (vis : List (Nat × Nat)) (x : Nat) : Nat :=
  if shareable s0 rgen x || isCode s0 x then x else (lookupVis vis x).getD x

def Resolved (s0 : State) (rgen : Option Nat) (vis : List (Nat × Nat)) (x : Nat) : Prop :=
  shareable s0 rgen x = true ∨ isCode s0 x = true ∨ ∃ n, lookupVis vis x = some n

def VisMono (v v' : List (Nat × Nat)) : Prop := ∀ x n, lookupVis v x = some n → lookupVis v' x = some n

theorem VisMono.refl (v : List (Nat × Nat)) : VisMono v v := fun _ _ h => h
theorem VisMono.trans {a b c : List (Nat × Nat)} (h1 : VisMono a b) (h2 : VisMono b c) :
    VisMono a c := fun x n h => h2 x n (h1 x n h)

theorem phi_stable {s0 : State} {rgen : Option Nat} {v v' : List (Nat × Nat)} {x : Nat}
    (hr : Resolved s0 rgen v x) (hm : VisMono v v') :
    phi s0 rgen v' x = phi s0 rgen v x ∧ Resolved s0 rgen v' x := by
  rcases hr with h | h | ⟨n, h⟩
  · exact ⟨by simp [phi, h], Or.inl h⟩
  · exact ⟨by simp [phi, h], Or.inr (Or.inl h)⟩
  · refine ⟨?_, Or.inr (Or.inr ⟨n, hm x n h⟩)⟩
    simp only [phi]
    rw [hm x n h, h]

theorem map_phi_stable {s0 : State} {rgen : Option Nat} {v v' : List (Nat × Nat)} {es : List Nat}
    (hr : ∀ e ∈ es, Resolved s0 rgen v e) (hm : VisMono v v') :
    es.map (phi s0 rgen v') = es.map (phi s0 rgen v) ∧ ∀ e ∈ es, Resolved s0 rgen v' e := by
  refine ⟨List.map_congr_left fun e he => (phi_stable (hr e he) hm).1,
    fun e he => (phi_stable (hr e he) hm).2⟩

/-- Extra invariant of the cloner state: the `visited` map is an injection from source objects
    (of `Rel`) onto the objects allocated so far. -/
structure CI2 (s0 : State) (Rel : Nat → Prop) (c : Cl) : Prop where
  visNew : ∀ x n, lookupVis c.vis x = some n → s0.next ≤ n ∧ n < c.s.next ∧ Rel x
  visInj : ∀ x y n, lookupVis c.vis x = some n → lookupVis c.vis y = some n → x = y
  onto : ∀ n, s0.next ≤ n → n < c.s.next → ∃ x, lookupVis c.vis x = some n

/-- The copy `n` is finished: it is the entry of a source object `x`, has `x`'s kind and its
    out-edges are the images of `x`'s out-edges. -/
def Done (s0 : State) (rgen : Option Nat) (dst : HeapId) (c : Cl) (n : Nat) : Prop :=
  ∃ x ox on, lookupVis c.vis x = some n ∧ s0.obj x = some ox ∧ c.s.obj n = some on ∧
    on.kind = ox.kind ∧ on.owner = dst ∧ on.edges = ox.edges.map (phi s0 rgen c.vis) ∧
    ∀ e ∈ ox.edges, Resolved s0 rgen c.vis e

theorem Done.stable {s0 : State} {rgen : Option Nat} {dst : HeapId} {c c' : Cl} {n : Nat}
    (h : Done s0 rgen dst c n) (hm : VisMono c.vis c'.vis) (hobj : c'.s.obj n = c.s.obj n) :
    Done s0 rgen dst c' n := by
  obtain ⟨x, ox, on, h1, h2, h3, h4, h5, h6, h7⟩ := h
  obtain ⟨e1, e2⟩ := map_phi_stable h7 hm
  exact ⟨x, ox, on, hm x n h1, h2, by rw [hobj]; exact h3, h4, h5, by rw [e1]; exact h6, e2⟩

structure IsoPost (s0 : State) (rgen : Option Nat) (dst : HeapId) (Rel : Nat → Prop)
    (c c' : Cl) (v r : Nat) : Prop where
  mono : VisMono c.vis c'.vis
  ci2 : CI2 s0 Rel c'
  res : r = phi s0 rgen c'.vis v ∧ Resolved s0 rgen c'.vis v
  done : ∀ n, c.s.next ≤ n → n < c'.s.next → Done s0 rgen dst c' n

structure IsoPostL (s0 : State) (rgen : Option Nat) (dst : HeapId) (Rel : Nat → Prop)
    (c c' : Cl) (es rs : List Nat) : Prop where
  mono : VisMono c.vis c'.vis
  ci2 : CI2 s0 Rel c'
  res : rs = es.map (phi s0 rgen c'.vis) ∧ ∀ e ∈ es, Resolved s0 rgen c'.vis e
  done : ∀ n, c.s.next ≤ n → n < c'.s.next → Done s0 rgen dst c' n

theorem cloneEdges_iso {fixed : Bool} {s0 : State} {rgen : Option Nat} {dst thr : HeapId}
    {Rel : Nat → Prop} (k : Cl → Nat → Option (Cl × Nat))
    (hkP : ∀ c v c' r, CI s0 dst c → Rel v → k c v = some (c', r) → Post fixed s0 dst thr c c' r)
    (hkI : ∀ c v c' r, CI s0 dst c → CI2 s0 Rel c → Rel v → k c v = some (c', r) →
      IsoPost s0 rgen dst Rel c c' v r) :
    ∀ (es : List Nat) (c c' : Cl) (rs : List Nat), CI s0 dst c → CI2 s0 Rel c →
      (∀ e ∈ es, Rel e) → cloneEdges k c es = some (c', rs) →
      IsoPostL s0 rgen dst Rel c c' es rs := by
  intro es
  induction es with
  | nil =>
    intro c c' rs hci hci2 _ h
    simp [cloneEdges] at h
    obtain ⟨rfl, rfl⟩ := h
    exact ⟨VisMono.refl _, hci2, ⟨rfl, by simp⟩, fun n h1 h2 => by omega⟩
  | cons e es ih =>
    intro c c' rs hci hci2 hrel h
    simp only [cloneEdges] at h
    cases hke : k c e with
    | none => simp [hke] at h
    | some p1 =>
      obtain ⟨c1, e'⟩ := p1
      simp only [hke] at h
      cases hrest : cloneEdges k c1 es with
      | none => simp [hrest] at h
      | some p2 =>
        obtain ⟨c2, es'⟩ := p2
        simp only [hrest, Option.some.injEq, Prod.mk.injEq] at h
        obtain ⟨rfl, rfl⟩ := h
        have hrel' : ∀ x ∈ es, Rel x := fun x hx => hrel x (List.mem_cons_of_mem _ hx)
        have p1 := hkP c e c1 e' hci (hrel e List.mem_cons_self) hke
        have q1 := hkI c e c1 e' hci hci2 (hrel e List.mem_cons_self) hke
        have p2 := cloneEdges_post k hkP es c1 c2 es' p1.ci hrel' hrest
        have q2 := ih c1 c2 es' p1.ci q1.ci2 hrel' hrest
        refine ⟨q1.mono.trans q2.mono, q2.ci2, ?_, ?_⟩
        · obtain ⟨st1, st2⟩ := phi_stable q1.res.2 q2.mono
          refine ⟨?_, ?_⟩
          · simp only [List.map_cons]
            rw [st1, ← q1.res.1, ← q2.res.1]
          · intro x hx
            rcases List.mem_cons.mp hx with hx | hx
            · subst hx; exact st2
            · exact q2.res.2 x hx
        · intro n h1 h2
          by_cases hn : n < c1.s.next
          · exact (q1.done n h1 hn).stable q2.mono (p2.ext.2 n hn)
          · exact q2.done n (by omega) h2

theorem lookupVis_cons (a b : Nat) (vis : List (Nat × Nat)) (x : Nat) :
    lookupVis ((a, b) :: vis) x = if a = x then some b else lookupVis vis x := rfl

theorem viaVisited_iso {fixed : Bool} {s0 : State} {rgen : Option Nat} {dst thr : HeapId}
    {Rel : Nat → Prop} (k : Cl → Nat → Option (Cl × Nat))
    (hkP : ∀ c v c' r, CI s0 dst c → Rel v → k c v = some (c', r) → Post fixed s0 dst thr c c' r)
    (hkI : ∀ c v c' r, CI s0 dst c → CI2 s0 Rel c → Rel v → k c v = some (c', r) →
      IsoPost s0 rgen dst Rel c c' v r)
    {c c' : Cl} {v r : Nat} {o : Obj} {kind : Kind} {home : HeapId}
    (hci : CI s0 dst c) (hci2 : CI2 s0 Rel c) (hrelv : Rel v) (ho : s0.obj v = some o)
    (hedges : ∀ e ∈ o.edges, Rel e) (hkeq : kind = o.kind)
    (hns : shareable s0 rgen v = false) (hnc : isCode s0 v = false)
    (h : viaVisited k dst c v o kind home = some (c', r)) :
    IsoPost s0 rgen dst Rel c c' v r := by
  have hphi : ∀ vis n, lookupVis vis v = some n → phi s0 rgen vis v = n := by
    intro vis n hl; simp [phi, hns, hnc, hl]
  unfold viaVisited at h
  cases hl : lookupVis c.vis v with
  | some n =>
    simp only [hl, Option.some.injEq, Prod.mk.injEq] at h
    obtain ⟨rfl, rfl⟩ := h
    exact ⟨VisMono.refl _, hci2, ⟨(hphi _ _ hl).symm, Or.inr (Or.inr ⟨_, hl⟩)⟩,
      fun n h1 h2 => by omega⟩
  | none =>
    simp only [hl] at h
    let c1 : Cl := ⟨c.s.push ⟨dst, home, kind, o.edges⟩, (v, c.s.next) :: c.vis⟩
    have hc1 : CI s0 dst c1 := by
      refine ⟨hci.wf.push _, hci.ext.trans (Ext.push hci.wf _), ?_⟩
      intro v' n' hmem
      rcases List.mem_cons.mp hmem with heq | hmem
      · cases heq
        exact ⟨⟨dst, home, kind, o.edges⟩, by simp [c1, State.push], rfl⟩
      · obtain ⟨on, hon, hown⟩ := hci.vis v' n' hmem
        refine ⟨on, ?_, hown⟩
        show (c.s.push _).obj n' = some on
        rw [(Ext.push hci.wf _).2 n' (hci.wf.lt hon)]; exact hon
    have hs0n : s0.next ≤ c.s.next := hci.ext.1
    have hmono1 : VisMono c.vis c1.vis := by
      intro x n hx
      show lookupVis ((v, c.s.next) :: c.vis) x = some n
      rw [lookupVis_cons]
      by_cases hvx : v = x
      · subst hvx; rw [hl] at hx; cases hx
      · rw [if_neg hvx]; exact hx
    have hc12 : CI2 s0 Rel c1 := by
      refine ⟨?_, ?_, ?_⟩
      · intro x n hx
        have hx' : lookupVis ((v, c.s.next) :: c.vis) x = some n := hx
        rw [lookupVis_cons] at hx'
        by_cases hvx : v = x
        · subst hvx
          rw [if_pos rfl] at hx'; cases hx'
          exact ⟨hs0n, by simp [c1, State.push], hrelv⟩
        · rw [if_neg hvx] at hx'
          obtain ⟨a, b, d⟩ := hci2.visNew x n hx'
          exact ⟨a, by simp only [c1, State.push]; omega, d⟩
      · intro x y n hx hy
        have hx' : lookupVis ((v, c.s.next) :: c.vis) x = some n := hx
        have hy' : lookupVis ((v, c.s.next) :: c.vis) y = some n := hy
        rw [lookupVis_cons] at hx' hy'
        by_cases hvx : v = x <;> by_cases hvy : v = y
        · rw [← hvx, ← hvy]
        · rw [if_pos hvx] at hx'; rw [if_neg hvy] at hy'
          cases hx'
          have := (hci2.visNew y _ hy').2.1
          omega
        · rw [if_neg hvx] at hx'; rw [if_pos hvy] at hy'
          cases hy'
          have := (hci2.visNew x _ hx').2.1
          omega
        · rw [if_neg hvx] at hx'; rw [if_neg hvy] at hy'
          exact hci2.visInj x y n hx' hy'
      · intro n h1 h2
        by_cases hn : n = c.s.next
        · subst hn
          exact ⟨v, by show lookupVis ((v, c.s.next) :: c.vis) v = _; rw [lookupVis_cons, if_pos rfl]⟩
        · have h2' : n < c.s.next := by simp only [c1, State.push] at h2; omega
          obtain ⟨x, hx⟩ := hci2.onto n h1 h2'
          exact ⟨x, hmono1 x n hx⟩
    cases hce : cloneEdges k c1 o.edges with
    | none => simp [c1] at hce; simp [hce] at h
    | some p2 =>
      obtain ⟨c2, es⟩ := p2
      have hce' := hce
      simp only [c1] at hce'
      simp only [hce', Option.some.injEq, Prod.mk.injEq] at h
      obtain ⟨rfl, rfl⟩ := h
      have pl := cloneEdges_post k hkP o.edges c1 c2 es hc1 hedges hce
      have ql := cloneEdges_iso k hkP hkI o.edges c1 c2 es hc1 hc12 hedges hce
      have hn1 : c.s.next < c1.s.next := by simp [c1, State.push]
      have hplace : c2.s.obj c.s.next = some ⟨dst, home, kind, o.edges⟩ := by
        rw [pl.ext.2 _ hn1]; simp [c1, State.push]
      have hlv : lookupVis c2.vis v = some c.s.next :=
        ql.mono v _ (by show lookupVis ((v, c.s.next) :: c.vis) v = _; rw [lookupVis_cons, if_pos rfl])
      refine ⟨hmono1.trans ql.mono, ?_, ⟨(hphi _ _ hlv).symm, Or.inr (Or.inr ⟨_, hlv⟩)⟩, ?_⟩
      · exact ⟨fun x n hx => by
            obtain ⟨a, b, d⟩ := ql.ci2.visNew x n hx
            exact ⟨a, by simpa [State.setEdges] using b, d⟩,
          ql.ci2.visInj,
          fun n h1 h2 => ql.ci2.onto n h1 (by simpa [State.setEdges] using h2)⟩
      · intro n h1 h2
        by_cases hn : n = c.s.next
        · subst hn
          refine ⟨v, o, ⟨dst, home, kind, es⟩, hlv, ho, by simp [State.setEdges, hplace], hkeq, rfl,
            ql.res.1, ql.res.2⟩
        · have h2' : n < c2.s.next := by simpa [State.setEdges] using h2
          have hd := ql.done n (by simp [c1, State.push]; omega) h2'
          refine hd.stable (VisMono.refl _) ?_
          simp only [State.setEdges, hn, if_false]

/-- Kinds whose unrepaired clone rule bypasses the `visited` map / the shortcut. -/
def BypassKind (k : Kind) : Prop := k = .cell ∨ k = .aarr ∨ k = .uarr

theorem cloneVal_iso {s0 : State} {dst thr : HeapId} {rgen : Option Nat} {fixed : Bool}
    {Rel : Nat → Prop} (ctx : CloneCtx s0 dst rgen fixed Rel)
    (hcell : ∀ v o, Rel v → s0.obj v = some o → shareable s0 rgen v = false → BypassKind o.kind →
      fixed = true) :
    ∀ (f : Nat) (c : Cl) (v : Nat) (c' : Cl) (r : Nat), CI s0 dst c → CI2 s0 Rel c → Rel v →
      cloneVal dst thr rgen fixed f false c v = some (c', r) → IsoPost s0 rgen dst Rel c c' v r := by
  intro f
  induction f with
  | zero => intro c v c' r _ _ _ h; simp [cloneVal] at h
  | succ f ih =>
    intro c v c' r hci hci2 hrel h
    have hkP : ∀ c v c' r, CI s0 dst c → Rel v →
        cloneVal dst thr rgen fixed f false c v = some (c', r) →
        Post fixed s0 dst thr c c' r := fun c v c' r a b d => cloneVal_post ctx f false c v c' r a b d
    obtain ⟨o, ho⟩ := ctx.live v hrel
    have hv : v < s0.next := ctx.wf.lt ho
    have hoc : c.s.obj v = some o := by rw [hci.ext.2 v hv]; exact ho
    have hsh := shareable_ext (rgen := rgen) hci.ext hv
    simp only [cloneVal, Bool.not_false, Bool.true_and] at h
    by_cases hs : shareable s0 rgen v = true
    · rw [hsh, hs] at h
      simp only [if_true, Option.some.injEq, Prod.mk.injEq] at h
      obtain ⟨rfl, rfl⟩ := h
      exact ⟨VisMono.refl _, hci2, ⟨by simp [phi, hs], Or.inl hs⟩, fun n h1 h2 => by omega⟩
    · have hs' : shareable s0 rgen v = false := by
        cases hb : shareable s0 rgen v
        · rfl
        · exact absurd hb hs
      rw [hsh, hs'] at h
      simp only [Bool.false_eq_true, if_false, hoc] at h
      have hedges : o.kind ≠ .thread → ∀ e ∈ o.edges, Rel e := ctx.closed v o hrel ho
      cases hk : o.kind with
      | udata => simp [hk] at h
      | thread => simp [hk] at h
      | code =>
        simp only [hk, Option.some.injEq, Prod.mk.injEq] at h
        obtain ⟨rfl, rfl⟩ := h
        have hc : isCode s0 v = true := by simp [isCode, ho, hk]
        exact ⟨VisMono.refl _, hci2, ⟨by simp [phi, hc], Or.inr (Or.inl hc)⟩,
          fun n h1 h2 => by omega⟩
      | plain =>
        simp only [hk] at h
        have hnc : isCode s0 v = false := by simp [isCode, ho, hk]
        exact viaVisited_iso _ hkP ih hci hci2 hrel ho (hedges (by simp [hk])) hk.symm hs' hnc h
      | aarr =>
        have hfx := hcell v o hrel ho hs' (Or.inr (Or.inl hk))
        subst hfx
        simp only [hk, Bool.not_true] at h
        have hnc : isCode s0 v = false := by simp [isCode, ho, hk]
        exact viaVisited_iso _ hkP ih hci hci2 hrel ho (hedges (by simp [hk])) hk.symm hs' hnc h
      | uarr =>
        have hfx := hcell v o hrel ho hs' (Or.inr (Or.inr hk))
        subst hfx
        simp only [hk, Bool.not_true] at h
        have hnc : isCode s0 v = false := by simp [isCode, ho, hk]
        exact viaVisited_iso _ hkP ih hci hci2 hrel ho (hedges (by simp [hk])) hk.symm hs' hnc h
      | shallow =>
        have hfx := ctx.noShallow v o hrel ho hk
        subst hfx
        simp only [hk, if_true] at h
        have hnc : isCode s0 v = false := by simp [isCode, ho, hk]
        exact viaVisited_iso _ hkP ih hci hci2 hrel ho (hedges (by simp [hk])) hk.symm hs' hnc h
      | cell =>
        have hfx := hcell v o hrel ho hs' (Or.inl hk)
        subst hfx
        simp only [hk, if_true] at h
        have hnc : isCode s0 v = false := by simp [isCode, ho, hk]
        exact viaVisited_iso _ hkP ih hci hci2 hrel ho (hedges (by simp [hk])) hk.symm hs' hnc h

/-- **The deep clone is isomorphic to the source graph.** With `φ := phi s0 rgen vis` for the final
    `visited` map `vis`:
    * the result is `φ v0`; `φ` is the identity on shared (generation shortcut) and bytecode objects;
    * every entry `x ↦ n` of `vis`: `x` is a source object of `Rel`, `n` is a NEW object owned by
      `dst`, of the kind of `x`, whose out-edges are exactly the `φ`-images of `x`'s out-edges
      (`φ` commutes with edges — sharing and cycles are preserved);
    * `vis` is injective, and onto the new objects: a bijection between the copied source objects
      and the objects the clone allocated;
    * every out-edge of a copied object is resolved (shared, bytecode or copied itself);
    * nothing that existed before is modified. -/
theorem deepClone_iso' {s0 s' : State} {dst thr : HeapId} {rgen : Option Nat} {fixed : Bool}
    {Rel : Nat → Prop} (ctx : CloneCtx s0 dst rgen fixed Rel)
    (hcell : ∀ v o, Rel v → s0.obj v = some o → shareable s0 rgen v = false → BypassKind o.kind →
      fixed = true)
    {v0 r : Nat} (hv : Rel v0) (h : deepClone s0 dst thr rgen fixed v0 = some (s', r)) :
    ∃ vis : List (Nat × Nat),
      r = phi s0 rgen vis v0 ∧ Resolved s0 rgen vis v0 ∧
      (∀ x n, lookupVis vis x = some n →
        Rel x ∧ s0.next ≤ n ∧ n < s'.next ∧
        ∃ ox on, s0.obj x = some ox ∧ s'.obj n = some on ∧ on.kind = ox.kind ∧ on.owner = dst ∧
          on.edges = ox.edges.map (phi s0 rgen vis) ∧ ∀ e ∈ ox.edges, Resolved s0 rgen vis e) ∧
      (∀ x y n, lookupVis vis x = some n → lookupVis vis y = some n → x = y) ∧
      (∀ n, s0.next ≤ n → n < s'.next → ∃ x, lookupVis vis x = some n) ∧
      Ext s0 s' := by
  unfold deepClone at h
  cases hc : cloneVal dst thr rgen fixed (cloneFuel s0) false ⟨s0, []⟩ v0 with
  | none => simp [hc] at h
  | some p =>
    obtain ⟨c, r'⟩ := p
    simp only [hc, Option.some.injEq, Prod.mk.injEq] at h
    obtain ⟨rfl, rfl⟩ := h
    have hci : CI s0 dst ⟨s0, []⟩ := ⟨ctx.wf, Ext.refl _, by intro v n h; simp at h⟩
    have hci2 : CI2 s0 Rel ⟨s0, []⟩ :=
      ⟨by intro x n h; simp [lookupVis] at h, by intro x y n h; simp [lookupVis] at h,
        by intro n h1 h2; exact absurd h2 (by simpa using h1)⟩
    have p := cloneVal_post (thr := thr) ctx _ _ _ _ _ _ hci hv hc
    have q := cloneVal_iso (thr := thr) ctx hcell _ _ _ _ _ hci hci2 hv hc
    refine ⟨c.vis, q.res.1, q.res.2, ?_, q.ci2.visInj, q.ci2.onto, p.ext⟩
    intro x n hx
    obtain ⟨a, b, d⟩ := q.ci2.visNew x n hx
    obtain ⟨x', ox, on, h1, h2, h3, h4, h5, h6, h7⟩ := q.done n a b
    have : x' = x := q.ci2.visInj x' x n h1 hx
    subst this
    exact ⟨d, a, b, ox, on, h2, h3, h4, h5, h6, h7⟩

end GluonModel.GcHeap
