/-
Lemmas for C05 / C13 (model: `GluonModel.GcHeap`).
-/
import GluonModel.GcHeap

namespace GluonModel.GcHeap

/-! ## Reachability -/

/-- `p` is reachable from a root in `R` along out-edges of live objects. -/
inductive Reach (s : State) (R : Nat → Prop) : Nat → Prop
  | root {p} : R p → Reach s R p
  | step {q p o} : Reach s R q → s.obj q = some o → p ∈ o.edges → Reach s R p

/-- A root of the running system: held by some thread (stack, host handle, child list — the
    out-edges of a `Thread` object) or by the global table. -/
def AllRoots (s : State) (p : Nat) : Prop :=
  (∃ i o, s.obj i = some o ∧ o.kind = .thread ∧ p ∈ o.edges) ∨ p ∈ s.groots

/-- What the marker can reach: from the roots of the collection, never entering an object of
    an older generation. -/
inductive ReachNS (s : State) (t : HeapId) : Nat → Prop
  | root {p} : p ∈ rootsOf s t → skip s t p = false → ReachNS s t p
  | step {q p o} : ReachNS s t q → s.obj q = some o → p ∈ o.edges → skip s t p = false →
      ReachNS s t p

/-- ids at or above `next` are unused. -/
def WF (s : State) : Prop := ∀ i, s.next ≤ i → s.obj i = none

/-- **The heap invariant**: every pointer goes to the same or an ancestor heap of the heap the
    holder may point into. -/
def Inv (s : State) : Prop :=
  ∀ q oq p op, s.obj q = some oq → p ∈ oq.edges → s.obj p = some op → op.owner <+: oq.home

/-- Every object other than a `Thread` object points only where it lives (`home = owner`). For a
    mutable cell this says `cell.thread`'s heap is the heap that owns the cell. -/
def Homed (s : State) : Prop :=
  ∀ q oq, s.obj q = some oq → oq.kind ≠ .thread → oq.home = oq.owner

/-- The global table only holds values of the global heap. -/
def GRootsGlobal (s : State) : Prop :=
  ∀ p op, p ∈ s.groots → s.obj p = some op → op.owner = []

theorem mem_rootsOf {s : State} {t : HeapId} {p : Nat} :
    p ∈ rootsOf s t ↔ ∃ i o, i < s.next ∧ s.obj i = some o ∧ o.kind = .thread ∧
      t <+: o.home ∧ p ∈ o.edges := by
  unfold rootsOf State.ids
  simp only [List.mem_flatMap, List.mem_range]
  constructor
  · rintro ⟨i, hi, h⟩
    cases ho : s.obj i with
    | none => simp [ho] at h
    | some o =>
      simp only [ho] at h
      split at h
      · rename_i hc
        exact ⟨i, o, hi, ho, hc.1, List.isPrefixOf_iff_prefix.mp hc.2, h⟩
      · simp at h
  · rintro ⟨i, o, hi, ho, hk, hp, he⟩
    refine ⟨i, hi, ?_⟩
    simp only [ho]
    rw [if_pos ⟨hk, List.isPrefixOf_iff_prefix.mpr hp⟩]
    exact he

/-! ## `markGo` computes exactly `ReachNS` -/

theorem markGo_sound (s : State) (t : HeapId) (P : Nat → Prop)
    (hstep : ∀ q o p, P q → s.obj q = some o → p ∈ o.edges → skip s t p = false → P p) :
    ∀ (f : Nat) (w vis m : List Nat),
      (∀ x ∈ w, skip s t x = false → P x) → (∀ x ∈ vis, P x) →
      markGo s t f w vis = some m → ∀ x ∈ m, P x := by
  intro f
  induction f with
  | zero =>
    intro w vis m hw hv h
    cases w with
    | nil => simp [markGo] at h; subst h; exact hv
    | cons x w => simp [markGo] at h
  | succ f ih =>
    intro w vis m hw hv h
    cases w with
    | nil => simp [markGo] at h; subst h; exact hv
    | cons x w =>
      simp only [markGo] at h
      split at h
      · exact ih w vis m (fun y hy => hw y (List.mem_cons_of_mem _ hy)) hv h
      · rename_i hc
        have hsk : skip s t x = false := by
          cases hs : skip s t x <;> simp [hs] at hc ⊢
        have hPx : P x := hw x (List.mem_cons_self) hsk
        refine ih (succs s x ++ w) (x :: vis) m ?_ ?_ h
        · intro y hy hys
          rcases List.mem_append.mp hy with hy | hy
          · unfold succs at hy
            cases ho : s.obj x with
            | none => simp [ho] at hy
            | some o =>
              simp only [ho] at hy
              exact hstep x o y hPx ho hy hys
          · exact hw y (List.mem_cons_of_mem _ hy) hys
        · intro y hy
          rcases List.mem_cons.mp hy with hy | hy
          · subst hy; exact hPx
          · exact hv y hy

theorem markGo_complete (s : State) (t : HeapId) :
    ∀ (f : Nat) (w vis m : List Nat), markGo s t f w vis = some m →
      (∀ x ∈ vis, x ∈ m) ∧ (∀ x ∈ w, skip s t x = false → x ∈ m) ∧
      ((∀ v ∈ vis, ∀ e ∈ succs s v, skip s t e = false → e ∈ vis ∨ e ∈ w) →
        (∀ v ∈ m, ∀ e ∈ succs s v, skip s t e = false → e ∈ m)) := by
  intro f
  induction f with
  | zero =>
    intro w vis m h
    cases w with
    | nil =>
      simp [markGo] at h; subst h
      refine ⟨fun x hx => hx, by simp, ?_⟩
      intro hc v hv e he hs
      rcases hc v hv e he hs with h | h
      · exact h
      · simp at h
    | cons x w => simp [markGo] at h
  | succ f ih =>
    intro w vis m h
    cases w with
    | nil =>
      simp [markGo] at h; subst h
      refine ⟨fun x hx => hx, by simp, ?_⟩
      intro hc v hv e he hs
      rcases hc v hv e he hs with h | h
      · exact h
      · simp at h
    | cons x w =>
      simp only [markGo] at h
      split at h
      · rename_i hc
        obtain ⟨h1, h2, h3⟩ := ih w vis m h
        refine ⟨h1, ?_, ?_⟩
        · intro y hy hys
          rcases List.mem_cons.mp hy with hy | hy
          · subst hy
            have : vis.contains y = true := by simpa [hys] using hc
            exact h1 y (by simpa using this)
          · exact h2 y hy hys
        · intro hcl
          apply h3
          intro v hv e he hs
          rcases hcl v hv e he hs with h | h
          · exact Or.inl h
          · rcases List.mem_cons.mp h with h | h
            · subst h
              have : vis.contains e = true := by simpa [hs] using hc
              exact Or.inl (by simpa using this)
            · exact Or.inr h
      · obtain ⟨h1, h2, h3⟩ := ih (succs s x ++ w) (x :: vis) m h
        refine ⟨fun y hy => h1 y (List.mem_cons_of_mem _ hy), ?_, ?_⟩
        · intro y hy hys
          rcases List.mem_cons.mp hy with hy | hy
          · subst hy; exact h1 y (List.mem_cons_self)
          · exact h2 y (List.mem_append_right _ hy) hys
        · intro hcl
          apply h3
          intro v hv e he hs
          rcases List.mem_cons.mp hv with hv | hv
          · subst hv; exact Or.inr (List.mem_append_left _ he)
          · rcases hcl v hv e he hs with h | h
            · exact Or.inl (List.mem_cons_of_mem _ h)
            · rcases List.mem_cons.mp h with h | h
              · subst h; exact Or.inl (List.mem_cons_self)
              · exact Or.inr (List.mem_append_right _ h)

/-- The mark set is exactly what is reachable from the collection's roots without entering an
    older generation. -/
theorem mark_spec {s : State} {t : HeapId} {m : List Nat} (h : mark s t = some m) (p : Nat) :
    p ∈ m ↔ ReachNS s t p := by
  unfold mark at h
  constructor
  · intro hp
    refine markGo_sound s t (ReachNS s t) ?_ _ _ _ m ?_ ?_ h p hp
    · intro q o p hq ho he hs; exact ReachNS.step hq ho he hs
    · intro x hx hs; exact ReachNS.root hx hs
    · intro x hx; simp at hx
  · intro hp
    obtain ⟨_, h2, h3⟩ := markGo_complete s t _ _ _ m h
    have hcl := h3 (by intro v hv; simp at hv)
    induction hp with
    | root hr hs => exact h2 _ hr hs
    | step _ ho he hs ih =>
      apply hcl _ ih _ _ hs
      unfold succs; simp [ho, he]

/-! ## Collection: safety and completeness -/

theorem skip_false_of_inside {s : State} {t : HeapId} {p : Nat} {op : Obj}
    (ho : s.obj p = some op) (hin : t <+: op.owner) : skip s t p = false := by
  unfold skip
  simp only [ho]
  have := hin.length_le
  simp only [decide_eq_false_iff_not, Nat.not_lt]
  exact this

theorem WF.lt {s : State} (h : WF s) {i : Nat} {o : Obj} (ho : s.obj i = some o) : i < s.next := by
  rcases Nat.lt_or_ge i s.next with h1 | h1
  · exact h1
  · rw [h i h1] at ho; cases ho

/-- Under the invariant, everything in the collected heaps that is reachable from ANY root of the
    system is reachable for the marker. -/
theorem reachNS_of_reach {s : State} {t : HeapId} (hwf : WF s) (hinv : Inv s) (hhomed : Homed s)
    (hg : GRootsGlobal s) (ht : t ≠ []) {p : Nat} (hr : Reach s (AllRoots s) p) :
    ∀ op, s.obj p = some op → t <+: op.owner → ReachNS s t p := by
  induction hr with
  | root hroot =>
    intro op hop hin
    rcases hroot with ⟨i, o, ho, hk, he⟩ | hgr
    · have hpre : op.owner <+: o.home := hinv i o _ op ho he hop
      exact ReachNS.root (mem_rootsOf.mpr ⟨i, o, hwf.lt ho, ho, hk, hin.trans hpre, he⟩)
        (skip_false_of_inside hop hin)
    · have := hg _ op hgr hop
      rw [this] at hin
      exact absurd (List.prefix_nil.mp hin) ht
  | @step q p o hq ho he ih =>
    intro op hop hin
    have hpre : op.owner <+: o.home := hinv q o p op ho he hop
    by_cases hk : o.kind = .thread
    · exact ReachNS.root (mem_rootsOf.mpr ⟨q, o, hwf.lt ho, ho, hk, hin.trans hpre, he⟩)
        (skip_false_of_inside hop hin)
    · have hh := hhomed q o ho hk
      rw [hh] at hpre
      exact ReachNS.step (ih o ho (hin.trans hpre)) ho he (skip_false_of_inside hop hin)

theorem reach_of_reachNS {s : State} {t : HeapId} {p : Nat} (h : ReachNS s t p) :
    Reach s (AllRoots s) p := by
  induction h with
  | root hr _ =>
    obtain ⟨i, o, _, ho, hk, _, he⟩ := mem_rootsOf.mp hr
    exact Reach.root (Or.inl ⟨i, o, ho, hk, he⟩)
  | step _ ho he _ ih => exact Reach.step ih ho he

theorem collect_obj {s s' : State} {t : HeapId} (h : collect s t = some s') :
    ∃ m, mark s t = some m ∧ s' = { s with obj := sweepObj s t m } := by
  unfold collect at h
  cases hm : mark s t with
  | none => simp [hm] at h
  | some m => simp [hm] at h; exact ⟨m, rfl, h.symm⟩

/-- **Safety.** -/
theorem collect_safe' {s s' : State} {t : HeapId} (hwf : WF s) (hinv : Inv s) (hhomed : Homed s)
    (hg : GRootsGlobal s) (ht : t ≠ []) (hc : collect s t = some s') {p : Nat} {op : Obj}
    (hop : s.obj p = some op) (hr : Reach s (AllRoots s) p) : s'.obj p = some op := by
  obtain ⟨m, hm, rfl⟩ := collect_obj hc
  show sweepObj s t m p = some op
  unfold sweepObj
  simp only [hop]
  by_cases hin : t <+: op.owner
  · have hmem : p ∈ m := (mark_spec hm p).mpr (reachNS_of_reach hwf hinv hhomed hg ht hr op hop hin)
    simp [hmem]
  · have : t.isPrefixOf op.owner = false := by
      cases hb : t.isPrefixOf op.owner
      · rfl
      · exact absurd (List.isPrefixOf_iff_prefix.mp hb) hin
    simp [this]

/-- **Completeness**: what survives in a collected heap is reachable from the roots. -/
theorem collect_complete' {s s' : State} {t : HeapId} (hc : collect s t = some s') {p : Nat}
    {op : Obj} (hop : s'.obj p = some op) (hin : t <+: op.owner) :
    Reach s (AllRoots s) p := by
  obtain ⟨m, hm, rfl⟩ := collect_obj hc
  have hop' : sweepObj s t m p = some op := hop
  unfold sweepObj at hop'
  cases ho : s.obj p with
  | none => simp [ho] at hop'
  | some o =>
    simp only [ho] at hop'
    split at hop'
    · cases hop'
    · rename_i hcnd
      cases hop'
      have hmem : p ∈ m := by
        have hcnd' := hcnd
        simp at hcnd'
        exact hcnd' hin
      exact reach_of_reachNS ((mark_spec hm p).mp hmem)

/-- A collection only removes objects; survivors are unchanged; other heaps are untouched. -/
theorem collect_sub {s s' : State} {t : HeapId} (hc : collect s t = some s') {p : Nat} {op : Obj}
    (hop : s'.obj p = some op) : s.obj p = some op := by
  obtain ⟨m, _, rfl⟩ := collect_obj hc
  have hop' : sweepObj s t m p = some op := hop
  unfold sweepObj at hop'
  cases ho : s.obj p with
  | none => simp [ho] at hop'
  | some o =>
    simp only [ho] at hop'
    split at hop'
    · cases hop'
    · exact hop'

theorem collect_other_heaps {s s' : State} {t : HeapId} (hc : collect s t = some s') {p : Nat}
    {op : Obj} (hop : s.obj p = some op) (hout : ¬ t <+: op.owner) : s'.obj p = some op := by
  obtain ⟨m, _, rfl⟩ := collect_obj hc
  show sweepObj s t m p = some op
  unfold sweepObj
  simp only [hop]
  have : t.isPrefixOf op.owner = false := by
    cases hb : t.isPrefixOf op.owner
    · rfl
    · exact absurd (List.isPrefixOf_iff_prefix.mp hb) hout
  simp [this]

theorem collect_inv {s s' : State} {t : HeapId} (hc : collect s t = some s') (hinv : Inv s) :
    Inv s' := by
  intro q oq p op hq he hp
  exact hinv q oq p op (collect_sub hc hq) he (collect_sub hc hp)

theorem collect_homed {s s' : State} {t : HeapId} (hc : collect s t = some s') (hh : Homed s) :
    Homed s' := by
  intro q oq hq hk
  exact hh q oq (collect_sub hc hq) hk

/-! ## Deep clone: ownership -/

/-- `b` extends `a`: the ids of `a` are unchanged. -/
def Ext (a b : State) : Prop := a.next ≤ b.next ∧ ∀ i, i < a.next → b.obj i = a.obj i

theorem Ext.refl (a : State) : Ext a a := ⟨Nat.le_refl _, fun _ _ => rfl⟩

theorem Ext.trans {a b c : State} (h1 : Ext a b) (h2 : Ext b c) : Ext a c :=
  ⟨Nat.le_trans h1.1 h2.1, fun i hi => by rw [h2.2 i (Nat.lt_of_lt_of_le hi h1.1), h1.2 i hi]⟩

theorem WF.push {s : State} (h : WF s) (o : Obj) : WF (s.push o) := by
  intro i hi
  simp only [State.push] at hi ⊢
  have : i ≠ s.next := by omega
  simp only [this, if_false]
  exact h i (by omega)

theorem Ext.push {s : State} (h : WF s) (o : Obj) : Ext s (s.push o) := by
  refine ⟨by simp [State.push], ?_⟩
  intro i hi
  simp only [State.push]
  have : i ≠ s.next := by omega
  simp [this]

theorem WF.setEdges {s : State} (h : WF s) (n : Nat) (es : List Nat) : WF (s.setEdges n es) := by
  intro i hi
  simp only [State.setEdges] at hi ⊢
  split
  · rename_i heq; subst heq; rw [h i hi]; rfl
  · exact h i hi

/-- `e` is a live object owned by `dst` or an ancestor. -/
def OKo (s : State) (dst : HeapId) (e : Nat) : Prop := ∃ oe, s.obj e = some oe ∧ oe.owner <+: dst

theorem OKo.mono {a b : State} {dst : HeapId} {e : Nat} (hwf : WF a) (hx : Ext a b)
    (h : OKo a dst e) : OKo b dst e := by
  obtain ⟨oe, ho, hp⟩ := h
  exact ⟨oe, by rw [hx.2 e (hwf.lt ho)]; exact ho, hp⟩

theorem OKo.setEdges {s : State} {dst : HeapId} {e : Nat} (n : Nat) (es : List Nat)
    (h : OKo s dst e) : OKo (s.setEdges n es) dst e := by
  obtain ⟨oe, ho, hp⟩ := h
  simp only [OKo, State.setEdges]
  by_cases heq : e = n
  · subst heq
    simp only [if_true, ho, Option.map_some]
    exact ⟨_, rfl, hp⟩
  · simp only [heq, if_false]
    exact ⟨oe, ho, hp⟩

/-- kinds the cloner allocates: the kind of the original; a string array only by the repaired
    rule (the unrepaired shallow copy is excluded by `CloneCtx.noShallow`). -/
def KindNew (fixed : Bool) (k : Kind) : Prop :=
  k = .plain ∨ k = .cell ∨ (k = .shallow ∧ fixed = true) ∨ k = .aarr ∨ k = .uarr

theorem KindNew.ne_thread {fixed : Bool} {k : Kind} (h : KindNew fixed k) : k ≠ .thread := by
  rcases h with h | h | ⟨h, _⟩ | h | h <;> simp [h]

theorem KindNew.ne_code {fixed : Bool} {k : Kind} (h : KindNew fixed k) : k ≠ .code := by
  rcases h with h | h | ⟨h, _⟩ | h | h <;> simp [h]

theorem KindNew.shallow_fixed {fixed : Bool} {k : Kind} (h : KindNew fixed k) (hk : k = .shallow) :
    fixed = true := by
  rcases h with h | h | ⟨_, h⟩ | h | h
  · rw [h] at hk; cases hk
  · rw [h] at hk; cases hk
  · exact h
  · rw [h] at hk; cases hk
  · rw [h] at hk; cases hk

/-- A finished copy: owned by `dst`, pointing into `dst` or `thr`, all out-edges OK. -/
def Fin (fixed : Bool) (s : State) (dst thr : HeapId) (n : Nat) : Prop :=
  ∃ o, s.obj n = some o ∧ o.owner = dst ∧ (o.home = dst ∨ (o.home = thr ∧ o.kind = .cell)) ∧
    KindNew fixed o.kind ∧ ∀ e ∈ o.edges, OKo s dst e

theorem Fin.mono {fixed : Bool} {a b : State} {dst thr : HeapId} {n : Nat} (hwf : WF a) (hx : Ext a b)
    (h : Fin fixed a dst thr n) : Fin fixed b dst thr n := by
  obtain ⟨o, ho, h1, h2, h3, h4⟩ := h
  exact ⟨o, by rw [hx.2 n (hwf.lt ho)]; exact ho, h1, h2, h3, fun e he => (h4 e he).mono hwf hx⟩

theorem Fin.setEdges_other {fixed : Bool} {s : State} {dst thr : HeapId} {n m : Nat} (es : List Nat)
    (hne : m ≠ n) (h : Fin fixed s dst thr m) : Fin fixed (s.setEdges n es) dst thr m := by
  obtain ⟨o, ho, h1, h2, h3, h4⟩ := h
  refine ⟨o, ?_, h1, h2, h3, fun e he => (h4 e he).setEdges n es⟩
  simp only [State.setEdges, hne, if_false]
  exact ho

/-- The hypotheses under which the cloner is run, relative to the state `s0` it starts in. -/
structure CloneCtx (s0 : State) (dst : HeapId) (rgen : Option Nat) (fixed : Bool)
    (Rel : Nat → Prop) : Prop where
  wf : WF s0
  live : ∀ v, Rel v → ∃ o, s0.obj v = some o
  closed : ∀ v o, Rel v → s0.obj v = some o → o.kind ≠ .thread → ∀ e ∈ o.edges, Rel e
  share : ∀ v o, Rel v → s0.obj v = some o → shareable s0 rgen v = true → o.owner <+: dst
  noShallow : ∀ v o, Rel v → s0.obj v = some o → o.kind = .shallow → fixed = true
  code : ∀ v o, Rel v → s0.obj v = some o → o.kind = .code → o.owner <+: dst

/-- Invariant of the cloner state. -/
structure CI (s0 : State) (dst : HeapId) (c : Cl) : Prop where
  wf : WF c.s
  ext : Ext s0 c.s
  vis : ∀ v n, (v, n) ∈ c.vis → ∃ o, c.s.obj n = some o ∧ o.owner = dst

/-- Postcondition of one `cloneVal`. -/
structure Post (fixed : Bool) (s0 : State) (dst thr : HeapId) (c c' : Cl) (r : Nat) : Prop where
  ci : CI s0 dst c'
  ext : Ext c.s c'.s
  ok : OKo c'.s dst r
  fin : ∀ n, c.s.next ≤ n → n < c'.s.next → Fin fixed c'.s dst thr n

structure PostL (fixed : Bool) (s0 : State) (dst thr : HeapId) (c c' : Cl) (rs : List Nat) : Prop where
  ci : CI s0 dst c'
  ext : Ext c.s c'.s
  ok : ∀ r ∈ rs, OKo c'.s dst r
  fin : ∀ n, c.s.next ≤ n → n < c'.s.next → Fin fixed c'.s dst thr n

theorem lookupVis_mem {vis : List (Nat × Nat)} {v n : Nat} (h : lookupVis vis v = some n) :
    (v, n) ∈ vis := by
  induction vis with
  | nil => simp [lookupVis] at h
  | cons a r ih =>
    obtain ⟨a1, a2⟩ := a
    simp only [lookupVis] at h
    split at h
    · rename_i heq; cases h; subst heq; exact List.mem_cons_self
    · exact List.mem_cons_of_mem _ (ih h)

theorem cloneEdges_post {fixed : Bool} {s0 : State} {dst thr : HeapId} {Rel : Nat → Prop}
    (k : Cl → Nat → Option (Cl × Nat))
    (hk : ∀ c v c' r, CI s0 dst c → Rel v → k c v = some (c', r) → Post fixed s0 dst thr c c' r) :
    ∀ (es : List Nat) (c c' : Cl) (rs : List Nat), CI s0 dst c → (∀ e ∈ es, Rel e) →
      cloneEdges k c es = some (c', rs) → PostL fixed s0 dst thr c c' rs := by
  intro es
  induction es with
  | nil =>
    intro c c' rs hci _ h
    simp [cloneEdges] at h
    obtain ⟨rfl, rfl⟩ := h
    exact ⟨hci, Ext.refl _, by simp, fun n h1 h2 => by omega⟩
  | cons e es ih =>
    intro c c' rs hci hrel h
    simp only [cloneEdges] at h
    cases hke : k c e with
    | none => simp [hke] at h
    | some p1 =>
      obtain ⟨c1, e'⟩ := p1
      simp only [hke] at h
      cases hrest : cloneEdges k c1 es with
      | none => simp [hrest] at h
      | some p2 =>
        obtain ⟨c2, es'⟩ := p2
        simp only [hrest, Option.some.injEq, Prod.mk.injEq] at h
        obtain ⟨rfl, rfl⟩ := h
        have p1 := hk c e c1 e' hci (hrel e List.mem_cons_self) hke
        have p2 := ih c1 c2 es' p1.ci (fun x hx => hrel x (List.mem_cons_of_mem _ hx)) hrest
        refine ⟨p2.ci, p1.ext.trans p2.ext, ?_, ?_⟩
        · intro r hr
          rcases List.mem_cons.mp hr with hr | hr
          · subst hr; exact p1.ok.mono p1.ci.wf p2.ext
          · exact p2.ok r hr
        · intro n h1 h2
          by_cases hn : n < c1.s.next
          · exact (p1.fin n h1 hn).mono p1.ci.wf p2.ext
          · exact p2.fin n (by omega) h2

theorem viaVisited_post {fixed : Bool} {s0 : State} {dst thr : HeapId} {Rel : Nat → Prop}
    (k : Cl → Nat → Option (Cl × Nat))
    (hk : ∀ c v c' r, CI s0 dst c → Rel v → k c v = some (c', r) → Post fixed s0 dst thr c c' r)
    {c c' : Cl} {v r : Nat} {o : Obj} {kind : Kind} {home : HeapId}
    (hci : CI s0 dst c) (hedges : ∀ e ∈ o.edges, Rel e)
    (hhome : home = dst ∨ (home = thr ∧ kind = .cell)) (hkind : KindNew fixed kind)
    (h : viaVisited k dst c v o kind home = some (c', r)) : Post fixed s0 dst thr c c' r := by
  unfold viaVisited at h
  cases hl : lookupVis c.vis v with
  | some n =>
    simp only [hl, Option.some.injEq, Prod.mk.injEq] at h
    obtain ⟨rfl, rfl⟩ := h
    obtain ⟨on, hon, hown⟩ := hci.vis v n (lookupVis_mem hl)
    exact ⟨hci, Ext.refl _, ⟨on, hon, by rw [hown]; exact List.prefix_refl _⟩, fun n h1 h2 => by omega⟩
  | none =>
    simp only [hl] at h
    -- the placeholder
    let c1 : Cl := ⟨c.s.push ⟨dst, home, kind, o.edges⟩, (v, c.s.next) :: c.vis⟩
    have hc1 : CI s0 dst c1 := by
      refine ⟨hci.wf.push _, hci.ext.trans (Ext.push hci.wf _), ?_⟩
      intro v' n' hmem
      rcases List.mem_cons.mp hmem with heq | hmem
      · cases heq
        exact ⟨⟨dst, home, kind, o.edges⟩, by simp [c1, State.push], rfl⟩
      · obtain ⟨on, hon, hown⟩ := hci.vis v' n' hmem
        refine ⟨on, ?_, hown⟩
        show (c.s.push _).obj n' = some on
        rw [(Ext.push hci.wf _).2 n' (hci.wf.lt hon)]; exact hon
    cases hce : cloneEdges k c1 o.edges with
    | none => simp [c1] at hce; simp [hce] at h
    | some p2 =>
      obtain ⟨c2, es⟩ := p2
      have hce' := hce
      simp only [c1] at hce'
      simp only [hce', Option.some.injEq, Prod.mk.injEq] at h
      obtain ⟨rfl, rfl⟩ := h
      have pl := cloneEdges_post k hk o.edges c1 c2 es hc1 hedges hce
      have hn1 : c.s.next < c1.s.next := by simp [c1, State.push]
      have hplace : c2.s.obj c.s.next = some ⟨dst, home, kind, o.edges⟩ := by
        rw [pl.ext.2 _ hn1]; simp [c1, State.push]
      have hs0n : s0.next ≤ c.s.next := hci.ext.1
      refine ⟨⟨pl.ci.wf.setEdges _ _, ?_, ?_⟩, ?_, ?_, ?_⟩
      · refine ⟨Nat.le_trans pl.ci.ext.1 (by simp [State.setEdges]), ?_⟩
        intro i hi
        have hne : i ≠ c.s.next := by omega
        simp only [State.setEdges, hne, if_false]
        exact pl.ci.ext.2 i hi
      · intro v' n' hmem
        obtain ⟨on, hon, hown⟩ := pl.ci.vis v' n' hmem
        simp only [State.setEdges]
        by_cases heq : n' = c.s.next
        · subst heq
          simp only [if_true, hon, Option.map_some]
          exact ⟨_, rfl, hown⟩
        · simp only [heq, if_false]; exact ⟨on, hon, hown⟩
      · refine ⟨by simp only [State.setEdges]; exact Nat.le_trans (Nat.le_of_lt hn1) pl.ext.1, ?_⟩
        intro i hi
        have hne : i ≠ c.s.next := by omega
        simp only [State.setEdges, hne, if_false]
        rw [pl.ext.2 i (by omega)]
        exact (Ext.push hci.wf _).2 i hi
      · refine ⟨⟨dst, home, kind, es⟩, ?_, List.prefix_refl _⟩
        simp [State.setEdges, hplace]
      · intro n h1 h2
        by_cases hn : n = c.s.next
        · subst hn
          refine ⟨⟨dst, home, kind, es⟩, by simp [State.setEdges, hplace], rfl, hhome, hkind, ?_⟩
          intro e he
          exact (pl.ok e he).setEdges _ _
        · have h2' : n < c2.s.next := by simpa [State.setEdges] using h2
          exact (pl.fin n (by simp [c1, State.push]; omega) h2').setEdges_other es hn

theorem shareable_ext {s0 s : State} {rgen : Option Nat} {v : Nat} (hx : Ext s0 s)
    (hv : v < s0.next) : shareable s rgen v = shareable s0 rgen v := by
  unfold shareable; rw [hx.2 v hv]

theorem cloneVal_post {s0 : State} {dst thr : HeapId} {rgen : Option Nat} {fixed : Bool}
    {Rel : Nat → Prop} (ctx : CloneCtx s0 dst rgen fixed Rel) :
    ∀ (f : Nat) (ns : Bool) (c : Cl) (v : Nat) (c' : Cl) (r : Nat), CI s0 dst c → Rel v →
      cloneVal dst thr rgen fixed f ns c v = some (c', r) → Post fixed s0 dst thr c c' r := by
  intro f
  induction f with
  | zero => intro ns c v c' r _ _ h; simp [cloneVal] at h
  | succ f ih =>
    intro ns c v c' r hci hrel h
    obtain ⟨o, ho⟩ := ctx.live v hrel
    have hv : v < s0.next := ctx.wf.lt ho
    have hoc : c.s.obj v = some o := by rw [hci.ext.2 v hv]; exact ho
    have hsh := shareable_ext (rgen := rgen) hci.ext hv
    simp only [cloneVal] at h
    by_cases hs : (!ns && shareable s0 rgen v) = true
    · rw [hsh, hs] at h
      simp only [if_true, Option.some.injEq, Prod.mk.injEq] at h
      obtain ⟨rfl, rfl⟩ := h
      have hs2 : shareable s0 rgen v = true := by
        simp only [Bool.and_eq_true] at hs; exact hs.2
      exact ⟨hci, Ext.refl _, ⟨o, hoc, ctx.share v o hrel ho hs2⟩, fun n h1 h2 => by omega⟩
    · rw [hsh] at h
      simp only [hs, if_false, hoc] at h
      have hedges : o.kind ≠ .thread → ∀ e ∈ o.edges, Rel e := ctx.closed v o hrel ho
      cases hk : o.kind with
      | udata => simp [hk] at h
      | thread => simp [hk] at h
      | code =>
        simp only [hk, Option.some.injEq, Prod.mk.injEq] at h
        obtain ⟨rfl, rfl⟩ := h
        exact ⟨hci, Ext.refl _, ⟨o, hoc, ctx.code v o hrel ho hk⟩, fun n h1 h2 => by omega⟩
      | plain =>
        simp only [hk] at h
        exact viaVisited_post _ (ih false) hci (hedges (by simp [hk])) (Or.inl rfl) (Or.inl rfl) h
      | aarr =>
        simp only [hk] at h
        exact viaVisited_post _ (ih (!fixed)) hci (hedges (by simp [hk])) (Or.inl rfl)
          (Or.inr (Or.inr (Or.inr (Or.inl rfl)))) h
      | uarr =>
        simp only [hk] at h
        exact viaVisited_post _ (ih (!fixed)) hci (hedges (by simp [hk])) (Or.inl rfl)
          (Or.inr (Or.inr (Or.inr (Or.inr rfl)))) h
      | shallow =>
        have hfx := ctx.noShallow v o hrel ho hk
        subst hfx
        simp only [hk, if_true] at h
        exact viaVisited_post _ (ih false) hci (hedges (by simp [hk])) (Or.inl rfl)
          (Or.inr (Or.inr (Or.inl ⟨rfl, rfl⟩))) h
      | cell =>
        simp only [hk] at h
        cases fixed with
        | true =>
          simp only [if_true] at h
          exact viaVisited_post _ (ih false) hci (hedges (by simp [hk])) (Or.inr ⟨rfl, rfl⟩)
            (Or.inr (Or.inl rfl)) h
        | false =>
          simp only [Bool.false_eq_true, if_false] at h
          unfold cellCopy at h
          cases hce : cloneEdges (cloneVal dst thr rgen false f false) c o.edges with
          | none => simp [hce] at h
          | some p2 =>
            obtain ⟨c2, es⟩ := p2
            simp only [hce, Option.some.injEq, Prod.mk.injEq] at h
            obtain ⟨rfl, rfl⟩ := h
            have pl := cloneEdges_post _ (ih false) o.edges c c2 es hci (hedges (by simp [hk])) hce
            have hx := Ext.push pl.ci.wf ⟨dst, thr, Kind.cell, es⟩
            refine ⟨⟨pl.ci.wf.push _, pl.ci.ext.trans hx, ?_⟩, pl.ext.trans hx, ?_, ?_⟩
            · intro v' n' hmem
              obtain ⟨on, hon, hown⟩ := pl.ci.vis v' n' hmem
              exact ⟨on, by rw [hx.2 n' (pl.ci.wf.lt hon)]; exact hon, hown⟩
            · exact ⟨⟨dst, thr, Kind.cell, es⟩, by simp [State.push], List.prefix_refl _⟩
            · intro n h1 h2
              by_cases hn : n = c2.s.next
              · subst hn
                refine ⟨⟨dst, thr, Kind.cell, es⟩, by simp [State.push], rfl, Or.inr ⟨rfl, rfl⟩,
                  Or.inr (Or.inl rfl), ?_⟩
                intro e he
                exact (pl.ok e he).mono pl.ci.wf hx
              · have : n < c2.s.next := by simp [State.push] at h2; omega
                exact (pl.fin n h1 this).mono pl.ci.wf hx

/-- No dangling pointers: every out-edge of a live object is live. -/
def NoDangling (s : State) : Prop := ∀ q o, s.obj q = some o → ∀ e ∈ o.edges, ∃ oe, s.obj e = some oe

theorem deepClone_post {s0 s' : State} {dst thr : HeapId} {rgen : Option Nat} {fixed : Bool}
    {Rel : Nat → Prop} (ctx : CloneCtx s0 dst rgen fixed Rel) {v r : Nat} (hv : Rel v)
    (h : deepClone s0 dst thr rgen fixed v = some (s', r)) :
    WF s' ∧ Ext s0 s' ∧ OKo s' dst r ∧ ∀ n, s0.next ≤ n → n < s'.next → Fin fixed s' dst thr n := by
  unfold deepClone at h
  cases hc : cloneVal dst thr rgen fixed (cloneFuel s0) false ⟨s0, []⟩ v with
  | none => simp [hc] at h
  | some p =>
    obtain ⟨c, r'⟩ := p
    simp only [hc, Option.some.injEq, Prod.mk.injEq] at h
    obtain ⟨rfl, rfl⟩ := h
    have hci : CI s0 dst ⟨s0, []⟩ := ⟨ctx.wf, Ext.refl _, by intro v n h; simp at h⟩
    have p := cloneVal_post (thr := thr) ctx _ _ _ _ _ _ hci hv hc
    exact ⟨p.ci.wf, p.ext, p.ok, p.fin⟩

/-- The cloner keeps the heap invariant (also when it clones into the global heap on behalf of a
    thread, `dst = []`). -/
theorem deepClone_inv {s0 s' : State} {dst thr : HeapId} {rgen : Option Nat} {fixed : Bool}
    {Rel : Nat → Prop} (ctx : CloneCtx s0 dst rgen fixed Rel) (hnd : NoDangling s0)
    (hinv : Inv s0) (hthr : dst <+: thr) {v r : Nat} (hv : Rel v)
    (h : deepClone s0 dst thr rgen fixed v = some (s', r)) : Inv s' := by
  obtain ⟨hwf', hext, _, hfin⟩ := deepClone_post ctx hv h
  intro q oq p op hq he hp
  by_cases hqo : q < s0.next
  · rw [hext.2 q hqo] at hq
    obtain ⟨op0, hp0⟩ := hnd q oq hq p he
    have hplt := ctx.wf.lt hp0
    rw [hext.2 p hplt] at hp
    exact hinv q oq p op hq he hp
  · obtain ⟨o, ho, hown, hhome, _, hedges⟩ := hfin q (by omega) (hwf'.lt hq)
    rw [ho] at hq; cases hq
    obtain ⟨oe, hoe, hpre⟩ := hedges p he
    rw [hoe] at hp; cases hp
    rcases hhome with hh | ⟨hh, _⟩
    · rw [hh]; exact hpre
    · rw [hh]; exact hpre.trans hthr

theorem deepClone_homed {s0 s' : State} {dst : HeapId} {rgen : Option Nat} {fixed : Bool}
    {Rel : Nat → Prop} (ctx : CloneCtx s0 dst rgen fixed Rel) (hh : Homed s0) {v r : Nat}
    (hv : Rel v) (h : deepClone s0 dst dst rgen fixed v = some (s', r)) : Homed s' := by
  obtain ⟨hwf', hext, _, hfin⟩ := deepClone_post ctx hv h
  intro q oq hq hk
  by_cases hqo : q < s0.next
  · rw [hext.2 q hqo] at hq
    exact hh q oq hq hk
  · obtain ⟨o, ho, hown, hhome, _, _⟩ := hfin q (by omega) (hwf'.lt hq)
    rw [ho] at hq; cases hq
    rcases hhome with h1 | ⟨h1, _⟩ <;> rw [h1, hown]

/-! ### The generation shortcut -/

/-- Objects the cloner looks at: below `v0`, descending only through objects it copies. -/
inductive CopyReach (s : State) (rgen : Option Nat) (v0 : Nat) : Nat → Prop
  | root : CopyReach s rgen v0 v0
  | step {q p o} : CopyReach s rgen v0 q → s.obj q = some o →
      o.kind ≠ .thread → p ∈ o.edges → CopyReach s rgen v0 p

theorem copyReach_owner {s : State} {rgen : Option Nat} {v0 : Nat} {src : HeapId}
    (hinv : Inv s) (hh : Homed s) (h0 : ∀ o, s.obj v0 = some o → o.owner <+: src) {p : Nat}
    (hp : CopyReach s rgen v0 p) : ∀ op, s.obj p = some op → op.owner <+: src := by
  induction hp with
  | root => exact h0
  | @step q p o _ ho hk he ih =>
    intro op hop
    have h1 := hinv q o p op ho he hop
    rw [hh q o ho hk] at h1
    exact h1.trans (ih o ho)

/-- **The generation shortcut is sound when `can_share_values_with` holds**: a value below
    something thread `src` holds whose generation is at most `dst`'s lives in `dst`'s heap or an
    ancestor of it, provided one of `src`, `dst` is an ancestor of the other. -/
theorem shortcut_sound' {s : State} {v0 : Nat} {src dst : HeapId} (hinv : Inv s) (hh : Homed s)
    (h0 : ∀ o, s.obj v0 = some o → o.owner <+: src) (hcs : src <+: dst ∨ dst <+: src)
    {p : Nat} {op : Obj} (hp : CopyReach s (some dst.length) v0 p) (hop : s.obj p = some op)
    (hs : shareable s (some dst.length) p = true) : op.owner <+: dst := by
  have hsrc := copyReach_owner hinv hh h0 hp op hop
  rcases hcs with h | h
  · exact hsrc.trans h
  · have hlen : op.owner.length ≤ dst.length := by
      unfold shareable at hs; simpa [hop] using hs
    exact List.prefix_of_prefix_length_le hsrc h hlen

theorem rgenFor_cases {sameVm : Bool} {src dst : HeapId} :
    (rgenFor sameVm src dst = some dst.length ∧ (src <+: dst ∨ dst <+: src)) ∨
    rgenFor sameVm src dst = none := by
  unfold rgenFor canShare
  by_cases h : (dst == src || (sameVm && (dst.isPrefixOf src || src.isPrefixOf dst))) = true
  · left
    simp only [h, if_true, true_and]
    simp only [Bool.or_eq_true, Bool.and_eq_true, beq_iff_eq, List.isPrefixOf_iff_prefix] at h
    rcases h with h | ⟨_, h | h⟩
    · subst h; exact Or.inl (List.prefix_refl _)
    · exact Or.inr h
    · exact Or.inl h
  · right; simp [h]

theorem cloneCtx_of_transfer {s : State} {sameVm fixed : Bool} {src dst : HeapId} {v0 : Nat}
    (hwf : WF s) (hnd : NoDangling s) (hinv : Inv s) (hh : Homed s)
    (hlive : ∃ o, s.obj v0 = some o) (h0 : ∀ o, s.obj v0 = some o → o.owner <+: src)
    (hns : ∀ p o, CopyReach s (rgenFor sameVm src dst) v0 p → s.obj p = some o →
      o.kind = .shallow → fixed = true)
    (hcode : ∀ p o, CopyReach s (rgenFor sameVm src dst) v0 p → s.obj p = some o →
      o.kind = .code → o.owner = []) :
    CloneCtx s dst (rgenFor sameVm src dst) fixed (CopyReach s (rgenFor sameVm src dst) v0) := by
  refine ⟨hwf, ?_, ?_, ?_, ?_, ?_⟩
  rotate_right
  · intro v o hv ho hk
    rw [hcode v o hv ho hk]; exact List.nil_prefix
  · intro v hv
    cases hv with
    | root => exact hlive
    | step _ ho _ he => exact hnd _ _ ho _ he
  · intro v o hv ho hk e he
    exact CopyReach.step hv ho hk he
  · intro v o hv ho hs
    rcases rgenFor_cases (sameVm := sameVm) (src := src) (dst := dst) with ⟨hr, hcs⟩ | hr
    · rw [hr] at hv hs
      exact shortcut_sound' hinv hh h0 hcs hv ho hs
    · rw [hr] at hs
      unfold shareable at hs; simp [ho] at hs
  · intro v o hv ho hk
    exact hns v o hv ho hk

/-! ### Rooting the copy; the transfer as a whole -/

theorem addRoot_obj {s : State} {t : HeapId} {r i : Nat} {o : Obj}
    (h : (addRoot s t r).obj i = some o) :
    ∃ o0, s.obj i = some o0 ∧ o.owner = o0.owner ∧ o.home = o0.home ∧ o.kind = o0.kind ∧
      (o.edges = o0.edges ∨ (o.edges = r :: o0.edges ∧ o0.kind = .thread ∧ o0.home = t)) := by
  have h' : addRootObj s t r i = some o := h
  unfold addRootObj at h'
  cases ho : s.obj i with
  | none => simp [ho] at h'
  | some o0 =>
    simp only [ho] at h'
    by_cases hc : o0.kind = .thread ∧ o0.home = t
    · rw [if_pos hc] at h'
      have e := Option.some.inj h'
      subst e
      exact ⟨o0, rfl, rfl, rfl, rfl, Or.inr ⟨rfl, hc.1, hc.2⟩⟩
    · rw [if_neg hc] at h'
      have e := Option.some.inj h'
      subst e
      exact ⟨o0, rfl, rfl, rfl, rfl, Or.inl rfl⟩

theorem addRoot_inv {s : State} {t : HeapId} {r : Nat} (hinv : Inv s) (hr : OKo s t r) :
    Inv (addRoot s t r) := by
  intro q oq p op hq he hp
  obtain ⟨oq0, hq0, _, hqh, _, hqe⟩ := addRoot_obj hq
  obtain ⟨op0, hp0, hpo, _, _, _⟩ := addRoot_obj hp
  rw [hpo, hqh]
  rcases hqe with hqe | ⟨hqe, _, hhome⟩
  · rw [hqe] at he; exact hinv q oq0 p op0 hq0 he hp0
  · rw [hqe] at he
    rcases List.mem_cons.mp he with he | he
    · subst he
      obtain ⟨orr, hor, hpre⟩ := hr
      rw [hor] at hp0; cases hp0
      rw [hhome]; exact hpre
    · exact hinv q oq0 p op0 hq0 he hp0

theorem addRoot_homed {s : State} {t : HeapId} {r : Nat} (hh : Homed s) : Homed (addRoot s t r) := by
  intro q oq hq hk
  obtain ⟨oq0, hq0, ho, hhm, hkk, _⟩ := addRoot_obj hq
  rw [ho, hhm]; exact hh q oq0 hq0 (by rw [← hkk]; exact hk)

theorem addRoot_wf {s : State} {t : HeapId} {r : Nat} (hwf : WF s) : WF (addRoot s t r) := by
  intro i hi
  show addRootObj s t r i = none
  unfold addRootObj
  rw [hwf i hi]

/-- The whole transfer (`re_root` / push / channel send) keeps the heap invariant and the homing of
    every object, and the copy is owned by the destination heap or an ancestor of it. -/
theorem transfer_inv' {s s' : State} {sameVm fixed : Bool} {src dst : HeapId} {v r : Nat}
    (hwf : WF s) (hnd : NoDangling s) (hinv : Inv s) (hh : Homed s)
    (hlive : ∃ o, s.obj v = some o) (h0 : ∀ o, s.obj v = some o → o.owner <+: src)
    (hns : ∀ p o, CopyReach s (rgenFor sameVm src dst) v p → s.obj p = some o →
      o.kind = .shallow → fixed = true)
    (hcode : ∀ p o, CopyReach s (rgenFor sameVm src dst) v p → s.obj p = some o →
      o.kind = .code → o.owner = [])
    (h : transfer s sameVm src dst fixed v = some (s', r)) :
    WF s' ∧ Inv s' ∧ Homed s' ∧ OKo s' dst r := by
  unfold transfer at h
  cases hd : deepClone s dst dst (rgenFor sameVm src dst) fixed v with
  | none => simp [hd] at h
  | some p =>
    obtain ⟨s1, r1⟩ := p
    simp only [hd, Option.some.injEq, Prod.mk.injEq] at h
    obtain ⟨rfl, rfl⟩ := h
    have ctx := cloneCtx_of_transfer (sameVm := sameVm) (fixed := fixed) (src := src) (dst := dst)
      hwf hnd hinv hh hlive h0 hns hcode
    obtain ⟨hwf1, _, hok, _⟩ := deepClone_post ctx CopyReach.root hd
    have hinv1 := deepClone_inv ctx hnd hinv (List.prefix_refl _) CopyReach.root hd
    have hh1 := deepClone_homed ctx hh CopyReach.root hd
    refine ⟨addRoot_wf hwf1, addRoot_inv hinv1 hok, addRoot_homed hh1, ?_⟩
    obtain ⟨orr, hor, hpre⟩ := hok
    have : (addRoot s1 dst r1).obj r1 = addRootObj s1 dst r1 r1 := rfl
    unfold addRootObj at this
    rw [hor] at this
    by_cases hc : orr.kind = .thread ∧ orr.home = dst
    · simp only [if_pos hc] at this; exact ⟨_, this, hpre⟩
    · simp only [if_neg hc] at this; exact ⟨_, this, hpre⟩

/-- Everything below a value some thread holds survives every collection. -/
theorem held_value_survives {s s' : State} {t : HeapId} {r : Nat} (hwf : WF s) (hinv : Inv s)
    (hh : Homed s) (hg : GRootsGlobal s) (ht : t ≠ []) (hroot : AllRoots s r)
    (hc : collect s t = some s') {p : Nat} {op : Obj} (hp : Reach s (fun x => x = r) p)
    (hop : s.obj p = some op) : s'.obj p = some op := by
  refine collect_safe' hwf hinv hh hg ht hc hop ?_
  clear hop
  induction hp with
  | root hx => subst hx; exact Reach.root hroot
  | step _ ho he ih => exact Reach.step ih ho he

end GluonModel.GcHeap
